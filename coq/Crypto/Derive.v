(* Crypto/Derive.v — the length and the cutting of a derived secret key (definitions only; theorems and the tie to the
   regenerated deriveDH / deriveECDH / deriveEDDSA / deriveSymmetric / checkKeyLength are in Crypto/DeriveFacts.v; the
   functions are extracted into ocaml/paddrv and run against the library by K-crypto C13). *)
From Coq Require Import List NArith Bool Arith.
From SoftHSM Require Import Gen_Const Defs Pad.
Import ListNotations.
Local Open Scope N_scope.

(* DH and the symmetric derivations: fixed-size key types take no CKA_VALUE_LEN, the others need one *)
Definition derive_len_strict (kt req : N) : N + N :=
  if kt =? CKK_GENERIC_SECRET then (if req =? 0 then inl CKR_TEMPLATE_INCOMPLETE else inr req)
  else if kt =? CKK_DES then (if negb (req =? 0) then inl CKR_ATTRIBUTE_READ_ONLY else inr 8)
  else if kt =? CKK_DES2 then (if negb (req =? 0) then inl CKR_ATTRIBUTE_READ_ONLY else inr 16)
  else if kt =? CKK_DES3 then (if negb (req =? 0) then inl CKR_ATTRIBUTE_READ_ONLY else inr 24)
  else if kt =? CKK_AES then (if negb (req =? 16) && negb (req =? 24) && negb (req =? 32) then inl CKR_ATTRIBUTE_VALUE_INVALID else inr req)
  else inl CKR_ATTRIBUTE_VALUE_INVALID.

(* ECDH / EDDSA: 0 means "the default"; a fixed-size type accepts its own size *)
Definition derive_len_lax (kt req : N) : N + N :=
  if kt =? CKK_GENERIC_SECRET then inr req
  else if kt =? CKK_DES then (if negb (req =? 0) && negb (req =? 8) then inl CKR_ATTRIBUTE_VALUE_INVALID else inr 8)
  else if kt =? CKK_DES2 then (if negb (req =? 0) && negb (req =? 16) then inl CKR_ATTRIBUTE_VALUE_INVALID else inr 16)
  else if kt =? CKK_DES3 then (if negb (req =? 0) && negb (req =? 24) then inl CKR_ATTRIBUTE_VALUE_INVALID else inr 24)
  else if kt =? CKK_AES then (if negb (req =? 0) && negb (req =? 16) && negb (req =? 24) && negb (req =? 32) then inl CKR_ATTRIBUTE_VALUE_INVALID else inr req)
  else inl CKR_ATTRIBUTE_VALUE_INVALID.

(* the lengths a secret key of a type may have (checkKeyLength) *)
Definition len_fits (kt n : N) : bool :=
  if kt =? CKK_GENERIC_SECRET then true
  else if kt =? CKK_DES then n =? 8 else if kt =? CKK_DES2 then n =? 16 else if kt =? CKK_DES3 then n =? 24
  else if kt =? CKK_AES then (n =? 16) || (n =? 24) || (n =? 32) else false.

(* ---- the rest of deriveDH / deriveECDH (hand model): default, cut from the leading end, parity ---- *)
Definition is_des_type (kt : N) : bool := (kt =? CKK_DES) || (kt =? CKK_DES2) || (kt =? CKK_DES3).

(* "For generic and AES keys: default to return max size available" *)
Definition default_len (kt n slen : N) : N :=
  if n =? 0 then
    if kt =? CKK_GENERIC_SECRET then slen
    else if kt =? CKK_AES then (if 32 <=? slen then 32 else if 24 <=? slen then 24 else 16)
    else n
  else n.

(* secretValue.split(size - byteLen): the LAST byteLen bytes are kept *)
Definition derive_tail (n : nat) (secret : bytes) : option bytes :=
  if (length secret <? n)%nat then None else Some (skipn (length secret - n) secret).

Definition agree_value (kt n : N) (secret : bytes) : option bytes :=
  match derive_tail (N.to_nat (default_len kt n (N.of_nat (length secret)))) secret with
  | None => None
  | Some v => Some (if is_des_type kt then odd_parity v else v)
  end.

