(* Crypto/OpFacts.v — one active operation per session and an honest output-length protocol (C12). *)
From Coq Require Import List NArith Bool Lia ZArith ZifyBool ZifyN.
From SoftHSM Require Import Gen_Const OpModel.
Import ListNotations.
Local Open Scope N_scope.
Ltac Zify.zify_post_hook ::= Z.div_mod_to_equations.

Definition is_init (c : call) : bool :=
  match c with CInitSym _ _ _ _ _ | CInitDigest _ | CInitMac _ | CInitFind => true | _ => false end.

(* starting another operation while one is active: CKR_OPERATION_ACTIVE, and the active one is untouched *)
Theorem init_when_active (st : active) (c : call) :
  is_init c = true -> st <> ANone -> r_rv (do_call st c) = CKR_OPERATION_ACTIVE /\ r_st (do_call st c) = st /\ r_written (do_call st c) = 0.
Proof. destruct c; try discriminate; intros _ H; destruct st; try congruence; cbn; auto. Qed.

Theorem init_when_idle (c : call) :
  is_init c = true -> r_rv (do_call ANone c) = CKR_OK /\ r_st (do_call ANone c) <> ANone.
Proof. destruct c; try discriminate; intros _; cbn; split; try reflexivity; discriminate. Qed.

(* continuing an operation that was not started (or one of another kind): CKR_OPERATION_NOT_INITIALIZED,
   nothing changes, nothing is written *)
Definition call_kind (c : call) : option N :=
  match c with CUpdate k _ _ | CFinal k _ | CSingle k _ _ => Some k | CFindFinal => Some SESSION_OP_FIND | _ => None end.

Theorem continue_without_init (st : active) (c : call) (k : N) :
  call_kind c = Some k -> kind_of st <> k ->
  r_rv (do_call st c) = CKR_OPERATION_NOT_INITIALIZED /\ r_st (do_call st c) = st /\ r_written (do_call st c) = 0.
Proof.
  destruct c; cbn [call_kind]; try discriminate; intros E H; inversion E; subst; cbn [do_call].
  1-3: apply N.eqb_neq in H; rewrite H; cbn; auto.
  destruct st; cbn in *; try (auto; fail). exfalso. apply H. reflexivity.
Qed.

(* a length query (NULL output pointer) that answers CKR_OK, and a CKR_BUFFER_TOO_SMALL answer, leave the
   operation active and unchanged and write nothing *)
Lemma sym_update_keeps o len buf :
  (buf = None \/ r_rv (sym_update o len buf) = CKR_BUFFER_TOO_SMALL) ->
  r_rv (sym_update o len buf) = CKR_OK \/ r_rv (sym_update o len buf) = CKR_BUFFER_TOO_SMALL ->
  r_st (sym_update o len buf) = ASym o /\ r_written (sym_update o len buf) = 0.
Proof.
  unfold sym_update. destruct buf as [have|]; cbn.
  - repeat match goal with |- context [if ?c then _ else _] => destruct c end; cbn; intros [H|H] H2; try discriminate; auto;
    try (vm_compute in H; discriminate).
  - auto.
Qed.

Lemma sym_final_keeps o buf :
  (buf = None \/ r_rv (sym_final o buf) = CKR_BUFFER_TOO_SMALL) ->
  r_rv (sym_final o buf) = CKR_OK \/ r_rv (sym_final o buf) = CKR_BUFFER_TOO_SMALL ->
  r_st (sym_final o buf) = ASym o /\ r_written (sym_final o buf) = 0.
Proof.
  unfold sym_final. destruct buf as [have|]; cbn;
  repeat match goal with |- context [if ?c then _ else _] => destruct c
                    | |- context [match ?m with ECB => _ | _ => _ end] => destruct m end; cbn;
  intros [H|H] H2; try discriminate; auto; try (vm_compute in H; discriminate);
  try (destruct H2 as [H2|H2]; vm_compute in H2; discriminate).
Qed.

Lemma sym_single_keeps o len buf :
  (buf = None \/ r_rv (sym_single o len buf) = CKR_BUFFER_TOO_SMALL) ->
  r_rv (sym_single o len buf) = CKR_OK \/ r_rv (sym_single o len buf) = CKR_BUFFER_TOO_SMALL ->
  r_st (sym_single o len buf) = ASym o /\ r_written (sym_single o len buf) = 0.
Proof.
  unfold sym_single. destruct buf as [have|]; cbn;
  repeat match goal with |- context [if ?c then _ else _] => destruct c
                    | |- context [match ?m with ECB => _ | _ => _ end] => destruct m end; cbn;
  intros [H|H] H2; try discriminate; auto; try (vm_compute in H; discriminate);
  try (destruct H2 as [H2|H2]; vm_compute in H2; discriminate).
Qed.

Definition call_buf (c : call) : option obuf :=
  match c with CUpdate _ _ b | CFinal _ b | CSingle _ _ b => Some b | _ => None end.

Theorem query_or_too_small_keeps_operation (st : active) (c : call) (b : obuf) :
  call_buf c = Some b ->
  (b = None /\ r_rv (do_call st c) = CKR_OK) \/ r_rv (do_call st c) = CKR_BUFFER_TOO_SMALL ->
  match st, c with
  | (ADigest _ | AMac _), CUpdate _ _ _ => True        (* C_DigestUpdate / C_SignUpdate have no output buffer *)
  | _, _ => r_st (do_call st c) = st /\ r_written (do_call st c) = 0
  end.
Proof.
  destruct c; cbn [call_buf]; try discriminate; intros E; inversion E; subst; clear E; cbn [do_call]; intros H.
  - (* update *) destruct (negb (kind_of st =? kind)); [destruct st; cbn; auto|].
    destruct st; cbn in *; auto.
    apply sym_update_keeps; [destruct H as [[H _]|H]; auto|destruct H as [[_ H]|H]; auto].
  - destruct (negb (kind_of st =? kind)); [destruct st; cbn; auto|].
    destruct st; cbn in *; auto.
    + apply sym_final_keeps; [destruct H as [[H _]|H]; auto|destruct H as [[_ H]|H]; auto].
    + unfold fixed_out in *. destruct b as [have|]; cbn in *; [|auto]. destruct (have <? size); cbn in *; auto.
      destruct H as [[H _]|H]; [discriminate|vm_compute in H; discriminate].
    + unfold fixed_out in *. destruct b as [have|]; cbn in *; [|auto]. destruct (have <? size); cbn in *; auto.
      destruct H as [[H _]|H]; [discriminate|vm_compute in H; discriminate].
  - destruct (negb (kind_of st =? kind)); [destruct st; cbn; auto|].
    destruct st; cbn in *; auto.
    + apply sym_single_keeps; [destruct H as [[H _]|H]; auto|destruct H as [[_ H]|H]; auto].
    + unfold fixed_out in *. destruct b as [have|]; cbn in *; [|auto]. destruct (have <? size); cbn in *; auto.
      destruct H as [[H _]|H]; [discriminate|vm_compute in H; discriminate].
    + unfold fixed_out in *. destruct b as [have|]; cbn in *; [|auto]. destruct (have <? size); cbn in *; auto.
      destruct H as [[H _]|H]; [discriminate|vm_compute in H; discriminate].
Qed.

(* reachable operation states: at most 2^35 bytes buffered or supplied per call, tag at most 16 bytes
   (C_EncryptInit / C_DecryptInit refuse ulTagBits > 128) *)
Definition sane (o : symop) (len : N) : Prop := so_buf o + len < 34359738368 /\ so_tag o <= 16.

Ltac break_ifs :=
  repeat match goal with
         | |- context [if ?c then _ else _] => destruct c eqn:?
         | |- context [match ?m with ECB => _ | _ => _ end] => destruct m eqn:?
         end.

Lemma w64_small x : x < M64 -> w64 x = x.
Proof. unfold w64. intros H. apply N.mod_small. exact H. Qed.

Lemma int32_small x : x < 2147483648 -> int32_as_size x = x.
Proof.
  unfold int32_as_size. intros H. rewrite N.mod_small by lia.
  destruct (x <? 2147483648) eqn:E; [reflexivity|]. apply N.ltb_ge in E. lia.
Qed.

(* no call writes more bytes than the caller announced, nor more than it reports *)
Theorem no_overwrite (st : active) (c : call) (have : N) :
  call_buf c = Some (Some have) ->
  match st with ASym o => so_tag o <= 16 /\ so_buf o < 34359738368 | _ => True end ->
  r_written (do_call st c) <= have /\
  (r_rv (do_call st c) = CKR_OK -> r_written (do_call st c) = 0 \/ r_len (do_call st c) = Some (r_written (do_call st c))).
Proof.
  destruct c; cbn [call_buf]; try discriminate; intros E Hs; inversion E; subst; clear E; cbn [do_call].
  - destruct (negb (kind_of st =? kind)); [destruct st; cbn; split; auto; lia|].
    destruct st; cbn; try (split; auto; lia).
    unfold sym_update. cbn. break_ifs; cbn; split; auto; try lia.
  - destruct (negb (kind_of st =? kind)); [destruct st; cbn; split; auto; lia|].
    destruct st; cbn; try (split; auto; lia).
    + destruct Hs as [Ht Hb]. unfold sym_final, sub64, w64, M64, BS, is_block. cbn.
      break_ifs; cbn; split; auto; try lia.
    + unfold fixed_out. destruct (have <? size) eqn:?; cbn; split; auto; lia.
    + unfold fixed_out. destruct (have <? size) eqn:?; cbn; split; auto; lia.
  - destruct (negb (kind_of st =? kind)); [destruct st; cbn; split; auto; lia|].
    destruct st; cbn; try (split; auto; lia).
    + destruct Hs as [Ht Hb]. unfold sym_single, sub64, w64, M64, BS, is_block. cbn.
      break_ifs; cbn; split; auto; try lia.
    + unfold fixed_out. destruct (have <? size) eqn:?; cbn; split; auto; lia.
    + unfold fixed_out. destruct (have <? size) eqn:?; cbn; split; auto; lia.
Qed.

(* the length reported by a query or a CKR_BUFFER_TOO_SMALL answer is sufficient: repeating the call with a
   buffer of at least that size is not answered CKR_BUFFER_TOO_SMALL *)
Definition with_buf_call (c : call) (b : obuf) : call :=
  match c with
  | CUpdate k l _ => CUpdate k l b
  | CFinal k _ => CFinal k b
  | CSingle k l _ => CSingle k l b
  | _ => c
  end.

Theorem reported_sufficient (st : active) (c : call) (b : obuf) (n have : N) :
  call_buf c = Some b ->
  (r_rv (do_call st c) = CKR_OK /\ b = None) \/ r_rv (do_call st c) = CKR_BUFFER_TOO_SMALL ->
  r_len (do_call st c) = Some n -> n <= have ->
  r_rv (do_call st (with_buf_call c (Some have))) <> CKR_BUFFER_TOO_SMALL.
Proof.
  destruct c; cbn [call_buf]; try discriminate; intros E; inversion E; subst; clear E; cbn [do_call with_buf_call].
  - destruct (negb (kind_of st =? kind)); [destruct st; cbn; intros; discriminate|].
    destruct st; cbn; try (intros; discriminate).
    unfold sym_update. destruct b as [hv|]; cbn; break_ifs; cbn; intros H1 H2 H3; inversion H2; subst;
      try discriminate; try (destruct H1 as [[H1 H1']|H1]; discriminate); try lia.
  - destruct (negb (kind_of st =? kind)); [destruct st; cbn; intros; discriminate|].
    destruct st; cbn; try (intros; discriminate).
    + unfold sym_final. destruct b as [hv|]; cbn; break_ifs; cbn; intros H1 H2 H3; try (inversion H2; subst);
      try discriminate; try (destruct H1 as [[H1 H1']|H1]; discriminate); try lia.
    + unfold fixed_out. destruct b as [hv|]; cbn; break_ifs; cbn; intros H1 H2 H3; try (inversion H2; subst);
      try discriminate; try (destruct H1 as [[H1 H1']|H1]; discriminate); try lia.
    + unfold fixed_out. destruct b as [hv|]; cbn; break_ifs; cbn; intros H1 H2 H3; try (inversion H2; subst);
      try discriminate; try (destruct H1 as [[H1 H1']|H1]; discriminate); try lia.
  - destruct (negb (kind_of st =? kind)); [destruct st; cbn; intros; discriminate|].
    destruct st; cbn; try (intros; discriminate).
    + unfold sym_single. destruct b as [hv|]; cbn; break_ifs; cbn; intros H1 H2 H3; try (inversion H2; subst);
      try discriminate; try (destruct H1 as [[H1 H1']|H1]; discriminate); try lia.
    + unfold fixed_out. destruct b as [hv|]; cbn; break_ifs; cbn; intros H1 H2 H3; try (inversion H2; subst);
      try discriminate; try (destruct H1 as [[H1 H1']|H1]; discriminate); try lia.
    + unfold fixed_out. destruct b as [hv|]; cbn; break_ifs; cbn; intros H1 H2 H3; try (inversion H2; subst);
      try discriminate; try (destruct H1 as [[H1 H1']|H1]; discriminate); try lia.
Qed.

(* ... and no larger than the mechanism can need: input plus buffered bytes plus one block and the tag *)
Theorem reported_bounded_update (o : symop) (len : N) (buf : obuf) (n : N) :
  sane o len -> r_len (sym_update o len buf) = Some n ->
  r_rv (sym_update o len buf) = CKR_BUFFER_TOO_SMALL \/ buf = None ->
  n <= len + so_buf o + BS + so_tag o.
Proof.
  intros [Hs Ht]. unfold sym_update, sub64, w64, M64, BS, is_block.
  assert (Hi : forall x, x < 2147483648 -> int32_as_size x = x) by exact int32_small.
  destruct buf as [have|]; cbn; break_ifs; cbn; intros H1 H2; inversion H1; subst; clear H1;
    try (destruct H2 as [H2|H2]; [vm_compute in H2; discriminate|discriminate]);
    try (rewrite Hi by lia); try lia.
Qed.

Theorem reported_bounded_final (o : symop) (buf : obuf) (n : N) :
  sane o 0 -> r_len (sym_final o buf) = Some n ->
  r_rv (sym_final o buf) = CKR_BUFFER_TOO_SMALL \/ buf = None ->
  n <= so_buf o + BS + so_tag o.
Proof.
  intros [Hs Ht]. unfold sym_final, sub64, w64, M64, BS, is_block.
  destruct buf as [have|]; cbn; break_ifs; cbn; intros H1 H2; inversion H1; subst; clear H1;
    try (destruct H2 as [H2|H2]; [vm_compute in H2; discriminate|discriminate]); try lia.
Qed.

Theorem reported_bounded_single (o : symop) (len : N) (buf : obuf) (n : N) :
  len < 34359738368 -> so_tag o <= 16 -> r_len (sym_single o len buf) = Some n ->
  r_rv (sym_single o len buf) = CKR_BUFFER_TOO_SMALL \/ buf = None ->
  n <= len + BS + so_tag o.
Proof.
  intros Hs Ht. unfold sym_single, sub64, w64, M64, BS, is_block.
  destruct buf as [have|]; cbn; break_ifs; cbn; intros H1 H2; inversion H1; subst; clear H1;
    try (destruct H2 as [H2|H2]; [vm_compute in H2; discriminate|discriminate]); try lia.
Qed.

(* block-mode updates report exactly what they will write *)
Theorem update_report_exact (o : symop) (len : N) (have : N) :
  sane o len -> is_block (so_mode o) = true ->
  r_rv (sym_update o len (Some have)) = CKR_OK ->
  r_len (sym_update o len None) = Some (r_written (sym_update o len (Some have))).
Proof.
  intros [Hs Ht] Hb. unfold sym_update, sub64, w64, M64, BS, evp_enc_update_out, evp_dec_update_out. rewrite Hb.
  assert (Hi : forall x, x < 2147483648 -> int32_as_size x = x) by exact int32_small.
  destruct (so_mode o); try discriminate; cbn; break_ifs; cbn; intros H; try (vm_compute in H; discriminate);
    f_equal; try (rewrite Hi by lia); cbv [BS] in *; try lia.
Qed.

(* an operation that finished, or failed with an error of its own, is gone *)
Theorem finished_is_gone (st : active) (c : call) (have : N) :
  (exists k, c = CFinal k (Some have)) \/ (exists k l, c = CSingle k l (Some have)) ->
  r_rv (do_call st c) = CKR_OK -> r_st (do_call st c) = ANone.
Proof.
  intros [[k ->]|[k [l ->]]]; cbn [do_call];
  (destruct (negb (kind_of st =? k)); [destruct st; cbn; intros H; vm_compute in H; discriminate|]);
  destruct st; cbn; try (intros H; vm_compute in H; discriminate).
  - unfold sym_final. cbn. break_ifs; cbn; intros H; try reflexivity; vm_compute in H; discriminate.
  - unfold fixed_out. break_ifs; cbn; intros H; try reflexivity; vm_compute in H; discriminate.
  - unfold fixed_out. break_ifs; cbn; intros H; try reflexivity; vm_compute in H; discriminate.
  - unfold sym_single. cbn. break_ifs; cbn; intros H; try reflexivity; vm_compute in H; discriminate.
  - unfold fixed_out. break_ifs; cbn; intros H; try reflexivity; vm_compute in H; discriminate.
  - unfold fixed_out. break_ifs; cbn; intros H; try reflexivity; vm_compute in H; discriminate.
Qed.

Theorem failed_is_gone (st : active) (c : call) :
  let r := do_call st c in
  r_rv r <> CKR_OK -> r_rv r <> CKR_BUFFER_TOO_SMALL -> r_rv r <> CKR_OPERATION_NOT_INITIALIZED -> r_rv r <> CKR_OPERATION_ACTIVE ->
  r_st r = ANone.
Proof.
  cbv zeta. destruct c; cbn [do_call].
  1-4: destruct st; cbn; intros H1 H2 H3 H4; try reflexivity; exfalso; try (apply H1; reflexivity); try (apply H4; reflexivity).
  - destruct (negb (kind_of st =? kind)); [destruct st; cbn; intros; exfalso; auto|].
    destruct st; cbn; try (intros; exfalso; auto; fail).
    unfold sym_update. destruct buf; cbn; break_ifs; cbn; intros; try reflexivity; exfalso; auto.
  - destruct (negb (kind_of st =? kind)); [destruct st; cbn; intros; exfalso; auto|].
    destruct st; cbn; try (intros; exfalso; auto; fail).
    + unfold sym_final. destruct buf; cbn; break_ifs; cbn; intros; try reflexivity; exfalso; auto.
    + unfold fixed_out. destruct buf; cbn; break_ifs; cbn; intros; try reflexivity; exfalso; auto.
    + unfold fixed_out. destruct buf; cbn; break_ifs; cbn; intros; try reflexivity; exfalso; auto.
  - destruct (negb (kind_of st =? kind)); [destruct st; cbn; intros; exfalso; auto|].
    destruct st; cbn; try (intros; exfalso; auto; fail).
    + unfold sym_single. destruct buf; cbn; break_ifs; cbn; intros; try reflexivity; exfalso; auto.
    + unfold fixed_out. destruct buf; cbn; break_ifs; cbn; intros; try reflexivity; exfalso; auto.
    + unfold fixed_out. destruct buf; cbn; break_ifs; cbn; intros; try reflexivity; exfalso; auto.
  - destruct st; cbn; intros; try reflexivity; exfalso; auto.
Qed.

(* non-vacuity: a padded CBC decryption of 32 ciphertext bytes in two parts *)
Example demo_dec :
  let s1 := r_st (do_call ANone (CInitSym false CBC true 0 20)) in
  let r2 := do_call s1 (CUpdate SESSION_OP_DECRYPT 16 None) in
  let r3 := do_call s1 (CUpdate SESSION_OP_DECRYPT 16 (Some 0)) in
  let r4 := do_call (r_st r3) (CUpdate SESSION_OP_DECRYPT 16 (Some 16)) in
  r_len r2 = Some 0 /\ r_rv r3 = CKR_OK /\ r_written r4 = 16 /\ r_len (do_call (r_st r4) (CFinal SESSION_OP_DECRYPT None)) = Some 15.
Proof. vm_compute. auto. Qed.
