(* Crypto/OpIsCode.v — the operation model's symmetric update / final steps ARE the regenerated code (C12).

   gen/Gen_Ops.v holds SymEncryptUpdate, SymDecryptUpdate, SymEncryptFinal, SymDecryptFinal (SoftHSM.cpp) translated whole,
   in effect mode: the result is (return code, effects), newest effect first, where
       (LEN, n)   is  *pulLen = n,
       (RESET, 0) is  session->resetOp()  (the active operation ends),
       (WRITE, n) is  memcpy of n bytes into the caller's buffer.
   The theorems below instantiate the function's inputs with the model's state (`*_env`): the cipher object's counters are
   the model's, the number of bytes the cipher hands back (`encryptedData.size()`, ...) and whether the EVP call succeeds are
   the model's EVP bookkeeping (OpModel.evp_*: that part is OpenSSL's behaviour, tied by the correspondence stream K-sizes
   only), and they conclude that the code returns exactly the model's return code, reports exactly the model's length,
   writes exactly the model's number of bytes and ends the operation exactly when the model does - in the machine
   arithmetic of the C++ (mod 2^64, `int nrOfBlocks`), for every 64-bit input. *)
From Coq Require Import List NArith ZArith Bool Lia ZifyBool ZifyN.
From SoftHSM Require Import Gen_Const Gen_Ops OpModel OpHonest.
Import ListNotations.
Local Open Scope N_scope.
Ltac Zify.zify_post_hook ::= Z.div_mod_to_equations.

(* LEN, RESET, WRITE: the effect tags, defined in OpHonest.v *)

Definition ended (a : active) : bool := match a with ANone => true | _ => false end.

(* what a model result says the call did to the caller and to the session *)
Definition eff_of (r : ores) : list (N * N) :=
  (if ended (r_st r) then [(RESET, 0)] else []) ++
  (match r_len r with Some n => [(LEN, n)] | None => [] end) ++
  (if 0 <? r_written r then [(WRITE, r_written r)] else []).

Definition b2n (b : bool) : N := if b then 1 else 0.
Definition ptr_of (buf : obuf) : N := match buf with None => 0 | Some _ => 1 end.
Definition have_of (buf : obuf) : N := match buf with None => 0 | Some n => n end.

Lemma sub64_0 x : x < M64 -> sub64 x 0 = x.
Proof. unfold sub64, M64. intros H. lia. Qed.

Lemma i32_same y :
  (let i32 := y mod 4294967296 in if i32 <? 2147483648 then i32 else i32 + 18446744069414584320) = int32_as_size y.
Proof.
  unfold int32_as_size, M64. cbv zeta.
  assert (y mod 4294967296 < 4294967296) by (apply N.mod_lt; discriminate).
  destruct (y mod 4294967296 <? 2147483648); lia.
Qed.

Lemma i32_same' y :
  (if y mod 4294967296 <? 2147483648 then y mod 4294967296 else y mod 4294967296 + 18446744069414584320) = int32_as_size y.
Proof. exact (i32_same y). Qed.

(* ---- C_EncryptUpdate ------------------------------------------------------------------------------------------------- *)
Definition enc_update_env (o : symop) (len : N) (buf : obuf) : SymEncryptUpdate.env :=
  fold_right (fun f e => f e) SymEncryptUpdate.default
    [(SymEncryptUpdate.set_cipher_checkMaximumBytes (fun _ => 1));
     (SymEncryptUpdate.set_cipher_encryptUpdate_at1 (fun _ _ => 1));
     (SymEncryptUpdate.set_cipher_getBlockSize BS);
     (SymEncryptUpdate.set_cipher_getBufferSize (so_buf o));
     (SymEncryptUpdate.set_cipher_isBlockCipher (b2n (is_block (so_mode o))));
     (SymEncryptUpdate.set_deref_pulEncryptedDataLen (have_of buf));
     (SymEncryptUpdate.set_hv2_encryptedData_size (evp_enc_update_out o len));
     (SymEncryptUpdate.set_session_getAllowMultiPartOp 1);
     (SymEncryptUpdate.set_session_getSymmetricCryptoOp 1);
     (SymEncryptUpdate.set_ulDataLen len);
     (SymEncryptUpdate.set_pEncryptedData (ptr_of buf))].

Theorem enc_update_is_code (o : symop) (len : N) (buf : obuf) :
  so_enc o = true ->
  let r := sym_update o len buf in
  SymEncryptUpdate.app (enc_update_env o len buf) = (r_rv r, eff_of r).
Proof.
  intros He. unfold enc_update_env. SymEncryptUpdate.open_env.
  unfold sym_update. rewrite He. cbn [N.eqb negb orb Pos.eqb].
  fold M64. change ((len + so_buf o) mod M64) with (w64 (len + so_buf o)).
  assert (Hw : w64 (len + so_buf o) < M64) by (unfold w64, M64; apply N.mod_lt; discriminate).
  destruct (is_block (so_mode o)) eqn:Hb; cbn [b2n N.eqb negb Pos.eqb].
  - rewrite i32_same. rewrite (sub64_0 _ Hw).
    change (int32_as_size (w64 (len + so_buf o) / BS) * BS mod M64) with (w64 (int32_as_size (w64 (len + so_buf o) / BS) * BS)).
    set (mx := w64 (int32_as_size (w64 (len + so_buf o) / BS) * BS)).
    destruct buf as [have|]; cbn [ptr_of have_of N.eqb Pos.eqb].
    + destruct (have <? mx) eqn:E1; [reflexivity|].
      destruct (have <? evp_enc_update_out o len) eqn:E2; [reflexivity|].
      unfold eff_of; cbn [r_st r_len r_written ended app]. destruct (0 <? evp_enc_update_out o len); reflexivity.
    + reflexivity.
  - destruct buf as [have|]; cbn [ptr_of have_of N.eqb Pos.eqb].
    + destruct (have <? w64 (len + so_buf o)) eqn:E1; [reflexivity|].
      destruct (have <? evp_enc_update_out o len) eqn:E2; [reflexivity|].
      unfold eff_of; cbn [r_st r_len r_written ended app]. destruct (0 <? evp_enc_update_out o len); reflexivity.
    + reflexivity.
Qed.

(* ---- C_DecryptUpdate ------------------------------------------------------------------------------------------------- *)
Definition dec_update_env (o : symop) (len : N) (buf : obuf) : SymDecryptUpdate.env :=
  fold_right (fun f e => f e) SymDecryptUpdate.default
    [(SymDecryptUpdate.set_cipher_checkMaximumBytes (fun _ => 1));
     (SymDecryptUpdate.set_cipher_decryptUpdate_at1 (fun _ _ => 1));
     (SymDecryptUpdate.set_cipher_getBlockSize BS);
     (SymDecryptUpdate.set_cipher_getBufferSize (so_buf o));
     (SymDecryptUpdate.set_cipher_getPaddingMode (b2n (so_pad o)));
     (SymDecryptUpdate.set_cipher_isBlockCipher (b2n (is_block (so_mode o))));
     (SymDecryptUpdate.set_deref_pDataLen (have_of buf));
     (SymDecryptUpdate.set_hv2_decryptedData_size (evp_dec_update_out o len));
     (SymDecryptUpdate.set_session_getAllowMultiPartOp 1);
     (SymDecryptUpdate.set_session_getSymmetricCryptoOp 1);
     (SymDecryptUpdate.set_ulEncryptedDataLen len);
     (SymDecryptUpdate.set_pData (ptr_of buf))].

Theorem dec_update_is_code (o : symop) (len : N) (buf : obuf) :
  so_enc o = false ->
  let r := sym_update o len buf in
  SymDecryptUpdate.app (dec_update_env o len buf) = (r_rv r, eff_of r).
Proof.
  intros He. unfold dec_update_env. SymDecryptUpdate.open_env.
  unfold sym_update. rewrite He. cbn [N.eqb negb orb Pos.eqb].
  fold M64. change ((len + so_buf o) mod M64) with (w64 (len + so_buf o)).
  assert (Hw : w64 (len + so_buf o) < M64) by (unfold w64, M64; apply N.mod_lt; discriminate).
  set (x := w64 (len + so_buf o)) in *.
  destruct (is_block (so_mode o)) eqn:Hb; cbn [b2n N.eqb negb Pos.eqb].
  - rewrite !i32_same'. unfold sub64.
    destruct (so_pad o) eqn:Hp; cbn [b2n N.eqb negb Pos.eqb].
    + destruct (x <? 1) eqn:Ex; change (0 mod M64) with 0; change (1 mod M64) with 1;
        match goal with |- context [w64 ?m] => set (mx := w64 m); fold (w64 m); fold mx end;
        (destruct buf as [have|]; cbn [ptr_of have_of N.eqb Pos.eqb]; [|reflexivity]);
        (destruct (have <? mx) eqn:E1; [reflexivity|]);
        (destruct (have <? evp_dec_update_out o len) eqn:E2; [reflexivity|]);
        unfold eff_of; cbn [r_st r_len r_written ended app]; destruct (0 <? evp_dec_update_out o len); reflexivity.
    + replace (x <? 0) with false by (symmetry; apply N.ltb_ge; lia).
      change (0 mod M64) with 0.
      match goal with |- context [w64 ?m] => set (mx := w64 m); fold (w64 m); fold mx end.
      destruct buf as [have|]; cbn [ptr_of have_of N.eqb Pos.eqb]; [|reflexivity].
      destruct (have <? mx) eqn:E1; [reflexivity|].
      destruct (have <? evp_dec_update_out o len) eqn:E2; [reflexivity|].
      unfold eff_of; cbn [r_st r_len r_written ended app]. destruct (0 <? evp_dec_update_out o len); reflexivity.
  - destruct buf as [have|]; cbn [ptr_of have_of N.eqb Pos.eqb].
    + destruct (have <? x) eqn:E1; [reflexivity|].
      destruct (have <? evp_dec_update_out o len) eqn:E2; [reflexivity|].
      unfold eff_of; cbn [r_st r_len r_written ended app]. destruct (0 <? evp_dec_update_out o len); reflexivity.
    + reflexivity.
Qed.

(* ---- C_EncryptFinal ---------------------------------------------------------------------------------------------------- *)
Definition enc_final_out (o : symop) : N := if is_block (so_mode o) then (if so_pad o then BS else 0) else so_tag o.

Definition enc_final_env (o : symop) (buf : obuf) : SymEncryptFinal.env :=
  fold_right (fun f e => f e) SymEncryptFinal.default
    [(SymEncryptFinal.set_cipher_encryptFinal_at1 (fun _ => 1));
     (SymEncryptFinal.set_cipher_getBlockSize BS);
     (SymEncryptFinal.set_cipher_getBufferSize (so_buf o));
     (SymEncryptFinal.set_cipher_getPaddingMode (b2n (so_pad o)));
     (SymEncryptFinal.set_cipher_getTagBytes (so_tag o));
     (SymEncryptFinal.set_cipher_isBlockCipher (b2n (is_block (so_mode o))));
     (SymEncryptFinal.set_deref_pulEncryptedDataLen (have_of buf));
     (SymEncryptFinal.set_hv2_encryptedFinal_size (enc_final_out o));
     (SymEncryptFinal.set_session_getAllowMultiPartOp 1);
     (SymEncryptFinal.set_session_getSymmetricCryptoOp 1);
     (SymEncryptFinal.set_pEncryptedData (ptr_of buf))].

Theorem enc_final_is_code (o : symop) (buf : obuf) :
  so_enc o = true -> so_buf o + so_tag o + BS < M64 ->
  let r := sym_final o buf in
  SymEncryptFinal.app (enc_final_env o buf) = (r_rv r, eff_of r).
Proof.
  intros He Hsmall. unfold enc_final_env. SymEncryptFinal.open_env.
  unfold sym_final. rewrite He. cbn [N.eqb negb orb Pos.eqb].
  fold M64. change ((so_buf o + so_tag o) mod M64) with (w64 (so_buf o + so_tag o)).
  assert (Hrem : w64 (so_buf o + so_tag o) = so_buf o + so_tag o) by (unfold w64; apply N.mod_small; unfold BS in Hsmall; lia).
  rewrite !Hrem. set (rem := so_buf o + so_tag o) in *.
  unfold enc_final_out.
  destruct (is_block (so_mode o)) eqn:Hb; cbn [b2n N.eqb negb Pos.eqb andb].
  - destruct (so_pad o) eqn:Hp; cbn [b2n N.eqb negb Pos.eqb andb].
    + rewrite andb_false_r.
      assert (Hsz : ((rem + BS) mod M64 / BS * BS) mod M64 = (rem + BS) / BS * BS).
      { rewrite (N.mod_small (rem + BS) M64) by lia. apply N.mod_small.
        assert ((rem + BS) / BS * BS <= rem + BS) by (unfold BS; lia). lia. }
      rewrite Hsz. set (size := (rem + BS) / BS * BS).
      assert (Hge : BS <= size) by (unfold size, BS; lia).
      destruct buf as [have|]; cbn [ptr_of have_of N.eqb Pos.eqb]; [|reflexivity].
      destruct (have <? size) eqn:E1; [reflexivity|].
      replace (have <? BS) with false by (symmetry; apply N.ltb_ge; apply N.ltb_ge in E1; lia).
      reflexivity.
    + rewrite andb_true_r.
      destruct (rem mod BS =? 0) eqn:Em; cbn [negb]; [|reflexivity].
      destruct buf as [have|]; cbn [ptr_of have_of N.eqb Pos.eqb]; [|reflexivity].
      destruct (have <? rem) eqn:E1; [reflexivity|].
      replace (have <? 0) with false by (symmetry; apply N.ltb_ge; lia).
      reflexivity.
  - destruct buf as [have|]; cbn [ptr_of have_of N.eqb Pos.eqb]; [|reflexivity].
    destruct (have <? rem) eqn:E1; [reflexivity|].
    replace (have <? so_tag o) with false by (symmetry; apply N.ltb_ge; apply N.ltb_ge in E1; unfold rem in E1; lia).
    unfold eff_of; cbn [r_st r_len r_written ended app]. destruct (0 <? so_tag o); reflexivity.
Qed.

(* ---- C_DecryptFinal ---------------------------------------------------------------------------------------------------- *)
Definition dec_final_fails (o : symop) : bool :=
  (is_block (so_mode o) && so_pad o && (so_buf o =? 0)) || (match so_mode o with GCM => so_buf o <? so_tag o | _ => false end).
Definition dec_final_out (o : symop) : N :=
  match so_mode o with GCM => so_buf o - so_tag o | _ => if is_block (so_mode o) && so_pad o then so_left o else 0 end.

Definition dec_final_env (o : symop) (buf : obuf) : SymDecryptFinal.env :=
  fold_right (fun f e => f e) SymDecryptFinal.default
    [(SymDecryptFinal.set_cipher_decryptFinal_at1 (fun _ => b2n (negb (dec_final_fails o))));
     (SymDecryptFinal.set_cipher_getBlockSize BS);
     (SymDecryptFinal.set_cipher_getBufferSize (so_buf o));
     (SymDecryptFinal.set_cipher_getPaddingMode (b2n (so_pad o)));
     (SymDecryptFinal.set_cipher_isBlockCipher (b2n (is_block (so_mode o))));
     (SymDecryptFinal.set_deref_pulDecryptedDataLen (have_of buf));
     (SymDecryptFinal.set_hv2_decryptedFinal_size (dec_final_out o));
     (SymDecryptFinal.set_session_getAllowMultiPartOp 1);
     (SymDecryptFinal.set_session_getSymmetricCryptoOp 1);
     (SymDecryptFinal.set_pDecryptedData (ptr_of buf))].

Theorem dec_final_is_code (o : symop) (buf : obuf) :
  so_enc o = false -> so_buf o < M64 ->
  let r := sym_final o buf in
  SymDecryptFinal.app (dec_final_env o buf) = (r_rv r, eff_of r).
Proof.
  intros He Hsmall. unfold dec_final_env. SymDecryptFinal.open_env.
  unfold sym_final. rewrite He. cbn [N.eqb negb orb Pos.eqb].
  fold M64. set (rem := so_buf o) in *.
  unfold dec_final_fails, dec_final_out. fold rem.
  destruct (so_mode o) eqn:Hm; cbn [is_block b2n N.eqb negb Pos.eqb andb orb].
  1, 2: (* ECB, CBC *)
    destruct (rem mod BS =? 0) eqn:Em; cbn [negb]; [|reflexivity];
    destruct (so_pad o) eqn:Hp; cbn [b2n N.eqb negb Pos.eqb andb orb];
    [ unfold sub64; destruct (rem <? 1) eqn:E0; change (0 mod M64) with 0; change (1 mod M64) with 1;
      (destruct buf as [have|]; cbn [ptr_of have_of N.eqb Pos.eqb]; [|reflexivity]);
      match goal with |- context [have <? ?sz] => destruct (have <? sz) eqn:E1; [reflexivity|] end;
      [ replace (rem =? 0) with true by (symmetry; apply N.eqb_eq; apply N.ltb_lt in E0; lia); reflexivity
      | replace (rem =? 0) with false by (symmetry; apply N.eqb_neq; apply N.ltb_ge in E0; lia); cbn [b2n negb N.eqb Pos.eqb];
        destruct (have <? so_left o) eqn:E2; [reflexivity|];
        unfold eff_of; cbn [r_st r_len r_written ended app]; destruct (0 <? so_left o); reflexivity ]
    | replace (rem <? 0) with false by (symmetry; apply N.ltb_ge; lia);
      unfold sub64; change (0 mod M64) with 0;
      replace ((rem + M64 - 0) mod M64) with rem by (unfold M64 in *; lia);
      (destruct buf as [have|]; cbn [ptr_of have_of N.eqb Pos.eqb]; [|reflexivity]);
      (destruct (have <? rem) eqn:E1; [reflexivity|]);
      replace (have <? 0) with false by (symmetry; apply N.ltb_ge; lia); reflexivity ].
  - (* CTR *)
    rewrite (sub64_0 _ Hsmall).
    destruct buf as [have|]; cbn [ptr_of have_of N.eqb Pos.eqb]; [|reflexivity].
    destruct (have <? rem) eqn:E1; [reflexivity|].
    replace (have <? 0) with false by (symmetry; apply N.ltb_ge; lia). reflexivity.
  - (* GCM *)
    rewrite (sub64_0 _ Hsmall).
    destruct buf as [have|]; cbn [ptr_of have_of N.eqb Pos.eqb]; [|reflexivity].
    destruct (have <? rem) eqn:E1; [reflexivity|].
    destruct (rem <? so_tag o) eqn:E2; cbn [b2n negb N.eqb Pos.eqb]; [reflexivity|].
    replace (have <? rem - so_tag o) with false by (symmetry; apply N.ltb_ge; apply N.ltb_ge in E1; lia).
    unfold eff_of; cbn [r_st r_len r_written ended app]. destruct (0 <? rem - so_tag o); reflexivity.
Qed.

(* ---- single-part calls: a copy of zero bytes is not an effect -------------------------------------------------------- *)
Definition norm (l : list (N * N)) : list (N * N) := filter (fun e => negb ((fst e =? WRITE) && (snd e =? 0))) l.
Definition normr (r : N * list (N * N)) : N * list (N * N) := (fst r, norm (snd r)).

Lemma norm_write n tl : norm ((WRITE, n) :: tl) = (if 0 <? n then [(WRITE, n)] else []) ++ norm tl.
Proof.
  unfold norm. cbn [filter fst snd]. rewrite N.eqb_refl. cbn [andb].
  destruct (N.eqb_spec n 0) as [E|E]; cbn [negb].
  - subst. reflexivity.
  - replace (0 <? n) with true by (symmetry; apply N.ltb_lt; lia). reflexivity.
Qed.

Lemma norm3 n m :
  norm [(18446744073709551613, 0); (18446744073709551614, n); (18446744073709551612, m)]
  = (RESET, 0) :: (LEN, n) :: (if 0 <? m then [(WRITE, m)] else []).
Proof.
  change (norm [(RESET, 0); (LEN, n); (WRITE, m)] = (RESET, 0) :: (LEN, n) :: (if 0 <? m then [(WRITE, m)] else [])).
  unfold norm at 1. cbn [filter fst snd]. change (RESET =? WRITE) with false. change (LEN =? WRITE) with false. cbn [andb negb].
  rewrite N.eqb_refl. cbn [andb]. destruct (N.eqb_spec m 0) as [E|E]; cbn [negb].
  - subst. reflexivity.
  - replace (0 <? m) with true by (symmetry; apply N.ltb_lt; lia). reflexivity.
Qed.

(* C_Encrypt *)
Definition enc_single_size (o : symop) (len : N) : N :=
  let maxSize0 := w64 (len + so_tag o) in
  let rem := len mod BS in
  if is_block (so_mode o) then (if negb (rem =? 0) then sub64 (w64 (len + BS)) rem else if so_pad o then w64 (len + BS) else maxSize0) else maxSize0.

Definition enc_single_env (o : symop) (len : N) (buf : obuf) : SymEncrypt.env :=
  fold_right (fun f e => f e) SymEncrypt.default
    [(SymEncrypt.set_cipher_checkMaximumBytes (fun _ => 1));
     (SymEncrypt.set_cipher_encryptFinal_at2 (fun _ => 1));
     (SymEncrypt.set_cipher_encryptUpdate_at1 (fun _ _ => 1));
     (SymEncrypt.set_cipher_getBlockSize BS);
     (SymEncrypt.set_cipher_getPaddingMode (b2n (so_pad o)));
     (SymEncrypt.set_cipher_getTagBytes (so_tag o));
     (SymEncrypt.set_cipher_isBlockCipher (b2n (is_block (so_mode o))));
     (SymEncrypt.set_deref_pulEncryptedDataLen (have_of buf));
     (SymEncrypt.set_session_getAllowSinglePartOp 1);
     (SymEncrypt.set_session_getSymmetricCryptoOp 1);
     (SymEncrypt.set_ulDataLen len);
     (SymEncrypt.set_pEncryptedData (ptr_of buf))].

Theorem enc_single_is_code (o : symop) (len : N) (buf : obuf) :
  so_enc o = true ->
  let r := sym_single o len buf in
  normr (SymEncrypt.app (enc_single_env o len buf)) = (r_rv r, eff_of r).
Proof.
  intros He. unfold enc_single_env, enc_single_size. SymEncrypt.open_env.
  unfold sym_single. rewrite He. cbn [N.eqb negb orb Pos.eqb].
  fold M64. change ((len + so_tag o) mod M64) with (w64 (len + so_tag o)).
  assert (Hr : len mod BS < BS) by (apply N.mod_lt; discriminate).
  destruct (is_block (so_mode o)) eqn:Hb; cbn [b2n N.eqb negb Pos.eqb andb].
  - change ((len + BS) mod M64) with (w64 (len + BS)).
    replace ((w64 (len + BS) + M64 - len mod BS) mod M64) with (sub64 (w64 (len + BS)) (len mod BS))
      by (unfold sub64; rewrite (N.mod_small (len mod BS) M64) by (unfold BS, M64 in *; lia); reflexivity).
    destruct (so_pad o) eqn:Hp; cbn [b2n N.eqb negb Pos.eqb andb].
    + destruct (len mod BS =? 0) eqn:Em; cbn [negb];
        (destruct buf as [have|]; cbn [ptr_of have_of N.eqb Pos.eqb]; [|reflexivity]);
        match goal with |- context [have <? ?sz] => set (size := sz); destruct (have <? size) eqn:E1; [reflexivity|] end;
        unfold normr, eff_of; cbn [fst snd r_st r_len r_written ended app]; rewrite norm3; reflexivity.
    + destruct (len mod BS =? 0) eqn:Em; cbn [negb]; [|reflexivity].
      destruct buf as [have|]; cbn [ptr_of have_of N.eqb Pos.eqb]; [|reflexivity].
      match goal with |- context [have <? ?sz] => set (size := sz); destruct (have <? size) eqn:E1; [reflexivity|] end.
      unfold normr, eff_of; cbn [fst snd r_st r_len r_written ended app]; rewrite norm3; reflexivity.
  - destruct buf as [have|]; cbn [ptr_of have_of N.eqb Pos.eqb]; [|reflexivity].
    match goal with |- context [have <? ?sz] => set (size := sz); destruct (have <? size) eqn:E1; [reflexivity|] end.
    unfold normr, eff_of; cbn [fst snd r_st r_len r_written ended app]; rewrite norm3; reflexivity.
Qed.

(* HMAC C_SignFinal / C_Sign: a fixed-size result *)
Definition mac_final_env (size : N) (buf : obuf) : MacSignFinal.env :=
  fold_right (fun f e => f e) MacSignFinal.default
    [(MacSignFinal.set_deref_pulSignatureLen (have_of buf));
     (MacSignFinal.set_hv2_signature_size size);
     (MacSignFinal.set_mac_getMacSize size);
     (MacSignFinal.set_mac_signFinal_at1 (fun _ => 1));
     (MacSignFinal.set_session_getMacOp 1);
     (MacSignFinal.set_pSignature (ptr_of buf))].
Definition mac_single_env (size len : N) (buf : obuf) : MacSign.env :=
  fold_right (fun f e => f e) MacSign.default
    [(MacSign.set_deref_pulSignatureLen (have_of buf));
     (MacSign.set_hv2_signature_size size);
     (MacSign.set_mac_getMacSize size);
     (MacSign.set_mac_signFinal_at2 (fun _ => 1));
     (MacSign.set_mac_signUpdate_at1 (fun _ => 1));
     (MacSign.set_session_getAllowSinglePartOp 1);
     (MacSign.set_session_getMacOp 1);
     (MacSign.set_ulDataLen len);
     (MacSign.set_pSignature (ptr_of buf))].

Theorem mac_final_is_code (size : N) (buf : obuf) :
  let r := fixed_out size (AMac size) buf in
  normr (MacSignFinal.app (mac_final_env size buf)) = (r_rv r, eff_of r).
Proof.
  unfold mac_final_env. MacSignFinal.open_env. unfold fixed_out. cbn [N.eqb negb orb Pos.eqb].
  destruct buf as [have|]; cbn [ptr_of have_of N.eqb Pos.eqb]; [|reflexivity].
  destruct (have <? size) eqn:E1; [reflexivity|]. rewrite N.eqb_refl. cbn [negb].
  unfold normr, eff_of; cbn [fst snd r_st r_len r_written ended app]; rewrite norm3; reflexivity.
Qed.

Theorem mac_single_is_code (size len : N) (buf : obuf) :
  let r := fixed_out size (AMac size) buf in
  normr (MacSign.app (mac_single_env size len buf)) = (r_rv r, eff_of r).
Proof.
  unfold mac_single_env. MacSign.open_env. unfold fixed_out. cbn [N.eqb negb orb Pos.eqb].
  destruct buf as [have|]; cbn [ptr_of have_of N.eqb Pos.eqb]; [|reflexivity].
  destruct (have <? size) eqn:E1; [reflexivity|]. rewrite N.eqb_refl. cbn [negb].
  unfold normr, eff_of; cbn [fst snd r_st r_len r_written ended app]; rewrite norm3; reflexivity.
Qed.

(* ---- what the announced length and the end of the operation are, read off the CODE's effects ------------------------ *)
(* the honest-length clause for C_EncryptUpdate, as a statement about the regenerated function alone: whenever it answers
   CKR_BUFFER_TOO_SMALL or answers a NULL buffer, the length it announces is one with which the call is not refused again *)
Theorem enc_update_announced_length_suffices (o : symop) (len have : N) :
  so_enc o = true ->
  forall n, In (LEN, n) (snd (SymEncryptUpdate.app (enc_update_env o len None))) ->
  fst (SymEncryptUpdate.app (enc_update_env o len (Some (N.max have n)))) <> CKR_BUFFER_TOO_SMALL.
Proof.
  intros He n Hin. rewrite enc_update_is_code in * by assumption. cbn [fst snd] in *.
  unfold sym_update in *. rewrite He in *.
  set (mx := if is_block (so_mode o) then _ else _) in *.
  cbn [eff_of r_st r_len r_written ended app] in Hin. unfold eff_of in Hin. cbn [r_st r_len r_written ended app N.ltb N.compare] in Hin.
  destruct Hin as [E|[]]. injection E as E. subst n.
  replace (N.max have mx <? mx) with false by (symmetry; apply N.ltb_ge; lia).
  destruct (N.max have mx <? evp_enc_update_out o len); cbn [r_rv]; cbv [CKR_GENERAL_ERROR CKR_OK CKR_BUFFER_TOO_SMALL]; discriminate.
Qed.

Lemma norm_dec n :
  norm ((18446744073709551613, 0) :: (18446744073709551614, n) :: (if negb (n =? 0) then [(18446744073709551612, n)] else []))
  = (RESET, 0) :: (LEN, n) :: (if 0 <? n then [(WRITE, n)] else []).
Proof.
  destruct (N.eqb_spec n 0) as [E|E]; cbn [negb].
  - subst. reflexivity.
  - rewrite norm3. reflexivity.
Qed.

Ltac fin_single :=
  unfold normr, eff_of; cbn [r_st r_len r_written ended app];
  repeat (match goal with
          | |- context [if ?a <? ?b then (?x, ?y) else _] => destruct (N.ltb_spec a b)
          | |- context [if negb (?n =? 0) then (?x, ?y) else _] => destruct (N.eqb_spec n 0)
          end; cbn [negb fst snd]);
  repeat match goal with H : (_ <? _) = false |- _ => apply N.ltb_ge in H | H : (_ =? _) = false |- _ => apply N.eqb_neq in H end;
  try (exfalso; lia);
  first [ rewrite norm3; reflexivity
        | match goal with E : ?n = 0 |- _ => rewrite ?E; reflexivity end
        | reflexivity ].

(* C_Decrypt *)
Definition dec_single_fails (o : symop) (len : N) : bool :=
  match so_mode o with
  | GCM => len <? so_tag o
  | _ => (is_block (so_mode o) && so_pad o && (len =? 0)) || (so_pad o && is_block (so_mode o) && (len <? so_left o))
  end.
Definition dec_single_out (o : symop) (len : N) : N :=
  match so_mode o with GCM => len - so_tag o | _ => if so_pad o && is_block (so_mode o) then so_left o else len end.

Definition dec_single_env (o : symop) (len : N) (buf : obuf) : SymDecrypt.env :=
  fold_right (fun f e => f e) SymDecrypt.default
    [(SymDecrypt.set_cipher_checkMaximumBytes (fun _ => 1));
     (SymDecrypt.set_cipher_decryptFinal_at2 (fun _ => b2n (negb (dec_single_fails o len))));
     (SymDecrypt.set_cipher_decryptUpdate_at1 (fun _ _ => 1));
     (SymDecrypt.set_cipher_getBlockSize BS);
     (SymDecrypt.set_cipher_isBlockCipher (b2n (is_block (so_mode o))));
     (SymDecrypt.set_deref_pulDataLen (have_of buf));
     (SymDecrypt.set_hv5_data_size (dec_single_out o len));
     (SymDecrypt.set_session_getAllowSinglePartOp 1);
     (SymDecrypt.set_session_getSymmetricCryptoOp 1);
     (SymDecrypt.set_ulEncryptedDataLen len);
     (SymDecrypt.set_pData (ptr_of buf))].

Theorem dec_single_is_code (o : symop) (len : N) (buf : obuf) :
  so_enc o = false ->
  let r := sym_single o len buf in
  normr (SymDecrypt.app (dec_single_env o len buf)) = (r_rv r, eff_of r).
Proof.
  intros He. unfold dec_single_env, dec_single_fails, dec_single_out. SymDecrypt.open_env.
  unfold sym_single. rewrite He. cbn [N.eqb negb orb Pos.eqb].
  destruct (is_block (so_mode o)) eqn:Hb; cbn [b2n N.eqb negb Pos.eqb andb].
  - destruct (len mod BS =? 0) eqn:Em; cbn [negb]; [|reflexivity].
    destruct buf as [have|]; cbn [ptr_of have_of N.eqb Pos.eqb]; [|reflexivity].
    destruct (have <? len) eqn:E1; [reflexivity|].
    destruct (so_mode o) eqn:Hm; try discriminate Hb; cbn [andb orb].
    all: destruct (so_pad o) eqn:Hp; cbn [andb orb b2n negb N.eqb Pos.eqb].
    all: try (destruct (len =? 0) eqn:E0; cbn [orb b2n negb N.eqb Pos.eqb]; [reflexivity|];
              destruct (len <? so_left o) eqn:E2; cbn [b2n negb N.eqb Pos.eqb]; [reflexivity|]).
    all: fin_single.
  - destruct buf as [have|]; cbn [ptr_of have_of N.eqb Pos.eqb]; [|reflexivity].
    destruct (have <? len) eqn:E1; [reflexivity|].
    destruct (so_mode o) eqn:Hm; try discriminate Hb; cbn [andb orb b2n negb N.eqb Pos.eqb];
      rewrite ?andb_false_r; cbn [andb orb b2n negb N.eqb Pos.eqb].
    all: try (destruct (len <? so_tag o) eqn:E2; cbn [b2n negb N.eqb Pos.eqb]; [reflexivity|]).
    all: fin_single.
Qed.
