(* Crypto/OpModel.v — one session's active operation and the output-length protocol (C12), as
   executable definitions in the machine arithmetic of the C++ (CK_ULONG / size_t = N mod 2^64,
   `int nrOfBlocks` = 32-bit truncation with sign extension).  No proofs here.

   Modelled (SoftHSM.cpp): the gates of C_{Encrypt,Decrypt,Digest,Sign}{Init,,Update,Final} on
   Session::getOpType, Sym{Encrypt,Decrypt}{,Update,Final}, C_Digest{,Update,Final}, MacSign{,Update,Final};
   (crypto/SymmetricAlgorithm.cpp, OSSLEVPSymmetricAlgorithm.cpp): the byte bookkeeping of the EVP
   wrappers (currentBufferSize, held-back block when unpadding, AEAD buffering until final).
   AES only (block size 16).  Contents of outputs are not modelled, only lengths. *)
From Coq Require Import List NArith Bool.
From SoftHSM Require Import Gen_Const.
Import ListNotations.
Local Open Scope N_scope.

Definition M64 : N := 18446744073709551616.
Definition w64 (x : N) : N := x mod M64.
Definition sub64 (a b : N) : N := (a + M64 - b mod M64) mod M64.
(* (int) x, converted back to size_t: low 32 bits, sign-extended *)
Definition int32_as_size (x : N) : N :=
  let y := x mod 4294967296 in if y <? 2147483648 then y else M64 - (4294967296 - y).

Inductive cmode := ECB | CBC | CTR | GCM.
Definition is_block (m : cmode) : bool := match m with ECB | CBC => true | _ => false end.
Definition BS : N := 16.

Record symop := mkSym {
  so_enc : bool;        (* encrypt / decrypt *)
  so_mode : cmode;
  so_pad : bool;
  so_tag : N;           (* tag bytes (GCM) *)
  so_buf : N;           (* SymmetricAlgorithm::currentBufferSize *)
  so_left : N           (* decrypt: plaintext bytes still to come out (oracle: the driver decrypts what it encrypted) *)
}.

Inductive active :=
| ANone
| ASym (o : symop)
| ADigest (size : N)
| AMac (size : N)         (* HMAC sign *)
| AFind.

Definition kind_of (a : active) : N :=
  match a with
  | ANone => SESSION_OP_NONE
  | ASym o => if so_enc o then SESSION_OP_ENCRYPT else SESSION_OP_DECRYPT
  | ADigest _ => SESSION_OP_DIGEST
  | AMac _ => SESSION_OP_SIGN
  | AFind => SESSION_OP_FIND
  end.

(* result of a call: return code, reported length (None = *pulLen untouched), bytes written, new state *)
Record ores := mkR { r_rv : N; r_len : option N; r_written : N; r_st : active }.

(* caller's output buffer: None = NULL pointer (length query), Some n = n bytes announced *)
Definition obuf := option N.

(* ---- EVP byte bookkeeping ---------------------------------------------------------------------------- *)
Definition evp_enc_update_out (o : symop) (len : N) : N :=
  if is_block (so_mode o) then ((so_buf o + len) / BS) * BS else len.
Definition evp_dec_update_out (o : symop) (len : N) : N :=
  match so_mode o with
  | GCM => 0
  | CTR => len
  | _ => if so_pad o then (if so_buf o + len =? 0 then 0 else ((so_buf o + len - 1) / BS) * BS)
         else ((so_buf o + len) / BS) * BS
  end.

Definition with_buf (o : symop) (b left : N) : symop := mkSym (so_enc o) (so_mode o) (so_pad o) (so_tag o) b left.

(* ---- SymEncryptUpdate / SymDecryptUpdate ---------------------------------------------------------- *)
Definition sym_update (o : symop) (len : N) (buf : obuf) : ores :=
  let remaining := so_buf o in
  let maxSize :=
    if is_block (so_mode o) then
      let adj := if so_enc o then 0 else (if so_pad o then (if w64 (len + remaining) <? 1 then 0 else 1) else 0) in
      w64 (int32_as_size (sub64 (w64 (len + remaining)) adj / BS) * BS)
    else w64 (len + remaining) in
  match buf with
  | None => mkR CKR_OK (Some maxSize) 0 (ASym o)
  | Some have =>
      if have <? maxSize then mkR CKR_BUFFER_TOO_SMALL (Some maxSize) 0 (ASym o)
      else
        let out := if so_enc o then evp_enc_update_out o len else evp_dec_update_out o len in
        if have <? out then mkR CKR_GENERAL_ERROR None 0 ANone
        else mkR CKR_OK (Some out) out (ASym (with_buf o (remaining + len - out) (so_left o - (if so_enc o then 0 else out))))
  end.

(* ---- SymEncryptFinal / SymDecryptFinal ----------------------------------------------------------------- *)
Definition sym_final (o : symop) (buf : obuf) : ores :=
  if so_enc o then
    let remaining := w64 (so_buf o + so_tag o) in
    if is_block (so_mode o) && negb (remaining mod BS =? 0) && negb (so_pad o) then mkR CKR_DATA_LEN_RANGE None 0 ANone
    else
      let size := if is_block (so_mode o) then (if so_pad o then ((remaining + BS) / BS) * BS else remaining) else remaining in
      match buf with
      | None => mkR CKR_OK (Some size) 0 (ASym o)
      | Some have =>
          if have <? size then mkR CKR_BUFFER_TOO_SMALL (Some size) 0 (ASym o)
          else
            let out := if is_block (so_mode o) then (if so_pad o then BS else 0) else so_tag o in
            mkR CKR_OK (Some out) out ANone
      end
  else
    let remaining := so_buf o in
    if is_block (so_mode o) && negb (remaining mod BS =? 0) then mkR CKR_ENCRYPTED_DATA_LEN_RANGE None 0 ANone
    else
      let adj := if is_block (so_mode o) && so_pad o then (if remaining <? 1 then 0 else 1) else 0 in
      let size := sub64 remaining adj in
      match buf with
      | None => mkR CKR_OK (Some size) 0 (ASym o)
      | Some have =>
          if have <? size then mkR CKR_BUFFER_TOO_SMALL (Some size) 0 (ASym o)
          else
            (* EVP_DecryptFinal fails when nothing was held back in padding mode, or when the GCM buffer is shorter than the tag *)
            if (is_block (so_mode o) && so_pad o && (remaining =? 0)) then mkR CKR_GENERAL_ERROR None 0 ANone
            else match so_mode o with
                 | GCM => if remaining <? so_tag o then mkR CKR_GENERAL_ERROR None 0 ANone
                          else mkR CKR_OK (Some (remaining - so_tag o)) (remaining - so_tag o) ANone
                 | _ => if is_block (so_mode o) && so_pad o
                        then (if have <? so_left o then mkR CKR_GENERAL_ERROR None 0 ANone else mkR CKR_OK (Some (so_left o)) (so_left o) ANone)
                        else mkR CKR_OK (Some 0) 0 ANone
                 end
      end.

(* ---- SymEncrypt / SymDecrypt (single part, nothing buffered before) ---------------------------- *)
Definition sym_single (o : symop) (len : N) (buf : obuf) : ores :=
  if so_enc o then
    let maxSize0 := w64 (len + so_tag o) in
    let rem := len mod BS in
    if is_block (so_mode o) && negb (so_pad o) && negb (rem =? 0) then mkR CKR_DATA_LEN_RANGE None 0 ANone
    else
      let maxSize := if is_block (so_mode o) then
                       (if negb (rem =? 0) then sub64 (w64 (len + BS)) rem else if so_pad o then w64 (len + BS) else maxSize0)
                     else maxSize0 in
      match buf with
      | None => mkR CKR_OK (Some maxSize) 0 (ASym o)
      | Some have => if have <? maxSize then mkR CKR_BUFFER_TOO_SMALL (Some maxSize) 0 (ASym o)
                     else mkR CKR_OK (Some maxSize) maxSize ANone
      end
  else
    if is_block (so_mode o) && negb (len mod BS =? 0) then mkR CKR_ENCRYPTED_DATA_LEN_RANGE None 0 ANone
    else match buf with
         | None => mkR CKR_OK (Some len) 0 (ASym o)
         | Some have =>
             if have <? len then mkR CKR_BUFFER_TOO_SMALL (Some len) 0 (ASym o)
             else
               let fails := match so_mode o with
                            | GCM => len <? so_tag o
                            | _ => is_block (so_mode o) && so_pad o && (len =? 0)
                            end in
               if fails then mkR CKR_GENERAL_ERROR None 0 ANone
               else match so_mode o with
                    | GCM => mkR CKR_OK (Some (len - so_tag o)) (len - so_tag o) ANone
                    | _ => if so_pad o && is_block (so_mode o)
                           then (if len <? so_left o then mkR CKR_GENERAL_ERROR None 0 ANone else mkR CKR_OK (Some (so_left o)) (so_left o) ANone)
                           else mkR CKR_OK (Some len) len ANone
                    end
         end.

(* ---- fixed-size operations (digest, HMAC) --------------------------------------------------------- *)
Definition fixed_out (size : N) (st : active) (buf : obuf) : ores :=
  match buf with
  | None => mkR CKR_OK (Some size) 0 st
  | Some have => if have <? size then mkR CKR_BUFFER_TOO_SMALL (Some size) 0 st else mkR CKR_OK (Some size) size ANone
  end.

(* ---- the calls of one session ---------------------------------------------------------------------------- *)
Inductive call :=
| CInitSym (enc : bool) (m : cmode) (pad : bool) (tag : N) (ptlen : N)   (* a successful key / mechanism check is assumed: the driver passes valid ones *)
| CInitDigest (size : N)
| CInitMac (size : N)
| CInitFind
| CUpdate (kind : N) (len : N) (buf : obuf)      (* kind = SESSION_OP_ENCRYPT / DECRYPT / DIGEST / SIGN; buf ignored for digest / sign *)
| CFinal (kind : N) (buf : obuf)
| CSingle (kind : N) (len : N) (buf : obuf)
| CFindFinal.

Definition NOT_INIT := CKR_OPERATION_NOT_INITIALIZED.

Definition do_call (st : active) (c : call) : ores :=
  match c with
  | CInitSym enc m pad tag ptlen =>
      match st with
      | ANone => mkR CKR_OK None 0 (ASym (mkSym enc m pad tag 0 ptlen))
      | _ => mkR CKR_OPERATION_ACTIVE None 0 st
      end
  | CInitDigest size => match st with ANone => mkR CKR_OK None 0 (ADigest size) | _ => mkR CKR_OPERATION_ACTIVE None 0 st end
  | CInitMac size => match st with ANone => mkR CKR_OK None 0 (AMac size) | _ => mkR CKR_OPERATION_ACTIVE None 0 st end
  | CInitFind => match st with ANone => mkR CKR_OK None 0 AFind | _ => mkR CKR_OPERATION_ACTIVE None 0 st end
  | CUpdate kind len buf =>
      if negb (kind_of st =? kind) then mkR NOT_INIT None 0 st
      else match st with
           | ASym o => sym_update o len buf
           | ADigest _ | AMac _ => mkR CKR_OK None 0 st
           | _ => mkR NOT_INIT None 0 st
           end
  | CFinal kind buf =>
      if negb (kind_of st =? kind) then mkR NOT_INIT None 0 st
      else match st with
           | ASym o => sym_final o buf
           | ADigest size | AMac size => fixed_out size st buf
           | _ => mkR NOT_INIT None 0 st
           end
  | CSingle kind len buf =>
      if negb (kind_of st =? kind) then mkR NOT_INIT None 0 st
      else match st with
           | ASym o => sym_single o len buf
           | ADigest size | AMac size => fixed_out size st buf
           | _ => mkR NOT_INIT None 0 st
           end
  | CFindFinal => match st with AFind => mkR CKR_OK None 0 ANone | _ => mkR NOT_INIT None 0 st end
  end.
