(* Crypto/PadFacts.v — proofs about Crypto/Pad.v (PKCS#7 pad/unpad, RFC 3394 zero pad, DES parity,
   derive truncation).  No axioms; see the Print Assumptions at the end. *)
From Coq Require Import List NArith Arith Bool Lia.
From SoftHSM Require Import Defs Pad.
Import ListNotations.

(* ---- small list lemmas ----------------------------------------------------------------------- *)

Lemma firstn_length_app : forall (A : Type) (l r : list A), firstn (length l) (l ++ r) = l.
Proof. induction l as [|x l IH]; intros r; simpl; [destruct r; reflexivity | now rewrite IH]. Qed.

Lemma skipn_length_app : forall (A : Type) (l r : list A), skipn (length l) (l ++ r) = r.
Proof. induction l as [|x l IH]; intros r; simpl; [reflexivity | apply IH]. Qed.

Lemma last_app_ne : forall (A : Type) (l r : list A) (d : A), r <> [] -> last (l ++ r) d = last r d.
Proof.
  induction l as [|x l IH]; intros r d Hr; simpl; [reflexivity|].
  rewrite IH by exact Hr.
  destruct (l ++ r) eqn:Hlr; [|reflexivity].
  apply app_eq_nil in Hlr. destruct Hlr as [_ Hr']. contradiction.
Qed.

Lemma last_repeat : forall (A : Type) (x d : A) (n : nat), (1 <= n)%nat -> last (repeat x n) d = x.
Proof.
  intros A x d n Hn. destruct n as [|n]; [lia|]. clear Hn.
  induction n as [|n IH]; [reflexivity|].
  change (repeat x (S (S n))) with (x :: repeat x (S n)).
  change (last (x :: repeat x (S n)) d) with (last (repeat x (S n)) d) at 1.
  exact IH.
Qed.

Lemma in_firstn_in : forall (A : Type) (n : nat) (l : list A) (x : A), In x (firstn n l) -> In x l.
Proof.
  induction n as [|n IH]; intros l x H; [contradiction|].
  destruct l as [|y l]; [contradiction|]. simpl in H. destruct H as [H|H]; [now left | right; now apply IH].
Qed.

Lemma forallb_eqb_repeat : forall (x : N) (n : nat), forallb (N.eqb x) (repeat x n) = true.
Proof. intros x n; induction n as [|n IH]; simpl; [reflexivity|]. now rewrite N.eqb_refl, IH. Qed.

Lemma forallb_eqb_is_repeat :
  forall (x : N) (l : bytes), forallb (N.eqb x) l = true -> l = repeat x (length l).
Proof.
  intros x l; induction l as [|y l IH]; simpl; intros H; [reflexivity|].
  apply andb_true_iff in H. destruct H as [Hxy Hl].
  apply N.eqb_eq in Hxy. subst y. now rewrite <- IH.
Qed.

(* ---- arithmetic of the pad length -------------------------------------------------------------- *)

Lemma padlen_range : forall bs len, (1 <= bs)%nat ->
  (1 <= pkcs7_padlen bs len <= bs)%nat /\ pkcs7_padlen bs len = (bs - len mod bs)%nat.
Proof.
  intros bs len Hbs. unfold pkcs7_padlen.
  assert (Hm : (len mod bs < bs)%nat) by (apply Nat.mod_upper_bound; lia).
  destruct (Nat.eqb_spec (bs - len mod bs) 0) as [H0|H0]; lia.
Qed.

Lemma padlen_aligned : forall bs len, (1 <= bs)%nat -> ((len + pkcs7_padlen bs len) mod bs = 0)%nat.
Proof.
  intros bs len Hbs.
  destruct (padlen_range bs len Hbs) as [_ ->].
  assert (Hm : (len mod bs < bs)%nat) by (apply Nat.mod_upper_bound; lia).
  assert (Hd : len = (bs * (len / bs) + len mod bs)%nat) by (apply Nat.div_mod; lia).
  replace (len + (bs - len mod bs))%nat with ((1 + len / bs) * bs)%nat by lia.
  apply Nat.mod_mul. lia.
Qed.

(* the dead branch of RFC5652Pad *)
Lemma padlen_zero_branch_dead : forall bs len, (1 <= bs)%nat -> ((bs - len mod bs =? 0) = false)%nat.
Proof.
  intros bs len Hbs.
  assert (Hm : (len mod bs < bs)%nat) by (apply Nat.mod_upper_bound; lia).
  apply Nat.eqb_neq. lia.
Qed.

Lemma padlen_mod_add : forall bs k len, (1 <= bs)%nat ->
  pkcs7_padlen bs (k * bs + len) = pkcs7_padlen bs len.
Proof.
  intros bs k len Hbs. unfold pkcs7_padlen.
  replace (k * bs + len)%nat with (len + k * bs)%nat by lia.
  rewrite Nat.mod_add by lia. reflexivity.
Qed.

Lemma pad_byte_small : forall n, (n <= 255)%nat -> N.to_nat (pad_byte n) = n /\ (pad_byte n < 256)%N.
Proof.
  intros n Hn. unfold pad_byte.
  assert (H : (N.of_nat n < 256)%N) by lia.
  rewrite N.mod_small by exact H. split; [apply Nat2N.id | exact H].
Qed.

(* ---- pad_length ------------------------------------------------------------------------------- *)

Lemma pkcs7_pad_length_eq : forall bs d,
  length (pkcs7_pad bs d) = (length d + pkcs7_padlen bs (length d))%nat.
Proof. intros bs d. unfold pkcs7_pad. now rewrite app_length, repeat_length. Qed.

(* length (pkcs7_pad bs d) is a positive multiple of bs, strictly longer than d, and at most one
   block longer *)
Theorem pad_length : forall bs d, (1 <= bs)%nat ->
  (length (pkcs7_pad bs d) mod bs = 0)%nat
  /\ (0 < length (pkcs7_pad bs d))%nat
  /\ (length d < length (pkcs7_pad bs d) <= length d + bs)%nat.
Proof.
  intros bs d Hbs. rewrite pkcs7_pad_length_eq.
  destruct (padlen_range bs (length d) Hbs) as [Hr _].
  split; [apply padlen_aligned; exact Hbs | lia].
Qed.

Lemma pad_length_multiple : forall bs d, (1 <= bs)%nat ->
  exists k, (1 <= k)%nat /\ length (pkcs7_pad bs d) = (k * bs)%nat.
Proof.
  intros bs d Hbs. destruct (pad_length bs d Hbs) as [Hm [Hp _]].
  exists (length (pkcs7_pad bs d) / bs)%nat.
  assert (Hd := Nat.div_mod (length (pkcs7_pad bs d)) bs ltac:(lia)).
  rewrite Hm in Hd.
  destruct (length (pkcs7_pad bs d) / bs)%nat as [|k] eqn:Hk; [lia|].
  split; [lia|]. rewrite Hd at 1. lia.
Qed.

Lemma pad_prefix : forall bs d, firstn (length d) (pkcs7_pad bs d) = d.
Proof. intros bs d. unfold pkcs7_pad. apply firstn_length_app. Qed.

Lemma pad_bytes_small : forall bs d,
  Forall (fun x => (x < 256)%N) d -> Forall (fun x => (x < 256)%N) (pkcs7_pad bs d).
Proof.
  intros bs d Hd. unfold pkcs7_pad. apply Forall_app. split; [exact Hd|].
  apply Forall_forall. intros x Hx. apply repeat_spec in Hx. subst x.
  unfold pad_byte. apply N.mod_lt. discriminate.
Qed.

(* ---- unfolding of pkcs7_unpad on a non-empty input ------------------------------------------- *)

Lemma pkcs7_unpad_ne : forall bs p, (1 <= bs)%nat -> p <> [] ->
  pkcs7_unpad bs p =
  if negb (length p mod bs =? 0) then None
  else if (N.to_nat (last p 0%N) =? 0) || (bs <? N.to_nat (last p 0%N)) then None
  else if forallb (N.eqb (last p 0%N)) (skipn (length p - N.to_nat (last p 0%N)) p)
       then Some (firstn (length p - N.to_nat (last p 0%N)) p) else None.
Proof.
  intros bs p Hbs Hp. unfold pkcs7_unpad.
  destruct bs as [|bs']; [lia|]. destruct p as [|x0 p0]; [contradiction | reflexivity].
Qed.

(* ---- unpad after pad ---------------------------------------------------------------------------- *)

(* For every block size 1..255 (the filler byte must fit a byte), with no hypothesis on the data. *)
Theorem unpad_pad_gen : forall bs d, (1 <= bs <= 255)%nat ->
  pkcs7_unpad bs (pkcs7_pad bs d) = Some d.
Proof.
  intros bs d [Hbs1 Hbs2].
  destruct (padlen_range bs (length d) Hbs1) as [Hn _].
  pose proof (padlen_aligned bs (length d) Hbs1) as Hal.
  pose proof (pkcs7_pad_length_eq bs d) as Hlen.
  set (n := pkcs7_padlen bs (length d)) in *.
  destruct (pad_byte_small n ltac:(lia)) as [Hpb _].
  assert (Hlast : last (pkcs7_pad bs d) 0%N = pad_byte n).
  { unfold pkcs7_pad. fold n. rewrite last_app_ne.
    - apply last_repeat. lia.
    - destruct n; [lia | discriminate]. }
  assert (Hpne : pkcs7_pad bs d <> []).
  { intros He. rewrite He in Hlen. simpl in Hlen. lia. }
  rewrite pkcs7_unpad_ne by assumption.
  rewrite Hlast, Hpb, Hlen, Hal. cbn [Nat.eqb negb].
  destruct (Nat.eqb_spec n 0) as [H0|_]; [lia|].
  destruct (Nat.ltb_spec bs n) as [Hlt|_]; [lia|].
  cbn [orb].
  replace (length d + n - n)%nat with (length d) by lia.
  unfold pkcs7_pad. fold n.
  rewrite skipn_length_app, firstn_length_app, forallb_eqb_repeat. reflexivity.
Qed.

(* the statement asked for (block sizes of DES3 and AES, byte-valued data) *)
Theorem unpad_pad : forall bs d, (bs = 8 \/ bs = 16)%nat -> Forall (fun x => (x < 256)%N) d ->
  pkcs7_unpad bs (pkcs7_pad bs d) = Some d.
Proof. intros bs d Hbs _. apply unpad_pad_gen. lia. Qed.

(* ---- exactly what RFC5652Unpad accepts --------------------------------------------------------- *)

Lemma unpad_inv : forall bs p d, pkcs7_unpad bs p = Some d ->
  (1 <= bs)%nat /\ p <> [] /\ (length p mod bs = 0)%nat /\
  let n := N.to_nat (last p 0%N) in
  (1 <= n <= bs)%nat /\ (n <= length p)%nat /\
  skipn (length p - n) p = repeat (last p 0%N) n /\ d = firstn (length p - n) p.
Proof.
  intros bs p d H. unfold pkcs7_unpad in H.
  destruct bs as [|bs']; [discriminate|].
  destruct (Nat.eqb_spec (length p mod S bs') 0) as [Hm|Hm]; cbn [negb] in H; [|discriminate].
  destruct p as [|x0 p0] eqn:Hp; [discriminate|]. rewrite <- Hp in *.
  assert (Hne : p <> []) by (rewrite Hp; discriminate).
  assert (Hlp : (S bs' <= length p)%nat).
  { assert (Hd := Nat.div_mod (length p) (S bs') ltac:(lia)). rewrite Hm in Hd.
    assert (0 < length p)%nat by (rewrite Hp; simpl; lia).
    destruct (length p / S bs')%nat; lia. }
  set (pb := last p 0%N) in *. set (n := N.to_nat pb) in *.
  destruct (Nat.eqb_spec n 0) as [H0|H0]; cbn [orb] in H; [discriminate|].
  destruct (Nat.ltb_spec (S bs') n) as [Hlt|Hle]; [discriminate|].
  destruct (forallb (N.eqb pb) (skipn (length p - n) p)) eqn:Hall; [|discriminate].
  injection H as H. subst d.
  split; [lia|]. split; [exact Hne|]. split; [exact Hm|]. cbv zeta.
  split; [lia|]. split; [lia|]. split; [|reflexivity].
  apply forallb_eqb_is_repeat in Hall. rewrite Hall at 1.
  rewrite skipn_length. f_equal. lia.
Qed.

(* The acceptance rule of RFC5652Unpad lets through ONLY canonical paddings: whatever it accepts is
   the RFC5652Pad image of what it returns (block sizes 1..255).  No hypothesis on the bytes of p:
   the pad byte is <= bs <= 255 by check 3. *)
Theorem unpad_sound : forall bs p d, (bs <= 255)%nat ->
  pkcs7_unpad bs p = Some d -> p = pkcs7_pad bs d.
Proof.
  intros bs p d Hbs H.
  destruct (unpad_inv bs p d H) as [Hbs1 [Hne [Hm [Hn [Hnp [Hsk Hd]]]]]].
  set (pb := last p 0%N) in *. set (n := N.to_nat pb) in *.
  assert (Hld : length d = (length p - n)%nat).
  { subst d. rewrite firstn_length. lia. }
  assert (Hpl : pkcs7_padlen bs (length d) = n).
  { destruct (padlen_range bs (length d) Hbs1) as [_ ->].
    assert (Hdv := Nat.div_mod (length p) bs ltac:(lia)). rewrite Hm in Hdv.
    set (q := (length p / bs)%nat) in *.
    assert (Hq : (1 <= q)%nat).
    { destruct q; [|lia]. assert (0 < length p)%nat by (destruct p; [contradiction|simpl; lia]). lia. }
    destruct (Nat.eq_dec n bs) as [Hnb|Hnb].
    - assert (Hr : (0 = length d mod bs)%nat).
      { apply (Nat.mod_unique (length d) bs (q - 1)%nat 0%nat); [lia|].
        rewrite Hld, Hdv, Hnb. destruct q; [lia|]. simpl. rewrite Nat.sub_0_r. lia. }
      rewrite <- Hr. lia.
    - assert (Hr : (bs - n = length d mod bs)%nat).
      { apply (Nat.mod_unique (length d) bs (q - 1)%nat (bs - n)%nat); [lia|].
        rewrite Hld, Hdv. destruct q; [lia|]. simpl. rewrite Nat.sub_0_r. lia. }
      rewrite <- Hr. lia. }
  assert (Hpbyte : pad_byte n = pb).
  { unfold pad_byte, n. rewrite N2Nat.id. apply N.mod_small. lia. }
  unfold pkcs7_pad. rewrite Hpl, Hpbyte, <- Hsk, Hd.
  symmetry. apply firstn_skipn.
Qed.

(* pkcs7_unpad is exactly the partial inverse of pkcs7_pad *)
Corollary unpad_iff_pad : forall bs p d, (1 <= bs <= 255)%nat ->
  pkcs7_unpad bs p = Some d <-> p = pkcs7_pad bs d.
Proof.
  intros bs p d Hbs. split.
  - apply unpad_sound. lia.
  - intros ->. apply unpad_pad_gen. exact Hbs.
Qed.

Lemma unpad_empty : forall bs, pkcs7_unpad bs [] = None.
Proof. intros [|bs']; [reflexivity|]. unfold pkcs7_unpad. rewrite Nat.mod_0_l by lia. reflexivity. Qed.

Lemma unpad_misaligned : forall bs p, (length p mod bs <> 0)%nat -> pkcs7_unpad bs p = None.
Proof.
  intros [|bs'] p H; [reflexivity|]. unfold pkcs7_unpad.
  destruct (Nat.eqb_spec (length p mod S bs') 0); [contradiction | reflexivity].
Qed.

(* ---- padding distributes over leading whole blocks (used by Crypto/ModesFacts.v) ------------ *)

Lemma pkcs7_pad_app_aligned : forall bs q r k, (1 <= bs)%nat -> length q = (k * bs)%nat ->
  pkcs7_pad bs (q ++ r) = q ++ pkcs7_pad bs r.
Proof.
  intros bs q r k Hbs Hq. unfold pkcs7_pad.
  rewrite app_length, Hq, padlen_mod_add by exact Hbs.
  now rewrite app_assoc.
Qed.

(* unpadding only looks at the last block *)
Lemma pkcs7_unpad_app_block : forall bs q blk k, (1 <= bs)%nat ->
  length q = (k * bs)%nat -> length blk = bs ->
  pkcs7_unpad bs (q ++ blk) = option_map (app q) (pkcs7_unpad bs blk).
Proof.
  intros bs q blk k Hbs Hq Hblk.
  assert (Hbne : blk <> []) by (destruct blk; [simpl in Hblk; lia | discriminate]).
  assert (Hqne : q ++ blk <> []).
  { intros He. apply app_eq_nil in He. destruct He as [_ He]. contradiction. }
  rewrite (pkcs7_unpad_ne bs (q ++ blk)) by assumption.
  rewrite (pkcs7_unpad_ne bs blk) by assumption.
  rewrite last_app_ne by exact Hbne.
  rewrite app_length, Hq, Hblk.
  replace (k * bs + bs)%nat with ((1 + k) * bs)%nat by lia.
  rewrite Nat.mod_mul by lia. rewrite Nat.mod_same by lia. cbn [Nat.eqb negb].
  set (pb := last blk 0%N). set (n := N.to_nat pb).
  destruct (Nat.eqb_spec n 0) as [H0|H0]; cbn [orb]; [reflexivity|].
  destruct (Nat.ltb_spec bs n) as [Hlt|Hle]; [reflexivity|].
  rewrite skipn_app, firstn_app, Hq.
  rewrite skipn_all2 by lia. rewrite firstn_all2 by lia.
  replace ((1 + k) * bs - n - k * bs)%nat with (bs - n)%nat by lia.
  cbn [app].
  destruct (forallb (N.eqb pb) (skipn (bs - n) blk)); reflexivity.
Qed.

(* ---- RFC 3394 zero padding --------------------------------------------------------------------- *)

Lemma rfc3394_pad_shape : forall d,
  exists z, (z < 8)%nat /\ rfc3394_pad d = d ++ repeat 0%N z /\ ((length d + z) mod 8 = 0)%nat.
Proof.
  intros d. unfold rfc3394_pad.
  assert (Hm : (length d mod 8 < 8)%nat) by (apply Nat.mod_upper_bound; lia).
  assert (Hd := Nat.div_mod (length d) 8 ltac:(lia)).
  destruct (Nat.eqb_spec (length d mod 8) 0) as [H0|H0].
  - exists 0%nat. split; [lia|]. split; [now rewrite app_nil_r|]. now rewrite Nat.add_0_r.
  - exists (8 - length d mod 8)%nat. split; [lia|]. split; [reflexivity|].
    replace (length d + (8 - length d mod 8))%nat with ((1 + length d / 8) * 8)%nat by lia.
    apply Nat.mod_mul. lia.
Qed.

Theorem rfc3394_pad_length : forall d,
  (length (rfc3394_pad d) mod 8 = 0)%nat /\ (length d <= length (rfc3394_pad d) < length d + 8)%nat.
Proof.
  intros d. destruct (rfc3394_pad_shape d) as [z [Hz [-> Hal]]].
  rewrite app_length, repeat_length. split; [exact Hal | lia].
Qed.

Theorem rfc3394_pad_prefix : forall d, firstn (length d) (rfc3394_pad d) = d.
Proof. intros d. destruct (rfc3394_pad_shape d) as [z [_ [-> _]]]. apply firstn_length_app. Qed.

Theorem rfc3394_pad_suffix_zero : forall d,
  skipn (length d) (rfc3394_pad d) = repeat 0%N (length (rfc3394_pad d) - length d).
Proof.
  intros d. destruct (rfc3394_pad_shape d) as [z [_ [-> _]]].
  rewrite skipn_length_app, app_length, repeat_length. f_equal. lia.
Qed.

Theorem rfc3394_pad_aligned_id : forall d, (length d mod 8 = 0)%nat -> rfc3394_pad d = d.
Proof. intros d H. unfold rfc3394_pad. now rewrite H. Qed.

Theorem rfc3394_pad_idempotent : forall d, rfc3394_pad (rfc3394_pad d) = rfc3394_pad d.
Proof. intros d. apply rfc3394_pad_aligned_id. apply rfc3394_pad_length. Qed.

(* ---- DES odd parity: finite sweep -------------------------------------------------------------- *)

Lemma parity_sweep : forallb parity_check all_bytes = true.
Proof. vm_compute. reflexivity. Qed.

Lemma in_all_bytes : forall b, (b < 256)%N -> In b all_bytes.
Proof.
  intros b Hb. unfold all_bytes. apply in_map_iff. exists (N.to_nat b).
  split; [apply N2Nat.id|]. apply in_seq. lia.
Qed.

Lemma parity_check_all : forall b, (b < 256)%N -> parity_check b = true.
Proof.
  intros b Hb. pose proof parity_sweep as H. rewrite forallb_forall in H.
  apply H. apply in_all_bytes. exact Hb.
Qed.

Theorem odd_parity_byte_spec : forall b, (b < 256)%N ->
  N.odd (popcount (odd_parity_byte b)) = true /\ (b / 2 = odd_parity_byte b / 2)%N.
Proof.
  intros b Hb. pose proof (parity_check_all b Hb) as H. unfold parity_check in H.
  repeat (apply andb_true_iff in H; destruct H as [H ?]).
  split; [exact H|]. now apply N.eqb_eq.
Qed.

Theorem odd_parity_byte_range : forall b, (b < 256)%N -> (odd_parity_byte b < 256)%N.
Proof.
  intros b Hb. pose proof (parity_check_all b Hb) as H. unfold parity_check in H.
  repeat (apply andb_true_iff in H; destruct H as [H ?]).
  now apply N.ltb_lt.
Qed.

(* the arithmetic definition is the table of crypto/odd.h *)
Theorem odd_parity_table_eq : forall b, (b < 256)%N ->
  nth (N.to_nat b) odd_parity_table 0%N = odd_parity_byte b.
Proof.
  intros b Hb. pose proof (parity_check_all b Hb) as H. unfold parity_check in H.
  repeat (apply andb_true_iff in H; destruct H as [H ?]).
  now apply N.eqb_eq.
Qed.

Lemma odd_parity_table_length : length odd_parity_table = 256%nat.
Proof. reflexivity. Qed.

Theorem odd_parity_by_table_eq : forall k, Forall (fun x => (x < 256)%N) k ->
  odd_parity_by_table k = odd_parity k.
Proof.
  intros k Hk. unfold odd_parity_by_table, odd_parity. apply map_ext_in.
  intros b Hb. rewrite Forall_forall in Hk. apply odd_parity_table_eq. now apply Hk.
Qed.

Theorem odd_parity_byte_idempotent : forall b, (b < 256)%N ->
  odd_parity_byte (odd_parity_byte b) = odd_parity_byte b.
Proof.
  intros b Hb. destruct (odd_parity_byte_spec b Hb) as [_ H].
  unfold odd_parity_byte at 1 3. cbv zeta. now rewrite <- H.
Qed.

Theorem odd_parity_length : forall k, length (odd_parity k) = length k.
Proof. intros k. apply map_length. Qed.

Theorem odd_parity_spec : forall k, Forall (fun x => (x < 256)%N) k ->
  Forall (fun y => N.odd (popcount y) = true /\ (y < 256)%N) (odd_parity k)
  /\ map (fun x => (x / 2)%N) (odd_parity k) = map (fun x => (x / 2)%N) k.
Proof.
  intros k Hk. induction Hk as [|x k Hx Hk [IH1 IH2]]; simpl.
  - split; constructor.
  - destruct (odd_parity_byte_spec x Hx) as [Ho Hh]. split.
    + constructor; [split; [exact Ho | now apply odd_parity_byte_range] | exact IH1].
    + now rewrite IH2, <- Hh.
Qed.

(* ---- deriveSymmetric: cut to the requested length ---------------------------------------------- *)

Theorem derive_cut_some : forall n s v, derive_cut n s = Some v ->
  (n <= length s)%nat /\ length v = n /\ v = firstn n s /\ exists t, s = v ++ t.
Proof.
  intros n s v H. unfold derive_cut in H.
  destruct (Nat.ltb_spec (length s) n) as [Hlt|Hle]; [discriminate|].
  injection H as H. subst v. split; [exact Hle|].
  split; [rewrite firstn_length; lia|]. split; [reflexivity|].
  exists (skipn n s). symmetry. apply firstn_skipn.
Qed.

Theorem derive_cut_none : forall n s, derive_cut n s = None <-> (length s < n)%nat.
Proof.
  intros n s. unfold derive_cut.
  destruct (Nat.ltb_spec (length s) n) as [Hlt|Hle]; split; intros H; try discriminate; try lia.
  reflexivity.
Qed.

Theorem derive_value_length : forall des n s v, derive_value des n s = Some v -> length v = n.
Proof.
  intros des n s v H. unfold derive_value in H.
  destruct (derive_cut n s) as [w|] eqn:Hc; [|discriminate].
  injection H as H. subst v. destruct (derive_cut_some n s w Hc) as [_ [Hl _]].
  destruct des; [now rewrite odd_parity_length | exact Hl].
Qed.

Theorem derive_value_des_parity : forall n s v, Forall (fun x => (x < 256)%N) s ->
  derive_value true n s = Some v ->
  Forall (fun y => N.odd (popcount y) = true /\ (y < 256)%N) v
  /\ map (fun x => (x / 2)%N) v = map (fun x => (x / 2)%N) (firstn n s).
Proof.
  intros n s v Hs H. unfold derive_value in H.
  destruct (derive_cut n s) as [w|] eqn:Hc; [|discriminate].
  injection H as H. subst v. destruct (derive_cut_some n s w Hc) as [_ [_ [Hw _]]].
  subst w. apply odd_parity_spec.
  apply Forall_forall. intros x Hx. rewrite Forall_forall in Hs. apply Hs.
  apply (in_firstn_in _ n s x Hx).
Qed.

Print Assumptions unpad_pad_gen.
Print Assumptions unpad_pad.
Print Assumptions unpad_sound.
Print Assumptions pad_length.
Print Assumptions pkcs7_unpad_app_block.
Print Assumptions rfc3394_pad_length.
Print Assumptions rfc3394_pad_prefix.
Print Assumptions odd_parity_byte_spec.
Print Assumptions odd_parity_table_eq.
Print Assumptions derive_value_des_parity.
