(* Crypto/Pad.v — padding, DES parity and derive-truncation helpers of SoftHSM.cpp (definitions only;
   the proofs are in Crypto/PadFacts.v).

   Models (all in /repo/src/lib/SoftHSM.cpp unless stated otherwise):
     SoftHSM::RFC5652Pad      -> pkcs7_pad
     SoftHSM::RFC5652Unpad    -> pkcs7_unpad
     SoftHSM::RFC3394Pad      -> rfc3394_pad     (RFC3394Unpad is the identity, returns true)
     crypto/odd.h odd_parity  -> odd_parity_table (transcribed), odd_parity_byte (arithmetic), odd_parity
     SoftHSM::deriveSymmetric, "Truncate value when requested" + "Fix the odd parity for DES"
                              -> derive_cut, derive_value

   Byte strings are [bytes = list N] (P11/Defs.v); a well-formed byte is < 256.  Lengths and block
   sizes are [nat] (size_t; no wrap-around is reachable for the sizes concerned). *)
From Coq Require Import List NArith Arith Bool.
From SoftHSM Require Import Defs.
Import ListNotations.

(* ---- PKCS#7 (RFC 5652 §6.3) padding ------------------------------------------------------------ *)

(* RFC5652Pad:
     auto padbytes = blocksize - (wrappedlen % blocksize);
     if(padbytes == 0) padbytes += blocksize;
   The [padbytes == 0] branch is dead for blocksize >= 1 (x % b < b); it is kept to mirror the
   text.  blocksize = 0 is a division by zero in the C++ (undefined behaviour; callers pass 8 or
   16 only) and is outside the model: Coq's [x mod 0 = x] gives an arbitrary total answer. *)
Definition pkcs7_padlen (bs len : nat) : nat :=
  let n := bs - len mod bs in
  if n =? 0 then n + bs else n.

(* memset(&keydata[wrappedlen], static_cast<char>(padbytes), padbytes): the filler is padbytes
   reduced to one byte. *)
Definition pad_byte (n : nat) : N := (N.of_nat n mod 256)%N.

Definition pkcs7_pad (bs : nat) (d : bytes) : bytes :=
  let n := pkcs7_padlen bs (length d) in
  d ++ repeat (pad_byte n) n.

(* RFC5652Unpad, in the order of the C++ checks:
     1. wrappedlen % blocksize != 0                      -> false
     2. padbyte = padded[wrappedlen-1]
        EMPTY INPUT: wrappedlen = 0 passes check 1 and the C++ then reads padded[(size_t)-1]
        (std::vector operator[] out of range: undefined behaviour).  Modelled as REJECTION.
     3. padbyte == 0 || padbyte > blocksize              -> false
     4. some padded[i] != padbyte, wrappedlen-padbyte <= i < wrappedlen -> false
     5. otherwise resize(wrappedlen - padbyte), true.
   After 1 and 2 (non-empty) we have wrappedlen >= blocksize >= padbyte, so the subtraction in 4
   cannot wrap.  blocksize = 0 (division by zero in the C++) is modelled as rejection. *)
Definition pkcs7_unpad (bs : nat) (p : bytes) : option bytes :=
  match bs with
  | O => None
  | S _ =>
    if negb (length p mod bs =? 0) then None
    else match p with
         | [] => None
         | _ :: _ =>
           let pb := last p 0%N in
           let n := N.to_nat pb in
           if (n =? 0) || (bs <? n) then None
           else
             let k := length p - n in
             if forallb (N.eqb pb) (skipn k p) then Some (firstn k p) else None
         end
  end.

(* ---- CKM_AES_KEY_WRAP zero padding ------------------------------------------------------------- *)

(* RFC3394Pad: alignment = wrappedlen % 8; if (alignment != 0) append 8 - alignment zero bytes.
   (WrapKeySym then rejects a padded length < 16 with CKR_KEY_SIZE_RANGE.) *)
Definition rfc3394_pad (d : bytes) : bytes :=
  let a := length d mod 8 in
  if a =? 0 then d else d ++ repeat 0%N (8 - a).

(* ---- DES odd parity ---------------------------------------------------------------------------- *)

Fixpoint popcount_pos (p : positive) : N :=
  match p with
  | xH => 1
  | xO q => popcount_pos q
  | xI q => 1 + popcount_pos q
  end%N.

Definition popcount (n : N) : N :=
  match n with N0 => 0%N | Npos p => popcount_pos p end.

(* keep the top seven bits, choose the low bit so that the number of one bits is odd *)
Definition odd_parity_byte (b : N) : N :=
  let h := (b / 2)%N in
  (2 * h + (if N.even (popcount h) then 1 else 0))%N.

(* crypto/odd.h, const unsigned char odd_parity[256], transcribed in decimal *)
Definition odd_parity_table : list N := [
  1; 1; 2; 2; 4; 4; 7; 7; 8; 8; 11; 11; 13; 13; 14; 14;
  16; 16; 19; 19; 21; 21; 22; 22; 25; 25; 26; 26; 28; 28; 31; 31;
  32; 32; 35; 35; 37; 37; 38; 38; 41; 41; 42; 42; 44; 44; 47; 47;
  49; 49; 50; 50; 52; 52; 55; 55; 56; 56; 59; 59; 61; 61; 62; 62;
  64; 64; 67; 67; 69; 69; 70; 70; 73; 73; 74; 74; 76; 76; 79; 79;
  81; 81; 82; 82; 84; 84; 87; 87; 88; 88; 91; 91; 93; 93; 94; 94;
  97; 97; 98; 98; 100; 100; 103; 103; 104; 104; 107; 107; 109; 109; 110; 110;
  112; 112; 115; 115; 117; 117; 118; 118; 121; 121; 122; 122; 124; 124; 127; 127;
  128; 128; 131; 131; 133; 133; 134; 134; 137; 137; 138; 138; 140; 140; 143; 143;
  145; 145; 146; 146; 148; 148; 151; 151; 152; 152; 155; 155; 157; 157; 158; 158;
  161; 161; 162; 162; 164; 164; 167; 167; 168; 168; 171; 171; 173; 173; 174; 174;
  176; 176; 179; 179; 181; 181; 182; 182; 185; 185; 186; 186; 188; 188; 191; 191;
  193; 193; 194; 194; 196; 196; 199; 199; 200; 200; 203; 203; 205; 205; 206; 206;
  208; 208; 211; 211; 213; 213; 214; 214; 217; 217; 218; 218; 220; 220; 223; 223;
  224; 224; 227; 227; 229; 229; 230; 230; 233; 233; 234; 234; 236; 236; 239; 239;
  241; 241; 242; 242; 244; 244; 247; 247; 248; 248; 251; 251; 253; 253; 254; 254
]%N.

(* secretValue[i] = odd_parity[secretValue[i]] for every i *)
Definition odd_parity (k : bytes) : bytes := map odd_parity_byte k.

(* the same loop, reading the transcribed table (PadFacts.odd_parity_table_eq relates the two) *)
Definition odd_parity_by_table (k : bytes) : bytes :=
  map (fun b => nth (N.to_nat b) odd_parity_table 0%N) k.

Definition all_bytes : list N := map N.of_nat (seq 0 256).

Definition parity_check (b : N) : bool :=
  N.odd (popcount (odd_parity_byte b))
  && (b / 2 =? odd_parity_byte b / 2)%N
  && (odd_parity_byte b <? 256)%N
  && (nth (N.to_nat b) odd_parity_table 0 =? odd_parity_byte b)%N.

(* ---- deriveSymmetric: cutting the derived value ---------------------------------------------- *)

(* deriveSymmetric (CKM_CONCATENATE_*, CKM_*_ECB/CBC_ENCRYPT_DATA):
     if (byteLen > secretValue.size())  -> "The derived secret is too short", failure
     else { if (byteLen < secretValue.size()) secretValue.resize(byteLen);   // drop the trailing end
            if (keyType is CKK_DES / CKK_DES2 / CKK_DES3) fix parity of every byte; ... } *)
Definition derive_cut (byteLen : nat) (secret : bytes) : option bytes :=
  if length secret <? byteLen then None else Some (firstn byteLen secret).

Definition derive_value (is_des : bool) (byteLen : nat) (secret : bytes) : option bytes :=
  match derive_cut byteLen secret with
  | None => None
  | Some v => Some (if is_des then odd_parity v else v)
  end.
