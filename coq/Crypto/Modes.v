(* Crypto/Modes.v — abstract model of multi-part symmetric encryption / decryption in block modes
   (definitions only; the proofs are in Crypto/ModesFacts.v).

   Models:
     /repo/src/lib/crypto/SymmetricAlgorithm.cpp       encryptInit/Update/Final, decryptInit/Update/Final
                                                       (operation state, currentBufferSize, padding flag)
     /repo/src/lib/crypto/OSSLEVPSymmetricAlgorithm.cpp the same entry points; they delegate the
                                                       buffering to OpenSSL's EVP_EncryptUpdate /
                                                       EVP_EncryptFinal / EVP_DecryptUpdate /
                                                       EVP_DecryptFinal with
                                                       EVP_CIPHER_CTX_set_padding(ctx, padding)
   for the block modes SymMode::ECB and SymMode::CBC (isBlockCipher()).  The EVP behaviour that
   the state machine reproduces:
     * Update keeps the bytes that do not yet fill a block (ctx->buf, buf_len < block size) and
       emits every block that is complete.
     * EncryptFinal: with padding, appends n = bs - buf_len bytes of value n and emits that one
       block; without padding, fails if buf_len <> 0 and otherwise emits nothing.
     * DecryptUpdate with padding: first emits the block held back by the previous call
       (ctx->final, final_used), then, if the data consumed so far ends on a block boundary
       (buf_len = 0), holds back the last DECRYPTED block of this call instead of emitting it.
       An update of length 0 returns at once and changes nothing.
     * DecryptFinal with padding: fails if buf_len <> 0 or no block is held; otherwise checks the
       held block (last byte n with 1 <= n <= bs, the last n bytes all equal to n) and emits its
       first bs - n bytes.  This is exactly [pkcs7_unpad bs] on one block.  Without padding: as
       EncryptFinal.
   The model is meant for block sizes bs >= 2 (8 for DES/3DES, 16 for AES); EVP short-circuits
   block size 1 (stream ciphers), which is not modelled here.

   The block cipher itself is abstract: Section variables [E] and [D] on single blocks (the key is
   fixed and implicit). *)
From Coq Require Import List NArith Arith Bool.
From SoftHSM Require Import Defs Pad.
Import ListNotations.

(* ---- cutting a byte string into whole blocks and a remainder ---------------------------------- *)

Fixpoint chunk_fuel (fuel bs : nat) (l : bytes) : list bytes * bytes :=
  match fuel with
  | O => ([], l)
  | S f =>
    if bs <=? length l then
      (firstn bs l :: fst (chunk_fuel f bs (skipn bs l)), snd (chunk_fuel f bs (skipn bs l)))
    else ([], l)
  end.

(* [chunk bs l = (blocks, rest)]: l = concat blocks ++ rest, every block has length bs and
   length rest < bs (ModesFacts.chunk_spec / chunk_unique, for bs >= 1). *)
Definition chunk (bs : nat) (l : bytes) : list bytes * bytes := chunk_fuel (length l) bs l.

Fixpoint xor_bytes (a b : bytes) : bytes :=
  match a, b with
  | x :: a', y :: b' => N.lxor x y :: xor_bytes a' b'
  | _, _ => []
  end.

Inductive mode := ECB | CBC.

Definition is_nil {A : Type} (l : list A) : bool := match l with [] => true | _ => false end.

Section Cipher.
  Variable bs : nat.                       (* block size in bytes: getBlockSize() *)
  Variables E D : bytes -> bytes.          (* one-block encryption / decryption under the current key *)

  (* ---- the modes over lists of blocks (specification level) ------------------------------- *)

  Definition ecb_enc (bl : list bytes) : list bytes := map E bl.
  Definition ecb_dec (bl : list bytes) : list bytes := map D bl.

  Fixpoint cbc_enc (iv : bytes) (bl : list bytes) : list bytes :=
    match bl with
    | [] => []
    | b :: r => let c := E (xor_bytes b iv) in c :: cbc_enc c r
    end.

  Fixpoint cbc_dec (iv : bytes) (cl : list bytes) : list bytes :=
    match cl with
    | [] => []
    | c :: r => xor_bytes (D c) iv :: cbc_dec c r
    end.

  Definition mode_enc (m : mode) (iv : bytes) (bl : list bytes) : list bytes :=
    match m with ECB => ecb_enc bl | CBC => cbc_enc iv bl end.
  Definition mode_dec (m : mode) (iv : bytes) (cl : list bytes) : list bytes :=
    match m with ECB => ecb_dec cl | CBC => cbc_dec iv cl end.

  Definition blocks_of (l : bytes) : list bytes := fst (chunk bs l).

  (* One-shot results.  Unpadded modes need a whole number of blocks (SymEncrypt / SymDecrypt
     answer CKR_DATA_LEN_RANGE / the EVP final fails otherwise): None. *)
  Definition encrypt_all (m : mode) (pad : bool) (iv msg : bytes) : option bytes :=
    if pad then Some (concat (mode_enc m iv (blocks_of (pkcs7_pad bs msg))))
    else if length msg mod bs =? 0 then Some (concat (mode_enc m iv (blocks_of msg)))
    else None.

  Definition decrypt_all (m : mode) (pad : bool) (iv c : bytes) : option bytes :=
    if length c mod bs =? 0 then
      let p := concat (mode_dec m iv (blocks_of c)) in
      if pad then pkcs7_unpad bs p else Some p
    else None.

  (* ---- the streaming state machine --------------------------------------------------------- *)

  (* one block with the current chaining value: (next chaining value, output block) *)
  Definition enc_block (m : mode) (iv b : bytes) : bytes * bytes :=
    match m with
    | ECB => (iv, E b)
    | CBC => (E (xor_bytes b iv), E (xor_bytes b iv))
    end.
  Definition dec_block (m : mode) (iv c : bytes) : bytes * bytes :=
    match m with
    | ECB => (iv, D c)
    | CBC => (c, xor_bytes (D c) iv)
    end.

  Fixpoint run (step : bytes -> bytes -> bytes * bytes) (iv : bytes) (bl : list bytes)
    : bytes * list bytes :=
    match bl with
    | [] => (iv, [])
    | b :: r =>
      (fst (run step (fst (step iv b)) r), snd (step iv b) :: snd (run step (fst (step iv b)) r))
    end.

  Record state := mkState {
    st_mode : mode;            (* currentCipherMode *)
    st_pad  : bool;            (* currentPaddingMode *)
    st_iv   : bytes;           (* chaining value inside the EVP context *)
    st_buf  : bytes;           (* ctx->buf[0 .. buf_len) : input bytes not yet processed *)
    st_held : option bytes     (* ctx->final when final_used: a decrypted block held back *)
  }.

  Definition init (m : mode) (pad : bool) (iv : bytes) : state := mkState m pad iv [] None.

  (* OSSLEVPSymmetricAlgorithm::encryptInit / decryptInit: an IV that is neither empty nor one
     block long is refused; an empty IV means a block of zeros (iv.wipe(getBlockSize())). *)
  Definition sym_init (m : mode) (pad : bool) (iv : bytes) : option state :=
    match iv with
    | [] => Some (init m pad (repeat 0%N bs))
    | _ => if length iv =? bs then Some (init m pad iv) else None
    end.

  (* SymmetricAlgorithm::getBufferSize(): bytes taken in and not yet given out
     (currentBufferSize += data.size(); currentBufferSize -= outLen) *)
  Definition buffer_size (s : state) : nat :=
    length (st_buf s) + match st_held s with Some h => length h | None => 0 end.

  (* encryptUpdate: "if (data.size() == 0) { encryptedData.resize(0); return true; }", otherwise
     EVP_EncryptUpdate *)
  Definition enc_update (s : state) (d : bytes) : state * bytes :=
    match d with
    | [] => (s, [])
    | _ :: _ =>
      let c := chunk bs (st_buf s ++ d) in
      let r := run (enc_block (st_mode s)) (st_iv s) (fst c) in
      (mkState (st_mode s) (st_pad s) (fst r) (snd c) (st_held s), concat (snd r))
    end.

  (* encryptFinal / EVP_EncryptFinal *)
  Definition enc_final (s : state) : option bytes :=
    if st_pad s then
      Some (concat (snd (run (enc_block (st_mode s)) (st_iv s)
                             (fst (chunk bs (pkcs7_pad bs (st_buf s)))))))
    else if is_nil (st_buf s) then Some [] else None.

  (* decryptUpdate / EVP_DecryptUpdate.  With padding the last decrypted block is held back
     whenever the input so far ends on a block boundary, and released by the next non-empty
     update. *)
  Definition dec_update (s : state) (d : bytes) : state * bytes :=
    match d with
    | [] => (s, [])
    | _ :: _ =>
      let c := chunk bs (st_buf s ++ d) in
      let r := run (dec_block (st_mode s)) (st_iv s) (fst c) in
      if st_pad s then
        let pre := match st_held s with Some h => h | None => [] end in
        if is_nil (snd c) then
          (mkState (st_mode s) (st_pad s) (fst r) [] (Some (last (snd r) [])),
           pre ++ concat (removelast (snd r)))
        else
          (mkState (st_mode s) (st_pad s) (fst r) (snd c) None, pre ++ concat (snd r))
      else
        (mkState (st_mode s) (st_pad s) (fst r) (snd c) (st_held s), concat (snd r))
    end.

  (* decryptFinal / EVP_DecryptFinal *)
  Definition dec_final (s : state) : option bytes :=
    if st_pad s then
      match st_buf s, st_held s with
      | [], Some h => pkcs7_unpad bs h
      | _, _ => None
      end
    else if is_nil (st_buf s) then Some [] else None.

  (* ---- multi-part drivers -------------------------------------------------------------------- *)

  Fixpoint updates (upd : state -> bytes -> state * bytes) (s : state) (parts : list bytes)
    : state * bytes :=
    match parts with
    | [] => (s, [])
    | p :: ps => (fst (updates upd (fst (upd s p)) ps), snd (upd s p) ++ snd (updates upd (fst (upd s p)) ps))
    end.

  (* C_EncryptInit; C_EncryptUpdate on every part; C_EncryptFinal — everything that comes out *)
  Definition enc_multi (s : state) (parts : list bytes) : option bytes :=
    option_map (app (snd (updates enc_update s parts))) (enc_final (fst (updates enc_update s parts))).
  Definition dec_multi (s : state) (parts : list bytes) : option bytes :=
    option_map (app (snd (updates dec_update s parts))) (dec_final (fst (updates dec_update s parts))).

  (* C_Encrypt / C_Decrypt (SymEncrypt, SymDecrypt), WrapKeySym, UnwrapKeySym, deriveSymmetric:
     one update with the whole input, then final *)
  Definition enc_single (s : state) (msg : bytes) : option bytes := enc_multi s [msg].
  Definition dec_single (s : state) (c : bytes) : option bytes := dec_multi s [c].

  (* WrapKeySym (CKM_AES_CBC_PAD, CKM_DES3_CBC_PAD): RFC5652Pad in SoftHSM.cpp, then CBC with the
     cipher's own padding switched OFF.  UnwrapKeySym: CBC decryption with padding off, then
     RFC5652Unpad. *)
  Definition wrap_cbc_pad (iv keydata : bytes) : option bytes :=
    enc_single (init CBC false iv) (pkcs7_pad bs keydata).
  Definition unwrap_cbc_pad (iv wrapped : bytes) : option bytes :=
    match dec_single (init CBC false iv) wrapped with
    | Some p => pkcs7_unpad bs p
    | None => None
    end.

End Cipher.
