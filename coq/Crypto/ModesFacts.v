(* Crypto/ModesFacts.v — proofs about Crypto/Modes.v: every way of cutting a message into parts
   gives the one-shot result (ECB, CBC, CBC-PAD / ECB-PAD; encryption and decryption), decryption
   inverts encryption, SoftHSM's own padding around an unpadded CBC operation (WrapKeySym /
   UnwrapKeySym) equals the cipher's padded mode, and the generic fold lemma for digest / MAC
   style updates.  No axioms: the block cipher is a Section variable with explicit hypotheses. *)
From Coq Require Import List NArith Arith Bool Lia.
From SoftHSM Require Import Defs Pad PadFacts Modes.
Import ListNotations.

(* ---- generic: folding an update over any split ------------------------------------------------- *)

(* digest / MAC style: hashUpdate, signUpdate, verifyUpdate ... *)
Theorem fold_update_concat :
  forall (S : Type) (f : S -> bytes -> S),
    (forall s a b, f (f s a) b = f s (a ++ b)) ->
    (forall s, f s [] = s) ->
    forall (parts : list bytes) (s : S), fold_left f parts s = f s (concat parts).
Proof.
  intros S f Happ Hnil parts. induction parts as [|p ps IH]; intros s; simpl.
  - symmetry. apply Hnil.
  - rewrite IH. apply Happ.
Qed.

(* cipher style: an update also produces output *)
Theorem updates_concat :
  forall (upd : state -> bytes -> state * bytes),
    (forall s a b, upd s (a ++ b) =
                   (fst (upd (fst (upd s a)) b), snd (upd s a) ++ snd (upd (fst (upd s a)) b))) ->
    (forall s, upd s [] = (s, [])) ->
    forall (parts : list bytes) (s : state), updates upd s parts = upd s (concat parts).
Proof.
  intros upd Happ Hnil parts. induction parts as [|p ps IH]; intros s; simpl.
  - symmetry. apply Hnil.
  - rewrite IH. symmetry. apply Happ.
Qed.

(* ---- lists of blocks --------------------------------------------------------------------------- *)

Definition all_len (bs : nat) (bl : list bytes) : Prop := Forall (fun b => length b = bs) bl.

Lemma concat_length_blocks : forall bs bl, all_len bs bl -> length (concat bl) = (length bl * bs)%nat.
Proof.
  intros bs bl H. induction H as [|b bl Hb Hbl IH]; [reflexivity|].
  simpl. rewrite app_length, IH, Hb. reflexivity.
Qed.

Lemma concat_removelast_last : forall (l : list bytes), concat (removelast l) ++ last l [] = concat l.
Proof.
  induction l as [|x l IH]; [reflexivity|].
  destruct l as [|y l]. { simpl. now rewrite app_nil_r. }
  change (removelast (x :: y :: l)) with (x :: removelast (y :: l)).
  change (last (x :: y :: l) []) with (last (y :: l) (@nil N)).
  cbn [concat]. cbn [concat] in IH. rewrite <- app_assoc, IH. reflexivity.
Qed.

Lemma all_len_removelast : forall bs l, all_len bs l -> all_len bs (removelast l).
Proof.
  intros bs l H. induction H as [|x l Hx Hl IH]; [constructor|].
  destruct l as [|y l]; [constructor|].
  change (removelast (x :: y :: l)) with (x :: removelast (y :: l)). constructor; assumption.
Qed.

Lemma all_len_last : forall bs l, all_len bs l -> l <> [] -> length (last l []) = bs.
Proof.
  intros bs l H. induction H as [|x l Hx Hl IH]; intros Hne; [contradiction|].
  destruct l as [|y l]; [exact Hx|].
  change (last (x :: y :: l) []) with (last (y :: l) (@nil N)). apply IH. discriminate.
Qed.

Lemma xor_bytes_length : forall a b, length (xor_bytes a b) = Nat.min (length a) (length b).
Proof.
  induction a as [|x a IH]; intros [|y b]; simpl; try reflexivity. now rewrite IH.
Qed.

Lemma xor_bytes_cancel : forall a b, (length a <= length b)%nat -> xor_bytes (xor_bytes a b) b = a.
Proof.
  induction a as [|x a IH]; intros [|y b] H; simpl in *; try reflexivity; try lia.
  rewrite IH by lia. f_equal.
  rewrite N.lxor_assoc, N.lxor_nilpotent. apply N.lxor_0_r.
Qed.

(* ---- chunk -------------------------------------------------------------------------------------- *)

Section Chunk.
  Variable bs : nat.
  Hypothesis Hbs : (1 <= bs)%nat.

  Lemma chunk_fuel_spec : forall fuel l, (length l <= fuel)%nat ->
    l = concat (fst (chunk_fuel fuel bs l)) ++ snd (chunk_fuel fuel bs l)
    /\ all_len bs (fst (chunk_fuel fuel bs l))
    /\ (length (snd (chunk_fuel fuel bs l)) < bs)%nat.
  Proof.
    induction fuel as [|f IH]; intros l Hl.
    - destruct l; [|simpl in Hl; lia]. simpl. repeat split; [constructor | lia].
    - cbn [chunk_fuel]. destruct (Nat.leb_spec bs (length l)) as [Hle|Hlt].
      + assert (Hsk : (length (skipn bs l) <= f)%nat) by (rewrite skipn_length; lia).
        destruct (IH (skipn bs l) Hsk) as [H1 [H2 H3]]. cbn [fst snd]. repeat split.
        * cbn [concat]. rewrite <- app_assoc, <- H1. symmetry. apply firstn_skipn.
        * constructor; [|exact H2]. rewrite firstn_length. lia.
        * exact H3.
      + cbn [fst snd concat app]. repeat split; [constructor | exact Hlt].
  Qed.

  Lemma chunk_spec : forall l,
    l = concat (fst (chunk bs l)) ++ snd (chunk bs l)
    /\ all_len bs (fst (chunk bs l))
    /\ (length (snd (chunk bs l)) < bs)%nat.
  Proof. intros l. unfold chunk. apply chunk_fuel_spec. lia. Qed.

  Lemma chunk_fuel_unique : forall bl r, all_len bs bl -> (length r < bs)%nat ->
    forall fuel, (length (concat bl ++ r) <= fuel)%nat ->
    chunk_fuel fuel bs (concat bl ++ r) = (bl, r).
  Proof.
    intros bl r Hbl Hr. induction Hbl as [|b bl Hb Hbl IH]; intros fuel Hf.
    - cbn [concat app]. destruct fuel as [|f]; [reflexivity|]. cbn [chunk_fuel].
      destruct (Nat.leb_spec bs (length r)); [lia | reflexivity].
    - cbn [concat]. rewrite <- app_assoc.
      cbn [concat] in Hf. rewrite <- app_assoc, app_length in Hf.
      destruct fuel as [|f]; [lia|]. cbn [chunk_fuel].
      destruct (Nat.leb_spec bs (length (b ++ concat bl ++ r))) as [_|Hlt];
        [|rewrite app_length in Hlt; lia].
      assert (Hfi : firstn bs (b ++ concat bl ++ r) = b) by (rewrite <- Hb; apply firstn_length_app).
      assert (Hsk : skipn bs (b ++ concat bl ++ r) = concat bl ++ r)
        by (rewrite <- Hb; apply skipn_length_app).
      rewrite Hfi, Hsk, IH by lia. reflexivity.
  Qed.

  Lemma chunk_unique : forall bl r, all_len bs bl -> (length r < bs)%nat ->
    chunk bs (concat bl ++ r) = (bl, r).
  Proof. intros bl r Hbl Hr. unfold chunk. apply chunk_fuel_unique; auto. Qed.

  Lemma chunk_concat : forall bl, all_len bs bl -> chunk bs (concat bl) = (bl, []).
  Proof.
    intros bl Hbl. rewrite <- (app_nil_r (concat bl)). apply chunk_unique; [exact Hbl | simpl; lia].
  Qed.

  Lemma chunk_nil : chunk bs [] = ([], []).
  Proof. reflexivity. Qed.

  (* the streaming property of chunking *)
  Lemma chunk_app : forall l1 l2,
    chunk bs (l1 ++ l2) =
    (fst (chunk bs l1) ++ fst (chunk bs (snd (chunk bs l1) ++ l2)),
     snd (chunk bs (snd (chunk bs l1) ++ l2))).
  Proof.
    intros l1 l2.
    destruct (chunk_spec l1) as [H1 [HB1 _]].
    destruct (chunk_spec (snd (chunk bs l1) ++ l2)) as [H2 [HB2 HR2]].
    set (B1 := fst (chunk bs l1)) in *. set (R1 := snd (chunk bs l1)) in *.
    set (B2 := fst (chunk bs (R1 ++ l2))) in *. set (R2 := snd (chunk bs (R1 ++ l2))) in *.
    transitivity (chunk bs (concat (B1 ++ B2) ++ R2)).
    - f_equal. rewrite concat_app, <- app_assoc, <- H2, app_assoc. f_equal. exact H1.
    - apply chunk_unique; [apply Forall_app; split; assumption | exact HR2].
  Qed.

  Lemma chunk_concat_app : forall bl x, all_len bs bl ->
    chunk bs (concat bl ++ x) = (bl ++ fst (chunk bs x), snd (chunk bs x)).
  Proof. intros bl x Hbl. rewrite chunk_app, chunk_concat by exact Hbl. reflexivity. Qed.

  Lemma length_mod_chunk : forall l, (length l mod bs = length (snd (chunk bs l)))%nat.
  Proof.
    intros l. destruct (chunk_spec l) as [H1 [HB HR]].
    rewrite H1 at 1. rewrite app_length, (concat_length_blocks bs) by exact HB.
    rewrite Nat.add_comm, Nat.mod_add by lia. apply Nat.mod_small. exact HR.
  Qed.

  Lemma chunk_aligned : forall l, (length l mod bs = 0)%nat ->
    snd (chunk bs l) = [] /\ concat (fst (chunk bs l)) = l.
  Proof.
    intros l H. rewrite length_mod_chunk in H.
    destruct (chunk_spec l) as [H1 _].
    destruct (snd (chunk bs l)) as [|x r] eqn:Hr; [|simpl in H; lia].
    split; [reflexivity|]. rewrite app_nil_r in H1. symmetry. exact H1.
  Qed.

  (* padding only concerns the incomplete last block *)
  Lemma blocks_of_pad : forall msg,
    blocks_of bs (pkcs7_pad bs msg) =
    blocks_of bs msg ++ blocks_of bs (pkcs7_pad bs (snd (chunk bs msg))).
  Proof.
    intros msg. unfold blocks_of.
    destruct (chunk_spec msg) as [H1 [HB _]].
    destruct (chunk bs msg) as [B r]. cbn [fst snd] in *.
    rewrite H1.
    rewrite (pkcs7_pad_app_aligned bs (concat B) r (length B) Hbs (concat_length_blocks bs B HB)).
    rewrite chunk_concat_app by exact HB. reflexivity.
  Qed.
End Chunk.

(* ---- run ---------------------------------------------------------------------------------------- *)

Lemma run_app : forall step b1 iv b2,
  run step iv (b1 ++ b2) =
  (fst (run step (fst (run step iv b1)) b2),
   snd (run step iv b1) ++ snd (run step (fst (run step iv b1)) b2)).
Proof.
  intros step b1. induction b1 as [|b b1 IH]; intros iv b2.
  - cbn [app run fst snd]. apply surjective_pairing.
  - cbn [app run fst snd]. rewrite IH. reflexivity.
Qed.

Lemma run_length : forall step bl iv, length (snd (run step iv bl)) = length bl.
Proof.
  intros step bl. induction bl as [|b bl IH]; intros iv; cbn [run snd length]; [reflexivity|].
  now rewrite IH.
Qed.

Lemma run_ne : forall step bl iv, bl <> [] -> snd (run step iv bl) <> [].
Proof.
  intros step bl iv Hne He. apply (f_equal (@length bytes)) in He.
  rewrite run_length in He. destruct bl; [contradiction | simpl in He; lia].
Qed.

Section Facts.
  Variable bs : nat.
  Variables E D : bytes -> bytes.
  Hypothesis Hbs : (1 <= bs)%nat.

  Local Notation encU := (enc_update bs E).
  Local Notation decU := (dec_update bs D).
  Local Notation encF := (enc_final bs E).
  Local Notation decF := (dec_final bs).
  Local Notation eblk := (enc_block E).
  Local Notation dblk := (dec_block D).

  (* the state machine's block loop computes the specification-level modes *)
  Lemma run_enc_spec : forall m bl iv, snd (run (eblk m) iv bl) = mode_enc E m iv bl.
  Proof.
    intros m bl. induction bl as [|b bl IH]; intros iv.
    - destruct m; reflexivity.
    - cbn [run snd]. rewrite IH. destruct m; reflexivity.
  Qed.

  Lemma run_dec_spec : forall m cl iv, snd (run (dblk m) iv cl) = mode_dec D m iv cl.
  Proof.
    intros m cl. induction cl as [|c cl IH]; intros iv.
    - destruct m; reflexivity.
    - cbn [run snd]. rewrite IH. destruct m; reflexivity.
  Qed.

  (* ================================ encryption ================================================= *)

  Lemma enc_update_nil : forall s, encU s [] = (s, []).
  Proof. reflexivity. Qed.

  Lemma enc_update_ne : forall s d, d <> [] ->
    encU s d =
    (mkState (st_mode s) (st_pad s)
             (fst (run (eblk (st_mode s)) (st_iv s) (fst (chunk bs (st_buf s ++ d)))))
             (snd (chunk bs (st_buf s ++ d))) (st_held s),
     concat (snd (run (eblk (st_mode s)) (st_iv s) (fst (chunk bs (st_buf s ++ d)))))).
  Proof. intros s d Hd. destruct d; [contradiction | reflexivity]. Qed.

  (* feeding a ++ b is feeding a and then b *)
  Lemma enc_update_app : forall s a b,
    encU s (a ++ b) = (fst (encU (fst (encU s a)) b), snd (encU s a) ++ snd (encU (fst (encU s a)) b)).
  Proof.
    intros s a b.
    destruct (list_eq_dec N.eq_dec a []) as [Ha|Ha].
    { subst a. rewrite enc_update_nil. cbn [app fst snd]. apply surjective_pairing. }
    destruct (list_eq_dec N.eq_dec b []) as [Hb|Hb].
    { subst b. rewrite app_nil_r, enc_update_nil. cbn [fst snd]. rewrite app_nil_r.
      apply surjective_pairing. }
    assert (Hab : a ++ b <> []).
    { intros He. apply app_eq_nil in He. destruct He as [He _]. contradiction. }
    rewrite (enc_update_ne s (a ++ b)) by exact Hab.
    rewrite (enc_update_ne s a) by exact Ha.
    cbn [fst snd].
    rewrite (enc_update_ne _ b) by exact Hb.
    cbn [fst snd st_mode st_pad st_iv st_buf st_held].
    rewrite app_assoc, (chunk_app bs Hbs). cbn [fst snd].
    rewrite run_app. cbn [fst snd]. rewrite concat_app. reflexivity.
  Qed.

  (* any split = one update with the whole message (state and output) *)
  Lemma enc_updates_concat : forall parts s, updates encU s parts = encU s (concat parts).
  Proof. apply updates_concat; [apply enc_update_app | apply enc_update_nil]. Qed.

  Theorem enc_multi_eq_single : forall s parts, enc_multi bs E s parts = enc_single bs E s (concat parts).
  Proof.
    intros s parts. unfold enc_single, enc_multi.
    rewrite !enc_updates_concat. cbn [concat]. rewrite app_nil_r. reflexivity.
  Qed.

  Lemma enc_update_init : forall m pad iv msg,
    encU (init m pad iv) msg =
    (mkState m pad (fst (run (eblk m) iv (blocks_of bs msg))) (snd (chunk bs msg)) None,
     concat (snd (run (eblk m) iv (blocks_of bs msg)))).
  Proof.
    intros m pad iv msg. destruct msg as [|x msg]; [reflexivity|].
    rewrite enc_update_ne by discriminate. reflexivity.
  Qed.

  (* one update with everything, then final, is the one-shot specification *)
  Theorem enc_single_spec : forall m pad iv msg,
    enc_single bs E (init m pad iv) msg = encrypt_all bs E m pad iv msg.
  Proof.
    intros m pad iv msg. unfold enc_single, enc_multi. cbn [updates fst snd].
    rewrite enc_update_init. cbn [fst snd]. rewrite app_nil_r.
    unfold enc_final, encrypt_all. cbn [st_pad st_mode st_iv st_buf].
    destruct pad.
    - cbn [option_map]. f_equal.
      rewrite <- run_enc_spec, (blocks_of_pad bs Hbs), run_app. cbn [snd].
      rewrite concat_app. reflexivity.
    - rewrite (length_mod_chunk bs Hbs).
      destruct (snd (chunk bs msg)) as [|x r]; cbn [is_nil length Nat.eqb option_map].
      + rewrite app_nil_r, run_enc_spec. reflexivity.
      + reflexivity.
  Qed.

  (* MAIN (encryption): ECB, CBC, ECB-PAD, CBC-PAD.  For every split of the message into parts
     (empty parts allowed), the concatenation of all C_EncryptUpdate outputs and the
     C_EncryptFinal output is the one-shot result; both fail together in the unpadded modes when
     the total length is not a multiple of the block size. *)
  Theorem multipart_eq_single_enc : forall m pad iv parts,
    enc_multi bs E (init m pad iv) parts = encrypt_all bs E m pad iv (concat parts).
  Proof. intros. rewrite enc_multi_eq_single. apply enc_single_spec. Qed.

  (* getBufferSize() after feeding msg: the bytes of the incomplete block *)
  Lemma enc_buffer_size : forall m pad iv parts,
    buffer_size (fst (updates encU (init m pad iv) parts)) = (length (concat parts) mod bs)%nat.
  Proof.
    intros. rewrite enc_updates_concat, enc_update_init. cbn [fst]. unfold buffer_size.
    cbn [st_buf st_held]. rewrite (length_mod_chunk bs Hbs). lia.
  Qed.

  (* ================================ decryption ================================================= *)

  Lemma dec_update_nil : forall s, decU s [] = (s, []).
  Proof. reflexivity. Qed.

  Lemma dec_update_ne : forall s d, d <> [] ->
    decU s d =
    (if st_pad s then
       if is_nil (snd (chunk bs (st_buf s ++ d))) then
         (mkState (st_mode s) (st_pad s)
                  (fst (run (dblk (st_mode s)) (st_iv s) (fst (chunk bs (st_buf s ++ d))))) []
                  (Some (last (snd (run (dblk (st_mode s)) (st_iv s) (fst (chunk bs (st_buf s ++ d))))) [])),
          match st_held s with Some h => h | None => [] end ++
          concat (removelast (snd (run (dblk (st_mode s)) (st_iv s) (fst (chunk bs (st_buf s ++ d)))))))
       else
         (mkState (st_mode s) (st_pad s)
                  (fst (run (dblk (st_mode s)) (st_iv s) (fst (chunk bs (st_buf s ++ d)))))
                  (snd (chunk bs (st_buf s ++ d))) None,
          match st_held s with Some h => h | None => [] end ++
          concat (snd (run (dblk (st_mode s)) (st_iv s) (fst (chunk bs (st_buf s ++ d))))))
     else
       (mkState (st_mode s) (st_pad s)
                (fst (run (dblk (st_mode s)) (st_iv s) (fst (chunk bs (st_buf s ++ d)))))
                (snd (chunk bs (st_buf s ++ d))) (st_held s),
        concat (snd (run (dblk (st_mode s)) (st_iv s) (fst (chunk bs (st_buf s ++ d))))))).
  Proof. intros s d Hd. destruct d; [contradiction | reflexivity]. Qed.

  (* if non-empty input is consumed up to a block boundary, at least one block came out *)
  Lemma chunk_blocks_ne : forall r b, b <> [] -> snd (chunk bs (r ++ b)) = [] -> fst (chunk bs (r ++ b)) <> [].
  Proof.
    intros r b Hb Hr He. destruct (chunk_spec bs Hbs (r ++ b)) as [H1 _].
    rewrite Hr, He in H1. cbn in H1. apply app_eq_nil in H1. destruct H1 as [_ H1]. contradiction.
  Qed.

  Lemma dec_update_app : forall s a b,
    decU s (a ++ b) = (fst (decU (fst (decU s a)) b), snd (decU s a) ++ snd (decU (fst (decU s a)) b)).
  Proof.
    intros s a b.
    destruct (list_eq_dec N.eq_dec a []) as [Ha|Ha].
    { subst a. rewrite dec_update_nil. cbn [app fst snd]. apply surjective_pairing. }
    destruct (list_eq_dec N.eq_dec b []) as [Hb|Hb].
    { subst b. rewrite app_nil_r, dec_update_nil. cbn [fst snd]. rewrite app_nil_r.
      apply surjective_pairing. }
    assert (Hab : a ++ b <> []).
    { intros He. apply app_eq_nil in He. destruct He as [He _]. contradiction. }
    rewrite (dec_update_ne s (a ++ b)) by exact Hab.
    rewrite (dec_update_ne s a) by exact Ha.
    rewrite app_assoc, (chunk_app bs Hbs). cbn [fst snd]. rewrite run_app. cbn [fst snd].
    destruct (st_pad s) eqn:Hpad.
    - (* padding on *)
      set (pre := match st_held s with Some h => h | None => [] end).
      destruct (snd (chunk bs (st_buf s ++ a))) as [|z ra] eqn:Hra; cbn [is_nil fst snd].
      + (* a ended on a block boundary: its last block is held and comes out first with b *)
        rewrite (dec_update_ne _ b) by exact Hb.
        cbn [fst snd st_mode st_pad st_iv st_buf st_held].
        set (Oa := snd (run (dblk (st_mode s)) (st_iv s) (fst (chunk bs (st_buf s ++ a))))).
        set (iv1 := fst (run (dblk (st_mode s)) (st_iv s) (fst (chunk bs (st_buf s ++ a))))).
        destruct (snd (chunk bs ([] ++ b))) as [|z rb] eqn:Hrb; cbn [is_nil fst snd].
        * assert (HOb : snd (run (dblk (st_mode s)) iv1 (fst (chunk bs ([] ++ b)))) <> []).
          { apply run_ne. apply chunk_blocks_ne; assumption. }
          rewrite removelast_app by exact HOb. rewrite last_app_ne by exact HOb.
          rewrite concat_app.
          rewrite <- (concat_removelast_last Oa) at 1.
          rewrite <- !app_assoc. reflexivity.
        * rewrite concat_app.
          rewrite <- (concat_removelast_last Oa) at 1.
          rewrite <- !app_assoc. reflexivity.
      + (* a left an incomplete block *)
        rewrite (dec_update_ne _ b) by exact Hb.
        cbn [fst snd st_mode st_pad st_iv st_buf st_held].
        set (Oa := snd (run (dblk (st_mode s)) (st_iv s) (fst (chunk bs (st_buf s ++ a))))).
        set (iv1 := fst (run (dblk (st_mode s)) (st_iv s) (fst (chunk bs (st_buf s ++ a))))).
        destruct (snd (chunk bs ((z :: ra) ++ b))) as [|z' rb] eqn:Hrb; cbn [is_nil fst snd app].
        * assert (HOb : snd (run (dblk (st_mode s)) iv1 (fst (chunk bs ((z :: ra) ++ b)))) <> []).
          { apply run_ne. apply chunk_blocks_ne; assumption. }
          rewrite removelast_app by exact HOb. rewrite last_app_ne by exact HOb.
          rewrite concat_app. rewrite <- !app_assoc. reflexivity.
        * rewrite concat_app. rewrite <- !app_assoc. reflexivity.
    - (* padding off: as for encryption *)
      cbn [fst snd].
      rewrite (dec_update_ne _ b) by exact Hb.
      cbn [fst snd st_mode st_pad st_iv st_buf st_held].
      rewrite concat_app. reflexivity.
  Qed.

  Lemma dec_updates_concat : forall parts s, updates decU s parts = decU s (concat parts).
  Proof. apply updates_concat; [apply dec_update_app | apply dec_update_nil]. Qed.

  (* the hold-back, concretely: in a padded mode a first update with exactly one ciphertext block
     gives NO output; the decrypted block waits in the state (getBufferSize() = one block's
     worth) and C_DecryptFinal returns it unpadded *)
  Lemma dec_update_one_block_held : forall m iv c, length c = bs ->
    decU (init m true iv) c =
      (mkState m true (fst (dblk m iv c)) [] (Some (snd (dblk m iv c))), [])
    /\ decF (fst (decU (init m true iv) c)) = pkcs7_unpad bs (snd (dblk m iv c)).
  Proof.
    intros m iv c Hc.
    assert (Hne : c <> []) by (destruct c; [simpl in Hc; lia | discriminate]).
    assert (Hch : chunk bs c = ([c], [])).
    { rewrite <- (app_nil_r c) at 1. change (c ++ []) with (concat [c]).
      apply (chunk_concat bs Hbs). constructor; [exact Hc | constructor]. }
    assert (Hu : decU (init m true iv) c =
                 (mkState m true (fst (dblk m iv c)) [] (Some (snd (dblk m iv c))), [])).
    { rewrite dec_update_ne by exact Hne.
      cbn [init st_pad st_mode st_iv st_buf st_held app]. rewrite Hch. reflexivity. }
    split; [exact Hu|]. rewrite Hu. reflexivity.
  Qed.

  Theorem dec_multi_eq_single : forall s parts, dec_multi bs D s parts = dec_single bs D s (concat parts).
  Proof.
    intros s parts. unfold dec_single, dec_multi.
    rewrite !dec_updates_concat. cbn [concat]. rewrite app_nil_r. reflexivity.
  Qed.

  (* ---- single update + final = specification --------------------------------------------------- *)

  Lemma mode_dec_nil : forall m iv, mode_dec D m iv [] = [].
  Proof. intros [] iv; reflexivity. Qed.

  (* unpadded: no hypothesis on D at all *)
  Theorem dec_single_spec_nopad : forall m iv c,
    dec_single bs D (init m false iv) c = decrypt_all bs D m false iv c.
  Proof.
    intros m iv c. unfold dec_single, dec_multi. cbn [updates fst snd]. rewrite app_nil_r.
    unfold decrypt_all. rewrite (length_mod_chunk bs Hbs).
    destruct c as [|x c].
    - cbn. unfold blocks_of. rewrite mode_dec_nil. reflexivity.
    - rewrite dec_update_ne by discriminate.
      cbn [init st_pad st_mode st_iv st_buf st_held fst snd app].
      unfold dec_final. cbn [st_pad st_buf].
      destruct (snd (chunk bs (x :: c))) as [|y r]; cbn [is_nil length Nat.eqb option_map].
      + rewrite app_nil_r, run_dec_spec. reflexivity.
      + reflexivity.
  Qed.

  Hypothesis D_len : forall b, length b = bs -> length (D b) = bs.

  Lemma run_dec_len : forall m cl iv, all_len bs cl -> (m = CBC -> length iv = bs) ->
    all_len bs (snd (run (dblk m) iv cl)).
  Proof.
    intros m cl. induction cl as [|c cl IH]; intros iv Hcl Hiv; cbn [run snd]; [constructor|].
    pose proof (Forall_inv Hcl) as Hc. pose proof (Forall_inv_tail Hcl) as Hcl'. cbv beta in Hc.
    constructor.
    - destruct m; cbn [dec_block snd]; [apply D_len; exact Hc|].
      rewrite xor_bytes_length, D_len, Hiv by auto. apply Nat.min_id.
    - apply IH; [exact Hcl'|]. intros Hm. subst m. cbn [dec_block fst]. exact Hc.
  Qed.

  (* padded: the held-back block is the one that pkcs7_unpad inspects *)
  Theorem dec_single_spec_pad : forall m iv c, (m = CBC -> length iv = bs) ->
    dec_single bs D (init m true iv) c = decrypt_all bs D m true iv c.
  Proof.
    intros m iv c Hiv. unfold dec_single, dec_multi. cbn [updates fst snd]. rewrite app_nil_r.
    unfold decrypt_all. rewrite (length_mod_chunk bs Hbs).
    destruct c as [|x c].
    - cbn. unfold blocks_of. rewrite mode_dec_nil. cbn [concat]. rewrite unpad_empty. reflexivity.
    - rewrite dec_update_ne by discriminate.
      cbn [init st_pad st_mode st_iv st_buf st_held fst snd app].
      destruct (chunk_spec bs Hbs (x :: c)) as [H1 [HB _]].
      unfold blocks_of.
      destruct (snd (chunk bs (x :: c))) as [|y r] eqn:Hr; cbn [is_nil length Nat.eqb fst snd].
      + unfold dec_final. cbn [st_pad st_buf st_held]. rewrite <- run_dec_spec.
        set (B := fst (chunk bs (x :: c))) in *.
        assert (HBne : B <> []).
        { intros He. rewrite He in H1. cbn in H1. discriminate. }
        set (O := snd (run (dblk m) iv B)).
        assert (HO : all_len bs O) by (apply run_dec_len; assumption).
        assert (HOne : O <> []) by (apply run_ne; exact HBne).
        rewrite <- (concat_removelast_last O).
        rewrite (pkcs7_unpad_app_block bs (concat (removelast O)) (last O []) (length (removelast O)) Hbs).
        * reflexivity.
        * apply concat_length_blocks. apply all_len_removelast. exact HO.
        * apply all_len_last; assumption.
      + reflexivity.
  Qed.

  Theorem dec_single_spec : forall m pad iv c, (m = CBC -> length iv = bs) ->
    dec_single bs D (init m pad iv) c = decrypt_all bs D m pad iv c.
  Proof.
    intros m [] iv c Hiv; [apply dec_single_spec_pad; exact Hiv | apply dec_single_spec_nopad].
  Qed.

  (* MAIN (decryption): ECB, CBC, ECB-PAD, CBC-PAD, for every split of the ciphertext.  With
     padding the library keeps the last decrypted block back until C_DecryptFinal; the total
     output is nevertheless that of the one-shot operation (including every failure: total length
     not a multiple of the block size, empty input, bad padding). *)
  Theorem multipart_eq_single_dec : forall m pad iv parts, (m = CBC -> length iv = bs) ->
    dec_multi bs D (init m pad iv) parts = decrypt_all bs D m pad iv (concat parts).
  Proof. intros. rewrite dec_multi_eq_single. apply dec_single_spec. assumption. Qed.

  Theorem multipart_eq_single_dec_nopad : forall m iv parts,
    dec_multi bs D (init m false iv) parts = decrypt_all bs D m false iv (concat parts).
  Proof. intros. rewrite dec_multi_eq_single. apply dec_single_spec_nopad. Qed.

  (* ================================ round trip ================================================== *)

  Hypothesis E_len : forall b, length b = bs -> length (E b) = bs.
  Hypothesis DE : forall b, length b = bs -> D (E b) = b.

  Lemma mode_enc_len : forall m bl iv, all_len bs bl -> (m = CBC -> length iv = bs) ->
    all_len bs (mode_enc E m iv bl).
  Proof.
    intros m bl. induction bl as [|b bl IH]; intros iv Hbl Hiv.
    - destruct m; constructor.
    - pose proof (Forall_inv Hbl) as Hb. pose proof (Forall_inv_tail Hbl) as Hbl'. cbv beta in Hb.
      destruct m.
      + cbn [mode_enc ecb_enc map]. constructor; [apply E_len; exact Hb|].
        apply (IH iv Hbl'). discriminate.
      + cbn [mode_enc cbc_enc].
        assert (Hx : length (xor_bytes b iv) = bs).
        { rewrite xor_bytes_length, Hb, Hiv by reflexivity. apply Nat.min_id. }
        constructor; [apply E_len; exact Hx|].
        apply (IH (E (xor_bytes b iv)) Hbl'). intros _. apply E_len. exact Hx.
  Qed.

  Lemma mode_dec_enc : forall m bl iv, all_len bs bl -> (m = CBC -> length iv = bs) ->
    mode_dec D m iv (mode_enc E m iv bl) = bl.
  Proof.
    intros m bl. induction bl as [|b bl IH]; intros iv Hbl Hiv.
    - destruct m; reflexivity.
    - pose proof (Forall_inv Hbl) as Hb. pose proof (Forall_inv_tail Hbl) as Hbl'. cbv beta in Hb.
      destruct m.
      + cbn [mode_enc mode_dec ecb_enc ecb_dec map]. rewrite DE by exact Hb. f_equal.
        apply (IH iv Hbl'). discriminate.
      + cbn [mode_enc mode_dec cbc_enc cbc_dec].
        assert (Hx : length (xor_bytes b iv) = bs).
        { rewrite xor_bytes_length, Hb, Hiv by reflexivity. apply Nat.min_id. }
        rewrite DE by exact Hx. rewrite xor_bytes_cancel by (rewrite Hiv by reflexivity; lia).
        f_equal. apply (IH (E (xor_bytes b iv)) Hbl'). intros _. apply E_len. exact Hx.
  Qed.

  (* decrypting the ciphertext of an aligned plaintext p gives p back (no padding involved) *)
  Lemma decrypt_encrypt_blocks : forall m iv p, (length p mod bs = 0)%nat ->
    (m = CBC -> length iv = bs) ->
    decrypt_all bs D m false iv (concat (mode_enc E m iv (blocks_of bs p))) = Some p.
  Proof.
    intros m iv p Hp Hiv.
    destruct (chunk_spec bs Hbs p) as [_ [HB _]].
    destruct (chunk_aligned bs Hbs p Hp) as [_ Hcat].
    pose proof (mode_enc_len m (blocks_of bs p) iv HB Hiv) as HC.
    unfold decrypt_all.
    rewrite (concat_length_blocks bs _ HC), Nat.mod_mul by lia. cbn [Nat.eqb].
    unfold blocks_of at 1. rewrite (chunk_concat bs Hbs _ HC). cbn [fst].
    rewrite mode_dec_enc by assumption. f_equal. exact Hcat.
  Qed.

  (* unpadded modes: any message of a whole number of blocks *)
  Theorem roundtrip_nopad : forall m iv msg, (length msg mod bs = 0)%nat ->
    (m = CBC -> length iv = bs) ->
    exists c, encrypt_all bs E m false iv msg = Some c /\ decrypt_all bs D m false iv c = Some msg.
  Proof.
    intros m iv msg Hm Hiv. unfold encrypt_all. rewrite Hm. cbn [Nat.eqb].
    eexists. split; [reflexivity|]. apply decrypt_encrypt_blocks; assumption.
  Qed.

  (* padded modes: ANY message (block sizes up to 255 so that the pad byte fits) *)
  Theorem roundtrip_pad : forall m iv msg, (bs <= 255)%nat ->
    (m = CBC -> length iv = bs) ->
    exists c, encrypt_all bs E m true iv msg = Some c /\ decrypt_all bs D m true iv c = Some msg.
  Proof.
    intros m iv msg Hbs2 Hiv. unfold encrypt_all.
    eexists. split; [reflexivity|].
    destruct (pad_length bs msg Hbs) as [Hal _].
    pose proof (decrypt_encrypt_blocks m iv (pkcs7_pad bs msg) Hal Hiv) as H.
    unfold decrypt_all in *.
    destruct (length (concat (mode_enc E m iv (blocks_of bs (pkcs7_pad bs msg)))) mod bs =? 0)%nat;
      [|discriminate].
    injection H as H. rewrite H. apply unpad_pad_gen. lia.
  Qed.

  Theorem roundtrip : forall m pad iv msg,
    (pad = true -> (bs <= 255)%nat) ->
    (pad = false -> (length msg mod bs = 0)%nat) ->
    (m = CBC -> length iv = bs) ->
    exists c, encrypt_all bs E m pad iv msg = Some c /\ decrypt_all bs D m pad iv c = Some msg.
  Proof.
    intros m [] iv msg H1 H2 Hiv; [apply roundtrip_pad | apply roundtrip_nopad]; auto.
  Qed.

  (* the same through the state machines, with arbitrary splits on both sides *)
  Corollary roundtrip_multipart : forall m pad iv msg parts,
    (pad = true -> (bs <= 255)%nat) ->
    (pad = false -> (length msg mod bs = 0)%nat) ->
    (m = CBC -> length iv = bs) ->
    concat parts = msg ->
    exists c, enc_multi bs E (init m pad iv) parts = Some c /\
              forall cparts, concat cparts = c -> dec_multi bs D (init m pad iv) cparts = Some msg.
  Proof.
    intros m pad iv msg parts H1 H2 Hiv Hparts.
    destruct (roundtrip m pad iv msg H1 H2 Hiv) as [c [Hc Hd]].
    exists c. split.
    - rewrite multipart_eq_single_enc, Hparts. exact Hc.
    - intros cparts Hcp. rewrite multipart_eq_single_dec, Hcp by exact Hiv. exact Hd.
  Qed.

  (* ================================ WrapKeySym / UnwrapKeySym =================================== *)

  (* SoftHSM pads with RFC5652Pad and runs CBC with the cipher's padding off; that is the padded
     CBC mode of the cipher *)
  Theorem wrap_cbc_pad_spec : forall iv keydata,
    wrap_cbc_pad bs E iv keydata = encrypt_all bs E CBC true iv keydata.
  Proof.
    intros iv keydata. unfold wrap_cbc_pad. rewrite enc_single_spec. unfold encrypt_all.
    destruct (pad_length bs keydata Hbs) as [Hal _]. rewrite Hal. reflexivity.
  Qed.

  Theorem unwrap_cbc_pad_spec : forall iv wrapped,
    unwrap_cbc_pad bs D iv wrapped = decrypt_all bs D CBC true iv wrapped.
  Proof.
    intros iv wrapped. unfold unwrap_cbc_pad. rewrite dec_single_spec_nopad. unfold decrypt_all.
    destruct (length wrapped mod bs =? 0)%nat; reflexivity.
  Qed.

  Theorem unwrap_wrap : forall iv keydata, (bs <= 255)%nat -> length iv = bs ->
    exists w, wrap_cbc_pad bs E iv keydata = Some w /\ unwrap_cbc_pad bs D iv w = Some keydata.
  Proof.
    intros iv keydata Hbs2 Hiv.
    destruct (roundtrip_pad CBC iv keydata Hbs2 (fun _ => Hiv)) as [w [Hw Hu]].
    exists w. now rewrite wrap_cbc_pad_spec, unwrap_cbc_pad_spec.
  Qed.

End Facts.

Print Assumptions fold_update_concat.
Print Assumptions multipart_eq_single_enc.
Print Assumptions multipart_eq_single_dec.
Print Assumptions multipart_eq_single_dec_nopad.
Print Assumptions roundtrip.
Print Assumptions roundtrip_multipart.
Print Assumptions wrap_cbc_pad_spec.
Print Assumptions unwrap_wrap.
