(* Crypto/DeriveFacts.v — the length of a derived secret key (C13).

   Which CKA_VALUE_LEN a derivation accepts for which key type, and the length it then cuts the shared secret to, is
   decided in deriveDH / deriveECDH / deriveEDDSA / deriveSymmetric (SoftHSM.cpp) by a switch on the key type.  The
   translator regenerates those functions up to the call of the crypto backend (gen/Gen_Entry.v); the scan of the
   template is a loop and is havoc'ed: the value of `byteLen` after it is the universally quantified `hv1_byteLen`, and
   the loop may leave the function with an unknown code.  The regenerated prefix hands its local `byteLen` to the rest
   of the function (`zz_rest byteLen`).

   `derive_len_strict` / `derive_len_lax` below are the model; the theorems say that the code reaches the derivation
   exactly with the model's length, for every value of every other input.  The second half is the hand model of what
   the rest of the function does with that length (default for "0 = as much as there is", cut from the leading end,
   DES parity), tied by the correspondence stream K-crypto C13 only. *)
From Coq Require Import List NArith Bool Lia Arith.
From SoftHSM Require Import Gen_Const Gen_Entry Defs Pad Derive.
Import ListNotations.
Local Open Scope N_scope.

Definition SENT : N := 18446744073709551616.

(* ---- the regenerated code reaches the derivation with exactly the model's length --------------------------------------- *)
Lemma sent_ne (c n : N) : (c <? SENT) = true -> c = SENT + n -> False.
Proof. intros H E. apply N.ltb_lt in H. lia. Qed.

Ltac heads :=
  repeat match goal with
         | |- (if ?c then _ else _) = _ -> _ => destruct c eqn:?
         end.
Ltac const_contra :=
  match goal with
  | H : ?c = SENT + ?n |- _ =>
      tryif is_var c then fail else
      lazymatch c with
      | context [SENT] => fail
      | _ => exfalso; apply (sent_ne c n); [vm_compute; reflexivity | exact H]
      end
  end.
Ltac use_tests := repeat match goal with H : ?b = _ |- context [?b] => rewrite H end.

Ltac derive_len_proof model :=
  heads; intros Hres; try const_contra;
  try (exfalso; match goal with Hb : ?x < SENT, H : ?x = SENT + _ |- _ => rewrite H in Hb; lia end);
  (split; [reflexivity|]);
  apply N.add_cancel_l in Hres; subst;
  cbv [model CKK_GENERIC_SECRET CKK_DES CKK_DES2 CKK_DES3 CKK_AES]; use_tests; cbn [negb andb]; try reflexivity.

Theorem deriveDH_len (e : deriveDH.env) :
  (forall n, deriveDH.zz_rest e n = SENT + n) -> deriveDH.hv1_loop_rv e < SENT ->
  forall n, deriveDH.app e = SENT + n ->
  deriveDH.hv1_loop_returns e = false /\ derive_len_strict (deriveDH.keyType e) (deriveDH.hv1_byteLen e) = inr n.
Proof.
  destruct e. cbn [deriveDH.zz_rest deriveDH.hv1_loop_rv deriveDH.hv1_loop_returns deriveDH.keyType deriveDH.hv1_byteLen].
  intros Hz Hb n. deriveDH.open_env. rewrite ?Hz. derive_len_proof derive_len_strict.
Qed.

Theorem deriveSymmetric_len (e : deriveSymmetric.env) :
  (forall n, deriveSymmetric.zz_rest e n = SENT + n) -> deriveSymmetric.hv1_loop_rv e < SENT ->
  forall n, deriveSymmetric.app e = SENT + n ->
  deriveSymmetric.hv1_loop_returns e = false /\
  let m := deriveSymmetric.pMechanism_mechanism e in
  let req := deriveSymmetric.hv1_byteLen e in
  if (0 <? req) || (negb (m =? CKM_CONCATENATE_DATA_AND_BASE) && negb (m =? CKM_CONCATENATE_BASE_AND_DATA) && negb (m =? CKM_CONCATENATE_BASE_AND_KEY))
  then derive_len_strict (deriveSymmetric.keyType e) req = inr n
  else n = 0.        (* the concatenations without CKA_VALUE_LEN: the length is that of the concatenation, checked by checkKeyLength later *)
Proof.
  destruct e. cbn [deriveSymmetric.zz_rest deriveSymmetric.hv1_loop_rv deriveSymmetric.hv1_loop_returns deriveSymmetric.keyType deriveSymmetric.hv1_byteLen deriveSymmetric.pMechanism_mechanism].
  intros Hz Hb n. deriveSymmetric.open_env. rewrite ?Hz.
  heads; intros Hres; try const_contra;
  try (exfalso; match goal with Hb : ?x < SENT, H : ?x = SENT + _ |- _ => rewrite H in Hb; lia end);
  (split; [reflexivity|]);
  apply N.add_cancel_l in Hres; subst.
  all: repeat match goal with H : (?x =? ?c) = true |- _ => apply N.eqb_eq in H; try subst x end.
  all: cbn [N.eqb Pos.eqb negb andb orb] in *; try discriminate.
  all: cbv [derive_len_strict CKK_GENERIC_SECRET CKK_DES CKK_DES2 CKK_DES3 CKK_AES CKM_CONCATENATE_DATA_AND_BASE CKM_CONCATENATE_BASE_AND_DATA CKM_CONCATENATE_BASE_AND_KEY].
  all: cbn [N.eqb Pos.eqb negb andb orb] in *.
  all: use_tests; cbn [negb andb orb]; try reflexivity.
  all: try (exfalso; match goal with H : (_ || true) = false |- _ => rewrite orb_true_r in H; discriminate H end).
  all: repeat match goal with |- context [(?a =? ?b)] => destruct (a =? b) eqn:? end; cbn [negb andb orb] in *; try discriminate.
  all: repeat match goal with |- context [(?a <? ?b)] => destruct (a <? b) eqn:? end; cbn [negb andb orb] in *; try discriminate; try reflexivity.
  all: repeat match goal with
   | H : (_ =? _) = true |- _ => apply N.eqb_eq in H
   | H : (_ =? _) = false |- _ => apply N.eqb_neq in H
   | H : (_ <? _) = true |- _ => apply N.ltb_lt in H
   | H : (_ <? _) = false |- _ => apply N.ltb_ge in H end.
  all: try lia.
  all: try (f_equal; lia).
  all: match goal with H : (0 <? ?n) || false = false |- ?n = 0 => rewrite orb_false_r in H; apply N.ltb_ge in H; lia end.
Qed.

Theorem deriveECDH_len (e : deriveECDH.env) :
  (forall n, deriveECDH.zz_rest e n = SENT + n) -> deriveECDH.hv1_loop_rv e < SENT ->
  forall n, deriveECDH.app e = SENT + n ->
  deriveECDH.hv1_loop_returns e = false /\ derive_len_lax (deriveECDH.keyType e) (deriveECDH.hv1_byteLen e) = inr n.
Proof.
  destruct e. cbn [deriveECDH.zz_rest deriveECDH.hv1_loop_rv deriveECDH.hv1_loop_returns deriveECDH.keyType deriveECDH.hv1_byteLen].
  intros Hz Hb n. deriveECDH.open_env. rewrite ?Hz. derive_len_proof derive_len_lax.
Qed.

Theorem deriveEDDSA_len (e : deriveEDDSA.env) :
  (forall n, deriveEDDSA.zz_rest e n = SENT + n) -> deriveEDDSA.hv1_loop_rv e < SENT ->
  forall n, deriveEDDSA.app e = SENT + n ->
  deriveEDDSA.hv1_loop_returns e = false /\ derive_len_lax (deriveEDDSA.keyType e) (deriveEDDSA.hv1_byteLen e) = inr n.
Proof.
  destruct e. cbn [deriveEDDSA.zz_rest deriveEDDSA.hv1_loop_rv deriveEDDSA.hv1_loop_returns deriveEDDSA.keyType deriveEDDSA.hv1_byteLen].
  intros Hz Hb n. deriveEDDSA.open_env. rewrite ?Hz. derive_len_proof derive_len_lax.
Qed.

(* ---- checkKeyLength (regenerated whole): the lengths a secret key of a type may have ------------------------------------ *)
Theorem checkKeyLength_spec (kt n : N) : gen_SoftHSM__checkKeyLength kt n = CKR_OK <-> len_fits kt n = true.
Proof.
  cbv [gen_SoftHSM__checkKeyLength len_fits CKK_GENERIC_SECRET CKK_DES CKK_DES2 CKK_DES3 CKK_AES CKR_OK].
  destruct (kt =? 16); [tauto|]. destruct (kt =? 19); [destruct (n =? 8); cbn; split; congruence|].
  destruct (kt =? 20); [destruct (n =? 16); cbn; split; congruence|].
  destruct (kt =? 21); [destruct (n =? 24); cbn; split; congruence|].
  destruct (kt =? 31); [destruct (n =? 16); destruct (n =? 24); destruct (n =? 32); cbn; split; congruence|].
  split; discriminate.
Qed.

(* what the strict check lets through always fits the key type, and is never empty *)
Theorem strict_len_fits (kt req n : N) : derive_len_strict kt req = inr n -> len_fits kt n = true /\ n <> 0.
Proof.
  cbv [derive_len_strict len_fits CKK_GENERIC_SECRET CKK_DES CKK_DES2 CKK_DES3 CKK_AES].
  destruct (kt =? 16). { destruct (N.eqb_spec req 0); intros H; inversion H; subst; auto. }
  destruct (kt =? 19). { destruct (req =? 0); cbn; intros H; inversion H; subst; split; [reflexivity|discriminate]. }
  destruct (kt =? 20). { destruct (req =? 0); cbn; intros H; inversion H; subst; split; [reflexivity|discriminate]. }
  destruct (kt =? 21). { destruct (req =? 0); cbn; intros H; inversion H; subst; split; [reflexivity|discriminate]. }
  destruct (kt =? 31); [|discriminate].
  destruct (N.eqb_spec req 16); [cbn; intros H; inversion H; subst; split; [reflexivity|discriminate]|].
  destruct (N.eqb_spec req 24); [cbn; intros H; inversion H; subst; split; [reflexivity|discriminate]|].
  destruct (N.eqb_spec req 32); [cbn; intros H; inversion H; subst; split; [reflexivity|discriminate]|].
  cbn. discriminate.
Qed.

(* ---- the rest of deriveDH / deriveECDH (hand model): default, cut from the leading end, parity ------------------------- *)
Lemma derive_tail_length n s v : derive_tail n s = Some v -> length v = n.
Proof.
  unfold derive_tail. destruct (Nat.ltb_spec (length s) n) as [Hlt|Hge]; [discriminate|].
  intros E; inversion E; subst. rewrite skipn_length. lia.
Qed.

Lemma derive_tail_suffix n s v : derive_tail n s = Some v -> exists pre, s = pre ++ v.
Proof.
  unfold derive_tail. destruct (Nat.ltb_spec (length s) n) as [Hlt|Hge]; [discriminate|].
  intros E; inversion E; subst. exists (firstn (length s - n) s). symmetry. apply firstn_skipn.
Qed.

Lemma derive_tail_none n s : derive_tail n s = None <-> (length s < n)%nat.
Proof. unfold derive_tail. destruct (Nat.ltb_spec (length s) n); split; intros; try discriminate; try lia; reflexivity. Qed.

Lemma odd_parity_length k : length (odd_parity k) = length k.
Proof. unfold odd_parity. apply map_length. Qed.

(* the value of a key agreed by ECDH / EDDSA always has a length its type allows (whatever the secret's length), and for a
   generic secret exactly the requested length, or the whole secret when none was requested *)
Theorem agreed_value_fits (kt req n : N) (secret v : bytes) :
  derive_len_lax kt req = inr n -> agree_value kt n secret = Some v ->
  len_fits kt (N.of_nat (length v)) = true /\
  (kt = CKK_GENERIC_SECRET -> length v = if req =? 0 then length secret else N.to_nat req).
Proof.
  unfold agree_value. intros Hl Ha.
  destruct (derive_tail _ secret) as [t|] eqn:Et; [|discriminate].
  apply derive_tail_length in Et.
  assert (Hv : length v = length t).
  { inversion Ha. destruct (is_des_type kt); [apply odd_parity_length|reflexivity]. }
  rewrite Hv, Et. clear Ha Hv Et.
  revert Hl. cbv [derive_len_lax len_fits default_len CKK_GENERIC_SECRET CKK_DES CKK_DES2 CKK_DES3 CKK_AES].
  destruct (N.eqb_spec kt 16) as [E16|N16].
  { intros H; inversion H; subst n. split; [reflexivity|]. intros _.
    destruct (N.eqb_spec req 0); [subst; cbn; lia|reflexivity]. }
  rewrite N2Nat.id.
  destruct (kt =? 19). { destruct (negb (req =? 0) && negb (req =? 8)); intros H; inversion H; subst; cbn. split; [reflexivity|intros; congruence]. }
  destruct (kt =? 20). { destruct (negb (req =? 0) && negb (req =? 16)); intros H; inversion H; subst; cbn. split; [reflexivity|intros; congruence]. }
  destruct (kt =? 21). { destruct (negb (req =? 0) && negb (req =? 24)); intros H; inversion H; subst; cbn. split; [reflexivity|intros; congruence]. }
  destruct (N.eqb_spec kt 31) as [E31|]; [|discriminate].
  destruct (N.eqb_spec req 0) as [E0|N0].
  { subst req. cbn. intros H; inversion H; subst n. cbn. split; [|intros; congruence].
    destruct (32 <=? N.of_nat (length secret)); [reflexivity|]. destruct (24 <=? N.of_nat (length secret)); reflexivity. }
  cbn [negb andb].
  destruct (N.eqb_spec req 16); [subst; cbn; intros H; inversion H; subst; split; [reflexivity|intros; congruence]|].
  destruct (N.eqb_spec req 24); [subst; cbn; intros H; inversion H; subst; split; [reflexivity|intros; congruence]|].
  destruct (N.eqb_spec req 32); [subst; cbn; intros H; inversion H; subst; split; [reflexivity|intros; congruence]|].
  cbn. discriminate.
Qed.

(* non-vacuity: an AES key agreed without CKA_VALUE_LEN from a 66-byte secret (P-521) is the last 32 bytes *)
Example agree_p521 :
  derive_len_lax CKK_AES 0 = inr 0 /\
  agree_value CKK_AES 0 (map N.of_nat (seq 0 66)) = Some (map N.of_nat (seq 34 32)).
Proof. split; vm_compute; reflexivity. Qed.
