(* Crypto/OpHonest.v — the output-length protocol, proved directly about the regenerated code (C12).

   No model here: the statements are about gen/Gen_Ops.v (the functions of SoftHSM.cpp that carry out an operation,
   regenerated whole on every run) for EVERY value of every input - in particular for any behaviour of the crypto
   backend (what the cipher returns, how many bytes it hands back), which appears as universally quantified parameters.
   Effects, newest first:  (LEN, n) = `*pulLen = n`;  (RESET, 0) = session->resetOp();  (WRITE, n) = memcpy of n bytes
   into the caller's buffer. *)
From Coq Require Import List NArith ZArith Bool Lia ZifyBool ZifyN.
From SoftHSM Require Import Gen_Const Gen_Ops.
Import ListNotations.
Local Open Scope N_scope.

Definition LEN : N := 18446744073709551614.
Definition RESET : N := 18446744073709551613.
Definition WRITE : N := 18446744073709551612.

Definition no_reset (l : list (N * N)) : Prop := ~ In (RESET, 0) l.
Definition no_write (l : list (N * N)) : Prop := forall n, In (WRITE, n) l -> n = 0.

(* `have` = the buffer size the caller announced (the value of pulLen[0] on entry), `ptr` = the output pointer (0 = NULL) *)
Record honest (have ptr : N) (r : N * list (N * N)) : Prop := {
  (* a length query or CKR_BUFFER_TOO_SMALL: the operation stays, nothing is written, a length is reported *)
  h_query : (fst r = CKR_BUFFER_TOO_SMALL \/ (ptr = 0 /\ fst r = CKR_OK)) ->
            no_reset (snd r) /\ no_write (snd r) /\ exists n, In (LEN, n) (snd r);
  (* CKR_BUFFER_TOO_SMALL is only said of a buffer that is smaller than the reported length *)
  h_small : fst r = CKR_BUFFER_TOO_SMALL -> ptr <> 0 /\ forall n, In (LEN, n) (snd r) -> have < n;
  (* nothing is written through a NULL pointer; never more than announced; what is written is what is reported *)
  h_write : forall n, In (WRITE, n) (snd r) -> n = 0 \/ (ptr <> 0 /\ n <= have /\ In (LEN, n) (snd r));
  (* a call that fails for another reason ends the operation *)
  h_fail : fst r <> CKR_OK -> fst r <> CKR_BUFFER_TOO_SMALL -> In (RESET, 0) (snd r)
}.

(* multi-part update: success keeps the operation; final / single-part: success with a buffer ends it *)
Definition update_stays (r : N * list (N * N)) : Prop := fst r = CKR_OK -> no_reset (snd r).
Definition final_ends (ptr : N) (r : N * list (N * N)) : Prop := ptr <> 0 -> fst r = CKR_OK -> In (RESET, 0) (snd r).

Ltac split_ifs := repeat match goal with |- context [if ?c then _ else _] => destruct c eqn:? end.
Ltac to_prop :=
  repeat match goal with
         | H : (_ =? _) = true |- _ => apply N.eqb_eq in H
         | H : (_ =? _) = false |- _ => apply N.eqb_neq in H
         | H : (_ <? _) = true |- _ => apply N.ltb_lt in H
         | H : (_ <? _) = false |- _ => apply N.ltb_ge in H
         | H : negb _ = true |- _ => apply negb_true_iff in H
         | H : negb _ = false |- _ => apply negb_false_iff in H
         end.
Ltac in_cases :=
  repeat match goal with
         | H : In _ (_ :: _) |- _ => destruct H as [H|H]; [try discriminate H; try (injection H as H) | ]
         | H : In _ [] |- _ => destruct H
         end.
Ltac leaf :=
  cbv [CKR_OK CKR_BUFFER_TOO_SMALL LEN RESET WRITE no_reset no_write] in *; cbn [fst snd] in *;
  try discriminate; try congruence;
  repeat match goal with
         | |- _ /\ _ => split
         | |- forall _, _ => intro
         | |- ~ _ => intro
         | H : _ \/ _ |- _ => destruct H
         | H : _ /\ _ |- _ => destruct H
         end;
  in_cases; subst; try discriminate; try congruence; try lia;
  try (eexists; cbn [In]; eauto 6; fail);
  try (left; reflexivity); try (left; lia);
  try (right; repeat split; [congruence || lia | lia | cbn [In]; eauto 6]; fail);
  try (cbn [In]; eauto 8; fail).

Ltac honest_proof :=
  split_ifs; to_prop; (split; [ | | | ]); intros; leaf.

Theorem SymEncryptUpdate_honest (e : SymEncryptUpdate.env) :
  honest (SymEncryptUpdate.deref_pulEncryptedDataLen e) (SymEncryptUpdate.pEncryptedData e) (SymEncryptUpdate.app e) /\
  update_stays (SymEncryptUpdate.app e).
Proof.
  destruct e. cbn [SymEncryptUpdate.deref_pulEncryptedDataLen SymEncryptUpdate.pEncryptedData]. SymEncryptUpdate.open_env.
  unfold update_stays. split_ifs; to_prop; (split; [split|]); intros; leaf.
Qed.

Theorem SymDecryptUpdate_honest (e : SymDecryptUpdate.env) :
  honest (SymDecryptUpdate.deref_pDataLen e) (SymDecryptUpdate.pData e) (SymDecryptUpdate.app e) /\
  update_stays (SymDecryptUpdate.app e).
Proof.
  destruct e. cbn [SymDecryptUpdate.deref_pDataLen SymDecryptUpdate.pData]. SymDecryptUpdate.open_env.
  unfold update_stays, final_ends. split_ifs; to_prop; (split; [split|]); intros; leaf.
Qed.

Theorem SymEncryptFinal_honest (e : SymEncryptFinal.env) :
  honest (SymEncryptFinal.deref_pulEncryptedDataLen e) (SymEncryptFinal.pEncryptedData e) (SymEncryptFinal.app e) /\
  final_ends (SymEncryptFinal.pEncryptedData e) (SymEncryptFinal.app e).
Proof.
  destruct e. cbn [SymEncryptFinal.deref_pulEncryptedDataLen SymEncryptFinal.pEncryptedData]. SymEncryptFinal.open_env.
  unfold update_stays, final_ends. split_ifs; to_prop; (split; [split|]); intros; leaf.
Qed.

Theorem SymDecryptFinal_honest (e : SymDecryptFinal.env) :
  honest (SymDecryptFinal.deref_pulDecryptedDataLen e) (SymDecryptFinal.pDecryptedData e) (SymDecryptFinal.app e) /\
  final_ends (SymDecryptFinal.pDecryptedData e) (SymDecryptFinal.app e).
Proof.
  destruct e. cbn [SymDecryptFinal.deref_pulDecryptedDataLen SymDecryptFinal.pDecryptedData]. SymDecryptFinal.open_env.
  unfold update_stays, final_ends. split_ifs; to_prop; (split; [split|]); intros; leaf.
Qed.

Theorem SymEncrypt_honest (e : SymEncrypt.env) :
  honest (SymEncrypt.deref_pulEncryptedDataLen e) (SymEncrypt.pEncryptedData e) (SymEncrypt.app e) /\
  final_ends (SymEncrypt.pEncryptedData e) (SymEncrypt.app e).
Proof.
  destruct e. cbn [SymEncrypt.deref_pulEncryptedDataLen SymEncrypt.pEncryptedData]. SymEncrypt.open_env.
  unfold update_stays, final_ends. split_ifs; to_prop; (split; [split|]); intros; leaf.
Qed.

Theorem SymDecrypt_honest (e : SymDecrypt.env) :
  honest (SymDecrypt.deref_pulDataLen e) (SymDecrypt.pData e) (SymDecrypt.app e) /\
  final_ends (SymDecrypt.pData e) (SymDecrypt.app e).
Proof.
  destruct e. cbn [SymDecrypt.deref_pulDataLen SymDecrypt.pData]. SymDecrypt.open_env.
  unfold update_stays, final_ends. split_ifs; to_prop; (split; [split|]); intros; leaf.
Qed.

Theorem AsymEncrypt_honest (e : AsymEncrypt.env) :
  honest (AsymEncrypt.deref_pulEncryptedDataLen e) (AsymEncrypt.pEncryptedData e) (AsymEncrypt.app e) /\
  final_ends (AsymEncrypt.pEncryptedData e) (AsymEncrypt.app e).
Proof.
  destruct e. cbn [AsymEncrypt.deref_pulEncryptedDataLen AsymEncrypt.pEncryptedData]. AsymEncrypt.open_env.
  unfold update_stays, final_ends. split_ifs; to_prop; (split; [split|]); intros; leaf.
Qed.

Theorem AsymDecrypt_honest (e : AsymDecrypt.env) :
  honest (AsymDecrypt.deref_pulDataLen e) (AsymDecrypt.pData e) (AsymDecrypt.app e) /\
  final_ends (AsymDecrypt.pData e) (AsymDecrypt.app e).
Proof.
  destruct e. cbn [AsymDecrypt.deref_pulDataLen AsymDecrypt.pData]. AsymDecrypt.open_env.
  unfold update_stays, final_ends. split_ifs; to_prop; (split; [split|]); intros; leaf.
Qed.

Theorem MacSignFinal_honest (e : MacSignFinal.env) :
  honest (MacSignFinal.deref_pulSignatureLen e) (MacSignFinal.pSignature e) (MacSignFinal.app e) /\
  final_ends (MacSignFinal.pSignature e) (MacSignFinal.app e).
Proof.
  destruct e. cbn [MacSignFinal.deref_pulSignatureLen MacSignFinal.pSignature]. MacSignFinal.open_env.
  unfold update_stays, final_ends. split_ifs; to_prop; (split; [split|]); intros; leaf.
Qed.

Theorem MacSign_honest (e : MacSign.env) :
  honest (MacSign.deref_pulSignatureLen e) (MacSign.pSignature e) (MacSign.app e) /\
  final_ends (MacSign.pSignature e) (MacSign.app e).
Proof.
  destruct e. cbn [MacSign.deref_pulSignatureLen MacSign.pSignature]. MacSign.open_env.
  unfold update_stays, final_ends. split_ifs; to_prop; (split; [split|]); intros; leaf.
Qed.

Theorem AsymSignFinal_honest (e : AsymSignFinal.env) :
  honest (AsymSignFinal.deref_pulSignatureLen e) (AsymSignFinal.pSignature e) (AsymSignFinal.app e) /\
  final_ends (AsymSignFinal.pSignature e) (AsymSignFinal.app e).
Proof.
  destruct e. cbn [AsymSignFinal.deref_pulSignatureLen AsymSignFinal.pSignature]. AsymSignFinal.open_env.
  unfold update_stays, final_ends. split_ifs; to_prop; (split; [split|]); intros; leaf.
Qed.
