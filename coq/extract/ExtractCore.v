(* extraction of the executable models for the correspondence checks (K).
   ExtrOcamlBasic only: bool, option, unit, list, prod, sumbool map to OCaml's; N / positive stay the
   extracted inductive types (DESIGN.md §7). *)
From Coq Require Import Extraction ExtrOcamlBasic List NArith.
From SoftHSM Require Import Defs Core.
Extraction Language OCaml.
Definition handle_label (s : state) (h : N) : option bytes :=
  match get_object s h with Some (_, _, o) => Some (label_of o) | None => None end.
Extraction "extract/core_model.ml" step init_state handle_label.
