(* extraction of the object-file codec model (C05, C16) *)
From Coq Require Import Extraction ExtrOcamlBasic List NArith.
From SoftHSM Require Import Defs Codec.
Extraction Language OCaml.
Extraction "extract/codec_model.ml" refresh_file encode_obj decode_obj.
