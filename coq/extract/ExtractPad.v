(* extraction of the padding / cutting / parity model (C13) *)
From Coq Require Import Extraction ExtrOcamlBasic List NArith.
From SoftHSM Require Import Defs Pad Derive.
Extraction Language OCaml.
Extraction "extract/pad_model.ml" pkcs7_pad pkcs7_unpad rfc3394_pad derive_value odd_parity derive_len_strict derive_len_lax agree_value len_fits.
