(* extraction of the operation / output-length model (C12) *)
From Coq Require Import Extraction ExtrOcamlBasic List NArith.
From SoftHSM Require Import OpModel.
Extraction Language OCaml.
Extraction "extract/op_model.ml" do_call kind_of.
