(* P11/Attrs.v — the attribute layer of the model.

   * P11*Obj::init, P11Attribute::update and every P11Attr*::updateAttr / setDefault are NOT
     transcribed: they are executed from the regenerated IR (gen/Gen_Attrs.v) by Base/CIR.v.
   * Hand-modelled here (loops over caller arrays, pointer writes): newP11Object (class
     selection), P11Object::saveTemplate / loadTemplate, P11Attribute::retrieve, and the three
     array-valued updaters (allowed mechanisms, wrap / unwrap template).  These are tied to the
     code by the correspondence stream K-attr, and [retrieve]'s reveal guard additionally by a
     lemma against the regenerated IR (props/Tie_Attrs.v). *)
From Coq Require Import List NArith Bool String.
From SoftHSM Require Import Gen_Const Defs CIR Gen_Attrs.
Import ListNotations.
Local Open Scope N_scope.

Definition FUEL : nat := 400.

(* a template entry as the caller passes it *)
Inductive pval :=
| PNull                                   (* pValue = NULL_PTR *)
| PBuf (b : bytes)                        (* pValue points to these bytes (at least ulValueLen of them) *)
| PTmpl (l : list (N * option bytes * N)). (* pValue points to an array of CK_ATTRIBUTE *)
Record tentry := mkT { te_type : N; te_val : pval; te_len : N }.
Definition template := list tentry.

Definition pval_to_val (p : pval) : val :=
  match p with PNull => VPtr None | PBuf b => VPtr (Some b) | PTmpl l => VTmpl l end.

(* token-side context of an attribute operation *)
Record tctx := mkTctx {
  tc_can_enc : bool;      (* Token::encrypt / decrypt succeed (somebody logged in) *)
  tc_so      : bool;
  tc_mk      : N;
  tc_kcv     : string -> bytes -> bytes
}.

Definition obj_lookup (o : obj) : N -> option osattr := fun k => alookup k o.

(* ---- array-valued updaters (hand model of the loops in P11Attributes.cpp) ------------------- *)
Fixpoint chunks8 (fuel : nat) (b : bytes) : list N :=
  match fuel with
  | O => []
  | S f => match b with [] => [] | _ => le_decode (firstn 8 b) :: chunks8 f (skipn 8 b) end
  end.

Fixpoint insert_sorted (x : N) (l : list N) : list N :=
  match l with
  | [] => [x]
  | y :: r => if x <? y then x :: l else if x =? y then l else y :: insert_sorted x r
  end.

Definition native_allowed_mechs (c : actx) (vs : list val) (m : mstate) : outcome val :=
  match vs with
  | [_; _; VPtr p; VInt len; _] =>
      if (len =? 0) || negb (len mod 8 =? 0) then Ok (VInt CKR_ATTRIBUTE_VALUE_INVALID) m
      else match p with
           | Some b =>
               if len <=? blen b then
                 let ms := chunks8 (length b) (firstn (N.to_nat len) b) in
                 Ok (VInt CKR_OK) (oset m (c_type c) (Some (AMechs (fold_right insert_sorted [] ms))))
               else Stuck "mechs past buffer"
           | None => Stuck "mechs null"
           end
  | _ => Stuck "allowed mechanisms args"
  end.

Definition tmpl_bool_attrs : list N :=
  [CKA_TOKEN; CKA_PRIVATE; CKA_MODIFIABLE; CKA_COPYABLE; CKA_TRUSTED; CKA_ENCRYPT; CKA_DECRYPT; CKA_SIGN;
   CKA_SIGN_RECOVER; CKA_VERIFY; CKA_VERIFY_RECOVER; CKA_WRAP; CKA_UNWRAP; CKA_DERIVE; CKA_LOCAL;
   CKA_ALWAYS_SENSITIVE; CKA_SENSITIVE; CKA_NEVER_EXTRACTABLE; CKA_EXTRACTABLE; CKA_WRAP_WITH_TRUSTED;
   CKA_SECONDARY_AUTH; CKA_ALWAYS_AUTHENTICATE].
Definition tmpl_ulong_attrs : list N :=
  [CKA_CLASS; CKA_KEY_TYPE; CKA_CERTIFICATE_TYPE; CKA_CERTIFICATE_CATEGORY; CKA_JAVA_MIDP_SECURITY_DOMAIN;
   CKA_NAME_HASH_ALGORITHM; CKA_KEY_GEN_MECHANISM; CKA_MODULUS_BITS; CKA_PRIME_BITS; CKA_SUB_PRIME_BITS;
   CKA_VALUE_BITS; CKA_VALUE_LEN; CKA_AUTH_PIN_FLAGS].
Definition nmem (x : N) (l : list N) : bool := existsb (N.eqb x) l.

(* std::map::insert keeps the FIRST entry for a key; the map iterates in ascending key order *)
Fixpoint map_insert_first (k : N) (v : sattr) (l : list (N * sattr)) : list (N * sattr) :=
  match l with
  | [] => [(k, v)]
  | (k', v') :: r => if k <? k' then (k, v) :: l else if k =? k' then l else (k', v') :: map_insert_first k v r
  end.

Fixpoint tmpl_entries (l : list (N * option bytes * N)) (acc : list (N * sattr)) : option (N + list (N * sattr)) :=
  match l with
  | [] => Some (inr acc)
  | (t, p, n) :: r =>
      if nmem t tmpl_bool_attrs then
        if negb (n =? 1) then Some (inl CKR_ATTRIBUTE_VALUE_INVALID)
        else match p with
             | Some (x :: _) => tmpl_entries r (map_insert_first t (SBool (negb (x =? 0))) acc)
             | _ => None
             end
      else if nmem t tmpl_ulong_attrs then
        if negb (n =? 8) then Some (inl CKR_ATTRIBUTE_VALUE_INVALID)
        else match p with
             | Some b => if 8 <=? blen b then tmpl_entries r (map_insert_first t (SULong (le_decode (firstn 8 b))) acc) else None
             | None => None
             end
      else if (t =? CKA_WRAP_TEMPLATE) || (t =? CKA_UNWRAP_TEMPLATE) then Some (inl CKR_ATTRIBUTE_VALUE_INVALID)
      else match p with
           | Some b => if n <=? blen b then tmpl_entries r (map_insert_first t (SBytes (firstn (N.to_nat n) b)) acc) else None
           | None => if n =? 0 then tmpl_entries r (map_insert_first t (SBytes []) acc) else None
           end
  end.

Definition native_attr_template (c : actx) (vs : list val) (m : mstate) : outcome val :=
  match vs with
  | [_; _; pv; VInt len; _] =>
      if negb (len mod 24 =? 0) then Ok (VInt CKR_ATTRIBUTE_VALUE_INVALID) m
      else
        let entries := match pv with VTmpl l => Some l | VPtr _ => if len =? 0 then Some [] else None | _ => None end in
        match entries with
        | Some l =>
            if negb (N.of_nat (length l) =? len / 24) then Stuck "template length mismatch"
            else match tmpl_entries l [] with
                 | Some (inl rv) => Ok (VInt rv) m
                 | Some (inr mp) => Ok (VInt CKR_OK) (oset m (c_type c) (Some (AMap mp)))
                 | None => Stuck "template entry past buffer"
                 end
        | None => Stuck "template pointer"
        end
  | _ => Stuck "attr template args"
  end.

Definition natives (name : string) : option (actx -> list val -> mstate -> outcome val) :=
  if String.eqb name "P11AttrAllowedMechanisms::updateAttr" then Some native_allowed_mechs
  else if String.eqb name "P11AttrWrapTemplate::updateAttr" then Some native_attr_template
  else if String.eqb name "P11AttrUnwrapTemplate::updateAttr" then Some native_attr_template
  else None.

Definition icall := call gen_ftable gen_consts gen_ctor_defaults natives.

(* ---- class selection: newP11Object(objClass, keyType, certType) ----------------------------- *)
Definition is_generic_keytype (k : N) : bool :=
  nmem k [CKK_GENERIC_SECRET; CKK_MD5_HMAC; CKK_SHA_1_HMAC; CKK_SHA224_HMAC; CKK_SHA256_HMAC; CKK_SHA384_HMAC; CKK_SHA512_HMAC].

Definition p11_class (objClass keyType certType : N) : option string :=
  if objClass =? CKO_DATA then Some "P11DataObj"%string
  else if objClass =? CKO_CERTIFICATE then
    if certType =? CKC_X_509 then Some "P11X509CertificateObj"%string
    else if certType =? CKC_OPENPGP then Some "P11OpenPGPPublicKeyObj"%string else None
  else if objClass =? CKO_PUBLIC_KEY then
    if keyType =? CKK_RSA then Some "P11RSAPublicKeyObj"%string
    else if keyType =? CKK_DSA then Some "P11DSAPublicKeyObj"%string
    else if keyType =? CKK_EC then Some "P11ECPublicKeyObj"%string
    else if keyType =? CKK_DH then Some "P11DHPublicKeyObj"%string
    else if keyType =? CKK_GOSTR3410 then Some "P11GOSTPublicKeyObj"%string
    else if keyType =? CKK_EC_EDWARDS then Some "P11EDPublicKeyObj"%string else None
  else if objClass =? CKO_PRIVATE_KEY then
    if keyType =? CKK_RSA then Some "P11RSAPrivateKeyObj"%string
    else if keyType =? CKK_DSA then Some "P11DSAPrivateKeyObj"%string
    else if keyType =? CKK_EC then Some "P11ECPrivateKeyObj"%string
    else if keyType =? CKK_DH then Some "P11DHPrivateKeyObj"%string
    else if keyType =? CKK_GOSTR3410 then Some "P11GOSTPrivateKeyObj"%string
    else if keyType =? CKK_EC_EDWARDS then Some "P11EDPrivateKeyObj"%string else None
  else if objClass =? CKO_SECRET_KEY then
    if is_generic_keytype keyType then Some "P11GenericSecretKeyObj"%string
    else if keyType =? CKK_AES then Some "P11AESSecretKeyObj"%string
    else if (keyType =? CKK_DES) || (keyType =? CKK_DES2) || (keyType =? CKK_DES3) then Some "P11DESSecretKeyObj"%string
    else if keyType =? CKK_GOST28147 then Some "P11GOSTSecretKeyObj"%string else None
  else if objClass =? CKO_DOMAIN_PARAMETERS then
    if keyType =? CKK_DSA then Some "P11DSADomainObj"%string
    else if keyType =? CKK_DH then Some "P11DHDomainObj"%string else None
  else None.

(* the P11Object wrapped around an OSObject: its class and attribute table *)
Record p11obj := mkP11 { po_cls : string; po_keytype : N; po_attrs : list (N * val) }.

Definition mk_actx (tc : tctx) (o : obj) (keytype : N) (a : val) : actx :=
  match a with
  | VAttrObj cls t z k => mkCtx (obj_lookup o) (tc_can_enc tc) (tc_so tc) (tc_mk tc) cls t z k (tc_kcv tc) keytype
  | _ => mkCtx (obj_lookup o) (tc_can_enc tc) (tc_so tc) (tc_mk tc) "" 0 0 0 (tc_kcv tc) keytype
  end.

(* P11XObj::init(object): runs the regenerated init code; yields the attribute table and the
   object with defaults filled in *)
Definition p11_init (tc : tctx) (cls : string) (keytype : N) (o : obj) : outcome (p11obj * obj) :=
  let c := mkCtx (obj_lookup o) (tc_can_enc tc) (tc_so tc) (tc_mk tc) cls 0 0 0 (tc_kcv tc) keytype in
  match icall FUEL c (String.append cls "::init") [VPtr (Some [])] (mkM [] [] [] []) with
  | Ok (VBool true) m => Ok (mkP11 cls keytype (m_attrs m), apply_log o (m_log m)) m
  | Ok _ _ => Stuck "init returned false"
  | Stuck w => Stuck w
  end.

(* newP11Object(OSObject*) : class from the stored CKA_CLASS / KEY_TYPE / CERTIFICATE_TYPE *)
Definition p11_of_obj (tc : tctx) (o : obj) : outcome (N + (p11obj * obj)) :=
  let objClass := obj_ulong o CKA_CLASS CKO_VENDOR_DEFINED in
  let keyType := if amem CKA_KEY_TYPE o then obj_ulong o CKA_KEY_TYPE CKK_RSA else CKK_RSA in
  let certType := if amem CKA_CERTIFICATE_TYPE o then obj_ulong o CKA_CERTIFICATE_TYPE CKC_X_509 else CKC_X_509 in
  match p11_class objClass keyType certType with
  | None => Ok (inl CKR_ATTRIBUTE_VALUE_INVALID) (mkM [] [] [] [])
  | Some cls =>
      match p11_init tc cls keyType o with
      | Ok r m => Ok (inr r) m
      | Stuck w => Stuck w
      end
  end.

(* ---- P11Attribute::update through the regenerated IR --------------------------------------- *)
Definition attr_update (tc : tctx) (p : p11obj) (o : obj) (isPrivate : bool) (e : tentry) (op : N) : outcome (N * obj) :=
  match alookup (te_type e) (po_attrs p) with
  | None => Stuck "attr_update: no such attribute"
  | Some a =>
      let c := mk_actx tc o (po_keytype p) a in
      match icall FUEL c "P11Attribute::update" [VVoid; VBool isPrivate; pval_to_val (te_val e); VInt (te_len e); VInt op] (mkM [] [] [] []) with
      | Ok (VInt rv) m => Ok (rv, apply_log o (m_log m)) m
      | Ok _ _ => Stuck "update: non-integer result"
      | Stuck w => Stuck w
      end
  end.

Definition o_modifiable (o : obj) : bool := if amem CKA_MODIFIABLE o then obj_bool o CKA_MODIFIABLE true else true.
Definition o_copyable (o : obj) : bool := if amem CKA_COPYABLE o then obj_bool o CKA_COPYABLE true else true.
Definition o_private_p11 (o : obj) : bool := if amem CKA_PRIVATE o then obj_bool o CKA_PRIVATE false else false.
Definition o_sensitive (o : obj) : bool := if amem CKA_SENSITIVE o then obj_bool o CKA_SENSITIVE false else false.
Definition o_extractable (o : obj) : bool := if amem CKA_EXTRACTABLE o then obj_bool o CKA_EXTRACTABLE true else true.

Definition attr_checks (a : val) : N := match a with VAttrObj _ _ _ k => k | _ => 0 end.
Definition attr_size (a : val) : N := match a with VAttrObj _ _ z _ => z | _ => 0 end.
Definition has_ck (k ck : N) : bool := N.land k ck =? ck.

(* std::map iteration order of P11Object::attributes = ascending attribute type *)
Fixpoint insert_by_key {A} (k : N) (v : A) (l : list (N * A)) : list (N * A) :=
  match l with
  | [] => [(k, v)]
  | (k', v') :: r => if k <? k' then (k, v) :: l else (k', v') :: insert_by_key k v r
  end.
Definition sort_by_key {A} (l : list (N * A)) : list (N * A) :=
  fold_right (fun kv acc => insert_by_key (fst kv) (snd kv) acc) [] l.

Definition in_template (t : N) (tm : template) : bool := existsb (fun e => te_type e =? t) tm.

(* P11Object::saveTemplate.  Result: rv, the object afterwards.  [rollback] = the OSObject really
   implements abortTransaction (ObjectFile does; SessionObject's is a stub, so a rejected template
   leaves its prefix applied — DESIGN.md §6 F2). *)
Fixpoint save_entries (tc : tctx) (p : p11obj) (isPrivate : bool) (op : N) (tm : template) (o : obj) : outcome (N * obj) :=
  match tm with
  | [] => Ok (CKR_OK, o) (mkM [] [] [] [])
  | e :: r =>
      match alookup (te_type e) (po_attrs p) with
      | None => Ok (CKR_ATTRIBUTE_TYPE_INVALID, o) (mkM [] [] [] [])
      | Some _ =>
          match attr_update tc p o isPrivate e op with
          | Ok (rv, o1) _ => if rv =? CKR_OK then save_entries tc p isPrivate op r o1 else Ok (rv, o1) (mkM [] [] [] [])
          | Stuck w => Stuck w
          end
      end
  end.

Definition mandatory_missing (p : p11obj) (op : N) (tm : template) : bool :=
  existsb (fun kv =>
             let k := attr_checks (snd kv) in
             ((has_ck k ck1 && (op =? OBJECT_OP_CREATE)) || (has_ck k ck3 && (op =? OBJECT_OP_GENERATE)) || (has_ck k ck5 && (op =? OBJECT_OP_UNWRAP)))
             && negb (in_template (fst kv) tm))
          (po_attrs p).

Definition save_template (tc : tctx) (p : p11obj) (rollback : bool) (isPrivate : bool) (tm : template) (op : N) (o : obj) : outcome (N * obj) :=
  let fail := fun rv o1 => Ok (rv, if rollback then o else o1) (mkM [] [] [] []) in
  if (op =? OBJECT_OP_SET) && negb (o_modifiable o) then fail CKR_ACTION_PROHIBITED o
  else if (op =? OBJECT_OP_COPY) && negb (o_copyable o) then fail CKR_ACTION_PROHIBITED o
  else match save_entries tc p isPrivate op tm o with
       | Ok (rv, o1) _ =>
           if negb (rv =? CKR_OK) then fail rv o1
           else if mandatory_missing p op tm then fail CKR_TEMPLATE_INCOMPLETE o1
           else Ok (CKR_OK, o1) (mkM [] [] [] [])
       | Stuck w => Stuck w
       end.

(* ---- P11Attribute::retrieve / P11Object::loadTemplate (hand model) --------------------------- *)
Definition UNAVAIL : N := CK_UNAVAILABLE_INFORMATION.

Fixpoint le_encode (n : nat) (x : N) : bytes :=
  match n with O => [] | S k => (x mod 256) :: le_encode k (x / 256) end.

(* Token::decrypt of a stored value *)
Definition tok_decrypt (tc : tctx) (enc : option N) (b : bytes) : option bytes :=
  match enc with
  | Some k => if tc_can_enc tc && (k =? tc_mk tc) then Some b else None
  | None => match b with [] => if tc_can_enc tc then Some [] else None | _ => None end
  end.

(* one query entry: attribute type, and the caller's buffer: None = NULL pointer, Some n = n bytes *)
Record qres := mkQ { q_rv : N; q_len : option N (* None = field left untouched *); q_data : option bytes }.

Definition retrieve (tc : tctx) (a : val) (isPrivate : bool) (o : obj) (buf : option N) : outcome qres :=
  let chk := attr_checks a in
  let ty := match a with VAttrObj _ t _ _ => t | _ => 0 end in
  if has_ck chk ck7 && (o_sensitive o || negb (o_extractable o)) then
    Ok (mkQ CKR_ATTRIBUTE_SENSITIVE (Some UNAVAIL) None) (mkM [] [] [] [])
  else match alookup ty o with
  | None => Ok (mkQ CKR_GENERAL_ERROR None None) (mkM [] [] [] [])
  | Some at =>
      let sz : option (N + N) :=   (* inl rv = error, inr size *)
        if negb (attr_size a =? UNAVAIL) then Some (inr (attr_size a))
        else match at with
             | ABytes e b =>
                 if isPrivate && negb (vbytes_size e b =? 0) then
                   match tok_decrypt tc e b with Some pt => Some (inr (blen pt)) | None => Some (inl CKR_GENERAL_ERROR) end
                 else Some (inr (vbytes_size e b))
             | AMechs l => Some (inr (8 * N.of_nat (length l)))
             | AMap l => Some (inr (24 * N.of_nat (length l)))
             | _ => Some (inl CKR_GENERAL_ERROR)
             end in
      match sz with
      | Some (inl rv) => Ok (mkQ rv None None) (mkM [] [] [] [])
      | Some (inr n) =>
          match buf with
          | None => Ok (mkQ CKR_OK (Some n) None) (mkM [] [] [] [])
          | Some have =>
              if n <=? have then
                match at with
                | AULong x => Ok (mkQ CKR_OK (Some n) (Some (le_encode 8 x))) (mkM [] [] [] [])
                | ABool b => Ok (mkQ CKR_OK (Some n) (Some [if b then 1 else 0])) (mkM [] [] [] [])
                | ABytes e b =>
                    if isPrivate && negb (vbytes_size e b =? 0) then
                      match tok_decrypt tc e b with
                      | Some pt => Ok (mkQ CKR_OK (Some n) (Some (firstn (N.to_nat n) pt))) (mkM [] [] [] [])
                      | None => Ok (mkQ CKR_GENERAL_ERROR None None) (mkM [] [] [] [])
                      end
                    else match e with
                         | None => Ok (mkQ CKR_OK (Some n) (Some (firstn (N.to_nat n) b))) (mkM [] [] [] [])
                         | Some _ => Stuck "raw ciphertext revealed"   (* public read of an encrypted value: bytes not modelled *)
                         end
                | AMechs l => Ok (mkQ CKR_OK (Some n) (Some (flat_map (le_encode 8) l))) (mkM [] [] [] [])
                | AMap _ => Stuck "attribute map into buffer"
                end
              else Ok (mkQ CKR_BUFFER_TOO_SMALL (Some UNAVAIL) None) (mkM [] [] [] [])
          end
      | None => Stuck "size"
      end
  end.

Record loadres := mkL { l_rv : N; l_entries : list (N * option N * option bytes) }.

Fixpoint load_entries (tc : tctx) (p : p11obj) (isPrivate : bool) (o : obj) (q : list (N * option N))
         (sens inval small : bool) (acc : list (N * option N * option bytes)) : outcome loadres :=
  match q with
  | [] =>
      let rv := if sens then CKR_ATTRIBUTE_SENSITIVE else if inval then CKR_ATTRIBUTE_TYPE_INVALID
                else if small then CKR_BUFFER_TOO_SMALL else CKR_OK in
      Ok (mkL rv (rev acc)) (mkM [] [] [] [])
  | (t, buf) :: r =>
      match alookup t (po_attrs p) with
      | None => load_entries tc p isPrivate o r sens true small ((t, Some UNAVAIL, None) :: acc)
      | Some a =>
          match retrieve tc a isPrivate o buf with
          | Ok qr _ =>
              let acc' := (t, q_len qr, q_data qr) :: acc in
              if q_rv qr =? CKR_ATTRIBUTE_SENSITIVE then load_entries tc p isPrivate o r true inval small acc'
              else if q_rv qr =? CKR_BUFFER_TOO_SMALL then load_entries tc p isPrivate o r sens inval true acc'
              else if negb (q_rv qr =? CKR_OK) then
                (* hard error: stop at once; later entries stay untouched *)
                Ok (mkL CKR_GENERAL_ERROR (rev acc' ++ map (fun x => (fst x, None, None)) r)) (mkM [] [] [] [])
              else load_entries tc p isPrivate o r sens inval small acc'
          | Stuck w => Stuck w
          end
      end
  end.

Definition load_template (tc : tctx) (p : p11obj) (o : obj) (q : list (N * option N)) : outcome loadres :=
  load_entries tc p (o_private_p11 o) o q false false false [].
