(* Base/CIR.v — the imperative IR the translator emits (translator/cxxir.py) and its big-step
   semantics for the attribute-layer fragment of SoftHSMv2 (P11Attributes.cpp, access.cpp,
   Session::getState).  No proofs here.

   The object under manipulation is a *base lookup function* plus a write log, so that theorems
   can quantify over arbitrary objects while every evaluation stays computable (DESIGN.md §4.1).
   Anything outside the fragment evaluates to [Stuck], never to a made-up value. *)
From Coq Require Import List NArith ZArith Bool String Ascii.
From SoftHSM Require Import Gen_Const Defs.
Import ListNotations.
Local Open Scope N_scope.
Local Notation "a +++ b" := (String.append a b) (at level 60, right associativity).
Local Notation "x |> f" := (f x) (at level 70, only parsing).

Inductive cexpr :=
| EInt (n : N)
| EBool (b : bool)
| ENull
| EStr (s : string)
| EVar (x : string)
| EThis
| EField (e : cexpr) (f : string)
| EUn (op : string) (e : cexpr)
| EBin (op : string) (a b : cexpr)
| ECond (c a b : cexpr)
| ECall (f : cexpr) (args : list cexpr)
| ECast (ty : string) (e : cexpr)
| ENew (cls : string) (args : list cexpr)
| ECtor (cls : string) (args : list cexpr)
| EIndex (a i : cexpr)
| EOpaque (kind : string).

Inductive cstmt :=
| SIf (c : cexpr) (t e : list cstmt)
| SRet (e : option cexpr)
| SDecl (x : string) (ty : string) (init : option cexpr)
| SExpr (e : cexpr)
| SSwitch (e : cexpr) (body : list cstmt)
| SCase (n : N)
| SDefault
| SBreak
| SContinue
| SFor (init : list cstmt) (c : option cexpr) (inc : option cexpr) (body : list cstmt)
| SWhile (c : cexpr) (body : list cstmt)
| SDo (body : list cstmt) (c : cexpr)
| SBlock (b : list cstmt)
| SOpaque (kind : string).

Record cfun := mkFun { f_params : list string; f_body : list cstmt }.
Definition ftable := list (string * cfun).

Fixpoint flookup (n : string) (t : ftable) : option cfun :=
  match t with
  | [] => None
  | (k, f) :: r => if String.eqb k n then Some f else flookup n r
  end.

(* ---- values -------------------------------------------------------------------------------------- *)
Inductive val :=
| VInt (n : N)                         (* every integer type, already reduced mod 2^64 *)
| VBool (b : bool)
| VBytes (enc : option N) (b : bytes)  (* ByteString; [Some mk] = symbolic ciphertext of b under mk *)
| VAttr (a : osattr)                   (* OSAttribute *)
| VPtr (p : option bytes)              (* caller memory handed in as pValue *)
| VTmpl (l : list (N * option bytes * N)) (* pValue pointing to an array of CK_ATTRIBUTE (type, pValue, ulValueLen) *)
| VKey (cls : string) (bits : bytes)   (* SymmetricKey / AESKey / DESKey local *)
| VAttrObj (cls : string) (ty sz chk : N) (* a P11Attribute instance created by [new P11AttrX(...)] *)
| VVoid.

Definition two64 : N := 18446744073709551616.
Definition wrap (n : N) : N := n mod two64.

(* size of a stored byte string: ciphertext = IV + PKCS#7-padded CBC *)
Definition enc_size (n : N) : N := 16 + (n / 16 + 1) * 16.
Definition vbytes_size (enc : option N) (b : bytes) : N :=
  match enc with Some _ => enc_size (blen b) | None => blen b end.

(* number of significant bits of a big-endian byte string (ByteString::bits) *)
Fixpoint bytes_bits (b : bytes) : N :=
  match b with
  | [] => 0
  | x :: r => if x =? 0 then bytes_bits r else N.size x + 8 * blen r
  end.

Fixpoint le_decode (b : bytes) : N :=
  match b with [] => 0 | x :: r => x + 256 * le_decode r end.

(* ---- the object: base lookup + write log -------------------------------------------------------- *)
Definition wlog := list (N * option osattr).
Fixpoint wlookup (k : N) (w : wlog) : option (option osattr) :=
  match w with
  | [] => None
  | (k', v) :: r => if k' =? k then Some v else wlookup k r
  end.

Record actx := mkCtx {
  c_base    : N -> option osattr;      (* attributes before the call *)
  c_can_enc : bool;                    (* Token::encrypt/decrypt succeed: somebody is logged in *)
  c_so      : bool;                    (* token->isSOLoggedIn() *)
  c_mk      : N;                       (* the token's master key *)
  c_cls     : string;                  (* dynamic class of [this] (for virtual dispatch) *)
  c_type    : N;                       (* this->type *)
  c_size    : N;                       (* this->size *)
  c_checks  : N;                       (* this->checks *)
  c_kcv     : string -> bytes -> bytes;(* oracle: <Key class>::getKeyCheckValue on these key bits *)
  c_keytype : N                        (* this->keytype of P11GenericSecretKeyObj / P11DESSecretKeyObj *)
}.

Record mstate := mkM {
  m_env   : list (string * val);     (* locals of the current frame *)
  m_log   : wlog;                    (* writes to the OSObject *)
  m_this  : list (string * val);     (* assigned fields of [this] (persist across calls) *)
  m_attrs : list (N * val)           (* P11Object::attributes *)
}.

Definition oget (c : actx) (m : mstate) (k : N) : option osattr :=
  match wlookup k (m_log m) with Some v => v | None => c_base c k end.
Definition oset (m : mstate) (k : N) (v : option osattr) : mstate :=
  mkM (m_env m) ((k, v) :: m_log m) (m_this m) (m_attrs m).

Fixpoint env_get (x : string) (e : list (string * val)) : option val :=
  match e with
  | [] => None
  | (k, v) :: r => if String.eqb k x then Some v else env_get x r
  end.
Definition env_set (m : mstate) (x : string) (v : val) : mstate :=
  mkM ((x, v) :: m_env m) (m_log m) (m_this m) (m_attrs m).
Definition this_set (m : mstate) (x : string) (v : val) : mstate :=
  mkM (m_env m) (m_log m) ((x, v) :: m_this m) (m_attrs m).
Definition attrs_set (m : mstate) (k : N) (v : val) : mstate :=
  mkM (m_env m) (m_log m) (m_this m) (aset k v (m_attrs m)).
Definition with_env (m : mstate) (e : list (string * val)) : mstate :=
  mkM e (m_log m) (m_this m) (m_attrs m).

Inductive outcome (A : Type) :=
| Ok (a : A) (m : mstate)
| Stuck (why : string).
Arguments Ok {A}. Arguments Stuck {A}.

Definition obind {A B} (o : outcome A) (f : A -> mstate -> outcome B) : outcome B :=
  match o with Ok a m => f a m | Stuck w => Stuck w end.

Definition truthy (v : val) : option bool :=
  match v with
  | VBool b => Some b
  | VInt n => Some (negb (n =? 0))
  | VPtr p => Some (match p with Some _ => true | None => false end)
  | VTmpl _ => Some true
  | _ => None
  end.

Definition as_int (v : val) : option N :=
  match v with VInt n => Some n | VBool b => Some (if b then 1 else 0) | _ => None end.

Definition val_to_attr (v : val) : option osattr :=
  match v with
  | VAttr a => Some a
  | VBool b => Some (ABool b)
  | VInt n => Some (AULong n)
  | VBytes e b => Some (ABytes e b)
  | _ => None
  end.

Definition binop (op : string) (a b : val) : option val :=
  match as_int a, as_int b with
  | Some x, Some y =>
      if String.eqb op "==" then Some (VBool (x =? y))
      else if String.eqb op "!=" then Some (VBool (negb (x =? y)))
      else if String.eqb op "<" then Some (VBool (x <? y))
      else if String.eqb op "<=" then Some (VBool (x <=? y))
      else if String.eqb op ">" then Some (VBool (y <? x))
      else if String.eqb op ">=" then Some (VBool (y <=? x))
      else if String.eqb op "+" then Some (VInt (wrap (x + y)))
      else if String.eqb op "-" then Some (VInt (wrap (x + two64 - y mod two64)))
      else if String.eqb op "*" then Some (VInt (wrap (x * y)))
      else if String.eqb op "/" then (if y =? 0 then None else Some (VInt (x / y)))
      else if String.eqb op "%" then (if y =? 0 then None else Some (VInt (x mod y)))
      else if String.eqb op "&" then Some (VInt (N.land x y))
      else if String.eqb op "|" then Some (VInt (N.lor x y))
      else None
  | _, _ =>
      match a, b with
      | VBytes e1 b1, VBytes e2 b2 =>
          (* ByteString comparison; only clear strings are ever compared in the fragment *)
          match e1, e2 with
          | None, None =>
              if String.eqb op "op!=" then Some (VBool (negb (bytes_eqb b1 b2)))
              else if String.eqb op "op==" then Some (VBool (bytes_eqb b1 b2))
              else None
          | _, _ => None
          end
      | _, _ => None
      end
  end.

(* which receiver does a member call go to *)
Inductive recv := ROsobject | RToken | RThis | RLocal (x : string) | RLog | ROther.

Definition classify (f : cexpr) : recv * string :=
  match f with
  | EField (EField EThis "osobject") m => (ROsobject, m)
  | EField (EVar "osobject") m => (ROsobject, m)
  | EField (EVar "inobject") m => (ROsobject, m)
  | EField (EVar "token") m => (RToken, m)
  | EField EThis m => (RThis, m)
  | EField (EVar x) m => (RLocal x, m)
  | EVar "softHSMLog" => (RLog, "log"%string)
  | EVar m => (RThis, m)
  | _ => (ROther, ""%string)
  end.

Definition hexval (c : ascii) : N :=
  let n := N_of_ascii c in
  if (48 <=? n) && (n <=? 57) then n - 48
  else if (65 <=? n) && (n <=? 70) then n - 55
  else if (97 <=? n) && (n <=? 102) then n - 87 else 0.
Fixpoint hexdecode (s : string) : bytes :=
  match s with
  | String a (String b r) => (16 * hexval a + hexval b) :: hexdecode r
  | _ => []
  end.

(* split "Class::method" *)
Fixpoint index_of_sep (s : string) : option nat :=
  match s with
  | String a r =>
      match r with
      | String b _ =>
          if Ascii.eqb a ":" && Ascii.eqb b ":" then Some O
          else match index_of_sep r with Some n => Some (S n) | None => None end
      | EmptyString => None
      end
  | EmptyString => None
  end.
Definition split_qual (s : string) : option (string * string) :=
  match index_of_sep s with
  | Some n => Some (substring 0 n s, substring (n + 2) (String.length s - n - 2) s)
  | None => None
  end.

Definition is_virtual (m : string) : bool :=
  String.eqb m "updateAttr" || String.eqb m "setDefault".

Definition ptr_eq (a b : val) : option bool :=
  match a, b with
  | VPtr None, VPtr None => Some true
  | VPtr None, VPtr (Some _) => Some false
  | VPtr (Some _), VPtr None => Some false
  | _, _ => None
  end.

Section Interp.
  Variable ft : ftable.
  Variable consts : list (string * N).                       (* enum constants (ck1 ...) *)
  Variable ctor_defaults : list (string * list (option cexpr)).
  (* hand-modelled methods (loops over caller arrays), keyed by "Class::method" *)
  Variable native : string -> option (actx -> list val -> mstate -> outcome val).

  Fixpoint const_get (x : string) (l : list (string * N)) : option N :=
    match l with [] => None | (k, v) :: r => if String.eqb k x then Some v else const_get x r end.
  Fixpoint dflt_get (x : string) (l : list (string * list (option cexpr))) : list (option cexpr) :=
    match l with [] => [] | (k, v) :: r => if String.eqb k x then v else dflt_get x r end.

  (* a (possibly qualified) method name on [this]: virtual methods dispatch on the dynamic class
     and fall back to P11Attribute; everything else is the statically referenced Class::method *)
  Definition resolve (c : actx) (qm : string) : option cfun :=
    match split_qual qm with
    | Some (cls, m) =>
        if is_virtual m then
          match flookup (c_cls c +++ "::" +++ m) ft with
          | Some f => Some f
          | None => flookup ("P11Attribute::" +++ m) ft
          end
        else flookup qm ft
    | None =>
        match flookup (c_cls c +++ "::" +++ qm) ft with
        | Some f => Some f
        | None => flookup ("P11Attribute::" +++ qm) ft
        end
    end.

  Inductive flow := FNormal | FReturn (v : val) | FBreak | FContinue.

  Fixpoint bind_params (ps : list string) (vs : list val) : list (string * val) :=
    match ps, vs with
    | p :: ps', v :: vs' => (p, v) :: bind_params ps' vs'
    | _, _ => []
    end.

  Fixpoint find_case (v : N) (body : list cstmt) : option (list cstmt) :=
    match body with
    | [] => None
    | SCase n :: r => if n =? v then Some r else find_case v r
    | _ :: r => find_case v r
    end.
  Fixpoint find_default (body : list cstmt) : option (list cstmt) :=
    match body with
    | [] => None
    | SDefault :: r => Some r
    | _ :: r => find_default r
    end.

  Definition this_get (c : actx) (m : mstate) (f : string) : option val :=
    match env_get f (m_this m) with
    | Some v => Some v
    | None =>
        if String.eqb f "type" then Some (VInt (c_type c))
        else if String.eqb f "size" then Some (VInt (c_size c))
        else if String.eqb f "checks" then Some (VInt (c_checks c))
        else if String.eqb f "keytype" then Some (VInt (c_keytype c))
        else if String.eqb f "osobject" then Some (VPtr (Some []))
        else match split_qual f with
             | Some (_, fld) => if String.eqb fld "initialized" then Some (VBool false) else None
             | None => None
             end
    end.

  Fixpoint eval (fuel : nat) (c : actx) (e : cexpr) (m : mstate) {struct fuel} : outcome val :=
    match fuel with
    | O => Stuck "fuel"
    | S fuel' =>
      let ev := eval fuel' c in
      let fix evs (l : list cexpr) (m : mstate) : outcome (list val) :=
        match l with
        | [] => Ok [] m
        | x :: r => obind (ev x m) (fun v m1 => obind (evs r m1) (fun vs m2 => Ok (v :: vs) m2))
        end in
      (* call [fn] as a method of [this] under context c' with fresh locals *)
      let invoke := fun (c' : actx) (fn : cfun) (vs : list val) (m1 : mstate) =>
        match run fuel' c' (f_body fn) (with_env m1 (bind_params (f_params fn) vs)) with
        | Ok fl m2 =>
            match fl with
            | FReturn v => Ok v (with_env m2 (m_env m1))
            | _ => Ok VVoid (with_env m2 (m_env m1))
            end
        | Stuck w => Stuck w
        end in
      match e with
      | EInt n => Ok (VInt n) m
      | EBool b => Ok (VBool b) m
      | ENull => Ok (VPtr None) m
      | EStr s => Ok (VBytes None (hexdecode s)) m
      | EVar x =>
          match env_get x (m_env m) with
          | Some v => Ok v m
          | None => match const_get x consts with Some n => Ok (VInt n) m | None => Stuck ("unbound " +++ x) end
          end
      | EThis => Stuck "this"
      | EField EThis f =>
          match this_get c m f with Some v => Ok v m | None => Stuck ("this->" +++ f) end
      | EField _ f => Stuck ("field " +++ f)
      | ECast ty a =>
          obind (ev a m) (fun v m1 =>
            match v with
            | VBool b => Ok (VInt (if b then 1 else 0)) m1
            | _ => Ok v m1
            end)
      | EUn op a =>
          if String.eqb op "*" then
            match a with
            | ECast ty p =>
                obind (ev p m) (fun v m1 =>
                  match v with
                  | VPtr (Some b) =>
                      if String.eqb ty "CK_BBOOL *" then
                        match b with x :: _ => Ok (VInt x) m1 | [] => Stuck "deref past buffer" end
                      else if String.eqb ty "CK_ULONG *" then
                        if 8 <=? blen b then Ok (VInt (le_decode (firstn 8 b))) m1 else Stuck "deref past buffer"
                      else Stuck ("deref " +++ ty)
                  | _ => Stuck "deref null"
                  end)
            | _ => Stuck "deref"
            end
          else
          obind (ev a m) (fun v m1 =>
            if String.eqb op "!" then
              match truthy v with Some b => Ok (VBool (negb b)) m1 | None => Stuck "not" end
            else if String.eqb op "tobool" then
              match truthy v with Some b => Ok (VBool b) m1 | None => Stuck "tobool" end
            else Stuck ("unop " +++ op))
      | EBin op a b =>
          if String.eqb op "&&" then
            obind (ev a m) (fun va m1 =>
              match truthy va with
              | Some true => obind (ev b m1) (fun vb m2 => match truthy vb with Some x => Ok (VBool x) m2 | None => Stuck "and" end)
              | Some false => Ok (VBool false) m1
              | None => Stuck "and"
              end)
          else if String.eqb op "||" then
            obind (ev a m) (fun va m1 =>
              match truthy va with
              | Some false => obind (ev b m1) (fun vb m2 => match truthy vb with Some x => Ok (VBool x) m2 | None => Stuck "or" end)
              | Some true => Ok (VBool true) m1
              | None => Stuck "or"
              end)
          else if String.eqb op "=" || String.eqb op "op=" then
            match a with
            | EVar x => obind (ev b m) (fun vb m1 => Ok vb (env_set m1 x vb))
            | EField EThis f => obind (ev b m) (fun vb m1 => Ok vb (this_set m1 f vb))
            | EBin "op[]" (EField EThis "attributes") k =>
                obind (ev k m) (fun vk m1 => obind (ev b m1) (fun vb m2 =>
                  match vk with
                  | VInt n => Ok vb (attrs_set m2 n vb)
                  | _ => Stuck "attributes key"
                  end))
            | _ => Stuck "assign"
            end
          else
            obind (ev a m) (fun va m1 => obind (ev b m1) (fun vb m2 =>
              match binop op va vb with
              | Some r => Ok r m2
              | None =>
                  match ptr_eq va vb with
                  | Some q => if String.eqb op "==" then Ok (VBool q) m2
                              else if String.eqb op "!=" then Ok (VBool (negb q)) m2
                              else Stuck ("binop " +++ op)
                  | None => Stuck ("binop " +++ op)
                  end
              end))
      | ECond cnd a b =>
          obind (ev cnd m) (fun vc m1 =>
            match truthy vc with
            | Some true => ev a m1
            | Some false => ev b m1
            | None => Stuck "cond"
            end)
      | ECtor cls args =>
          obind (evs args m) (fun vs m1 =>
            if String.eqb cls "ByteString" then
              match vs with
              | [] => Ok (VBytes None []) m1
              | [VBytes e b] => Ok (VBytes e b) m1
              | [VPtr p; VInt n] =>
                  match p with
                  | Some b => if n <=? blen b then Ok (VBytes None (firstn (N.to_nat n) b)) m1 else Stuck "read past buffer"
                  | None => if n =? 0 then Ok (VBytes None []) m1 else Stuck "read null"
                  end
              | _ => Stuck "ByteString ctor"
              end
            else if String.eqb cls "OSAttribute" then
              match vs with
              | [v] => match val_to_attr v with Some a => Ok (VAttr a) m1 | None => Stuck "OSAttribute ctor" end
              | _ => Stuck "OSAttribute ctor"
              end
            else if String.eqb cls "SymmetricKey" || String.eqb cls "AESKey" || String.eqb cls "DESKey" then
              Ok (VKey cls []) m1
            else if String.eqb cls "std::set<CK_MECHANISM_TYPE>" then
              match vs with [] => Ok (VAttr (AMechs [])) m1 | _ => Stuck "set ctor" end
            else if String.eqb cls "std::map<CK_ATTRIBUTE_TYPE, OSAttribute>" then
              match vs with [] => Ok (VAttr (AMap [])) m1 | _ => Stuck "map ctor" end
            else Stuck ("ctor " +++ cls))
      | ENew cls args =>
          (* run P11Attribute::P11Attribute then cls::cls on a scratch [this]; keep type/size/checks *)
          obind (evs args m) (fun vs m1 =>
            match flookup ("P11Attribute::P11Attribute") ft, flookup (cls +++ "::" +++ cls) ft with
            | Some basector, Some ctor =>
                let dfl := dflt_get (cls +++ "::" +++ cls) ctor_defaults in
                (* pad missing trailing arguments with their (integer) defaults *)
                let fix pad (ps : list (option cexpr)) (vs : list val) : option (list val) :=
                  match ps, vs with
                  | [], _ => Some []
                  | _ :: ps', v :: vs' => match pad ps' vs' with Some r => Some (v :: r) | None => None end
                  | Some (EInt n) :: ps', [] => match pad ps' [] with Some r => Some (VInt n :: r) | None => None end
                  | _ :: _, [] => None
                  end in
                match pad dfl vs with
                | Some full =>
                    let scratch := mkM [] (m_log m1) [] [] in
                    match run fuel' c (f_body basector) (with_env scratch (bind_params (f_params basector) [VPtr (Some [])])) with
                    | Ok _ s1 =>
                        match run fuel' c (f_body ctor) (with_env s1 (bind_params (f_params ctor) full)) with
                        | Ok _ s2 =>
                            match env_get "type" (m_this s2), env_get "size" (m_this s2), env_get "checks" (m_this s2) with
                            | Some (VInt t), Some (VInt z), Some (VInt k) => Ok (VAttrObj cls t z k) m1
                            | _, _, _ => Stuck ("ctor fields " +++ cls)
                            end
                        | Stuck w => Stuck w
                        end
                    | Stuck w => Stuck w
                    end
                | None => Stuck ("ctor args " +++ cls)
                end
            | _, _ => Stuck ("new " +++ cls)
            end)
      | ECall f args =>
          let (r, meth) := classify f in
          match r with
          | RLog => Ok VVoid m
          | ROsobject =>
              obind (evs args m) (fun vs m1 =>
                if String.eqb meth "attributeExists" then
                  match vs with
                  | [VInt k] => Ok (VBool (match oget c m1 k with Some _ => true | None => false end)) m1
                  | _ => Stuck "attributeExists"
                  end
                else if String.eqb meth "getBooleanValue" then
                  match vs with
                  | [VInt k; d] =>
                      match oget c m1 k with
                      | Some (ABool b) => Ok (VBool b) m1
                      | _ => Ok d m1
                      end
                  | _ => Stuck "getBooleanValue"
                  end
                else if String.eqb meth "getUnsignedLongValue" then
                  match vs with
                  | [VInt k; d] =>
                      match oget c m1 k with
                      | Some (AULong n) => Ok (VInt n) m1
                      | _ => Ok d m1
                      end
                  | _ => Stuck "getUnsignedLongValue"
                  end
                else if String.eqb meth "getByteStringValue" then
                  match vs with
                  | [VInt k] =>
                      match oget c m1 k with
                      | Some (ABytes e b) => Ok (VBytes e b) m1
                      | _ => Ok (VBytes None []) m1
                      end
                  | _ => Stuck "getByteStringValue"
                  end
                else if String.eqb meth "setAttribute" then
                  match vs with
                  | [VInt k; v] =>
                      match val_to_attr v with
                      | Some a => Ok (VBool true) (oset m1 k (Some a))
                      | None => Stuck "setAttribute value"
                      end
                  | _ => Stuck "setAttribute"
                  end
                else if String.eqb meth "deleteAttribute" then
                  match vs with
                  | [VInt k] => Ok (VBool true) (oset m1 k None)
                  | _ => Stuck "deleteAttribute"
                  end
                else Stuck ("osobject->" +++ meth))
          | RToken =>
              if String.eqb meth "isSOLoggedIn" then Ok (VBool (c_so c)) m
              else if String.eqb meth "encrypt" then
                match args with
                | [a; EVar out] =>
                    obind (ev a m) (fun va m1 =>
                      match va with
                      | VBytes None b =>
                          if c_can_enc c then Ok (VBool true) (env_set m1 out (VBytes (Some (c_mk c)) b))
                          else Ok (VBool false) m1
                      | _ => Stuck "encrypt arg"
                      end)
                | _ => Stuck "encrypt"
                end
              else if String.eqb meth "decrypt" then
                match args with
                | [a; EVar out] =>
                    obind (ev a m) (fun va m1 =>
                      match va with
                      | VBytes (Some k) b =>
                          if c_can_enc c && (k =? c_mk c) then Ok (VBool true) (env_set m1 out (VBytes None b))
                          else Ok (VBool false) m1
                      | VBytes None [] =>
                          if c_can_enc c then Ok (VBool true) (env_set m1 out (VBytes None [])) else Ok (VBool false) m1
                      | VBytes None _ => Ok (VBool false) m1
                      | _ => Stuck "decrypt arg"
                      end)
                | _ => Stuck "decrypt"
                end
              else Stuck ("token->" +++ meth)
          | RLocal x =>
              match env_get x (m_env m) with
              | Some (VBytes e b) =>
                  if String.eqb meth "size" then Ok (VInt (vbytes_size e b)) m
                  else if String.eqb meth "bits" then
                    match e with None => Ok (VInt (bytes_bits b)) m | Some _ => Stuck "bits of ciphertext" end
                  else if String.eqb meth "resize" then
                    match e, args with
                    | None, [EInt n] => Ok VVoid (env_set m x (VBytes None (firstn (N.to_nat n) b)))
                    | _, _ => Stuck "resize"
                    end
                  else Stuck ("ByteString." +++ meth)
              | Some (VKey cls bits) =>
                  if String.eqb meth "setKeyBits" then
                    obind (evs args m) (fun vs m1 =>
                      match vs with
                      | [VBytes None b] => Ok (VBool true) (env_set m1 x (VKey cls b))
                      | _ => Stuck "setKeyBits"
                      end)
                  else if String.eqb meth "setBitLen" then obind (evs args m) (fun _ m1 => Ok VVoid m1)
                  else if String.eqb meth "getKeyCheckValue" then Ok (VBytes None (c_kcv c cls bits)) m
                  else Stuck ("key." +++ meth)
              | Some (VAttrObj cls t z k) =>
                  if String.eqb meth "getType" then Ok (VInt t) m
                  else if String.eqb meth "getChecks" then Ok (VInt k) m
                  else if String.eqb meth "init" then
                    (* P11Attribute::init of that attribute instance: default value if absent *)
                    let c' := mkCtx (c_base c) (c_can_enc c) (c_so c) (c_mk c) cls t z k (c_kcv c) (c_keytype c) in
                    match flookup "P11Attribute::init" ft with
                    | Some fn => invoke c' fn [] (mkM (m_env m) (m_log m) [] (m_attrs m))
                                 |> (fun o => match o with
                                              | Ok v m2 => Ok v (mkM (m_env m) (m_log m2) (m_this m) (m_attrs m))
                                              | Stuck w => Stuck w
                                              end)
                    | None => Stuck "P11Attribute::init"
                    end
                  else Stuck ("attr." +++ meth)
              | _ =>
                  if String.eqb x "delete" then Ok VVoid m
                  else Stuck ("call on " +++ x +++ "." +++ meth)
              end
          | RThis =>
              if String.eqb meth "delete" then Ok VVoid m else
              let dyn := match split_qual meth with
                         | Some (_, mm) => if is_virtual mm then c_cls c +++ "::" +++ mm else meth
                         | None => meth
                         end in
              match native dyn with
              | Some nf => obind (evs args m) (fun vs m1 => nf c vs m1)
              | None =>
                  match resolve c meth with
                  | Some fn => obind (evs args m) (fun vs m1 => invoke c fn vs m1)
                  | None => Stuck ("this->" +++ meth)
                  end
              end
          | ROther => Stuck "call"
          end
      | EIndex _ _ => Stuck "index"
      | EOpaque k => Stuck ("opaque " +++ k)
      end
    end
  with run (fuel : nat) (c : actx) (ss : list cstmt) (m : mstate) {struct fuel} : outcome flow :=
    match fuel with
    | O => Stuck "fuel"
    | S fuel' =>
      match ss with
      | [] => Ok FNormal m
      | s :: rest =>
        let continue_with := fun (o : outcome flow) =>
          match o with
          | Ok FNormal m1 => run fuel' c rest m1
          | other => other
          end in
        match s with
        | SIf cnd t e =>
            match eval fuel' c cnd m with
            | Ok v m1 =>
                match truthy v with
                | Some true => continue_with (run fuel' c t m1)
                | Some false => continue_with (run fuel' c e m1)
                | None => Stuck "if condition"
                end
            | Stuck w => Stuck w
            end
        | SRet None => Ok (FReturn VVoid) m
        | SRet (Some e) =>
            match eval fuel' c e m with
            | Ok v m1 => Ok (FReturn v) m1
            | Stuck w => Stuck w
            end
        | SDecl x ty None =>
            if String.eqb ty "ByteString" then run fuel' c rest (env_set m x (VBytes None []))
            else if String.eqb ty "SymmetricKey" || String.eqb ty "AESKey" || String.eqb ty "DESKey" then run fuel' c rest (env_set m x (VKey ty []))
            else run fuel' c rest (env_set m x VVoid)
        | SDecl x ty (Some e) =>
            match eval fuel' c e m with
            | Ok v m1 => run fuel' c rest (env_set m1 x v)
            | Stuck w => Stuck w
            end
        | SExpr e =>
            match eval fuel' c e m with
            | Ok _ m1 => run fuel' c rest m1
            | Stuck w => Stuck w
            end
        | SSwitch e body =>
            match eval fuel' c e m with
            | Ok v m1 =>
                match as_int v with
                | Some n =>
                    let target := match find_case n body with
                                  | Some r => Some r
                                  | None => find_default body
                                  end in
                    match target with
                    | Some r =>
                        match run fuel' c r m1 with
                        | Ok FBreak m2 => run fuel' c rest m2
                        | Ok FNormal m2 => run fuel' c rest m2
                        | other => other
                        end
                    | None => run fuel' c rest m1
                    end
                | None => Stuck "switch value"
                end
            | Stuck w => Stuck w
            end
        | SCase _ => run fuel' c rest m
        | SDefault => run fuel' c rest m
        | SBreak => Ok FBreak m
        | SContinue => Ok FContinue m
        | SBlock b => continue_with (run fuel' c b m)
        | SFor _ _ _ _ => Stuck "for"
        | SWhile _ _ => Stuck "while"
        | SDo _ _ => Stuck "do"
        | SOpaque k => Stuck ("opaque stmt " +++ k)
        end
      end
    end.

  (* call a method of [this] by (possibly qualified) name with argument values *)
  Definition call (fuel : nat) (c : actx) (meth : string) (args : list val) (m0 : mstate) : outcome val :=
    match resolve c meth with
    | Some fn =>
        match run fuel c (f_body fn) (with_env m0 (bind_params (f_params fn) args)) with
        | Ok (FReturn v) m => Ok v m
        | Ok _ m => Ok VVoid m
        | Stuck w => Stuck w
        end
    | None => Stuck ("no method " +++ meth)
    end.

  Definition call_free (fuel : nat) (c : actx) (fname : string) (args : list val) : outcome val :=
    match flookup fname ft with
    | Some fn =>
        match run fuel c (f_body fn) (mkM (bind_params (f_params fn) args) [] [] []) with
        | Ok (FReturn v) m => Ok v m
        | Ok _ m => Ok VVoid m
        | Stuck w => Stuck w
        end
    | None => Stuck ("no function " +++ fname)
    end.
End Interp.

Definition dummy_ctx : actx :=
  mkCtx (fun _ => None) false false 0 "" 0 0 0 (fun _ _ => []) 0.

(* apply a write log (newest first) to a concrete object *)
Definition apply_log (o : obj) (w : wlog) : obj :=
  fold_right (fun (kv : N * option osattr) acc =>
                match snd kv with
                | Some a => aset (fst kv) a acc
                | None => aremove (fst kv) acc
                end) o w.
