(* Conc/HandleAtomic.v — handle registration under threads (HandleManager::addTokenObject): look the object up and, if it
   has no handle yet, issue the next counter value.  With the manager's mutex held across lookup AND insertion the step
   is atomic and every interleaving of threads is a sequence of such steps; with the mutex released in between, two
   threads can both miss the object.  (C18) *)
From Coq Require Import List NArith Bool Lia.
Import ListNotations.
Local Open Scope N_scope.

Record reg := mkReg { counter : N; table : list (N * N) }.        (* (handle, object) *)

Fixpoint handle_of (o : N) (t : list (N * N)) : option N :=
  match t with [] => None | (h, o') :: r => if o' =? o then Some h else handle_of o r end.

(* the atomic step: one call of addTokenObject by some thread *)
Definition register (r : reg) (o : N) : reg * N :=
  match handle_of o (table r) with
  | Some h => (r, h)
  | None => let h := counter r + 1 in (mkReg h ((h, o) :: table r), h)
  end.

Fixpoint run (r : reg) (os : list N) : reg * list N :=
  match os with
  | [] => (r, [])
  | o :: rest => let (r1, h) := register r o in let (r2, hs) := run r1 rest in (r2, h :: hs)
  end.

Definition inv (r : reg) : Prop :=
  (forall h o, In (h, o) (table r) -> 0 < h <= counter r) /\
  NoDup (map fst (table r)) /\ NoDup (map snd (table r)).

Lemma handle_of_In o t h : handle_of o t = Some h -> In (h, o) t.
Proof.
  induction t as [|[h' o'] r IH]; cbn; [discriminate|].
  destruct (o' =? o) eqn:E; [apply N.eqb_eq in E; subst; intros H; injection H as ->; left; reflexivity|intros H; right; exact (IH H)].
Qed.

Lemma handle_of_None o t : handle_of o t = None -> ~ In o (map snd t).
Proof.
  induction t as [|[h' o'] r IH]; cbn; [intros _ []|].
  destruct (o' =? o) eqn:E; [discriminate|]. intros H [Hx|Hx]; [apply N.eqb_neq in E; congruence|exact (IH H Hx)].
Qed.

Lemma register_inv r o : inv r -> inv (fst (register r o)).
Proof.
  intros (Hb & Hh & Ho). unfold register. destruct (handle_of o (table r)) eqn:E; cbn [fst]; [split; [exact Hb|split; assumption]|].
  split; [|split]; cbn [table counter].
  - intros h o' [Heq|Hin]; [injection Heq as <- <-; lia|]. specialize (Hb h o' Hin). lia.
  - cbn. constructor; [|exact Hh]. intros Hin. apply in_map_iff in Hin. destruct Hin as ([h' o'] & Heq & Hin). cbn in Heq. subst h'.
    specialize (Hb _ _ Hin). lia.
  - cbn. constructor; [apply handle_of_None; exact E|exact Ho].
Qed.

Lemma run_inv os : forall r, inv r -> inv (fst (run r os)).
Proof.
  induction os as [|o rest IH]; intros r H; [exact H|].
  cbn [run]. destruct (register r o) as [r1 h] eqn:E. destruct (run r1 rest) as [r2 hs] eqn:E2. cbn [fst].
  change r2 with (fst (r2, hs)). rewrite <- E2. apply IH. change r1 with (fst (r1, h)). rewrite <- E. apply register_inv. exact H.
Qed.

Definition empty : reg := mkReg 0 [].
Lemma empty_inv : inv empty.
Proof. split; [intros h o []|split; constructor]. Qed.

(* whatever the threads register and in whatever order their atomic steps interleave: no handle is issued twice and
   no object has two handles *)
Theorem atomic_registration_unique : forall os : list N,
  let r := fst (run empty os) in NoDup (map fst (table r)) /\ NoDup (map snd (table r)).
Proof. intros os. cbn zeta. destruct (run_inv os empty empty_inv) as (_ & H1 & H2). split; assumption. Qed.

(* a registered object keeps its handle: a second registration returns the first one *)
Theorem register_idempotent r o : inv r -> snd (register (fst (register r o)) o) = snd (register r o).
Proof.
  intros _. unfold register at 2 3. destruct (handle_of o (table r)) eqn:E; cbn [fst snd].
  - unfold register. rewrite E. reflexivity.
  - unfold register. cbn [table]. cbn [handle_of]. rewrite N.eqb_refl. reflexivity.
Qed.

(* ---- the split variant: lookup in one critical section, insertion in another --------------------------------------- *)
Definition lookup_only (r : reg) (o : N) : option N := handle_of o (table r).
Definition insert_only (r : reg) (o : N) : reg * N := let h := counter r + 1 in (mkReg h ((h, o) :: table r), h).

(* threads T1 and T2 both look object 7 up (both miss), then both insert: two handles for one object *)
Example split_registration_duplicates :
  let r0 := empty in
  let m1 := lookup_only r0 7 in
  let m2 := lookup_only r0 7 in
  let r1 := fst (insert_only r0 7) in
  let r2 := fst (insert_only r1 7) in
  (m1, m2, table r2) = (None, None, [(2, 7); (1, 7)]).
Proof. vm_compute. reflexivity. Qed.
