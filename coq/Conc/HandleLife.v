(* Conc/HandleLife.v — the whole of HandleManager (src/lib/handle_mgr/HandleManager.cpp) as atomic steps.  Every public
   method takes `handlesMutex` for its whole body, so with locking enabled any execution of any number of threads is a
   sequence of these steps in SOME order; the theorems quantify over every such sequence.  Two maps as in the code:
   `handles` (handle -> Handle record) and `objects` (object pointer -> handle).  The counter only grows and a new handle
   is always counter + 1, hence: a handle value that has died is never issued again, whatever the threads do and in
   whatever order (C11 under C18), and live handle values are pairwise distinct.  Hand model; proofs only. *)
From Coq Require Import List NArith Bool Lia.
Import ListNotations.
Local Open Scope N_scope.

Inductive kind := KSession | KObject.
Record entry := mkE { eh : N; ekind : kind; eslot : N; esess : N; epriv : bool; eobj : N }.
Record mgr := mkM { ctr : N; handles : list entry; objects : list (N * N) }.   (* objects: (pointer, handle) *)

Definition isobj (e : entry) : bool := match ekind e with KObject => true | KSession => false end.
Definition issess (e : entry) : bool := negb (isobj e).

Fixpoint find_h (h : N) (l : list entry) : option entry :=
  match l with [] => None | e :: r => if eh e =? h then Some e else find_h h r end.
Fixpoint find_o (o : N) (l : list (N * N)) : option N :=
  match l with [] => None | (o', h) :: r => if o' =? o then Some h else find_o o r end.
Definition erase_o (o : N) (l : list (N * N)) : list (N * N) := filter (fun p => negb (fst p =? o)) l.

(* erase every entry satisfying p, and `objects.erase(it->second.object)` for each erased object entry *)
Definition remove_where (p : entry -> bool) (m : mgr) : mgr :=
  mkM (ctr m) (filter (fun e => negb (p e)) (handles m))
      (filter (fun q => negb (existsb (fun e => p e && isobj e && (eobj e =? fst q)) (handles m))) (objects m)).

Inductive op :=
| AddSession (slot sess : N)
| AddObject (slot hsess : N) (priv : bool) (o : N)      (* addSessionObject; addTokenObject is hsess = 0 *)
| DestroyObject (h : N)
| SessionClosed (h : N)
| AllSessionsClosed (slot : N)
| TokenLoggedOut (slot : N).

Definition step (m : mgr) (x : op) : mgr * N :=
  match x with
  | AddSession slot sess =>
      let h := ctr m + 1 in (mkM h (mkE h KSession slot 0 false sess :: handles m) (objects m), h)
  | AddObject slot hsess priv o =>
      match find_o o (objects m) with
      | Some h =>
          match find_h h (handles m) with
          | Some e => if isobj e && (eslot e =? slot) then (m, h)
                      else (mkM (ctr m) (handles m) (erase_o o (objects m)), 0)
          | None => (mkM (ctr m) (handles m) (erase_o o (objects m)), 0)
          end
      | None =>
          let h := ctr m + 1 in (mkM h (mkE h KObject slot hsess priv o :: handles m) ((o, h) :: objects m), h)
      end
  | DestroyObject h => (remove_where (fun e => (eh e =? h) && isobj e) m, 0)
  | SessionClosed h =>
      match find_h h (handles m) with
      | Some s =>
          if issess s then
            let m1 := remove_where (fun e => ((eh e =? h) && issess e) || (isobj e && (esess e =? h))) m in
            if existsb (fun e => issess e && (eslot e =? eslot s)) (handles m1) then (m1, 0)
            else (remove_where (fun e => eslot e =? eslot s) m1, 0)
          else (m, 0)
      | None => (m, 0)
      end
  | AllSessionsClosed slot => (remove_where (fun e => eslot e =? slot) m, 0)
  | TokenLoggedOut slot => (remove_where (fun e => isobj e && (eslot e =? slot) && epriv e) m, 0)
  end.

Fixpoint run (m : mgr) (xs : list op) : mgr :=
  match xs with [] => m | x :: r => run (fst (step m x)) r end.

Definition init : mgr := mkM 0 [] [].
Definition live (m : mgr) (h : N) : Prop := In h (map eh (handles m)).

(* ---- one step ------------------------------------------------------------------------------------------------------- *)
Lemma filter_map_in {A} (f : A -> N) p l h : In h (map f (filter p l)) -> In h (map f l).
Proof.
  intros H. apply in_map_iff in H. destruct H as (e & He & Hin). apply filter_In in Hin. destruct Hin as [Hin _].
  apply in_map_iff. exists e. split; assumption.
Qed.

Lemma remove_where_live p m h : live (remove_where p m) h -> live m h.
Proof. unfold live, remove_where. cbn [handles]. apply filter_map_in. Qed.

Lemma remove_where_ctr p m : ctr (remove_where p m) = ctr m.
Proof. reflexivity. Qed.

Lemma step_live m x h : live (fst (step m x)) h -> live m h \/ h = ctr m + 1.
Proof.
  destruct x as [slot sess|slot hsess priv o|h0|h0|slot|slot]; cbn [step].
  - cbn. intros [H|H]; [right; symmetry; exact H|left; exact H].
  - destruct (find_o o (objects m)) as [h1|].
    + destruct (find_h h1 (handles m)) as [e|]; [destruct (isobj e && (eslot e =? slot))|]; cbn; intros H; left; exact H.
    + cbn. intros [H|H]; [right; symmetry; exact H|left; exact H].
  - cbn [fst]. intros H. left. exact (remove_where_live _ _ _ H).
  - destruct (find_h h0 (handles m)) as [s|]; [|cbn; intros H; left; exact H].
    destruct (issess s); [|cbn; intros H; left; exact H].
    match goal with |- context[if ?c then _ else _] => destruct c end; cbn [fst]; intros H; left.
    + exact (remove_where_live _ _ _ H).
    + exact (remove_where_live _ _ _ (remove_where_live _ _ _ H)).
  - cbn [fst]. intros H. left. exact (remove_where_live _ _ _ H).
  - cbn [fst]. intros H. left. exact (remove_where_live _ _ _ H).
Qed.

Lemma step_ctr m x : ctr m <= ctr (fst (step m x)).
Proof.
  destruct x as [slot sess|slot hsess priv o|h0|h0|slot|slot]; cbn [step].
  - cbn. lia.
  - destruct (find_o o (objects m)) as [h1|].
    + destruct (find_h h1 (handles m)) as [e|]; [destruct (isobj e && (eslot e =? slot))|]; cbn; lia.
    + cbn. lia.
  - cbn. lia.
  - destruct (find_h h0 (handles m)) as [s|]; [|cbn; lia].
    destruct (issess s); [|cbn; lia].
    match goal with |- context[if ?c then _ else _] => destruct c end; cbn; lia.
  - cbn. lia.
  - cbn. lia.
Qed.

(* what a step returns: nothing (0), a handle that is live, or the fresh value counter + 1 *)
Lemma step_out m x : snd (step m x) = 0 \/ live m (snd (step m x)) \/ snd (step m x) = ctr m + 1.
Proof.
  destruct x as [slot sess|slot hsess priv o|h0|h0|slot|slot]; cbn [step]; try (left; reflexivity).
  - right; right; reflexivity.
  - destruct (find_o o (objects m)) as [h1|] eqn:Eo; [|right; right; reflexivity].
    destruct (find_h h1 (handles m)) as [e|] eqn:Eh; [|left; reflexivity].
    destruct (isobj e && (eslot e =? slot)); [|left; reflexivity].
    right; left. cbn [snd]. unfold live. clear Eo. revert Eh. induction (handles m) as [|e' r IH]; cbn; [discriminate|].
    destruct (eh e' =? h1) eqn:E; [intros _; left; apply N.eqb_eq; exact E|intros H; right; exact (IH H)].
  - destruct (find_h h0 (handles m)) as [s|]; [|left; reflexivity].
    destruct (issess s); [|left; reflexivity].
    match goal with |- context[if ?c then _ else _] => destruct c end; left; reflexivity.
Qed.

(* ---- every sequence of steps = every interleaving of the threads' calls ----------------------------------------------- *)
Definition bounded (m : mgr) : Prop := forall h, live m h -> 0 < h <= ctr m.
Definition inv (m : mgr) : Prop := bounded m /\ NoDup (map eh (handles m)).

Lemma filter_map_nodup {A} (f : A -> N) p l : NoDup (map f l) -> NoDup (map f (filter p l)).
Proof.
  induction l as [|a r IH]; cbn; [intros H; exact H|]. intros H. inversion H as [|? ? Hn Hr]; subst.
  destruct (p a); [|exact (IH Hr)]. cbn. constructor; [|exact (IH Hr)]. intros Hin. apply Hn. exact (filter_map_in _ _ _ _ Hin).
Qed.

Lemma remove_where_inv p m : inv m -> inv (remove_where p m).
Proof.
  intros [Hb Hn]. split.
  - intros h H. rewrite remove_where_ctr. apply Hb. exact (remove_where_live _ _ _ H).
  - unfold remove_where. cbn [handles]. apply filter_map_nodup. exact Hn.
Qed.

Lemma add_inv m e : inv m -> eh e = ctr m + 1 -> forall ob, inv (mkM (ctr m + 1) (e :: handles m) ob).
Proof.
  intros [Hb Hn] He ob. split.
  - intros h [H|H]; cbn [ctr]; [rewrite <- H, He; lia|]. specialize (Hb h H). lia.
  - cbn. constructor; [|exact Hn]. intros H. specialize (Hb _ H). lia.
Qed.

Lemma step_inv m x : inv m -> inv (fst (step m x)).
Proof.
  intros H. destruct x as [slot sess|slot hsess priv o|h0|h0|slot|slot]; cbn [step].
  - cbn [fst]. apply add_inv; [exact H|reflexivity].
  - destruct (find_o o (objects m)) as [h1|].
    + destruct (find_h h1 (handles m)) as [e|]; [destruct (isobj e && (eslot e =? slot))|]; cbn [fst]; try exact H;
        (destruct H as [Hb Hn]; split; [exact Hb|exact Hn]).
    + cbn [fst]. apply add_inv; [exact H|reflexivity].
  - cbn [fst]. apply remove_where_inv. exact H.
  - destruct (find_h h0 (handles m)) as [s|]; [|exact H].
    destruct (issess s); [|exact H].
    match goal with |- context[if ?c then _ else _] => destruct c end; cbn [fst]; repeat apply remove_where_inv; exact H.
  - cbn [fst]. apply remove_where_inv. exact H.
  - cbn [fst]. apply remove_where_inv. exact H.
Qed.

Lemma init_inv : inv init.
Proof. split; [intros h []|constructor]. Qed.

Lemma run_inv xs : forall m, inv m -> inv (run m xs).
Proof. induction xs as [|x r IH]; intros m H; [exact H|]. cbn [run]. apply IH. apply step_inv. exact H. Qed.

Lemma run_ctr xs : forall m, ctr m <= ctr (run m xs).
Proof.
  induction xs as [|x r IH]; intros m; cbn [run]; [lia|]. specialize (IH (fst (step m x))). pose proof (step_ctr m x). lia.
Qed.

(* live handle values are pairwise distinct and lie in 1 .. counter, after any calls by any threads in any order *)
Theorem live_handles_distinct : forall xs, NoDup (map eh (handles (run init xs))) /\ bounded (run init xs).
Proof. intros xs. destruct (run_inv xs init init_inv) as [Hb Hn]. split; assumption. Qed.

(* a handle value that has been issued (h <= counter) and is dead stays dead for ever *)
Theorem dead_handle_stays_dead : forall xs m h, h <= ctr m -> ~ live m h -> ~ live (run m xs) h.
Proof.
  induction xs as [|x r IH]; intros m h Hc Hd; [exact Hd|]. cbn [run]. apply IH.
  - pose proof (step_ctr m x). lia.
  - intros H. destruct (step_live m x h H) as [H1|H1]; [exact (Hd H1)|lia].
Qed.

(* ... so no call ever returns it again: whatever a later call returns is 0, or live at that moment, and a dead handle
   is neither *)
Theorem dead_handle_never_returned : forall xs m h x, 0 < h -> h <= ctr m -> ~ live m h ->
  snd (step (run m xs) x) <> h.
Proof.
  intros xs m h x Hp Hc Hd Heq.
  pose proof (dead_handle_stays_dead xs m h Hc Hd) as Hdead.
  pose proof (run_ctr xs m) as Hmono.
  destruct (step_out (run m xs) x) as [H|[H|H]]; rewrite Heq in H; [lia|exact (Hdead H)|lia].
Qed.

(* an object pointer is given a fresh handle only when it has none: the handle returned for a registered object of the
   same slot is the one it already has *)
Theorem registered_object_keeps_handle : forall m slot hs priv o hs' priv',
  snd (step m (AddObject slot hs priv o)) <> 0 ->
  snd (step (fst (step m (AddObject slot hs priv o))) (AddObject slot hs' priv' o)) = snd (step m (AddObject slot hs priv o)).
Proof.
  intros m slot hs priv o hs' priv'. cbn [step].
  destruct (find_o o (objects m)) as [h1|] eqn:Eo.
  - destruct (find_h h1 (handles m)) as [e|] eqn:Eh; [|cbn; congruence].
    destruct (isobj e && (eslot e =? slot)) eqn:Ec; [|cbn; congruence].
    intros _. cbn [fst snd step]. rewrite Eo, Eh, Ec. reflexivity.
  - intros _. cbn [fst snd step objects handles find_o find_h eh]. rewrite !N.eqb_refl. cbn [isobj ekind eslot andb].
    reflexivity.
Qed.

(* non-vacuity: a history in which a handle dies (session 1 closed, its session object 2 with it) and later calls get
   3 and 4, never 1 or 2 again *)
Example life_example :
  let m := run init [AddSession 5 100; AddObject 5 1 false 200; AddSession 6 101; SessionClosed 1] in
  (map eh (handles m), ctr m, snd (step m (AddObject 5 0 false 200)), snd (step m (AddSession 5 102)))
  = ([3], 3, 4, 4).
Proof. vm_compute. reflexivity. Qed.
