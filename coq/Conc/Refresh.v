(* Conc/Refresh.v — the generation protocol by which processes sharing a token directory see each other's committed
   changes (ObjectFile::refresh / Generation::wasUpdated / Generation::sync + update in writeAttributes), at call
   granularity.  One object file: the disk holds (generation, attributes); every process caches what it last read.
     read  p   : Generation::wasUpdated compares the generation at the head of the file with the cached one and reloads
                 on a difference; then the cached attributes are returned
     write p f : under the object's lock: refresh (startTransaction), modify, Generation::sync takes the generation
                 from the FILE, update() adds one, the file is rewritten with the new generation
   (C15) *)
From Coq Require Import List NArith Bool Lia.
Import ListNotations.
Local Open Scope N_scope.

Section Refresh.
  Variable val : Type.

  Record cache := mkCache { c_gen : N; c_val : val }.
  Record world := mkWorld { d_gen : N; d_val : val; caches : list (N * cache) }.   (* process id -> cache *)

  Fixpoint lookup (p : N) (l : list (N * cache)) : option cache :=
    match l with [] => None | (q, c) :: r => if q =? p then Some c else lookup p r end.
  Fixpoint store (p : N) (c : cache) (l : list (N * cache)) : list (N * cache) :=
    match l with [] => [(p, c)] | (q, c0) :: r => if q =? p then (p, c) :: r else (q, c0) :: store p c r end.

  Inductive event := ERead (p : N) | EWrite (p : N) (f : val -> val).

  (* what a process returns for a read: reload iff the generation on disk differs from the cached one (a process
     that never read has no cache and loads) *)
  Definition refreshed (w : world) (p : N) : cache :=
    match lookup p (caches w) with
    | Some c => if c_gen c =? d_gen w then c else mkCache (d_gen w) (d_val w)
    | None => mkCache (d_gen w) (d_val w)
    end.

  Definition step (w : world) (e : event) : world * option val :=
    match e with
    | ERead p => let c := refreshed w p in (mkWorld (d_gen w) (d_val w) (store p c (caches w)), Some (c_val c))
    | EWrite p f =>
        let c := refreshed w p in
        let v := f (c_val c) in
        let g := d_gen w + 1 in                       (* sync: from the file, not from the cache *)
        (mkWorld g v (store p (mkCache g v) (caches w)), None)
    end.

  Fixpoint run (w : world) (es : list event) : world * list (option val) :=
    match es with
    | [] => (w, [])
    | e :: r => let (w1, o) := step w e in let (w2, os) := run w1 r in (w2, o :: os)
    end.

  (* coherence: a cache that carries the disk's generation carries the disk's attributes *)
  Definition coherent (w : world) : Prop :=
    forall p c, lookup p (caches w) = Some c -> c_gen c <= d_gen w /\ (c_gen c = d_gen w -> c_val c = d_val w).

  Lemma lookup_store_same p c l : lookup p (store p c l) = Some c.
  Proof.
    induction l as [|[q c0] r IH]; cbn; [rewrite N.eqb_refl; reflexivity|].
    destruct (q =? p) eqn:E; cbn; [rewrite N.eqb_refl; reflexivity|rewrite E; exact IH].
  Qed.

  Lemma lookup_store_other p q c l : q <> p -> lookup q (store p c l) = lookup q l.
  Proof.
    intros Hne. induction l as [|[r c0] t IH]; cbn.
    - destruct (p =? q) eqn:E; [apply N.eqb_eq in E; congruence|reflexivity].
    - destruct (r =? p) eqn:E.
      + apply N.eqb_eq in E. subst r. cbn. destruct (p =? q) eqn:E2; [apply N.eqb_eq in E2; congruence|reflexivity].
      + cbn. destruct (r =? q); [reflexivity|exact IH].
  Qed.

  Lemma refreshed_fresh w p : coherent w -> c_gen (refreshed w p) = d_gen w /\ c_val (refreshed w p) = d_val w.
  Proof.
    intros H. unfold refreshed. destruct (lookup p (caches w)) as [c|] eqn:E; [|split; reflexivity].
    destruct (c_gen c =? d_gen w) eqn:E2; [|split; reflexivity].
    apply N.eqb_eq in E2. split; [exact E2|]. exact (proj2 (H p c E) E2).
  Qed.

  Lemma step_coherent w e : coherent w -> coherent (fst (step w e)).
  Proof.
    intros H. destruct e as [p|p f]; cbn [step fst]; intros q c Hq; cbn [caches d_gen d_val] in *.
    - destruct (N.eq_dec q p) as [->|Hne].
      + rewrite lookup_store_same in Hq. injection Hq as <-. destruct (refreshed_fresh w p H) as [Hg Hv]. rewrite Hg. split; [lia|intros _; exact Hv].
      + rewrite lookup_store_other in Hq by exact Hne. exact (H q c Hq).
    - destruct (N.eq_dec q p) as [->|Hne].
      + rewrite lookup_store_same in Hq. injection Hq as <-. cbn. split; [lia|reflexivity].
      + rewrite lookup_store_other in Hq by exact Hne. destruct (H q c Hq) as [Hle _]. split; [lia|intros Heq; lia].
  Qed.

  (* every read returns what is committed on disk at that moment, whoever wrote it and whatever the reader cached *)
  Theorem read_returns_committed w p : coherent w -> snd (step w (ERead p)) = Some (d_val w).
  Proof. intros H. cbn. f_equal. exact (proj2 (refreshed_fresh w p H)). Qed.

  (* a write applies its change to the committed value, not to a stale cached one: no update is lost *)
  Theorem write_applies_to_committed w p f : coherent w -> d_val (fst (step w (EWrite p f))) = f (d_val w).
  Proof. intros H. cbn. f_equal. exact (proj2 (refreshed_fresh w p H)). Qed.

  Lemma run_coherent es : forall w, coherent w -> coherent (fst (run w es)).
  Proof.
    induction es as [|e r IH]; intros w H; [exact H|].
    cbn [run]. destruct (step w e) as [w1 o] eqn:E. destruct (run w1 r) as [w2 os] eqn:E2. cbn [fst].
    change w2 with (fst (w2, os)). rewrite <- E2. apply IH. change w1 with (fst (w1, o)). rewrite <- E. apply step_coherent. exact H.
  Qed.

  Definition initial (v : val) : world := mkWorld 0 v [].
  Lemma initial_coherent v : coherent (initial v).
  Proof. intros p c H. discriminate H. Qed.

  (* along every interleaving of calls of any number of processes: a read that follows the history returns the
     committed value *)
  Theorem reads_see_committed v es p :
    let w := fst (run (initial v) es) in snd (step w (ERead p)) = Some (d_val w).
  Proof. cbn zeta. apply read_returns_committed. apply run_coherent. apply initial_coherent. Qed.

  (* the committed value is the fold of the writes in call order: nothing lost, nothing duplicated *)
  Fixpoint writes (es : list event) (v : val) : val :=
    match es with [] => v | ERead _ :: r => writes r v | EWrite _ f :: r => writes r (f v) end.
  Theorem committed_is_fold es : forall w, coherent w -> d_val (fst (run w es)) = writes es (d_val w).
  Proof.
    induction es as [|e r IH]; intros w H; [reflexivity|].
    cbn [run]. destruct (step w e) as [w1 o] eqn:E. destruct (run w1 r) as [w2 os] eqn:E2. cbn [fst].
    assert (Hc : coherent w1) by (change w1 with (fst (w1, o)); rewrite <- E; apply step_coherent; exact H).
    change w2 with (fst (w2, os)). rewrite <- E2. rewrite (IH w1 Hc).
    destruct e as [p|p f]; cbn [writes].
    - cbn in E. injection E as <- _. reflexivity.
    - f_equal. change w1 with (fst (w1, o)). rewrite <- E. apply write_applies_to_committed. exact H.
  Qed.

  (* ---- why Generation::sync matters: a writer that numbers its write from its CACHED generation ------------------ *)
  Definition step_nosync (w : world) (e : event) : world * option val :=
    match e with
    | ERead p => step w e
    | EWrite p f =>
        let c := match lookup p (caches w) with Some c => c | None => mkCache (d_gen w) (d_val w) end in
        let v := f (c_val c) in
        let g := c_gen c + 1 in
        (mkWorld g v (store p (mkCache g v) (caches w)), None)
    end.

  (* ---- file-operation granularity: the real C_SetAttributeValue refreshes (isValid) BEFORE it takes the object's
     transaction lock and commits from that copy; another process may commit in between ------------------------------- *)
  Definition begin_write (w : world) (p : N) : cache := refreshed w p.
  Definition commit_write (w : world) (p : N) (c : cache) (f : val -> val) : world :=
    let v := f (c_val c) in
    let g := d_gen w + 1 in
    mkWorld g v (store p (mkCache g v) (caches w)).
End Refresh.

(* two processes that both cached generation 0 write one after the other: both files carry generation 1, and the
   first writer keeps returning its own, overwritten value *)
Example nosync_serves_stale :
  let w0 := initial N 10 in
  let w1 := fst (step N w0 (ERead N 1)) in
  let w2 := fst (step N w1 (ERead N 2)) in
  let w3 := fst (step_nosync N w2 (EWrite N 1 (fun _ => 11))) in
  let w4 := fst (step_nosync N w3 (EWrite N 2 (fun _ => 12))) in
  (d_val N w4, snd (step N w4 (ERead N 1))) = (12, Some 11).
Proof. vm_compute. reflexivity. Qed.

(* with the sync the same history is coherent *)
Example sync_serves_fresh :
  let w0 := initial N 10 in
  let w1 := fst (step N w0 (ERead N 1)) in
  let w2 := fst (step N w1 (ERead N 2)) in
  let w3 := fst (step N w2 (EWrite N 1 (fun _ => 11))) in
  let w4 := fst (step N w3 (EWrite N 2 (fun _ => 12))) in
  (d_val N w4, snd (step N w4 (ERead N 1))) = (12, Some 12).
Proof. vm_compute. reflexivity. Qed.

(* two processes change different components (label, id) of one object; A took its copy, B commits, A commits:
   both calls succeed, B's committed change is gone *)
Example split_write_loses_update :
  let w0 := initial (N * N) (1, 1) in
  let ca := begin_write (N * N) w0 1 in
  let w1 := fst (step (N * N) w0 (EWrite (N * N) 2 (fun v => (2, snd v)))) in          (* B: label := 2 *)
  let w2 := commit_write (N * N) w1 1 ca (fun v => (fst v, 5)) in                       (* A: id := 5, from its stale copy *)
  (d_val (N * N) w1, d_val (N * N) w2) = ((2, 1), (1, 5)).
Proof. vm_compute. reflexivity. Qed.
