(* Conc/HandleLifeFacts.v — handles die EXACTLY with what they denote, for the whole HandleManager model (HandleLife.v):
   each erasing method removes precisely the entries its rule names and keeps every other entry unchanged. (C11 / C18) *)
From Coq Require Import List NArith Bool Lia.
From SoftHSM Require Import HandleLife.
Import ListNotations.
Local Open Scope N_scope.

Lemma remove_where_exact p m e : In e (handles (remove_where p m)) <-> In e (handles m) /\ p e = false.
Proof.
  unfold remove_where. cbn [handles]. rewrite filter_In. split; intros [H1 H2]; (split; [exact H1|]).
  - destruct (p e); [discriminate|reflexivity].
  - rewrite H2. reflexivity.
Qed.

(* C_DestroyObject: exactly the object entry with that handle goes; sessions with the same number are not touched *)
Theorem destroy_exact : forall m h e,
  In e (handles (fst (step m (DestroyObject h)))) <-> In e (handles m) /\ ((eh e =? h) && isobj e = false).
Proof. intros m h e. cbn [step fst]. apply remove_where_exact. Qed.

(* C_Logout: exactly the private object entries of that slot go *)
Theorem logout_exact : forall m slot e,
  In e (handles (fst (step m (TokenLoggedOut slot)))) <-> In e (handles m) /\ (isobj e && (eslot e =? slot) && epriv e = false).
Proof. intros m slot e. cbn [step fst]. apply remove_where_exact. Qed.

(* C_CloseAllSessions: exactly the entries of that slot go; other slots keep everything *)
Theorem all_closed_exact : forall m slot e,
  In e (handles (fst (step m (AllSessionsClosed slot)))) <-> In e (handles m) /\ (eslot e =? slot) = false.
Proof. intros m slot e. cbn [step fst]. apply remove_where_exact. Qed.

Theorem other_slot_untouched : forall m slot e, eslot e <> slot ->
  (In e (handles (fst (step m (AllSessionsClosed slot)))) <-> In e (handles m)) /\
  (In e (handles (fst (step m (TokenLoggedOut slot)))) <-> In e (handles m)).
Proof.
  intros m slot e Hne. apply N.eqb_neq in Hne. split.
  - rewrite all_closed_exact. rewrite Hne. tauto.
  - rewrite logout_exact. rewrite Hne. rewrite andb_false_r. cbn. tauto.
Qed.

(* C_CloseSession of a live session: the session itself and every session object created through it are gone *)
Theorem session_closed_kills_its_objects : forall m h s e,
  find_h h (handles m) = Some s -> issess s = true ->
  In e (handles (fst (step m (SessionClosed h)))) -> ~ (isobj e = true /\ esess e = h) /\ ~ (issess e = true /\ eh e = h).
Proof.
  intros m h s e Hs Hk. cbn [step]. rewrite Hs, Hk.
  match goal with |- context[if ?c then _ else _] => destruct c end; cbn [fst]; intros H.
  - apply remove_where_exact in H. destruct H as [_ H]. apply orb_false_iff in H. destruct H as [Ha Hb].
    split; intros [H1 H2].
    + rewrite H1 in Hb. cbn in Hb. apply N.eqb_neq in Hb. exact (Hb H2).
    + rewrite H1, andb_true_r in Ha. apply N.eqb_neq in Ha. exact (Ha H2).
  - apply remove_where_exact in H. destruct H as [H _]. apply remove_where_exact in H. destruct H as [_ H].
    apply orb_false_iff in H. destruct H as [Ha Hb].
    split; intros [H1 H2].
    + rewrite H1 in Hb. cbn in Hb. apply N.eqb_neq in Hb. exact (Hb H2).
    + rewrite H1, andb_true_r in Ha. apply N.eqb_neq in Ha. exact (Ha H2).
Qed.

(* ... and while another session of the token stays open, nothing else goes *)
Theorem session_closed_keeps_the_rest : forall m h s e,
  find_h h (handles m) = Some s -> issess s = true ->
  existsb (fun e' => issess e' && (eslot e' =? eslot s))
          (handles (remove_where (fun e' => ((eh e' =? h) && issess e') || (isobj e' && (esess e' =? h))) m)) = true ->
  In e (handles m) -> ((eh e =? h) && issess e) || (isobj e && (esess e =? h)) = false ->
  In e (handles (fst (step m (SessionClosed h)))).
Proof.
  intros m h s e Hs Hk Hopen Hin Hp. cbn [step]. rewrite Hs, Hk, Hopen. cbn [fst]. apply remove_where_exact. split; assumption.
Qed.

(* a call on a handle that is not a session handle changes nothing *)
Theorem session_closed_unknown_noop : forall m h, find_h h (handles m) = None -> fst (step m (SessionClosed h)) = m.
Proof. intros m h H. cbn [step]. rewrite H. reflexivity. Qed.

(* "one handle per object" does NOT hold of the manager for an object pointer that is presented under two slots: the
   mismatch branch erases only the pointer's entry in `objects`, the pointer is then registered afresh, and destroying the
   OLD handle erases the NEW mapping (objects.erase is by pointer), so the next registration issues a third handle while
   the second is still live.  The same sequence run on the compiled class (harness/hmdrv: `t 5 0 200 t 6 0 200 t 6 0 200
   d 1 t 6 0 200`) prints `rv 1 0 2 0 3 live 2 3`.  The library's callers present a pointer under one slot only, so this
   needs the allocator to reuse the address of a freed object of another token; recorded as an observation. *)
Example one_handle_per_object_refuted_across_slots :
  let xs := [AddObject 5 0 false 200; AddObject 6 0 false 200; AddObject 6 0 false 200; DestroyObject 1] in
  let m := run init xs in
  (snd (step m (AddObject 6 0 false 200)),
   map (fun e => (eh e, eslot e, eobj e)) (handles (fst (step m (AddObject 6 0 false 200)))))
  = (3, [(3, 6, 200); (2, 6, 200)]).
Proof. vm_compute. reflexivity. Qed.
