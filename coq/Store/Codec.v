(* Store/Codec.v — byte-level model of the SoftHSMv2 object-file format (definitions only).

   Models (read side)   ObjectFile::refresh           src/lib/object_store/ObjectFile.cpp:284-518
                        File::readULong/readBool/readByteString/readMechanismTypeSet/readAttributeMap
                                                      src/lib/object_store/File.cpp:198-399
          (write side)  ObjectFile::writeAttributes   ObjectFile.cpp:522-659
                        File::writeULong/writeBool/writeByteString/writeMechanismTypeSet/writeAttributeMap
                                                      File.cpp:425-622
                        ByteString(unsigned long), ByteString::long_val, ByteString::serialise
                                                      src/lib/data_mgr/ByteString.cpp:82-107,239-251,373-378

   Object file layout (all integers are 8-byte big-endian "ulong"):

     file      ::= ulong(generation) attr*
     attr      ::= ulong(CKA type) ulong(kind) value
     kind      ::= 1 BOOLEAN_ATTR | 2 ULONG_ATTR | 3 BYTESTR_ATTR | 4 ATTRMAP_ATTR | 5 MECHSET_ATTR
     value/1   ::= one byte: 0xFF (true) / 0x00 (false) on write; any non-zero byte reads as true
     value/2   ::= ulong
     value/3   ::= ulong(n) byte^n
     value/5   ::= ulong(count) ulong^count
     value/4   ::= ulong(len) entry*          len = sum over entries of 16 + payload size
     entry     ::= ulong(CKA type) ulong(akKind) payload
     akKind    ::= 1 akBoolean (payload 1 byte) | 2 akInteger (8) | 3 akBinary (8+n) | 5 akMechSet (8+8*count)
                   (4 = akAttrMap is NOT accepted inside a map, neither by the writer nor by the reader)

   Proofs about these definitions are in Store/CodecFacts.v. *)
From Coq Require Import List NArith Bool.
From SoftHSM Require Import Defs.
Import ListNotations.
Local Open Scope N_scope.

(* ---- codec-level values (no symbolic-encryption field) ---------------------------------------- *)
(* Inside an attribute map File::writeAttributeMap / File::readAttributeMap accept four kinds
   (boolean, integer, binary AND mechanism set — File.cpp:376-391, 589-602), so [MMechs] is part
   of [cmapval] although P11/Defs.v's [sattr] (what the PKCS#11 layer ever puts there) has only
   the first three; see [sattr_of_cmapval] below. *)
Inductive cmapval :=
| MBool (b : bool)
| MULong (n : N)
| MBytes (b : bytes)
| MMechs (l : list N).

Inductive cval :=
| CBool (b : bool)
| CULong (n : N)
| CBytes (b : bytes)
| CMechs (l : list N)
| CMap (l : list (N * cmapval)).

Definition cobj := list (N * cval).

(* ---- constants ------------------------------------------------------------------------------ *)
(* UNSURE: (platform) unsigned long is taken to be 64 bit (LP64).  On an ILP32/LLP64 build the
   file format is the same (always 8 bytes) but long_val() keeps only the low 32 bits. *)
Definition two64 : N := 18446744073709551616.        (* 2^64 *)

Definition BOOLEAN_ATTR : N := 1.                     (* ObjectFile.cpp:45-49 *)
Definition ULONG_ATTR   : N := 2.
Definition BYTESTR_ATTR : N := 3.
Definition ATTRMAP_ATTR : N := 4.
Definition MECHSET_ATTR : N := 5.

Definition akBoolean : N := 1.                        (* enum AttributeKind, File.cpp:54-61 *)
Definition akInteger : N := 2.
Definition akBinary  : N := 3.
Definition akAttrMap : N := 4.                        (* never written / never accepted *)
Definition akMechSet : N := 5.

(* ---- 8-byte big-endian integers ---------------------------------------------------------------- *)
(* ByteString::ByteString(unsigned long): byte i (0 = first) is (v >> 8*(7-i)) & 0xFF. *)
Definition be8 (n : N) : bytes :=
  [ (n / 72057594037927936) mod 256;                  (* 2^56 *)
    (n / 281474976710656) mod 256;                    (* 2^48 *)
    (n / 1099511627776) mod 256;                      (* 2^40 *)
    (n / 4294967296) mod 256;                         (* 2^32 *)
    (n / 16777216) mod 256;                           (* 2^24 *)
    (n / 65536) mod 256;                              (* 2^16 *)
    (n / 256) mod 256;
    n mod 256 ].

(* ByteString::long_val: rv = (rv << 8) + byte, over the bytes given (File::readULong always
   passes exactly 8 bytes, each < 256, so the C++ accumulator cannot overflow). *)
Definition be8_decode (b : bytes) : N :=
  fold_left (fun acc x => acc * 256 + x) b 0.

(* ---- writer --------------------------------------------------------------------------------- *)
Definition enc_bool (b : bool) : bytes := [if b then 255 else 0].        (* File::writeBool *)

Definition enc_bytes (b : bytes) : bytes := be8 (blen b) ++ b.          (* ByteString::serialise *)

Definition enc_mechs (l : list N) : bytes :=                            (* File::writeMechanismTypeSet *)
  be8 (N.of_nat (length l)) ++ flat_map be8 l.

(* File::writeAttributeMap, first loop: the byte length of the entries *)
Definition mapval_size (v : cmapval) : N :=
  match v with
  | MBool _ => 1
  | MULong _ => 8
  | MBytes b => 8 + blen b
  | MMechs l => 8 + N.of_nat (length l) * 8
  end.

Fixpoint map_size (l : list (N * cmapval)) : N :=
  match l with
  | [] => 0
  | (_, v) :: r => 8 + 8 + mapval_size v + map_size r
  end.

Definition mapval_kind (v : cmapval) : N :=
  match v with
  | MBool _ => akBoolean
  | MULong _ => akInteger
  | MBytes _ => akBinary
  | MMechs _ => akMechSet
  end.

Definition enc_mapval_payload (v : cmapval) : bytes :=
  match v with
  | MBool b => enc_bool b
  | MULong n => be8 n
  | MBytes b => enc_bytes b
  | MMechs l => enc_mechs l
  end.

Definition enc_map_entry (p : N * cmapval) : bytes :=
  be8 (fst p) ++ be8 (mapval_kind (snd p)) ++ enc_mapval_payload (snd p).

Definition enc_map_entries (l : list (N * cmapval)) : bytes := flat_map enc_map_entry l.

(* the C++ accumulates [len] in an unsigned long; [be8] reduces modulo 2^64 in the same way *)
Definition enc_map (l : list (N * cmapval)) : bytes :=
  be8 (map_size l) ++ enc_map_entries l.

Definition val_kind (v : cval) : N :=
  match v with
  | CBool _ => BOOLEAN_ATTR
  | CULong _ => ULONG_ATTR
  | CBytes _ => BYTESTR_ATTR
  | CMechs _ => MECHSET_ATTR
  | CMap _ => ATTRMAP_ATTR
  end.

Definition enc_val_payload (v : cval) : bytes :=
  match v with
  | CBool b => enc_bool b
  | CULong n => be8 n
  | CBytes b => enc_bytes b
  | CMechs l => enc_mechs l
  | CMap l => enc_map l
  end.

Definition enc_attr (p : N * cval) : bytes :=
  be8 (fst p) ++ be8 (val_kind (snd p)) ++ enc_val_payload (snd p).

Definition encode_attrs (o : cobj) : bytes := flat_map enc_attr o.

(* ObjectFile::writeAttributes: generation number, then the attributes in the iteration order of
   std::map<CK_ATTRIBUTE_TYPE, OSAttribute*>, i.e. ascending attribute type.  [encode_obj] emits
   the attributes in LIST order; it is the image of the C++ writer exactly when the list is in
   canonical form ([canon_obj] below: strictly ascending keys at both levels, strictly ascending
   mechanism lists).  NULL map slots (ObjectFile.cpp:560) are skipped by the C++ and simply do not
   occur in a [cobj]. *)
Definition encode_obj (gen : N) (o : cobj) : bytes := be8 gen ++ encode_attrs o.

(* ---- reader: the File::read* primitives --------------------------------------------------------- *)
(* Every reader returns the value and the unread rest of the file, or None where the C++ function
   returns false. *)

(* File::readULong: fread of exactly 8 bytes, fails on a short read *)
Definition read_ulong (b : bytes) : option (N * bytes) :=
  match b with
  | b0 :: b1 :: b2 :: b3 :: b4 :: b5 :: b6 :: b7 :: r =>
      Some (be8_decode [b0; b1; b2; b3; b4; b5; b6; b7], r)
  | _ => None
  end.

(* File::readBool: any non-zero byte is true *)
Definition read_bool (b : bytes) : option (bool * bytes) :=
  match b with
  | x :: r => Some (negb (x =? 0), r)
  | [] => None
  end.

(* File::readByteString: length, then fread of that many bytes (fails on a short read). *)
(* UNSURE: before the fread the C++ does value.resize(len) with the length taken from the file
   (File.cpp:231).  For a length that is larger than the rest of the file this model answers None
   ("object invalid").  That is what the real library does when the allocation succeeds and the
   fread comes back short (checked on the /repo build: length field 1000 with 2 bytes following
   -> the object is dropped).  For a large length the real code never gets that far: the
   resize throws (std::length_error / std::bad_alloc), nothing on the refresh path catches it
   and the process dies — checked on the /repo build with length fields 2^40, 2^62 and 2^64-1:
   the host process exits with status 5 inside C_Initialize/C_FindObjects.  This is finding F10
   of the design notes; the crash is NOT modelled here (None is returned). *)
Definition read_bytes (b : bytes) : option (bytes * bytes) :=
  match read_ulong b with
  | None => None
  | Some (len, r) =>
      if len <=? blen r
      then Some (firstn (N.to_nat len) r, skipn (N.to_nat len) r)
      else None
  end.

Fixpoint read_ulongs (n : nat) (b : bytes) : option (list N * bytes) :=
  match n with
  | O => Some ([], b)
  | S k =>
      match read_ulong b with
      | None => None
      | Some (x, r) =>
          match read_ulongs k r with
          | None => None
          | Some (l, r') => Some (x :: l, r')
          end
      end
  end.

(* File::readMechanismTypeSet: count, then count ulongs; the C++ loop fails at the first short
   read, i.e. exactly when 8*count exceeds what is left — tested up front here so that the
   recursion can be structural on the (then small) count.  The values are returned in FILE order;
   the C++ inserts them in a std::set (see [norm_set]). *)
Definition read_mechs (b : bytes) : option (list N * bytes) :=
  match read_ulong b with
  | None => None
  | Some (count, r) =>
      if count * 8 <=? blen r then read_ulongs (N.to_nat count) r else None
  end.

(* one payload inside an attribute map: value, the size the C++ subtracts from [len], rest.
   For a mechanism set the C++ subtracts 8 + val.size()*8 where val is the std::set that was
   built, i.e. duplicates in the file are counted once (File.cpp:383-387). *)
Definition read_mapval (kind : N) (b : bytes) : option (cmapval * N * bytes) :=
  if kind =? akBoolean then
    match read_bool b with
    | None => None
    | Some (v, r) => Some (MBool v, 1, r)
    end
  else if kind =? akInteger then
    match read_ulong b with
    | None => None
    | Some (v, r) => Some (MULong v, 8, r)
    end
  else if kind =? akBinary then
    match read_bytes b with
    | None => None
    | Some (v, r) => Some (MBytes v, 8 + blen v, r)
    end
  else if kind =? akMechSet then
    match read_mechs b with
    | None => None
    | Some (l, r) => Some (MMechs l, 8 + N.of_nat (length (nodup N.eq_dec l)) * 8, r)
    end
  else None.

(* File::readAttributeMap, the [while (len != 0)] loop.  [fuel] bounds the number of entries
   (every entry consumes at least 17 bytes of the file, so the number of bytes left is ample).
   The C++ reads first and compares against [len] afterwards; both failures return false, so the
   order is immaterial. *)
(* UNSURE: the comparisons [8 + val.size() > len] are done in unsigned long arithmetic in C++;
   here they are done in N without wrap-around.  They differ only for a payload of at least
   2^64-8 bytes, i.e. never for a file that fits a 64-bit address space. *)
Fixpoint read_map_entries (fuel : nat) (len : N) (b : bytes)
  : option (list (N * cmapval) * bytes) :=
  if len =? 0 then Some ([], b) else
  match fuel with
  | O => None
  | S f =>
      match read_ulong b with
      | None => None
      | Some (ty, b1) =>
          if len <? 8 then None else
          match read_ulong b1 with
          | None => None
          | Some (kind, b2) =>
              if len - 8 <? 8 then None else
              match read_mapval kind b2 with
              | None => None
              | Some (v, sz, b3) =>
                  if len - 16 <? sz then None else
                  match read_map_entries f (len - 16 - sz) b3 with
                  | None => None
                  | Some (l, r) => Some ((ty, v) :: l, r)
                  end
              end
          end
      end
  end.

(* File::readAttributeMap.  Entries are returned in FILE order; the C++ does
   value.insert(pair) on a std::map, i.e. for a repeated key the FIRST entry wins
   (see [norm_first]). *)
Definition read_map (b : bytes) : option (list (N * cmapval) * bytes) :=
  match read_ulong b with
  | None => None
  | Some (len, r) => read_map_entries (length r) len r
  end.

(* the value part of a top-level attribute, ObjectFile.cpp:392-512 *)
Definition read_val (kind : N) (b : bytes) : option (cval * bytes) :=
  if kind =? BOOLEAN_ATTR then
    match read_bool b with None => None | Some (v, r) => Some (CBool v, r) end
  else if kind =? ULONG_ATTR then
    match read_ulong b with None => None | Some (v, r) => Some (CULong v, r) end
  else if kind =? BYTESTR_ATTR then
    match read_bytes b with None => None | Some (v, r) => Some (CBytes v, r) end
  else if kind =? MECHSET_ATTR then
    match read_mechs b with None => None | Some (v, r) => Some (CMechs v, r) end
  else if kind =? ATTRMAP_ATTR then
    match read_map b with None => None | Some (v, r) => Some (CMap v, r) end
  else None.

(* ---- reader: ObjectFile::refresh ---------------------------------------------------------------- *)
(* The attribute loop, ObjectFile.cpp:360-513:

     while (!objectFile.isEOF()) {
        if (!readULong(p11AttrType)) { if (isEOF()) break; else invalid }
        if (!readULong(osAttrType))  invalid
        ... read the value, any failure => invalid, unknown osAttrType => invalid
     }
     valid = true

   feof() only becomes true after a read that hit the end of the file, so after the last complete
   attribute the loop is entered once more, the 8-byte fread of the attribute type comes back
   short (0..7 bytes), feof() is now true and the loop is left with valid = true.  Hence:
     - 0 bytes left: normal end;
     - 1..7 stray bytes left: SILENTLY IGNORED, the object is valid;
     - 8 or more bytes left: an attribute type was read, everything after it must be complete,
       a truncation anywhere later invalidates the object.
   A failing read that is not at EOF (an I/O error) also invalidates the object; I/O errors are
   not modelled. *)
(* UNSURE: if some C library set the EOF indicator already on a read that consumed exactly the last
   byte, the loop would end one iteration earlier with the same result, so the model does not
   depend on it (glibc and musl only set it on a read that returns 0 bytes).  The acceptance
   rule was checked against the /repo build (glibc) on a 777-byte object file: cuts 0..7 bytes
   past an attribute boundary and up to 7 appended stray bytes load, cuts 8 or more bytes into
   an attribute and 8 appended bytes do not (see real_file in CodecFacts.v). *)
(* Attributes are returned in FILE order; the C++ stores them with attributes[type] = new ..., i.e.
   for a repeated type the LAST one wins (see [norm_last]).  [fuel] bounds the number of
   attributes (each consumes at least 16 bytes). *)
Fixpoint decode_attrs (fuel : nat) (b : bytes) : option cobj :=
  match read_ulong b with
  | None => Some []
  | Some (ty, b1) =>
      match fuel with
      | O => None
      | S f =>
          match read_ulong b1 with
          | None => None
          | Some (kind, b2) =>
              match read_val kind b2 with
              | None => None
              | Some (v, b3) =>
                  match decode_attrs f b3 with
                  | None => None
                  | Some o => Some ((ty, v) :: o)
                  end
              end
          end
      end
  end.

(* The three outcomes of ObjectFile::refresh on a file with the given contents. *)
Inductive refresh_result :=
| RUnchanged                          (* empty file: refresh returns before touching anything
                                         (ObjectFile.cpp:322-329); [valid], the attributes and the
                                         generation keep their previous values — for a freshly
                                         constructed ObjectFile that is valid = true, no attributes *)
| RInvalid                            (* valid = false *)
| RValid (g : option N) (o : cobj).   (* valid = true; g = None: the generation was not read
                                         (file of 1..7 bytes, ObjectFile.cpp:341-353: readULong fails
                                         at EOF, which is tolerated) and keeps its previous value *)

Definition refresh_file (b : bytes) : refresh_result :=
  match b with
  | [] => RUnchanged
  | _ :: _ =>
      match read_ulong b with
      | None => RValid None []
      | Some (g, r) =>
          match decode_attrs (length r) r with
          | None => RInvalid
          | Some o => RValid (Some g) o
          end
      end
  end.

(* [decode_obj]: generation and attributes of a file from which a generation could be read.
   None = the C++ marks the object invalid, OR the file is shorter than 8 bytes.  In the latter
   case the C++ does NOT invalidate the object (see [refresh_file]: RUnchanged / RValid None []),
   but there is no generation number to return; [decode_obj_None] in CodecFacts.v states this
   precisely. *)
Definition decode_obj (b : bytes) : option (N * cobj) :=
  match refresh_file b with
  | RValid (Some g) o => Some (g, o)
  | _ => None
  end.

(* ---- what the writer accepts ------------------------------------------------------------------- *)
Definition u64_ok (n : N) : bool := n <? two64.
Definition byte_ok (x : N) : bool := x <? 256.
Definition bytes_ok (b : bytes) : bool := forallb byte_ok b && u64_ok (blen b).
Definition mechs_ok (l : list N) : bool := forallb u64_ok l && u64_ok (N.of_nat (length l)).

Fixpoint nodupb (l : list N) : bool :=
  match l with
  | [] => true
  | x :: r => negb (nmem x r) && nodupb r
  end.

(* A mechanism set inside a map must not repeat a value (it is a std::set in C++; with a repeated
   value the reader's length accounting, which counts distinct values, would disagree with the
   bytes written).  Nothing else about ordering is needed for the round trip. *)
Definition wf_mapval (v : cmapval) : bool :=
  match v with
  | MBool _ => true
  | MULong n => u64_ok n
  | MBytes b => bytes_ok b
  | MMechs l => mechs_ok l && nodupb l
  end.

Definition wf_map (l : list (N * cmapval)) : bool :=
  forallb (fun p => u64_ok (fst p) && wf_mapval (snd p)) l && u64_ok (map_size l).

Definition wf_val (v : cval) : bool :=
  match v with
  | CBool _ => true
  | CULong n => u64_ok n
  | CBytes b => bytes_ok b
  | CMechs l => mechs_ok l
  | CMap l => wf_map l
  end.

Definition wf_attr (p : N * cval) : bool := u64_ok (fst p) && wf_val (snd p).

Definition wf_obj (o : cobj) : bool := forallb wf_attr o.

(* ---- the std::map / std::set view of a decoded object ---------------------------------------------- *)
(* The readers above return lists in file order.  The C++ containers sort and deduplicate. *)
Section Norm.
  Context {A : Type}.
  (* sorted insert; an existing binding for k is KEPT *)
  Fixpoint ins_keep (k : N) (v : A) (l : list (N * A)) : list (N * A) :=
    match l with
    | [] => [(k, v)]
    | (k', v') :: r =>
        if k <? k' then (k, v) :: l
        else if k =? k' then l
        else (k', v') :: ins_keep k v r
    end.
  (* sorted insert; an existing binding for k is REPLACED *)
  Fixpoint ins_over (k : N) (v : A) (l : list (N * A)) : list (N * A) :=
    match l with
    | [] => [(k, v)]
    | (k', v') :: r =>
        if k <? k' then (k, v) :: l
        else if k =? k' then (k, v) :: r
        else (k', v') :: ins_over k v r
    end.
  (* processing the list from the right: the later binding is inserted first *)
  Definition norm_last (l : list (N * A)) : list (N * A) :=     (* m[k] = v in file order *)
    fold_right (fun p acc => ins_keep (fst p) (snd p) acc) [] l.
  Definition norm_first (l : list (N * A)) : list (N * A) :=    (* m.insert({k,v}) in file order *)
    fold_right (fun p acc => ins_over (fst p) (snd p) acc) [] l.
  Fixpoint keys_ascending (l : list (N * A)) : bool :=
    match l with
    | [] => true
    | (k, _) :: r =>
        match r with
        | [] => true
        | (k', _) :: _ => (k <? k') && keys_ascending r
        end
    end.
End Norm.

Fixpoint set_ins (x : N) (l : list N) : list N :=
  match l with
  | [] => [x]
  | y :: r => if x <? y then x :: l else if x =? y then l else y :: set_ins x r
  end.
Definition norm_set (l : list N) : list N := fold_right set_ins [] l.
Fixpoint ascending (l : list N) : bool :=
  match l with
  | [] => true
  | x :: r => match r with [] => true | y :: _ => (x <? y) && ascending r end
  end.

Definition view_mapval (v : cmapval) : cmapval :=
  match v with MMechs l => MMechs (norm_set l) | _ => v end.
Definition view_val (v : cval) : cval :=
  match v with
  | CMechs l => CMechs (norm_set l)
  | CMap l => CMap (norm_first (map (fun p => (fst p, view_mapval (snd p))) l))
  | _ => v
  end.
(* what ObjectFile holds in memory after refresh: *)
Definition view_obj (o : cobj) : cobj :=
  norm_last (map (fun p => (fst p, view_val (snd p))) o).

(* canonical form = the iteration order of the C++ containers = what the writer emits *)
Definition canon_mapval (v : cmapval) : bool :=
  match v with MMechs l => ascending l | _ => true end.
Definition canon_val (v : cval) : bool :=
  match v with
  | CMechs l => ascending l
  | CMap l => keys_ascending l && forallb (fun p => canon_mapval (snd p)) l
  | _ => true
  end.
Definition canon_obj (o : cobj) : bool :=
  keys_ascending o && forallb (fun p => canon_val (snd p)) o.

(* ---- link with the P11 model's attribute values ------------------------------------------------- *)
Definition cmapval_of_sattr (s : sattr) : cmapval :=
  match s with SBool b => MBool b | SULong n => MULong n | SBytes b => MBytes b end.
Definition sattr_of_cmapval (m : cmapval) : option sattr :=
  match m with
  | MBool b => Some (SBool b) | MULong n => Some (SULong n) | MBytes b => Some (SBytes b)
  | MMechs _ => None
  end.
(* A symbolic ciphertext [ABytes (Some k) pt] has no byte representation at this level. *)
Definition cval_of_osattr (a : osattr) : option cval :=
  match a with
  | ABool b => Some (CBool b)
  | AULong n => Some (CULong n)
  | ABytes None b => Some (CBytes b)
  | ABytes (Some _) _ => None
  | AMechs l => Some (CMechs l)
  | AMap l => Some (CMap (map (fun p => (fst p, cmapval_of_sattr (snd p))) l))
  end.
