(* Store/SafeFacts.v — the file reader never takes more than the file holds (C17, index safety of the codec model) *)
From Coq Require Import List NArith ZArith Bool Lia Zify ZifyBool ZifyN.
From SoftHSM Require Import Defs Codec CodecFacts.
Import ListNotations.
Local Open Scope N_scope.

(* File::readByteString: the value and the rest partition what follows the 8-byte length; a length that exceeds the
   rest of the file is a read failure, never an allocation or a read beyond the end *)
Theorem read_bytes_within : forall b v r,
  read_bytes b = Some (v, r) -> (length b = 8 + length v + length r)%nat /\ v ++ r = skipn 8 b.
Proof.
  intros b v r H. unfold read_bytes in H.
  destruct (read_ulong b) as [[len r0]|] eqn:E; [|discriminate H].
  destruct (len <=? blen r0) eqn:E2; [|discriminate H].
  injection H as Hv Hr. subst v r.
  pose proof (read_ulong_Some_length b len r0 E) as HL.
  rewrite firstn_skipn. split.
  - rewrite <- (firstn_skipn (N.to_nat len) r0) in HL at 1. rewrite app_length in HL. lia.
  - do 8 (destruct b as [|? b]; [discriminate E|]). unfold read_ulong in E. injection E as _ Hr. subst r0. reflexivity.
Qed.

Theorem read_bytes_too_long_rejected : forall len r, len < 2 ^ 64 -> blen r < len -> read_bytes (be8 len ++ r) = None.
Proof.
  intros len r Hl Hlt. unfold read_bytes. rewrite (read_ulong_be8 len r Hl).
  destruct (len <=? blen r) eqn:E; [apply N.leb_le in E; lia|reflexivity].
Qed.

(* every byte content of an object file gets a verdict: the decoder is a total function with three outcomes *)
Theorem every_file_gets_a_verdict : forall b : bytes,
  refresh_file b = RUnchanged \/ refresh_file b = RInvalid \/ exists g o, refresh_file b = RValid g o.
Proof. intros b. destruct (refresh_file b) as [| |g o]; [left|right; left|right; right; exists g, o]; reflexivity. Qed.
