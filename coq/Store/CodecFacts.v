(* Store/CodecFacts.v — proofs about the object-file codec of Store/Codec.v. *)
From Coq Require Import List NArith ZArith Bool Lia Zify ZifyBool ZifyN.
From SoftHSM Require Import Defs Codec.
Import ListNotations.
Local Open Scope N_scope.

Arguments be8 : simpl never.
Arguments be8_decode : simpl never.
Arguments read_ulong : simpl never.

(* ---- 8-byte big-endian integers ---------------------------------------------------------------- *)
Lemma be8_length : forall n, length (be8 n) = 8%nat.
Proof. reflexivity. Qed.

(* q = 256 * (q / 256) + q mod 256, with the quotient and the remainder abstracted *)
Local Ltac divmod256 q d m Hq Hm :=
  pose proof (N.div_mod' q 256) as Hq;
  pose proof (N.mod_lt q 256 ltac:(discriminate)) as Hm;
  set (d := q / 256) in *; set (m := q mod 256) in *; clearbody m.

Lemma be8_decode_be8 : forall n, n < 2 ^ 64 -> be8_decode (be8 n) = n.
Proof.
  intros n Hn. change (2 ^ 64) with two64 in Hn. unfold two64 in Hn.
  unfold be8, be8_decode. cbn [fold_left].
  replace (n / 65536) with (n / 256 / 256) by (rewrite N.div_div by lia; reflexivity).
  replace (n / 16777216) with (n / 256 / 256 / 256)
    by (rewrite !N.div_div by lia; reflexivity).
  replace (n / 4294967296) with (n / 256 / 256 / 256 / 256)
    by (rewrite !N.div_div by lia; reflexivity).
  replace (n / 1099511627776) with (n / 256 / 256 / 256 / 256 / 256)
    by (rewrite !N.div_div by lia; reflexivity).
  replace (n / 281474976710656) with (n / 256 / 256 / 256 / 256 / 256 / 256)
    by (rewrite !N.div_div by lia; reflexivity).
  replace (n / 72057594037927936) with (n / 256 / 256 / 256 / 256 / 256 / 256 / 256)
    by (rewrite !N.div_div by lia; reflexivity).
  divmod256 n d0 m0 Hq0 Hm0. divmod256 d0 d1 m1 Hq1 Hm1. divmod256 d1 d2 m2 Hq2 Hm2.
  divmod256 d2 d3 m3 Hq3 Hm3. divmod256 d3 d4 m4 Hq4 Hm4. divmod256 d4 d5 m5 Hq5 Hm5.
  divmod256 d5 d6 m6 Hq6 Hm6. divmod256 d6 d7 m7 Hq7 Hm7.
  clearbody d0 d1 d2 d3 d4 d5 d6 d7. lia.
Qed.

Lemma u64_ok_lt : forall n, u64_ok n = true -> n < 2 ^ 64.
Proof.
  intros n H. unfold u64_ok in H. apply N.ltb_lt in H. exact H.
Qed.

(* ---- the primitive readers on what the primitive writers produce --------------------------------- *)
Lemma read_ulong_be8 : forall n r, n < 2 ^ 64 -> read_ulong (be8 n ++ r) = Some (n, r).
Proof.
  intros n r Hn.
  change (read_ulong (be8 n ++ r)) with (Some (be8_decode (be8 n), r)).
  rewrite (be8_decode_be8 n Hn). reflexivity.
Qed.

Lemma read_ulong_short : forall t, (length t < 8)%nat -> read_ulong t = None.
Proof.
  intros t Ht.
  do 8 (destruct t as [|? t]; [reflexivity|]).
  cbn [length] in Ht. lia.
Qed.

Lemma read_ulong_None_short : forall t, read_ulong t = None -> (length t < 8)%nat.
Proof.
  intros t Ht.
  do 8 (destruct t as [|? t]; [cbn [length]; lia|]).
  discriminate Ht.
Qed.

Lemma read_ulong_Some_length :
  forall b x r, read_ulong b = Some (x, r) -> length b = (8 + length r)%nat.
Proof.
  intros b x r Hb.
  do 8 (destruct b as [|? b]; [discriminate Hb|]).
  unfold read_ulong in Hb. injection Hb as _ Hr. subst r. reflexivity.
Qed.

Lemma read_bool_enc : forall v r, read_bool (enc_bool v ++ r) = Some (v, r).
Proof. intros [|] r; reflexivity. Qed.

Lemma firstn_app_len : forall (A : Type) (a r : list A), firstn (length a) (a ++ r) = a.
Proof.
  intros A a r. induction a as [|x a IH]; [reflexivity|].
  cbn [length app firstn]. rewrite IH. reflexivity.
Qed.

Lemma skipn_app_len : forall (A : Type) (a r : list A), skipn (length a) (a ++ r) = r.
Proof.
  intros A a r. induction a as [|x a IH]; [reflexivity|].
  cbn [length app skipn]. exact IH.
Qed.

Lemma blen_app : forall a r : bytes, blen (a ++ r) = blen a + blen r.
Proof. intros a r. unfold blen. rewrite app_length. lia. Qed.

Lemma read_bytes_enc :
  forall v r, blen v < 2 ^ 64 -> read_bytes (enc_bytes v ++ r) = Some (v, r).
Proof.
  intros v r Hv. unfold read_bytes, enc_bytes.
  rewrite <- app_assoc, (read_ulong_be8 _ _ Hv).
  assert (Hle : (blen v <=? blen (v ++ r)) = true) by (rewrite blen_app; lia).
  rewrite Hle. unfold blen. rewrite Nat2N.id, firstn_app_len, skipn_app_len. reflexivity.
Qed.

Lemma bytes_ok_blen : forall v, bytes_ok v = true -> blen v < 2 ^ 64.
Proof.
  intros v H. unfold bytes_ok in H. apply andb_true_iff in H as [_ H].
  apply u64_ok_lt. exact H.
Qed.

Lemma flat_map_be8_length : forall l, length (flat_map be8 l) = (8 * length l)%nat.
Proof.
  induction l as [|x l IH]; [reflexivity|].
  cbn [flat_map]. rewrite app_length, be8_length, IH. cbn [length]. lia.
Qed.

Lemma read_ulongs_enc :
  forall l r, forallb u64_ok l = true ->
              read_ulongs (length l) (flat_map be8 l ++ r) = Some (l, r).
Proof.
  induction l as [|x l IH]; intros r Hl; [reflexivity|].
  cbn [forallb] in Hl. apply andb_true_iff in Hl as [Hx Hl].
  cbn [flat_map length read_ulongs]. rewrite <- app_assoc.
  rewrite (read_ulong_be8 _ _ (u64_ok_lt _ Hx)), (IH r Hl). reflexivity.
Qed.

Lemma read_mechs_enc :
  forall l r, mechs_ok l = true -> read_mechs (enc_mechs l ++ r) = Some (l, r).
Proof.
  intros l r Hl. unfold mechs_ok in Hl. apply andb_true_iff in Hl as [Hall Hlen].
  unfold read_mechs, enc_mechs.
  rewrite <- app_assoc, (read_ulong_be8 _ _ (u64_ok_lt _ Hlen)).
  assert (Hle : (N.of_nat (length l) * 8 <=? blen (flat_map be8 l ++ r)) = true).
  { rewrite blen_app. unfold blen. rewrite flat_map_be8_length. lia. }
  rewrite Hle, Nat2N.id. apply read_ulongs_enc. exact Hall.
Qed.

Lemma nodupb_NoDup : forall l, nodupb l = true -> NoDup l.
Proof.
  induction l as [|x l IH]; intros H; [constructor|].
  cbn [nodupb] in H. apply andb_true_iff in H as [Hx Hl].
  constructor; [|exact (IH Hl)].
  intros Hin. apply negb_true_iff in Hx. unfold nmem in Hx.
  assert (Hex : existsb (N.eqb x) l = true).
  { apply existsb_exists. exists x. split; [exact Hin|apply N.eqb_refl]. }
  rewrite Hex in Hx. discriminate Hx.
Qed.

(* ---- attribute maps -------------------------------------------------------------------------- *)
Lemma read_mapval_enc :
  forall v r, wf_mapval v = true ->
    read_mapval (mapval_kind v) (enc_mapval_payload v ++ r) = Some (v, mapval_size v, r).
Proof.
  intros [b|n|b|l] r Hv; cbn [wf_mapval] in Hv;
    unfold read_mapval; cbn [mapval_kind enc_mapval_payload mapval_size].
  - change (akBoolean =? akBoolean) with true. cbv iota.
    rewrite read_bool_enc. reflexivity.
  - change (akInteger =? akBoolean) with false. change (akInteger =? akInteger) with true.
    cbv iota. rewrite (read_ulong_be8 _ _ (u64_ok_lt _ Hv)). reflexivity.
  - change (akBinary =? akBoolean) with false. change (akBinary =? akInteger) with false.
    change (akBinary =? akBinary) with true. cbv iota.
    rewrite (read_bytes_enc _ _ (bytes_ok_blen _ Hv)). reflexivity.
  - apply andb_true_iff in Hv as [Hok Hnd].
    change (akMechSet =? akBoolean) with false. change (akMechSet =? akInteger) with false.
    change (akMechSet =? akBinary) with false. change (akMechSet =? akMechSet) with true.
    cbv iota. rewrite (read_mechs_enc _ _ Hok).
    rewrite (nodup_fixed_point N.eq_dec (nodupb_NoDup _ Hnd)). reflexivity.
Qed.

Lemma enc_map_entries_length : forall l, (length l <= length (enc_map_entries l))%nat.
Proof.
  induction l as [|p l IH]; [cbn; lia|].
  unfold enc_map_entries in *. cbn [flat_map length]. unfold enc_map_entry at 1.
  rewrite !app_length, be8_length. lia.
Qed.

Lemma read_map_entries_enc :
  forall l fuel r,
    forallb (fun p => u64_ok (fst p) && wf_mapval (snd p)) l = true ->
    (length l <= fuel)%nat ->
    read_map_entries fuel (map_size l) (enc_map_entries l ++ r) = Some (l, r).
Proof.
  induction l as [|[k v] l IH]; intros fuel r Hl Hfuel.
  - destruct fuel; reflexivity.
  - destruct fuel as [|fuel]; [cbn [length] in Hfuel; lia|].
    cbn [length] in Hfuel.
    cbn [forallb fst snd] in Hl. apply andb_true_iff in Hl as [Hkv Hl].
    apply andb_true_iff in Hkv as [Hk Hv].
    unfold enc_map_entries. cbn [flat_map]. fold (enc_map_entries l).
    unfold enc_map_entry. cbn [fst snd map_size]. rewrite <- !app_assoc.
    cbn [read_map_entries].
    remember (8 + 8 + mapval_size v + map_size l) as len eqn:Hlen.
    assert (E0 : (len =? 0) = false) by lia. rewrite E0.
    rewrite (read_ulong_be8 _ _ (u64_ok_lt _ Hk)).
    assert (E1 : (len <? 8) = false) by lia. rewrite E1.
    rewrite read_ulong_be8 by (destruct v; reflexivity).
    assert (E2 : (len - 8 <? 8) = false) by lia. rewrite E2.
    rewrite (read_mapval_enc _ _ Hv).
    assert (E3 : (len - 16 <? mapval_size v) = false) by lia. rewrite E3.
    replace (len - 16 - mapval_size v) with (map_size l) by lia.
    rewrite (IH fuel r Hl) by lia. reflexivity.
Qed.

Lemma read_map_enc :
  forall l r, wf_map l = true -> read_map (enc_map l ++ r) = Some (l, r).
Proof.
  intros l r Hl. unfold wf_map in Hl. apply andb_true_iff in Hl as [Hall Hsz].
  unfold read_map, enc_map.
  rewrite <- app_assoc, (read_ulong_be8 _ _ (u64_ok_lt _ Hsz)).
  apply read_map_entries_enc; [exact Hall|].
  rewrite app_length. pose proof (enc_map_entries_length l). lia.
Qed.

(* ---- top-level attributes --------------------------------------------------------------------- *)
Lemma read_val_enc :
  forall v r, wf_val v = true ->
    read_val (val_kind v) (enc_val_payload v ++ r) = Some (v, r).
Proof.
  intros [b|n|b|l|l] r Hv; cbn [wf_val] in Hv;
    unfold read_val; cbn [val_kind enc_val_payload].
  - change (BOOLEAN_ATTR =? BOOLEAN_ATTR) with true. cbv iota.
    rewrite read_bool_enc. reflexivity.
  - change (ULONG_ATTR =? BOOLEAN_ATTR) with false. change (ULONG_ATTR =? ULONG_ATTR) with true.
    cbv iota. rewrite (read_ulong_be8 _ _ (u64_ok_lt _ Hv)). reflexivity.
  - change (BYTESTR_ATTR =? BOOLEAN_ATTR) with false.
    change (BYTESTR_ATTR =? ULONG_ATTR) with false.
    change (BYTESTR_ATTR =? BYTESTR_ATTR) with true. cbv iota.
    rewrite (read_bytes_enc _ _ (bytes_ok_blen _ Hv)). reflexivity.
  - change (MECHSET_ATTR =? BOOLEAN_ATTR) with false.
    change (MECHSET_ATTR =? ULONG_ATTR) with false.
    change (MECHSET_ATTR =? BYTESTR_ATTR) with false.
    change (MECHSET_ATTR =? MECHSET_ATTR) with true. cbv iota.
    rewrite (read_mechs_enc _ _ Hv). reflexivity.
  - change (ATTRMAP_ATTR =? BOOLEAN_ATTR) with false.
    change (ATTRMAP_ATTR =? ULONG_ATTR) with false.
    change (ATTRMAP_ATTR =? BYTESTR_ATTR) with false.
    change (ATTRMAP_ATTR =? MECHSET_ATTR) with false.
    change (ATTRMAP_ATTR =? ATTRMAP_ATTR) with true. cbv iota.
    rewrite (read_map_enc _ _ Hv). reflexivity.
Qed.

Lemma val_kind_lt : forall v, val_kind v < 2 ^ 64.
Proof. intros [b|n|b|l|l]; reflexivity. Qed.

Lemma encode_attrs_length : forall o, (length o <= length (encode_attrs o))%nat.
Proof.
  induction o as [|p o IH]; [cbn; lia|].
  unfold encode_attrs in *. cbn [flat_map length]. unfold enc_attr at 1.
  rewrite !app_length, be8_length. lia.
Qed.

Lemma encode_attrs_app : forall o1 o2, encode_attrs (o1 ++ o2) = encode_attrs o1 ++ encode_attrs o2.
Proof. intros o1 o2. unfold encode_attrs. apply flat_map_app. Qed.

(* The attribute loop on an encoding followed by fewer than 8 stray bytes. *)
Lemma decode_attrs_enc :
  forall o fuel t,
    wf_obj o = true -> (length o <= fuel)%nat -> read_ulong t = None ->
    decode_attrs fuel (encode_attrs o ++ t) = Some o.
Proof.
  induction o as [|[k v] o IH]; intros fuel t Ho Hfuel Ht.
  - cbn [encode_attrs flat_map app]. destruct fuel; cbn [decode_attrs]; rewrite Ht; reflexivity.
  - destruct fuel as [|fuel]; [cbn [length] in Hfuel; lia|].
    cbn [length] in Hfuel.
    unfold wf_obj in Ho. cbn [forallb] in Ho. apply andb_true_iff in Ho as [Hkv Ho].
    unfold wf_attr in Hkv. cbn [fst snd] in Hkv. apply andb_true_iff in Hkv as [Hk Hv].
    unfold encode_attrs. cbn [flat_map]. fold (encode_attrs o).
    unfold enc_attr. cbn [fst snd]. rewrite <- !app_assoc.
    cbn [decode_attrs].
    rewrite (read_ulong_be8 _ _ (u64_ok_lt _ Hk)).
    rewrite (read_ulong_be8 _ _ (val_kind_lt v)).
    rewrite (read_val_enc _ _ Hv).
    rewrite (IH fuel t Ho ltac:(lia) Ht). reflexivity.
Qed.

(* ---- round trip ------------------------------------------------------------------------------ *)
(* slightly more than the round trip: up to 7 stray bytes after the encoding are ignored *)
Lemma decode_encode_junk :
  forall gen o t, gen < 2 ^ 64 -> wf_obj o = true -> (length t < 8)%nat ->
    decode_obj (encode_obj gen o ++ t) = Some (gen, o).
Proof.
  intros gen o t Hgen Ho Ht. unfold decode_obj, refresh_file, encode_obj.
  rewrite <- app_assoc.
  rewrite (read_ulong_be8 _ _ Hgen).
  rewrite (decode_attrs_enc o _ t Ho); [| |apply read_ulong_short; exact Ht].
  - reflexivity.
  - rewrite app_length. pose proof (encode_attrs_length o). lia.
Qed.

Theorem decode_encode :
  forall gen o, gen < 2 ^ 64 -> wf_obj o = true ->
    decode_obj (encode_obj gen o) = Some (gen, o).
Proof.
  intros gen o Hgen Ho.
  rewrite <- (app_nil_r (encode_obj gen o)).
  apply decode_encode_junk; [exact Hgen|exact Ho|cbn; lia].
Qed.

(* ---- when [decode_obj] answers None ------------------------------------------------------------- *)
(* None means: the C++ invalidates the object, or the file is shorter than 8 bytes (where the C++
   keeps the object valid but reads no generation number). *)
Lemma refresh_file_short :
  forall b, (length b < 8)%nat ->
    refresh_file b = match b with [] => RUnchanged | _ :: _ => RValid None [] end.
Proof.
  intros b Hb. unfold refresh_file. rewrite (read_ulong_short b Hb). reflexivity.
Qed.

Lemma decode_obj_None :
  forall b, decode_obj b = None <-> refresh_file b = RInvalid \/ (length b < 8)%nat.
Proof.
  intros b. unfold decode_obj. split.
  - intros H. destruct b as [|x b]; [right; cbn; lia|].
    unfold refresh_file in *.
    destruct (read_ulong (x :: b)) as [[g r]|] eqn:Hg.
    + destruct (decode_attrs (length r) r) as [o|]; [discriminate H|left; reflexivity].
    + right. apply read_ulong_None_short. exact Hg.
  - intros [H|H].
    + rewrite H. reflexivity.
    + rewrite (refresh_file_short b H). destruct b; reflexivity.
Qed.

(* ---- prefixes of an encoding, accepted ones ------------------------------------------------------ *)
Lemma wf_obj_firstn : forall k o, wf_obj o = true -> wf_obj (firstn k o) = true.
Proof.
  induction k as [|k IH]; intros o Ho; [reflexivity|].
  destruct o as [|p o]; [reflexivity|].
  unfold wf_obj in *. cbn [firstn forallb] in *.
  apply andb_true_iff in Ho as [Hp Ho]. rewrite Hp. exact (IH o Ho).
Qed.

Lemma encode_obj_split :
  forall gen o k,
    encode_obj gen o = encode_obj gen (firstn k o) ++ encode_attrs (skipn k o).
Proof.
  intros gen o k. unfold encode_obj.
  rewrite <- app_assoc, <- encode_attrs_app, firstn_skipn. reflexivity.
Qed.

(* The real reader does not only accept the cuts exactly at an attribute boundary: a cut up to
   7 bytes past the boundary (inside the next attribute's type field) gives the same result,
   because the short read of the attribute type happens at EOF and ends the loop.
   j = 0 is the statement "truncated exactly at an attribute boundary". *)
Theorem decode_prefix_attr :
  forall gen o k j, gen < 2 ^ 64 -> wf_obj o = true -> (j < 8)%nat ->
    decode_obj (firstn (length (encode_obj gen (firstn k o)) + j) (encode_obj gen o))
    = Some (gen, firstn k o).
Proof.
  intros gen o k j Hgen Ho Hj.
  rewrite (encode_obj_split gen o k), firstn_app_2.
  apply decode_encode_junk; [exact Hgen|apply wf_obj_firstn; exact Ho|].
  pose proof (firstn_le_length j (encode_attrs (skipn k o))). lia.
Qed.

(* ---- prefixes of an encoding, rejected ones ------------------------------------------------------ *)
Lemma firstn_app_le :
  forall (A : Type) n (a b : list A), (n <= length a)%nat -> firstn n (a ++ b) = firstn n a.
Proof.
  intros A n a b Hn. rewrite firstn_app.
  replace (n - length a)%nat with 0%nat by lia. rewrite firstn_O, app_nil_r. reflexivity.
Qed.

Lemma firstn_app_ge :
  forall (A : Type) n (a b : list A),
    (length a <= n)%nat -> firstn n (a ++ b) = a ++ firstn (n - length a) b.
Proof.
  intros A n a b Hn. rewrite firstn_app, (firstn_all2 a Hn). reflexivity.
Qed.

Lemma read_ulong_trunc : forall n b, (n < 8)%nat -> read_ulong (firstn n b) = None.
Proof.
  intros n b Hn. apply read_ulong_short. pose proof (firstn_le_length n b). lia.
Qed.

(* reading a ulong from a truncated [be8 x ++ rest]: fails below 8 bytes, else succeeds *)
Lemma read_ulong_firstn_be8 :
  forall n x rest, x < 2 ^ 64 ->
    read_ulong (firstn n (be8 x ++ rest)) =
    if (n <? 8)%nat then None else Some (x, firstn (n - 8) rest).
Proof.
  intros n x rest Hx. destruct (Nat.ltb_spec n 8) as [Hn|Hn].
  - apply read_ulong_trunc. exact Hn.
  - rewrite firstn_app_ge by (rewrite be8_length; exact Hn).
    rewrite be8_length. apply read_ulong_be8. exact Hx.
Qed.

Lemma read_bool_trunc :
  forall n v, (n < length (enc_bool v))%nat -> read_bool (firstn n (enc_bool v)) = None.
Proof.
  intros n v Hn. cbn [enc_bool length] in Hn.
  replace n with 0%nat by lia. reflexivity.
Qed.

Lemma read_bytes_trunc :
  forall n v, blen v < 2 ^ 64 -> (n < length (enc_bytes v))%nat ->
    read_bytes (firstn n (enc_bytes v)) = None.
Proof.
  intros n v Hv Hn. unfold enc_bytes in *. rewrite app_length, be8_length in Hn.
  unfold read_bytes. rewrite (read_ulong_firstn_be8 _ _ _ Hv).
  destruct (Nat.ltb_spec n 8) as [Hn8|Hn8]; [reflexivity|].
  assert (Hlt : (blen v <=? blen (firstn (n - 8) v)) = false).
  { unfold blen. rewrite firstn_length. lia. }
  rewrite Hlt. reflexivity.
Qed.

Lemma read_mechs_trunc :
  forall n l, mechs_ok l = true -> (n < length (enc_mechs l))%nat ->
    read_mechs (firstn n (enc_mechs l)) = None.
Proof.
  intros n l Hl Hn. unfold mechs_ok in Hl. apply andb_true_iff in Hl as [_ Hlen].
  unfold enc_mechs in *. rewrite app_length, be8_length, flat_map_be8_length in Hn.
  unfold read_mechs. rewrite (read_ulong_firstn_be8 _ _ _ (u64_ok_lt _ Hlen)).
  destruct (Nat.ltb_spec n 8) as [Hn8|Hn8]; [reflexivity|].
  assert (Hlt : (N.of_nat (length l) * 8 <=? blen (firstn (n - 8) (flat_map be8 l))) = false).
  { unfold blen. rewrite firstn_length, flat_map_be8_length. lia. }
  rewrite Hlt. reflexivity.
Qed.

Lemma read_mapval_trunc :
  forall n v, wf_mapval v = true -> (n < length (enc_mapval_payload v))%nat ->
    read_mapval (mapval_kind v) (firstn n (enc_mapval_payload v)) = None.
Proof.
  intros n [b|x|b|l] Hv Hn; cbn [wf_mapval] in Hv;
    unfold read_mapval; cbn [mapval_kind enc_mapval_payload] in *.
  - change (akBoolean =? akBoolean) with true. cbv iota.
    rewrite (read_bool_trunc _ _ Hn). reflexivity.
  - change (akInteger =? akBoolean) with false. change (akInteger =? akInteger) with true.
    cbv iota. rewrite be8_length in Hn. rewrite (read_ulong_trunc _ _ Hn). reflexivity.
  - change (akBinary =? akBoolean) with false. change (akBinary =? akInteger) with false.
    change (akBinary =? akBinary) with true. cbv iota.
    rewrite (read_bytes_trunc _ _ (bytes_ok_blen _ Hv) Hn). reflexivity.
  - apply andb_true_iff in Hv as [Hok _].
    change (akMechSet =? akBoolean) with false. change (akMechSet =? akInteger) with false.
    change (akMechSet =? akBinary) with false. change (akMechSet =? akMechSet) with true.
    cbv iota. rewrite (read_mechs_trunc _ _ Hok Hn). reflexivity.
Qed.

Lemma mapval_kind_lt : forall v, mapval_kind v < 2 ^ 64.
Proof. intros [b|x|b|l]; reflexivity. Qed.

Lemma read_map_entries_trunc :
  forall l fuel n,
    forallb (fun p => u64_ok (fst p) && wf_mapval (snd p)) l = true ->
    (n < length (enc_map_entries l))%nat ->
    read_map_entries fuel (map_size l) (firstn n (enc_map_entries l)) = None.
Proof.
  induction l as [|[k v] l IH]; intros fuel n Hl Hn.
  - cbn [enc_map_entries flat_map length] in Hn. lia.
  - cbn [forallb fst snd] in Hl. apply andb_true_iff in Hl as [Hkv Hl].
    apply andb_true_iff in Hkv as [Hk Hv].
    unfold enc_map_entries in Hn |- *. cbn [flat_map] in Hn |- *. fold (enc_map_entries l) in Hn |- *.
    unfold enc_map_entry in Hn |- *. cbn [fst snd map_size] in Hn |- *.
    rewrite <- !app_assoc in Hn |- *.
    rewrite !app_length, !be8_length in Hn.
    remember (8 + 8 + mapval_size v + map_size l) as len eqn:Hlen.
    assert (E0 : (len =? 0) = false) by lia.
    destruct fuel as [|fuel]; cbn [read_map_entries]; rewrite E0; [reflexivity|].
    rewrite (read_ulong_firstn_be8 _ _ _ (u64_ok_lt _ Hk)).
    destruct (Nat.ltb_spec n 8) as [Hn8|Hn8]; [reflexivity|].
    assert (E1 : (len <? 8) = false) by lia. rewrite E1.
    rewrite (read_ulong_firstn_be8 _ _ _ (mapval_kind_lt v)).
    destruct (Nat.ltb_spec (n - 8) 8) as [Hn16|Hn16]; [reflexivity|].
    assert (E2 : (len - 8 <? 8) = false) by lia. rewrite E2.
    destruct (Nat.ltb_spec (n - 8 - 8) (length (enc_mapval_payload v))) as [Hp|Hp].
    + rewrite firstn_app_le by lia. rewrite (read_mapval_trunc _ _ Hv Hp). reflexivity.
    + rewrite firstn_app_ge by exact Hp. rewrite (read_mapval_enc _ _ Hv).
      assert (E3 : (len - 16 <? mapval_size v) = false) by lia. rewrite E3.
      replace (len - 16 - mapval_size v) with (map_size l) by lia.
      rewrite (IH fuel _ Hl) by lia. reflexivity.
Qed.

Lemma read_map_trunc :
  forall n l, wf_map l = true -> (n < length (enc_map l))%nat ->
    read_map (firstn n (enc_map l)) = None.
Proof.
  intros n l Hl Hn. unfold wf_map in Hl. apply andb_true_iff in Hl as [Hall Hsz].
  unfold enc_map in *. rewrite app_length, be8_length in Hn.
  unfold read_map. rewrite (read_ulong_firstn_be8 _ _ _ (u64_ok_lt _ Hsz)).
  destruct (Nat.ltb_spec n 8) as [Hn8|Hn8]; [reflexivity|].
  apply read_map_entries_trunc; [exact Hall|lia].
Qed.

Lemma read_val_trunc :
  forall n v, wf_val v = true -> (n < length (enc_val_payload v))%nat ->
    read_val (val_kind v) (firstn n (enc_val_payload v)) = None.
Proof.
  intros n [b|x|b|l|l] Hv Hn; cbn [wf_val] in Hv;
    unfold read_val; cbn [val_kind enc_val_payload] in *.
  - change (BOOLEAN_ATTR =? BOOLEAN_ATTR) with true. cbv iota.
    rewrite (read_bool_trunc _ _ Hn). reflexivity.
  - change (ULONG_ATTR =? BOOLEAN_ATTR) with false. change (ULONG_ATTR =? ULONG_ATTR) with true.
    cbv iota. rewrite be8_length in Hn. rewrite (read_ulong_trunc _ _ Hn). reflexivity.
  - change (BYTESTR_ATTR =? BOOLEAN_ATTR) with false.
    change (BYTESTR_ATTR =? ULONG_ATTR) with false.
    change (BYTESTR_ATTR =? BYTESTR_ATTR) with true. cbv iota.
    rewrite (read_bytes_trunc _ _ (bytes_ok_blen _ Hv) Hn). reflexivity.
  - change (MECHSET_ATTR =? BOOLEAN_ATTR) with false.
    change (MECHSET_ATTR =? ULONG_ATTR) with false.
    change (MECHSET_ATTR =? BYTESTR_ATTR) with false.
    change (MECHSET_ATTR =? MECHSET_ATTR) with true. cbv iota.
    rewrite (read_mechs_trunc _ _ Hv Hn). reflexivity.
  - change (ATTRMAP_ATTR =? BOOLEAN_ATTR) with false.
    change (ATTRMAP_ATTR =? ULONG_ATTR) with false.
    change (ATTRMAP_ATTR =? BYTESTR_ATTR) with false.
    change (ATTRMAP_ATTR =? MECHSET_ATTR) with false.
    change (ATTRMAP_ATTR =? ATTRMAP_ATTR) with true. cbv iota.
    rewrite (read_map_trunc _ _ Hv Hn). reflexivity.
Qed.

(* the attribute loop runs through a well-formed encoding and continues on what follows *)
Lemma decode_attrs_app :
  forall o fuel t, wf_obj o = true ->
    decode_attrs (length o + fuel) (encode_attrs o ++ t) =
    match decode_attrs fuel t with None => None | Some o' => Some (o ++ o') end.
Proof.
  induction o as [|[k v] o IH]; intros fuel t Ho.
  - cbn [encode_attrs flat_map app length Nat.add]. destruct (decode_attrs fuel t); reflexivity.
  - unfold wf_obj in Ho. cbn [forallb] in Ho. apply andb_true_iff in Ho as [Hkv Ho].
    unfold wf_attr in Hkv. cbn [fst snd] in Hkv. apply andb_true_iff in Hkv as [Hk Hv].
    unfold encode_attrs. cbn [flat_map]. fold (encode_attrs o).
    unfold enc_attr. cbn [fst snd]. rewrite <- !app_assoc.
    cbn [length Nat.add decode_attrs].
    rewrite (read_ulong_be8 _ _ (u64_ok_lt _ Hk)).
    rewrite (read_ulong_be8 _ _ (val_kind_lt v)).
    rewrite (read_val_enc _ _ Hv).
    rewrite (IH fuel t Ho). destruct (decode_attrs fuel t); reflexivity.
Qed.

(* an attribute cut at least 8 bytes in (so that its type field is complete) is fatal *)
Lemma decode_attrs_trunc_attr :
  forall p fuel n, wf_attr p = true -> (8 <= n < length (enc_attr p))%nat ->
    decode_attrs fuel (firstn n (enc_attr p)) = None.
Proof.
  intros [k v] fuel n Hp [Hn8 Hn].
  unfold wf_attr in Hp. cbn [fst snd] in Hp. apply andb_true_iff in Hp as [Hk Hv].
  unfold enc_attr in *. cbn [fst snd] in *. rewrite !app_length, !be8_length in Hn.
  assert (Hr : read_ulong (firstn n (be8 k ++ be8 (val_kind v) ++ enc_val_payload v))
               = Some (k, firstn (n - 8) (be8 (val_kind v) ++ enc_val_payload v))).
  { rewrite (read_ulong_firstn_be8 _ _ _ (u64_ok_lt _ Hk)).
    destruct (Nat.ltb_spec n 8) as [H|H]; [lia|reflexivity]. }
  destruct fuel as [|fuel]; cbn [decode_attrs]; rewrite Hr; [reflexivity|].
  rewrite (read_ulong_firstn_be8 _ _ _ (val_kind_lt v)).
  destruct (Nat.ltb_spec (n - 8) 8) as [Hn16|Hn16]; [reflexivity|].
  rewrite (read_val_trunc _ _ Hv) by lia. reflexivity.
Qed.

Lemma wf_obj_nth_error :
  forall o k p, wf_obj o = true -> nth_error o k = Some p -> wf_attr p = true.
Proof.
  intros o k p Ho Hp. unfold wf_obj in Ho. rewrite forallb_forall in Ho.
  apply Ho. exact (nth_error_In o k Hp).
Qed.

Lemma skipn_nth_error :
  forall (A : Type) k (l : list A) p, nth_error l k = Some p -> skipn k l = p :: skipn (S k) l.
Proof.
  intros A k. induction k as [|k IH]; intros [|x l] p Hp; try discriminate Hp.
  - cbn in Hp. injection Hp as ->. reflexivity.
  - cbn [nth_error] in Hp. cbn [skipn]. rewrite (IH l p Hp). reflexivity.
Qed.

(* A cut n bytes into the k-th attribute, 8 <= n < its length: the object is invalid. *)
Theorem decode_prefix_reject :
  forall gen o k p n, gen < 2 ^ 64 -> wf_obj o = true ->
    nth_error o k = Some p -> (8 <= n < length (enc_attr p))%nat ->
    decode_obj (firstn (length (encode_obj gen (firstn k o)) + n) (encode_obj gen o)) = None.
Proof.
  intros gen o k p n Hgen Ho Hp Hn.
  rewrite (encode_obj_split gen o k), firstn_app_2.
  rewrite (skipn_nth_error _ k o p Hp).
  change (encode_attrs (p :: skipn (S k) o))
    with (enc_attr p ++ encode_attrs (skipn (S k) o)).
  rewrite firstn_app_le by lia.
  unfold decode_obj, refresh_file, encode_obj. rewrite <- app_assoc.
  rewrite (read_ulong_be8 _ _ Hgen).
  set (o1 := firstn k o). set (t := firstn n (enc_attr p)).
  assert (Ho1 : wf_obj o1 = true) by (apply wf_obj_firstn; exact Ho).
  assert (Hfuel : exists f, length (encode_attrs o1 ++ t) = (length o1 + f)%nat).
  { exists (length (encode_attrs o1 ++ t) - length o1)%nat.
    rewrite app_length. pose proof (encode_attrs_length o1). lia. }
  destruct Hfuel as [f Hf]. rewrite Hf.
  rewrite (decode_attrs_app o1 f t Ho1).
  unfold t. rewrite (decode_attrs_trunc_attr p f n (wf_obj_nth_error o k p Ho Hp) Hn).
  destruct (be8 gen ++ encode_attrs o1 ++ firstn n (enc_attr p)) eqn:E; [|reflexivity].
  reflexivity.
Qed.

(* ---- canonical objects: the container view is the identity ----------------------------------------- *)
(* [encode_obj] writes list order, the C++ writer iterates std::map / std::set, i.e. ascending
   order; and the C++ reader stores what it reads in such containers.  On a canonical object
   ([canon_obj]: strictly ascending at every level) the two agree: the in-memory view
   [view_obj] of the decoded list is the list itself. *)
Lemma keys_ascending_tail :
  forall (A : Type) (p : N * A) l, keys_ascending (p :: l) = true -> keys_ascending l = true.
Proof.
  intros A [k v] [|[k' v'] l] H; [reflexivity|].
  cbn [keys_ascending] in H. apply andb_true_iff in H as [_ H]. exact H.
Qed.

Lemma norm_last_canon :
  forall (A : Type) (l : list (N * A)), keys_ascending l = true -> norm_last l = l.
Proof.
  intros A. induction l as [|[k v] l IH]; intros H; [reflexivity|].
  unfold norm_last in *. cbn [fold_right fst snd].
  rewrite (IH (keys_ascending_tail _ _ _ H)).
  destruct l as [|[k' v'] l]; [reflexivity|].
  cbn [keys_ascending] in H. apply andb_true_iff in H as [Hk _].
  cbn [ins_keep]. rewrite Hk. reflexivity.
Qed.

Lemma norm_first_canon :
  forall (A : Type) (l : list (N * A)), keys_ascending l = true -> norm_first l = l.
Proof.
  intros A. induction l as [|[k v] l IH]; intros H; [reflexivity|].
  unfold norm_first in *. cbn [fold_right fst snd].
  rewrite (IH (keys_ascending_tail _ _ _ H)).
  destruct l as [|[k' v'] l]; [reflexivity|].
  cbn [keys_ascending] in H. apply andb_true_iff in H as [Hk _].
  cbn [ins_over]. rewrite Hk. reflexivity.
Qed.

Lemma norm_set_canon : forall l, ascending l = true -> norm_set l = l.
Proof.
  induction l as [|x l IH]; intros H; [reflexivity|].
  unfold norm_set in *. cbn [fold_right].
  destruct l as [|y l]; [reflexivity|].
  cbn [ascending] in H. apply andb_true_iff in H as [Hx Hl].
  rewrite (IH Hl). cbn [set_ins]. rewrite Hx. reflexivity.
Qed.

Lemma view_mapval_canon : forall v, canon_mapval v = true -> view_mapval v = v.
Proof.
  intros [b|n|b|l] H; try reflexivity.
  cbn [canon_mapval] in H. cbn [view_mapval]. rewrite (norm_set_canon l H). reflexivity.
Qed.

Lemma map_view_mapval_canon :
  forall l : list (N * cmapval),
    forallb (fun p => canon_mapval (snd p)) l = true ->
    map (fun p => (fst p, view_mapval (snd p))) l = l.
Proof.
  induction l as [|[k v] l IH]; intros H; [reflexivity|].
  cbn [forallb snd] in H. apply andb_true_iff in H as [Hv Hl].
  cbn [map fst snd]. rewrite (view_mapval_canon v Hv), (IH Hl). reflexivity.
Qed.

Lemma view_val_canon : forall v, canon_val v = true -> view_val v = v.
Proof.
  intros [b|n|b|l|l] H; try reflexivity; cbn [canon_val] in H; cbn [view_val].
  - rewrite (norm_set_canon l H). reflexivity.
  - apply andb_true_iff in H as [Hk Hl].
    rewrite (map_view_mapval_canon l Hl), (norm_first_canon _ l Hk). reflexivity.
Qed.

Lemma view_obj_canon : forall o, canon_obj o = true -> view_obj o = o.
Proof.
  intros o H. unfold canon_obj in H. apply andb_true_iff in H as [Hk Hv].
  unfold view_obj.
  assert (Hmap : map (fun p => (fst p, view_val (snd p))) o = o).
  { clear Hk. induction o as [|[k v] o IH]; [reflexivity|].
    cbn [forallb snd] in Hv. apply andb_true_iff in Hv as [Hv Ho].
    cbn [map fst snd]. rewrite (view_val_canon v Hv), (IH Ho). reflexivity. }
  rewrite Hmap. apply norm_last_canon. exact Hk.
Qed.

(* What ObjectFile holds after writeAttributes followed by refresh. *)
Theorem decode_encode_view :
  forall gen o, gen < 2 ^ 64 -> wf_obj o = true -> canon_obj o = true ->
    match decode_obj (encode_obj gen o) with
    | Some (g, o') => Some (g, view_obj o')
    | None => None
    end = Some (gen, o).
Proof.
  intros gen o Hgen Ho Hc.
  rewrite (decode_encode gen o Hgen Ho), (view_obj_canon o Hc). reflexivity.
Qed.

(* ---- examples ----------------------------------------------------------------------------------- *)
(* One attribute of every kind; 0x40000211 = CKA_WRAP_TEMPLATE, 0x40000600 = CKA_ALLOWED_MECHANISMS. *)
Definition ex_obj : cobj :=
  [ (0, CULong 3);
    (1, CBool true);
    (3, CBytes [97; 98; 99]);
    (1073742353, CMap [ (1, MBool false); (3, MBytes [1; 2]); (256, MULong 31);
                        (1073743360, MMechs [1; 4231]) ]);
    (1073743360, CMechs [1; 4231]) ].

Example ex_obj_wf : (wf_obj ex_obj, canon_obj ex_obj) = (true, true).
Proof. vm_compute. reflexivity. Qed.

Example ex_roundtrip : decode_obj (encode_obj 7 ex_obj) = Some (7, ex_obj).
Proof. vm_compute. reflexivity. Qed.

(* Eval vm_compute in (length (encode_obj 7 ex_obj)).            = 247
   Eval vm_compute in (firstn 40 (encode_obj 7 ex_obj)).
     = [0; 0; 0; 0; 0; 0; 0; 7;        generation 7
        0; 0; 0; 0; 0; 0; 0; 0;        attribute type 0 (CKA_CLASS)
        0; 0; 0; 0; 0; 0; 0; 2;        kind 2 = ULONG_ATTR
        0; 0; 0; 0; 0; 0; 0; 3;        value 3
        0; 0; 0; 0; 0; 0; 0; 1]        attribute type 1 (CKA_TOKEN); next: kind 1, byte 255 *)
Example ex_first40 :
  firstn 40 (encode_obj 7 ex_obj) =
  [0; 0; 0; 0; 0; 0; 0; 7;  0; 0; 0; 0; 0; 0; 0; 0;  0; 0; 0; 0; 0; 0; 0; 2;
   0; 0; 0; 0; 0; 0; 0; 3;  0; 0; 0; 0; 0; 0; 0; 1].
Proof. vm_compute. reflexivity. Qed.

(* the nested map: ... type 0x40000211, kind 4, len 107 = 17 + 26 + 24 + 40, then the entries *)
Example ex_map_bytes :
  firstn 41 (skipn 76 (encode_obj 7 ex_obj)) =
  [0; 0; 0; 0; 64; 0; 2; 17;  0; 0; 0; 0; 0; 0; 0; 4;  0; 0; 0; 0; 0; 0; 0; 107;
   0; 0; 0; 0; 0; 0; 0; 1;  0; 0; 0; 0; 0; 0; 0; 1;  0].
Proof. vm_compute. reflexivity. Qed.

(* which prefixes of the 247-byte encoding are accepted, and with how many attributes:
   cuts 8..15 -> 0 attributes, 32..39 -> 1, 49..56 -> 2, 76..83 -> 3, 207..214 -> 4, 247 -> 5,
   every other cut >= 8 is rejected (cuts < 8: see [refresh_file_short]). *)
Example ex_prefixes :
  map (fun n => match decode_obj (firstn n (encode_obj 7 ex_obj)) with
                | Some (_, o) => Some (length o) | None => None end)
      [7; 8; 15; 16; 31; 32; 39; 40; 48; 49; 56; 57; 75; 76; 83; 84; 206; 207; 214; 215; 246; 247]%nat
  = [None; Some 0; Some 0; None; None; Some 1; Some 1; None; None; Some 2; Some 2; None; None;
     Some 3; Some 3; None; None; Some 4; Some 4; None; None; Some 5]%nat.
Proof. vm_compute. reflexivity. Qed.

(* file order vs. container view: a repeated top-level type (last wins), a repeated key in a map
   (first wins), an unsorted mechanism list with a duplicate *)
Example ex_view :
  view_obj [ (5, CULong 1); (2, CMechs [9; 4; 9]); (5, CULong 2);
             (7, CMap [ (3, MBool true); (1, MULong 0); (3, MBool false) ]) ]
  = [ (2, CMechs [4; 9]); (5, CULong 2); (7, CMap [ (1, MULong 0); (3, MBool true) ]) ].
Proof. vm_compute. reflexivity. Qed.

(* A duplicate inside a NESTED mechanism set breaks the reader's length accounting (it subtracts
   8 + 8 * |std::set|, the writer of such a list would have counted every element): rejected. *)
Example ex_nested_dup_rejected :
  decode_obj (encode_obj 1 [ (7, CMap [ (3, MMechs [9; 9]) ]) ]) = None.
Proof. vm_compute. reflexivity. Qed.

(* An object file written by the REAL library (libsofthsm2.so built from /repo, file backend):
   C_GenerateKey(CKM_AES_KEY_GEN) of a token object with CKA_WRAP_TEMPLATE = {CKA_CLASS,
   CKA_KEY_TYPE, CKA_EXTRACTABLE, CKA_LABEL} and CKA_ALLOWED_MECHANISMS = {CKM_AES_CBC,
   CKM_AES_ECB, CKM_AES_KEY_WRAP}; 777 bytes, 32 attributes.  The decoder accepts it, the result
   is well formed and canonical, and the encoder reproduces the file byte for byte.
   (On the same library build, truncating this file to 705..712, 729..736 bytes or appending 5
   stray bytes leaves the object loadable; 704, 713..728, or 8 appended bytes make it disappear;
   files of 0..15 bytes load as an object without attributes; 16 bytes does not load — all as
   [decode_obj]/[refresh_file] predict.) *)
Definition real_file : bytes :=
  [
    0; 0; 0; 0; 0; 0; 0; 35; 0; 0; 0; 0; 0; 0; 0; 0; 0; 0; 0; 0; 0; 0; 0; 2; 0; 0; 0; 0; 0; 0;
    0; 4; 0; 0; 0; 0; 0; 0; 0; 1; 0; 0; 0; 0; 0; 0; 0; 1; 255; 0; 0; 0; 0; 0; 0; 0; 2; 0; 0; 0;
    0; 0; 0; 0; 1; 0; 0; 0; 0; 0; 0; 0; 0; 3; 0; 0; 0; 0; 0; 0; 0; 3; 0; 0; 0; 0; 0; 0; 0; 0; 0;
    0; 0; 0; 0; 0; 0; 17; 0; 0; 0; 0; 0; 0; 0; 3; 0; 0; 0; 0; 0; 0; 0; 16; 38; 179; 73; 227; 48;
    70; 235; 116; 120; 184; 246; 28; 167; 161; 122; 231; 0; 0; 0; 0; 0; 0; 0; 134; 0; 0; 0; 0;
    0; 0; 0; 1; 0; 0; 0; 0; 0; 0; 0; 0; 144; 0; 0; 0; 0; 0; 0; 0; 3; 0; 0; 0; 0; 0; 0; 0; 3; 89;
    62; 75; 0; 0; 0; 0; 0; 0; 1; 0; 0; 0; 0; 0; 0; 0; 0; 2; 0; 0; 0; 0; 0; 0; 0; 31; 0; 0; 0; 0;
    0; 0; 1; 2; 0; 0; 0; 0; 0; 0; 0; 3; 0; 0; 0; 0; 0; 0; 0; 0; 0; 0; 0; 0; 0; 0; 1; 3; 0; 0; 0;
    0; 0; 0; 0; 1; 0; 0; 0; 0; 0; 0; 0; 1; 4; 0; 0; 0; 0; 0; 0; 0; 1; 255; 0; 0; 0; 0; 0; 0; 1;
    5; 0; 0; 0; 0; 0; 0; 0; 1; 255; 0; 0; 0; 0; 0; 0; 1; 6; 0; 0; 0; 0; 0; 0; 0; 1; 255; 0; 0;
    0; 0; 0; 0; 1; 7; 0; 0; 0; 0; 0; 0; 0; 1; 255; 0; 0; 0; 0; 0; 0; 1; 8; 0; 0; 0; 0; 0; 0; 0;
    1; 255; 0; 0; 0; 0; 0; 0; 1; 10; 0; 0; 0; 0; 0; 0; 0; 1; 255; 0; 0; 0; 0; 0; 0; 1; 12; 0; 0;
    0; 0; 0; 0; 0; 1; 0; 0; 0; 0; 0; 0; 0; 1; 16; 0; 0; 0; 0; 0; 0; 0; 3; 0; 0; 0; 0; 0; 0; 0;
    0; 0; 0; 0; 0; 0; 0; 1; 17; 0; 0; 0; 0; 0; 0; 0; 3; 0; 0; 0; 0; 0; 0; 0; 0; 0; 0; 0; 0; 0;
    0; 1; 97; 0; 0; 0; 0; 0; 0; 0; 2; 0; 0; 0; 0; 0; 0; 0; 16; 0; 0; 0; 0; 0; 0; 1; 98; 0; 0; 0;
    0; 0; 0; 0; 1; 0; 0; 0; 0; 0; 0; 0; 1; 99; 0; 0; 0; 0; 0; 0; 0; 1; 255; 0; 0; 0; 0; 0; 0; 1;
    100; 0; 0; 0; 0; 0; 0; 0; 1; 255; 0; 0; 0; 0; 0; 0; 1; 101; 0; 0; 0; 0; 0; 0; 0; 1; 0; 0; 0;
    0; 0; 0; 0; 1; 102; 0; 0; 0; 0; 0; 0; 0; 2; 0; 0; 0; 0; 0; 0; 16; 128; 0; 0; 0; 0; 0; 0; 1;
    112; 0; 0; 0; 0; 0; 0; 0; 1; 255; 0; 0; 0; 0; 0; 0; 1; 113; 0; 0; 0; 0; 0; 0; 0; 1; 255; 0;
    0; 0; 0; 0; 0; 1; 114; 0; 0; 0; 0; 0; 0; 0; 1; 255; 0; 0; 0; 0; 0; 0; 2; 16; 0; 0; 0; 0; 0;
    0; 0; 1; 0; 0; 0; 0; 0; 64; 0; 2; 17; 0; 0; 0; 0; 0; 0; 0; 4; 0; 0; 0; 0; 0; 0; 0; 91; 0; 0;
    0; 0; 0; 0; 0; 0; 0; 0; 0; 0; 0; 0; 0; 2; 0; 0; 0; 0; 0; 0; 0; 4; 0; 0; 0; 0; 0; 0; 0; 3; 0;
    0; 0; 0; 0; 0; 0; 3; 0; 0; 0; 0; 0; 0; 0; 2; 119; 107; 0; 0; 0; 0; 0; 0; 1; 0; 0; 0; 0; 0;
    0; 0; 0; 2; 0; 0; 0; 0; 0; 0; 0; 31; 0; 0; 0; 0; 0; 0; 1; 98; 0; 0; 0; 0; 0; 0; 0; 1; 0; 0;
    0; 0; 0; 64; 0; 2; 18; 0; 0; 0; 0; 0; 0; 0; 4; 0; 0; 0; 0; 0; 0; 0; 0; 0; 0; 0; 0; 64; 0; 6;
    0; 0; 0; 0; 0; 0; 0; 0; 5; 0; 0; 0; 0; 0; 0; 0; 3; 0; 0; 0; 0; 0; 0; 16; 129; 0; 0; 0; 0; 0;
    0; 16; 130; 0; 0; 0; 0; 0; 0; 33; 9
  ].

Example real_file_decodes :
  match decode_obj real_file with
  | Some (g, o) =>
      (g, length o, wf_obj o, canon_obj o, bytes_eqb (encode_obj g o) real_file,
       filter (fun p => match snd p with CMap _ | CMechs _ => true | _ => false end) o)
  | None => (0, 0%nat, false, false, false, [])
  end
  = (35, 32%nat, true, true, true,
     [ (1073742353, CMap [ (0, MULong 4); (3, MBytes [119; 107]); (256, MULong 31);
                           (354, MBool false) ]);
       (1073742354, CMap []);
       (1073743360, CMechs [4225; 4226; 8457]) ]).
Proof. vm_compute. reflexivity. Qed.

(* ---- assumptions -------------------------------------------------------------------------------- *)
Print Assumptions be8_length.
Print Assumptions be8_decode_be8.
Print Assumptions decode_encode.
Print Assumptions decode_encode_junk.
Print Assumptions decode_obj_None.
Print Assumptions decode_prefix_attr.
Print Assumptions decode_prefix_reject.
Print Assumptions view_obj_canon.
Print Assumptions decode_encode_view.
Print Assumptions ex_roundtrip.
Print Assumptions real_file_decodes.
