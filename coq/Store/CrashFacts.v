(* Store/CrashFacts.v — what an in-place rewrite of an object file leaves on disk when the process dies or a write fails
   in the middle (ObjectFile::store -> writeAttributes: ftruncate(0), buffered writes, flush), read back with the
   codec model.  (C16, C09 fault clause) *)
From Coq Require Import List NArith ZArith Bool Lia Zify ZifyBool ZifyN.
From SoftHSM Require Import Defs Codec CodecFacts.
Import ListNotations.
Local Open Scope N_scope.

(* the file holds the old bytes (before the truncate) or a prefix of the new bytes: n = 0 right after the truncate,
   n >= length new once everything has been flushed *)
Inductive on_disk (old new : bytes) : bytes -> Prop :=
| disk_old : on_disk old new old
| disk_prefix (n : nat) : on_disk old new (firstn n new).

Lemma be8_length g : length (be8 g) = 8%nat.
Proof. reflexivity. Qed.

Lemma encode_obj_length gen o : length (encode_obj gen o) = (8 + length (encode_attrs o))%nat.
Proof. unfold encode_obj. rewrite app_length, be8_length. reflexivity. Qed.

(* every position inside the attribute bytes lies inside exactly one attribute *)
Lemma split_point : forall (o : cobj) (m : nat), (m < length (encode_attrs o))%nat ->
  exists k p j, nth_error o k = Some p /\ m = (length (encode_attrs (firstn k o)) + j)%nat /\ (j < length (enc_attr p))%nat.
Proof.
  induction o as [|p r IH]; intros m Hm.
  - cbn in Hm. lia.
  - change (encode_attrs (p :: r)) with (enc_attr p ++ encode_attrs r) in Hm. rewrite app_length in Hm.
    destruct (Nat.ltb m (length (enc_attr p))) eqn:E.
    + apply Nat.ltb_lt in E. exists 0%nat, p, m. split; [reflexivity|]. split; [cbn; lia|exact E].
    + apply Nat.ltb_ge in E.
      destruct (IH (m - length (enc_attr p))%nat) as (k & q & j & Hk & Hj & Hl); [lia|].
      exists (S k), q, j. cbn [nth_error firstn]. split; [exact Hk|]. split; [|exact Hl].
      change (encode_attrs (p :: firstn k r)) with (enc_attr p ++ encode_attrs (firstn k r)).
      rewrite app_length. lia.
Qed.

(* the classification of everything a crash can leave: the old file, the new file, a stub shorter than the generation
   number (which ObjectFile::refresh treats as an empty, VALID object), a file the reader rejects, or - when the cut
   falls within 7 bytes after an attribute boundary - a file the reader ACCEPTS with only the first k attributes *)
Theorem crash_state_cases : forall gen o old s,
  gen < 2 ^ 64 -> wf_obj o = true -> on_disk old (encode_obj gen o) s ->
  s = old \/ s = encode_obj gen o \/ (length s < 8)%nat \/ decode_obj s = None \/
  exists k, (k < length o)%nat /\ decode_obj s = Some (gen, firstn k o).
Proof.
  intros gen o old s Hg Hw Hd. destruct Hd as [|n]; [left; reflexivity|right].
  destruct (Nat.leb (length (encode_obj gen o)) n) eqn:E1.
  - apply Nat.leb_le in E1. left. apply firstn_all2. exact E1.
  - apply Nat.leb_gt in E1. right.
    destruct (Nat.ltb n 8) eqn:E2.
    + apply Nat.ltb_lt in E2. left. rewrite firstn_length. lia.
    + apply Nat.ltb_ge in E2. right.
      rewrite encode_obj_length in E1.
      destruct (split_point o (n - 8)%nat) as (k & p & j & Hk & Hj & Hl); [lia|].
      assert (Hn : n = (length (encode_obj gen (firstn k o)) + j)%nat) by (rewrite encode_obj_length; lia).
      rewrite Hn.
      destruct (Nat.ltb j 8) eqn:E3.
      * apply Nat.ltb_lt in E3. right. exists k. split.
        -- apply nth_error_Some. rewrite Hk. discriminate.
        -- apply decode_prefix_attr; assumption.
      * apply Nat.ltb_ge in E3. left. apply (decode_prefix_reject gen o k p j); try assumption. lia.
Qed.

(* ... so the rewrite is not atomic: there are crash states that are neither the old nor the new object.
   The witness is the state right after the truncate. *)
Theorem crash_atomicity_refuted :
  exists gen o old s, gen < 2 ^ 64 /\ wf_obj o = true /\ on_disk old (encode_obj gen o) s /\
    decode_obj s <> decode_obj old /\ decode_obj s <> decode_obj (encode_obj gen o).
Proof.
  exists 2, [(3, CBytes [107])], (encode_obj 1 [(3, CBytes [106])]), [].
  split; [reflexivity|]. split; [reflexivity|]. split; [exact (disk_prefix _ _ 0)|].
  split; vm_compute; discriminate.
Qed.

(* a half-written file that is accepted: cut exactly after the first attribute *)
Definition example_obj : cobj := [(0, CULong 4); (3, CBytes [107; 101; 121]); (17, CBytes [1; 2; 3; 4])].
Theorem partial_object_accepted_example :
  exists n, decode_obj (firstn n (encode_obj 7 example_obj)) = Some (7, firstn 1 example_obj).
Proof. exists 32%nat. vm_compute. reflexivity. Qed.

(* the only accepted partial states are attribute prefixes: nothing a crash leaves decodes to attributes that the
   new object does not have, or to wrong values *)
Corollary crash_never_invents : forall gen o old s g' o',
  gen < 2 ^ 64 -> wf_obj o = true -> on_disk old (encode_obj gen o) s -> s <> old ->
  decode_obj s = Some (g', o') -> g' = gen /\ exists k, o' = firstn k o.
Proof.
  intros gen o old s g' o' Hg Hw Hd Hne Hdec.
  destruct (crash_state_cases gen o old s Hg Hw Hd) as [H|[H|[H|[H|(k & Hk & H)]]]].
  - contradiction.
  - subst s. rewrite (decode_encode gen o Hg Hw) in Hdec. injection Hdec as Hg' Ho'. split; [symmetry; exact Hg'|].
    exists (length o). rewrite <- Ho'. symmetry. apply firstn_all.
  - assert (decode_obj s = None) by (apply decode_obj_None; right; exact H). congruence.
  - congruence.
  - rewrite H in Hdec. injection Hdec as Hg' Ho'. split; [symmetry; exact Hg'|]. exists k. symmetry. exact Ho'.
Qed.
