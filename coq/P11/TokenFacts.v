(* P11/TokenFacts.v — token initialisation, re-initialisation and isolation between tokens.

   [tok_view s k] is everything the model holds for token k: the token record (SO PIN, user PIN, login
   state, master key identity, token objects), its sessions, its session objects and its handles.
   An operation that goes through a slot / session / object handle of token j leaves the view of every
   other token k untouched ([isolation]); C_InitToken on the free slot appends exactly one fresh token
   ([inittoken_fresh]); re-initialisation wipes the objects and the user PIN of that token only and
   keeps SO PIN and key ([reinit_ok_iff], [reinit_effect]); a restart keeps PINs, key and objects of
   every token and drops logins, sessions, handles and session objects ([restart_view]).

   [isolation] needs the linkage invariant [inv_tok] (handle keys and session-object ids are unique;
   the handle entry of a session carries the session's token; an object handle / a session object
   owned by a session carries that session's token).  It holds in every reachable state
   ([inv_tok_reachable]); without it the statement is false ([isolation_needs_inv_refuted]). *)
From Coq Require Import List NArith Bool Lia.
From SoftHSM Require Import Gen_Const Gen_Pure Defs Core AssocFacts AccessFacts StepFacts Invariants HandleFacts.
Import ListNotations.
Local Open Scope N_scope.

(* ---- the view of one token ------------------------------------------------------------------------ *)
Definition tok_view (s : state) (k : N) :=
  (alookup k (st_tokens s),
   filter (fun p => s_tok (snd p) =? k) (st_sessions s),
   filter (fun p => so_tok (snd p) =? k) (st_sobjs s),
   filter (fun p => h_tok (snd p) =? k) (st_handles s)).

Definition sess_on (s : state) (h j : N) : Prop := exists x, get_session s h = Some x /\ s_tok x = j.

(* an object handle that resolves denotes an object of token j: the handle entry AND, for a session
   object, the stored object *)
Definition handle_on (s : state) (oh j : N) : Prop :=
  forall e l o, get_object s oh = Some (e, l, o) ->
    h_tok e = j /\
    match l with
    | LTok k _ => k = j
    | LSess oid => forall so, alookup oid (st_sobjs s) = Some so -> so_tok so = j
    end.

Definition addresses (s : state) (o : op) (j : N) : Prop :=
  match o with
  | OInit | OFini | ONewProc => False
  | OInitToken t _ _ | OOpen t _ | OCloseAll t => resolve s t = Some (Some j)
  | OClose h | OSInfo h | OLogin h _ _ | OLogout h | OInitPin h _ | OSetPin h _ _ | OCreate h _
  | OFindInit h _ _ | OFind h _ | OFindFinal h => sess_on s h j
  | OCopy h oh _ | ODestroy h oh | OObjSize h oh | OGetAttr h oh _ | OSetAttr h oh _ | OUseInit _ h oh =>
      sess_on s h j /\ handle_on s oh j
  end.

(* ---- list facts ------------------------------------------------------------------------------------ *)
Lemma filter_filter_In {A} (f g : A -> bool) l :
  (forall x, In x l -> f x = true -> g x = true) -> filter f (filter g l) = filter f l.
Proof.
  induction l as [|a r IH]; cbn; intros H; [reflexivity|].
  destruct (g a) eqn:Eg; cbn.
  - rewrite IH by (intros; apply H; auto). reflexivity.
  - destruct (f a) eqn:Ef.
    + rewrite H in Eg; auto. discriminate.
    + apply IH. intros; apply H; auto.
Qed.

Lemma filter_snoc_off {A} (f : A -> bool) l x : f x = false -> filter f (l ++ [x]) = filter f l.
Proof. intros H. rewrite filter_app. cbn. rewrite H. apply app_nil_r. Qed.

Lemma filter_aset_off {A} (f : N * A -> bool) l k v v0 :
  alookup k l = Some v0 -> f (k, v0) = false -> f (k, v) = false -> filter f (aset k v l) = filter f l.
Proof.
  induction l as [|[k' v'] r IH]; cbn; [discriminate|].
  destruct (k' =? k) eqn:E.
  - intros H. inversion H; subst. apply N.eqb_eq in E. subst. intros H1 H2. cbn. rewrite H1, H2. reflexivity.
  - intros H H1 H2. cbn. rewrite IH by assumption. reflexivity.
Qed.

Lemma In_akeys {A} (l : list (N * A)) k v : In (k, v) l -> In k (akeys l).
Proof. intros H. unfold akeys. apply in_map_iff. exists (k, v). auto. Qed.

Lemma akeys_In {A} (l : list (N * A)) k : In k (akeys l) -> exists v, In (k, v) l.
Proof. unfold akeys. intros H. apply in_map_iff in H. destruct H as [[a b] [H1 H2]]. cbn in H1. subst. eauto. Qed.

Lemma nodup_lookup_In {A} (l : list (N * A)) k v v' :
  NoDup (akeys l) -> alookup k l = Some v -> In (k, v') l -> v' = v.
Proof.
  induction l as [|[k0 v0] r IH]; cbn; [intros _ H; discriminate|].
  intros Hnd. inversion Hnd; subst. destruct (k0 =? k) eqn:E.
  - apply N.eqb_eq in E. subst. intros H [Hin|Hin]; [congruence|]. exfalso. apply H1. eapply In_akeys. exact Hin.
  - intros H [Hin|Hin]; [inversion Hin; subst; rewrite N.eqb_refl in E; discriminate|]. eapply IH; eauto.
Qed.

Lemma akeys_aset_same {A} (l : list (N * A)) k v v0 : alookup k l = Some v0 -> akeys (aset k v l) = akeys l.
Proof.
  induction l as [|[k' v'] r IH]; cbn; [discriminate|].
  destruct (k' =? k) eqn:E; cbn.
  - intros _. apply N.eqb_eq in E. subst. reflexivity.
  - intros H. f_equal. apply IH. exact H.
Qed.

(* ---- the view only reads four components ------------------------------------------------------- *)
Lemma tok_view_eq s s' k :
  alookup k (st_tokens s') = alookup k (st_tokens s) ->
  filter (fun p => s_tok (snd p) =? k) (st_sessions s') = filter (fun p => s_tok (snd p) =? k) (st_sessions s) ->
  filter (fun p => so_tok (snd p) =? k) (st_sobjs s') = filter (fun p => so_tok (snd p) =? k) (st_sobjs s) ->
  filter (fun p => h_tok (snd p) =? k) (st_handles s') = filter (fun p => h_tok (snd p) =? k) (st_handles s) ->
  tok_view s' k = tok_view s k.
Proof. unfold tok_view. intros -> -> -> ->. reflexivity. Qed.

Lemma tok_view_proj s s' k :
  st_tokens s' = st_tokens s -> st_sessions s' = st_sessions s -> st_sobjs s' = st_sobjs s -> st_handles s' = st_handles s ->
  tok_view s' k = tok_view s k.
Proof. unfold tok_view. intros -> -> -> ->. reflexivity. Qed.

Lemma view_upd_token s j f k : j <> k -> tok_view (upd_token s j f) k = tok_view s k.
Proof.
  intros Hne. apply tok_view_eq; rewrite ?upd_token_sessions, ?upd_token_sobjs, ?upd_token_handles; try reflexivity.
  rewrite upd_token_lookup. destruct (j =? k) eqn:E; [apply N.eqb_eq in E; contradiction|reflexivity].
Qed.

Lemma close_all_sobjs s k :
  st_sobjs (close_all s k) = filter (fun p => negb (so_tok (snd p) =? k)) (st_sobjs s).
Proof. unfold close_all. rewrite upd_token_sobjs. reflexivity. Qed.

Lemma close_all_tokens s j k : j <> k -> alookup k (st_tokens (close_all s j)) = alookup k (st_tokens s).
Proof.
  intros Hne. unfold close_all. rewrite upd_token_lookup.
  destruct (j =? k) eqn:E; [apply N.eqb_eq in E; contradiction|reflexivity].
Qed.

Lemma neq_eqb_false j k : j <> k -> (j =? k) = false.
Proof. intros H. apply N.eqb_neq. exact H. Qed.

Lemma view_close_all s j k : j <> k -> tok_view (close_all s j) k = tok_view s k.
Proof.
  intros Hne. apply tok_view_eq.
  - apply close_all_tokens. exact Hne.
  - rewrite close_all_sessions. apply filter_filter_In. intros [h x] _ H. cbn in *. apply N.eqb_eq in H. rewrite H.
    rewrite (neq_eqb_false k j) by congruence. reflexivity.
  - rewrite close_all_sobjs. apply filter_filter_In. intros [h x] _ H. cbn in *. apply N.eqb_eq in H. rewrite H.
    rewrite (neq_eqb_false k j) by congruence. reflexivity.
  - destruct (close_all_handles s j) as [E _]. rewrite E. apply filter_filter_In. intros [h x] _ H. cbn in *.
    apply N.eqb_eq in H. rewrite H. rewrite (neq_eqb_false k j) by congruence. reflexivity.
Qed.

Lemma upd_session_sobjs s h f : st_sobjs (upd_session s h f) = st_sobjs s.
Proof. unfold upd_session. destruct (alookup h (st_sessions s)); reflexivity. Qed.

Lemma view_upd_session s h f x k :
  alookup h (st_sessions s) = Some x -> s_tok x <> k -> s_tok (f x) = s_tok x ->
  tok_view (upd_session s h f) k = tok_view s k.
Proof.
  intros Hx Hne Hf. apply tok_view_eq; rewrite ?upd_session_tokens, ?upd_session_sobjs, ?upd_session_handles; try reflexivity.
  unfold upd_session. rewrite Hx. simp_state. eapply filter_aset_off; [exact Hx| |]; cbn; rewrite ?Hf; apply neq_eqb_false; exact Hne.
Qed.

Lemma view_add_handle s e k : h_tok e <> k -> tok_view (fst (add_handle s e)) k = tok_view s k.
Proof.
  intros Hne. unfold add_handle. cbn [fst]. apply tok_view_eq; simp_state; try reflexivity.
  apply filter_snoc_off. cbn. apply neq_eqb_false. exact Hne.
Qed.

Lemma view_add_obj_handle s j ss p oid k : j <> k -> tok_view (fst (add_obj_handle s j ss p oid)) k = tok_view s k.
Proof.
  intros Hne. unfold add_obj_handle. destruct (find_obj_handle s oid); [reflexivity|]. apply view_add_handle. exact Hne.
Qed.

Lemma view_find_loop tc pub j hs tm cands k : j <> k -> forall s acc s' r,
  find_loop tc pub j hs tm cands s acc = Some (s', r) -> tok_view s' k = tok_view s k.
Proof.
  intros Hne. induction cands as [|[[oid istok] o] rest IH]; intros s acc s' r; cbn.
  - intros H. inversion H. subst. reflexivity.
  - destruct (pub && o_private o); [apply IH|].
    destruct (match_template tc o tm) as [[|]|]; [|apply IH|discriminate].
    destruct (add_obj_handle s j (if o_token o then CK_INVALID_HANDLE else hs) (o_private o) oid) as [s1 h] eqn:E.
    intros H. apply IH in H. rewrite H.
    assert (E1 : s1 = fst (add_obj_handle s j (if o_token o then CK_INVALID_HANDLE else hs) (o_private o) oid)) by (rewrite E; reflexivity).
    subst s1. apply view_add_obj_handle. exact Hne.
Qed.

(* ---- the linkage invariant --------------------------------------------------------------------------- *)
Definition inv_sess_keys (s : state) : Prop := forall h, In h (akeys (st_sessions s)) -> h <= st_counter s.
Definition inv_sobj_keys (s : state) : Prop :=
  (forall i, In i (akeys (st_sobjs s)) -> i < st_next_oid s) /\ NoDup (akeys (st_sobjs s)).
Definition inv_link (s : state) : Prop :=
  (* the handle entry of a session carries the session's token *)
  (forall h e x, In (h, e) (st_handles s) -> In (h, x) (st_sessions s) -> h_tok e = s_tok x) /\
  (* the owner recorded in a handle entry is an already issued handle of the same token *)
  (forall oh e, In (oh, e) (st_handles s) ->
     h_sess e <= st_counter s /\ forall es, In (h_sess e, es) (st_handles s) -> h_tok es = h_tok e) /\
  (* the same for the owner recorded in a session object *)
  (forall oid so, In (oid, so) (st_sobjs s) ->
     so_sess so <= st_counter s /\ forall es, In (so_sess so, es) (st_handles s) -> h_tok es = so_tok so).
Definition inv_tok (s : state) : Prop := inv_handles s /\ inv_sess_keys s /\ inv_sobj_keys s /\ inv_link s.

Lemma inv_tok_init : inv_tok init_state.
Proof.
  split; [apply inv_handles_init|]. split; [intros h []|]. split; [split; [intros i []|constructor]|].
  split; [intros h e x []|]. split; [intros oh e []|intros oid so []].
Qed.

Lemma inv_tok_empty s :
  st_handles s = [] -> st_sessions s = [] -> st_sobjs s = [] -> inv_tok s.
Proof.
  intros E1 E2 E3. unfold inv_tok, inv_handles, inv_sess_keys, inv_sobj_keys, inv_link. rewrite E1, E2, E3. cbn.
  repeat split; try (intros; contradiction); constructor.
Qed.

Lemma inv_tok_same s s' :
  st_handles s' = st_handles s -> st_sessions s' = st_sessions s -> st_sobjs s' = st_sobjs s ->
  st_counter s' = st_counter s -> st_next_oid s <= st_next_oid s' -> inv_tok s -> inv_tok s'.
Proof.
  unfold inv_tok, inv_handles, inv_sess_keys, inv_sobj_keys, inv_link. intros -> -> -> -> Hle.
  intros (H1 & H2 & [H3 H3'] & H4). split; [exact H1|]. split; [exact H2|]. split; [|exact H4].
  split; [|exact H3']. intros i Hi. apply H3 in Hi. lia.
Qed.

(* everything shrinks (entries are deleted, or replaced by entries with the same token / owner) *)
Lemma inv_tok_sub s s' :
  inv_tok s ->
  st_counter s <= st_counter s' -> st_next_oid s <= st_next_oid s' ->
  (forall p, In p (st_handles s') -> In p (st_handles s)) -> NoDup (akeys (st_handles s')) ->
  (forall h x', In (h, x') (st_sessions s') -> exists x, In (h, x) (st_sessions s) /\ s_tok x' = s_tok x) ->
  (forall i so', In (i, so') (st_sobjs s') ->
     exists so, In (i, so) (st_sobjs s) /\ so_tok so' = so_tok so /\ so_sess so' = so_sess so) ->
  NoDup (akeys (st_sobjs s')) ->
  inv_tok s'.
Proof.
  intros ([Hb Hnd] & Hs & [Ho Hond] & (L1 & L2 & L3)) Hc Hn Hh Hnd' Hss Hso Hond'.
  split; [|split; [|split; [|split; [|split]]]].
  - split; [|exact Hnd']. intros h H. apply akeys_In in H. destruct H as [e H]. apply Hh in H.
    apply In_akeys in H. apply Hb in H. lia.
  - intros h H. apply akeys_In in H. destruct H as [x' H]. apply Hss in H. destruct H as [x [H _]].
    apply In_akeys in H. apply Hs in H. lia.
  - split; [|exact Hond']. intros i H. apply akeys_In in H. destruct H as [so' H]. apply Hso in H.
    destruct H as [so [H _]]. apply In_akeys in H. apply Ho in H. lia.
  - intros h e x' H1 H2. apply Hh in H1. apply Hss in H2. destruct H2 as [x [H2 E]]. rewrite E. eapply L1; eauto.
  - intros oh e H. apply Hh in H. destruct (L2 oh e H) as [A B]. split; [lia|]. intros es Hes. apply B. apply Hh. exact Hes.
  - intros oid so' H. apply Hso in H. destruct H as [so [H [E1 E2]]]. destruct (L3 oid so H) as [A B].
    rewrite E1, E2. split; [lia|]. intros es Hes. apply B. apply Hh. exact Hes.
Qed.

(* a new handle entry whose owner is 0 or a live session of the same token *)
Lemma inv_tok_add_handle s e :
  inv_tok s ->
  (h_sess e = 0 \/ exists x, In (h_sess e, x) (st_sessions s) /\ s_tok x = h_tok e) ->
  inv_tok (fst (add_handle s e)).
Proof.
  intros Hinv Hown. pose proof Hinv as (Hh & Hs & [Ho Hond] & (L1 & L2 & L3)).
  split; [apply inv_handles_add; exact Hh|]. destruct Hh as [Hb Hnd].
  unfold add_handle, inv_sess_keys, inv_sobj_keys, inv_link. cbn [fst]. split; [|split; [|split; [|split]]]; simp_state.
  - intros h H. apply Hs in H. lia.
  - split; assumption.
  - intros h e' x H1 H2. apply in_app_or in H1. destruct H1 as [H1|[H1|[]]]; [eapply L1; eauto|].
    inversion H1; subst. apply In_akeys in H2. apply Hs in H2. lia.
  - assert (Hnew : h_sess e <= st_counter s /\ forall es, In (h_sess e, es) (st_handles s) -> h_tok es = h_tok e).
    { destruct Hown as [E|[x [Hx Ex]]].
      - rewrite E. split; [lia|]. intros es H. apply In_akeys in H. apply Hb in H. lia.
      - split; [apply In_akeys in Hx; apply Hs in Hx; exact Hx|]. intros es H. rewrite <- Ex. eapply L1; eauto. }
    intros oh e' H. apply in_app_or in H. destruct H as [H|[H|[]]].
    + destruct (L2 oh e' H) as [A B]. split; [lia|]. intros es Hes. apply in_app_or in Hes. destruct Hes as [Hes|[Hes|[]]]; [auto|].
      inversion Hes. lia.
    + inversion H; subst. destruct Hnew as [A B]. split; [lia|]. intros es Hes. apply in_app_or in Hes.
      destruct Hes as [Hes|[Hes|[]]]; [auto|]. inversion Hes. lia.
  - intros oid so H. destruct (L3 oid so H) as [A B]. split; [lia|]. intros es Hes. apply in_app_or in Hes.
    destruct Hes as [Hes|[Hes|[]]]; [auto|]. inversion Hes. lia.
Qed.

Lemma inv_tok_add_obj_handle s k ss p oid :
  inv_tok s -> (ss = 0 \/ exists x, In (ss, x) (st_sessions s) /\ s_tok x = k) ->
  inv_tok (fst (add_obj_handle s k ss p oid)).
Proof.
  intros Hinv Hown. unfold add_obj_handle. destruct (find_obj_handle s oid); [exact Hinv|].
  apply inv_tok_add_handle; [exact Hinv|]. cbn. exact Hown.
Qed.

(* C_OpenSession: one new session handle entry and one new session with the same key and token *)
Lemma inv_tok_open s k rw op fnd :
  inv_tok s ->
  inv_tok (set_sessions (fst (add_handle s (mkHandle CKH_SESSION k CK_INVALID_HANDLE false 0)))
             (st_sessions s ++ [(st_counter s + 1, mkSession k rw op fnd)])).
Proof.
  intros Hinv. pose proof Hinv as ([Hb Hnd] & Hs & _).
  assert (H1 : inv_tok (fst (add_handle s (mkHandle CKH_SESSION k CK_INVALID_HANDLE false 0)))).
  { apply inv_tok_add_handle; [exact Hinv|]. left. reflexivity. }
  destruct H1 as (Hh' & Hs' & Ho' & (L1 & L2 & L3)).
  unfold inv_tok, add_handle, inv_sess_keys, inv_sobj_keys, inv_link in *. cbn [fst] in *. split; [exact Hh'|]. split; [|split; [exact Ho'|split; [|split; [exact L2|exact L3]]]]; simp_state.
  - intros h H. rewrite akeys_app in H. apply in_app_or in H. destruct H as [H|[H|[]]]; [apply Hs in H; lia|]. cbn in H. lia.
  - intros h e x H1 H2. apply in_app_or in H2. destruct H2 as [H2|[H2|[]]]; [eapply L1; eauto|].
    inversion H2; subst. apply in_app_or in H1. destruct H1 as [H1|[H1|[]]].
    + apply In_akeys in H1. apply Hb in H1. lia.
    + inversion H1. reflexivity.
Qed.

(* a new session object owned by a live session, with the next object id *)
Lemma inv_tok_add_sobj s h x priv o :
  inv_tok s -> In (h, x) (st_sessions s) ->
  inv_tok (set_sobjs (set_next_oid s (st_next_oid s + 1)) (st_sobjs s ++ [(st_next_oid s, mkSObj (s_tok x) h priv o)])).
Proof.
  intros (Hh & Hs & [Ho Hond] & (L1 & L2 & L3)) Hx.
  unfold inv_tok, inv_sess_keys, inv_sobj_keys, inv_link in *.
  split; [exact Hh|]. split; [exact Hs|]. split; [|split; [exact L1|split; [exact L2|]]]; simp_state.
  - split.
    + intros i H. rewrite akeys_app in H. apply in_app_or in H. destruct H as [H|[H|[]]]; [apply Ho in H; lia|]. cbn in H. lia.
    + rewrite akeys_app. cbn. apply NoDup_snoc; [exact Hond|]. intro H. apply Ho in H. lia.
  - intros oid so H. apply in_app_or in H. destruct H as [H|[H|[]]]; [apply L3 with oid; exact H|].
    inversion H; subst. cbn. split; [apply In_akeys in Hx; apply Hs in Hx; exact Hx|].
    intros es Hes. eapply L1; eauto.
Qed.

Lemma find_loop_inv_tok tc pub k hs tm cands : forall s acc s' r,
  find_loop tc pub k hs tm cands s acc = Some (s', r) ->
  inv_tok s -> (exists x, In (hs, x) (st_sessions s) /\ s_tok x = k) -> inv_tok s'.
Proof.
  induction cands as [|[[oid istok] o] rest IH]; intros s acc s' r; cbn.
  - intros H. inversion H. subst. auto.
  - destruct (pub && o_private o); [apply IH|].
    destruct (match_template tc o tm) as [[|]|]; [|apply IH|discriminate].
    destruct (add_obj_handle s k (if o_token o then CK_INVALID_HANDLE else hs) (o_private o) oid) as [s1 h] eqn:E.
    intros H Hi Hx.
    assert (E1 : s1 = fst (add_obj_handle s k (if o_token o then CK_INVALID_HANDLE else hs) (o_private o) oid)) by (rewrite E; reflexivity).
    eapply IH; [exact H| |].
    + subst s1. apply inv_tok_add_obj_handle; [exact Hi|]. destruct (o_token o); [left; reflexivity|right; exact Hx].
    + subst s1. rewrite add_obj_handle_sessions. exact Hx.
Qed.

(* what [isolation] uses of the invariant *)
Lemma get_session_In s h x :
  get_session s h = Some x ->
  exists e, alookup h (st_handles s) = Some e /\ In (h, e) (st_handles s) /\ alookup h (st_sessions s) = Some x /\ In (h, x) (st_sessions s).
Proof.
  unfold get_session. destruct (alookup h (st_handles s)) as [e|] eqn:E; [|discriminate].
  destruct (h_kind e =? CKH_SESSION); [|discriminate]. intros H. exists e.
  repeat split; auto using alookup_In.
Qed.

Lemma inv_session_handle s h x e :
  inv_tok s -> get_session s h = Some x -> In (h, e) (st_handles s) -> h_tok e = s_tok x.
Proof.
  intros (_ & _ & _ & (L1 & _)) Hx He. apply get_session_In in Hx. destruct Hx as (e0 & _ & _ & _ & Hx). eapply L1; eauto.
Qed.

Lemma inv_owned_handle s h x oh e :
  inv_tok s -> get_session s h = Some x -> In (oh, e) (st_handles s) -> h_sess e = h -> h_tok e = s_tok x.
Proof.
  intros Hinv Hx He Eh. pose proof Hinv as (_ & _ & _ & (_ & L2 & _)).
  pose proof (get_session_In _ _ _ Hx) as (e0 & _ & He0 & _ & _).
  destruct (L2 oh e He) as [_ B]. rewrite <- (B e0) by (rewrite Eh; exact He0).
  eapply inv_session_handle; eauto.
Qed.

Lemma inv_owned_sobj s h x oid so :
  inv_tok s -> get_session s h = Some x -> In (oid, so) (st_sobjs s) -> so_sess so = h -> so_tok so = s_tok x.
Proof.
  intros Hinv Hx Hso Eh. pose proof Hinv as (_ & _ & _ & (_ & _ & L3)).
  pose proof (get_session_In _ _ _ Hx) as (e0 & _ & He0 & _ & _).
  destruct (L3 oid so Hso) as [_ B]. rewrite <- (B e0) by (rewrite Eh; exact He0).
  eapply inv_session_handle; eauto.
Qed.

Lemma inv_session_unique_tok s h x x' :
  inv_tok s -> get_session s h = Some x -> In (h, x') (st_sessions s) -> s_tok x' = s_tok x.
Proof.
  intros Hinv Hx Hx'. pose proof Hinv as (_ & _ & _ & (L1 & _)).
  pose proof (get_session_In _ _ _ Hx) as (e0 & _ & He0 & _ & Hin).
  rewrite <- (L1 h e0 x' He0 Hx'). eapply L1; eauto.
Qed.

(* ---- the invariant is kept by every step ------------------------------------------------------------ *)
Lemma upd_token_next_oid s k f : st_next_oid (upd_token s k f) = st_next_oid s.
Proof. unfold upd_token. destruct (alookup k (st_tokens s)); reflexivity. Qed.
Lemma upd_session_next_oid s h f : st_next_oid (upd_session s h f) = st_next_oid s.
Proof. unfold upd_session. destruct (alookup h (st_sessions s)); reflexivity. Qed.

Lemma inv_tok_upd_token s k f : inv_tok s -> inv_tok (upd_token s k f).
Proof.
  apply inv_tok_same; rewrite ?upd_token_handles, ?upd_token_sessions, ?upd_token_sobjs, ?upd_token_counter, ?upd_token_next_oid;
    first [reflexivity|lia].
Qed.

Lemma In_sessions_self s : forall h x', In (h, x') (st_sessions s) -> exists x, In (h, x) (st_sessions s) /\ s_tok x' = s_tok x.
Proof. intros h x' H. exists x'. auto. Qed.
Lemma In_sobjs_self s : forall i so', In (i, so') (st_sobjs s) ->
  exists so, In (i, so) (st_sobjs s) /\ so_tok so' = so_tok so /\ so_sess so' = so_sess so.
Proof. intros i so' H. exists so'. auto. Qed.

Lemma inv_tok_filters s s' fh fs fo :
  inv_tok s ->
  st_handles s' = filter fh (st_handles s) -> st_sessions s' = filter fs (st_sessions s) -> st_sobjs s' = filter fo (st_sobjs s) ->
  st_counter s' = st_counter s -> st_next_oid s' = st_next_oid s -> inv_tok s'.
Proof.
  intros Hinv E1 E2 E3 E4 E5. pose proof Hinv as ([_ Hnd] & _ & [_ Hond] & _).
  apply inv_tok_sub with s; try exact Hinv; rewrite ?E1, ?E2, ?E3, ?E4, ?E5; try lia.
  - intros p H. apply filter_In in H. tauto.
  - apply NoDup_akeys_filter. exact Hnd.
  - intros h x' H. apply filter_In in H. exists x'. tauto.
  - intros i so' H. apply filter_In in H. exists so'. tauto.
  - apply NoDup_akeys_filter. exact Hond.
Qed.

Lemma filter_true {A} (l : list A) : filter (fun _ => true) l = l.
Proof. induction l as [|a r IH]; cbn; [reflexivity|rewrite IH; reflexivity]. Qed.

Lemma close_all_next_oid s k : st_next_oid (close_all s k) = st_next_oid s.
Proof. unfold close_all. rewrite upd_token_next_oid. reflexivity. Qed.

Lemma inv_tok_close_all s k : inv_tok s -> inv_tok (close_all s k).
Proof.
  intros Hinv. destruct (close_all_handles s k) as [E1 E2].
  eapply inv_tok_filters; [exact Hinv|exact E1|apply close_all_sessions|apply close_all_sobjs|exact E2|apply close_all_next_oid].
Qed.

Lemma inv_tok_upd_session s h f :
  inv_tok s -> (forall x, s_tok (f x) = s_tok x) -> inv_tok (upd_session s h f).
Proof.
  intros Hinv Hf. pose proof Hinv as ([_ Hnd] & _ & [_ Hond] & _).
  apply inv_tok_sub with s; try exact Hinv;
    rewrite ?upd_session_handles, ?upd_session_counter, ?upd_session_sobjs, ?upd_session_next_oid; try lia; auto using In_sobjs_self.
  unfold upd_session. destruct (alookup h (st_sessions s)) as [x|] eqn:E; simp_state; [|apply In_sessions_self].
  intros h' x' H. apply In_aset in H. destruct H as [H|H]; [|exists x'; auto].
  inversion H; subst. exists x. split; [apply alookup_In; exact E|apply Hf].
Qed.

Lemma del_object_next_oid s l : st_next_oid (del_object s l) = st_next_oid s.
Proof. destruct l; cbn; [apply upd_token_next_oid|reflexivity]. Qed.
Lemma put_object_next_oid s l o : st_next_oid (put_object s l o) = st_next_oid s.
Proof. destruct l; cbn; [apply upd_token_next_oid|]. destruct (alookup oid (st_sobjs s)); reflexivity. Qed.

Lemma inv_tok_del_object s l : inv_tok s -> inv_tok (del_object s l).
Proof.
  intros Hinv. destruct l; cbn [del_object]; [apply inv_tok_upd_token; exact Hinv|].
  eapply inv_tok_filters with (fh := fun _ => true) (fs := fun _ => true) (fo := fun p => negb (fst p =? oid));
    [exact Hinv| | | | |]; simp_state; rewrite ?filter_true; reflexivity.
Qed.

Lemma inv_tok_put_object s l o : inv_tok s -> inv_tok (put_object s l o).
Proof.
  intros Hinv. destruct l; cbn [put_object]; [apply inv_tok_upd_token; exact Hinv|].
  destruct (alookup oid (st_sobjs s)) as [so|] eqn:E; [|exact Hinv].
  pose proof Hinv as ([_ Hnd] & _ & [_ Hond] & _).
  apply inv_tok_sub with s; try exact Hinv; simp_state; try lia; auto using In_sessions_self.
  - intros i so' H. apply In_aset in H. destruct H as [H|H]; [|exists so'; auto].
    inversion H; subst. exists so. split; [apply alookup_In; exact E|auto].
  - erewrite akeys_aset_same by exact E. exact Hond.
Qed.

Lemma get_session_tok_In s h x : get_session s h = Some x -> exists x0, In (h, x0) (st_sessions s) /\ s_tok x0 = s_tok x.
Proof. intros H. apply get_session_In in H. destruct H as (_ & _ & _ & _ & H). eauto. Qed.

Lemma step_inv_tok s o : inv_tok s -> inv_tok (fst (step s o)).
Proof.
  intros Hinv. destruct o; unfold step; cbn [fst];
  repeat (first [break_match | break_let]; cbn [fst]); try exact Hinv;
  try (apply inv_tok_empty; reflexivity).
  all: try match goal with H : add_handle _ _ = (_, _) |- _ => unfold add_handle in H; inversion H; subst; clear H end.
  all: try match goal with H : add_obj_handle ?a ?b ?c ?d ?e = (?s1, _) |- _ =>
         assert (E1 : s1 = fst (add_obj_handle a b c d e)) by (rewrite H; reflexivity); clear H; subst s1 end.
  all: try (apply inv_tok_upd_token; exact Hinv).
  all: try (apply inv_tok_close_all; exact Hinv).
  all: try (apply inv_tok_put_object; exact Hinv).
  all: try (apply inv_tok_upd_session; [exact Hinv|reflexivity]).
  all: try (eapply inv_tok_same; [| | | | |exact Hinv]; simp_state; first [reflexivity|lia]).
  - (* open *) apply (inv_tok_open s n _ SESSION_OP_NONE []). exact Hinv.
  - (* close, other sessions remain *)
    eapply inv_tok_filters with (fh := fun p => negb ((fst p =? h) || (h_kind (snd p) =? CKH_OBJECT) && (h_sess (snd p) =? h)))
      (fs := fun p => negb (fst p =? h)) (fo := fun p => negb (so_sess (snd p) =? h));
      [exact Hinv| | | | |]; unfold purge_handles, aremove; simp_state; reflexivity.
  - (* logout *)
    eapply inv_tok_filters with (s := upd_token s (s_tok s0) (fun t => set_t_login t LNone)) (fs := fun _ => true)
      (fh := fun p => negb ((h_kind (snd p) =? CKH_OBJECT) && (h_tok (snd p) =? s_tok s0) && h_priv (snd p)))
      (fo := fun p => negb ((so_tok (snd p) =? s_tok s0) && so_priv (snd p)));
      [apply inv_tok_upd_token; exact Hinv| | | | |]; unfold purge_handles; simp_state; rewrite ?filter_true; reflexivity.
  - (* create *)
    match goal with H : get_session s h = Some _ |- _ => apply get_session_tok_In in H; destruct H as (x0 & Hx0 & Ex0) end.
    destruct (negb (tmpl_bool CKA_TOKEN tm 0 =? 0)).
    + apply inv_tok_add_obj_handle; [|left; reflexivity]. apply inv_tok_upd_token.
      eapply inv_tok_same; [| | | | |exact Hinv]; simp_state; first [reflexivity|lia].
    + rewrite <- Ex0. apply inv_tok_add_obj_handle.
      * change (st_sobjs (set_next_oid s (st_next_oid s + 1))) with (st_sobjs s). apply inv_tok_add_sobj; assumption.
      * right. exists x0. simp_state. auto.
  - (* copy *)
    match goal with H : get_session s h = Some _ |- _ => apply get_session_tok_In in H; destruct H as (x0 & Hx0 & Ex0) end.
    match goal with |- context [if ?c then upd_token _ _ _ else _] => destruct c end.
    + apply inv_tok_add_obj_handle; [|left; reflexivity]. apply inv_tok_upd_token.
      eapply inv_tok_same; [| | | | |exact Hinv]; simp_state; first [reflexivity|lia].
    + rewrite <- Ex0. apply inv_tok_add_obj_handle.
      * change (st_sobjs (set_next_oid s (st_next_oid s + 1))) with (st_sobjs s). apply inv_tok_add_sobj; assumption.
      * right. exists x0. simp_state. auto.
  - (* destroy *) apply inv_tok_del_object.
    eapply inv_tok_filters with (fs := fun _ => true) (fo := fun _ => true) (fh := fun p => negb (fst p =? o));
      [exact Hinv| | | | |]; unfold aremove; simp_state; rewrite ?filter_true; reflexivity.
  - (* findinit *)
    apply inv_tok_upd_session; [|reflexivity].
    match goal with H : get_session s h = Some _ |- _ => apply get_session_tok_In in H; destruct H as (x0 & Hx0 & Ex0) end.
    eapply find_loop_inv_tok; [eassumption|exact Hinv|eauto].
Qed.

Theorem exec_inv_tok ops : forall s, inv_tok s -> inv_tok (exec s ops).
Proof.
  unfold exec. induction ops as [|o r IH]; intros s H; cbn [fold_left]; [exact H|].
  apply IH. apply step_inv_tok. exact H.
Qed.

Theorem inv_tok_reachable ops : inv_tok (exec init_state ops).
Proof. apply exec_inv_tok. apply inv_tok_init. Qed.

(* ---- isolation ------------------------------------------------------------------------------------------ *)
Lemma get_object_handle s oh e l o : get_object s oh = Some (e, l, o) -> alookup oh (st_handles s) = Some e.
Proof.
  unfold get_object. destruct (alookup oh (st_handles s)) as [e0|]; [|discriminate].
  repeat (break_match; try discriminate); intros H; inversion H; subst; reflexivity.
Qed.

Lemma get_object_sess s oh e oid o :
  get_object s oh = Some (e, LSess oid, o) -> exists so, alookup oid (st_sobjs s) = Some so.
Proof.
  unfold get_object. destruct (alookup oh (st_handles s)) as [e0|]; [|discriminate].
  repeat (break_match; try discriminate); intros H; inversion H; subst; eauto.
Qed.

Theorem isolation (s : state) (o : op) (j k : N) :
  inv_tok s -> st_init s = true -> addresses s o j -> j <> k ->
  tok_view (fst (step s o)) k = tok_view s k.
Proof.
  intros Hinv Hi Ha Hne.
  destruct o; cbn [addresses] in Ha; try contradiction; unfold step; rewrite Hi; cbn [negb]; cbv iota;
  try match type of Ha with
      | sess_on _ _ _ /\ _ => destruct Ha as [[x [Hx Hj]] Hoh]; rewrite Hx
      | sess_on _ _ _ => destruct Ha as [x [Hx Hj]]; rewrite Hx
      | resolve _ _ = _ => rewrite Ha
      end;
  repeat (first [break_match | break_let]; cbn [fst]); try reflexivity.
  all: try match goal with H : add_handle _ _ = (_, _) |- _ => unfold add_handle in H; inversion H; subst; clear H end.
  all: try match goal with H : add_obj_handle ?a ?b ?c ?d ?e = (?s1, _) |- _ =>
         assert (E1 : s1 = fst (add_obj_handle a b c d e)) by (rewrite H; reflexivity); clear H; subst s1 end.
  all: try (subst j; apply view_upd_token; assumption).
  all: try (subst j; apply view_close_all; assumption).
  all: try (apply view_close_all; assumption).
  all: try (subst j; eapply view_upd_session;
            [apply get_session_In in Hx; destruct Hx as (_ & _ & _ & Hx & _); exact Hx|assumption|reflexivity]).
  - (* re-initialisation of token j *)
    apply tok_view_eq; simp_state; try reflexivity. apply alookup_aset_neq. congruence.
  - (* open *)
    apply tok_view_eq; simp_state; try reflexivity; apply filter_snoc_off; cbn; apply neq_eqb_false; assumption.
  - (* close, other sessions of j remain: the session's handle, the handles and session objects it owns *)
    subst j. apply tok_view_eq; unfold purge_handles, aremove; simp_state; try reflexivity.
    + apply filter_filter_In. intros [h' x'] Hin Hk. cbn in *. apply N.eqb_eq in Hk.
      destruct (h' =? h) eqn:E; [|reflexivity]. apply N.eqb_eq in E. subst h'. exfalso. apply Hne.
      rewrite <- Hk. symmetry. eapply inv_session_unique_tok; eauto.
    + apply filter_filter_In. intros [i so] Hin Hk. cbn in *. apply N.eqb_eq in Hk.
      destruct (so_sess so =? h) eqn:E; [|reflexivity]. apply N.eqb_eq in E. exfalso. apply Hne.
      rewrite <- Hk. symmetry. eapply inv_owned_sobj; eauto.
    + apply filter_filter_In. intros [h' e] Hin Hk. cbn in *. apply N.eqb_eq in Hk.
      destruct (h' =? h) eqn:E.
      * apply N.eqb_eq in E. subst h'. exfalso. apply Hne. rewrite <- Hk. symmetry. eapply inv_session_handle; eauto.
      * destruct (h_sess e =? h) eqn:E2; [|rewrite andb_false_r; reflexivity].
        apply N.eqb_eq in E2. exfalso. apply Hne. rewrite <- Hk. symmetry. eapply inv_owned_handle; eauto.
  - (* logout *)
    subst j. rewrite <- (view_upd_token s (s_tok x) (fun t => set_t_login t LNone) k Hne).
    apply tok_view_eq; unfold purge_handles; simp_state; try reflexivity.
    + apply filter_filter_In. intros [i so] _ Hk. cbn in *. apply N.eqb_eq in Hk. rewrite Hk.
      rewrite (neq_eqb_false k (s_tok x)) by congruence. reflexivity.
    + apply filter_filter_In. intros [i e] _ Hk. cbn in *. apply N.eqb_eq in Hk. rewrite Hk.
      rewrite (neq_eqb_false k (s_tok x)) by congruence. rewrite andb_false_r. reflexivity.
  - (* create *)
    subst j. rewrite view_add_obj_handle by assumption. destruct (negb (tmpl_bool CKA_TOKEN tm 0 =? 0)).
    + rewrite view_upd_token by assumption. apply tok_view_proj; reflexivity.
    + apply tok_view_eq; simp_state; try reflexivity. apply filter_snoc_off. cbn. apply neq_eqb_false. assumption.
  - (* copy *)
    subst j. rewrite view_add_obj_handle by assumption.
    match goal with |- context [if ?c then upd_token _ _ _ else _] => destruct c end.
    + rewrite view_upd_token by assumption. apply tok_view_proj; reflexivity.
    + apply tok_view_eq; simp_state; try reflexivity. apply filter_snoc_off. cbn. apply neq_eqb_false. assumption.
  - (* destroy *)
    match goal with H : get_object s _ = Some _ |- _ => pose proof (Hoh _ _ _ H) as [He Hl]; pose proof (get_object_handle _ _ _ _ _ H) as Hh;
      pose proof H as Hobj end.
    pose proof Hinv as ([_ Hnd] & _ & [_ Hond] & _).
    transitivity (tok_view (set_handles s (aremove o (st_handles s))) k).
    + destruct o1 as [k0 oid|oid]; cbn [del_object].
      * subst k0. apply view_upd_token. exact Hne.
      * apply tok_view_eq; simp_state; try reflexivity. unfold aremove. apply filter_filter_In.
        intros [i so'] Hin Hk. cbn in *. apply N.eqb_eq in Hk. destruct (i =? oid) eqn:E; [|reflexivity].
        apply N.eqb_eq in E. subst i. exfalso. apply get_object_sess in Hobj. destruct Hobj as [so Hso].
        rewrite (nodup_lookup_In _ _ _ _ Hond Hso Hin) in Hk. rewrite (Hl so Hso) in Hk. contradiction.
    + apply tok_view_eq; simp_state; try reflexivity. unfold aremove. apply filter_filter_In.
      intros [i e'] Hin Hk. cbn in *. apply N.eqb_eq in Hk. destruct (i =? o) eqn:E; [|reflexivity].
      apply N.eqb_eq in E. subst i. exfalso. rewrite (nodup_lookup_In _ _ _ _ Hnd Hh Hin) in Hk. congruence.
  - (* setattr *)
    match goal with H : get_object s _ = Some _ |- _ => pose proof (Hoh _ _ _ H) as [He Hl] end.
    destruct o1 as [k0 oid|oid]; cbn [put_object].
    + subst k0. apply view_upd_token. exact Hne.
    + destruct (alookup oid (st_sobjs s)) as [so|] eqn:Eso; [|reflexivity].
      apply tok_view_eq; simp_state; try reflexivity.
      eapply filter_aset_off; [exact Eso| |]; cbn; rewrite (Hl so eq_refl); apply neq_eqb_false; exact Hne.
  - (* findinit *)
    subst j.
    match goal with H : find_loop _ _ _ _ _ _ _ _ = Some _ |- _ =>
      pose proof (find_loop_frame _ _ _ _ _ _ _ _ _ _ H) as (F1 & _); pose proof (view_find_loop _ _ _ _ _ _ k Hne _ _ _ _ H) as F2 end.
    rewrite <- F2. eapply view_upd_session; [|exact Hne|reflexivity].
    rewrite F1. apply get_session_In in Hx. destruct Hx as (_ & _ & _ & Hx & _). exact Hx.
Qed.

(* before C_Initialize nothing but a restart changes the state, so the initialisation hypothesis can go *)
Lemma step_uninit (s : state) (o : op) : st_init s = false -> is_restart o = false -> fst (step s o) = s.
Proof. intros Hi Hr. destruct o; try discriminate Hr; unfold step; rewrite Hi; reflexivity. Qed.

Corollary isolation_any (s : state) (o : op) (j k : N) :
  inv_tok s -> addresses s o j -> j <> k -> tok_view (fst (step s o)) k = tok_view s k.
Proof.
  intros Hinv Ha Hne. destruct (st_init s) eqn:Hi; [eapply isolation; eauto|].
  rewrite step_uninit; [reflexivity|exact Hi|]. destruct o; cbn in Ha; try contradiction; reflexivity.
Qed.

(* the invariant is a real hypothesis: in an (unreachable) state whose session handle entry carries
   another token than the session, closing the session removes a handle of that other token *)
Lemma isolation_needs_inv_refuted :
  exists s o j k, st_init s = true /\ addresses s o j /\ j <> k /\ tok_view (fst (step s o)) k <> tok_view s k.
Proof.
  exists (mkState true [(0, mkToken [1;2;3;4] None LNone 1 []); (1, mkToken [1;2;3;4] None LNone 2 [])]
            [(1, mkSession 0 true 0 []); (2, mkSession 0 true 0 [])]
            [(1, mkHandle CKH_SESSION 1 0 false 0); (2, mkHandle CKH_SESSION 0 0 false 0)] 2 [] 1 3),
         (OClose 1), 0, 1.
  split; [reflexivity|]. split; [exists (mkSession 0 true 0 []); split; reflexivity|]. split; [discriminate|].
  vm_compute. discriminate.
Qed.

Corollary isolation_reachable (ops : list op) (o : op) (j k : N) :
  let s := exec init_state ops in
  st_init s = true -> addresses s o j -> j <> k -> tok_view (fst (step s o)) k = tok_view s k.
Proof. intros s. apply isolation. apply inv_tok_reachable. Qed.

(* ---- isolation over a history ---------------------------------------------------------------------- *)
(* every operation of the list addresses, in the state where it runs, some token other than k *)
Fixpoint addresses_other (s : state) (ops : list op) (k : N) : Prop :=
  match ops with
  | [] => True
  | o :: r => (exists j, addresses s o j /\ j <> k) /\ addresses_other (fst (step s o)) r k
  end.

Lemma addresses_not_restart s o j : addresses s o j -> is_restart o = false.
Proof. destruct o; cbn; intros H; try contradiction; reflexivity. Qed.

Theorem isolation_trace (ops : list op) : forall (s : state) (k : N),
  inv_tok s -> addresses_other s ops k -> tok_view (exec s ops) k = tok_view s k.
Proof.
  unfold exec. induction ops as [|o r IH]; intros s k Hinv Ha; cbn [fold_left]; [reflexivity|].
  destruct Ha as [[j [Ha Hne]] Hr]. rewrite IH.
  - eapply isolation_any; eauto.
  - apply step_inv_tok. exact Hinv.
  - exact Hr.
Qed.

Corollary isolation_trace_reachable (ops0 ops : list op) (k : N) :
  let s := exec init_state ops0 in
  addresses_other s ops k -> tok_view (exec s ops) k = tok_view s k.
Proof. intros s. apply isolation_trace. apply inv_tok_reachable. Qed.

(* ---- C_InitToken on the free slot: exactly one fresh token is appended -------------------------- *)
Theorem inittoken_fresh (s : state) (p : bytes) (label : N) :
  st_init s = true -> amem label (st_tokens s) = false -> pin_len_ok (blen p) = true ->
  let r := step s (OInitToken TFree (Some p) label) in
  snd r = RRv CKR_OK /\
  st_tokens (fst r) = st_tokens s ++ [(label, mkToken p None LNone (st_next_key s) [])] /\
  (forall k, k <> label -> tok_view (fst r) k = tok_view s k).
Proof.
  intros Hi Hm Hl. cbv zeta. unfold step. rewrite Hi. cbn [negb resolve]. cbv iota. rewrite Hl, Hm. cbn [negb fst snd].
  split; [reflexivity|]. split; [reflexivity|]. intros k Hne.
  apply tok_view_eq; simp_state; try reflexivity.
  rewrite alookup_app. destruct (alookup k (st_tokens s)); [reflexivity|]. cbn.
  rewrite (neq_eqb_false label k) by congruence. reflexivity.
Qed.

(* the fresh token has no user PIN, nobody logged in, no objects, a master key of its own, and the
   given SO PIN; afterwards the token exists *)
Corollary inittoken_fresh_lookup (s : state) (p : bytes) (label : N) :
  st_init s = true -> amem label (st_tokens s) = false -> pin_len_ok (blen p) = true ->
  alookup label (st_tokens (fst (step s (OInitToken TFree (Some p) label)))) = Some (mkToken p None LNone (st_next_key s) []).
Proof.
  intros Hi Hm Hl. destruct (inittoken_fresh s p label Hi Hm Hl) as (_ & E & _). rewrite E, alookup_app.
  unfold amem in Hm. destruct (alookup label (st_tokens s)); [discriminate|]. cbn. rewrite N.eqb_refl. reflexivity.
Qed.

(* ---- re-initialisation ------------------------------------------------------------------------------- *)
Lemma reinit_step (s : state) (k : N) (p : bytes) (t0 : token) :
  st_init s = true -> alookup k (st_tokens s) = Some t0 ->
  step s (OInitToken (TTok k) (Some p) k) =
  if existsb (fun q => s_tok (snd q) =? k) (st_sessions s) then (s, RRv CKR_SESSION_EXISTS)
  else if negb (pin_len_ok (blen p)) then (s, RRv CKR_PIN_INCORRECT)
  else if pin_ok (t_sopin t0) p
       then (set_tokens s (aset k (mkToken (t_sopin t0) None LNone (t_key t0) []) (st_tokens s)), RRv CKR_OK)
       else (s, RRv CKR_PIN_INCORRECT).
Proof.
  intros Hi Ht. unfold step. rewrite Hi. cbn [negb resolve]. cbv iota. unfold amem. rewrite Ht. cbv iota.
  rewrite Ht, N.eqb_refl. cbn [negb]. reflexivity.
Qed.

Theorem reinit_ok_iff (s : state) (k : N) (p : bytes) (t0 : token) :
  st_init s = true -> alookup k (st_tokens s) = Some t0 ->
  (snd (step s (OInitToken (TTok k) (Some p) k)) = RRv CKR_OK <->
   existsb (fun q => s_tok (snd q) =? k) (st_sessions s) = false /\ pin_len_ok (blen p) = true /\ pin_ok (t_sopin t0) p = true).
Proof.
  intros Hi Ht. rewrite (reinit_step s k p t0 Hi Ht).
  destruct (existsb _ (st_sessions s)); cbn [snd].
  - split; [discriminate|]. intros [H _]. discriminate.
  - destruct (pin_len_ok (blen p)); cbn [negb snd].
    + destruct (pin_ok (t_sopin t0) p); cbn [snd].
      * split; auto.
      * split; [discriminate|]. intros (_ & _ & H). discriminate.
    + split; [discriminate|]. intros (_ & H & _). discriminate.
Qed.

Theorem reinit_effect (s : state) (k : N) (p : bytes) (t0 : token) :
  st_init s = true -> alookup k (st_tokens s) = Some t0 ->
  let r := step s (OInitToken (TTok k) (Some p) k) in
  snd r = RRv CKR_OK ->
  alookup k (st_tokens (fst r)) = Some (mkToken (t_sopin t0) None LNone (t_key t0) []) /\
  st_sessions (fst r) = st_sessions s /\ st_handles (fst r) = st_handles s /\ st_sobjs (fst r) = st_sobjs s /\
  (forall k', k' <> k -> tok_view (fst r) k' = tok_view s k').
Proof.
  intros Hi Ht. cbv zeta. rewrite (reinit_step s k p t0 Hi Ht).
  destruct (existsb _ (st_sessions s)); cbn [fst snd]; [discriminate|].
  destruct (pin_len_ok (blen p)); cbn [negb fst snd]; [|discriminate].
  destruct (pin_ok (t_sopin t0) p); cbn [fst snd]; [|discriminate].
  intros _. simp_state. split; [apply alookup_aset_eq|]. repeat (split; [reflexivity|]).
  intros k' Hne. apply tok_view_eq; simp_state; try reflexivity. apply alookup_aset_neq. exact Hne.
Qed.

(* a refused re-initialisation changes nothing at all *)
Corollary reinit_refused_no_change (s : state) (k : N) (p : bytes) (t0 : token) :
  st_init s = true -> alookup k (st_tokens s) = Some t0 ->
  snd (step s (OInitToken (TTok k) (Some p) k)) <> RRv CKR_OK -> fst (step s (OInitToken (TTok k) (Some p) k)) = s.
Proof.
  intros Hi Ht. rewrite (reinit_step s k p t0 Hi Ht).
  repeat (break_match; cbn [fst snd]); try reflexivity. intros H. exfalso. apply H. reflexivity.
Qed.

(* ---- restart --------------------------------------------------------------------------------------------- *)
Lemma restart_lookup (s : state) (b : bool) (k : N) :
  alookup k (st_tokens (restart s b)) = option_map (fun t => set_t_login t LNone) (alookup k (st_tokens s)).
Proof.
  unfold restart. cbn [st_tokens]. induction (st_tokens s) as [|[a t] r IH]; cbn; [reflexivity|].
  destruct (a =? k); [reflexivity|exact IH].
Qed.

Theorem restart_view (s : state) (b : bool) :
  (forall k,
     option_map t_sopin (alookup k (st_tokens (restart s b))) = option_map t_sopin (alookup k (st_tokens s)) /\
     option_map t_userpin (alookup k (st_tokens (restart s b))) = option_map t_userpin (alookup k (st_tokens s)) /\
     option_map t_key (alookup k (st_tokens (restart s b))) = option_map t_key (alookup k (st_tokens s)) /\
     option_map t_objs (alookup k (st_tokens (restart s b))) = option_map t_objs (alookup k (st_tokens s)) /\
     option_map t_login (alookup k (st_tokens (restart s b))) = option_map (fun _ => LNone) (alookup k (st_tokens s))) /\
  akeys (st_tokens (restart s b)) = akeys (st_tokens s) /\
  st_sessions (restart s b) = [] /\ st_handles (restart s b) = [] /\ st_sobjs (restart s b) = [] /\
  st_init (restart s b) = b.
Proof.
  split; [|split; [|repeat split]].
  - intros k. rewrite restart_lookup. destruct (alookup k (st_tokens s)); cbn; repeat split; reflexivity.
  - unfold restart, akeys. cbn [st_tokens]. rewrite map_map. apply map_ext. reflexivity.
Qed.

(* ---- the hypotheses of [isolation] are satisfiable: two tokens, a session and an object on each ---- *)
Definition iso_pin : bytes := [49; 50; 51; 52].
Definition iso_tmpl (tok : N) : template :=
  [mkT CKA_CLASS (Some (le_encode 8 CKO_DATA)) 8; mkT CKA_TOKEN (Some [tok]) 1; mkT CKA_PRIVATE (Some [0]) 1;
   mkT CKA_VALUE (Some [7; 7]) 2].
Definition iso_ops : list op :=
  [OInit; OInitToken TFree (Some iso_pin) 0; OInitToken TFree (Some iso_pin) 1;
   OOpen (TTok 0) 6; OOpen (TTok 1) 6;
   OCreate 1 (iso_tmpl 1); OCreate 1 (iso_tmpl 0); OCreate 2 (iso_tmpl 1); OCreate 2 (iso_tmpl 0)].
Definition iso_state : state := exec init_state iso_ops.

Example isolation_example :
  st_init iso_state = true /\
  amem 0 (st_tokens iso_state) = true /\ amem 1 (st_tokens iso_state) = true /\
  (* destroying the session object of token 0 through its own session and handle addresses token 0 ... *)
  addresses iso_state (ODestroy 1 4) 0 /\ 0 <> 1 /\
  snd (step iso_state (ODestroy 1 4)) = RRv CKR_OK /\
  (* ... changes token 0 ... *)
  tok_view (fst (step iso_state (ODestroy 1 4))) 0 <> tok_view iso_state 0 /\
  (* ... and nothing of token 1, whose view is not empty *)
  tok_view (fst (step iso_state (ODestroy 1 4))) 1 = tok_view iso_state 1 /\
  length (snd (tok_view iso_state 1)) = 3%nat /\
  addresses iso_state (OLogin 1 CKU_SO (Some iso_pin)) 0 /\
  addresses iso_state (OInitToken (TTok 0) (Some iso_pin) 0) 0 /\
  addresses iso_state (OSetAttr 2 5 []) 1.
Proof.
  assert (Hs : forall h j x, get_session iso_state h = Some x -> s_tok x = j -> sess_on iso_state h j)
    by (intros h j x H1 H2; exists x; auto).
  assert (Hh : forall oh j r, get_object iso_state oh = Some r ->
             (let '(e, l, _) := r in h_tok e = j /\ match l with LTok k _ => k = j | LSess oid => forall so, alookup oid (st_sobjs iso_state) = Some so -> so_tok so = j end) ->
             handle_on iso_state oh j).
  { intros oh j [[e l] o] H1 H2 e' l' o' H3. rewrite H1 in H3. inversion H3; subst. exact H2. }
  split; [vm_compute; reflexivity|]. split; [vm_compute; reflexivity|]. split; [vm_compute; reflexivity|].
  split.
  { split; [eapply Hs; vm_compute; reflexivity|]. eapply Hh; [vm_compute; reflexivity|]. vm_compute.
    split; [reflexivity|]. intros so H. inversion H. reflexivity. }
  split; [discriminate|]. split; [vm_compute; reflexivity|]. split; [vm_compute; discriminate|].
  split; [vm_compute; reflexivity|]. split; [vm_compute; reflexivity|].
  split; [eapply Hs; vm_compute; reflexivity|]. split; [vm_compute; reflexivity|].
  split; [eapply Hs; vm_compute; reflexivity|]. eapply Hh; [vm_compute; reflexivity|]. vm_compute. split; reflexivity.
Qed.

(* and, by the theorem instead of by computation, for every continuation that stays on token 0 *)
Example isolation_example_thm (o : op) :
  addresses iso_state o 0 -> tok_view (fst (step iso_state o)) 1 = tok_view iso_state 1.
Proof.
  intros Ha. apply isolation with (j := 0); [exact (inv_tok_reachable iso_ops)|vm_compute; reflexivity|exact Ha|discriminate].
Qed.
