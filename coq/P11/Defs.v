(* P11/Defs.v — data types of the PKCS#11 state-machine model (no proofs here).

   Models: SoftHSM.cpp (session / login / object entry points), SessionManager, HandleManager,
   SessionObjectStore, Token, SecureDataManager (symbolically), Slot/SlotManager.
   Conventions: DESIGN.md §3.  Handles, lengths and flags are [N]; tokens are addressed by their
   index in [st_tokens] (the model's slot id; index = length is the free slot). *)
From Coq Require Import List NArith Bool.
From SoftHSM Require Import Gen_Const.
Import ListNotations.
Local Open Scope N_scope.

Definition bytes := list N.

Fixpoint bytes_eqb (a b : bytes) : bool :=
  match a, b with
  | [], [] => true
  | x :: a', y :: b' => (x =? y) && bytes_eqb a' b'
  | _, _ => false
  end.

Definition blen (b : bytes) : N := N.of_nat (length b).

(* ---- association lists keyed by N (insertion ordered) ---------------------------------------- *)
Section Assoc.
  Context {A : Type}.
  Fixpoint alookup (k : N) (l : list (N * A)) : option A :=
    match l with
    | [] => None
    | (k', v) :: r => if k' =? k then Some v else alookup k r
    end.
  Fixpoint aset (k : N) (v : A) (l : list (N * A)) : list (N * A) :=
    match l with
    | [] => [(k, v)]
    | (k', v') :: r => if k' =? k then (k, v) :: r else (k', v') :: aset k v r
    end.
  Definition aremove (k : N) (l : list (N * A)) : list (N * A) :=
    filter (fun p => negb (fst p =? k)) l.
  Definition amem (k : N) (l : list (N * A)) : bool :=
    match alookup k l with Some _ => true | None => false end.
End Assoc.

(* ---- stored attribute values (OSAttribute) ---------------------------------------------------- *)
(* [ABytes (Some mk) pt] is the symbolic ciphertext of [pt] under master key [mk] (perfect-encryption
   abstraction, DESIGN.md §3); [ABytes None b] is a clear byte string. *)
Inductive sattr :=               (* what may occur inside an attribute map (wrap/unwrap templates) *)
| SBool (b : bool)
| SULong (n : N)
| SBytes (b : bytes).

Inductive osattr :=
| ABool (b : bool)
| AULong (n : N)
| ABytes (enc : option N) (b : bytes)
| AMechs (l : list N)
| AMap (l : list (N * sattr)).

Definition obj := list (N * osattr).    (* attribute type -> value *)

Definition obj_bool (o : obj) (a : N) (dflt : bool) : bool :=
  match alookup a o with Some (ABool b) => b | _ => dflt end.
Definition obj_ulong (o : obj) (a : N) (dflt : N) : N :=
  match alookup a o with Some (AULong n) => n | _ => dflt end.

(* ---- tokens ---------------------------------------------------------------------------------------- *)
Inductive login := LNone | LSO | LUser.

Record token := mkToken {
  t_label   : bytes;              (* 32 bytes *)
  t_sopin   : option bytes;       (* the PIN the SO blob is wrapped under (ghost of the blob) *)
  t_userpin : option bytes;       (* None = user PIN not initialised *)
  t_flags   : N;                  (* CKA_OS_TOKENFLAGS as stored *)
  t_login   : login;
  t_mk      : N;                  (* identity of the master key wrapped in both blobs *)
  t_objs    : list (N * obj)      (* token objects, keyed by model object id *)
}.

(* ---- sessions, handles, session objects ----------------------------------------------------- *)
Record session := mkSession {
  s_slot   : nat;
  s_rw     : bool;
  s_op     : N;                   (* SESSION_OP_* *)
  s_find   : list N;              (* handles still to be returned by C_FindObjects, ascending *)
  s_reauth : bool
}.

Record hentry := mkHandle {
  h_kind : N;                     (* CKH_SESSION / CKH_OBJECT *)
  h_slot : nat;
  h_sess : N;                     (* owning session for session objects, CK_INVALID_HANDLE otherwise *)
  h_priv : bool;
  h_oid  : N                      (* object id (0 for sessions) *)
}.

Record sobj := mkSObj {
  so_slot : nat;
  so_sess : N;
  so_priv : bool;
  so_obj  : obj
}.

Record state := mkState {
  st_init     : bool;
  st_tokens   : list token;
  st_sessions : list (N * session);     (* keyed by the API session handle *)
  st_handles  : list (N * hentry);      (* HandleManager::handles, ascending by construction *)
  st_counter  : N;                      (* HandleManager::handleCounter *)
  st_sobjs    : list (N * sobj);        (* SessionObjectStore::objects, keyed by object id *)
  st_next_oid : N;
  st_next_mk  : N
}.

Definition init_state : state :=
  mkState false [] [] [] 0 [] 1 1.

(* record update helpers *)
Definition set_tokens (s : state) (ts : list token) : state :=
  mkState (st_init s) ts (st_sessions s) (st_handles s) (st_counter s) (st_sobjs s) (st_next_oid s) (st_next_mk s).
Definition set_sessions (s : state) (x : list (N * session)) : state :=
  mkState (st_init s) (st_tokens s) x (st_handles s) (st_counter s) (st_sobjs s) (st_next_oid s) (st_next_mk s).
Definition set_handles (s : state) (x : list (N * hentry)) : state :=
  mkState (st_init s) (st_tokens s) (st_sessions s) x (st_counter s) (st_sobjs s) (st_next_oid s) (st_next_mk s).
Definition set_counter (s : state) (c : N) : state :=
  mkState (st_init s) (st_tokens s) (st_sessions s) (st_handles s) c (st_sobjs s) (st_next_oid s) (st_next_mk s).
Definition set_sobjs (s : state) (x : list (N * sobj)) : state :=
  mkState (st_init s) (st_tokens s) (st_sessions s) (st_handles s) (st_counter s) x (st_next_oid s) (st_next_mk s).
Definition set_next_oid (s : state) (n : N) : state :=
  mkState (st_init s) (st_tokens s) (st_sessions s) (st_handles s) (st_counter s) (st_sobjs s) n (st_next_mk s).
Definition set_next_mk (s : state) (n : N) : state :=
  mkState (st_init s) (st_tokens s) (st_sessions s) (st_handles s) (st_counter s) (st_sobjs s) (st_next_oid s) n.

Definition set_t_login (t : token) (l : login) : token :=
  mkToken (t_label t) (t_sopin t) (t_userpin t) (t_flags t) l (t_mk t) (t_objs t).
Definition set_t_flags (t : token) (f : N) : token :=
  mkToken (t_label t) (t_sopin t) (t_userpin t) f (t_login t) (t_mk t) (t_objs t).
Definition set_t_objs (t : token) (o : list (N * obj)) : token :=
  mkToken (t_label t) (t_sopin t) (t_userpin t) (t_flags t) (t_login t) (t_mk t) o.
Definition set_t_userpin (t : token) (p : option bytes) : token :=
  mkToken (t_label t) (t_sopin t) p (t_flags t) (t_login t) (t_mk t) (t_objs t).
Definition set_t_sopin (t : token) (p : option bytes) : token :=
  mkToken (t_label t) p (t_userpin t) (t_flags t) (t_login t) (t_mk t) (t_objs t).

Fixpoint list_set {A} (n : nat) (x : A) (l : list A) : list A :=
  match l, n with
  | [], _ => []
  | _ :: r, O => x :: r
  | y :: r, S n' => y :: list_set n' x r
  end.

Definition upd_token (s : state) (k : nat) (f : token -> token) : state :=
  match nth_error (st_tokens s) k with
  | Some t => set_tokens s (list_set k (f t) (st_tokens s))
  | None => s
  end.

Definition upd_session (s : state) (h : N) (f : session -> session) : state :=
  match alookup h (st_sessions s) with
  | Some x => set_sessions s (aset h (f x) (st_sessions s))
  | None => s
  end.

Definition set_s_op (x : session) (op : N) (fnd : list N) : session :=
  mkSession (s_slot x) (s_rw x) op fnd (s_reauth x).
Definition set_s_reauth (x : session) (b : bool) : session :=
  mkSession (s_slot x) (s_rw x) (s_op x) (s_find x) b.

(* flag arithmetic on token flags *)
Definition fset (f b : N) : N := N.lor f b.
Definition fclr (f b : N) : N := N.ldiff f b.
Definition ftest (f b : N) : bool := negb (N.land f b =? 0).
