(* P11/Defs.v — data types of the PKCS#11 state-machine model (no proofs here).

   Models: SoftHSM.cpp (session / login / object entry points), SessionManager, HandleManager,
   SessionObjectStore, Token, SecureDataManager (symbolically), Slot/SlotManager.
   Conventions: DESIGN.md §3.  Handles, lengths and flags are [N]; tokens are addressed by the
   index k of their label "tok<k>" (the correspondence driver resolves slots by label). *)
From Coq Require Import List NArith Bool.
Import ListNotations.
Local Open Scope N_scope.

Definition bytes := list N.

Fixpoint bytes_eqb (a b : bytes) : bool :=
  match a, b with
  | [], [] => true
  | x :: a', y :: b' => (x =? y) && bytes_eqb a' b'
  | _, _ => false
  end.

Definition blen (b : bytes) : N := N.of_nat (length b).

(* ---- association lists keyed by N ------------------------------------------------------------ *)
Section Assoc.
  Context {A : Type}.
  Fixpoint alookup (k : N) (l : list (N * A)) : option A :=
    match l with
    | [] => None
    | (k', v) :: r => if k' =? k then Some v else alookup k r
    end.
  Fixpoint aset (k : N) (v : A) (l : list (N * A)) : list (N * A) :=
    match l with
    | [] => [(k, v)]
    | (k', v') :: r => if k' =? k then (k, v) :: r else (k', v') :: aset k v r
    end.
  Definition aremove (k : N) (l : list (N * A)) : list (N * A) :=
    filter (fun p => negb (fst p =? k)) l.
  Definition amem (k : N) (l : list (N * A)) : bool :=
    match alookup k l with Some _ => true | None => false end.
  Definition akeys (l : list (N * A)) : list N := map fst l.
End Assoc.

Definition nmem (x : N) (l : list N) : bool := existsb (N.eqb x) l.

(* ---- stored attribute values (OSAttribute) ---------------------------------------------------- *)
(* [ABytes (Some k) pt] is the symbolic ciphertext of [pt] under the master key with identity [k]
   (perfect-encryption abstraction, DESIGN.md §3); [ABytes None b] is a clear byte string. *)
Inductive sattr :=               (* what may occur inside an attribute map (wrap/unwrap templates) *)
| SBool (b : bool)
| SULong (n : N)
| SBytes (b : bytes).

Inductive osattr :=
| ABool (b : bool)
| AULong (n : N)
| ABytes (enc : option N) (b : bytes)
| AMechs (l : list N)
| AMap (l : list (N * sattr)).

Definition obj := list (N * osattr).    (* attribute type -> value *)

Definition obj_bool (o : obj) (a : N) (dflt : bool) : bool :=
  match alookup a o with Some (ABool b) => b | _ => dflt end.
Definition obj_ulong (o : obj) (a : N) (dflt : N) : N :=
  match alookup a o with Some (AULong n) => n | _ => dflt end.

Fixpoint le_decode (b : bytes) : N :=
  match b with [] => 0 | x :: r => x + 256 * le_decode r end.
Fixpoint le_encode (n : nat) (x : N) : bytes :=
  match n with O => [] | S k => (x mod 256) :: le_encode k (x / 256) end.
