(* P11/EntryModel.v — the core model's decisions ARE the code's decisions: for entry points that the translator expresses
   to the end (C_InitPIN, C_SetPIN, C_InitToken), the return code of the model's step equals the regenerated C++
   function applied to the abstraction of the model state.  This ties the model to the source by proof (T), where the
   K-api stream ties it by correspondence.  (C03, C04, C14) *)
From Coq Require Import List NArith Bool Lia.
From SoftHSM Require Import Gen_Const Gen_Pure Gen_Entry Defs Core AccessFacts StepFacts.
Import ListNotations.
Local Open Scope N_scope.

Definition ptr_of {A} (o : option A) : N := match o with Some _ => 1 | None => 0 end.
Definition len_of (o : option bytes) : N := match o with Some p => blen p | None => 0 end.

(* ---- C_InitPIN ------------------------------------------------------------------------------------------------------- *)
(* Token::initUserPIN answers CKR_OK once the session-level guards have passed (model: the PIN is stored) *)
Definition initpin_env (s : state) (h : N) (x : session) (pin : option bytes) : C_InitPIN.env :=
  fold_right (fun f e => f e) C_InitPIN.default
    [(C_InitPIN.set_handleManager_getSession (fun _ => 1));
     (C_InitPIN.set_session_getState (sess_state s x));
     (C_InitPIN.set_session_getToken 1);
     (C_InitPIN.set_this_isInitialised 1);
     (C_InitPIN.set_token_initUserPIN_at1 (fun _ => CKR_OK));
     (C_InitPIN.set_hSession h);
     (C_InitPIN.set_pPin (ptr_of pin));
     (C_InitPIN.set_ulPinLen (len_of pin))].

Theorem initpin_model_is_code (s : state) (h : N) (x : session) (pin : option bytes) :
  st_init s = true -> get_session s h = Some x ->
  rv_of (snd (step s (OInitPin h pin))) = Some (C_InitPIN.app (initpin_env s h x pin)).
Proof.
  intros Hi Hs. unfold step. rewrite Hi. cbn [negb]. rewrite Hs.
  unfold initpin_env. C_InitPIN.open_env. cbn [N.eqb negb].
  cbv [CKS_RW_SO_FUNCTIONS].
  destruct (sess_state s x =? 4) eqn:E; cbn [negb snd rv_of]; [|reflexivity].
  destruct pin as [p|]; cbn [ptr_of len_of N.eqb snd rv_of]; [|reflexivity].
  unfold pin_len_ok. cbv [MIN_PIN_LEN MAX_PIN_LEN].
  destruct (blen p <? 4) eqn:E1; destruct (255 <? blen p) eqn:E2; cbn [orb];
    destruct (4 <=? blen p) eqn:E3; destruct (blen p <=? 255) eqn:E4; cbn [andb negb snd rv_of]; try reflexivity;
    exfalso; repeat match goal with
                    | H : (_ <? _) = true |- _ => apply N.ltb_lt in H
                    | H : (_ <? _) = false |- _ => apply N.ltb_ge in H
                    | H : (_ <=? _) = true |- _ => apply N.leb_le in H
                    | H : (_ <=? _) = false |- _ => apply N.leb_gt in H
                    end; lia.
Qed.

(* ---- C_SetPIN -------------------------------------------------------------------------------------------------------- *)
(* what Token::setUserPIN / Token::setSOPIN answer in the model: the old PIN must be the current one *)
Definition set_user_rv (t : token) (po : bytes) : N :=
  match t_userpin t with Some up => if pin_ok up po then CKR_OK else CKR_PIN_INCORRECT | None => CKR_PIN_INCORRECT end.
Definition set_so_rv (t : token) (po : bytes) : N := if pin_ok (t_sopin t) po then CKR_OK else CKR_PIN_INCORRECT.

Definition setpin_env (s : state) (h : N) (x : session) (t : token) (oldp newp : option bytes) : C_SetPIN.env :=
  fold_right (fun f e => f e) C_SetPIN.default
    [(C_SetPIN.set_handleManager_getSession (fun _ => 1));
     (C_SetPIN.set_session_getState (sess_state s x));
     (C_SetPIN.set_session_getToken 1);
     (C_SetPIN.set_this_isInitialised 1);
     (C_SetPIN.set_token_setSOPIN_at1 (fun _ _ => match oldp with Some po => set_so_rv t po | None => 0 end));
     (C_SetPIN.set_token_setUserPIN_at2 (fun _ _ => match oldp with Some po => set_user_rv t po | None => 0 end));
     (C_SetPIN.set_hSession h);
     (C_SetPIN.set_pOldPin (ptr_of oldp));
     (C_SetPIN.set_ulOldLen (len_of oldp));
     (C_SetPIN.set_pNewPin (ptr_of newp));
     (C_SetPIN.set_ulNewLen (len_of newp))].

Lemma len_range_code_model n : ((n <? 4) || (255 <? n)) = negb (pin_len_ok n).
Proof.
  unfold pin_len_ok. cbv [MIN_PIN_LEN MAX_PIN_LEN].
  destruct (n <? 4) eqn:E1; destruct (255 <? n) eqn:E2; destruct (4 <=? n) eqn:E3; destruct (n <=? 255) eqn:E4; cbn; try reflexivity;
    exfalso; repeat match goal with
                    | H : (_ <? _) = true |- _ => apply N.ltb_lt in H
                    | H : (_ <? _) = false |- _ => apply N.ltb_ge in H
                    | H : (_ <=? _) = true |- _ => apply N.leb_le in H
                    | H : (_ <=? _) = false |- _ => apply N.leb_gt in H
                    end; lia.
Qed.

Theorem setpin_model_is_code (s : state) (h : N) (x : session) (t : token) (oldp newp : option bytes) :
  st_init s = true -> get_session s h = Some x -> alookup (s_tok x) (st_tokens s) = Some t ->
  rv_of (snd (step s (OSetPin h oldp newp))) = Some (C_SetPIN.app (setpin_env s h x t oldp newp)).
Proof.
  intros Hi Hs Ht. unfold step. rewrite Hi. cbn [negb]. rewrite Hs.
  unfold setpin_env. C_SetPIN.open_env. cbn [N.eqb negb].
  destruct oldp as [po|]; cbn [ptr_of len_of N.eqb]; [|destruct newp; reflexivity].
  destruct newp as [pn|]; cbn [ptr_of len_of N.eqb]; [|reflexivity].
  rewrite len_range_code_model.
  destruct (pin_len_ok (blen pn)); cbn [negb snd rv_of]; [|reflexivity].
  rewrite Ht. cbv [CKS_RW_PUBLIC_SESSION CKS_RW_USER_FUNCTIONS CKS_RW_SO_FUNCTIONS].
  destruct (sess_state s x =? 2) eqn:E2; cbn [orb].
  - unfold set_user_rv. destruct (t_userpin t) as [up|]; [destruct (pin_ok up po)|]; reflexivity.
  - destruct (sess_state s x =? 3) eqn:E3; cbn [orb].
    + unfold set_user_rv. destruct (t_userpin t) as [up|]; [destruct (pin_ok up po)|]; reflexivity.
    + destruct (sess_state s x =? 4) eqn:E4.
      * unfold set_so_rv. destruct (pin_ok (t_sopin t) po); reflexivity.
      * reflexivity.
Qed.

(* ---- C_InitToken ----------------------------------------------------------------------------------------------------- *)
(* what Slot::initToken answers in the model (None: outside the modelled fragment - relabelling, label clash) *)
Definition slot_inittoken_rv (s : state) (tk : option N) (p : bytes) (label : N) : option N :=
  match tk with
  | Some k => match alookup k (st_tokens s) with
              | Some t0 => if negb (k =? label) then None else Some (if pin_ok (t_sopin t0) p then CKR_OK else CKR_PIN_INCORRECT)
              | None => None
              end
  | None => if amem label (st_tokens s) then None else Some CKR_OK
  end.

Definition inittoken_env (s : state) (tk : option N) (pin : option bytes) (inner : N) : C_InitToken.env :=
  fold_right (fun f e => f e) C_InitToken.default
    [(C_InitToken.set_sessionManager_haveSession (fun _ => match tk with Some k => if existsb (fun p => s_tok (snd p) =? k) (st_sessions s) then 1 else 0 | None => 0 end));
     (C_InitToken.set_slotManager_getSlot (fun _ => 1));
     (C_InitToken.set_slot_initToken_at1 (fun _ _ => inner));
     (C_InitToken.set_this_isInitialised 1);
     (C_InitToken.set_pPin (ptr_of pin));
     (C_InitToken.set_ulPinLen (len_of pin))].

Theorem inittoken_model_is_code (s : state) (t : tref) (tk : option N) (pin : option bytes) (label inner : N) :
  st_init s = true -> resolve s t = Some tk ->
  (forall p, pin = Some p -> slot_inittoken_rv s tk p label = Some inner) ->
  rv_of (snd (step s (OInitToken t pin label))) = Some (C_InitToken.app (inittoken_env s tk pin inner)).
Proof.
  intros Hi Hr Hin. unfold step. rewrite Hi. cbn [negb]. rewrite Hr.
  unfold inittoken_env. C_InitToken.open_env. cbn [N.eqb negb].
  destruct tk as [k|].
  - destruct (existsb (fun p => s_tok (snd p) =? k) (st_sessions s)) eqn:Eb; cbn [N.eqb negb snd rv_of]; [reflexivity|].
    destruct pin as [p|]; cbn [ptr_of len_of N.eqb snd rv_of]; [|reflexivity].
    rewrite len_range_code_model. destruct (pin_len_ok (blen p)); cbn [negb snd rv_of]; [|reflexivity].
    specialize (Hin p eq_refl). unfold slot_inittoken_rv in Hin.
    destruct (alookup k (st_tokens s)) as [t0|]; [|discriminate Hin].
    destruct (negb (k =? label)); [discriminate Hin|]. injection Hin as <-.
    destruct (pin_ok (t_sopin t0) p); reflexivity.
  - cbn [N.eqb negb snd rv_of].
    destruct pin as [p|]; cbn [ptr_of len_of N.eqb snd rv_of]; [|reflexivity].
    rewrite len_range_code_model. destruct (pin_len_ok (blen p)); cbn [negb snd rv_of]; [|reflexivity].
    specialize (Hin p eq_refl). unfold slot_inittoken_rv in Hin.
    destruct (amem label (st_tokens s)); [discriminate Hin|]. injection Hin as <-. reflexivity.
Qed.

(* ---- C_Login --------------------------------------------------------------------------------------------------------- *)
(* what Token::loginSO / Token::loginUser answer in the model *)
Definition login_so_rv (t : token) (p : bytes) : N :=
  if is_user (t_login t) then CKR_USER_ANOTHER_ALREADY_LOGGED_IN else if is_so (t_login t) then CKR_USER_ALREADY_LOGGED_IN
  else if pin_ok (t_sopin t) p then CKR_OK else CKR_PIN_INCORRECT.
Definition login_user_rv (t : token) (p : bytes) : N :=
  if is_so (t_login t) then CKR_USER_ANOTHER_ALREADY_LOGGED_IN else if is_user (t_login t) then CKR_USER_ALREADY_LOGGED_IN
  else match t_userpin t with
       | None => CKR_USER_PIN_NOT_INITIALIZED
       | Some up => if pin_ok up p then CKR_OK else CKR_PIN_INCORRECT
       end.

Definition login_env_with (s : state) (h : N) (x : session) (utype ptr len : N) (so_fn user_fn : N -> N) : C_Login.env :=
  fold_right (fun f e => f e) C_Login.default
    [(C_Login.set_handleManager_getSession (fun _ => 1));
     (C_Login.set_sessionManager_haveROSession (fun _ => if existsb (fun q => (s_tok (snd q) =? s_tok x) && negb (s_rw (snd q))) (st_sessions s) then 1 else 0));
     (C_Login.set_session_getReAuthentication 0);
     (C_Login.set_session_getToken 1);
     (C_Login.set_this_isInitialised 1);
     (C_Login.set_token_loginSO_at3 so_fn);
     (C_Login.set_token_loginUser_at2 user_fn);
     (C_Login.set_hSession h);
     (C_Login.set_userType utype);
     (C_Login.set_pPin ptr);
     (C_Login.set_ulPinLen len)].
(* no re-authentication is pending in the modelled fragment *)
Definition login_env (s : state) (h : N) (x : session) (t : token) (utype : N) (pin : option bytes) : C_Login.env :=
  login_env_with s h x utype (ptr_of pin) (len_of pin)
                 (fun _ => match pin with Some p => login_so_rv t p | None => 0 end)
                 (fun _ => match pin with Some p => login_user_rv t p | None => 0 end).

Theorem login_model_is_code (s : state) (h : N) (x : session) (t : token) (utype : N) (pin : option bytes) :
  st_init s = true -> get_session s h = Some x -> alookup (s_tok x) (st_tokens s) = Some t ->
  rv_of (snd (step s (OLogin h utype pin))) = Some (C_Login.app (login_env s h x t utype pin)).
Proof.
  intros Hi Hs Ht. unfold step. rewrite Hi. cbn [negb]. rewrite Hs.
  unfold login_env, login_env_with. C_Login.open_env. cbn [N.eqb negb].
  destruct pin as [p|]; cbn [ptr_of len_of N.eqb]; [|reflexivity].
  rewrite Ht. cbv [CKU_SO CKU_USER CKU_CONTEXT_SPECIFIC].
  destruct (utype =? 0) eqn:E0.
  - destruct (existsb (fun q => (s_tok (snd q) =? s_tok x) && negb (s_rw (snd q))) (st_sessions s)); cbn [N.eqb negb snd rv_of]; [reflexivity|].
    unfold login_so_rv. destruct (is_user (t_login t)); [reflexivity|]. destruct (is_so (t_login t)); [reflexivity|].
    destruct (pin_ok (t_sopin t) p); reflexivity.
  - destruct (utype =? 1) eqn:E1.
    + unfold login_user_rv. destruct (is_so (t_login t)); [reflexivity|]. destruct (is_user (t_login t)); [reflexivity|].
      destruct (t_userpin t) as [up|]; [destruct (pin_ok up p)|]; reflexivity.
    + destruct (utype =? 2) eqn:E2; reflexivity.
Qed.

(* ---- one level down: Token::loginSO / Token::loginUser and SessionManager::openSession (gen/Gen_Token.v) ----------------- *)
From SoftHSM Require Import Gen_Token.

(* the model's token-level login verdicts are the regenerated Token::loginUser / Token::loginSO, with the secure data
   manager answering "SO / user logged in" from the model's login state, an empty user PIN blob iff no user PIN is set, and
   SecureDataManager::login* accepting exactly the current PIN *)
Definition token_loginuser_env (t : token) (p : bytes) : Token_loginUser.env :=
  fold_right (fun f e => f e) Token_loginUser.default
    [(Token_loginUser.set_hv2_getTokenFlags_ok true);
     (Token_loginUser.set_sdm_getUserPINBlob_size (match t_userpin t with Some _ => 1 | None => 0 end));
     (Token_loginUser.set_sdm_isSOLoggedIn (is_so (t_login t)));
     (Token_loginUser.set_sdm_isUserLoggedIn (is_user (t_login t)));
     (Token_loginUser.set_sdm_loginUser (fun _ => match t_userpin t with Some up => pin_ok up p | None => false end));
     (Token_loginUser.set_this_sdm 1)].
Theorem login_user_rv_is_code (t : token) (p : bytes) :
  login_user_rv t p = Token_loginUser.app (token_loginuser_env t p).
Proof.
  unfold login_user_rv, token_loginuser_env. Token_loginUser.open_env. cbn [N.eqb negb].
  cbv [CKR_USER_ANOTHER_ALREADY_LOGGED_IN CKR_USER_ALREADY_LOGGED_IN CKR_USER_PIN_NOT_INITIALIZED CKR_OK CKR_PIN_INCORRECT].
  destruct (is_so (t_login t)); [reflexivity|]. destruct (is_user (t_login t)); [reflexivity|].
  destruct (t_userpin t) as [up|]; cbn [N.eqb negb]; [|reflexivity].
  destruct (pin_ok up p); reflexivity.
Qed.

Definition token_loginso_env (t : token) (p : bytes) : Token_loginSO.env :=
  fold_right (fun f e => f e) Token_loginSO.default
    [(Token_loginSO.set_hv2_getTokenFlags_ok true);
     (Token_loginSO.set_sdm_isSOLoggedIn (is_so (t_login t)));
     (Token_loginSO.set_sdm_isUserLoggedIn (is_user (t_login t)));
     (Token_loginSO.set_sdm_loginSO (fun _ => pin_ok (t_sopin t) p));
     (Token_loginSO.set_this_sdm 1)].
Theorem login_so_rv_is_code (t : token) (p : bytes) :
  login_so_rv t p = Token_loginSO.app (token_loginso_env t p).
Proof.
  unfold login_so_rv, token_loginso_env. Token_loginSO.open_env. cbn [N.eqb negb].
  cbv [CKR_USER_ANOTHER_ALREADY_LOGGED_IN CKR_USER_ALREADY_LOGGED_IN CKR_OK CKR_PIN_INCORRECT].
  destruct (is_user (t_login t)); [reflexivity|]. destruct (is_so (t_login t)); [reflexivity|].
  destruct (pin_ok (t_sopin t) p); reflexivity.
Qed.

(* the whole chain for C_Login: entry point and token level are both the regenerated code *)
Theorem login_chain_is_code (s : state) (h : N) (x : session) (t : token) (utype : N) (p : bytes) :
  st_init s = true -> get_session s h = Some x -> alookup (s_tok x) (st_tokens s) = Some t ->
  rv_of (snd (step s (OLogin h utype (Some p)))) =
  Some (C_Login.app (login_env_with s h x utype 1 (blen p)
          (fun _ => Token_loginSO.app (token_loginso_env t p)) (fun _ => Token_loginUser.app (token_loginuser_env t p)))).
Proof.
  intros Hi Hs Ht. rewrite (login_model_is_code s h x t utype (Some p) Hi Hs Ht).
  unfold login_env. cbn [ptr_of len_of]. rewrite <- login_so_rv_is_code, <- login_user_rv_is_code. reflexivity.
Qed.

(* C_OpenSession -> SessionManager::openSession: the guards before a session is allocated (the allocation answers CKR_OK) *)
Lemma land2_cases x : N.land x 2 = 0 \/ N.land x 2 = 2.
Proof. destruct x as [|p]; [left; reflexivity|]. destruct p as [[q|q|]|[q|q|]|]; cbn; auto. Qed.

(* `lr`: whether the loop that looks for a free slot in the session vector leaves the function (it returns CKR_OK, as does
   the code after it: zz_rest) - the decision does not depend on it *)
Definition opensession_env (s : state) (k flags : N) (lr : bool) : SessionManager_openSession.env :=
  fold_right (fun f e => f e) SessionManager_openSession.default
    [(SessionManager_openSession.set_hv3_loop_returns lr);
     (SessionManager_openSession.set_slot_getToken 1);
     (SessionManager_openSession.set_token_isInitialized true);
     (SessionManager_openSession.set_token_isSOLoggedIn (is_so (tok_login s k)));
     (SessionManager_openSession.set_zz_rest CKR_OK);
     (SessionManager_openSession.set_slot 1);
     (SessionManager_openSession.set_flags flags);
     (SessionManager_openSession.set_phSession 1)].
Theorem opensession_model_is_code (s : state) (k flags : N) (lr : bool) :
  st_init s = true -> amem k (st_tokens s) = true ->
  match snd (step s (OOpen (TTok k) flags)) with
  | RRv rv => rv = SessionManager_openSession.app (opensession_env s k flags lr)
  | RHandle _ => SessionManager_openSession.app (opensession_env s k flags lr) = CKR_OK
  | _ => False
  end.
Proof.
  intros Hi Hk. unfold step. rewrite Hi. cbn [negb]. unfold resolve. rewrite Hk.
  unfold opensession_env. SessionManager_openSession.open_env. cbn [N.eqb negb].
  cbv [CKF_SERIAL_SESSION CKF_RW_SESSION CKR_SESSION_PARALLEL_NOT_SUPPORTED CKR_SESSION_READ_WRITE_SO_EXISTS CKR_OK].
  destruct (N.land flags 4 =? 0) eqn:E4; cbn [snd]; [reflexivity|].
  destruct (land2_cases flags) as [E|E]; rewrite E; cbn [N.eqb Pos.eqb negb andb].
  - destruct (is_so (tok_login s k)); cbn [snd]; [reflexivity|].
    destruct (add_handle s _) as [s1 hh]. cbn [snd]. destruct lr; reflexivity.
  - destruct (add_handle s _) as [s1 hh]. cbn [snd]. destruct lr; reflexivity.
Qed.

(* ---- C_DestroyObject: the guards (handle, write access, CKA_DESTROYABLE) of the model are those of the regenerated code;
   the destruction itself (zz_rest) answers CKR_OK ------------------------------------------------------------------------ *)
Definition destroy_env (s : state) (h oh : N) (x : session) : C_DestroyObject.env :=
  fold_right (fun f e => f e) C_DestroyObject.default
    [(C_DestroyObject.set_handleManager_getObject (fun _ => match get_object s oh with Some _ => 1 | None => 0 end));
     (C_DestroyObject.set_handleManager_getSession (fun _ => 1));
     (C_DestroyObject.set_haveWrite gen_haveWrite);
     (C_DestroyObject.set_object_getBooleanValue (fun a d => b2n (obj_bool (match get_object s oh with Some (_, _, o) => o | None => [] end) a d)));
     (C_DestroyObject.set_object_isValid 1);
     (C_DestroyObject.set_session_getState (sess_state s x));
     (C_DestroyObject.set_session_getToken 1);
     (C_DestroyObject.set_this_isInitialised 1);
     (C_DestroyObject.set_zz_rest CKR_OK);
     (C_DestroyObject.set_hSession h);
     (C_DestroyObject.set_hObject oh)].

Theorem destroy_model_is_code (s : state) (h oh : N) (x : session) :
  st_init s = true -> get_session s h = Some x ->
  rv_of (snd (step s (ODestroy h oh))) = Some (C_DestroyObject.app (destroy_env s h oh x)).
Proof.
  intros Hi Hs. unfold step. rewrite Hi. cbn [negb]. rewrite Hs.
  unfold destroy_env. C_DestroyObject.open_env. cbn [N.eqb negb orb].
  destruct (get_object s oh) as [[[e loc] ob]|] eqn:Eo; cbn [N.eqb negb orb snd rv_of]; [|reflexivity].
  unfold have_write, o_token, o_private. cbv [CKA_TOKEN CKA_PRIVATE CKA_DESTROYABLE CKR_OK CKR_ACTION_PROHIBITED].
  set (rv := gen_haveWrite (sess_state s x) (b2n (obj_bool ob 1 false)) (b2n (obj_bool ob 2 true))).
  destruct (rv =? 0) eqn:Er; cbn [negb snd rv_of].
  - destruct (obj_bool ob 370 true); cbn [b2n N.eqb negb snd rv_of]; reflexivity.
  - destruct (rv =? 257); destruct (rv =? 181); reflexivity.
Qed.

(* ---- C_FindObjectsInit: what the code hands to the search loop.  The regenerated prefix passes its local
   `isPublicSession` to the rest of the function; the model's flag `public` (which decides whether private objects are
   skipped) is that value, and the only refusal before the loop (an operation in progress) is the model's. -------------- *)
Definition model_public (st : N) : bool := negb ((st =? CKS_RO_USER_FUNCTIONS) || (st =? CKS_RW_USER_FUNCTIONS)).

Definition findinit_env (s : state) (h : N) (x : session) (rest : bool -> N) (ptr cnt : N) : C_FindObjectsInit.env :=
  fold_right (fun f e => f e) C_FindObjectsInit.default
    [(C_FindObjectsInit.set_handleManager_getSession (fun _ => 1));
     (C_FindObjectsInit.set_session_getOpType (s_op x));
     (C_FindObjectsInit.set_session_getSlot 1);
     (C_FindObjectsInit.set_session_getState (sess_state s x));
     (C_FindObjectsInit.set_session_getToken 1);
     (C_FindObjectsInit.set_this_isInitialised 1);
     (C_FindObjectsInit.set_zz_rest rest);
     (C_FindObjectsInit.set_hSession h);
     (C_FindObjectsInit.set_pTemplate ptr);
     (C_FindObjectsInit.set_ulCount cnt)].

Theorem findinit_code_passes_model_public (s : state) (h : N) (x : session) (rest : bool -> N) (ptr cnt : N) :
  (ptr <> 0 \/ cnt = 0) ->
  C_FindObjectsInit.app (findinit_env s h x rest ptr cnt)
  = if negb (s_op x =? SESSION_OP_NONE) then CKR_OPERATION_ACTIVE else rest (model_public (sess_state s x)).
Proof.
  intros Hp. unfold findinit_env, model_public. C_FindObjectsInit.open_env. cbn [N.eqb negb orb].
  assert (Hg : ((ptr =? 0) && negb (cnt =? 0)) = false).
  { destruct Hp as [Hp|Hp].
    - destruct (N.eqb_spec ptr 0) as [E|E]; [contradiction|reflexivity].
    - subst cnt. cbn. apply Bool.andb_false_r. }
  rewrite Hg. cbv [SESSION_OP_NONE CKR_OPERATION_ACTIVE CKS_RO_USER_FUNCTIONS CKS_RW_USER_FUNCTIONS].
  destruct (sess_state s x =? 1); destruct (sess_state s x =? 3); destruct (s_op x =? 0); reflexivity.
Qed.

(* the model's step uses exactly that flag and that refusal *)
Theorem findinit_model_is_code (s : state) (h : N) (x : session) (tm : template) (prio : list bytes) :
  st_init s = true -> get_session s h = Some x ->
  negb (s_op x =? SESSION_OP_NONE) = true ->
  rv_of (snd (step s (OFindInit h tm prio))) = Some (C_FindObjectsInit.app (findinit_env s h x (fun _ => CKR_OK) 1 0)).
Proof.
  intros Hi Hs Hop. rewrite findinit_code_passes_model_public by (left; discriminate).
  unfold step. rewrite Hi. cbn [negb]. rewrite Hs, Hop. reflexivity.
Qed.

Theorem findinit_model_uses_public (s : state) (h : N) (x : session) (tm : template) (prio : list bytes) :
  st_init s = true -> get_session s h = Some x -> (s_op x =? SESSION_OP_NONE) = true ->
  forallb (fun e => match te_val e with Some b => blen b =? te_len e | None => te_len e =? 0 end) tm = true ->
  step s (OFindInit h tm prio)
  = match find_loop (tctx_of s (s_tok x)) (model_public (sess_state s x)) (s_tok x) h tm (order_cands prio (candidates s (s_tok x))) s [] with
    | None => (s, RUnmodelled)
    | Some (s1, hs) => (upd_session s1 h (fun x => set_s_op x SESSION_OP_FIND hs), RRv CKR_OK)
    end.
Proof.
  intros Hi Hs Hop Htm. unfold step. rewrite Hi. cbn [negb]. rewrite Hs, Hop, Htm. reflexivity.
Qed.

(* ---- C_GetAttributeValue / C_SetAttributeValue: the access decision before any attribute is touched ------------------- *)
Definition obj_of (s : state) (oh : N) : obj := match get_object s oh with Some (_, _, o) => o | None => [] end.
Definition getattr_env (s : state) (h oh : N) (x : session) (rest ptr cnt : N) : C_GetAttributeValue.env :=
  fold_right (fun f e => f e) C_GetAttributeValue.default
    [(C_GetAttributeValue.set_handleManager_getObject (fun _ => match get_object s oh with Some _ => 1 | None => 0 end));
     (C_GetAttributeValue.set_handleManager_getSession (fun _ => 1));
     (C_GetAttributeValue.set_haveRead gen_haveRead);
     (C_GetAttributeValue.set_object_getBooleanValue (fun a d => b2n (obj_bool (obj_of s oh) a d)));
     (C_GetAttributeValue.set_object_isValid 1);
     (C_GetAttributeValue.set_session_getState (sess_state s x));
     (C_GetAttributeValue.set_session_getToken 1);
     (C_GetAttributeValue.set_this_isInitialised 1);
     (C_GetAttributeValue.set_newP11Object_at1 (fun _ _ => 0));
     (C_GetAttributeValue.set_p11object_loadTemplate (fun _ _ _ => rest));
     (C_GetAttributeValue.set_hSession h);
     (C_GetAttributeValue.set_hObject oh);
     (C_GetAttributeValue.set_pTemplate ptr);
     (C_GetAttributeValue.set_ulCount cnt)].
Definition setattr_env (s : state) (h oh : N) (x : session) (rest ptr cnt : N) : C_SetAttributeValue.env :=
  fold_right (fun f e => f e) C_SetAttributeValue.default
    [(C_SetAttributeValue.set_handleManager_getObject (fun _ => match get_object s oh with Some _ => 1 | None => 0 end));
     (C_SetAttributeValue.set_handleManager_getSession (fun _ => 1));
     (C_SetAttributeValue.set_haveWrite gen_haveWrite);
     (C_SetAttributeValue.set_object_getBooleanValue (fun a d => b2n (obj_bool (obj_of s oh) a d)));
     (C_SetAttributeValue.set_object_isValid 1);
     (C_SetAttributeValue.set_session_getState (sess_state s x));
     (C_SetAttributeValue.set_session_getToken 1);
     (C_SetAttributeValue.set_this_isInitialised 1);
     (C_SetAttributeValue.set_newP11Object_at1 (fun _ _ => 0));
     (C_SetAttributeValue.set_p11object_saveTemplate (fun _ _ _ _ _ => rest));
     (C_SetAttributeValue.set_hSession h);
     (C_SetAttributeValue.set_hObject oh);
     (C_SetAttributeValue.set_pTemplate ptr);
     (C_SetAttributeValue.set_ulCount cnt)].

(* the code, in terms of the model's access functions *)
Theorem getattr_code_guard (s : state) (h oh : N) (x : session) (rest ptr cnt : N) :
  ptr <> 0 ->
  C_GetAttributeValue.app (getattr_env s h oh x rest ptr cnt)
  = match get_object s oh with
    | None => CKR_OBJECT_HANDLE_INVALID
    | Some (_, _, ob) => if negb (have_read (sess_state s x) (o_token ob) (o_private ob) =? CKR_OK) then CKR_GENERAL_ERROR else rest
    end.
Proof.
  intros Hp. unfold getattr_env, obj_of. C_GetAttributeValue.open_env. cbn [N.eqb negb orb].
  destruct (N.eqb_spec ptr 0) as [E|_]; [contradiction|].
  destruct (get_object s oh) as [[[e loc] ob]|]; cbn [N.eqb negb orb]; [|reflexivity].
  unfold have_read, o_private, o_token. cbv [CKA_PRIVATE CKA_TOKEN CKR_OK CKR_GENERAL_ERROR].
  destruct (gen_haveRead (sess_state s x) (b2n (obj_bool ob 1 false)) (b2n (obj_bool ob 2 true)) =? 0); cbn [negb]; [reflexivity|].
  destruct (_ =? 257); reflexivity.
Qed.

Theorem setattr_code_guard (s : state) (h oh : N) (x : session) (rest ptr cnt : N) :
  ptr <> 0 ->
  C_SetAttributeValue.app (setattr_env s h oh x rest ptr cnt)
  = match get_object s oh with
    | None => CKR_OBJECT_HANDLE_INVALID
    | Some (_, _, ob) =>
        let rv := have_write (sess_state s x) (o_token ob) (o_private ob) in
        if negb (rv =? CKR_OK) then rv else if negb (obj_bool ob CKA_MODIFIABLE true) then CKR_ACTION_PROHIBITED else rest
    end.
Proof.
  intros Hp. unfold setattr_env, obj_of. C_SetAttributeValue.open_env. cbn [N.eqb negb orb].
  destruct (N.eqb_spec ptr 0) as [E|_]; [contradiction|].
  destruct (get_object s oh) as [[[e loc] ob]|]; cbn [N.eqb negb orb]; [|reflexivity].
  unfold have_write, o_token, o_private. cbv zeta. cbv [CKA_TOKEN CKA_PRIVATE CKA_MODIFIABLE CKR_OK CKR_ACTION_PROHIBITED].
  set (rv := gen_haveWrite (sess_state s x) (b2n (obj_bool ob 1 false)) (b2n (obj_bool ob 2 true))).
  destruct (rv =? 0); cbn [negb].
  - destruct (obj_bool ob 368 true); reflexivity.
  - destruct (rv =? 257); destruct (rv =? 181); reflexivity.
Qed.

(* the model's refusals are those *)
Theorem getattr_model_refusal_is_code (s : state) (h oh : N) (x : session) (q : list (N * option N)) (rest : N) :
  st_init s = true -> get_session s h = Some x ->
  (match get_object s oh with None => True
   | Some (_, _, ob) => negb (have_read (sess_state s x) (o_token ob) (o_private ob) =? CKR_OK) = true end) ->
  rv_of (snd (step s (OGetAttr h oh q))) = Some (C_GetAttributeValue.app (getattr_env s h oh x rest 1 (N.of_nat (length q)))).
Proof.
  intros Hi Hs Hg. rewrite getattr_code_guard by discriminate. unfold step. rewrite Hi. cbn [negb]. rewrite Hs.
  destruct (get_object s oh) as [[[e loc] ob]|]; [|reflexivity].
  cbv zeta. rewrite Hg. reflexivity.
Qed.

Theorem setattr_model_refusal_is_code (s : state) (h oh : N) (x : session) (tm : template) (rest : N) :
  st_init s = true -> get_session s h = Some x ->
  (match get_object s oh with None => True
   | Some (_, _, ob) => negb (have_write (sess_state s x) (o_token ob) (o_private ob) =? CKR_OK) = true
                        \/ obj_bool ob CKA_MODIFIABLE true = false end) ->
  rv_of (snd (step s (OSetAttr h oh tm))) = Some (C_SetAttributeValue.app (setattr_env s h oh x rest 1 (N.of_nat (length tm)))).
Proof.
  intros Hi Hs Hg. rewrite setattr_code_guard by discriminate. unfold step. rewrite Hi. cbn [negb]. rewrite Hs.
  destruct (get_object s oh) as [[[e loc] ob]|]; [|reflexivity].
  cbv zeta. destruct (negb (have_write (sess_state s x) (o_token ob) (o_private ob) =? CKR_OK)) eqn:Ew; [reflexivity|].
  destruct Hg as [Hg|Hg]; [discriminate|]. rewrite Hg. reflexivity.
Qed.
