(* P11/KeyGenSpec.v — what the functions of SoftHSM.cpp that CREATE A KEY OBJECT (generate*, derive*, C_UnwrapKey) must do around
   the object they create, stated over their regenerated, lifted translations (gen/Gen_Keys.v, trace mode): every call on a
   stateful collaborator (handle manager, object, transaction) and every write through the caller's handle pointer is an
   event of the effect list, newest first.  The tactics execute such a function symbolically, one continuation at a time,
   and discharge the record `keygen_ok` at every leaf; nothing here is specific to one function.  (C06, C08, C09, C11) *)
From Coq Require Import List NArith Bool.
From SoftHSM Require Import Gen_Const.
Import ListNotations.
Local Open Scope N_scope.

Definition R := (N * list (N * N))%type.
(* event tags of translator/shallow.py (TRACE_TAGS): 2^64-40 .. 2^64-46 *)
Definition T_GET : N := 18446744073709551576.      (* handleManager->getObject(h) *)
Definition T_HMD : N := 18446744073709551575.      (* handleManager->destroyObject(h) *)
Definition T_OBJD : N := 18446744073709551574.     (* object->destroyObject() *)
Definition T_TXS : N := 18446744073709551573.      (* object->startTransaction() *)
Definition T_COMMIT : N := 18446744073709551572.   (* object->commitTransaction() *)
Definition T_ABORT : N := 18446744073709551571.    (* object->abortTransaction() *)
Definition T_CREATE : N := 18446744073709551570.   (* this->CreateObject(.., op) *)
Definition b2n (b : bool) : N := if b then 1 else 0.

Fixpoint last_out (tag : N) (eff : list (N * N)) : option N :=
  match eff with [] => None | (t, v) :: r => if t =? tag then Some v else last_out tag r end.

Section Spec.
  (* out: the tag of `*phKey = v`; op: the OBJECT_OP_* handed to CreateObject; h: what CreateObject left in *phKey; getobj: the
     handle manager's lookup; pv, pl, pa, pn: what may be stored as CKA_VALUE, CKA_LOCAL, CKA_ALWAYS_SENSITIVE,
     CKA_NEVER_EXTRACTABLE; needv: when a CKA_VALUE must have been stored on success *)
  Variables (out op h : N) (getobj : N -> N) (pv pl pa pn : N -> Prop) (needv : Prop).

  (* the end of a failing call, newest first: the object is looked up BEFORE its handle is unregistered, the handle is
     unregistered, the object destroyed if the lookup found it, the caller's variable set to CK_INVALID_HANDLE *)
  Definition cleanup : list (N * N) :=
    (out, 0) :: (if getobj h =? 0 then [] else [(T_OBJD, getobj h)]) ++ [(T_HMD, h); (T_GET, h)].

  Record keygen_ok (r : R) : Prop := {
    (* C09: a call that fails after CreateObject undoes the object - and nothing else *)
    kg_fail_clean : fst r <> 0 -> In (T_CREATE, op) (snd r) -> h <> 0 -> exists pre, snd r = cleanup ++ pre;
    kg_fail_handle : fst r <> 0 -> last_out out (snd r) = Some 0 \/ last_out out (snd r) = None;
    (* C11: the only handle ever unregistered, the only object ever destroyed, are the ones this call created *)
    kg_own_handle : forall x, In (T_HMD, x) (snd r) -> x = h;
    kg_own_object : forall o, In (T_OBJD, o) (snd r) -> o = getobj h;
    (* C09 / C05: a call that succeeds destroys and aborts nothing, and has committed the new object's attributes *)
    kg_ok_keeps : fst r = 0 -> forall t v, In (t, v) (snd r) -> t <> T_HMD /\ t <> T_OBJD /\ t <> T_ABORT;
    kg_ok_commits : fst r = 0 -> In (T_CREATE, op) (snd r) /\ In (T_TXS, getobj h) (snd r) /\ In (T_COMMIT, getobj h) (snd r);
    (* C06: what is stored as the key value; C08: the history attributes *)
    kg_value : forall v, In (CKA_VALUE, v) (snd r) -> pv v;
    kg_local : forall v, In (CKA_LOCAL, v) (snd r) -> pl v;
    kg_asens : forall v, In (CKA_ALWAYS_SENSITIVE, v) (snd r) -> pa v;
    kg_nextr : forall v, In (CKA_NEVER_EXTRACTABLE, v) (snd r) -> pn v;
    kg_ok_stored : fst r = 0 -> (needv -> exists v, In (CKA_VALUE, v) (snd r)) /\ (exists v, In (CKA_LOCAL, v) (snd r)) /\
                                (exists v, In (CKA_ALWAYS_SENSITIVE, v) (snd r)) /\ (exists v, In (CKA_NEVER_EXTRACTABLE, v) (snd r))
  }.
End Spec.

(* what the effect list may hold when the part of a function that creates the object is entered: writes of CK_INVALID_HANDLE to
   the caller's variable and look-ups - nothing destroyed, created, started, committed or stored yet *)
Definition clean (out : N) (acc : list (N * N)) : Prop := forall t v, In (t, v) acc -> (t = out /\ v = 0) \/ t = T_GET.

Lemma clean_tail out x acc : clean out (x :: acc) -> clean out acc.
Proof. intros H t v Hin. apply H. right. exact Hin. Qed.

Lemma clean_last_out out acc : out <> T_GET -> clean out acc -> last_out out acc = Some 0 \/ last_out out acc = None.
Proof.
  intros Hne. induction acc as [|[t v] r IH]; intros Hc; [right; reflexivity|].
  cbn [last_out]. destruct (t =? out) eqn:E.
  - apply N.eqb_eq in E. destruct (Hc t v (or_introl eq_refl)) as [[_ Hv]|Hg].
    + left. rewrite Hv. reflexivity.
    + exfalso. apply Hne. rewrite <- E. exact Hg.
  - apply IH. exact (clean_tail _ _ _ Hc).
Qed.

Lemma if_split (P : R -> Prop) (b : bool) (x y : R) : (b = true -> P x) -> (b = false -> P y) -> P (if b return R then x else y).
Proof. destruct b; auto. Qed.

(* ---- symbolic execution of a lifted function: goal `P <program term>` ------------------------------------------------- *)
Ltac kill_cond H :=
  repeat match goal with
         | H' : ?x = true |- _ => lazymatch H' with H => fail | _ => idtac end; lazymatch x with true => fail | false => fail | _ => idtac end;
                                  lazymatch type of H with context [x] => rewrite H' in H end
         | H' : ?x = false |- _ => lazymatch H' with H => fail | _ => idtac end; lazymatch x with true => fail | false => fail | _ => idtac end;
                                  lazymatch type of H with context [x] => rewrite H' in H end
         end;
  cbn [negb andb orb N.eqb Pos.eqb] in H.
Ltac head_of t := lazymatch t with ?f _ => head_of f | _ => t end.
Ltac sx1 :=
  lazymatch goal with
  | |- ?P (if _ then _ else _) =>
      apply if_split; (let Hc := fresh "Hc" in intro Hc; kill_cond Hc; try discriminate Hc)
  | |- ?P (pair _ _) => fail
  | |- ?P ?t => let h := head_of t in unfold h; cbv beta zeta
  end.
Ltac sx := repeat sx1.
(* the same, but a call of the continuation `stop` is left alone *)
Ltac sx1_until stop :=
  lazymatch goal with
  | |- ?P (if _ then _ else _) =>
      apply if_split; (let Hc := fresh "Hc" in intro Hc; kill_cond Hc; try discriminate Hc)
  | |- ?P (pair _ _) => fail
  | |- ?P ?t => let h := head_of t in lazymatch h with stop => fail | _ => unfold h; cbv beta zeta end
  end.
Ltac sx_until stop := repeat sx1_until stop.

(* ---- the leaves --------------------------------------------------------------------------------------------------------- *)
Ltac norm_hyps :=
  repeat match goal with
         | H : negb _ = true |- _ => apply negb_true_iff in H
         | H : negb _ = false |- _ => apply negb_false_iff in H
         | H : (_ || _) = false |- _ => apply orb_false_iff in H; destruct H
         | H : (_ && _) = true |- _ => apply andb_true_iff in H; destruct H
         | H : true = true |- _ => clear H
         | H : false = false |- _ => clear H
         end.
Ltac use_facts :=
  repeat match goal with
         | |- context [if ?c then _ else _] =>
             match goal with
             | H : c = true |- _ => rewrite H
             | H : c = false |- _ => rewrite H
             end
         end.
Ltac use_atoms := repeat match goal with H : (_ =? _) = _ |- _ => rewrite H end.
Ltac in_cases H :=
  cbn [In] in H;
  repeat match type of H with
         | _ \/ _ => destruct H as [H|H]
         end;
  first [ contradiction H | discriminate H | (injection H; clear H; intros; subst)
        | (* the part of the effect list that was there when the creating part was entered *)
          match goal with Hcl : clean _ ?acc |- _ =>
            match type of H with In _ acc => apply Hcl in H; destruct H as [[? ?]|?]; subst; try discriminate end end
        | idtac ].
Ltac consts := cbv delta [T_GET T_HMD T_OBJD T_TXS T_COMMIT T_ABORT T_CREATE CKA_VALUE CKA_LOCAL CKA_ALWAYS_SENSITIVE CKA_NEVER_EXTRACTABLE CKA_SENSITIVE CKA_EXTRACTABLE] in *.
Ltac mem := cbn [In]; repeat (first [ left; reflexivity | right ]).
Ltac contra :=
  match goal with
  | H : ?x <> ?x |- _ => exfalso; apply H; reflexivity
  | H : N.pos _ = 0 |- _ => discriminate H
  | H : ?x <> 0, F : (?x =? 0) = true |- _ => exfalso; apply H; apply N.eqb_eq; exact F
  | H : ?x = ?k, F : (?x =? ?k) = false |- _ => exfalso; apply N.eqb_neq in F; exact (F H)
  end.
Ltac leaf1 unf :=
  first [ contra
        | consts; unf;
          repeat match goal with H : In _ _ |- _ => in_cases H end;
          cbv [cleanup]; cbn [last_out N.eqb Pos.eqb];
          use_facts;
          repeat match goal with |- _ /\ _ => split end;
          try match goal with |- _ -> _ => intro end;
          lazymatch goal with
          | |- exists pre : list _, _ =>
              try match goal with |- context [if (?o =? 0) then [] else _] => destruct (o =? 0) eqn:?E end;
              first [ contra | cbn [app]; eexists; reflexivity ]
          | |- exists v : N, In _ _ => first [ contra | eexists; mem ]
          | |- exists x : N, _ = _ => eexists; reflexivity
          | |- In _ _ => mem
          | |- _ <> _ => discriminate
          | |- True => exact I
          | |- _ \/ _ => first [ left; reflexivity | right; reflexivity
                                 | match goal with Hcl : clean _ _ |- _ => apply clean_last_out; [ discriminate | exact Hcl ] end ]
          | |- _ => first [ reflexivity | contra | (use_atoms; cbn [negb andb orb b2n]; first [ reflexivity | exact I | (eexists; reflexivity) ]) ]
          end ].
Ltac leaf unf := norm_hyps; constructor; cbn [fst snd]; intros; try solve [leaf1 unf].
Ltac keygen unf := intros; sx; leaf unf.

(* a list of concrete look-ups and CK_INVALID_HANDLE writes is clean *)
Ltac clean_list := intros ?t ?v Hin; cbn [In] in Hin;
  repeat match type of Hin with _ \/ _ => destruct Hin as [Hin|Hin] end;
  first [ contradiction Hin | (injection Hin; clear Hin; intros; subst; first [ left; split; reflexivity | right; reflexivity ]) ].

(* ---- the clean-up tail of a function in isolation: goal `(rv, <events> ++ acc) = <continuation>` ---------------------------- *)
Ltac tail_leaf := norm_hyps; cbv [cleanup]; use_facts; cbn [app]; reflexivity.
Ltac tail_eq := sx; tail_leaf.
