(* P11/Invariants.v — invariants of the core model over all histories. *)
From Coq Require Import List NArith Bool Lia.
From SoftHSM Require Import Gen_Const Gen_Pure Defs Core AssocFacts AccessFacts StepFacts.
Import ListNotations.
Local Open Scope N_scope.

(* ---- frame lemmas for the state update helpers -------------------------------------------------- *)
Lemma upd_token_sessions s k f : st_sessions (upd_token s k f) = st_sessions s.
Proof. unfold upd_token. destruct (alookup k (st_tokens s)); reflexivity. Qed.
Lemma upd_token_handles s k f : st_handles (upd_token s k f) = st_handles s.
Proof. unfold upd_token. destruct (alookup k (st_tokens s)); reflexivity. Qed.
Lemma upd_token_counter s k f : st_counter (upd_token s k f) = st_counter s.
Proof. unfold upd_token. destruct (alookup k (st_tokens s)); reflexivity. Qed.
Lemma upd_token_sobjs s k f : st_sobjs (upd_token s k f) = st_sobjs s.
Proof. unfold upd_token. destruct (alookup k (st_tokens s)); reflexivity. Qed.
Lemma upd_token_init s k f : st_init (upd_token s k f) = st_init s.
Proof. unfold upd_token. destruct (alookup k (st_tokens s)); reflexivity. Qed.

Lemma upd_token_lookup s k f k' :
  alookup k' (st_tokens (upd_token s k f)) =
  if k =? k' then option_map f (alookup k (st_tokens s)) else alookup k' (st_tokens s).
Proof.
  unfold upd_token. destruct (alookup k (st_tokens s)) eqn:E; cbn.
  - rewrite alookup_aset. destruct (k =? k'); reflexivity.
  - destruct (k =? k') eqn:E2; [apply N.eqb_eq in E2; subst; exact E|reflexivity].
Qed.

Lemma tok_login_upd s k f k' :
  tok_login (upd_token s k f) k' =
  if k =? k' then match alookup k (st_tokens s) with Some t => t_login (f t) | None => LNone end else tok_login s k'.
Proof.
  unfold tok_login. rewrite upd_token_lookup. destruct (k =? k') eqn:E; [|reflexivity].
  destruct (alookup k (st_tokens s)); reflexivity.
Qed.

Lemma tok_login_set_login s k l k' :
  tok_login (upd_token s k (fun t => set_t_login t l)) k' =
  if k =? k' then (if amem k (st_tokens s) then l else LNone) else tok_login s k'.
Proof.
  rewrite tok_login_upd. unfold amem. destruct (k =? k'); [|reflexivity].
  destruct (alookup k (st_tokens s)); reflexivity.
Qed.

Lemma tok_login_frame s k f k' :
  (forall t, t_login (f t) = t_login t) -> tok_login (upd_token s k f) k' = tok_login s k'.
Proof.
  intros H. rewrite tok_login_upd. destruct (k =? k') eqn:E; [|reflexivity].
  apply N.eqb_eq in E. subst k'. unfold tok_login. destruct (alookup k (st_tokens s)); [apply H|reflexivity].
Qed.

Lemma upd_session_tokens s h f : st_tokens (upd_session s h f) = st_tokens s.
Proof. unfold upd_session. destruct (alookup h (st_sessions s)); reflexivity. Qed.
Lemma upd_session_handles s h f : st_handles (upd_session s h f) = st_handles s.
Proof. unfold upd_session. destruct (alookup h (st_sessions s)); reflexivity. Qed.
Lemma upd_session_counter s h f : st_counter (upd_session s h f) = st_counter s.
Proof. unfold upd_session. destruct (alookup h (st_sessions s)); reflexivity. Qed.
Lemma tok_login_upd_session s h f k : tok_login (upd_session s h f) k = tok_login s k.
Proof. unfold tok_login. rewrite upd_session_tokens. reflexivity. Qed.

Lemma upd_session_In s h f p :
  (forall x, s_tok (f x) = s_tok x /\ s_rw (f x) = s_rw x) ->
  In p (st_sessions (upd_session s h f)) -> exists x, In (fst p, x) (st_sessions s) /\ s_tok (snd p) = s_tok x /\ s_rw (snd p) = s_rw x.
Proof.
  intros Hf. unfold upd_session. destruct (alookup h (st_sessions s)) eqn:E; cbn.
  - intros H. apply In_aset in H. destruct H as [H|H].
    + subst p. cbn. exists s0. split; [apply alookup_In; exact E|apply Hf].
    + exists (snd p). destruct p; cbn. auto.
  - intros H. exists (snd p). destruct p; cbn. auto.
Qed.

(* ---- C03: never an R/O session while the SO is logged in -------------------------------------- *)
Definition inv_so_rw (s : state) : Prop :=
  forall h x, In (h, x) (st_sessions s) -> tok_login s (s_tok x) = LSO -> s_rw x = true.

Lemma inv_so_rw_init : inv_so_rw init_state.
Proof. intros h x []. Qed.

Lemma restart_sessions s b : st_sessions (restart s b) = [].
Proof. reflexivity. Qed.

Lemma existsb_false_In {A} (f : A -> bool) l x : existsb f l = false -> In x l -> f x = false.
Proof.
  intros H Hin. destruct (f x) eqn:E; [|reflexivity].
  assert (existsb f l = true) by (apply existsb_exists; eauto). congruence.
Qed.

Ltac simp_state :=
  cbn [st_init st_tokens st_sessions st_handles st_counter st_sobjs st_next_oid st_next_key
       set_init set_tokens set_sessions set_handles set_counter set_sobjs set_next_oid set_next_key fst snd] in *.

Definition sess_sub (s s' : state) : Prop :=
  forall p, In p (st_sessions s') ->
    exists x, In (fst p, x) (st_sessions s) /\ s_tok (snd p) = s_tok x /\ s_rw (snd p) = s_rw x.

Lemma sess_sub_refl s : sess_sub s s.
Proof. intros [h x] H. exists x. auto. Qed.

Lemma sess_sub_eq s s' : st_sessions s' = st_sessions s -> sess_sub s s'.
Proof. intros E [h x] H. rewrite E in H. exists x. auto. Qed.

Lemma sess_sub_filter s s' f : st_sessions s' = filter f (st_sessions s) -> sess_sub s s'.
Proof. intros E [h x] H. rewrite E in H. apply filter_In in H. exists x. tauto. Qed.

Lemma sess_sub_nil s s' : st_sessions s' = [] -> sess_sub s s'.
Proof. intros E p H. rewrite E in H. destruct H. Qed.

Lemma add_obj_handle_sessions s k ss p o : st_sessions (fst (add_obj_handle s k ss p o)) = st_sessions s.
Proof. unfold add_obj_handle. destruct (find_obj_handle s o); reflexivity. Qed.
Lemma add_obj_handle_tokens s k ss p o : st_tokens (fst (add_obj_handle s k ss p o)) = st_tokens s.
Proof. unfold add_obj_handle. destruct (find_obj_handle s o); reflexivity. Qed.
Lemma add_obj_handle_sobjs s k ss p o : st_sobjs (fst (add_obj_handle s k ss p o)) = st_sobjs s.
Proof. unfold add_obj_handle. destruct (find_obj_handle s o); reflexivity. Qed.

Lemma find_loop_frame tc pub k hs tm cands : forall s acc s' r,
  find_loop tc pub k hs tm cands s acc = Some (s', r) ->
  st_sessions s' = st_sessions s /\ st_tokens s' = st_tokens s /\ st_sobjs s' = st_sobjs s /\ st_init s' = st_init s.
Proof.
  induction cands as [|[[oid istok] o] rest IH]; intros s acc s' r; cbn.
  - intros H. inversion H. subst. auto.
  - destruct (pub && o_private o); [apply IH|].
    destruct (match_template tc o tm) as [[|]|]; [|apply IH|discriminate].
    destruct (add_obj_handle s k (if o_token o then CK_INVALID_HANDLE else hs) (o_private o) oid) as [s1 h] eqn:E.
    intros H. apply IH in H. destruct H as (H1 & H2 & H3 & H4).
    assert (E1 : s1 = fst (add_obj_handle s k (if o_token o then CK_INVALID_HANDLE else hs) (o_private o) oid)) by (rewrite E; reflexivity).
    rewrite H1, H2, H3, H4. subst s1.
    rewrite add_obj_handle_sessions, add_obj_handle_tokens, add_obj_handle_sobjs.
    unfold add_obj_handle. destruct (find_obj_handle s oid); auto.
Qed.

Lemma inv_so_rw_mono s s' :
  inv_so_rw s -> sess_sub s s' -> (forall k, tok_login s' k = LSO -> tok_login s k = LSO) -> inv_so_rw s'.
Proof.
  intros Hinv Hsub Hlog h x Hin Hso.
  destruct (Hsub (h, x) Hin) as [x0 [H1 [H2 H3]]]. cbn in *.
  rewrite H3. apply (Hinv h x0 H1). rewrite <- H2. apply Hlog. exact Hso.
Qed.

(* tok_login only looks at st_tokens *)
Lemma tok_login_tokens s s' k : st_tokens s' = st_tokens s -> tok_login s' k = tok_login s k.
Proof. unfold tok_login. intros ->. reflexivity. Qed.

Lemma put_object_sessions s l o : st_sessions (put_object s l o) = st_sessions s.
Proof. destruct l; cbn; [apply upd_token_sessions|]. destruct (alookup oid (st_sobjs s)); reflexivity. Qed.
Lemma put_object_login s l o k : tok_login (put_object s l o) k = tok_login s k.
Proof.
  destruct l; cbn.
  - apply tok_login_frame. reflexivity.
  - destruct (alookup oid (st_sobjs s)); reflexivity.
Qed.
Lemma del_object_sessions s l : st_sessions (del_object s l) = st_sessions s.
Proof. destruct l; cbn; [apply upd_token_sessions|reflexivity]. Qed.
Lemma del_object_login s l k : tok_login (del_object s l) k = tok_login s k.
Proof. destruct l; cbn; [apply tok_login_frame; reflexivity|reflexivity]. Qed.

Lemma close_all_sessions s k :
  st_sessions (close_all s k) = filter (fun p => negb (s_tok (snd p) =? k)) (st_sessions s).
Proof. unfold close_all. rewrite upd_token_sessions. reflexivity. Qed.
Lemma close_all_login s k k' :
  tok_login (close_all s k) k' = if k =? k' then LNone else tok_login s k'.
Proof.
  unfold close_all. rewrite tok_login_set_login. unfold purge_handles. simp_state.
  destruct (k =? k'); [|reflexivity]. destruct (amem k (st_tokens s)); reflexivity.
Qed.

Lemma step_inv_so_rw s o : inv_so_rw s -> inv_so_rw (fst (step s o)).
Proof.
  intros Hinv. destruct o; unfold step; cbn [fst];
  repeat (first [break_match | break_let]; cbn [fst]); try exact Hinv.
  - (* init *) apply inv_so_rw_mono with s; auto; [apply sess_sub_nil; reflexivity|]. intros k. unfold tok_login, restart; cbn.
    induction (st_tokens s) as [|[a t] r IH]; cbn; [discriminate|]. destruct (a =? k); [discriminate|exact IH].
  - apply inv_so_rw_mono with s; auto; [apply sess_sub_nil; reflexivity|]. intros k. unfold tok_login, restart; cbn.
    induction (st_tokens s) as [|[a t] r IH]; cbn; [discriminate|]. destruct (a =? k); [discriminate|exact IH].
  - apply inv_so_rw_mono with s; auto; [apply sess_sub_nil; reflexivity|]. intros k. unfold tok_login, restart; cbn.
    induction (st_tokens s) as [|[a t] r IH]; cbn; [discriminate|]. destruct (a =? k); [discriminate|exact IH].
  - (* re-init token *) apply inv_so_rw_mono with s; auto; [apply sess_sub_eq; reflexivity|].
    intros k. unfold tok_login. simp_state. rewrite alookup_aset. destruct (n =? k); [discriminate|auto].
  - (* fresh token *) apply inv_so_rw_mono with s; auto; [apply sess_sub_eq; reflexivity|].
    intros k. unfold tok_login. simp_state. rewrite alookup_app.
    destruct (alookup k (st_tokens s)); [auto|]. cbn. destruct (label =? k); discriminate.
  - (* open *)
    unfold add_handle in *. match goal with H : (_, _) = (_, _) |- _ => inversion H; subst; clear H end.
    intros hh xx Hin Hso. simp_state. apply in_app_or in Hin. destruct Hin as [Hin|[Hin|[]]].
    + apply (Hinv hh xx Hin). exact Hso.
    + inversion Hin; subst. cbn in *.
      match goal with H : negb _ && _ = false |- _ => rename H into Hc end.
      unfold tok_login in Hso. simp_state. fold (tok_login s n) in Hso. rewrite Hso in Hc. cbn in Hc.
      rewrite andb_true_r in Hc. apply negb_false_iff in Hc. exact Hc.
  - (* close, other sessions remain *) apply inv_so_rw_mono with s; auto.
    + unfold purge_handles. simp_state. unfold aremove. eapply sess_sub_filter. reflexivity.
  - apply inv_so_rw_mono with s; auto.
    + eapply sess_sub_filter. apply close_all_sessions.
    + intros k. rewrite close_all_login. destruct (_ =? k); [discriminate|auto].
  - apply inv_so_rw_mono with s; auto.
    + eapply sess_sub_filter. apply close_all_sessions.
    + intros k. rewrite close_all_login. destruct (_ =? k); [discriminate|auto].
  - (* login SO *)
    intros hh xx Hin Hso. rewrite upd_token_sessions in Hin.
    rewrite tok_login_set_login in Hso.
    destruct (s_tok s0 =? s_tok xx) eqn:E.
    + apply N.eqb_eq in E.
      match goal with H : existsb _ (st_sessions s) = false |- _ => rename H into Hro end.
      pose proof (existsb_false_In _ _ _ Hro Hin) as Hx. cbn in Hx.
      rewrite <- E, N.eqb_refl in Hx. cbn in Hx. apply negb_false_iff in Hx. exact Hx.
    + apply (Hinv hh xx Hin Hso).
  - (* login user *) apply inv_so_rw_mono with s; auto; [apply sess_sub_eq; apply upd_token_sessions|].
    intros k. rewrite tok_login_set_login. destruct (_ =? k); [destruct (amem _ _); discriminate|auto].
  - (* logout *) apply inv_so_rw_mono with s; auto.
    + unfold purge_handles. simp_state. apply sess_sub_eq. apply upd_token_sessions.
    + intros k. unfold purge_handles. erewrite tok_login_tokens with (s := upd_token s _ _) by reflexivity.
      rewrite tok_login_set_login. destruct (_ =? k); [destruct (amem _ _); discriminate|auto].
  - apply inv_so_rw_mono with s; auto; [apply sess_sub_eq; apply upd_token_sessions|].
    intros k. rewrite tok_login_frame by reflexivity. auto.
  - apply inv_so_rw_mono with s; auto; [apply sess_sub_eq; apply upd_token_sessions|].
    intros k. rewrite tok_login_frame by reflexivity. auto.
  - apply inv_so_rw_mono with s; auto; [apply sess_sub_eq; apply upd_token_sessions|].
    intros k. rewrite tok_login_frame by reflexivity. auto.
  - (* create *)
    match goal with H : add_obj_handle ?a ?b ?c ?d ?e = (s1, _) |- _ =>
      assert (E1 : s1 = fst (add_obj_handle a b c d e)) by (rewrite H; reflexivity) end.
    apply inv_so_rw_mono with s; auto.
    + apply sess_sub_eq. subst s1. rewrite add_obj_handle_sessions.
      repeat match goal with |- context [if ?c then _ else _] => destruct c end; simp_state; rewrite ?upd_token_sessions; reflexivity.
    + intros k. subst s1. erewrite tok_login_tokens by apply add_obj_handle_tokens.
      repeat match goal with |- context [if ?c then _ else _] => destruct c end; simp_state;
      rewrite ?tok_login_frame by reflexivity; auto.
  - (* copy *)
    match goal with H : add_obj_handle ?a ?b ?c ?d ?e = (s1, _) |- _ =>
      assert (E1 : s1 = fst (add_obj_handle a b c d e)) by (rewrite H; reflexivity) end.
    apply inv_so_rw_mono with s; auto.
    + apply sess_sub_eq. subst s1. rewrite add_obj_handle_sessions.
      repeat match goal with |- context [if ?c then _ else _] => destruct c end; simp_state; rewrite ?upd_token_sessions; reflexivity.
    + intros k. subst s1. erewrite tok_login_tokens by apply add_obj_handle_tokens.
      repeat match goal with |- context [if ?c then _ else _] => destruct c end; simp_state;
      rewrite ?tok_login_frame by reflexivity; auto.
  - (* destroy *) apply inv_so_rw_mono with s; auto.
    + apply sess_sub_eq. rewrite del_object_sessions. reflexivity.
    + intros k. rewrite del_object_login. auto.
  - apply inv_so_rw_mono with s; auto.
    + apply sess_sub_eq. apply put_object_sessions.
    + intros k. rewrite put_object_login. auto.
  - (* findinit *)
    match goal with H : find_loop _ _ _ _ _ _ _ _ = Some _ |- _ => apply find_loop_frame in H; destruct H as (F1 & F2 & F3 & F4) end.
    apply inv_so_rw_mono with s; auto.
    + intros pp Hp. apply upd_session_In in Hp; [|intros; split; reflexivity]. rewrite F1 in Hp. exact Hp.
    + intros k. rewrite tok_login_upd_session. erewrite tok_login_tokens by exact F2. auto.
  - apply inv_so_rw_mono with s; auto.
    + intros pp Hp. apply upd_session_In in Hp; [|intros; split; reflexivity]. exact Hp.
    + intros k. rewrite tok_login_upd_session. auto.
  - apply inv_so_rw_mono with s; auto.
    + intros pp Hp. apply upd_session_In in Hp; [|intros; split; reflexivity]. exact Hp.
    + intros k. rewrite tok_login_upd_session. auto.
Qed.

Theorem inv_so_rw_reachable (ops : list op) : inv_so_rw (exec init_state ops).
Proof.
  unfold exec. generalize inv_so_rw_init. generalize init_state.
  induction ops as [|o r IH]; intros s H; cbn [fold_left]; [exact H|].
  apply IH. apply step_inv_so_rw. exact H.
Qed.
