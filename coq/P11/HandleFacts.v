(* P11/HandleFacts.v — handles of the core model: one monotone counter, fresh keys, exact purges (C11). *)
From Coq Require Import List NArith Bool Lia.
From SoftHSM Require Import Gen_Const Gen_Pure Defs Core AssocFacts AccessFacts StepFacts Invariants.
Import ListNotations.
Local Open Scope N_scope.

Definition is_restart (o : op) : bool := match o with OInit | OFini | ONewProc => true | _ => false end.

(* every live key is at most the counter; keys are pairwise distinct *)
Definition inv_handles (s : state) : Prop :=
  (forall h, In h (akeys (st_handles s)) -> 1 <= h <= st_counter s) /\ NoDup (akeys (st_handles s)).

Lemma inv_handles_init : inv_handles init_state.
Proof. split; [intros h []|constructor]. Qed.

Lemma akeys_filter {A} (f : N * A -> bool) l h : In h (akeys (filter f l)) -> In h (akeys l).
Proof.
  unfold akeys. intros H. apply in_map_iff in H. destruct H as [p [H1 H2]]. apply filter_In in H2.
  apply in_map_iff. exists p. tauto.
Qed.

Lemma NoDup_akeys_filter {A} (f : N * A -> bool) l : NoDup (akeys l) -> NoDup (akeys (filter f l)).
Proof.
  unfold akeys. induction l as [|[k v] r IH]; cbn; [constructor|].
  intros H. inversion H; subst. destruct (f (k, v)); cbn.
  - constructor; [|apply IH; assumption]. intro Hin. apply H2.
    change (In k (akeys (filter f r))) in Hin. apply akeys_filter in Hin. exact Hin.
  - apply IH. assumption.
Qed.

Lemma inv_handles_filter s f :
  inv_handles s -> inv_handles (set_handles s (filter f (st_handles s))).
Proof.
  intros [H1 H2]. split; simp_state.
  - intros h Hh. apply H1. eapply akeys_filter. exact Hh.
  - apply NoDup_akeys_filter. exact H2.
Qed.

Lemma akeys_app {A} (l1 l2 : list (N * A)) : akeys (l1 ++ l2) = akeys l1 ++ akeys l2.
Proof. unfold akeys. apply map_app. Qed.

Lemma NoDup_snoc {A} (l : list A) x : NoDup l -> ~ In x l -> NoDup (l ++ [x]).
Proof.
  induction l as [|y r IH]; cbn; intros H Hx.
  - constructor; [intros []|constructor].
  - inversion H; subst. constructor.
    + intro Hin. apply in_app_or in Hin. destruct Hin as [Hin|[Hin|[]]]; [auto|]. subst. apply Hx. left. reflexivity.
    + apply IH; [assumption|]. intro. apply Hx. right. assumption.
Qed.

Lemma inv_handles_add s e :
  inv_handles s -> inv_handles (fst (add_handle s e)).
Proof.
  intros [H1 H2]. unfold add_handle. cbn [fst snd]. split; simp_state.
  - intros h H. rewrite akeys_app in H. apply in_app_or in H. destruct H as [H|[H|[]]].
    + apply H1 in H. lia.
    + cbn in H. subst. lia.
  - rewrite akeys_app. cbn. apply NoDup_snoc; [exact H2|]. intro H. apply H1 in H. lia.
Qed.

Lemma add_handle_counter s e : st_counter (fst (add_handle s e)) = st_counter s + 1 /\ snd (add_handle s e) = st_counter s + 1.
Proof. unfold add_handle. cbn. auto. Qed.

Lemma inv_handles_add_obj s k ss p oid :
  inv_handles s -> inv_handles (fst (add_obj_handle s k ss p oid)).
Proof.
  intros H. unfold add_obj_handle. destruct (find_obj_handle s oid); [exact H|]. apply inv_handles_add. exact H.
Qed.

Lemma add_obj_handle_counter s k ss p oid :
  st_counter s <= st_counter (fst (add_obj_handle s k ss p oid)).
Proof.
  unfold add_obj_handle. destruct (find_obj_handle s oid); cbn; lia.
Qed.

(* inv_handles only looks at handles and counter *)
Lemma inv_handles_same s s' :
  st_handles s' = st_handles s -> st_counter s' = st_counter s -> inv_handles s -> inv_handles s'.
Proof. unfold inv_handles. intros -> ->. auto. Qed.

Lemma find_loop_handles tc pub k hs tm cands : forall s acc s' r,
  find_loop tc pub k hs tm cands s acc = Some (s', r) ->
  inv_handles s -> inv_handles s' /\ st_counter s <= st_counter s'.
Proof.
  induction cands as [|[[oid istok] o] rest IH]; intros s acc s' r; cbn.
  - intros H. inversion H. subst. split; [auto|lia].
  - destruct (pub && o_private o); [apply IH|].
    destruct (match_template tc o tm) as [[|]|]; [|apply IH|discriminate].
    destruct (add_obj_handle s k (if o_token o then CK_INVALID_HANDLE else hs) (o_private o) oid) as [s1 h] eqn:E.
    intros H Hi.
    assert (E1 : s1 = fst (add_obj_handle s k (if o_token o then CK_INVALID_HANDLE else hs) (o_private o) oid)) by (rewrite E; reflexivity).
    apply IH in H.
    + destruct H as [H3 H4]. split; [exact H3|]. subst s1.
      pose proof (add_obj_handle_counter s k (if o_token o then CK_INVALID_HANDLE else hs) (o_private o) oid). lia.
    + subst s1. apply inv_handles_add_obj. exact Hi.
Qed.

Lemma del_object_handles s l : st_handles (del_object s l) = st_handles s /\ st_counter (del_object s l) = st_counter s.
Proof. destruct l; cbn; [rewrite upd_token_handles, upd_token_counter|]; auto. Qed.
Lemma put_object_handles s l o : st_handles (put_object s l o) = st_handles s /\ st_counter (put_object s l o) = st_counter s.
Proof.
  destruct l; cbn; [rewrite upd_token_handles, upd_token_counter; auto|].
  destruct (alookup oid (st_sobjs s)); auto.
Qed.
Lemma close_all_handles s k :
  st_handles (close_all s k) = filter (fun p => negb (h_tok (snd p) =? k)) (st_handles s) /\ st_counter (close_all s k) = st_counter s.
Proof. unfold close_all. rewrite upd_token_handles, upd_token_counter. unfold purge_handles. simp_state. auto. Qed.

Lemma inv_handles_close_all s k : inv_handles s -> inv_handles (close_all s k).
Proof.
  intros H. destruct (close_all_handles s k) as [E1 E2].
  eapply inv_handles_same with (s := set_handles s (filter (fun p => negb (h_tok (snd p) =? k)) (st_handles s))); simp_state; auto.
  apply inv_handles_filter. exact H.
Qed.

(* the counter never decreases while the library stays initialised, and the invariant is kept *)
Lemma step_inv_handles s o :
  inv_handles s -> inv_handles (fst (step s o)) /\ (is_restart o = false -> st_counter s <= st_counter (fst (step s o))).
Proof.
  intros Hinv. destruct o; unfold step; cbn [fst is_restart];
  repeat (first [break_match | break_let]; cbn [fst]);
  try (split; [exact Hinv|intros _; lia]);
  try (split; [apply inv_handles_init|discriminate]).
  all: try match goal with H : add_handle _ _ = (_, _) |- _ => unfold add_handle in H; inversion H; subst; clear H end.
  all: try match goal with H : add_obj_handle ?a ?b ?c ?d ?e = (?s1, _) |- _ =>
         assert (E1 : s1 = fst (add_obj_handle a b c d e)) by (rewrite H; reflexivity); clear H; subst s1 end.
  - (* re-init token *) split; [|intros _; simp_state; lia]. eapply inv_handles_same; [| |exact Hinv]; reflexivity.
  - split; [|intros _; simp_state; lia]. eapply inv_handles_same; [| |exact Hinv]; reflexivity.
  - (* open *) split; [|intros _; simp_state; lia].
    eapply inv_handles_same with (s := fst (add_handle s _)); [| |apply inv_handles_add; exact Hinv]; reflexivity.
  - (* close *) split; [|intros _; unfold purge_handles; simp_state; lia].
    eapply inv_handles_same; [| |apply inv_handles_filter with (f := fun p => negb ((fst p =? h) || (h_kind (snd p) =? CKH_OBJECT) && (h_sess (snd p) =? h))); exact Hinv];
    unfold purge_handles; simp_state; reflexivity.
  - split; [apply inv_handles_close_all; exact Hinv|]. intros _. destruct (close_all_handles s (s_tok s0)) as [_ E]. rewrite E. lia.
  - split; [apply inv_handles_close_all; exact Hinv|]. intros _. destruct (close_all_handles s n) as [_ E]. rewrite E. lia.
  - (* login so *) split; [|intros _; rewrite upd_token_counter; lia].
    eapply inv_handles_same; [apply upd_token_handles|apply upd_token_counter|exact Hinv].
  - split; [|intros _; rewrite upd_token_counter; lia].
    eapply inv_handles_same; [apply upd_token_handles|apply upd_token_counter|exact Hinv].
  - (* logout *) split; [|intros _; unfold purge_handles; simp_state; rewrite upd_token_counter; lia].
    unfold purge_handles. simp_state.
    eapply inv_handles_same with (s := set_handles s (filter _ (st_handles s))); [| |apply inv_handles_filter; exact Hinv]; simp_state;
      rewrite ?upd_token_handles, ?upd_token_counter; reflexivity.
  - split; [|intros _; rewrite upd_token_counter; lia].
    eapply inv_handles_same; [apply upd_token_handles|apply upd_token_counter|exact Hinv].
  - split; [|intros _; rewrite upd_token_counter; lia].
    eapply inv_handles_same; [apply upd_token_handles|apply upd_token_counter|exact Hinv].
  - split; [|intros _; rewrite upd_token_counter; lia].
    eapply inv_handles_same; [apply upd_token_handles|apply upd_token_counter|exact Hinv].
  - (* create *)
    match goal with |- inv_handles (fst (add_obj_handle ?a _ _ _ _)) /\ _ =>
      assert (Ha : inv_handles a /\ st_counter a = st_counter s) end.
    { repeat match goal with |- context [if ?c then _ else _] => destruct c end; simp_state;
      rewrite ?upd_token_counter; (split; [|reflexivity]);
      (eapply inv_handles_same; [| |exact Hinv]); simp_state; rewrite ?upd_token_handles, ?upd_token_counter; reflexivity. }
    destruct Ha as [Ha1 Ha2]. split; [apply inv_handles_add_obj; exact Ha1|]. intros _. rewrite <- Ha2. apply add_obj_handle_counter.
  - (* copy *)
    match goal with |- inv_handles (fst (add_obj_handle ?a _ _ _ _)) /\ _ =>
      assert (Ha : inv_handles a /\ st_counter a = st_counter s) end.
    { repeat match goal with |- context [if ?c then _ else _] => destruct c end; simp_state;
      rewrite ?upd_token_counter; (split; [|reflexivity]);
      (eapply inv_handles_same; [| |exact Hinv]); simp_state; rewrite ?upd_token_handles, ?upd_token_counter; reflexivity. }
    destruct Ha as [Ha1 Ha2]. split; [apply inv_handles_add_obj; exact Ha1|]. intros _. rewrite <- Ha2. apply add_obj_handle_counter.
  - (* destroy *)
    match goal with |- context [del_object ?a ?l] => destruct (del_object_handles a l) as [E1 E2] end.
    split; [|intros _; rewrite E2; simp_state; lia].
    eapply inv_handles_same; [exact E1|exact E2|].
    unfold aremove. apply inv_handles_filter. exact Hinv.
  - (* setattr *)
    match goal with |- context [put_object ?a ?l ?o] => destruct (put_object_handles a l o) as [E1 E2] end.
    split; [|intros _; rewrite E2; lia]. eapply inv_handles_same; [exact E1|exact E2|exact Hinv].
  - (* findinit *)
    match goal with H : find_loop _ _ _ _ _ _ _ _ = Some _ |- _ => apply find_loop_handles in H; [|exact Hinv]; destruct H as [F1 F2] end.
    split; [|intros _; rewrite upd_session_counter; exact F2].
    eapply inv_handles_same; [apply upd_session_handles|apply upd_session_counter|exact F1].
  - split; [|intros _; rewrite upd_session_counter; lia].
    eapply inv_handles_same; [apply upd_session_handles|apply upd_session_counter|exact Hinv].
  - split; [|intros _; rewrite upd_session_counter; lia].
    eapply inv_handles_same; [apply upd_session_handles|apply upd_session_counter|exact Hinv].
Qed.

(* ---- a live handle keeps its denotation: entries are only deleted or added above the counter ---- *)
Definition hext (s s' : state) : Prop :=
  st_counter s <= st_counter s' /\
  forall h e, alookup h (st_handles s') = Some e -> alookup h (st_handles s) = Some e \/ st_counter s < h.

Lemma hext_refl s : hext s s.
Proof. split; [lia|auto]. Qed.

Lemma hext_trans a b c : hext a b -> hext b c -> hext a c.
Proof.
  intros [H1 H2] [H3 H4]. split; [lia|]. intros h e H. apply H4 in H. destruct H as [H|H]; [|right; lia].
  apply H2 in H. exact H.
Qed.

Lemma hext_same s s' : st_handles s' = st_handles s -> st_counter s' = st_counter s -> hext s s'.
Proof. intros E1 E2. split; [lia|]. rewrite E1. auto. Qed.

Lemma alookup_filter_sub {A} (f : N * A -> bool) l k v : NoDup (akeys l) -> alookup k (filter f l) = Some v -> alookup k l = Some v.
Proof.
  induction l as [|[k' v'] r IH]; cbn; [discriminate|]. intros Hnd. inversion Hnd; subst.
  destruct (f (k', v')) eqn:Ef; cbn.
  - destruct (k' =? k) eqn:E; [auto|apply IH; assumption].
  - intros H. destruct (k' =? k) eqn:E.
    + apply N.eqb_eq in E. subst k'. exfalso. apply H1.
      apply alookup_keys in H. eapply akeys_filter. exact H.
    + apply IH; assumption.
Qed.

Lemma hext_filter s f : inv_handles s -> hext s (set_handles s (filter f (st_handles s))).
Proof.
  intros [_ Hnd]. split; simp_state; [lia|]. intros h e H. left. eapply alookup_filter_sub; eauto.
Qed.

Lemma hext_add s e : inv_handles s -> hext s (fst (add_handle s e)).
Proof.
  intros [H1 _]. unfold add_handle. cbn [fst]. split; simp_state; [lia|].
  intros h e' H. rewrite alookup_app in H. destruct (alookup h (st_handles s)) eqn:E.
  - left. exact H.
  - cbn in H. destruct (st_counter s + 1 =? h) eqn:E2; [|discriminate]. apply N.eqb_eq in E2. right. lia.
Qed.

Lemma hext_add_obj s k ss p oid : inv_handles s -> hext s (fst (add_obj_handle s k ss p oid)).
Proof.
  intros H. unfold add_obj_handle. destruct (find_obj_handle s oid); [apply hext_refl|apply hext_add; exact H].
Qed.

Lemma find_loop_hext tc pub k hs tm cands : forall s acc s' r,
  find_loop tc pub k hs tm cands s acc = Some (s', r) -> inv_handles s -> hext s s'.
Proof.
  induction cands as [|[[oid istok] o] rest IH]; intros s acc s' r; cbn.
  - intros H _. inversion H. subst. apply hext_refl.
  - destruct (pub && o_private o); [apply IH|].
    destruct (match_template tc o tm) as [[|]|]; [|apply IH|discriminate].
    destruct (add_obj_handle s k (if o_token o then CK_INVALID_HANDLE else hs) (o_private o) oid) as [s1 h] eqn:E.
    intros H Hi.
    assert (E1 : s1 = fst (add_obj_handle s k (if o_token o then CK_INVALID_HANDLE else hs) (o_private o) oid)) by (rewrite E; reflexivity).
    eapply hext_trans with s1.
    + subst s1. apply hext_add_obj. exact Hi.
    + eapply IH; [exact H|]. subst s1. apply inv_handles_add_obj. exact Hi.
Qed.

Lemma step_hext s o : inv_handles s -> is_restart o = false -> hext s (fst (step s o)).
Proof.
  intros Hinv Hr. destruct o; try discriminate Hr; unfold step; cbn [fst];
  repeat (first [break_match | break_let]; cbn [fst]); try apply hext_refl.
  all: try match goal with H : add_handle _ _ = (_, _) |- _ => unfold add_handle in H; inversion H; subst; clear H end.
  all: try match goal with H : add_obj_handle ?a ?b ?c ?d ?e = (?s1, _) |- _ =>
         assert (E1 : s1 = fst (add_obj_handle a b c d e)) by (rewrite H; reflexivity); clear H; subst s1 end.
  - apply hext_same; reflexivity.
  - apply hext_same; reflexivity.
  - (* open *) eapply hext_trans; [apply hext_add with (e := mkHandle CKH_SESSION n CK_INVALID_HANDLE false 0); exact Hinv|]. apply hext_same; reflexivity.
  - (* close *) eapply hext_trans; [apply hext_filter with (f := fun p => negb ((fst p =? h) || (h_kind (snd p) =? CKH_OBJECT) && (h_sess (snd p) =? h))); exact Hinv|].
    apply hext_same; unfold purge_handles; simp_state; reflexivity.
  - destruct (close_all_handles s (s_tok s0)) as [E1 E2].
    eapply hext_trans; [apply hext_filter with (f := fun p => negb (h_tok (snd p) =? s_tok s0)); exact Hinv|]. apply hext_same; simp_state; assumption.
  - destruct (close_all_handles s n) as [E1 E2].
    eapply hext_trans; [apply hext_filter with (f := fun p => negb (h_tok (snd p) =? n)); exact Hinv|]. apply hext_same; simp_state; assumption.
  - apply hext_same; [apply upd_token_handles|apply upd_token_counter].
  - apply hext_same; [apply upd_token_handles|apply upd_token_counter].
  - (* logout *) unfold purge_handles. simp_state.
    eapply hext_trans; [apply hext_filter with (f := fun p => negb ((h_kind (snd p) =? CKH_OBJECT) && (h_tok (snd p) =? s_tok s0) && h_priv (snd p))); exact Hinv|].
    apply hext_same; simp_state; rewrite ?upd_token_handles, ?upd_token_counter; reflexivity.
  - apply hext_same; [apply upd_token_handles|apply upd_token_counter].
  - apply hext_same; [apply upd_token_handles|apply upd_token_counter].
  - apply hext_same; [apply upd_token_handles|apply upd_token_counter].
  - (* create *)
    match goal with |- hext s (fst (add_obj_handle ?a _ _ _ _)) =>
      assert (Ha : inv_handles a /\ hext s a) end.
    { repeat match goal with |- context [if ?c then _ else _] => destruct c end; simp_state;
      (split; [eapply inv_handles_same; [| |exact Hinv]|apply hext_same]); simp_state; rewrite ?upd_token_handles, ?upd_token_counter; reflexivity. }
    destruct Ha as [Ha1 Ha2]. eapply hext_trans; [exact Ha2|apply hext_add_obj; exact Ha1].
  - match goal with |- hext s (fst (add_obj_handle ?a _ _ _ _)) =>
      assert (Ha : inv_handles a /\ hext s a) end.
    { repeat match goal with |- context [if ?c then _ else _] => destruct c end; simp_state;
      (split; [eapply inv_handles_same; [| |exact Hinv]|apply hext_same]); simp_state; rewrite ?upd_token_handles, ?upd_token_counter; reflexivity. }
    destruct Ha as [Ha1 Ha2]. eapply hext_trans; [exact Ha2|apply hext_add_obj; exact Ha1].
  - (* destroy *)
    match goal with |- context [del_object ?a ?l] => destruct (del_object_handles a l) as [E1 E2] end.
    eapply hext_trans; [apply hext_filter with (f := fun p => negb (fst p =? o)); exact Hinv|]. apply hext_same; simp_state; assumption.
  - match goal with |- context [put_object ?a ?l ?o] => destruct (put_object_handles a l o) as [E1 E2] end.
    apply hext_same; assumption.
  - match goal with H : find_loop _ _ _ _ _ _ _ _ = Some _ |- _ => apply find_loop_hext in H; [|exact Hinv] end.
    eapply hext_trans; [eassumption|]. apply hext_same; [apply upd_session_handles|apply upd_session_counter].
  - apply hext_same; [apply upd_session_handles|apply upd_session_counter].
  - apply hext_same; [apply upd_session_handles|apply upd_session_counter].
Qed.

(* C11: while the library stays initialised a valid handle always denotes the same session or object *)
Theorem denotation_stable s o h e e' :
  inv_handles s -> is_restart o = false ->
  alookup h (st_handles s) = Some e -> alookup h (st_handles (fst (step s o))) = Some e' -> e' = e.
Proof.
  intros Hinv Hr H1 H2. destruct (step_hext s o Hinv Hr) as [_ Hx]. apply Hx in H2. destruct H2 as [H2|H2].
  - congruence.
  - exfalso. destruct Hinv as [Hb _]. apply alookup_keys in H1. apply Hb in H1. lia.
Qed.

(* ... and a handle that was ever dead stays dead: a new entry appears only above the old counter *)
Theorem dead_stays_dead s o h :
  inv_handles s -> is_restart o = false -> h <= st_counter s ->
  alookup h (st_handles s) = None -> alookup h (st_handles (fst (step s o))) = None.
Proof.
  intros Hinv Hr Hle H1. destruct (step_hext s o Hinv Hr) as [_ Hx].
  destruct (alookup h (st_handles (fst (step s o)))) eqn:E; [|reflexivity].
  apply Hx in E. destruct E as [E|E]; [congruence|lia].
Qed.

Fixpoint no_restart (ops : list op) : bool := match ops with [] => true | o :: r => negb (is_restart o) && no_restart r end.

Lemma exec_inv_handles ops : forall s, inv_handles s -> inv_handles (exec s ops).
Proof.
  unfold exec. induction ops as [|o r IH]; intros s H; cbn [fold_left]; [exact H|].
  apply IH. apply step_inv_handles. exact H.
Qed.

(* over any history without re-initialisation: a handle once dead (issued and purged, or not yet
   issued below the counter) is never valid again, and a handle valid at both ends denotes the same thing *)
Theorem handles_never_reused ops : forall s h,
  inv_handles s -> no_restart ops = true -> h <= st_counter s -> alookup h (st_handles s) = None ->
  alookup h (st_handles (exec s ops)) = None.
Proof.
  unfold exec. induction ops as [|o r IH]; intros s h Hinv Hnr Hle Hd; cbn [fold_left]; [exact Hd|].
  cbn in Hnr. apply andb_true_iff in Hnr. destruct Hnr as [Ho Hr]. apply negb_true_iff in Ho.
  apply IH.
  - apply step_inv_handles. exact Hinv.
  - exact Hr.
  - destruct (step_inv_handles s o Hinv) as [_ Hc]. specialize (Hc Ho). lia.
  - apply dead_stays_dead; assumption.
Qed.

(* the new session handle is the next counter value *)
Lemma open_handle_fresh s t flags h :
  snd (step s (OOpen t flags)) = RHandle h -> h = st_counter s + 1 /\ alookup h (st_handles s) = None \/ ~ inv_handles s.
Proof.
  unfold step. repeat (first [break_match | break_let]; cbn [fst snd]); try discriminate.
  intros H. inversion H. subst.
  match goal with H : add_handle _ _ = (_, _) |- _ => unfold add_handle in H; inversion H; subst; clear H end.
  destruct (alookup (st_counter s + 1) (st_handles s)) eqn:E.
  - right. intros [Hb _]. apply alookup_keys in E. apply Hb in E. lia.
  - left. auto.
Qed.

(* exact purge sets (the model's handle table after each event, as a filter of the table before) *)
Lemma logout_purge_exact s h x :
  st_init s = true -> get_session s h = Some x ->
  st_handles (fst (step s (OLogout h))) =
  filter (fun p => negb ((h_kind (snd p) =? CKH_OBJECT) && (h_tok (snd p) =? s_tok x) && h_priv (snd p))) (st_handles s).
Proof.
  intros Hi Hs. unfold step. rewrite Hi. cbn [negb]. cbv iota. rewrite Hs. cbn [fst]. unfold purge_handles. simp_state.
  rewrite upd_token_handles. reflexivity.
Qed.

Lemma closeall_purge_exact s k :
  st_init s = true -> amem k (st_tokens s) = true ->
  st_handles (fst (step s (OCloseAll (TTok k)))) = filter (fun p => negb (h_tok (snd p) =? k)) (st_handles s).
Proof.
  intros Hi Hk. unfold step. rewrite Hi. cbn [negb]. cbv iota. unfold resolve. rewrite Hk. cbn [fst].
  apply close_all_handles.
Qed.

Lemma close_purge_exact s h x :
  st_init s = true -> get_session s h = Some x ->
  st_handles (fst (step s (OClose h))) =
  if other_session_on s (s_tok x) h
  then filter (fun p => negb ((fst p =? h) || (h_kind (snd p) =? CKH_OBJECT) && (h_sess (snd p) =? h))) (st_handles s)
  else filter (fun p => negb (h_tok (snd p) =? s_tok x)) (st_handles s).
Proof.
  intros Hi Hs. unfold step. rewrite Hi. cbn [negb]. cbv iota. rewrite Hs.
  destruct (other_session_on s (s_tok x) h); cbn [fst].
  - unfold purge_handles. simp_state. reflexivity.
  - apply close_all_handles.
Qed.

Lemma destroy_purge_exact s h oh :
  snd (step s (ODestroy h oh)) = RRv CKR_OK ->
  st_handles (fst (step s (ODestroy h oh))) = filter (fun p => negb (fst p =? oh)) (st_handles s).
Proof.
  unfold step. repeat (first [break_match | break_let]; cbn [fst snd]); try discriminate.
  - intros H. inversion H as [H1]. rewrite H1 in *. cbn in *. discriminate.
  - intros _.
    match goal with |- context [del_object ?a ?l] => destruct (del_object_handles a l) as [E1 E2] end.
    rewrite E1. reflexivity.
Qed.

(* a dead handle is rejected by every entry point that takes a session handle *)
Lemma dead_session_rejected s o :
  st_init s = true ->
  match o with
  | OClose h | OSInfo h | OLogout h | OLogin h _ _ | OInitPin h _ | OSetPin h _ _ | OCreate h _ | OCopy h _ _ | ODestroy h _
  | OObjSize h _ | OGetAttr h _ _ | OSetAttr h _ _ | OFindInit h _ _ | OFind h _ | OFindFinal h | OUseInit _ h _ =>
      get_session s h = None -> rv_of (snd (step s o)) = Some CKR_SESSION_HANDLE_INVALID
  | _ => True
  end.
Proof.
  intros Hi. destruct o; try exact I; intros Hs; unfold step; rewrite Hi; cbn [negb]; cbv iota; rewrite Hs; reflexivity.
Qed.

Lemma dead_object_rejected s o :
  st_init s = true ->
  match o with
  | OCopy h oh _ | ODestroy h oh | OObjSize h oh | OGetAttr h oh _ | OSetAttr h oh _ =>
      get_session s h <> None -> get_object s oh = None -> rv_of (snd (step s o)) = Some CKR_OBJECT_HANDLE_INVALID
  | _ => True
  end.
Proof.
  intros Hi. destruct o; try exact I; intros Hs Ho; unfold step; rewrite Hi; cbn [negb]; cbv iota;
  destruct (get_session s h); try congruence; rewrite Ho; reflexivity.
Qed.
