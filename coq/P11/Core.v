(* P11/Core.v — executable model of the PKCS#11 state machine of SoftHSMv2 (no proofs here).

   What is modelled (hand-written, tied to the library by the correspondence stream K-api):
     SoftHSM.cpp: C_Initialize/C_Finalize (restart), C_InitToken, C_InitPIN, C_SetPIN, C_OpenSession,
       C_CloseSession, C_CloseAllSessions, C_GetSessionInfo, C_Login, C_Logout, CreateObject (CKO_DATA
       class), C_CopyObject, C_DestroyObject, C_GetObjectSize, C_GetAttributeValue, C_SetAttributeValue,
       C_FindObjectsInit/C_FindObjects/C_FindObjectsFinal, and the common head of the eight keyed *Init
       entry points (handle, access and usage-flag checks; [OUseInit]).
     SessionManager, HandleManager (one monotone counter), SessionObjectStore, Token (login state,
       PINs as ghost byte strings: DESIGN.md §3 symbolic cryptography), Session::getState.
   What is taken from the regenerated translation of the current sources (gen/Gen_Pure.v, T):
     haveRead, haveWrite (access.cpp), Session::getState, P11Attribute::update (the rule engine).
   Anything outside the modelled fragment answers [RUnmodelled] and leaves the state alone; the
   correspondence check stops comparing a sequence at that point. *)
From Coq Require Import List NArith Bool.
From SoftHSM Require Import Gen_Const Gen_Pure Defs.
Import ListNotations.
Local Open Scope N_scope.
Local Open Scope bool_scope.

(* ---- state ------------------------------------------------------------------------------------------- *)
Inductive login := LNone | LSO | LUser.

Record token := mkToken {
  t_sopin   : bytes;              (* ghost: the PIN the SO blob is wrapped under *)
  t_userpin : option bytes;       (* None = user PIN not initialised (empty blob) *)
  t_login   : login;
  t_key     : N;                  (* identity of the master key wrapped in both blobs *)
  t_objs    : list (N * obj)      (* token objects, keyed by model object id *)
}.

Record session := mkSession {
  s_tok    : N;                   (* label index of the token *)
  s_rw     : bool;
  s_op     : N;                   (* SESSION_OP_* *)
  s_find   : list N               (* handles still to be returned by C_FindObjects, ascending *)
}.

Record hentry := mkHandle {
  h_kind : N;                     (* CKH_SESSION / CKH_OBJECT *)
  h_tok  : N;
  h_sess : N;                     (* owning session for session objects, CK_INVALID_HANDLE otherwise *)
  h_priv : bool;
  h_oid  : N                      (* object id (0 for sessions) *)
}.

Record sobj := mkSObj {
  so_tok  : N;
  so_sess : N;
  so_priv : bool;                 (* isPrivate given to SessionObjectStore::createObject *)
  so_obj  : obj
}.

Record state := mkState {
  st_init     : bool;
  st_tokens   : list (N * token);       (* keyed by label index *)
  st_sessions : list (N * session);     (* keyed by the API session handle *)
  st_handles  : list (N * hentry);      (* HandleManager::handles *)
  st_counter  : N;                      (* HandleManager::handleCounter *)
  st_sobjs    : list (N * sobj);        (* SessionObjectStore::objects, keyed by object id *)
  st_next_oid : N;
  st_next_key : N
}.

Definition init_state : state := mkState false [] [] [] 0 [] 1 1.

Definition set_init (s : state) (b : bool) : state :=
  mkState b (st_tokens s) (st_sessions s) (st_handles s) (st_counter s) (st_sobjs s) (st_next_oid s) (st_next_key s).
Definition set_tokens (s : state) (ts : list (N * token)) : state :=
  mkState (st_init s) ts (st_sessions s) (st_handles s) (st_counter s) (st_sobjs s) (st_next_oid s) (st_next_key s).
Definition set_sessions (s : state) (x : list (N * session)) : state :=
  mkState (st_init s) (st_tokens s) x (st_handles s) (st_counter s) (st_sobjs s) (st_next_oid s) (st_next_key s).
Definition set_handles (s : state) (x : list (N * hentry)) : state :=
  mkState (st_init s) (st_tokens s) (st_sessions s) x (st_counter s) (st_sobjs s) (st_next_oid s) (st_next_key s).
Definition set_counter (s : state) (c : N) : state :=
  mkState (st_init s) (st_tokens s) (st_sessions s) (st_handles s) c (st_sobjs s) (st_next_oid s) (st_next_key s).
Definition set_sobjs (s : state) (x : list (N * sobj)) : state :=
  mkState (st_init s) (st_tokens s) (st_sessions s) (st_handles s) (st_counter s) x (st_next_oid s) (st_next_key s).
Definition set_next_oid (s : state) (n : N) : state :=
  mkState (st_init s) (st_tokens s) (st_sessions s) (st_handles s) (st_counter s) (st_sobjs s) n (st_next_key s).
Definition set_next_key (s : state) (n : N) : state :=
  mkState (st_init s) (st_tokens s) (st_sessions s) (st_handles s) (st_counter s) (st_sobjs s) (st_next_oid s) n.

Definition set_t_login (t : token) (l : login) : token := mkToken (t_sopin t) (t_userpin t) l (t_key t) (t_objs t).
Definition set_t_objs (t : token) (o : list (N * obj)) : token := mkToken (t_sopin t) (t_userpin t) (t_login t) (t_key t) o.
Definition set_t_userpin (t : token) (p : option bytes) : token := mkToken (t_sopin t) p (t_login t) (t_key t) (t_objs t).
Definition set_t_sopin (t : token) (p : bytes) : token := mkToken p (t_userpin t) (t_login t) (t_key t) (t_objs t).

Definition upd_token (s : state) (k : N) (f : token -> token) : state :=
  match alookup k (st_tokens s) with
  | Some t => set_tokens s (aset k (f t) (st_tokens s))
  | None => s
  end.
Definition set_s_op (x : session) (op : N) (fnd : list N) : session := mkSession (s_tok x) (s_rw x) op fnd.
Definition upd_session (s : state) (h : N) (f : session -> session) : state :=
  match alookup h (st_sessions s) with
  | Some x => set_sessions s (aset h (f x) (st_sessions s))
  | None => s
  end.

(* ---- API operations and results ------------------------------------------------------------------- *)
Inductive tref := TFree | TTok (k : N) | TRaw (n : N).

(* a template entry as the caller passes it: type, pValue (None = NULL_PTR), ulValueLen.  When pValue
   is given the model requires it to hold exactly ulValueLen bytes (the driver builds it so). *)
Record tentry := mkT { te_type : N; te_val : option bytes; te_len : N }.
Definition template := list tentry.

(* kinds of keyed operations sharing one head: 0 encrypt 1 decrypt 2 sign 3 verify *)
Inductive op :=
| OInit | OFini | ONewProc
| OInitToken (t : tref) (pin : option bytes) (label : N)
| OOpen (t : tref) (flags : N)
| OClose (h : N)
| OCloseAll (t : tref)
| OSInfo (h : N)
| OLogin (h : N) (utype : N) (pin : option bytes)
| OLogout (h : N)
| OInitPin (h : N) (pin : option bytes)
| OSetPin (h : N) (oldp newp : option bytes)
| OCreate (h : N) (tm : template)
| OCopy (h o : N) (tm : template)
| ODestroy (h o : N)
| OObjSize (h o : N)
| OGetAttr (h o : N) (q : list (N * option N))      (* type, buffer: None = NULL pointer, Some n = n bytes *)
| OSetAttr (h o : N) (tm : template)
| OFindInit (h : N) (tm : template) (prio : list bytes)   (* prio: registration-order oracle, DESIGN.md 2.4 *)
| OFind (h : N) (mx : N)
| OFindFinal (h : N)
| OUseInit (kind : N) (h : N) (key : N).

Inductive res :=
| RRv (rv : N)
| RHandle (h : N)                                          (* CKR_OK and a new handle *)
| RInfo (st flags tok : N)
| RAttrs (rv : N) (l : list (N * option N * option bytes)) (* per entry: type, reported length (None = untouched), bytes written *)
| RFound (hs : list N)
| RNoSlot                                                  (* the driver could not resolve the token reference *)
| RUnmodelled.

Definition rv_of (r : res) : option N :=
  match r with
  | RRv rv => Some rv | RHandle _ => Some CKR_OK | RInfo _ _ _ => Some CKR_OK | RAttrs rv _ => Some rv
  | RFound _ => Some CKR_OK | RNoSlot => None | RUnmodelled => None
  end.

(* ---- session state through the regenerated getState / access matrix ------------------------- *)
Definition tok_login (s : state) (k : N) : login :=
  match alookup k (st_tokens s) with Some t => t_login t | None => LNone end.
Definition is_so (l : login) : bool := match l with LSO => true | _ => false end.
Definition is_user (l : login) : bool := match l with LUser => true | _ => false end.

Definition sess_state (s : state) (x : session) : N :=
  let l := tok_login s (s_tok x) in
  gen_Session__getState (s_rw x) (is_so l) (is_user l).

Definition b2n (b : bool) : N := if b then 1 else 0.
Definition have_read (st : N) (tok priv : bool) : N := gen_haveRead st (b2n tok) (b2n priv).
Definition have_write (st : N) (tok priv : bool) : N := gen_haveWrite st (b2n tok) (b2n priv).

(* ---- HandleManager --------------------------------------------------------------------------------- *)
Definition get_session (s : state) (h : N) : option session :=
  match alookup h (st_handles s) with
  | Some e => if h_kind e =? CKH_SESSION then alookup h (st_sessions s) else None
  | None => None
  end.

Definition add_handle (s : state) (e : hentry) : state * N :=
  let c := st_counter s + 1 in
  (set_counter (set_handles s (st_handles s ++ [(c, e)])) c, c).

(* handle already registered for object [oid] (HandleManager::objects) *)
Definition find_obj_handle (s : state) (oid : N) : option N :=
  match filter (fun p => (h_kind (snd p) =? CKH_OBJECT) && (h_oid (snd p) =? oid)) (st_handles s) with
  | (h, _) :: _ => Some h
  | [] => None
  end.

(* addTokenObject / addSessionObject: reuse the existing handle of the object *)
Definition add_obj_handle (s : state) (k sess : N) (priv : bool) (oid : N) : state * N :=
  match find_obj_handle s oid with
  | Some h => (s, h)
  | None => add_handle s (mkHandle CKH_OBJECT k sess priv oid)
  end.

Definition purge_handles (s : state) (dead : N * hentry -> bool) : state :=
  set_handles s (filter (fun p => negb (dead p)) (st_handles s)).

(* ---- objects --------------------------------------------------------------------------------------- *)
Inductive oloc := LTok (k oid : N) | LSess (oid : N).

(* the object a handle denotes, if the handle is a live object handle and the object is valid *)
Definition get_object (s : state) (h : N) : option (hentry * oloc * obj) :=
  match alookup h (st_handles s) with
  | Some e =>
      if h_kind e =? CKH_OBJECT then
        match alookup (h_oid e) (st_sobjs s) with
        | Some so => Some (e, LSess (h_oid e), so_obj so)
        | None =>
            match alookup (h_tok e) (st_tokens s) with
            | Some t => match alookup (h_oid e) (t_objs t) with
                        | Some o => Some (e, LTok (h_tok e) (h_oid e), o)
                        | None => None
                        end
            | None => None
            end
        end
      else None
  | None => None
  end.

Definition put_object (s : state) (l : oloc) (o : obj) : state :=
  match l with
  | LTok k oid => upd_token s k (fun t => set_t_objs t (aset oid o (t_objs t)))
  | LSess oid =>
      match alookup oid (st_sobjs s) with
      | Some so => set_sobjs s (aset oid (mkSObj (so_tok so) (so_sess so) (so_priv so) o) (st_sobjs s))
      | None => s
      end
  end.

Definition del_object (s : state) (l : oloc) : state :=
  match l with
  | LTok k oid => upd_token s k (fun t => set_t_objs t (aremove oid (t_objs t)))
  | LSess oid => set_sobjs s (aremove oid (st_sobjs s))
  end.

Definition o_token (o : obj) : bool := obj_bool o CKA_TOKEN false.
Definition o_private (o : obj) : bool := obj_bool o CKA_PRIVATE true.

(* ---- the attribute engine for the CKO_DATA class ---------------------------------------------- *)
(* P11DataObj::init table: attribute type -> (fixed size or UNAVAILABLE, checks).  props/Tie_Core.v
   proves this table equal to the one the regenerated P11DataObj::init builds. *)
Definition UNAVAIL : N := CK_UNAVAILABLE_INFORMATION.
Definition data_table : list (N * (N * N)) :=
  [ (CKA_CLASS, (8, ck1)); (CKA_TOKEN, (1, ck17)); (CKA_PRIVATE, (1, ck17)); (CKA_LABEL, (UNAVAIL, ck8));
    (CKA_APPLICATION, (UNAVAIL, 0)); (CKA_VALUE, (UNAVAIL, 0)); (CKA_OBJECT_ID, (UNAVAIL, 0));
    (CKA_MODIFIABLE, (1, ck17)); (CKA_COPYABLE, (1, ck12)); (CKA_DESTROYABLE, (1, ck17)) ].

Definition data_defaults : obj :=
  [ (CKA_CLASS, AULong CKO_DATA); (CKA_TOKEN, ABool false); (CKA_PRIVATE, ABool true); (CKA_MODIFIABLE, ABool true);
    (CKA_LABEL, ABytes None []); (CKA_COPYABLE, ABool true); (CKA_DESTROYABLE, ABool true);
    (CKA_APPLICATION, ABytes None []); (CKA_OBJECT_ID, ABytes None []); (CKA_VALUE, ABytes None []) ].

Definition is_bool_attr (a : N) : bool :=
  nmem a [CKA_TOKEN; CKA_PRIVATE; CKA_MODIFIABLE; CKA_COPYABLE; CKA_DESTROYABLE].

(* token-side context: can Token::encrypt/decrypt succeed, and under which key *)
Record tctx := mkTctx { tc_logged : bool; tc_key : N }.

Definition tctx_of (s : state) (k : N) : tctx :=
  match alookup k (st_tokens s) with
  | Some t => mkTctx (negb (match t_login t with LNone => true | _ => false end)) (t_key t)
  | None => mkTctx false 0
  end.

Definition first_byte (v : option bytes) : N := match v with Some (x :: _) => x | _ => 0 end.

(* P11Attr*::updateAttr for the attributes of the data class *)
Definition update_attr (tc : tctx) (a : N) (o : obj) (isPrivate : bool) (e : tentry) : N * obj :=
  if a =? CKA_CLASS then
    if negb (te_len e =? 8) then (CKR_ATTRIBUTE_VALUE_INVALID, o)
    else match te_val e with
         | Some b => if obj_ulong o CKA_CLASS CKO_VENDOR_DEFINED =? le_decode b then (CKR_OK, o) else (CKR_TEMPLATE_INCONSISTENT, o)
         | None => (CKR_GENERAL_ERROR, o)
         end
  else if a =? CKA_COPYABLE then
    if negb (te_len e =? 1) then (CKR_ATTRIBUTE_VALUE_INVALID, o)
    else if first_byte (te_val e) =? 0 then (CKR_OK, aset a (ABool false) o)
    else if negb (obj_bool o CKA_COPYABLE true) then (CKR_ATTRIBUTE_READ_ONLY, o) else (CKR_OK, o)
  else if is_bool_attr a then
    if negb (te_len e =? 1) then (CKR_ATTRIBUTE_VALUE_INVALID, o)
    else (CKR_OK, aset a (ABool (negb (first_byte (te_val e) =? 0))) o)
  else
    (* P11Attribute::updateAttr: byte string, encrypted when the object is private *)
    let b := match te_val e with Some b => b | None => [] end in
    if isPrivate then
      if tc_logged tc then (CKR_OK, aset a (ABytes (Some (tc_key tc)) b) o) else (CKR_GENERAL_ERROR, o)
    else (CKR_OK, aset a (ABytes None b) o).

(* P11Attribute::update through the regenerated rule engine *)
Definition attr_update (tc : tctx) (o : obj) (isPrivate : bool) (e : tentry) (op : N) : N * obj :=
  match alookup (te_type e) data_table with
  | None => (CKR_ATTRIBUTE_TYPE_INVALID, o)
  | Some (size, checks) =>
      let modifiable := if amem CKA_MODIFIABLE o then obj_bool o CKA_MODIFIABLE true else true in
      let trusted := if amem CKA_TRUSTED o then obj_bool o CKA_TRUSTED false else false in
      let rv := gen_P11Attribute__update modifiable trusted (fun a d => obj_ulong o a d) checks 1 size
                  (fun _ _ _ _ _ => fst (update_attr tc (te_type e) o isPrivate e))
                  1 isPrivate (match te_val e with Some _ => 1 | None => 0 end) (te_len e) op in
      (* the store happens iff the rule engine reached updateAttr and that returned OK *)
      let r := update_attr tc (te_type e) o isPrivate e in
      if (rv =? CKR_OK) then (rv, snd r) else (rv, o)
  end.

Fixpoint save_entries (tc : tctx) (isPrivate : bool) (op : N) (tm : template) (o : obj) : N * obj :=
  match tm with
  | [] => (CKR_OK, o)
  | e :: r =>
      let (rv, o1) := attr_update tc o isPrivate e op in
      if rv =? CKR_OK then save_entries tc isPrivate op r o1 else (rv, o1)
  end.

Definition has_ck (k ck : N) : bool := N.land k ck =? ck.
Definition in_template (t : N) (tm : template) : bool := existsb (fun e => te_type e =? t) tm.
Definition mandatory_missing (op : N) (tm : template) : bool :=
  existsb (fun kv => let k := snd (snd kv) in
             ((has_ck k ck1 && (op =? OBJECT_OP_CREATE)) || (has_ck k ck3 && (op =? OBJECT_OP_GENERATE))
              || (has_ck k ck5 && (op =? OBJECT_OP_UNWRAP))) && negb (in_template (fst kv) tm))
          data_table.

(* P11Object::saveTemplate.  [rollback] = the OSObject implements abortTransaction (token objects
   re-read the file; for session objects see known finding F2). *)
Definition save_template (tc : tctx) (rollback : bool) (isPrivate : bool) (tm : template) (op : N) (o : obj) : N * obj :=
  let fail := fun (rv : N) (o1 : obj) => (rv, if rollback then o else o1) in
  let modifiable := if amem CKA_MODIFIABLE o then obj_bool o CKA_MODIFIABLE true else true in
  let copyable := if amem CKA_COPYABLE o then obj_bool o CKA_COPYABLE true else true in
  if (op =? OBJECT_OP_SET) && negb modifiable then fail CKR_ACTION_PROHIBITED o
  else if (op =? OBJECT_OP_COPY) && negb copyable then fail CKR_ACTION_PROHIBITED o
  else let (rv, o1) := save_entries tc isPrivate op tm o in
       if negb (rv =? CKR_OK) then fail rv o1
       else if mandatory_missing op tm then fail CKR_TEMPLATE_INCOMPLETE o1
       else (CKR_OK, o1).

(* Token::decrypt of a stored value as seen from token context [tc] *)
Definition tok_decrypt (tc : tctx) (enc : option N) (b : bytes) : option bytes :=
  match enc with
  | Some k => if tc_logged tc && (k =? tc_key tc) then Some b else None
  | None => None     (* a clear non-empty string is not a valid ciphertext *)
  end.

(* stored size of a byte string: ciphertext = IV + PKCS#7-padded CBC *)
Definition stored_size (enc : option N) (b : bytes) : N :=
  match enc with Some _ => 16 + (blen b / 16 + 1) * 16 | None => blen b end.

(* P11Attribute::retrieve for the data class (no ck7 attributes there) *)
Definition retrieve (tc : tctx) (isPrivate : bool) (o : obj) (a : N) (size : N) (buf : option N)
  : N * option N * option bytes :=
  match alookup a o with
  | None => (CKR_GENERAL_ERROR, None, None)
  | Some av =>
      let value : option (N + bytes) :=       (* inl fixed-size value / inr byte string; None = failure *)
        match av with
        | ABool b => Some (inl (b2n b))
        | AULong n => Some (inl n)
        | ABytes enc b =>
            if isPrivate && negb (stored_size enc b =? 0) then
              match tok_decrypt tc enc b with Some pt => Some (inr pt) | None => None end
            else match enc with None => Some (inr b) | Some _ => None end
        | _ => None
        end in
      match value with
      | None => (CKR_GENERAL_ERROR, None, None)
      | Some v =>
          let n := if size =? UNAVAIL then match v with inr b => blen b | inl _ => 0 end else size in
          let data := match v, av with
                      | inl x, ABool _ => [x]
                      | inl x, _ => le_encode 8 x
                      | inr b, _ => b
                      end in
          match buf with
          | None => (CKR_OK, Some n, None)
          | Some have => if n <=? have then (CKR_OK, Some n, Some data) else (CKR_BUFFER_TOO_SMALL, Some UNAVAIL, None)
          end
      end
  end.

(* P11Object::loadTemplate *)
Fixpoint load_entries (tc : tctx) (isPrivate : bool) (o : obj) (q : list (N * option N))
         (inval small : bool) (acc : list (N * option N * option bytes)) : N * list (N * option N * option bytes) :=
  match q with
  | [] => ((if inval then CKR_ATTRIBUTE_TYPE_INVALID else if small then CKR_BUFFER_TOO_SMALL else CKR_OK), rev acc)
  | (a, buf) :: r =>
      match alookup a data_table with
      | None => load_entries tc isPrivate o r true small ((a, Some UNAVAIL, None) :: acc)
      | Some (size, _) =>
          match retrieve tc isPrivate o a size buf with
          | (rv, len, data) =>
              let acc' := (a, len, data) :: acc in
              if rv =? CKR_BUFFER_TOO_SMALL then load_entries tc isPrivate o r inval true acc'
              else if negb (rv =? CKR_OK) then (CKR_GENERAL_ERROR, rev acc' ++ map (fun x => (fst x, None, None)) r)
              else load_entries tc isPrivate o r inval small acc'
          end
      end
  end.

(* P11Object::isPrivate: absent attribute means false here *)
Definition o_private_p11 (o : obj) : bool := if amem CKA_PRIVATE o then obj_bool o CKA_PRIVATE false else false.

(* extractObjectInformation (explicit mode) restricted to what the data class needs *)
Definition tmpl_ulong (a : N) (tm : template) : option N :=
  fold_left (fun acc e => if (te_type e =? a) && (te_len e =? 8) then
                            match te_val e with Some b => Some (le_decode b) | None => acc end else acc) tm None.
Definition tmpl_bool (a : N) (tm : template) (dflt : N) : N :=
  fold_left (fun acc e => if (te_type e =? a) && (te_len e =? 1) then
                            match te_val e with Some (x :: _) => x | _ => acc end else acc) tm dflt.

(* does every entry carry a pointer consistent with its length (the driver guarantees it; entries
   the code would dereference through a NULL pointer are outside the model) *)
Definition tmpl_wellformed (tm : template) : bool :=
  forallb (fun e => match te_val e with
                    | Some b => blen b =? te_len e
                    | None => negb ((te_len e =? 8) && nmem (te_type e) [CKA_CLASS; CKA_KEY_TYPE; CKA_CERTIFICATE_TYPE])
                              && negb ((te_len e =? 1) && nmem (te_type e) [CKA_TOKEN; CKA_PRIVATE])
                    end) tm.

(* CKA_CHECK_VALUE entries are moved to the end of the template by CreateObject *)
Definition reorder (tm : template) : template :=
  filter (fun e => negb (te_type e =? CKA_CHECK_VALUE)) tm ++ filter (fun e => te_type e =? CKA_CHECK_VALUE) tm.

(* ---- login ------------------------------------------------------------------------------------------- *)
Definition pin_ok (stored : bytes) (given : bytes) : bool :=
  negb (blen given =? 0) && bytes_eqb stored given.

Definition pin_len_ok (n : N) : bool := (MIN_PIN_LEN <=? n) && (n <=? MAX_PIN_LEN).

(* everything of slot k is gone: HandleManager::allSessionsClosed + SessionObjectStore + SessionManager *)
Definition close_all (s : state) (k : N) : state :=
  let s1 := purge_handles s (fun p => h_tok (snd p) =? k) in
  let s2 := set_sobjs s1 (filter (fun p => negb (so_tok (snd p) =? k)) (st_sobjs s1)) in
  let s3 := set_sessions s2 (filter (fun p => negb (s_tok (snd p) =? k)) (st_sessions s2)) in
  upd_token s3 k (fun t => set_t_login t LNone).

Definition other_session_on (s : state) (k h : N) : bool :=
  existsb (fun p => (s_tok (snd p) =? k) && negb (fst p =? h)) (st_sessions s).

Definition resolve (s : state) (t : tref) : option (option N) :=     (* Some None = the free slot *)
  match t with
  | TFree => Some None
  | TTok k => if amem k (st_tokens s) then Some (Some k) else None
  | TRaw _ => None
  end.

(* a restart of the library (C_Finalize; C_Initialize or a new process): tokens are reloaded from
   disk (objects and PINs persist), everything else is gone *)
Definition restart (s : state) (initialised : bool) : state :=
  mkState initialised (map (fun p => (fst p, set_t_login (snd p) LNone)) (st_tokens s)) [] [] 0 [] (st_next_oid s) (st_next_key s).

Definition label_of (o : obj) : bytes :=
  match alookup CKA_LABEL o with Some (ABytes _ b) => b | _ => [] end.

(* template matching of C_FindObjectsInit; None = the call fails with CKR_GENERAL_ERROR *)
Definition match_entry (tc : tctx) (o : obj) (e : tentry) : option bool :=
  match alookup (te_type e) o with
  | None => Some false
  | Some (ABool b) => Some ((te_len e =? 1) && Bool.eqb b (first_byte (te_val e) =? CK_TRUE))
  | Some (AULong n) => Some ((te_len e =? 8) && match te_val e with Some v => n =? le_decode v | None => false end)
  | Some (ABytes enc b) =>
      let pt := if o_private o && negb (stored_size enc b =? 0) then tok_decrypt tc enc b
                else match enc with None => Some b | Some _ => None end in
      match pt with
      | None => None
      | Some v => Some ((blen v =? te_len e) && ((te_len e =? 0) || match te_val e with Some w => bytes_eqb v w | None => false end))
      end
  | Some _ => Some false
  end.

Fixpoint match_template (tc : tctx) (o : obj) (tm : template) : option bool :=
  match tm with
  | [] => Some true
  | e :: r => match match_entry tc o e with
              | None => None
              | Some false => Some false
              | Some true => match_template tc o r
              end
  end.

(* insertion into an ascending duplicate-free list (std::set<CK_OBJECT_HANDLE>) *)
Fixpoint insert_sorted (x : N) (l : list N) : list N :=
  match l with
  | [] => [x]
  | y :: r => if x <? y then x :: l else if x =? y then l else y :: insert_sorted x r
  end.

(* candidates of a search in the session's slot, in a canonical order (token objects then session
   objects, each by object id); the implementation iterates a pointer-ordered set — the order only
   influences which fresh handle number an unregistered object gets, see DESIGN.md §4.2 *)
Definition candidates (s : state) (k : N) : list (N * bool * obj) :=    (* oid, is token object, attributes *)
  (match alookup k (st_tokens s) with Some t => map (fun p => (fst p, true, snd p)) (t_objs t) | None => [] end)
  ++ map (fun p => (fst p, false, so_obj (snd p))) (filter (fun p => so_tok (snd p) =? k) (st_sobjs s)).

(* registration order of unregistered candidates: the implementation iterates a pointer-ordered
   std::set, so the order in which several fresh objects get their handle numbers in one
   C_FindObjectsInit is not determined by the API history.  It is an ORACLE argument of the operation
   (a priority list of labels, observed on the real run); theorems hold for every oracle. *)
Fixpoint prio_index (l : bytes) (prio : list bytes) (n : nat) : nat :=
  match prio with
  | [] => n
  | p :: r => if bytes_eqb p l then O else S (prio_index l r n)
  end.
Fixpoint insert_cand (prio : list bytes) (c : N * bool * obj) (l : list (N * bool * obj)) : list (N * bool * obj) :=
  match l with
  | [] => [c]
  | d :: r => if Nat.ltb (prio_index (label_of (snd c)) prio (length prio)) (prio_index (label_of (snd d)) prio (length prio))
              then c :: l else d :: insert_cand prio c r
  end.
Definition order_cands (prio : list bytes) (l : list (N * bool * obj)) : list (N * bool * obj) :=
  fold_right (insert_cand prio) [] l.

Fixpoint find_loop (tc : tctx) (public : bool) (k hs : N) (tm : template) (cands : list (N * bool * obj))
         (s : state) (acc : list N) : option (state * list N) :=
  match cands with
  | [] => Some (s, acc)
  | (oid, istok, o) :: r =>
      if public && o_private o then find_loop tc public k hs tm r s acc
      else match match_template tc o tm with
           | None => None
           | Some false => find_loop tc public k hs tm r s acc
           | Some true =>
               let (s1, h) := add_obj_handle s k (if o_token o then CK_INVALID_HANDLE else hs) (o_private o) oid in
               find_loop tc public k hs tm r s1 (insert_sorted h acc)
           end
  end.

Fixpoint take (n : nat) (l : list N) : list N :=
  match n, l with
  | S n', x :: r => x :: take n' r
  | _, _ => []
  end.
Fixpoint drop (n : nat) (l : list N) : list N :=
  match n, l with
  | S n', _ :: r => drop n' r
  | _, _ => l
  end.

(* ---- the step function ----------------------------------------------------------------------------- *)
Definition NOINIT := CKR_CRYPTOKI_NOT_INITIALIZED.

Definition usage_attr (kind : N) : N :=
  if kind =? 0 then CKA_ENCRYPT else if kind =? 1 then CKA_DECRYPT else if kind =? 2 then CKA_SIGN else CKA_VERIFY.

Definition step (s : state) (o : op) : state * res :=
  match o with
  | ONewProc => (restart s false, RRv CKR_OK)
  | OInit => if st_init s then (s, RRv CKR_CRYPTOKI_ALREADY_INITIALIZED) else (restart s true, RRv CKR_OK)
  | OFini => if st_init s then (restart s false, RRv CKR_OK) else (s, RRv NOINIT)
  | _ =>
    if negb (st_init s) then
      (s, match o with
          | OInitToken t _ _ | OOpen t _ | OCloseAll t => RNoSlot     (* the driver cannot list slots *)
          | _ => RRv NOINIT
          end)
    else
    match o with
    | OInitToken t pin label =>
        match resolve s t with
        | None => (s, match t with TRaw _ => RRv CKR_SLOT_ID_INVALID | _ => RNoSlot end)
        | Some tk =>
            let busy := match tk with Some k => existsb (fun p => s_tok (snd p) =? k) (st_sessions s) | None => false end in
            if busy then (s, RRv CKR_SESSION_EXISTS)
            else match pin with
                 | None => (s, RRv CKR_ARGUMENTS_BAD)
                 | Some p =>
                     if negb (pin_len_ok (blen p)) then (s, RRv CKR_PIN_INCORRECT)
                     else match tk with
                          | Some k =>
                              match alookup k (st_tokens s) with
                              | Some t0 =>
                                  if negb (k =? label) then (s, RUnmodelled)        (* relabelling changes the driver's token names *)
                                  else if pin_ok (t_sopin t0) p
                                  then (set_tokens s (aset k (mkToken (t_sopin t0) None LNone (t_key t0) []) (st_tokens s)), RRv CKR_OK)
                                  else (s, RRv CKR_PIN_INCORRECT)
                              | None => (s, RUnmodelled)
                              end
                          | None =>
                              if amem label (st_tokens s) then (s, RUnmodelled)
                              else (set_next_key (set_tokens s (st_tokens s ++ [(label, mkToken p None LNone (st_next_key s) [])])) (st_next_key s + 1),
                                    RRv CKR_OK)
                          end
                 end
        end
    | OOpen t flags =>
        match resolve s t with
        | None => (s, match t with TRaw _ => RRv CKR_SLOT_ID_INVALID | _ => RNoSlot end)
        | Some tk =>
            if N.land flags CKF_SERIAL_SESSION =? 0 then (s, RRv CKR_SESSION_PARALLEL_NOT_SUPPORTED)
            else match tk with
                 | None => (s, RRv CKR_TOKEN_NOT_RECOGNIZED)
                 | Some k =>
                     let rw := N.land flags CKF_RW_SESSION =? CKF_RW_SESSION in
                     if negb rw && is_so (tok_login s k) then (s, RRv CKR_SESSION_READ_WRITE_SO_EXISTS)
                     else let (s1, h) := add_handle s (mkHandle CKH_SESSION k CK_INVALID_HANDLE false 0) in
                          (set_sessions s1 (st_sessions s1 ++ [(h, mkSession k rw SESSION_OP_NONE [])]), RHandle h)
                 end
        end
    | OClose h =>
        match get_session s h with
        | None => (s, RRv CKR_SESSION_HANDLE_INVALID)
        | Some x =>
            let k := s_tok x in
            if other_session_on s k h then
              (* handle of the session and of the objects it owns; its session objects *)
              let s1 := purge_handles s (fun p => (fst p =? h) || ((h_kind (snd p) =? CKH_OBJECT) && (h_sess (snd p) =? h))) in
              let s2 := set_sobjs s1 (filter (fun p => negb (so_sess (snd p) =? h)) (st_sobjs s1)) in
              (set_sessions s2 (aremove h (st_sessions s2)), RRv CKR_OK)
            else (close_all s k, RRv CKR_OK)
        end
    | OCloseAll t =>
        match resolve s t with
        | None => (s, match t with TRaw _ => RRv CKR_SLOT_ID_INVALID | _ => RNoSlot end)
        | Some None => (s, RRv CKR_OK)     (* the free slot has a (not initialised) token object: nothing to close *)
        | Some (Some k) => (close_all s k, RRv CKR_OK)
        end
    | OSInfo h =>
        match get_session s h with
        | None => (s, RRv CKR_SESSION_HANDLE_INVALID)
        | Some x => (s, RInfo (sess_state s x) (N.lor CKF_SERIAL_SESSION (if s_rw x then CKF_RW_SESSION else 0)) (s_tok x))
        end
    | OLogin h utype pin =>
        match get_session s h with
        | None => (s, RRv CKR_SESSION_HANDLE_INVALID)
        | Some x =>
            match pin with
            | None => (s, RRv CKR_ARGUMENTS_BAD)
            | Some p =>
                let k := s_tok x in
                match alookup k (st_tokens s) with
                | None => (s, RRv CKR_GENERAL_ERROR)
                | Some t =>
                    if utype =? CKU_SO then
                      if existsb (fun q => (s_tok (snd q) =? k) && negb (s_rw (snd q))) (st_sessions s) then (s, RRv CKR_SESSION_READ_ONLY_EXISTS)
                      else if is_user (t_login t) then (s, RRv CKR_USER_ANOTHER_ALREADY_LOGGED_IN)
                      else if is_so (t_login t) then (s, RRv CKR_USER_ALREADY_LOGGED_IN)
                      else if pin_ok (t_sopin t) p then (upd_token s k (fun t => set_t_login t LSO), RRv CKR_OK)
                      else (s, RRv CKR_PIN_INCORRECT)
                    else if utype =? CKU_USER then
                      if is_so (t_login t) then (s, RRv CKR_USER_ANOTHER_ALREADY_LOGGED_IN)
                      else if is_user (t_login t) then (s, RRv CKR_USER_ALREADY_LOGGED_IN)
                      else match t_userpin t with
                           | None => (s, RRv CKR_USER_PIN_NOT_INITIALIZED)
                           | Some up => if pin_ok up p then (upd_token s k (fun t => set_t_login t LUser), RRv CKR_OK)
                                        else (s, RRv CKR_PIN_INCORRECT)
                           end
                    else if utype =? CKU_CONTEXT_SPECIFIC then (s, RRv CKR_OPERATION_NOT_INITIALIZED)  (* no reauth pending in this fragment *)
                    else (s, RRv CKR_USER_TYPE_INVALID)
                end
            end
        end
    | OLogout h =>
        match get_session s h with
        | None => (s, RRv CKR_SESSION_HANDLE_INVALID)
        | Some x =>
            let k := s_tok x in
            let s1 := upd_token s k (fun t => set_t_login t LNone) in
            let s2 := purge_handles s1 (fun p => (h_kind (snd p) =? CKH_OBJECT) && (h_tok (snd p) =? k) && h_priv (snd p)) in
            (set_sobjs s2 (filter (fun p => negb ((so_tok (snd p) =? k) && so_priv (snd p))) (st_sobjs s2)), RRv CKR_OK)
        end
    | OInitPin h pin =>
        match get_session s h with
        | None => (s, RRv CKR_SESSION_HANDLE_INVALID)
        | Some x =>
            if negb (sess_state s x =? CKS_RW_SO_FUNCTIONS) then (s, RRv CKR_USER_NOT_LOGGED_IN)
            else match pin with
                 | None => (s, RRv CKR_ARGUMENTS_BAD)
                 | Some p => if negb (pin_len_ok (blen p)) then (s, RRv CKR_PIN_LEN_RANGE)
                             else (upd_token s (s_tok x) (fun t => set_t_userpin t (Some p)), RRv CKR_OK)
                 end
        end
    | OSetPin h oldp newp =>
        match get_session s h with
        | None => (s, RRv CKR_SESSION_HANDLE_INVALID)
        | Some x =>
            match oldp, newp with
            | Some po, Some pn =>
                if negb (pin_len_ok (blen pn)) then (s, RRv CKR_PIN_LEN_RANGE)
                else match alookup (s_tok x) (st_tokens s) with
                     | None => (s, RRv CKR_GENERAL_ERROR)
                     | Some t =>
                         let st := sess_state s x in
                         if (st =? CKS_RW_PUBLIC_SESSION) || (st =? CKS_RW_USER_FUNCTIONS) then
                           match t_userpin t with
                           | Some up => if pin_ok up po then (upd_token s (s_tok x) (fun t => set_t_userpin t (Some pn)), RRv CKR_OK)
                                        else (s, RRv CKR_PIN_INCORRECT)
                           | None => (s, RRv CKR_PIN_INCORRECT)
                           end
                         else if st =? CKS_RW_SO_FUNCTIONS then
                           if pin_ok (t_sopin t) po then (upd_token s (s_tok x) (fun t => set_t_sopin t pn), RRv CKR_OK)
                           else (s, RRv CKR_PIN_INCORRECT)
                         else (s, RRv CKR_SESSION_READ_ONLY)
                     end
            | _, _ => (s, RRv CKR_ARGUMENTS_BAD)
            end
        end
    | OCreate h tm =>
        match get_session s h with
        | None => (s, RRv CKR_SESSION_HANDLE_INVALID)
        | Some x =>
            if negb (tmpl_wellformed tm) then (s, RUnmodelled) else
            match tmpl_ulong CKA_CLASS tm with
            | None => (s, RRv CKR_TEMPLATE_INCOMPLETE)
            | Some cls =>
                if negb (cls =? CKO_DATA) then (s, RUnmodelled) else
                let isOnToken := tmpl_bool CKA_TOKEN tm 0 in
                let isPrivate := tmpl_bool CKA_PRIVATE tm 1 in
                let rv := have_write (sess_state s x) (negb (isOnToken =? 0)) (negb (isPrivate =? 0)) in
                if negb (rv =? CKR_OK) then (s, RRv rv)
                else if 32 <? N.of_nat (length tm) then (s, RRv CKR_TEMPLATE_INCONSISTENT)
                else
                  let k := s_tok x in
                  let tc := tctx_of s k in
                  let oid := st_next_oid s in
                  (* rollback=false: a failed saveTemplate leaves the freshly created object; CreateObject
                     destroys it (fix F1); the attribute state of the aborted object is irrelevant *)
                  let (rv1, o1) := save_template tc true (negb (isPrivate =? 0)) (reorder tm) OBJECT_OP_CREATE data_defaults in
                  if negb (rv1 =? CKR_OK) then (s, RRv rv1)
                  else
                    let s1 := set_next_oid s (oid + 1) in
                    let s2 := if negb (isOnToken =? 0)
                              then upd_token s1 k (fun t => set_t_objs t (t_objs t ++ [(oid, o1)]))
                              else set_sobjs s1 (st_sobjs s1 ++ [(oid, mkSObj k h (negb (isPrivate =? 0)) o1)]) in
                    let (s3, hh) := add_obj_handle s2 k (if negb (isOnToken =? 0) then CK_INVALID_HANDLE else h) (negb (isPrivate =? 0)) oid in
                    (s3, RHandle hh)
            end
        end
    | ODestroy h oh =>
        match get_session s h with
        | None => (s, RRv CKR_SESSION_HANDLE_INVALID)
        | Some x =>
            match get_object s oh with
            | None => (s, RRv CKR_OBJECT_HANDLE_INVALID)
            | Some (e, loc, ob) =>
                let rv := have_write (sess_state s x) (o_token ob) (o_private ob) in
                if negb (rv =? CKR_OK) then (s, RRv rv)
                else if negb (obj_bool ob CKA_DESTROYABLE true) then (s, RRv CKR_ACTION_PROHIBITED)
                else (del_object (set_handles s (aremove oh (st_handles s))) loc, RRv CKR_OK)
            end
        end
    | OObjSize h oh =>
        match get_session s h with
        | None => (s, RRv CKR_SESSION_HANDLE_INVALID)
        | Some x =>
            match get_object s oh with
            | None => (s, RRv CKR_OBJECT_HANDLE_INVALID)
            | Some _ => (s, RRv CKR_OK)
            end
        end
    | OGetAttr h oh q =>
        match get_session s h with
        | None => (s, RRv CKR_SESSION_HANDLE_INVALID)
        | Some x =>
            match get_object s oh with
            | None => (s, RRv CKR_OBJECT_HANDLE_INVALID)
            | Some (e, loc, ob) =>
                let rv := have_read (sess_state s x) (o_token ob) (o_private ob) in
                if negb (rv =? CKR_OK) then (s, RAttrs CKR_GENERAL_ERROR (map (fun p => (fst p, None, None)) q))
                else if negb (obj_ulong ob CKA_CLASS CKO_VENDOR_DEFINED =? CKO_DATA) then (s, RUnmodelled)
                else let (rv1, l) := load_entries (tctx_of s (s_tok x)) (o_private_p11 ob) ob q false false [] in
                     (s, RAttrs rv1 l)
            end
        end
    | OSetAttr h oh tm =>
        match get_session s h with
        | None => (s, RRv CKR_SESSION_HANDLE_INVALID)
        | Some x =>
            match get_object s oh with
            | None => (s, RRv CKR_OBJECT_HANDLE_INVALID)
            | Some (e, loc, ob) =>
                let rv := have_write (sess_state s x) (o_token ob) (o_private ob) in
                if negb (rv =? CKR_OK) then (s, RRv rv)
                else if negb (obj_bool ob CKA_MODIFIABLE true) then (s, RRv CKR_ACTION_PROHIBITED)
                else if negb (tmpl_wellformed tm) || negb (obj_ulong ob CKA_CLASS CKO_VENDOR_DEFINED =? CKO_DATA) then (s, RUnmodelled)
                else
                  (* token objects re-read their file on abort; session objects restore the copy taken at
                     startTransaction (fix F2): a rejected template leaves the object as it was *)
                  let (rv1, o1) := save_template (tctx_of s (s_tok x)) true (o_private ob) tm OBJECT_OP_SET ob in
                  if rv1 =? CKR_OK then (put_object s loc o1, RRv CKR_OK) else (s, RRv rv1)
            end
        end
    | OCopy h oh tm =>
        match get_session s h with
        | None => (s, RRv CKR_SESSION_HANDLE_INVALID)
        | Some x =>
            match get_object s oh with
            | None => (s, RRv CKR_OBJECT_HANDLE_INVALID)
            | Some (e, loc, ob) =>
                let wasTok := o_token ob in
                let wasPriv := o_private ob in
                let rv := have_read (sess_state s x) wasTok wasPriv in
                if negb (rv =? CKR_OK) then (s, RRv rv)
                else if negb (obj_bool ob CKA_COPYABLE true) then (s, RRv CKR_ACTION_PROHIBITED)
                else if negb (tmpl_wellformed tm) || negb (obj_ulong ob CKA_CLASS CKO_VENDOR_DEFINED =? CKO_DATA) then (s, RUnmodelled)
                else
                  let isOnToken := negb (tmpl_bool CKA_TOKEN tm (b2n wasTok) =? 0) in
                  let isPrivate := negb (tmpl_bool CKA_PRIVATE tm (b2n wasPriv) =? 0) in
                  if wasPriv && negb isPrivate then (s, RRv CKR_TEMPLATE_INCONSISTENT)
                  else
                    let rv2 := have_write (sess_state s x) isOnToken isPrivate in
                    if negb (rv2 =? CKR_OK) then (s, RRv rv2)
                    else
                      let k := s_tok x in
                      let tc := tctx_of s k in
                      (* copy every attribute; upgrade to private encrypts non-empty byte strings *)
                      let upgrade := negb wasPriv && isPrivate in
                      if upgrade && negb (tc_logged tc) then (s, RRv CKR_FUNCTION_FAILED) else
                      let copied := map (fun kv => match snd kv with
                                                   | ABytes None (b0 :: br) => if upgrade then (fst kv, ABytes (Some (tc_key tc)) (b0 :: br)) else kv
                                                   | _ => kv
                                                   end) ob in
                      let (rv3, o1) := save_template tc true isPrivate tm OBJECT_OP_COPY copied in
                      if negb (rv3 =? CKR_OK) then (s, RRv rv3)
                      else
                        let oid := st_next_oid s in
                        let s1 := set_next_oid s (oid + 1) in
                        let s2 := if isOnToken
                                  then upd_token s1 k (fun t => set_t_objs t (t_objs t ++ [(oid, o1)]))
                                  else set_sobjs s1 (st_sobjs s1 ++ [(oid, mkSObj k h isPrivate o1)]) in
                        let (s3, hh) := add_obj_handle s2 k (if isOnToken then CK_INVALID_HANDLE else h) isPrivate oid in
                        (s3, RHandle hh)
            end
        end
    | OFindInit h tm prio =>
        match get_session s h with
        | None => (s, RRv CKR_SESSION_HANDLE_INVALID)
        | Some x =>
            if negb (s_op x =? SESSION_OP_NONE) then (s, RRv CKR_OPERATION_ACTIVE)
            else if negb (forallb (fun e => match te_val e with Some b => blen b =? te_len e | None => te_len e =? 0 end) tm) then (s, RUnmodelled)
            else
              let st := sess_state s x in
              let public := negb ((st =? CKS_RO_USER_FUNCTIONS) || (st =? CKS_RW_USER_FUNCTIONS)) in
              let k := s_tok x in
              match find_loop (tctx_of s k) public k h tm (order_cands prio (candidates s k)) s [] with
              | None => (s, RUnmodelled)   (* undecryptable attribute: operation type stays set in the code; outside the fragment *)
              | Some (s1, hs) => (upd_session s1 h (fun x => set_s_op x SESSION_OP_FIND hs), RRv CKR_OK)
              end
        end
    | OFind h mx =>
        match get_session s h with
        | None => (s, RRv CKR_SESSION_HANDLE_INVALID)
        | Some x =>
            if negb (s_op x =? SESSION_OP_FIND) then (s, RRv CKR_OPERATION_NOT_INITIALIZED)
            else let n := N.to_nat (N.min mx (N.of_nat (length (s_find x)))) in
                 (upd_session s h (fun x => set_s_op x SESSION_OP_FIND (drop n (s_find x))), RFound (take n (s_find x)))
        end
    | OFindFinal h =>
        match get_session s h with
        | None => (s, RRv CKR_SESSION_HANDLE_INVALID)
        | Some x =>
            if negb (s_op x =? SESSION_OP_FIND) then (s, RRv CKR_OPERATION_NOT_INITIALIZED)
            else (upd_session s h (fun x => set_s_op x SESSION_OP_NONE []), RRv CKR_OK)
        end
    | OUseInit kind h key =>
        match get_session s h with
        | None => (s, RRv CKR_SESSION_HANDLE_INVALID)
        | Some x =>
            if negb (s_op x =? SESSION_OP_NONE) then (s, RRv CKR_OPERATION_ACTIVE)
            else match get_object s key with
                 | None => (s, RRv CKR_OBJECT_HANDLE_INVALID)
                 | Some (e, loc, ob) =>
                     let rv := have_read (sess_state s x) (o_token ob) (o_private ob) in
                     if negb (rv =? CKR_OK) then (s, RRv rv)
                     else if negb (obj_bool ob (usage_attr kind) false) then (s, RRv CKR_KEY_FUNCTION_NOT_PERMITTED)
                     else (s, RUnmodelled)
                 end
        end
    | _ => (s, RUnmodelled)
    end
  end.

Fixpoint run (s : state) (ops : list op) : list res :=
  match ops with
  | [] => []
  | o :: r => let (s1, x) := step s o in x :: run s1 r
  end.

Definition exec (s : state) (ops : list op) : state := fold_left (fun st o => fst (step st o)) ops s.
