(* P11/PinFacts.v — only the current PIN authenticates; PIN changes are exact and lossless (C04).
   PINs are ghost byte strings of the token (symbolic cryptography, DESIGN.md §3): the SO blob is
   "wrap (pbkdf sopin) (master key)", and [pin_ok stored given] is its successful unwrapping. *)
From Coq Require Import List NArith Bool Lia.
From SoftHSM Require Import Gen_Const Gen_Pure Defs Core AssocFacts AccessFacts StepFacts Invariants SessionSpec.
Import ListNotations.
Local Open Scope N_scope.

Lemma bytes_eqb_eq a : forall b, bytes_eqb a b = true <-> a = b.
Proof.
  induction a as [|x r IH]; intros [|y t]; cbn; try (split; [discriminate|discriminate]); try tauto.
  rewrite andb_true_iff, N.eqb_eq, IH. split; [intros [-> ->]; reflexivity|intros H; inversion H; auto].
Qed.

(* [pin_ok]: exactly the stored PIN, and never the empty string *)
Lemma pin_ok_iff stored given : pin_ok stored given = true <-> given = stored /\ given <> [].
Proof.
  unfold pin_ok. rewrite andb_true_iff, negb_true_iff, bytes_eqb_eq. split.
  - intros [H1 ->]. split; [reflexivity|]. intro E. subst. discriminate.
  - intros [-> H]. split; [|reflexivity]. destruct stored; [congruence|]. unfold blen. cbn [length].
    apply N.eqb_neq. lia.
Qed.

Definition tok_pins (s : state) (k : N) : option (bytes * option bytes * N) :=
  match alookup k (st_tokens s) with Some t => Some (t_sopin t, t_userpin t, t_key t) | None => None end.
Definition tok_objs (s : state) (k : N) : option (list (N * obj)) :=
  match alookup k (st_tokens s) with Some t => Some (t_objs t) | None => None end.

Lemma tok_pins_upd s k f k' :
  tok_pins (upd_token s k f) k' =
  if k =? k' then match alookup k (st_tokens s) with Some t => Some (t_sopin (f t), t_userpin (f t), t_key (f t)) | None => None end
  else tok_pins s k'.
Proof.
  unfold tok_pins. rewrite upd_token_lookup. destruct (k =? k'); [|reflexivity].
  destruct (alookup k (st_tokens s)); reflexivity.
Qed.

(* C_InitPIN: only in an SO session, length inside the advertised range; sets exactly the user PIN *)
Theorem initpin_spec (s : state) (h : N) (x : session) (p : bytes) (t : token) :
  st_init s = true -> get_session s h = Some x -> alookup (s_tok x) (st_tokens s) = Some t ->
  (snd (step s (OInitPin h (Some p))) = RRv CKR_OK <-> (tok_login s (s_tok x) = LSO /\ pin_len_ok (blen p) = true)) /\
  (snd (step s (OInitPin h (Some p))) = RRv CKR_OK ->
   forall k, tok_pins (fst (step s (OInitPin h (Some p)))) k =
             if s_tok x =? k then Some (t_sopin t, Some p, t_key t) else tok_pins s k) /\
  (forall k, tok_objs (fst (step s (OInitPin h (Some p)))) k = tok_objs s k) /\
  (forall k, tok_login (fst (step s (OInitPin h (Some p)))) k = tok_login s k).
Proof.
  intros Hi Hs Ht. unfold step. rewrite Hi. cbn [negb]. cbv iota. rewrite Hs.
  destruct (negb (sess_state s x =? CKS_RW_SO_FUNCTIONS)) eqn:Eso.
  - cbn [fst snd]. split; [|split; [discriminate|split; reflexivity]].
    split; [discriminate|]. intros [H _]. apply sess_state_so in H. apply negb_true_iff, N.eqb_neq in Eso. congruence.
  - apply negb_false_iff, N.eqb_eq, sess_state_so in Eso.
    destruct (negb (pin_len_ok (blen p))) eqn:El; cbn [fst snd].
    + split; [|split; [discriminate|split; reflexivity]]. split; [discriminate|]. intros [_ H]. rewrite H in El. discriminate.
    + apply negb_false_iff in El. split; [split; auto|]. split; [|split].
      * intros _ k. rewrite tok_pins_upd, Ht. reflexivity.
      * intros k. unfold tok_objs. rewrite upd_token_lookup. destruct (s_tok x =? k) eqn:E; [|reflexivity].
        apply N.eqb_eq in E. subst k. rewrite Ht. reflexivity.
      * intros k. apply tok_login_frame. reflexivity.
Qed.

(* C_SetPIN: R/W session, correct old PIN, new PIN inside the range; the user's PIN from public / user
   sessions, the SO's from an SO session; exactly that PIN changes *)
Lemma state_cases (s : state) (x : session) :
  (tok_login s (s_tok x) = LSO /\ sess_state s x = CKS_RW_SO_FUNCTIONS) \/
  (tok_login s (s_tok x) <> LSO /\ s_rw x = true /\ (sess_state s x = CKS_RW_PUBLIC_SESSION \/ sess_state s x = CKS_RW_USER_FUNCTIONS)) \/
  (tok_login s (s_tok x) <> LSO /\ s_rw x = false /\ (sess_state s x = CKS_RO_PUBLIC_SESSION \/ sess_state s x = CKS_RO_USER_FUNCTIONS)).
Proof.
  unfold sess_state. destruct (tok_login s (s_tok x)), (s_rw x); vm_compute; intuition congruence.
Qed.

Theorem setpin_ok_iff (s : state) (h : N) (x : session) (po pn : bytes) (t : token) :
  st_init s = true -> get_session s h = Some x -> alookup (s_tok x) (st_tokens s) = Some t ->
  (snd (step s (OSetPin h (Some po) (Some pn))) = RRv CKR_OK <->
     pin_len_ok (blen pn) = true /\
     ((tok_login s (s_tok x) = LSO /\ pin_ok (t_sopin t) po = true) \/
      (tok_login s (s_tok x) <> LSO /\ s_rw x = true /\ exists up, t_userpin t = Some up /\ pin_ok up po = true))).
Proof.
  intros Hi Hs Ht. unfold step. rewrite Hi. cbn [negb]. cbv iota. rewrite Hs.
  destruct (pin_len_ok (blen pn)) eqn:El; cbn [negb].
  2:{ cbn. split; [discriminate|]. intros [H _]. discriminate. }
  rewrite Ht.
  destruct (state_cases s x) as [[L E]|[[L [R [E|E]]]|[L [R [E|E]]]]]; rewrite E;
    cbv [CKS_RW_PUBLIC_SESSION CKS_RW_USER_FUNCTIONS CKS_RW_SO_FUNCTIONS CKS_RO_PUBLIC_SESSION CKS_RO_USER_FUNCTIONS]; cbn [N.eqb Pos.eqb orb].
  - destruct (pin_ok (t_sopin t) po) eqn:Ep; cbn [snd].
    + split; [intros _; split; [reflexivity|left; auto]|reflexivity].
    + split; [discriminate|]. intros [_ [[_ H]|[H _]]]; congruence.
  - destruct (t_userpin t) as [up|] eqn:Eup; [destruct (pin_ok up po) eqn:Ep|]; cbn [snd].
    + split; [intros _; split; [reflexivity|right; repeat split; eauto]|reflexivity].
    + split; [discriminate|]. intros [_ [[H _]|[_ [_ [up' [H1 H2]]]]]]; congruence.
    + split; [discriminate|]. intros [_ [[H _]|[_ [_ [up' [H1 H2]]]]]]; congruence.
  - destruct (t_userpin t) as [up|] eqn:Eup; [destruct (pin_ok up po) eqn:Ep|]; cbn [snd].
    + split; [intros _; split; [reflexivity|right; repeat split; eauto]|reflexivity].
    + split; [discriminate|]. intros [_ [[H _]|[_ [_ [up' [H1 H2]]]]]]; congruence.
    + split; [discriminate|]. intros [_ [[H _]|[_ [_ [up' [H1 H2]]]]]]; congruence.
  - cbn [snd]. split; [discriminate|]. intros [_ [[H _]|[_ [H _]]]]; congruence.
  - cbn [snd]. split; [discriminate|]. intros [_ [[H _]|[_ [H _]]]]; congruence.
Qed.

Theorem setpin_effect (s : state) (h : N) (x : session) (po pn : option bytes) (t : token) :
  st_init s = true -> get_session s h = Some x -> alookup (s_tok x) (st_tokens s) = Some t ->
  let r := step s (OSetPin h po pn) in
  (snd r = RRv CKR_OK ->
     exists pnew, pn = Some pnew /\
     forall k, tok_pins (fst r) k =
               if s_tok x =? k then (if is_so (tok_login s (s_tok x)) then Some (pnew, t_userpin t, t_key t) else Some (t_sopin t, Some pnew, t_key t))
               else tok_pins s k) /\
  (forall k, tok_objs (fst r) k = tok_objs s k) /\ (forall k, tok_login (fst r) k = tok_login s k).
Proof.
  intros Hi Hs Ht. cbv zeta. unfold step. rewrite Hi. cbn [negb]. cbv iota. rewrite Hs.
  destruct po as [po|], pn as [pn|]; try (cbn; split; [discriminate|split; reflexivity]).
  destruct (negb (pin_len_ok (blen pn))); [cbn; split; [discriminate|split; reflexivity]|].
  rewrite Ht.
  assert (Hobjs : forall f, (forall t0, t_objs (f t0) = t_objs t0) -> forall k, tok_objs (upd_token s (s_tok x) f) k = tok_objs s k).
  { intros f Hf k. unfold tok_objs. rewrite upd_token_lookup. destruct (s_tok x =? k) eqn:E; [|reflexivity].
    apply N.eqb_eq in E. subst k. rewrite Ht. cbn. rewrite Hf. reflexivity. }
  destruct (state_cases s x) as [[L E]|[[L [R [E|E]]]|[L [R [E|E]]]]]; rewrite E;
    cbv [CKS_RW_PUBLIC_SESSION CKS_RW_USER_FUNCTIONS CKS_RW_SO_FUNCTIONS CKS_RO_PUBLIC_SESSION CKS_RO_USER_FUNCTIONS]; cbn [N.eqb Pos.eqb orb].
  - rewrite L. cbn [is_so]. destruct (pin_ok (t_sopin t) po); cbn [fst snd]; [|split; [discriminate|split; reflexivity]].
    split; [|split; [apply Hobjs; reflexivity|intros k; apply tok_login_frame; reflexivity]].
    intros _. exists pn. split; [reflexivity|]. intros k. rewrite tok_pins_upd, Ht. reflexivity.
  - assert (Hso : is_so (tok_login s (s_tok x)) = false) by (destruct (tok_login s (s_tok x)); [reflexivity|congruence|reflexivity]).
    rewrite Hso. destruct (t_userpin t) as [up|]; [destruct (pin_ok up po)|]; cbn [fst snd]; try (split; [discriminate|split; reflexivity]).
    split; [|split; [apply Hobjs; reflexivity|intros k; apply tok_login_frame; reflexivity]].
    intros _. exists pn. split; [reflexivity|]. intros k. rewrite tok_pins_upd, Ht. reflexivity.
  - assert (Hso : is_so (tok_login s (s_tok x)) = false) by (destruct (tok_login s (s_tok x)); [reflexivity|congruence|reflexivity]).
    rewrite Hso. destruct (t_userpin t) as [up|]; [destruct (pin_ok up po)|]; cbn [fst snd]; try (split; [discriminate|split; reflexivity]).
    split; [|split; [apply Hobjs; reflexivity|intros k; apply tok_login_frame; reflexivity]].
    intros _. exists pn. split; [reflexivity|]. intros k. rewrite tok_pins_upd, Ht. reflexivity.
  - cbn. split; [discriminate|split; reflexivity].
  - cbn. split; [discriminate|split; reflexivity].
Qed.

(* PINs, master key and objects survive a restart (C_Finalize / C_Initialize or a new process);
   everybody is logged out *)
Theorem restart_keeps_pins (s : state) (b : bool) (k : N) :
  tok_pins (restart s b) k = tok_pins s k /\ tok_objs (restart s b) k = tok_objs s k /\ tok_login (restart s b) k = LNone.
Proof.
  unfold tok_pins, tok_objs, tok_login, restart. cbn.
  induction (st_tokens s) as [|[a t] r IH]; cbn; [auto|].
  destruct (a =? k); [auto|exact IH].
Qed.

(* no other call touches a PIN or the master key: the PINs of token k after a step differ from those
   before only for a successful C_InitPIN / C_SetPIN through a session of k, or C_InitToken of k *)
Lemma tok_pins_tokens s s' k : st_tokens s' = st_tokens s -> tok_pins s' k = tok_pins s k.
Proof. unfold tok_pins. intros ->. reflexivity. Qed.

Lemma tok_pins_upd_frame f : (forall t0, t_sopin (f t0) = t_sopin t0 /\ t_userpin (f t0) = t_userpin t0 /\ t_key (f t0) = t_key t0) ->
  forall s0 k0 k, tok_pins (upd_token s0 k0 f) k = tok_pins s0 k.
Proof.
  intros Hf s0 k0 k. rewrite tok_pins_upd. destruct (k0 =? k) eqn:E; [|reflexivity]. apply N.eqb_eq in E. subst k0.
  unfold tok_pins. destruct (alookup k (st_tokens s0)) as [t0|]; [|reflexivity]. destruct (Hf t0) as (-> & -> & ->). reflexivity.
Qed.

Lemma tok_pins_put s l o k : tok_pins (put_object s l o) k = tok_pins s k.
Proof. destruct l; cbn; [apply tok_pins_upd_frame; auto|]. destruct (alookup oid (st_sobjs s)); reflexivity. Qed.
Lemma tok_pins_del s l k : tok_pins (del_object s l) k = tok_pins s k.
Proof. destruct l; cbn; [apply tok_pins_upd_frame; auto|reflexivity]. Qed.
Lemma tok_pins_close_all s k0 k : tok_pins (close_all s k0) k = tok_pins s k.
Proof. unfold close_all. rewrite tok_pins_upd_frame by auto. reflexivity. Qed.
Lemma tok_pins_upd_session s h f k : tok_pins (upd_session s h f) k = tok_pins s k.
Proof. apply tok_pins_tokens. apply upd_session_tokens. Qed.

Definition pin_event (s : state) (o : op) (k : N) : Prop :=
  match o with
  | OInitPin h _ | OSetPin h _ _ => exists x, get_session s h = Some x /\ s_tok x = k /\ snd (step s o) = RRv CKR_OK
  | OInitToken _ _ lab => snd (step s o) = RRv CKR_OK /\ lab = k
  | _ => False
  end.

Theorem pins_change_only_by (s : state) (o : op) (k : N) :
  tok_pins (fst (step s o)) k = tok_pins s k \/ pin_event s o k.
Proof.
  destruct (N.eq_dec 0 0) as [_|]; [|congruence].
  destruct o; unfold pin_event, step; cbn [fst snd];
  repeat (first [break_match | break_let]; cbn [fst snd]); try (left; reflexivity).
  all: try match goal with H : add_handle _ _ = (_, _) |- _ => unfold add_handle in H; inversion H; subst; clear H end.
  all: try match goal with H : add_obj_handle ?a ?b ?c ?d ?e = (?s1, _) |- _ =>
         assert (E1 : s1 = fst (add_obj_handle a b c d e)) by (rewrite H; reflexivity); clear H; subst s1 end.
  all: try (left; apply restart_keeps_pins).
  all: try (left; apply tok_pins_close_all).
  all: try (left; rewrite ?tok_pins_upd_session; reflexivity).
  all: try (left; apply tok_pins_upd_frame; auto; fail).
  all: try (left; unfold purge_handles; simp_state; erewrite tok_pins_tokens by reflexivity; apply tok_pins_upd_frame; auto; fail).
  all: try (left; erewrite tok_pins_tokens by apply add_obj_handle_tokens;
            repeat match goal with |- context [if ?c then _ else _] => destruct c end; simp_state;
            first [apply tok_pins_upd_frame; auto | reflexivity]; fail).
  all: try (left; apply tok_pins_del).
  all: try (left; apply tok_pins_put).
  all: try (match goal with H : find_loop _ _ _ _ _ _ _ _ = Some _ |- _ => apply find_loop_frame in H; destruct H as (F1 & F2 & F3 & F4) end;
            left; rewrite tok_pins_upd_session; apply tok_pins_tokens; exact F2).
  all: try (right; eexists; split; [reflexivity|split; [reflexivity|reflexivity]]; fail).
  all: idtac.
  - (* re-init of token n with label = n *)
    match goal with H : negb (?n =? label) = false |- _ => apply negb_false_iff, N.eqb_eq in H; subst label end.
    destruct (n =? k) eqn:E.
    + apply N.eqb_eq in E. subst n. right. split; reflexivity.
    + left. unfold tok_pins. simp_state. rewrite alookup_aset, E. reflexivity.
  - (* fresh token *)
    destruct (label =? k) eqn:E.
    + apply N.eqb_eq in E. right. auto.
    + left. unfold tok_pins. simp_state. rewrite alookup_app. destruct (alookup k (st_tokens s)); [reflexivity|]. cbn. rewrite E. reflexivity.
  - (* initpin *) destruct (s_tok s0 =? k) eqn:E.
    + apply N.eqb_eq in E. right. exists s0. auto.
    + left. rewrite tok_pins_upd, E. reflexivity.
  - destruct (s_tok s0 =? k) eqn:E.
    + apply N.eqb_eq in E. right. exists s0. auto.
    + left. rewrite tok_pins_upd, E. reflexivity.
  - destruct (s_tok s0 =? k) eqn:E.
    + apply N.eqb_eq in E. right. exists s0. auto.
    + left. rewrite tok_pins_upd, E. reflexivity.
  - (* create *) left. erewrite tok_pins_tokens by apply add_obj_handle_tokens.
    destruct (negb (tmpl_bool CKA_TOKEN tm 0 =? 0)); simp_state; [rewrite tok_pins_upd_frame by auto|]; reflexivity.
  - (* copy *) left. erewrite tok_pins_tokens by apply add_obj_handle_tokens.
    match goal with |- context [if ?c then upd_token _ _ _ else _] => destruct c end; simp_state; [rewrite tok_pins_upd_frame by auto|]; reflexivity.
  - (* destroy *) left. rewrite tok_pins_del. reflexivity.
Qed.

(* private attribute values stay decryptable across PIN changes: the master key identity is part of
   [tok_pins] and C_InitPIN / C_SetPIN keep it (initpin_spec, setpin_effect); Token::decrypt only needs
   somebody logged in and the same key *)
Lemma decrypt_needs_only_key (tc tc' : tctx) enc b :
  tc_logged tc = tc_logged tc' -> tc_key tc = tc_key tc' -> tok_decrypt tc enc b = tok_decrypt tc' enc b.
Proof. unfold tok_decrypt. intros -> ->. reflexivity. Qed.
