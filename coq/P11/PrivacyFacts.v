(* P11/PrivacyFacts.v — private objects are unreachable unless the normal user is logged in (C01),
   token objects need an R/W session.  All statements hold in EVERY state of the model, so they cover
   handles obtained while logged in and used afterwards, cross-token use, and any history. *)
From Coq Require Import List NArith Bool Lia.
From SoftHSM Require Import Gen_Const Gen_Pure Defs Core AssocFacts AccessFacts StepFacts Invariants.
Import ListNotations.
Local Open Scope N_scope.

Definition not_user (s : state) (x : session) : Prop := tok_login s (s_tok x) <> LUser.

Lemma not_user_read s x tok : not_user s x -> have_read (sess_state s x) tok true <> CKR_OK.
Proof.
  intros Hn H. apply haveRead_private_needs_user in H. apply sess_state_user in H. exact (Hn H).
Qed.
Lemma not_user_write s x tok : not_user s x -> have_write (sess_state s x) tok true <> CKR_OK.
Proof.
  intros Hn H. apply haveWrite_private_needs_user in H. apply sess_state_user in H. exact (Hn H).
Qed.

Definition no_data (l : list (N * option N * option bytes)) : Prop :=
  forall e, In e l -> snd (fst e) = None /\ snd e = None.

(* every entry point that takes an object handle: on a private object through a session whose token
   has no normal user logged in it fails, changes nothing, and C_GetAttributeValue writes nothing *)
Theorem private_object_unreachable (s : state) (o : op) (h oh : N) (x : session) e loc ob :
  st_init s = true -> get_session s h = Some x -> get_object s oh = Some (e, loc, ob) ->
  o_private ob = true -> not_user s x ->
  match o with
  | OGetAttr h' oh' q => h' = h -> oh' = oh ->
      exists l, step s o = (s, RAttrs CKR_GENERAL_ERROR l) /\ no_data l
  | OSetAttr h' oh' _ | OCopy h' oh' _ | ODestroy h' oh' => h' = h -> oh' = oh ->
      exists rv, step s o = (s, RRv rv) /\ rv <> CKR_OK
  | OUseInit _ h' oh' => h' = h -> oh' = oh ->
      exists rv, step s o = (s, RRv rv) /\ rv <> CKR_OK
  | _ => True
  end.
Proof.
  intros Hi Hs Ho Hp Hn.
  destruct o; try exact I; intros -> ->; unfold step; rewrite Hi; cbn [negb]; cbv iota; rewrite Hs.
  - (* copy *) rewrite Ho, Hp.
    destruct (negb (have_read (sess_state s x) (o_token ob) true =? CKR_OK)) eqn:E.
    + eexists. split; [reflexivity|]. apply negb_true_iff, N.eqb_neq in E. exact E.
    + exfalso. apply negb_false_iff, N.eqb_eq in E. eapply not_user_read; eauto.
  - (* destroy *) rewrite Ho, Hp.
    destruct (negb (have_write (sess_state s x) (o_token ob) true =? CKR_OK)) eqn:E.
    + eexists. split; [reflexivity|]. apply negb_true_iff, N.eqb_neq in E. exact E.
    + exfalso. apply negb_false_iff, N.eqb_eq in E. eapply not_user_write; eauto.
  - (* getattr *) rewrite Ho, Hp.
    destruct (negb (have_read (sess_state s x) (o_token ob) true =? CKR_OK)) eqn:E.
    + eexists. split; [reflexivity|]. intros en Hin. apply in_map_iff in Hin. destruct Hin as [p [<- _]]. cbn. auto.
    + exfalso. apply negb_false_iff, N.eqb_eq in E. eapply not_user_read; eauto.
  - (* setattr *) rewrite Ho, Hp.
    destruct (negb (have_write (sess_state s x) (o_token ob) true =? CKR_OK)) eqn:E.
    + eexists. split; [reflexivity|]. apply negb_true_iff, N.eqb_neq in E. exact E.
    + exfalso. apply negb_false_iff, N.eqb_eq in E. eapply not_user_write; eauto.
  - (* keyed operation init *)
    destruct (negb (s_op x =? SESSION_OP_NONE)).
    + eexists. split; [reflexivity|]. vm_compute. discriminate.
    + rewrite Ho, Hp.
      destruct (negb (have_read (sess_state s x) (o_token ob) true =? CKR_OK)) eqn:E.
      * eexists. split; [reflexivity|]. apply negb_true_iff, N.eqb_neq in E. exact E.
      * exfalso. apply negb_false_iff, N.eqb_eq in E. eapply not_user_read; eauto.
Qed.

(* private objects cannot be created (C_CreateObject) or produced by copying outside a user session *)
Theorem private_create_refused (s : state) (h : N) (x : session) (tm : template) :
  st_init s = true -> get_session s h = Some x -> not_user s x ->
  tmpl_bool CKA_PRIVATE tm 1 <> 0 ->
  fst (step s (OCreate h tm)) = s /\ (forall hh, snd (step s (OCreate h tm)) <> RHandle hh).
Proof.
  intros Hi Hs Hn Hp. unfold step. rewrite Hi. cbn [negb]. cbv iota. rewrite Hs.
  destruct (negb (tmpl_wellformed tm)); [cbn; split; [reflexivity|discriminate]|].
  destruct (tmpl_ulong CKA_CLASS tm); [|cbn; split; [reflexivity|discriminate]].
  destruct (negb (n =? CKO_DATA)); [cbn; split; [reflexivity|discriminate]|].
  apply N.eqb_neq in Hp. rewrite Hp. cbn [negb].
  destruct (negb (have_write (sess_state s x) (negb (tmpl_bool CKA_TOKEN tm 0 =? 0)) true =? CKR_OK)) eqn:E.
  - cbn. split; [reflexivity|discriminate].
  - exfalso. apply negb_false_iff, N.eqb_eq in E. eapply not_user_write; eauto.
Qed.

Theorem private_copy_refused (s : state) (h oh : N) (x : session) (tm : template) :
  st_init s = true -> get_session s h = Some x -> not_user s x ->
  fst (step s (OCopy h oh tm)) = s \/
  (exists e loc ob, get_object s oh = Some (e, loc, ob) /\ o_private ob = false /\ tmpl_bool CKA_PRIVATE tm 0 = 0).
Proof.
  intros Hi Hs Hn. unfold step. rewrite Hi. cbn [negb]. cbv iota. rewrite Hs.
  destruct (get_object s oh) as [[[e loc] ob]|] eqn:Ho; [|left; reflexivity].
  destruct (negb (have_read (sess_state s x) (o_token ob) (o_private ob) =? CKR_OK)); [left; reflexivity|].
  destruct (negb (obj_bool ob CKA_COPYABLE true)); [left; reflexivity|].
  destruct (negb (tmpl_wellformed tm) || negb (obj_ulong ob CKA_CLASS CKO_VENDOR_DEFINED =? CKO_DATA)); [left; reflexivity|].
  destruct (o_private ob) eqn:Hp.
  - (* source private: reading it already needs the user; handled above by have_read, but the model keeps
       the branch: privacy cannot be downgraded and the write check needs the user *)
    cbn [b2n].
    destruct (negb (tmpl_bool CKA_PRIVATE tm 1 =? 0)) eqn:Ep; cbn [negb andb]; [|left; reflexivity].
    destruct (negb (have_write (sess_state s x) (negb (tmpl_bool CKA_TOKEN tm (b2n (o_token ob)) =? 0)) true =? CKR_OK)) eqn:E; [left; reflexivity|].
    exfalso. apply negb_false_iff, N.eqb_eq in E. eapply not_user_write; eauto.
  - cbn [b2n andb].
    destruct (negb (tmpl_bool CKA_PRIVATE tm 0 =? 0)) eqn:Ep.
    + destruct (negb (have_write (sess_state s x) (negb (tmpl_bool CKA_TOKEN tm (b2n (o_token ob)) =? 0)) true =? CKR_OK)) eqn:E; [left; reflexivity|].
      exfalso. apply negb_false_iff, N.eqb_eq in E. eapply not_user_write; eauto.
    + right. exists e, loc, ob. repeat split; auto. apply negb_false_iff, N.eqb_eq in Ep. exact Ep.
Qed.

(* token objects can be created, changed or destroyed only through read-write sessions *)
Definition ro_session (s : state) (x : session) : Prop := s_rw x = false /\ tok_login s (s_tok x) <> LSO.

Lemma ro_session_write s x priv : ro_session s x -> have_write (sess_state s x) true priv <> CKR_OK.
Proof.
  intros [Hr Hn] H. apply haveWrite_token_needs_rw in H. apply sess_state_rw in H. destruct H; congruence.
Qed.

Theorem token_object_needs_rw (s : state) (o : op) (h oh : N) (x : session) e loc ob :
  st_init s = true -> get_session s h = Some x -> get_object s oh = Some (e, loc, ob) ->
  o_token ob = true -> ro_session s x ->
  match o with
  | OSetAttr h' oh' _ | ODestroy h' oh' => h' = h -> oh' = oh -> exists rv, step s o = (s, RRv rv) /\ rv <> CKR_OK
  | _ => True
  end.
Proof.
  intros Hi Hs Ho Ht Hr.
  destruct o; try exact I; intros -> ->; unfold step; rewrite Hi; cbn [negb]; cbv iota; rewrite Hs, Ho, Ht.
  - destruct (negb (have_write (sess_state s x) true (o_private ob) =? CKR_OK)) eqn:E.
    + eexists. split; [reflexivity|]. apply negb_true_iff, N.eqb_neq in E. exact E.
    + exfalso. apply negb_false_iff, N.eqb_eq in E. eapply ro_session_write; eauto.
  - destruct (negb (have_write (sess_state s x) true (o_private ob) =? CKR_OK)) eqn:E.
    + eexists. split; [reflexivity|]. apply negb_true_iff, N.eqb_neq in E. exact E.
    + exfalso. apply negb_false_iff, N.eqb_eq in E. eapply ro_session_write; eauto.
Qed.

Theorem token_create_needs_rw (s : state) (h : N) (x : session) (tm : template) :
  st_init s = true -> get_session s h = Some x -> ro_session s x ->
  tmpl_bool CKA_TOKEN tm 0 <> 0 ->
  fst (step s (OCreate h tm)) = s /\ (forall hh, snd (step s (OCreate h tm)) <> RHandle hh).
Proof.
  intros Hi Hs Hr Hp. unfold step. rewrite Hi. cbn [negb]. cbv iota. rewrite Hs.
  destruct (negb (tmpl_wellformed tm)); [cbn; split; [reflexivity|discriminate]|].
  destruct (tmpl_ulong CKA_CLASS tm); [|cbn; split; [reflexivity|discriminate]].
  destruct (negb (n =? CKO_DATA)); [cbn; split; [reflexivity|discriminate]|].
  apply N.eqb_neq in Hp. rewrite Hp. cbn [negb].
  destruct (negb (have_write (sess_state s x) true (negb (tmpl_bool CKA_PRIVATE tm 1 =? 0)) =? CKR_OK)) eqn:E.
  - cbn. split; [reflexivity|discriminate].
  - exfalso. apply negb_false_iff, N.eqb_eq in E. eapply ro_session_write; eauto.
Qed.

(* non-vacuity: a state with a live handle to a private token object and a public session *)
Definition demo_private_ops : list op :=
  [OInit; OInitToken TFree (Some [49;50;51;52]) 0; OOpen (TTok 0) 6; OLogin 1 CKU_SO (Some [49;50;51;52]);
   OInitPin 1 (Some [53;54;55;56]); OLogout 1; OLogin 1 CKU_USER (Some [53;54;55;56]);
   OCreate 1 [mkT CKA_CLASS (Some [0;0;0;0;0;0;0;0]) 8; mkT CKA_TOKEN (Some [1]) 1; mkT CKA_LABEL (Some [65]) 1];
   OOpen (TTok 0) 4].
Example demo_private_state :
  let s := exec init_state demo_private_ops in
  exists x e loc ob, get_session s 3 = Some x /\ get_object s 2 = Some (e, loc, ob) /\ o_private ob = true /\ st_init s = true.
Proof. vm_compute. repeat eexists. Qed.
