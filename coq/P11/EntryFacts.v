(* P11/EntryFacts.v — the guards of the entry points that start a keyed operation, create an object or take a mechanism,
   proved over their REGENERATED translation (gen/Gen_Entry.v, one record of named parameters per function).
   "The body is reached" is expressed with a sentinel: `zz_rest` (the part of the function the translator does not
   express: setting up the session's operation state) or, for functions translated to the end, the worker they finally
   call is instantiated with a value no guard can return.  (C07, C01, C02) *)
From Coq Require Import List NArith Bool Lia ZifyBool ZifyN.
From SoftHSM Require Import Gen_Const Gen_Entry.
Import ListNotations.
Local Open Scope N_scope.

Definition SENTINEL : N := 18446744073709551616.
Definition bounded (hr : N -> N -> N -> N) : Prop := forall a b c, hr a b c < SENTINEL.
Definition bounded1 (f : N -> N) : Prop := forall a, f a < SENTINEL.

Ltac open_head :=
  repeat match goal with
         | |- (if ?c then _ else _) = _ -> _ => destruct c eqn:?
         end; intros Hres; try (exfalso; cbv [SENTINEL] in Hres; discriminate Hres).

Ltac norm :=
  repeat match goal with
         | H : negb (negb _) = _ |- _ => rewrite negb_involutive in H
         | H : negb _ = false |- _ => apply negb_false_iff in H
         | H : negb _ = true |- _ => apply negb_true_iff in H
         | H : (_ || _) = false |- _ => apply orb_false_iff in H; destruct H
         | H : (_ && _) = true |- _ => apply andb_true_iff in H; destruct H
         | H : Bool.eqb _ false = false |- _ => apply eqb_false_iff in H
         | H : (_ =? _) = true |- _ => apply N.eqb_eq in H
         | H : (_ =? _) = false |- _ => apply N.eqb_neq in H
         end.

Ltac ok_part :=
  cbv [CKA_TOKEN CKA_PRIVATE CKA_ENCRYPT CKA_DECRYPT CKA_SIGN CKA_VERIFY CKA_WRAP CKA_UNWRAP CKA_DERIVE SESSION_OP_NONE CKR_OK];
  constructor; try split; try assumption; try reflexivity;
  try match goal with H : ?x <> false |- ?x = true => destruct x; [reflexivity|congruence] end.

Ltac case_eqbs := repeat match goal with |- context [(?a =? ?b)] => destruct (a =? b) eqn:? end.

Ltac fits tbl :=
  match goal with H : ?m = _ |- context [tbl ?m] => rewrite H end;
  cbv - [N.eqb orb negb andb]; cbn [N.eqb Pos.eqb];
  case_eqbs; cbn [negb andb orb] in *; try reflexivity; try discriminate; try congruence;
  try (exfalso; match goal with H : ?a = ?c, H2 : (?a =? ?c) = false |- _ => rewrite H in H2; cbn [N.eqb Pos.eqb] in H2; discriminate H2 end);
  try (exfalso; lia).

Record init_ok (initialised : N) (session optype token key : N) (keyvalid : bool) (access : N) (usage permitted : bool) : Prop := {
  io_init : initialised <> 0; io_sess : session <> 0; io_op : optype = SESSION_OP_NONE; io_tok : token <> 0;
  io_key : key <> 0 /\ keyvalid = true; io_access : access = CKR_OK; io_usage : usage = true; io_perm : permitted = true }.

Definition mac_fits (m kt : N) : bool :=
  if m =? CKM_MD5_HMAC then (kt =? CKK_GENERIC_SECRET) || (kt =? CKK_MD5_HMAC)
  else if m =? CKM_SHA_1_HMAC then (kt =? CKK_GENERIC_SECRET) || (kt =? CKK_SHA_1_HMAC)
  else if m =? CKM_SHA224_HMAC then (kt =? CKK_GENERIC_SECRET) || (kt =? CKK_SHA224_HMAC)
  else if m =? CKM_SHA256_HMAC then (kt =? CKK_GENERIC_SECRET) || (kt =? CKK_SHA256_HMAC)
  else if m =? CKM_SHA384_HMAC then (kt =? CKK_GENERIC_SECRET) || (kt =? CKK_SHA384_HMAC)
  else if m =? CKM_SHA512_HMAC then (kt =? CKK_GENERIC_SECRET) || (kt =? CKK_SHA512_HMAC)
  else if m =? CKM_DES3_CMAC then (kt =? CKK_DES2) || (kt =? CKK_DES3)
  else if m =? CKM_AES_CMAC then kt =? CKK_AES
  else false.


Ltac bound_contra :=
  match goal with
  | H : ?hr ?a ?b ?c = SENTINEL, Hb : bounded ?hr |- _ => pose proof (Hb a b c) as Hx; rewrite H in Hx; vm_compute in Hx; discriminate Hx
  | H : ?f ?a = SENTINEL, Hb : bounded1 ?f |- _ => pose proof (Hb a) as Hx; rewrite H in Hx; vm_compute in Hx; discriminate Hx
  end.

(* ---- which key type a mechanism works on (the tables the theorems below establish from the code) ------------------ *)
Definition sym_fits (m kt : N) : bool :=
  if (m =? CKM_DES_ECB) || (m =? CKM_DES_CBC) || (m =? CKM_DES_CBC_PAD) then kt =? CKK_DES
  else if (m =? CKM_DES3_ECB) || (m =? CKM_DES3_CBC) || (m =? CKM_DES3_CBC_PAD) then (kt =? CKK_DES2) || (kt =? CKK_DES3)
  else if (m =? CKM_AES_ECB) || (m =? CKM_AES_CBC) || (m =? CKM_AES_CBC_PAD) || (m =? CKM_AES_CTR) || (m =? CKM_AES_GCM) then kt =? CKK_AES
  else false.

Definition rsa_crypt_fits (m kt : N) : bool :=
  if (m =? CKM_RSA_PKCS) || (m =? CKM_RSA_X_509) || (m =? CKM_RSA_PKCS_OAEP) then kt =? CKK_RSA else false.

Definition is_rsa_sig (m : N) : bool :=
  existsb (N.eqb m) [CKM_RSA_PKCS; CKM_RSA_X_509; CKM_MD5_RSA_PKCS; CKM_SHA1_RSA_PKCS; CKM_SHA224_RSA_PKCS; CKM_SHA256_RSA_PKCS; CKM_SHA384_RSA_PKCS;
                     CKM_SHA512_RSA_PKCS; CKM_RSA_PKCS_PSS; CKM_SHA1_RSA_PKCS_PSS; CKM_SHA224_RSA_PKCS_PSS; CKM_SHA256_RSA_PKCS_PSS; CKM_SHA384_RSA_PKCS_PSS; CKM_SHA512_RSA_PKCS_PSS].
Definition is_dsa_sig (m : N) : bool := existsb (N.eqb m) [CKM_DSA; CKM_DSA_SHA1; CKM_DSA_SHA224; CKM_DSA_SHA256; CKM_DSA_SHA384; CKM_DSA_SHA512].
Definition sig_fits (want_class m cls kt : N) : bool :=
  (cls =? want_class) &&
  (if is_rsa_sig m then kt =? CKK_RSA else if is_dsa_sig m then kt =? CKK_DSA else if m =? CKM_ECDSA then kt =? CKK_EC
   else if m =? CKM_EDDSA then kt =? CKK_EC_EDWARDS else false).
Definition sign_fits := sig_fits CKO_PRIVATE_KEY.
Definition verify_fits := sig_fits CKO_PUBLIC_KEY.

Theorem MacSignInit_guards (e : MacSignInit.env) :
  bounded (MacSignInit.haveRead e) -> MacSignInit.zz_rest e = SENTINEL ->
  MacSignInit.app e = SENTINEL ->
  let key := MacSignInit.handleManager_getObject e (MacSignInit.hKey e) in
  let kgb := MacSignInit.key_getBooleanValue e in
  MacSignInit.pMechanism e <> 0 /\
  init_ok (MacSignInit.this_isInitialised e) (MacSignInit.handleManager_getSession e (MacSignInit.hSession e)) (MacSignInit.session_getOpType e)
          (MacSignInit.session_getToken e) key (MacSignInit.key_isValid e)
          (MacSignInit.haveRead e (MacSignInit.session_getState e) (if kgb CKA_TOKEN false then 1 else 0) (if kgb CKA_PRIVATE true then 1 else 0))
          (kgb CKA_SIGN false) (MacSignInit.isMechanismPermitted e key (MacSignInit.pMechanism e)) /\
  mac_fits (MacSignInit.pMechanism_mechanism e) (MacSignInit.key_getUnsignedLongValue e CKA_KEY_TYPE CKK_VENDOR_DEFINED) = true.
Proof.
  destruct e. cbn [MacSignInit.haveRead MacSignInit.zz_rest]. intros Hb Hz. subst.
  MacSignInit.open_env. open_head.
  all: try bound_contra.
  all: clear Hres; norm.
  all: (split; [assumption|]; split; [ok_part | fits mac_fits]).
Qed.

Theorem MacVerifyInit_guards (e : MacVerifyInit.env) :
  bounded (MacVerifyInit.haveRead e) -> MacVerifyInit.zz_rest e = SENTINEL ->
  MacVerifyInit.app e = SENTINEL ->
  let key := MacVerifyInit.handleManager_getObject e (MacVerifyInit.hKey e) in
  let kgb := MacVerifyInit.key_getBooleanValue e in
  MacVerifyInit.pMechanism e <> 0 /\
  init_ok (MacVerifyInit.this_isInitialised e) (MacVerifyInit.handleManager_getSession e (MacVerifyInit.hSession e)) (MacVerifyInit.session_getOpType e)
          (MacVerifyInit.session_getToken e) key (MacVerifyInit.key_isValid e)
          (MacVerifyInit.haveRead e (MacVerifyInit.session_getState e) (if kgb CKA_TOKEN false then 1 else 0) (if kgb CKA_PRIVATE true then 1 else 0))
          (kgb CKA_VERIFY false) (MacVerifyInit.isMechanismPermitted e key (MacVerifyInit.pMechanism e)) /\
  mac_fits (MacVerifyInit.pMechanism_mechanism e) (MacVerifyInit.key_getUnsignedLongValue e CKA_KEY_TYPE CKK_VENDOR_DEFINED) = true.
Proof.
  destruct e. cbn [MacVerifyInit.haveRead MacVerifyInit.zz_rest]. intros Hb Hz. subst.
  MacVerifyInit.open_env. open_head.
  all: try bound_contra.
  all: clear Hres; norm.
  all: (split; [assumption|]; split; [ok_part | fits mac_fits]).
Qed.

Theorem SymEncryptInit_guards (e : SymEncryptInit.env) :
  bounded (SymEncryptInit.haveRead e) -> SymEncryptInit.zz_rest e = SENTINEL ->
  SymEncryptInit.app e = SENTINEL ->
  let key := SymEncryptInit.handleManager_getObject e (SymEncryptInit.hKey e) in
  let kgb := SymEncryptInit.key_getBooleanValue e in
  SymEncryptInit.pMechanism e <> 0 /\
  init_ok (SymEncryptInit.this_isInitialised e) (SymEncryptInit.handleManager_getSession e (SymEncryptInit.hSession e)) (SymEncryptInit.session_getOpType e)
          (SymEncryptInit.session_getToken e) key (SymEncryptInit.key_isValid e)
          (SymEncryptInit.haveRead e (SymEncryptInit.session_getState e) (if kgb CKA_TOKEN false then 1 else 0) (if kgb CKA_PRIVATE true then 1 else 0))
          (kgb CKA_ENCRYPT false) (SymEncryptInit.isMechanismPermitted e key (SymEncryptInit.pMechanism e)) /\
  sym_fits (SymEncryptInit.pMechanism_mechanism e) (SymEncryptInit.key_getUnsignedLongValue e CKA_KEY_TYPE CKK_VENDOR_DEFINED) = true.
Proof.
  destruct e. cbn [SymEncryptInit.haveRead SymEncryptInit.zz_rest]. intros Hb Hz. subst.
  SymEncryptInit.open_env. open_head.
  all: try bound_contra.
  all: clear Hres; norm.
  all: (split; [assumption|]; split; [ok_part | fits sym_fits]).
Qed.

Theorem SymDecryptInit_guards (e : SymDecryptInit.env) :
  bounded (SymDecryptInit.haveRead e) -> SymDecryptInit.zz_rest e = SENTINEL ->
  SymDecryptInit.app e = SENTINEL ->
  let key := SymDecryptInit.handleManager_getObject e (SymDecryptInit.hKey e) in
  let kgb := SymDecryptInit.key_getBooleanValue e in
  SymDecryptInit.pMechanism e <> 0 /\
  init_ok (SymDecryptInit.this_isInitialised e) (SymDecryptInit.handleManager_getSession e (SymDecryptInit.hSession e)) (SymDecryptInit.session_getOpType e)
          (SymDecryptInit.session_getToken e) key (SymDecryptInit.key_isValid e)
          (SymDecryptInit.haveRead e (SymDecryptInit.session_getState e) (if kgb CKA_TOKEN false then 1 else 0) (if kgb CKA_PRIVATE true then 1 else 0))
          (kgb CKA_DECRYPT false) (SymDecryptInit.isMechanismPermitted e key (SymDecryptInit.pMechanism e)) /\
  sym_fits (SymDecryptInit.pMechanism_mechanism e) (SymDecryptInit.key_getUnsignedLongValue e CKA_KEY_TYPE CKK_VENDOR_DEFINED) = true.
Proof.
  destruct e. cbn [SymDecryptInit.haveRead SymDecryptInit.zz_rest]. intros Hb Hz. subst.
  SymDecryptInit.open_env. open_head.
  all: try bound_contra.
  all: clear Hres; norm.
  all: (split; [assumption|]; split; [ok_part | fits sym_fits]).
Qed.

Theorem AsymEncryptInit_guards (e : AsymEncryptInit.env) :
  bounded (AsymEncryptInit.haveRead e) -> AsymEncryptInit.zz_rest e = SENTINEL ->
  bounded1 (AsymEncryptInit.MechParamCheckRSAPKCSOAEP e) ->
  AsymEncryptInit.app e = SENTINEL ->
  let key := AsymEncryptInit.handleManager_getObject e (AsymEncryptInit.hKey e) in
  let kgb := AsymEncryptInit.key_getBooleanValue e in
  AsymEncryptInit.pMechanism e <> 0 /\
  init_ok (AsymEncryptInit.this_isInitialised e) (AsymEncryptInit.handleManager_getSession e (AsymEncryptInit.hSession e)) (AsymEncryptInit.session_getOpType e)
          (AsymEncryptInit.session_getToken e) key (AsymEncryptInit.key_isValid e)
          (AsymEncryptInit.haveRead e (AsymEncryptInit.session_getState e) (if kgb CKA_TOKEN false then 1 else 0) (if kgb CKA_PRIVATE true then 1 else 0))
          (kgb CKA_ENCRYPT false) (AsymEncryptInit.isMechanismPermitted e key (AsymEncryptInit.pMechanism e)) /\
  rsa_crypt_fits (AsymEncryptInit.pMechanism_mechanism e) (AsymEncryptInit.key_getUnsignedLongValue e CKA_KEY_TYPE CKK_VENDOR_DEFINED) = true.
Proof.
  destruct e. cbn [AsymEncryptInit.haveRead AsymEncryptInit.zz_rest AsymEncryptInit.MechParamCheckRSAPKCSOAEP]. intros Hb Hz Ho. subst.
  AsymEncryptInit.open_env. open_head.
  all: try bound_contra.
  all: clear Hres; norm.
  all: (split; [assumption|]; split; [ok_part | fits rsa_crypt_fits]).
Qed.

Theorem AsymDecryptInit_guards (e : AsymDecryptInit.env) :
  bounded (AsymDecryptInit.haveRead e) -> AsymDecryptInit.zz_rest e = SENTINEL ->
  AsymDecryptInit.app e = SENTINEL ->
  let key := AsymDecryptInit.handleManager_getObject e (AsymDecryptInit.hKey e) in
  let kgb := AsymDecryptInit.key_getBooleanValue e in
  AsymDecryptInit.pMechanism e <> 0 /\
  init_ok (AsymDecryptInit.this_isInitialised e) (AsymDecryptInit.handleManager_getSession e (AsymDecryptInit.hSession e)) (AsymDecryptInit.session_getOpType e)
          (AsymDecryptInit.session_getToken e) key (AsymDecryptInit.key_isValid e)
          (AsymDecryptInit.haveRead e (AsymDecryptInit.session_getState e) (if kgb CKA_TOKEN false then 1 else 0) (if kgb CKA_PRIVATE true then 1 else 0))
          (kgb CKA_DECRYPT false) (AsymDecryptInit.isMechanismPermitted e key (AsymDecryptInit.pMechanism e)) /\
  rsa_crypt_fits (AsymDecryptInit.pMechanism_mechanism e) (AsymDecryptInit.key_getUnsignedLongValue e CKA_KEY_TYPE CKK_VENDOR_DEFINED) = true.
Proof.
  destruct e. cbn [AsymDecryptInit.haveRead AsymDecryptInit.zz_rest]. intros Hb Hz. subst.
  AsymDecryptInit.open_env. open_head.
  all: try bound_contra.
  all: clear Hres; norm.
  all: (split; [assumption|]; split; [ok_part | fits rsa_crypt_fits]).
Qed.

Theorem AsymSignInit_guards (e : AsymSignInit.env) :
  bounded (AsymSignInit.haveRead e) -> AsymSignInit.zz_rest e = SENTINEL ->
  AsymSignInit.app e = SENTINEL ->
  let key := AsymSignInit.handleManager_getObject e (AsymSignInit.hKey e) in
  let kgb := AsymSignInit.key_getBooleanValue e in
  AsymSignInit.pMechanism e <> 0 /\
  init_ok (AsymSignInit.this_isInitialised e) (AsymSignInit.handleManager_getSession e (AsymSignInit.hSession e)) (AsymSignInit.session_getOpType e)
          (AsymSignInit.session_getToken e) key (AsymSignInit.key_isValid e)
          (AsymSignInit.haveRead e (AsymSignInit.session_getState e) (if kgb CKA_TOKEN false then 1 else 0) (if kgb CKA_PRIVATE true then 1 else 0))
          (kgb CKA_SIGN false) (AsymSignInit.isMechanismPermitted e key (AsymSignInit.pMechanism e)) /\
  sign_fits (AsymSignInit.pMechanism_mechanism e) (AsymSignInit.key_getUnsignedLongValue e CKA_CLASS CKO_VENDOR_DEFINED) (AsymSignInit.key_getUnsignedLongValue e CKA_KEY_TYPE CKK_VENDOR_DEFINED) = true.
Proof.
  destruct e. cbn [AsymSignInit.haveRead AsymSignInit.zz_rest]. intros Hb Hz. subst.
  AsymSignInit.open_env. open_head.
  all: try bound_contra.
  all: clear Hres; norm.
  all: (split; [assumption|]; split; [ok_part | fits sign_fits]).
Qed.

Theorem AsymVerifyInit_guards (e : AsymVerifyInit.env) :
  bounded (AsymVerifyInit.haveRead e) -> AsymVerifyInit.zz_rest e = SENTINEL ->
  AsymVerifyInit.app e = SENTINEL ->
  let key := AsymVerifyInit.handleManager_getObject e (AsymVerifyInit.hKey e) in
  let kgb := AsymVerifyInit.key_getBooleanValue e in
  AsymVerifyInit.pMechanism e <> 0 /\
  init_ok (AsymVerifyInit.this_isInitialised e) (AsymVerifyInit.handleManager_getSession e (AsymVerifyInit.hSession e)) (AsymVerifyInit.session_getOpType e)
          (AsymVerifyInit.session_getToken e) key (AsymVerifyInit.key_isValid e)
          (AsymVerifyInit.haveRead e (AsymVerifyInit.session_getState e) (if kgb CKA_TOKEN false then 1 else 0) (if kgb CKA_PRIVATE true then 1 else 0))
          (kgb CKA_VERIFY false) (AsymVerifyInit.isMechanismPermitted e key (AsymVerifyInit.pMechanism e)) /\
  verify_fits (AsymVerifyInit.pMechanism_mechanism e) (AsymVerifyInit.key_getUnsignedLongValue e CKA_CLASS CKO_VENDOR_DEFINED) (AsymVerifyInit.key_getUnsignedLongValue e CKA_KEY_TYPE CKK_VENDOR_DEFINED) = true.
Proof.
  destruct e. cbn [AsymVerifyInit.haveRead AsymVerifyInit.zz_rest]. intros Hb Hz. subst.
  AsymVerifyInit.open_env. open_head.
  all: try bound_contra.
  all: clear Hres; norm.
  all: (split; [assumption|]; split; [ok_part | fits verify_fits]).
Qed.

Ltac fin :=
  repeat match goal with
         | |- _ /\ _ => split
         | |- _ -> _ => intro
         | H : _ \/ _ |- _ => destruct H
         end;
  try match goal with H : ?m = _ |- _ => is_var m; rewrite H in * end;
  cbn [N.eqb Pos.eqb orb andb negb Bool.eqb] in *; norm; try assumption; try congruence;
  try match goal with
      | |- ?x = true =>
        destruct x eqn:?;
        [reflexivity
        | exfalso;
          repeat match goal with
                 | H : ?b = true, H' : context [?b] |- _ => lazymatch type of H' with b = true => fail | _ => rewrite H in H' end
                 end;
          cbn [N.eqb Pos.eqb orb andb negb Bool.eqb] in *; norm; congruence]
      end.


Ltac bound_more :=
  match goal with
  | H : ?x = SENTINEL, Hb : ?x < SENTINEL |- _ => rewrite H in Hb; vm_compute in Hb; discriminate Hb
  end.

(* ---- C_WrapKey: an unextractable key is never wrapped; a WRAP_WITH_TRUSTED key only under a trusted key; the wrapping key
   needs CKA_WRAP, a permitted mechanism and the class / type the mechanism asks for ------------------------------------ *)
Theorem WrapKey_guards (e : C_WrapKey.env) :
  bounded (C_WrapKey.haveRead e) -> bounded1 (C_WrapKey.MechParamCheckRSAPKCSOAEP e) -> C_WrapKey.zz_rest e = SENTINEL ->
  C_WrapKey.app e = SENTINEL ->
  let kgb := C_WrapKey.key_getBooleanValue e in let wgb := C_WrapKey.wrapKey_getBooleanValue e in
  let wgu := C_WrapKey.wrapKey_getUnsignedLongValue e in let mech := C_WrapKey.pMechanism_mechanism e in
  let hr := C_WrapKey.haveRead e in let sst := C_WrapKey.session_getState e in
  kgb CKA_EXTRACTABLE false = true /\
  (kgb CKA_WRAP_WITH_TRUSTED false = true -> wgb CKA_TRUSTED false = true) /\
  wgb CKA_WRAP false = true /\
  C_WrapKey.isMechanismPermitted e (C_WrapKey.handleManager_getObject e (C_WrapKey.hWrappingKey e)) (C_WrapKey.pMechanism e) = true /\
  hr sst (if wgb CKA_TOKEN false then 1 else 0) (if wgb CKA_PRIVATE true then 1 else 0) = CKR_OK /\
  hr sst (if kgb CKA_TOKEN false then 1 else 0) (if kgb CKA_PRIVATE true then 1 else 0) = CKR_OK /\
  ((mech = CKM_AES_KEY_WRAP \/ mech = CKM_AES_KEY_WRAP_PAD) -> wgu CKA_CLASS CKO_VENDOR_DEFINED = CKO_SECRET_KEY /\ wgu CKA_KEY_TYPE CKK_VENDOR_DEFINED = CKK_AES) /\
  ((mech = CKM_RSA_PKCS \/ mech = CKM_RSA_PKCS_OAEP) -> wgu CKA_CLASS CKO_VENDOR_DEFINED = CKO_PUBLIC_KEY /\ wgu CKA_KEY_TYPE CKK_VENDOR_DEFINED = CKK_RSA).
Proof.
  destruct e. cbn [C_WrapKey.haveRead C_WrapKey.zz_rest C_WrapKey.MechParamCheckRSAPKCSOAEP]. intros Hb Ho Hz. subst.
  C_WrapKey.open_env. open_head.
  all: try bound_contra.
  all: cbv [CKA_EXTRACTABLE CKA_WRAP_WITH_TRUSTED CKA_TRUSTED CKA_WRAP CKA_TOKEN CKA_PRIVATE CKR_OK CKM_AES_KEY_WRAP CKM_AES_KEY_WRAP_PAD
            CKA_CLASS CKO_VENDOR_DEFINED CKO_SECRET_KEY CKA_KEY_TYPE CKK_VENDOR_DEFINED CKK_AES CKM_RSA_PKCS CKM_RSA_PKCS_OAEP CKO_PUBLIC_KEY CKK_RSA] in *.
  all: clear Hres; fin.
Qed.

Theorem UnwrapKey_guards (e : C_UnwrapKey.env) :
  bounded (C_UnwrapKey.haveRead e) -> bounded (C_UnwrapKey.haveWrite e) -> bounded1 (C_UnwrapKey.MechParamCheckRSAPKCSOAEP e) ->
  C_UnwrapKey.hv1_rv e < SENTINEL -> C_UnwrapKey.zz_rest e = SENTINEL ->
  C_UnwrapKey.app e = SENTINEL ->
  let ugb := C_UnwrapKey.unwrapKey_getBooleanValue e in let ugu := C_UnwrapKey.unwrapKey_getUnsignedLongValue e in
  let mech := C_UnwrapKey.pMechanism_mechanism e in let sst := C_UnwrapKey.session_getState e in
  ugb CKA_UNWRAP false = true /\
  C_UnwrapKey.isMechanismPermitted e (C_UnwrapKey.handleManager_getObject e (C_UnwrapKey.hUnwrappingKey e)) (C_UnwrapKey.pMechanism e) = true /\
  C_UnwrapKey.haveRead e sst (if ugb CKA_TOKEN false then 1 else 0) (if ugb CKA_PRIVATE true then 1 else 0) = CKR_OK /\
  (* the object to be created: the write check is applied to the token / private flags extracted from the template *)
  C_UnwrapKey.haveWrite e sst (C_UnwrapKey.hv1_isOnToken e) (C_UnwrapKey.hv1_isPrivate e) = CKR_OK /\
  ((mech = CKM_AES_KEY_WRAP \/ mech = CKM_AES_KEY_WRAP_PAD) -> ugu CKA_CLASS CKO_VENDOR_DEFINED = CKO_SECRET_KEY /\ ugu CKA_KEY_TYPE CKK_VENDOR_DEFINED = CKK_AES) /\
  ((mech = CKM_RSA_PKCS \/ mech = CKM_RSA_PKCS_OAEP) -> ugu CKA_CLASS CKO_VENDOR_DEFINED = CKO_PRIVATE_KEY /\ ugu CKA_KEY_TYPE CKK_VENDOR_DEFINED = CKK_RSA).
Proof.
  destruct e. cbn [C_UnwrapKey.haveRead C_UnwrapKey.haveWrite C_UnwrapKey.zz_rest C_UnwrapKey.MechParamCheckRSAPKCSOAEP C_UnwrapKey.hv1_rv]. intros Hb Hw Ho Hrv Hz. subst.
  C_UnwrapKey.open_env. open_head.
  all: try bound_contra. all: try bound_more.
  all: cbv [CKA_UNWRAP CKA_TOKEN CKA_PRIVATE CKR_OK CKM_AES_KEY_WRAP CKM_AES_KEY_WRAP_PAD
            CKA_CLASS CKO_VENDOR_DEFINED CKO_SECRET_KEY CKA_KEY_TYPE CKK_VENDOR_DEFINED CKK_AES CKM_RSA_PKCS CKM_RSA_PKCS_OAEP CKO_PRIVATE_KEY CKK_RSA] in *.
  all: clear Hres; fin.
Qed.

(* ---- C_DeriveKey, translated to the end: one of the four workers is called only if the base key has CKA_DERIVE, the
   mechanism is permitted, the base key is accessible, AND the object to be created passes the write check with the
   token / private flags extracted from ITS template (C01: no private object without the user logged in) -------------- *)
Theorem DeriveKey_guards (e : C_DeriveKey.env) :
  bounded (C_DeriveKey.haveRead e) -> bounded (C_DeriveKey.haveWrite e) -> C_DeriveKey.hv1_rv e < SENTINEL ->
  (forall a b c d f g h i j, C_DeriveKey.deriveDH e a b c d f g h i j = SENTINEL) ->
  (forall a b c d f g h i j, C_DeriveKey.deriveECDH e a b c d f g h i j = SENTINEL) ->
  (forall a b c d f g h i j, C_DeriveKey.deriveEDDSA e a b c d f g h i j = SENTINEL) ->
  (forall a b c d f g h i j, C_DeriveKey.deriveSymmetric e a b c d f g h i j = SENTINEL) ->
  C_DeriveKey.app e = SENTINEL ->
  let kgb := C_DeriveKey.key_getBooleanValue e in let sst := C_DeriveKey.session_getState e in
  kgb CKA_DERIVE false = true /\
  C_DeriveKey.isMechanismPermitted e (C_DeriveKey.handleManager_getObject e (C_DeriveKey.hBaseKey e)) (C_DeriveKey.pMechanism e) = true /\
  C_DeriveKey.haveRead e sst (if kgb CKA_TOKEN false then 1 else 0) (if kgb CKA_PRIVATE true then 1 else 0) = CKR_OK /\
  C_DeriveKey.haveWrite e sst (C_DeriveKey.hv1_isOnToken e) (C_DeriveKey.hv1_isPrivate e) = CKR_OK.
Proof.
  destruct e. cbn [C_DeriveKey.haveRead C_DeriveKey.haveWrite C_DeriveKey.hv1_rv C_DeriveKey.deriveDH C_DeriveKey.deriveECDH C_DeriveKey.deriveEDDSA C_DeriveKey.deriveSymmetric].
  intros Hb Hw Hrv H1 H2 H3 H4.
  C_DeriveKey.open_env. open_head.
  all: try bound_contra. all: try bound_more.
  all: cbv [CKA_DERIVE CKA_TOKEN CKA_PRIVATE CKR_OK] in *.
  all: clear Hres; fin.
Qed.

(* ---- C_GenerateKey / C_GenerateKeyPair, translated to the end: a generator runs only if the mechanism is in the
   configured list and the object(s) to be created pass the write check with their own template flags ---------------- *)
Theorem GenerateKey_guards (e : C_GenerateKey.env) :
  bounded (C_GenerateKey.haveWrite e) ->
  (forall a b c d f g, C_GenerateKey.generateAES e a b c d f g = SENTINEL) -> (forall a b c d f g, C_GenerateKey.generateDES e a b c d f g = SENTINEL) ->
  (forall a b c d f g, C_GenerateKey.generateDES2 e a b c d f g = SENTINEL) -> (forall a b c d f g, C_GenerateKey.generateDES3 e a b c d f g = SENTINEL) ->
  (forall a b c d f g, C_GenerateKey.generateDHParameters e a b c d f g = SENTINEL) -> (forall a b c d f g, C_GenerateKey.generateDSAParameters e a b c d f g = SENTINEL) ->
  (forall a b c d f g, C_GenerateKey.generateGeneric e a b c d f g = SENTINEL) ->
  C_GenerateKey.app e = SENTINEL ->
  C_GenerateKey.find e (C_GenerateKey.supportedMechanisms_begin e) (C_GenerateKey.supportedMechanisms_end e) (C_GenerateKey.pMechanism_mechanism e) <> C_GenerateKey.supportedMechanisms_end e /\
  C_GenerateKey.handleManager_getSession e (C_GenerateKey.hSession e) <> 0 /\
  C_GenerateKey.haveWrite e (C_GenerateKey.session_getState e) (C_GenerateKey.hv1_isOnToken e) (C_GenerateKey.hv1_isPrivate e) = CKR_OK.
Proof.
  destruct e. cbn [C_GenerateKey.haveWrite C_GenerateKey.generateAES C_GenerateKey.generateDES C_GenerateKey.generateDES2 C_GenerateKey.generateDES3
                   C_GenerateKey.generateDHParameters C_GenerateKey.generateDSAParameters C_GenerateKey.generateGeneric].
  intros Hw H1 H2 H3 H4 H5 H6 H7.
  C_GenerateKey.open_env. open_head.
  all: try bound_contra.
  all: cbv [CKR_OK] in *.
  all: clear Hres; fin.
Qed.

Theorem GenerateKeyPair_guards (e : C_GenerateKeyPair.env) :
  (forall a b c, C_GenerateKeyPair.haveWrite e a b c < SENTINEL) ->
  (forall a b c d f g h i j k l, C_GenerateKeyPair.generateDH e a b c d f g h i j k l = SENTINEL) ->
  (forall a b c d f g h i j k l, C_GenerateKeyPair.generateDSA e a b c d f g h i j k l = SENTINEL) ->
  (forall a b c d f g h i j k l, C_GenerateKeyPair.generateEC e a b c d f g h i j k l = SENTINEL) ->
  (forall a b c d f g h i j k l, C_GenerateKeyPair.generateED e a b c d f g h i j k l = SENTINEL) ->
  (forall a b c d f g h i j k l, C_GenerateKeyPair.generateGOST e a b c d f g h i j k l = SENTINEL) ->
  (forall a b c d f g h i j k l, C_GenerateKeyPair.generateRSA e a b c d f g h i j k l = SENTINEL) ->
  C_GenerateKeyPair.app e = SENTINEL ->
  C_GenerateKeyPair.find e (C_GenerateKeyPair.supportedMechanisms_begin e) (C_GenerateKeyPair.supportedMechanisms_end e) (C_GenerateKeyPair.pMechanism_mechanism e)
    <> C_GenerateKeyPair.supportedMechanisms_end e /\
  (* one write check for both halves: on the token if either is, private if either is *)
  C_GenerateKeyPair.haveWrite e (C_GenerateKeyPair.session_getState e)
    (negb (C_GenerateKeyPair.hv1_ispublicKeyToken e =? 0) || negb (C_GenerateKeyPair.hv2_isprivateKeyToken e =? 0))
    (negb (C_GenerateKeyPair.hv1_ispublicKeyPrivate e =? 0) || negb (C_GenerateKeyPair.hv2_isprivateKeyPrivate e =? 0)) = CKR_OK.
Proof.
  destruct e. cbn [C_GenerateKeyPair.haveWrite C_GenerateKeyPair.generateDH C_GenerateKeyPair.generateDSA C_GenerateKeyPair.generateEC C_GenerateKeyPair.generateED
                   C_GenerateKeyPair.generateGOST C_GenerateKeyPair.generateRSA].
  intros Hw H1 H2 H3 H4 H5 H6.
  C_GenerateKeyPair.open_env. open_head.
  all: try (match goal with H : ?f ?a ?b ?c = SENTINEL |- _ => pose proof (Hw a b c) as Hx; rewrite H in Hx; vm_compute in Hx; discriminate Hx end).
  all: cbv [CKR_OK] in *.
  all: clear Hres; fin.
Qed.

(* ---- CreateObject (C_CreateObject and the object-creating half of generate / unwrap / derive): the loop over the template
   is reached only if the write check passes for the flags extracted from the template -------------------------------- *)
Theorem CreateObject_guards (e : CreateObject.env) :
  bounded (CreateObject.haveWrite e) -> CreateObject.hv1_rv e < SENTINEL -> CreateObject.zz_rest e = SENTINEL ->
  CreateObject.app e = SENTINEL ->
  CreateObject.handleManager_getSession e (CreateObject.hSession e) <> 0 /\
  CreateObject.haveWrite e (CreateObject.session_getState e) (CreateObject.hv1_isOnToken e) (CreateObject.hv1_isPrivate e) = CKR_OK.
Proof.
  destruct e. cbn [CreateObject.haveWrite CreateObject.hv1_rv CreateObject.zz_rest]. intros Hw Hrv Hz. subst.
  CreateObject.open_env. open_head.
  all: try bound_contra. all: try bound_more.
  all: cbv [CKR_OK] in *.
  all: clear Hres; fin.
Qed.

(* C_CopyObject: see P11/CopyFacts.v (the function is regenerated whole, in effect mode, in gen/Gen_Ops.v) *)

(* ---- C_DigestInit: the mechanism must be in the configured list ---------------------------------------------------- *)
Theorem DigestInit_guards (e : C_DigestInit.env) :
  C_DigestInit.zz_rest e = SENTINEL -> C_DigestInit.app e = SENTINEL ->
  C_DigestInit.find e (C_DigestInit.supportedMechanisms_begin e) (C_DigestInit.supportedMechanisms_end e) (C_DigestInit.pMechanism_mechanism e)
    <> C_DigestInit.supportedMechanisms_end e /\
  C_DigestInit.session_getOpType e = SESSION_OP_NONE /\ C_DigestInit.handleManager_getSession e (C_DigestInit.hSession e) <> 0.
Proof.
  destruct e. cbn [C_DigestInit.zz_rest]. intros Hz. subst.
  C_DigestInit.open_env. open_head.
  all: cbv [SESSION_OP_NONE] in *.
  all: clear Hres; fin.
Qed.

(* ---- SoftHSM::isMechanismPermitted, translated to the end: true only if std::find over the configured list does not
   return end(), and CKA_ALLOWED_MECHANISMS is empty or contains the mechanism ---------------------------------------- *)
Theorem isMechanismPermitted_spec (e : isMechanismPermitted.env) :
  isMechanismPermitted.app e = true ->
  isMechanismPermitted.find e (isMechanismPermitted.mechs_begin e) (isMechanismPermitted.mechs_end e) (isMechanismPermitted.pMechanism_mechanism e)
    <> isMechanismPermitted.mechs_end e /\
  (isMechanismPermitted.allowed_empty e <> 0 \/
   isMechanismPermitted.allowed_find e (isMechanismPermitted.pMechanism_mechanism e) <> isMechanismPermitted.allowed_end e).
Proof.
  destruct e. isMechanismPermitted.open_env.
  repeat match goal with |- (if ?c then _ else _) = _ -> _ => destruct c eqn:? end; intros Hres; try discriminate Hres; norm.
  all: split; [assumption|]; try (left; assumption); try (right; assumption).
Qed.
