(* P11/EntryFacts.v — the guard prefixes of the entry points that start a keyed operation or take a mechanism,
   proved over their REGENERATED translation (gen/Gen_Entry.v).  "Reaching the rest of the function" is expressed
   with a sentinel result that no guard can produce.  (C07, C02 wrap refusal, C01 for key-using calls) *)
From Coq Require Import List NArith Bool Lia ZifyBool ZifyN.
From SoftHSM Require Import Gen_Const Gen_Entry.
Import ListNotations.
Local Open Scope N_scope.

Definition SENTINEL : N := 18446744073709551616.       (* 2^64: not a CK_RV *)
Definition bounded (hr : N -> N -> N -> N) : Prop := forall a b c, hr a b c < SENTINEL.
Definition bounded1 (f : N -> N) : Prop := forall a, f a < SENTINEL.

(* walk down the guard chain: always split on the HEAD condition, so that refused paths end at once in a constant *)
Ltac open_guards f :=
  cbv beta zeta delta [f];
  repeat match goal with
         | |- (if ?c then _ else _) = _ -> _ => destruct c eqn:?
         end; intros Hres; try (exfalso; cbv [SENTINEL] in Hres; discriminate Hres).

Ltac bound_contra hr Hb :=
  match goal with
  | H : hr ?a ?b ?c = SENTINEL |- _ => pose proof (Hb a b c) as Hx; rewrite H in Hx; vm_compute in Hx; discriminate Hx
  end.

(* ---- the eight keyed *Init entry points: what must hold for the body to be reached ------------------------ *)
Record init_ok (initialised : N) (session optype token key : N) (keyvalid : bool) (access : N) (usage permitted : bool) : Prop := {
  io_init : initialised <> 0; io_sess : session <> 0; io_op : optype = SESSION_OP_NONE; io_tok : token <> 0;
  io_key : key <> 0 /\ keyvalid = true; io_access : access = CKR_OK; io_usage : usage = true; io_perm : permitted = true }.

Ltac norm :=
  repeat match goal with
         | H : negb (negb _) = _ |- _ => rewrite negb_involutive in H
         | H : negb _ = false |- _ => apply negb_false_iff in H
         | H : negb _ = true |- _ => apply negb_true_iff in H
         | H : (_ || _) = false |- _ => apply orb_false_iff in H; destruct H
         | H : (_ && _) = true |- _ => apply andb_true_iff in H; destruct H
         | H : Bool.eqb _ false = false |- _ => apply eqb_false_iff in H
         | H : (_ =? _) = true |- _ => apply N.eqb_eq in H
         | H : (_ =? _) = false |- _ => apply N.eqb_neq in H
         end.

Ltac finish_init acc :=
  norm; split; [assumption|]; subst acc;
  cbv [CKA_TOKEN CKA_PRIVATE CKA_ENCRYPT CKA_DECRYPT CKA_SIGN CKA_VERIFY CKA_WRAP CKA_UNWRAP CKA_DERIVE SESSION_OP_NONE CKR_OK];
  constructor; try split; try assumption; try reflexivity;
  try match goal with H : ?x <> false |- ?x = true => destruct x; [reflexivity|congruence] end.

Ltac fin :=
  repeat match goal with
         | |- _ /\ _ => split
         | |- _ -> _ => intro
         | H : _ \/ _ |- _ => destruct H
         end;
  try match goal with H : ?m = _ |- _ => is_var m; rewrite H in * end;
  cbn [N.eqb Pos.eqb orb andb negb Bool.eqb] in *; norm; try assumption; try congruence;
  try match goal with
      | |- ?x = true =>
        destruct x eqn:?;
        [reflexivity
        | exfalso;
          repeat match goal with
                 | H : ?b = true, H' : context [?b] |- _ => lazymatch type of H' with b = true => fail | _ => rewrite H in H' end
                 end;
          cbn [N.eqb Pos.eqb orb andb negb Bool.eqb] in *; norm; congruence]
      end.

Section KeyedInit.
  Variables (go gs : N -> N) (hr : N -> N -> N -> N) (imp : N -> N -> bool) (kgb : N -> bool -> bool) (kgu : N -> N -> N)
            (kiv : bool) (sot sst stok ini hS pM hK : N).
  Hypothesis Hb : bounded hr.
  Let acc := hr sst (if kgb CKA_TOKEN false then 1 else 0) (if kgb CKA_PRIVATE true then 1 else 0).

  Theorem SymEncryptInit_guards :
    gen_SoftHSM__SymEncryptInit go gs hr imp kgb kgu kiv sot sst stok ini SENTINEL hS pM hK = SENTINEL ->
    pM <> 0 /\ init_ok ini (gs hS) sot stok (go hK) kiv acc (kgb CKA_ENCRYPT false) (imp (go hK) pM).
  Proof.
    open_guards gen_SoftHSM__SymEncryptInit; try (bound_contra hr Hb). finish_init acc.
  Qed.

  Theorem SymDecryptInit_guards :
    gen_SoftHSM__SymDecryptInit go gs hr imp kgb kgu kiv sot sst stok ini SENTINEL hS pM hK = SENTINEL ->
    pM <> 0 /\ init_ok ini (gs hS) sot stok (go hK) kiv acc (kgb CKA_DECRYPT false) (imp (go hK) pM).
  Proof. open_guards gen_SoftHSM__SymDecryptInit; try (bound_contra hr Hb). finish_init acc. Qed.

  Theorem AsymDecryptInit_guards :
    gen_SoftHSM__AsymDecryptInit go gs hr imp kgb kgu kiv sot sst stok ini SENTINEL hS pM hK = SENTINEL ->
    pM <> 0 /\ init_ok ini (gs hS) sot stok (go hK) kiv acc (kgb CKA_DECRYPT false) (imp (go hK) pM).
  Proof. open_guards gen_SoftHSM__AsymDecryptInit; try (bound_contra hr Hb). finish_init acc. Qed.

  Theorem MacSignInit_guards :
    gen_SoftHSM__MacSignInit go gs hr imp kgb kgu kiv sot sst stok ini SENTINEL hS pM hK = SENTINEL ->
    pM <> 0 /\ init_ok ini (gs hS) sot stok (go hK) kiv acc (kgb CKA_SIGN false) (imp (go hK) pM).
  Proof. open_guards gen_SoftHSM__MacSignInit; try (bound_contra hr Hb). finish_init acc. Qed.

  Theorem MacVerifyInit_guards :
    gen_SoftHSM__MacVerifyInit go gs hr imp kgb kgu kiv sot sst stok ini SENTINEL hS pM hK = SENTINEL ->
    pM <> 0 /\ init_ok ini (gs hS) sot stok (go hK) kiv acc (kgb CKA_VERIFY false) (imp (go hK) pM).
  Proof. open_guards gen_SoftHSM__MacVerifyInit; try (bound_contra hr Hb). finish_init acc. Qed.

  Theorem AsymSignInit_guards :
    gen_SoftHSM__AsymSignInit go gs hr imp kgb kiv sot sst stok ini SENTINEL hS pM hK = SENTINEL ->
    pM <> 0 /\ init_ok ini (gs hS) sot stok (go hK) kiv acc (kgb CKA_SIGN false) (imp (go hK) pM).
  Proof. open_guards gen_SoftHSM__AsymSignInit; try (bound_contra hr Hb). finish_init acc. Qed.

  Theorem AsymVerifyInit_guards :
    gen_SoftHSM__AsymVerifyInit go gs hr imp kgb kiv sot sst stok ini SENTINEL hS pM hK = SENTINEL ->
    pM <> 0 /\ init_ok ini (gs hS) sot stok (go hK) kiv acc (kgb CKA_VERIFY false) (imp (go hK) pM).
  Proof. open_guards gen_SoftHSM__AsymVerifyInit; try (bound_contra hr Hb). finish_init acc. Qed.

  Theorem AsymEncryptInit_guards (oaep : N -> N) (mech : N) :
    bounded1 oaep ->
    gen_SoftHSM__AsymEncryptInit oaep go gs hr imp kgb kgu kiv mech sot sst stok ini SENTINEL hS pM hK = SENTINEL ->
    pM <> 0 /\ init_ok ini (gs hS) sot stok (go hK) kiv acc (kgb CKA_ENCRYPT false) (imp (go hK) pM).
  Proof.
    intros Ho. open_guards gen_SoftHSM__AsymEncryptInit; try (bound_contra hr Hb);
    try (match goal with H : oaep ?a = SENTINEL |- _ => pose proof (Ho a) as Hx; rewrite H in Hx; vm_compute in Hx; discriminate Hx end);
    finish_init acc.
  Qed.
End KeyedInit.

(* ---- C_WrapKey: an unextractable key is never wrapped; a WRAP_WITH_TRUSTED key only under a trusted key; the
   wrapping key needs CKA_WRAP, a permitted mechanism and the class / type the mechanism asks for ---------------- *)
Section Wrap.
  Variables (oaep : N -> N) (aima : N) (go gs : N -> N) (hr : N -> N -> N -> N) (imp : N -> N -> bool)
            (kgb : N -> bool -> bool) (kgu : N -> N -> N) (kiv : bool) (mech mpar mparlen sst stok ini : N)
            (wae wga : N -> N) (wgb : N -> bool -> bool) (wgu : N -> N -> N) (wiv : bool) (hS pM hW hK pW pL : N).
  Hypothesis Hb : bounded hr.
  Hypothesis Ho : bounded1 oaep.

  Theorem WrapKey_guards :
    gen_SoftHSM__C_WrapKey oaep aima go gs hr imp kgb kgu kiv mech mpar mparlen sst stok ini wae wga wgb wgu wiv SENTINEL hS pM hW hK pW pL = SENTINEL ->
    kgb CKA_EXTRACTABLE false = true /\
    (kgb CKA_WRAP_WITH_TRUSTED false = true -> wgb CKA_TRUSTED false = true) /\
    wgb CKA_WRAP false = true /\ imp (go hW) pM = true /\
    hr sst (if wgb CKA_TOKEN false then 1 else 0) (if wgb CKA_PRIVATE true then 1 else 0) = CKR_OK /\
    hr sst (if kgb CKA_TOKEN false then 1 else 0) (if kgb CKA_PRIVATE true then 1 else 0) = CKR_OK /\
    ((mech = CKM_AES_KEY_WRAP \/ mech = CKM_AES_KEY_WRAP_PAD) -> wgu CKA_CLASS CKO_VENDOR_DEFINED = CKO_SECRET_KEY /\ wgu CKA_KEY_TYPE CKK_VENDOR_DEFINED = CKK_AES) /\
    ((mech = CKM_RSA_PKCS \/ mech = CKM_RSA_PKCS_OAEP) -> wgu CKA_CLASS CKO_VENDOR_DEFINED = CKO_PUBLIC_KEY /\ wgu CKA_KEY_TYPE CKK_VENDOR_DEFINED = CKK_RSA).
  Proof.
    open_guards gen_SoftHSM__C_WrapKey; try (bound_contra hr Hb);
    try (match goal with H : oaep ?a = SENTINEL |- _ => pose proof (Ho a) as Hx; rewrite H in Hx; vm_compute in Hx; discriminate Hx end);
    cbv [CKA_EXTRACTABLE CKA_WRAP_WITH_TRUSTED CKA_TRUSTED CKA_WRAP CKA_TOKEN CKA_PRIVATE CKR_OK CKM_AES_KEY_WRAP CKM_AES_KEY_WRAP_PAD
         CKA_CLASS CKO_VENDOR_DEFINED CKO_SECRET_KEY CKA_KEY_TYPE CKK_VENDOR_DEFINED CKK_AES CKM_RSA_PKCS CKM_RSA_PKCS_OAEP CKO_PUBLIC_KEY CKK_RSA] in *;
    clear Hres; fin.
  Qed.
End Wrap.

(* ---- C_UnwrapKey: the unwrapping key needs CKA_UNWRAP, a permitted mechanism and the class / type the mechanism
   asks for ---------------------------------------------------------------------------------------------------------- *)
Section Unwrap.
  Variables (oaep : N -> N) (go gs : N -> N) (hr : N -> N -> N -> N) (imp : N -> N -> bool)
            (mech mpar mparlen sst stok ini : N) (ugb : N -> bool -> bool) (ugu : N -> N -> N) (uiv : bool)
            (hS pM hU pW wlen pT n ph : N).
  Hypothesis Hb : bounded hr.
  Hypothesis Ho : bounded1 oaep.

  Theorem UnwrapKey_guards :
    gen_SoftHSM__C_UnwrapKey oaep go gs hr imp mech mpar mparlen sst stok ini ugb ugu uiv SENTINEL hS pM hU pW wlen pT n ph = SENTINEL ->
    ugb CKA_UNWRAP false = true /\ imp (go hU) pM = true /\
    hr sst (if ugb CKA_TOKEN false then 1 else 0) (if ugb CKA_PRIVATE true then 1 else 0) = CKR_OK /\
    ((mech = CKM_AES_KEY_WRAP \/ mech = CKM_AES_KEY_WRAP_PAD) -> ugu CKA_CLASS CKO_VENDOR_DEFINED = CKO_SECRET_KEY /\ ugu CKA_KEY_TYPE CKK_VENDOR_DEFINED = CKK_AES) /\
    ((mech = CKM_RSA_PKCS \/ mech = CKM_RSA_PKCS_OAEP) -> ugu CKA_CLASS CKO_VENDOR_DEFINED = CKO_PRIVATE_KEY /\ ugu CKA_KEY_TYPE CKK_VENDOR_DEFINED = CKK_RSA).
  Proof.
    open_guards gen_SoftHSM__C_UnwrapKey; try (bound_contra hr Hb);
    try (match goal with H : oaep ?a = SENTINEL |- _ => pose proof (Ho a) as Hx; rewrite H in Hx; vm_compute in Hx; discriminate Hx end);
    cbv [CKA_UNWRAP CKA_TOKEN CKA_PRIVATE CKR_OK CKM_AES_KEY_WRAP CKM_AES_KEY_WRAP_PAD
         CKA_CLASS CKO_VENDOR_DEFINED CKO_SECRET_KEY CKA_KEY_TYPE CKK_VENDOR_DEFINED CKK_AES CKM_RSA_PKCS CKM_RSA_PKCS_OAEP CKO_PRIVATE_KEY CKK_RSA] in *;
    clear Hres; fin.
  Qed.
End Unwrap.

(* ---- C_DeriveKey: CKA_DERIVE and a permitted mechanism --------------------------------------------------------- *)
Theorem DeriveKey_guards (go gs : N -> N) (hr : N -> N -> N -> N) (imp : N -> N -> bool) (kgb : N -> bool -> bool) (kiv : bool)
        (mech sst stok ini hS pM hB pT n ph : N) :
  bounded hr ->
  gen_SoftHSM__C_DeriveKey go gs hr imp kgb kiv mech sst stok ini SENTINEL hS pM hB pT n ph = SENTINEL ->
  kgb CKA_DERIVE false = true /\ imp (go hB) pM = true /\
  hr sst (if kgb CKA_TOKEN false then 1 else 0) (if kgb CKA_PRIVATE true then 1 else 0) = CKR_OK.
Proof.
  intros Hb. open_guards gen_SoftHSM__C_DeriveKey; try (bound_contra hr Hb); norm;
  cbv [CKA_DERIVE CKA_TOKEN CKA_PRIVATE CKR_OK]; repeat split; try assumption;
  try match goal with H : ?x <> false |- ?x = true => destruct x; [reflexivity|congruence] end.
Qed.

(* ---- entry points without a key: the mechanism must be in the configured list (std::find over supportedMechanisms
   does not return end()) -------------------------------------------------------------------------------------------- *)
Theorem DigestInit_needs_enabled_mechanism (find : N -> N -> N -> N) (gs : N -> N) (mech sot b e ini hS pM : N) :
  gen_SoftHSM__C_DigestInit find gs mech sot b e ini SENTINEL hS pM = SENTINEL ->
  find b e mech <> e /\ sot = SESSION_OP_NONE /\ gs hS <> 0.
Proof. open_guards gen_SoftHSM__C_DigestInit; norm; cbv [SESSION_OP_NONE]; repeat split; assumption. Qed.

Theorem GenerateKey_needs_enabled_mechanism (find : N -> N -> N -> N) (gs : N -> N) (mech b e ini hS pM pT n ph : N) :
  gen_SoftHSM__C_GenerateKey find gs mech b e ini SENTINEL hS pM pT n ph = SENTINEL -> find b e mech <> e /\ gs hS <> 0.
Proof. open_guards gen_SoftHSM__C_GenerateKey; norm; repeat split; assumption. Qed.

Theorem GenerateKeyPair_needs_enabled_mechanism (find : N -> N -> N -> N) (gs : N -> N) (mech b e ini hS pM p1 n1 p2 n2 h1 h2 : N) :
  gen_SoftHSM__C_GenerateKeyPair find gs mech b e ini SENTINEL hS pM p1 n1 p2 n2 h1 h2 = SENTINEL -> find b e mech <> e /\ gs hS <> 0.
Proof. open_guards gen_SoftHSM__C_GenerateKeyPair; norm; repeat split; assumption. Qed.
