(* P11/SessionSpec.v — specification lemmas of the session / login machine of the core model (C03, C04). *)
From Coq Require Import List NArith Bool Lia.
From SoftHSM Require Import Gen_Const Gen_Pure Defs Core AssocFacts AccessFacts StepFacts Invariants.
Import ListNotations.
Local Open Scope N_scope.

Inductive lclass := CPublic | CUser | CSO.
Definition login_class (st : N) : lclass :=
  if st =? CKS_RW_SO_FUNCTIONS then CSO else if is_user_state st then CUser else CPublic.
Definition class_of_login (l : login) : lclass := match l with LNone => CPublic | LUser => CUser | LSO => CSO end.

(* the state C_GetSessionInfo reports has exactly the token's login component *)
Lemma reported_state_login (s : state) (x : session) :
  login_class (sess_state s x) = class_of_login (tok_login s (s_tok x)).
Proof.
  unfold sess_state. destruct (tok_login s (s_tok x)), (s_rw x); vm_compute; reflexivity.
Qed.

Lemma same_login_state (s : state) (x y : session) :
  s_tok x = s_tok y -> login_class (sess_state s x) = login_class (sess_state s y).
Proof. intros E. rewrite !reported_state_login, E. reflexivity. Qed.

(* and its R/W component is the session's own flag, except that SO sessions are always R/W *)
Lemma reported_state_rw (s : state) (x : session) :
  is_rw_state (sess_state s x) = s_rw x || is_so (tok_login s (s_tok x)).
Proof. unfold sess_state. destruct (tok_login s (s_tok x)), (s_rw x); vm_compute; reflexivity. Qed.

Definition has_ro_session (s : state) (k : N) : bool :=
  existsb (fun q => (s_tok (snd q) =? k) && negb (s_rw (snd q))) (st_sessions s).

(* C_Login: success iff the PKCS#11 preconditions hold and the PIN is the current one *)
Lemma login_ok_iff (s : state) (h ut : N) (p : bytes) (x : session) (t : token) :
  st_init s = true -> get_session s h = Some x -> alookup (s_tok x) (st_tokens s) = Some t ->
  (snd (step s (OLogin h ut (Some p))) = RRv CKR_OK <->
   (ut = CKU_SO /\ has_ro_session s (s_tok x) = false /\ t_login t = LNone /\ pin_ok (t_sopin t) p = true) \/
   (ut = CKU_USER /\ t_login t = LNone /\ exists up, t_userpin t = Some up /\ pin_ok up p = true)).
Proof.
  intros Hi Hs Ht. unfold step. rewrite Hi. cbn [negb]. cbv iota. rewrite Hs, Ht. unfold has_ro_session.
  destruct (ut =? CKU_SO) eqn:Eso.
  - apply N.eqb_eq in Eso. subst ut.
    destruct (existsb _ (st_sessions s)) eqn:Ero; cbn [snd].
    + split; [discriminate|]. intros [(_ & H & _)|(H & _)]; [discriminate|vm_compute in H; discriminate].
    + destruct (t_login t) eqn:El; cbn [is_user is_so snd].
      * destruct (pin_ok (t_sopin t) p) eqn:Ep; cbn [snd].
        -- split; [intros _; left; auto|reflexivity].
        -- split; [discriminate|]. intros [(_ & _ & _ & H)|(H & _)]; [discriminate|vm_compute in H; discriminate].
      * split; [discriminate|]. intros [(_ & _ & H & _)|(H & _)]; [discriminate|vm_compute in H; discriminate].
      * split; [discriminate|]. intros [(_ & _ & H & _)|(H & _)]; [discriminate|vm_compute in H; discriminate].
  - destruct (ut =? CKU_USER) eqn:Eus.
    + apply N.eqb_eq in Eus. subst ut.
      destruct (t_login t) eqn:El; cbn [is_user is_so snd].
      * destruct (t_userpin t) as [up|] eqn:Eup; cbn [snd].
        -- destruct (pin_ok up p) eqn:Ep; cbn [snd].
           ++ split; [intros _; right; eauto|reflexivity].
           ++ split; [discriminate|]. intros [(H & _)|(_ & _ & up' & H1 & H2)]; [vm_compute in H; discriminate|]. congruence.
        -- split; [discriminate|]. intros [(H & _)|(_ & _ & up' & H1 & H2)]; [vm_compute in H; discriminate|discriminate].
      * split; [discriminate|]. intros [(H & _)|(_ & H & _)]; [vm_compute in H; discriminate|discriminate].
      * split; [discriminate|]. intros [(H & _)|(_ & H & _)]; [vm_compute in H; discriminate|discriminate].
    + destruct (ut =? CKU_CONTEXT_SPECIFIC); cbn [snd];
        (split; [discriminate|]); intros [(H & _)|(H & _)]; subst ut; vm_compute in Eso, Eus; discriminate.
Qed.

(* a successful login logs exactly that user in, on that token only *)
Lemma login_effect (s : state) (h ut : N) (p : option bytes) (x : session) :
  get_session s h = Some x -> snd (step s (OLogin h ut p)) = RRv CKR_OK ->
  forall k, tok_login (fst (step s (OLogin h ut p))) k =
            if s_tok x =? k then (if ut =? CKU_SO then LSO else LUser) else tok_login s k.
Proof.
  intros Hs. unfold step. destruct (negb (st_init s)); [cbn; discriminate|]. rewrite Hs.
  destruct p as [p|]; [|cbn; discriminate].
  destruct (alookup (s_tok x) (st_tokens s)) as [t|] eqn:Et; [|cbn; discriminate].
  destruct (ut =? CKU_SO) eqn:Eso.
  - repeat (break_match; cbn [fst snd]); try discriminate. intros _ k.
    rewrite tok_login_set_login. unfold amem. rewrite Et. reflexivity.
  - destruct (ut =? CKU_USER) eqn:Eus.
    + repeat (break_match; cbn [fst snd]); try discriminate. intros _ k.
      rewrite tok_login_set_login. unfold amem. rewrite Et. reflexivity.
    + destruct (ut =? CKU_CONTEXT_SPECIFIC); cbn; discriminate.
Qed.

(* C_Logout, C_CloseAllSessions and closing the last session leave the token public *)
Lemma logout_public (s : state) (h : N) (x : session) :
  st_init s = true -> get_session s h = Some x ->
  tok_login (fst (step s (OLogout h))) (s_tok x) = LNone.
Proof.
  intros Hi Hs. unfold step. rewrite Hi. cbn [negb]. cbv iota. rewrite Hs. cbn [fst].
  unfold purge_handles. erewrite tok_login_tokens with (s := upd_token s _ _) by reflexivity.
  rewrite tok_login_set_login, N.eqb_refl. destruct (amem _ _); reflexivity.
Qed.

Lemma closeall_public (s : state) (k : N) :
  st_init s = true -> amem k (st_tokens s) = true ->
  tok_login (fst (step s (OCloseAll (TTok k)))) k = LNone /\
  (forall p, In p (st_sessions (fst (step s (OCloseAll (TTok k))))) -> s_tok (snd p) <> k).
Proof.
  intros Hi Hk. unfold step. rewrite Hi. cbn [negb]. cbv iota. unfold resolve. rewrite Hk. cbn [fst]. split.
  - rewrite close_all_login, N.eqb_refl. reflexivity.
  - intros p. rewrite close_all_sessions. intros H. apply filter_In in H. destruct H as [_ H].
    apply negb_true_iff in H. intro E. rewrite E, N.eqb_refl in H. discriminate.
Qed.

Lemma close_last_public (s : state) (h : N) (x : session) :
  st_init s = true -> get_session s h = Some x -> other_session_on s (s_tok x) h = false ->
  tok_login (fst (step s (OClose h))) (s_tok x) = LNone.
Proof.
  intros Hi Hs Ho. unfold step. rewrite Hi. cbn [negb]. cbv iota. rewrite Hs, Ho. cbn [fst].
  rewrite close_all_login, N.eqb_refl. reflexivity.
Qed.

Lemma close_other_keeps_login (s : state) (h : N) (x : session) :
  st_init s = true -> get_session s h = Some x -> other_session_on s (s_tok x) h = true ->
  forall k, tok_login (fst (step s (OClose h))) k = tok_login s k.
Proof.
  intros Hi Hs Ho k. unfold step. rewrite Hi. cbn [negb]. cbv iota. rewrite Hs, Ho. cbn [fst]. reflexivity.
Qed.

(* C_InitToken is refused while a session on the slot is open *)
Lemma inittoken_refused_with_session (s : state) (k : N) (pin : option bytes) (label : N) :
  st_init s = true -> amem k (st_tokens s) = true ->
  existsb (fun p => s_tok (snd p) =? k) (st_sessions s) = true ->
  step s (OInitToken (TTok k) pin label) = (s, RRv CKR_SESSION_EXISTS).
Proof.
  intros Hi Hk He. unfold step. rewrite Hi. cbn [negb]. cbv iota. unfold resolve. rewrite Hk, He. reflexivity.
Qed.

(* an R/O session cannot be opened while the SO is logged in; SO login is refused while one exists *)
Lemma ro_open_refused_while_so (s : state) (k flags : N) :
  st_init s = true -> amem k (st_tokens s) = true -> tok_login s k = LSO ->
  N.land flags CKF_SERIAL_SESSION <> 0 -> N.land flags CKF_RW_SESSION <> CKF_RW_SESSION ->
  step s (OOpen (TTok k) flags) = (s, RRv CKR_SESSION_READ_WRITE_SO_EXISTS).
Proof.
  intros Hi Hk Hso Hser Hrw. unfold step. rewrite Hi. cbn [negb]. cbv iota. unfold resolve. rewrite Hk.
  apply N.eqb_neq in Hser. rewrite Hser. apply N.eqb_neq in Hrw. rewrite Hrw, Hso. reflexivity.
Qed.

Lemma so_login_refused_with_ro (s : state) (h : N) (x : session) (p : bytes) :
  st_init s = true -> get_session s h = Some x -> amem (s_tok x) (st_tokens s) = true ->
  has_ro_session s (s_tok x) = true ->
  step s (OLogin h CKU_SO (Some p)) = (s, RRv CKR_SESSION_READ_ONLY_EXISTS).
Proof.
  intros Hi Hs Hk Hro. unfold step. rewrite Hi. cbn [negb]. cbv iota. rewrite Hs.
  unfold amem in Hk. destruct (alookup (s_tok x) (st_tokens s)); [|discriminate].
  unfold has_ro_session in Hro. rewrite N.eqb_refl, Hro. reflexivity.
Qed.

(* non-vacuity: a concrete history reaching a state with SO logged in and only R/W sessions,
   in which the hypotheses of the lemmas above are met *)
Definition demo_ops : list op :=
  [OInit; OInitToken TFree (Some [49;50;51;52]) 0; OOpen (TTok 0) 6; OLogin 1 CKU_SO (Some [49;50;51;52])].
Example demo_reaches_so : tok_login (exec init_state demo_ops) 0 = LSO /\
                          st_init (exec init_state demo_ops) = true /\ amem 0 (st_tokens (exec init_state demo_ops)) = true.
Proof. vm_compute. auto. Qed.
