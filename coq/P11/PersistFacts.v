(* P11/PersistFacts.v — token objects persist exactly; session objects die with their session;
   destroyed objects never reappear.

   [tok_objs s k] (PinFacts.v) is the list of token objects of token k with all attribute values.
   It is kept by a restart ([restart_keeps_objs]) and by every call except a successful
   C_CreateObject / C_CopyObject / C_DestroyObject / C_SetAttributeValue / C_InitToken
   ([objs_change_only_by]; per token, and only through a session / object of that very token:
   [objs_change_only_by_tok]).  Object ids are issued from one counter that survives restarts and never
   decreases, an id is used at most once over all stores ([inv_oid], [inv_uniq]), so an id that is
   absent below the counter — in particular the id of a destroyed object ([destroy_removes_oid]) —
   stays absent for ever ([destroyed_never_reappears]).  Session objects are gone when their session
   is closed, when all sessions of their token are closed, and after a restart ([session_objects_die]). *)
From Coq Require Import List NArith Bool Lia.
From SoftHSM Require Import Gen_Const Gen_Pure Defs Core AssocFacts AccessFacts StepFacts Invariants HandleFacts SessionSpec PinFacts TokenFacts.
Import ListNotations.
Local Open Scope N_scope.

(* ---- 1. restart ------------------------------------------------------------------------------------------ *)
Theorem restart_keeps_objs (s : state) (b : bool) (k : N) : tok_objs (restart s b) k = tok_objs s k.
Proof. apply restart_keeps_pins. Qed.

(* ---- 2. what can change the token objects ----------------------------------------------------------- *)
Definition res_ok (r : res) : bool :=
  match r with RRv rv => rv =? CKR_OK | RHandle _ => true | _ => false end.
Definition obj_op (o : op) : bool :=
  match o with OCreate _ _ | OCopy _ _ _ | ODestroy _ _ | OSetAttr _ _ _ | OInitToken _ _ _ => true | _ => false end.
(* a successful create / copy / destroy / set-attribute / init-token *)
Definition obj_event (s : state) (o : op) : Prop := obj_op o = true /\ res_ok (snd (step s o)) = true.

(* the same, and it goes through a session of token k (create, copy), denotes a token object of k
   (destroy, set-attribute), or initialises k *)
Definition obj_event_on (s : state) (o : op) (k : N) : Prop :=
  match o with
  | OCreate h _ | OCopy h _ _ =>
      (exists x, get_session s h = Some x /\ s_tok x = k) /\ exists hh, snd (step s o) = RHandle hh
  | ODestroy h oh | OSetAttr h oh _ =>
      (exists e oid ob, get_object s oh = Some (e, LTok k oid, ob)) /\ snd (step s o) = RRv CKR_OK
  | OInitToken _ _ lab => lab = k /\ snd (step s o) = RRv CKR_OK
  | _ => False
  end.

Lemma obj_event_on_event s o k : obj_event_on s o k -> obj_event s o.
Proof.
  unfold obj_event. destruct o; cbn [obj_event_on obj_op]; try contradiction.
  all: try (intros [_ [hh ->]]; split; reflexivity).
  all: intros [_ ->]; split; reflexivity.
Qed.

Lemma tok_objs_tokens s s' k : st_tokens s' = st_tokens s -> tok_objs s' k = tok_objs s k.
Proof. unfold tok_objs. intros ->. reflexivity. Qed.

Lemma tok_objs_upd s k f k' :
  tok_objs (upd_token s k f) k' =
  if k =? k' then option_map (fun t => t_objs (f t)) (alookup k (st_tokens s)) else tok_objs s k'.
Proof.
  unfold tok_objs. rewrite upd_token_lookup. destruct (k =? k'); [|reflexivity].
  destruct (alookup k (st_tokens s)); reflexivity.
Qed.

Lemma tok_objs_upd_frame f : (forall t0, t_objs (f t0) = t_objs t0) ->
  forall s0 k0 k, tok_objs (upd_token s0 k0 f) k = tok_objs s0 k.
Proof.
  intros Hf s0 k0 k. rewrite tok_objs_upd. destruct (k0 =? k) eqn:E; [|reflexivity]. apply N.eqb_eq in E. subst k0.
  unfold tok_objs. destruct (alookup k (st_tokens s0)) as [t0|]; [|reflexivity]. cbn. rewrite Hf. reflexivity.
Qed.

Lemma tok_objs_upd_other s k f k' : k <> k' -> tok_objs (upd_token s k f) k' = tok_objs s k'.
Proof. intros H. rewrite tok_objs_upd, (neq_eqb_false k k' H). reflexivity. Qed.

Lemma tok_objs_close_all s k0 k : tok_objs (close_all s k0) k = tok_objs s k.
Proof. unfold close_all. rewrite tok_objs_upd_frame by auto. reflexivity. Qed.
Lemma tok_objs_upd_session s h f k : tok_objs (upd_session s h f) k = tok_objs s k.
Proof. apply tok_objs_tokens. apply upd_session_tokens. Qed.

Theorem objs_change_only_by_tok (s : state) (o : op) (k : N) :
  tok_objs (fst (step s o)) k = tok_objs s k \/ obj_event_on s o k.
Proof.
  destruct o; unfold obj_event_on, step; cbn [fst snd];
  repeat (first [break_match | break_let]; cbn [fst snd]); try (left; reflexivity).
  all: try match goal with H : add_handle _ _ = (_, _) |- _ => unfold add_handle in H; inversion H; subst; clear H end.
  all: try match goal with H : add_obj_handle ?a ?b ?c ?d ?e = (?s1, _) |- _ =>
         assert (E1 : s1 = fst (add_obj_handle a b c d e)) by (rewrite H; reflexivity); clear H; subst s1 end.
  all: try (left; apply restart_keeps_objs).
  all: try (left; apply tok_objs_close_all).
  all: try (left; rewrite ?tok_objs_upd_session; reflexivity).
  all: try (left; apply tok_objs_upd_frame; auto; fail).
  all: try (left; unfold purge_handles; simp_state; erewrite tok_objs_tokens by reflexivity; apply tok_objs_upd_frame; auto; fail).
  all: try (match goal with H : find_loop _ _ _ _ _ _ _ _ = Some _ |- _ => apply find_loop_frame in H; destruct H as (F1 & F2 & F3 & F4) end;
            left; rewrite tok_objs_upd_session; apply tok_objs_tokens; exact F2).
  - (* re-init of token n with label = n *)
    match goal with H : negb (?n =? label) = false |- _ => apply negb_false_iff, N.eqb_eq in H; subst label end.
    destruct (n =? k) eqn:E.
    + apply N.eqb_eq in E. subst n. right. split; reflexivity.
    + left. unfold tok_objs. simp_state. rewrite alookup_aset, E. reflexivity.
  - (* fresh token *)
    destruct (label =? k) eqn:E.
    + apply N.eqb_eq in E. right. auto.
    + left. unfold tok_objs. simp_state. rewrite alookup_app. destruct (alookup k (st_tokens s)); [reflexivity|]. cbn. rewrite E. reflexivity.
  - (* create *)
    destruct (s_tok s0 =? k) eqn:E.
    + apply N.eqb_eq in E. right. eauto.
    + left. apply N.eqb_neq in E. erewrite tok_objs_tokens by apply add_obj_handle_tokens.
      destruct (negb (tmpl_bool CKA_TOKEN tm 0 =? 0)); simp_state; [rewrite tok_objs_upd_other by exact E|]; reflexivity.
  - (* copy *)
    destruct (s_tok s0 =? k) eqn:E.
    + apply N.eqb_eq in E. right. eauto.
    + left. apply N.eqb_neq in E. erewrite tok_objs_tokens by apply add_obj_handle_tokens.
      match goal with |- context [if ?c then upd_token _ _ _ else _] => destruct c end; simp_state;
        [rewrite tok_objs_upd_other by exact E|]; reflexivity.
  - (* destroy *)
    destruct o1 as [k0 oid|oid]; cbn [del_object]; [|left; reflexivity].
    destruct (k0 =? k) eqn:E.
    + apply N.eqb_eq in E. subst k0. right. eauto 6.
    + left. apply N.eqb_neq in E. rewrite tok_objs_upd_other by exact E. reflexivity.
  - (* set-attribute *)
    destruct o1 as [k0 oid|oid]; cbn [put_object].
    + destruct (k0 =? k) eqn:E.
      * apply N.eqb_eq in E. subst k0. right. eauto 6.
      * left. apply N.eqb_neq in E. rewrite tok_objs_upd_other by exact E. reflexivity.
    + left. destruct (alookup oid (st_sobjs s)); reflexivity.
Qed.

Theorem objs_change_only_by (s : state) (o : op) (k : N) :
  tok_objs (fst (step s o)) k = tok_objs s k \/ obj_event s o.
Proof.
  destruct (objs_change_only_by_tok s o k) as [H|H]; [left; exact H|right; eapply obj_event_on_event; exact H].
Qed.

(* in particular: logins, logouts, PIN changes, opening and closing sessions, searches, reads and
   restarts leave every token object of every token with identical attribute values *)
Corollary non_obj_op_keeps_objs (s : state) (o : op) (k : N) :
  obj_op o = false -> tok_objs (fst (step s o)) k = tok_objs s k.
Proof.
  intros Ho. destruct (objs_change_only_by s o k) as [H|[H _]]; [exact H|congruence].
Qed.

(* and so does any failing call *)
Corollary failed_call_keeps_objs (s : state) (o : op) (k : N) :
  res_ok (snd (step s o)) = false -> tok_objs (fst (step s o)) k = tok_objs s k.
Proof.
  intros Ho. destruct (objs_change_only_by s o k) as [H|[_ H]]; [exact H|congruence].
Qed.

(* ---- 3. over a history ------------------------------------------------------------------------------- *)
Fixpoint no_obj_event (s : state) (ops : list op) : Prop :=
  match ops with
  | [] => True
  | o :: r => ~ obj_event s o /\ no_obj_event (fst (step s o)) r
  end.

Theorem persist_trace (ops : list op) : forall (s : state) (k : N),
  no_obj_event s ops -> tok_objs (exec s ops) k = tok_objs s k.
Proof.
  unfold exec. induction ops as [|o r IH]; intros s k H; cbn [fold_left]; [reflexivity|].
  destruct H as [H1 H2]. rewrite IH by exact H2.
  destruct (objs_change_only_by s o k) as [E|E]; [exact E|contradiction].
Qed.

(* per token: only events on token k matter for the objects of token k *)
Fixpoint no_obj_event_on (s : state) (ops : list op) (k : N) : Prop :=
  match ops with
  | [] => True
  | o :: r => ~ obj_event_on s o k /\ no_obj_event_on (fst (step s o)) r k
  end.

Theorem persist_trace_tok (ops : list op) : forall (s : state) (k : N),
  no_obj_event_on s ops k -> tok_objs (exec s ops) k = tok_objs s k.
Proof.
  unfold exec. induction ops as [|o r IH]; intros s k H; cbn [fold_left]; [reflexivity|].
  destruct H as [H1 H2]. rewrite IH by exact H2.
  destruct (objs_change_only_by_tok s o k) as [E|E]; [exact E|contradiction].
Qed.

(* a syntactic sufficient condition: no object-changing operation in the list at all *)
Corollary persist_trace_syntactic (ops : list op) (s : state) (k : N) :
  forallb (fun o => negb (obj_op o)) ops = true -> tok_objs (exec s ops) k = tok_objs s k.
Proof.
  intros H. apply persist_trace. revert s. induction ops as [|o r IH]; intros s; cbn; [exact I|].
  cbn in H. apply andb_true_iff in H. destruct H as [H1 H2]. split; [|apply IH; exact H2].
  intros [Ho _]. rewrite Ho in H1. discriminate.
Qed.

(* ---- 4. object ids: fresh, unique, never reused -------------------------------------------------- *)
Definition tok_oids (ts : list (N * token)) : list N := flat_map (fun p => akeys (t_objs (snd p))) ts.
(* all object ids occurring in any token's objects or in the session object store *)
Definition oids (s : state) : list N := tok_oids (st_tokens s) ++ akeys (st_sobjs s).

Definition inv_oid (s : state) : Prop := forall i, In i (oids s) -> i < st_next_oid s.
Definition inv_uniq (s : state) : Prop := NoDup (oids s).

(* counting occurrences *)
Definition cnt (l : list N) (i : N) : nat := count_occ N.eq_dec l i.
Definition cnts (s : state) (i : N) : nat := cnt (oids s) i.

Lemma cnt_app l m i : cnt (l ++ m) i = (cnt l i + cnt m i)%nat.
Proof. apply count_occ_app. Qed.

Lemma cnt_In l i : In i l <-> (0 < cnt l i)%nat.
Proof. unfold cnt. rewrite (count_occ_In N.eq_dec). lia. Qed.

Lemma cnt_cons a l i : cnt (a :: l) i = ((if a =? i then 1 else 0) + cnt l i)%nat.
Proof.
  unfold cnt. cbn. destruct (N.eq_dec a i) as [E|E].
  - subst. rewrite N.eqb_refl. reflexivity.
  - rewrite (neq_eqb_false a i E). reflexivity.
Qed.

Lemma cnt_keys_filter {A} (f : N * A -> bool) l i : (cnt (akeys (filter f l)) i <= cnt (akeys l) i)%nat.
Proof.
  unfold akeys. induction l as [|[k v] r IH]; cbn [filter map]; [lia|].
  destruct (f (k, v)); cbn [map fst]; rewrite ?cnt_cons; lia.
Qed.

Lemma cnt_keys_aremove {A} (l : list (N * A)) k : cnt (akeys (aremove k l)) k = 0%nat.
Proof.
  unfold aremove, akeys. induction l as [|[k' v] r IH]; cbn [filter map fst negb]; [reflexivity|].
  destruct (k' =? k) eqn:E; cbn [negb map fst]; [exact IH|]. rewrite cnt_cons, E. exact IH.
Qed.

Lemma cnt_keys_snoc {A} (l : list (N * A)) k v i :
  cnt (akeys (l ++ [(k, v)])) i = (cnt (akeys l) i + (if k =? i then 1 else 0))%nat.
Proof. rewrite akeys_app, cnt_app. unfold akeys at 2. cbn [map fst]. rewrite cnt_cons. cbn. lia. Qed.

Lemma tok_oids_cons p ts : tok_oids (p :: ts) = akeys (t_objs (snd p)) ++ tok_oids ts.
Proof. reflexivity. Qed.
Lemma tok_oids_app a b : tok_oids (a ++ b) = tok_oids a ++ tok_oids b.
Proof. apply flat_map_app. Qed.

Lemma tok_oids_aset ts k t t' i : alookup k ts = Some t ->
  (cnt (tok_oids (aset k t' ts)) i + cnt (akeys (t_objs t)) i = cnt (tok_oids ts) i + cnt (akeys (t_objs t')) i)%nat.
Proof.
  induction ts as [|[k0 t0] r IH]; cbn [alookup aset]; [discriminate|].
  destruct (k0 =? k) eqn:E.
  - intros H. inversion H; subst. rewrite !tok_oids_cons, !cnt_app. cbn [snd]. lia.
  - intros H. rewrite !tok_oids_cons, !cnt_app. cbn [snd]. specialize (IH H). lia.
Qed.

Lemma tok_oids_map g ts : (forall t, t_objs (g t) = t_objs t) ->
  tok_oids (map (fun p => (fst p, g (snd p))) ts) = tok_oids ts.
Proof.
  intros Hg. induction ts as [|[k t] r IH]; [reflexivity|]. cbn [map]. rewrite !tok_oids_cons, IH. cbn [fst snd]. rewrite Hg. reflexivity.
Qed.

Lemma tok_oids_lookup ts k t i : alookup k ts = Some t -> In i (akeys (t_objs t)) -> In i (tok_oids ts).
Proof.
  intros H Hi. apply alookup_In in H. unfold tok_oids. apply in_flat_map. exists (k, t). auto.
Qed.

Lemma cnts_eq s i : cnts s i = (cnt (tok_oids (st_tokens s)) i + cnt (akeys (st_sobjs s)) i)%nat.
Proof. apply cnt_app. Qed.

(* no id gains an occurrence, the id counter stays *)
Definition oid_le (s s' : state) : Prop := st_next_oid s' = st_next_oid s /\ forall i, (cnts s' i <= cnts s i)%nat.
(* ... or exactly the next id gains one occurrence and the counter moves past it *)
Definition oid_grow (s s' : state) : Prop :=
  oid_le s s' \/
  (st_next_oid s' = st_next_oid s + 1 /\
   forall i, (cnts s' i <= cnts s i + (if i =? st_next_oid s then 1 else 0))%nat).

Lemma oid_le_refl s : oid_le s s.
Proof. split; [reflexivity|]. intros; lia. Qed.

Lemma oid_le_gen s s' : st_next_oid s' = st_next_oid s ->
  (forall i, cnt (tok_oids (st_tokens s')) i <= cnt (tok_oids (st_tokens s)) i)%nat ->
  (forall i, cnt (akeys (st_sobjs s')) i <= cnt (akeys (st_sobjs s)) i)%nat -> oid_le s s'.
Proof. intros E H1 H2. split; [exact E|]. intros i. rewrite !cnts_eq. specialize (H1 i). specialize (H2 i). lia. Qed.

Lemma oid_le_same s s' :
  st_next_oid s' = st_next_oid s -> st_tokens s' = st_tokens s -> st_sobjs s' = st_sobjs s -> oid_le s s'.
Proof. intros E1 E2 E3. apply oid_le_gen; [exact E1| |]; intros i; rewrite ?E2, ?E3; lia. Qed.

Lemma tok_oids_lookup_le ts k t i : alookup k ts = Some t -> (cnt (akeys (t_objs t)) i <= cnt (tok_oids ts) i)%nat.
Proof.
  induction ts as [|[k0 t0] r IH]; cbn [alookup]; [discriminate|].
  rewrite tok_oids_cons, cnt_app. cbn [snd]. destruct (k0 =? k).
  - intros H. inversion H; subst. lia.
  - intros H. specialize (IH H). lia.
Qed.

Lemma tok_oids_upd s k f i :
  cnt (tok_oids (st_tokens (upd_token s k f))) i =
  match alookup k (st_tokens s) with
  | Some t => (cnt (tok_oids (st_tokens s)) i - cnt (akeys (t_objs t)) i + cnt (akeys (t_objs (f t))) i)%nat
  | None => cnt (tok_oids (st_tokens s)) i
  end.
Proof.
  unfold upd_token. destruct (alookup k (st_tokens s)) as [t|] eqn:E; [|reflexivity]. simp_state.
  pose proof (tok_oids_aset _ _ _ (f t) i E). pose proof (tok_oids_lookup_le _ _ _ i E). lia.
Qed.

Lemma tok_oids_upd_le s k f :
  (forall t, alookup k (st_tokens s) = Some t -> forall i, (cnt (akeys (t_objs (f t))) i <= cnt (akeys (t_objs t)) i)%nat) ->
  forall i, (cnt (tok_oids (st_tokens (upd_token s k f))) i <= cnt (tok_oids (st_tokens s)) i)%nat.
Proof.
  intros H i. rewrite tok_oids_upd. destruct (alookup k (st_tokens s)) as [t|] eqn:E; [|lia].
  specialize (H t eq_refl i). pose proof (tok_oids_lookup_le _ _ _ i E). lia.
Qed.

Lemma tok_oids_upd_frame s k f : (forall t, t_objs (f t) = t_objs t) ->
  forall i, (cnt (tok_oids (st_tokens (upd_token s k f))) i <= cnt (tok_oids (st_tokens s)) i)%nat.
Proof. intros Hf. apply tok_oids_upd_le. intros t _ i. rewrite Hf. lia. Qed.

Lemma add_obj_handle_next_oid s k ss p oid : st_next_oid (fst (add_obj_handle s k ss p oid)) = st_next_oid s.
Proof. unfold add_obj_handle. destruct (find_obj_handle s oid); reflexivity. Qed.

Lemma find_loop_next_oid tc pub k hs tm cands : forall s acc s' r,
  find_loop tc pub k hs tm cands s acc = Some (s', r) -> st_next_oid s' = st_next_oid s.
Proof.
  induction cands as [|[[oid istok] o] rest IH]; intros s acc s' r; cbn.
  - intros H. inversion H. reflexivity.
  - destruct (pub && o_private o); [apply IH|].
    destruct (match_template tc o tm) as [[|]|]; [|apply IH|discriminate].
    destruct (add_obj_handle s k (if o_token o then CK_INVALID_HANDLE else hs) (o_private o) oid) as [s1 h] eqn:E.
    intros H. apply IH in H. rewrite H.
    assert (E1 : s1 = fst (add_obj_handle s k (if o_token o then CK_INVALID_HANDLE else hs) (o_private o) oid)) by (rewrite E; reflexivity).
    subst s1. apply add_obj_handle_next_oid.
Qed.

Lemma get_object_tok s oh e k oid ob :
  get_object s oh = Some (e, LTok k oid, ob) ->
  exists t, alookup k (st_tokens s) = Some t /\ alookup oid (t_objs t) = Some ob.
Proof.
  unfold get_object. destruct (alookup oh (st_handles s)) as [e0|]; [|discriminate].
  repeat (break_match; try discriminate); intros H; inversion H; subst; eauto.
Qed.

Lemma oid_le_del_object s l : oid_le s (del_object s l).
Proof.
  apply oid_le_gen; [apply del_object_next_oid| |]; intros i; destruct l; cbn [del_object]; simp_state; rewrite ?upd_token_sobjs; try lia.
  - apply tok_oids_upd_le. intros t _ j. cbn [t_objs set_t_objs]. apply cnt_keys_filter.
  - apply cnt_keys_filter.
Qed.

Lemma oid_le_put_object s oh e l ob o : get_object s oh = Some (e, l, ob) -> oid_le s (put_object s l o).
Proof.
  intros Hg. apply oid_le_gen; [apply put_object_next_oid| |]; intros i; destruct l as [k oid|oid]; cbn [put_object].
  - apply tok_oids_upd_le. intros t Ht j. apply get_object_tok in Hg. destruct Hg as (t' & Ht' & Ho).
    rewrite Ht in Ht'. inversion Ht'; subst t'. cbn [t_objs set_t_objs]. erewrite akeys_aset_same by exact Ho. lia.
  - destruct (alookup oid (st_sobjs s)); simp_state; lia.
  - rewrite upd_token_sobjs. lia.
  - destruct (alookup oid (st_sobjs s)) as [so|] eqn:E; simp_state; [|lia]. erewrite akeys_aset_same by exact E. lia.
Qed.

Lemma oid_le_close_all s k : oid_le s (close_all s k).
Proof.
  apply oid_le_gen; [apply close_all_next_oid| |]; intros i.
  - unfold close_all. eapply PeanoNat.Nat.le_trans; [apply tok_oids_upd_frame; reflexivity|]. unfold purge_handles. simp_state. lia.
  - rewrite close_all_sobjs. apply cnt_keys_filter.
Qed.

Lemma oid_le_restart s b : oid_le s (restart s b).
Proof.
  apply oid_le_gen; [reflexivity| |]; intros i; unfold restart; simp_state.
  - rewrite (tok_oids_map (fun t => set_t_login t LNone)) by reflexivity. lia.
  - cbn. lia.
Qed.

Lemma oid_grow_new s s2 k ss p oid0 :
  st_next_oid s2 = st_next_oid s + 1 ->
  (forall i, (cnts s2 i <= cnts s i + (if i =? st_next_oid s then 1 else 0))%nat) ->
  oid_grow s (fst (add_obj_handle s2 k ss p oid0)).
Proof.
  intros E H. right. rewrite add_obj_handle_next_oid. split; [exact E|]. intros i.
  rewrite (cnts_eq (fst _)), add_obj_handle_tokens, add_obj_handle_sobjs, <- cnts_eq. apply H.
Qed.

Lemma cnts_new_tokobj s k o i :
  (cnts (upd_token (set_next_oid s (st_next_oid s + 1)) k (fun t => set_t_objs t (t_objs t ++ [(st_next_oid s, o)]))) i
   <= cnts s i + (if i =? st_next_oid s then 1 else 0))%nat.
Proof.
  rewrite !cnts_eq, upd_token_sobjs, tok_oids_upd. simp_state.
  destruct (alookup k (st_tokens s)) as [t|] eqn:E; [|lia]. cbn [t_objs set_t_objs]. rewrite cnt_keys_snoc.
  rewrite (N.eqb_sym i). pose proof (tok_oids_lookup_le _ _ _ i E). destruct (st_next_oid s =? i); lia.
Qed.

Lemma cnts_new_sobj s so i :
  (cnts (set_sobjs (set_next_oid s (st_next_oid s + 1)) (st_sobjs s ++ [(st_next_oid s, so)])) i
   <= cnts s i + (if i =? st_next_oid s then 1 else 0))%nat.
Proof. rewrite !cnts_eq. simp_state. rewrite cnt_keys_snoc, (N.eqb_sym i). destruct (st_next_oid s =? i); lia. Qed.

Theorem step_oid_grow (s : state) (o : op) : oid_grow s (fst (step s o)).
Proof.
  destruct o; unfold step; cbn [fst];
  repeat (first [break_match | break_let]; cbn [fst]); try (left; apply oid_le_refl).
  all: try match goal with H : add_handle _ _ = (_, _) |- _ => unfold add_handle in H; inversion H; subst; clear H end.
  all: try match goal with H : add_obj_handle ?a ?b ?c ?d ?e = (?s1, _) |- _ =>
         assert (E1 : s1 = fst (add_obj_handle a b c d e)) by (rewrite H; reflexivity); clear H; subst s1 end.
  all: try (left; apply oid_le_restart).
  all: try (left; apply oid_le_close_all).
  all: try (left; eapply oid_le_put_object; eassumption).
  all: try (left; apply oid_le_same; rewrite ?upd_session_next_oid, ?upd_session_tokens, ?upd_session_sobjs; reflexivity).
  all: try (left; apply oid_le_gen; [rewrite ?upd_token_next_oid; reflexivity|apply tok_oids_upd_frame; reflexivity|rewrite upd_token_sobjs; intros; lia]).
  Show.
Abort.
