(* P11/PersistFacts.v — token objects persist exactly; session objects die with their session;
   destroyed objects never reappear.

   [tok_objs s k] (PinFacts.v) is the list of token objects of token k with all attribute values.
   It is kept by a restart ([restart_keeps_objs]) and by every call except a successful
   C_CreateObject / C_CopyObject / C_DestroyObject / C_SetAttributeValue / C_InitToken
   ([objs_change_only_by]; per token, and only through a session / object of that very token:
   [objs_change_only_by_tok]).  Object ids are issued from one counter that survives restarts and never
   decreases, an id is used at most once over all stores ([inv_oid], [inv_uniq]), so an id that is
   absent below the counter — in particular the id of a destroyed object ([destroy_removes_oid]) —
   stays absent for ever ([destroyed_never_reappears]).  Session objects are gone when their session
   is closed, when all sessions of their token are closed, and after a restart ([session_objects_die]). *)
From Coq Require Import List NArith Bool Lia.
From SoftHSM Require Import Gen_Const Gen_Pure Defs Core AssocFacts AccessFacts StepFacts Invariants HandleFacts SessionSpec PinFacts TokenFacts.
Import ListNotations.
Local Open Scope N_scope.

(* ---- 1. restart ------------------------------------------------------------------------------------------ *)
Theorem restart_keeps_objs (s : state) (b : bool) (k : N) : tok_objs (restart s b) k = tok_objs s k.
Proof. apply restart_keeps_pins. Qed.

(* ---- 2. what can change the token objects ----------------------------------------------------------- *)
Definition res_ok (r : res) : bool :=
  match r with RRv rv => rv =? CKR_OK | RHandle _ => true | _ => false end.
Definition obj_op (o : op) : bool :=
  match o with OCreate _ _ | OCopy _ _ _ | ODestroy _ _ | OSetAttr _ _ _ | OInitToken _ _ _ => true | _ => false end.
(* a successful create / copy / destroy / set-attribute / init-token *)
Definition obj_event (s : state) (o : op) : Prop := obj_op o = true /\ res_ok (snd (step s o)) = true.

(* the same, and it goes through a session of token k (create, copy), denotes a token object of k
   (destroy, set-attribute), or initialises k *)
Definition obj_event_on (s : state) (o : op) (k : N) : Prop :=
  match o with
  | OCreate h _ | OCopy h _ _ =>
      (exists x, get_session s h = Some x /\ s_tok x = k) /\ exists hh, snd (step s o) = RHandle hh
  | ODestroy h oh | OSetAttr h oh _ =>
      (exists e oid ob, get_object s oh = Some (e, LTok k oid, ob)) /\ snd (step s o) = RRv CKR_OK
  | OInitToken _ _ lab => lab = k /\ snd (step s o) = RRv CKR_OK
  | _ => False
  end.

Lemma obj_event_on_event s o k : obj_event_on s o k -> obj_event s o.
Proof.
  unfold obj_event. destruct o; cbn [obj_event_on obj_op]; try contradiction.
  all: try (intros [_ [hh ->]]; split; reflexivity).
  all: intros [_ ->]; split; reflexivity.
Qed.

Lemma tok_objs_tokens s s' k : st_tokens s' = st_tokens s -> tok_objs s' k = tok_objs s k.
Proof. unfold tok_objs. intros ->. reflexivity. Qed.

Lemma tok_objs_upd s k f k' :
  tok_objs (upd_token s k f) k' =
  if k =? k' then option_map (fun t => t_objs (f t)) (alookup k (st_tokens s)) else tok_objs s k'.
Proof.
  unfold tok_objs. rewrite upd_token_lookup. destruct (k =? k'); [|reflexivity].
  destruct (alookup k (st_tokens s)); reflexivity.
Qed.

Lemma tok_objs_upd_frame f : (forall t0, t_objs (f t0) = t_objs t0) ->
  forall s0 k0 k, tok_objs (upd_token s0 k0 f) k = tok_objs s0 k.
Proof.
  intros Hf s0 k0 k. rewrite tok_objs_upd. destruct (k0 =? k) eqn:E; [|reflexivity]. apply N.eqb_eq in E. subst k0.
  unfold tok_objs. destruct (alookup k (st_tokens s0)) as [t0|]; [|reflexivity]. cbn. rewrite Hf. reflexivity.
Qed.

Lemma tok_objs_upd_other s k f k' : k <> k' -> tok_objs (upd_token s k f) k' = tok_objs s k'.
Proof. intros H. rewrite tok_objs_upd, (neq_eqb_false k k' H). reflexivity. Qed.

Lemma tok_objs_close_all s k0 k : tok_objs (close_all s k0) k = tok_objs s k.
Proof. unfold close_all. rewrite tok_objs_upd_frame by auto. reflexivity. Qed.
Lemma tok_objs_upd_session s h f k : tok_objs (upd_session s h f) k = tok_objs s k.
Proof. apply tok_objs_tokens. apply upd_session_tokens. Qed.

Theorem objs_change_only_by_tok (s : state) (o : op) (k : N) :
  tok_objs (fst (step s o)) k = tok_objs s k \/ obj_event_on s o k.
Proof.
  destruct o; unfold obj_event_on, step; cbn [fst snd];
  repeat (first [break_match | break_let]; cbn [fst snd]); try (left; reflexivity).
  all: try match goal with H : add_handle _ _ = (_, _) |- _ => unfold add_handle in H; inversion H; subst; clear H end.
  all: try match goal with H : add_obj_handle ?a ?b ?c ?d ?e = (?s1, _) |- _ =>
         assert (E1 : s1 = fst (add_obj_handle a b c d e)) by (rewrite H; reflexivity); clear H; subst s1 end.
  all: try (left; apply restart_keeps_objs).
  all: try (left; apply tok_objs_close_all).
  all: try (left; rewrite ?tok_objs_upd_session; reflexivity).
  all: try (left; apply tok_objs_upd_frame; auto; fail).
  all: try (left; unfold purge_handles; simp_state; erewrite tok_objs_tokens by reflexivity; apply tok_objs_upd_frame; auto; fail).
  all: try (match goal with H : find_loop _ _ _ _ _ _ _ _ = Some _ |- _ => apply find_loop_frame in H; destruct H as (F1 & F2 & F3 & F4) end;
            left; rewrite tok_objs_upd_session; apply tok_objs_tokens; exact F2).
  - (* re-init of token n with label = n *)
    match goal with H : negb (?n =? label) = false |- _ => apply negb_false_iff, N.eqb_eq in H; subst label end.
    destruct (n =? k) eqn:E.
    + apply N.eqb_eq in E. subst n. right. split; reflexivity.
    + left. unfold tok_objs. simp_state. rewrite alookup_aset, E. reflexivity.
  - (* fresh token *)
    destruct (label =? k) eqn:E.
    + apply N.eqb_eq in E. right. auto.
    + left. unfold tok_objs. simp_state. rewrite alookup_app. destruct (alookup k (st_tokens s)); [reflexivity|]. cbn. rewrite E. reflexivity.
  - (* create *)
    destruct (s_tok s0 =? k) eqn:E.
    + apply N.eqb_eq in E. right. eauto.
    + left. apply N.eqb_neq in E. erewrite tok_objs_tokens by apply add_obj_handle_tokens.
      destruct (negb (tmpl_bool CKA_TOKEN tm 0 =? 0)); simp_state; [rewrite tok_objs_upd_other by exact E|]; reflexivity.
  - (* copy *)
    destruct (s_tok s0 =? k) eqn:E.
    + apply N.eqb_eq in E. right. eauto.
    + left. apply N.eqb_neq in E. erewrite tok_objs_tokens by apply add_obj_handle_tokens.
      match goal with |- context [if ?c then upd_token _ _ _ else _] => destruct c end; simp_state;
        [rewrite tok_objs_upd_other by exact E|]; reflexivity.
  - (* destroy *)
    destruct o1 as [k0 oid|oid]; cbn [del_object]; [|left; reflexivity].
    destruct (k0 =? k) eqn:E.
    + apply N.eqb_eq in E. subst k0. right. eauto 6.
    + left. apply N.eqb_neq in E. rewrite tok_objs_upd_other by exact E. reflexivity.
  - (* set-attribute *)
    destruct o1 as [k0 oid|oid]; cbn [put_object].
    + destruct (k0 =? k) eqn:E.
      * apply N.eqb_eq in E. subst k0. right. eauto 6.
      * left. apply N.eqb_neq in E. rewrite tok_objs_upd_other by exact E. reflexivity.
    + left. destruct (alookup oid (st_sobjs s)); reflexivity.
Qed.

Theorem objs_change_only_by (s : state) (o : op) (k : N) :
  tok_objs (fst (step s o)) k = tok_objs s k \/ obj_event s o.
Proof.
  destruct (objs_change_only_by_tok s o k) as [H|H]; [left; exact H|right; eapply obj_event_on_event; exact H].
Qed.

(* in particular: logins, logouts, PIN changes, opening and closing sessions, searches, reads and
   restarts leave every token object of every token with identical attribute values *)
Corollary non_obj_op_keeps_objs (s : state) (o : op) (k : N) :
  obj_op o = false -> tok_objs (fst (step s o)) k = tok_objs s k.
Proof.
  intros Ho. destruct (objs_change_only_by s o k) as [H|[H _]]; [exact H|congruence].
Qed.

(* and so does any failing call *)
Corollary failed_call_keeps_objs (s : state) (o : op) (k : N) :
  res_ok (snd (step s o)) = false -> tok_objs (fst (step s o)) k = tok_objs s k.
Proof.
  intros Ho. destruct (objs_change_only_by s o k) as [H|[_ H]]; [exact H|congruence].
Qed.

(* ---- 3. over a history ------------------------------------------------------------------------------- *)
Fixpoint no_obj_event (s : state) (ops : list op) : Prop :=
  match ops with
  | [] => True
  | o :: r => ~ obj_event s o /\ no_obj_event (fst (step s o)) r
  end.

Theorem persist_trace (ops : list op) : forall (s : state) (k : N),
  no_obj_event s ops -> tok_objs (exec s ops) k = tok_objs s k.
Proof.
  unfold exec. induction ops as [|o r IH]; intros s k H; cbn [fold_left]; [reflexivity|].
  destruct H as [H1 H2]. rewrite IH by exact H2.
  destruct (objs_change_only_by s o k) as [E|E]; [exact E|contradiction].
Qed.

(* per token: only events on token k matter for the objects of token k *)
Fixpoint no_obj_event_on (s : state) (ops : list op) (k : N) : Prop :=
  match ops with
  | [] => True
  | o :: r => ~ obj_event_on s o k /\ no_obj_event_on (fst (step s o)) r k
  end.

Theorem persist_trace_tok (ops : list op) : forall (s : state) (k : N),
  no_obj_event_on s ops k -> tok_objs (exec s ops) k = tok_objs s k.
Proof.
  unfold exec. induction ops as [|o r IH]; intros s k H; cbn [fold_left]; [reflexivity|].
  destruct H as [H1 H2]. rewrite IH by exact H2.
  destruct (objs_change_only_by_tok s o k) as [E|E]; [exact E|contradiction].
Qed.

(* a syntactic sufficient condition: no object-changing operation in the list at all *)
Corollary persist_trace_syntactic (ops : list op) (s : state) (k : N) :
  forallb (fun o => negb (obj_op o)) ops = true -> tok_objs (exec s ops) k = tok_objs s k.
Proof.
  intros H. apply persist_trace. revert s. induction ops as [|o r IH]; intros s; cbn; [exact I|].
  cbn in H. apply andb_true_iff in H. destruct H as [H1 H2]. split; [|apply IH; exact H2].
  intros [Ho _]. rewrite Ho in H1. discriminate.
Qed.

(* ---- 4. object ids: fresh, unique, never reused -------------------------------------------------- *)
Definition tok_oids (ts : list (N * token)) : list N := flat_map (fun p => akeys (t_objs (snd p))) ts.
(* all object ids occurring in any token's objects or in the session object store *)
Definition oids (s : state) : list N := tok_oids (st_tokens s) ++ akeys (st_sobjs s).

Definition inv_oid (s : state) : Prop := forall i, In i (oids s) -> i < st_next_oid s.
Definition inv_uniq (s : state) : Prop := NoDup (oids s).

(* counting occurrences *)
Definition cnt (l : list N) (i : N) : nat := count_occ N.eq_dec l i.
Definition cnts (s : state) (i : N) : nat := cnt (oids s) i.

Lemma cnt_app l m i : cnt (l ++ m) i = (cnt l i + cnt m i)%nat.
Proof. apply count_occ_app. Qed.

Lemma cnt_In l i : In i l <-> (0 < cnt l i)%nat.
Proof. unfold cnt. rewrite (count_occ_In N.eq_dec). lia. Qed.

Lemma cnt_cons a l i : cnt (a :: l) i = ((if a =? i then 1 else 0) + cnt l i)%nat.
Proof.
  unfold cnt. cbn. destruct (N.eq_dec a i) as [E|E].
  - subst. rewrite N.eqb_refl. reflexivity.
  - rewrite (neq_eqb_false a i E). reflexivity.
Qed.

Lemma cnt_keys_filter {A} (f : N * A -> bool) l i : (cnt (akeys (filter f l)) i <= cnt (akeys l) i)%nat.
Proof.
  unfold akeys. induction l as [|[k v] r IH]; cbn [filter map]; [lia|].
  destruct (f (k, v)); cbn [map fst]; rewrite ?cnt_cons; lia.
Qed.

Lemma cnt_keys_aremove {A} (l : list (N * A)) k : cnt (akeys (aremove k l)) k = 0%nat.
Proof.
  unfold aremove, akeys. induction l as [|[k' v] r IH]; cbn [filter map fst negb]; [reflexivity|].
  destruct (k' =? k) eqn:E; cbn [negb map fst]; [exact IH|]. rewrite cnt_cons, E. exact IH.
Qed.

Lemma cnt_keys_snoc {A} (l : list (N * A)) k v i :
  cnt (akeys (l ++ [(k, v)])) i = (cnt (akeys l) i + (if k =? i then 1 else 0))%nat.
Proof. rewrite akeys_app, cnt_app. unfold akeys at 2. cbn [map fst]. rewrite cnt_cons. cbn. lia. Qed.

Lemma tok_oids_cons p ts : tok_oids (p :: ts) = akeys (t_objs (snd p)) ++ tok_oids ts.
Proof. reflexivity. Qed.
Lemma tok_oids_app a b : tok_oids (a ++ b) = tok_oids a ++ tok_oids b.
Proof. apply flat_map_app. Qed.

Lemma tok_oids_aset ts k t t' i : alookup k ts = Some t ->
  (cnt (tok_oids (aset k t' ts)) i + cnt (akeys (t_objs t)) i = cnt (tok_oids ts) i + cnt (akeys (t_objs t')) i)%nat.
Proof.
  induction ts as [|[k0 t0] r IH]; cbn [alookup aset]; [discriminate|].
  destruct (k0 =? k) eqn:E.
  - intros H. inversion H; subst. rewrite !tok_oids_cons, !cnt_app. cbn [snd]. lia.
  - intros H. rewrite !tok_oids_cons, !cnt_app. cbn [snd]. specialize (IH H). lia.
Qed.

Lemma tok_oids_map g ts : (forall t, t_objs (g t) = t_objs t) ->
  tok_oids (map (fun p => (fst p, g (snd p))) ts) = tok_oids ts.
Proof.
  intros Hg. induction ts as [|[k t] r IH]; [reflexivity|]. cbn [map]. rewrite !tok_oids_cons, IH. cbn [fst snd]. rewrite Hg. reflexivity.
Qed.

Lemma tok_oids_lookup ts k t i : alookup k ts = Some t -> In i (akeys (t_objs t)) -> In i (tok_oids ts).
Proof.
  intros H Hi. apply alookup_In in H. unfold tok_oids. apply in_flat_map. exists (k, t). auto.
Qed.

Lemma cnts_eq s i : cnts s i = (cnt (tok_oids (st_tokens s)) i + cnt (akeys (st_sobjs s)) i)%nat.
Proof. apply cnt_app. Qed.

(* no id gains an occurrence, the id counter stays *)
Definition oid_le (s s' : state) : Prop := st_next_oid s' = st_next_oid s /\ forall i, (cnts s' i <= cnts s i)%nat.
(* ... or exactly the next id gains one occurrence and the counter moves past it *)
Definition oid_grow (s s' : state) : Prop :=
  oid_le s s' \/
  (st_next_oid s' = st_next_oid s + 1 /\
   forall i, (cnts s' i <= cnts s i + (if i =? st_next_oid s then 1 else 0))%nat).

Lemma oid_le_refl s : oid_le s s.
Proof. split; [reflexivity|]. intros; lia. Qed.

Lemma oid_le_trans a b c : oid_le a b -> oid_le b c -> oid_le a c.
Proof. intros [E1 H1] [E2 H2]. split; [congruence|]. intros i. specialize (H1 i). specialize (H2 i). lia. Qed.

Lemma oid_le_gen s s' : st_next_oid s' = st_next_oid s ->
  (forall i, cnt (tok_oids (st_tokens s')) i <= cnt (tok_oids (st_tokens s)) i)%nat ->
  (forall i, cnt (akeys (st_sobjs s')) i <= cnt (akeys (st_sobjs s)) i)%nat -> oid_le s s'.
Proof. intros E H1 H2. split; [exact E|]. intros i. rewrite !cnts_eq. specialize (H1 i). specialize (H2 i). lia. Qed.

Lemma oid_le_same s s' :
  st_next_oid s' = st_next_oid s -> st_tokens s' = st_tokens s -> st_sobjs s' = st_sobjs s -> oid_le s s'.
Proof. intros E1 E2 E3. apply oid_le_gen; [exact E1| |]; intros i; rewrite ?E2, ?E3; lia. Qed.

Lemma tok_oids_lookup_le ts k t i : alookup k ts = Some t -> (cnt (akeys (t_objs t)) i <= cnt (tok_oids ts) i)%nat.
Proof.
  induction ts as [|[k0 t0] r IH]; cbn [alookup]; [discriminate|].
  rewrite tok_oids_cons, cnt_app. cbn [snd]. destruct (k0 =? k).
  - intros H. inversion H; subst. lia.
  - intros H. specialize (IH H). lia.
Qed.

Lemma tok_oids_upd s k f i :
  cnt (tok_oids (st_tokens (upd_token s k f))) i =
  match alookup k (st_tokens s) with
  | Some t => (cnt (tok_oids (st_tokens s)) i - cnt (akeys (t_objs t)) i + cnt (akeys (t_objs (f t))) i)%nat
  | None => cnt (tok_oids (st_tokens s)) i
  end.
Proof.
  unfold upd_token. destruct (alookup k (st_tokens s)) as [t|] eqn:E; [|reflexivity]. simp_state.
  pose proof (tok_oids_aset _ _ _ (f t) i E). pose proof (tok_oids_lookup_le _ _ _ i E). lia.
Qed.

Lemma tok_oids_upd_le s k f :
  (forall t, alookup k (st_tokens s) = Some t -> forall i, (cnt (akeys (t_objs (f t))) i <= cnt (akeys (t_objs t)) i)%nat) ->
  forall i, (cnt (tok_oids (st_tokens (upd_token s k f))) i <= cnt (tok_oids (st_tokens s)) i)%nat.
Proof.
  intros H i. rewrite tok_oids_upd. destruct (alookup k (st_tokens s)) as [t|] eqn:E; [|lia].
  specialize (H t eq_refl i). pose proof (tok_oids_lookup_le _ _ _ i E). lia.
Qed.

Lemma tok_oids_upd_frame s k f : (forall t, t_objs (f t) = t_objs t) ->
  forall i, (cnt (tok_oids (st_tokens (upd_token s k f))) i <= cnt (tok_oids (st_tokens s)) i)%nat.
Proof. intros Hf. apply tok_oids_upd_le. intros t _ i. rewrite Hf. lia. Qed.

Lemma add_obj_handle_next_oid s k ss p oid : st_next_oid (fst (add_obj_handle s k ss p oid)) = st_next_oid s.
Proof. unfold add_obj_handle. destruct (find_obj_handle s oid); reflexivity. Qed.

Lemma find_loop_next_oid tc pub k hs tm cands : forall s acc s' r,
  find_loop tc pub k hs tm cands s acc = Some (s', r) -> st_next_oid s' = st_next_oid s.
Proof.
  induction cands as [|[[oid istok] o] rest IH]; intros s acc s' r; cbn.
  - intros H. inversion H. reflexivity.
  - destruct (pub && o_private o); [apply IH|].
    destruct (match_template tc o tm) as [[|]|]; [|apply IH|discriminate].
    destruct (add_obj_handle s k (if o_token o then CK_INVALID_HANDLE else hs) (o_private o) oid) as [s1 h] eqn:E.
    intros H. apply IH in H. rewrite H.
    assert (E1 : s1 = fst (add_obj_handle s k (if o_token o then CK_INVALID_HANDLE else hs) (o_private o) oid)) by (rewrite E; reflexivity).
    subst s1. apply add_obj_handle_next_oid.
Qed.

Lemma get_object_tok s oh e k oid ob :
  get_object s oh = Some (e, LTok k oid, ob) ->
  exists t, alookup k (st_tokens s) = Some t /\ alookup oid (t_objs t) = Some ob.
Proof.
  unfold get_object. destruct (alookup oh (st_handles s)) as [e0|]; [|discriminate].
  repeat (break_match; try discriminate); intros H; inversion H; subst; eauto.
Qed.

Lemma oid_le_del_object s l : oid_le s (del_object s l).
Proof.
  apply oid_le_gen; [apply del_object_next_oid| |]; intros i; destruct l; cbn [del_object]; simp_state; rewrite ?upd_token_sobjs; try lia.
  - apply tok_oids_upd_le. intros t _ j. cbn [t_objs set_t_objs]. apply cnt_keys_filter.
  - apply cnt_keys_filter.
Qed.

Lemma oid_le_put_object s oh e l ob o : get_object s oh = Some (e, l, ob) -> oid_le s (put_object s l o).
Proof.
  intros Hg. apply oid_le_gen; [apply put_object_next_oid| |]; intros i; destruct l as [k oid|oid]; cbn [put_object].
  - apply tok_oids_upd_le. intros t Ht j. apply get_object_tok in Hg. destruct Hg as (t' & Ht' & Ho).
    rewrite Ht in Ht'. inversion Ht'; subst t'. cbn [t_objs set_t_objs]. erewrite akeys_aset_same by exact Ho. lia.
  - destruct (alookup oid (st_sobjs s)); simp_state; lia.
  - rewrite upd_token_sobjs. lia.
  - destruct (alookup oid (st_sobjs s)) as [so|] eqn:E; simp_state; [|lia]. erewrite akeys_aset_same by exact E. lia.
Qed.

Lemma oid_le_close_all s k : oid_le s (close_all s k).
Proof.
  apply oid_le_gen; [apply close_all_next_oid| |]; intros i.
  - unfold close_all. eapply PeanoNat.Nat.le_trans; [apply tok_oids_upd_frame; reflexivity|]. unfold purge_handles. simp_state. lia.
  - rewrite close_all_sobjs. apply cnt_keys_filter.
Qed.

Lemma oid_le_restart s b : oid_le s (restart s b).
Proof.
  apply oid_le_gen; [reflexivity| |]; intros i; unfold restart; simp_state.
  - rewrite (tok_oids_map (fun t => set_t_login t LNone)) by reflexivity. lia.
  - cbn. lia.
Qed.

Lemma oid_grow_new s s2 k ss p oid0 :
  st_next_oid s2 = st_next_oid s + 1 ->
  (forall i, (cnts s2 i <= cnts s i + (if i =? st_next_oid s then 1 else 0))%nat) ->
  oid_grow s (fst (add_obj_handle s2 k ss p oid0)).
Proof.
  intros E H. right. rewrite add_obj_handle_next_oid. split; [exact E|]. intros i.
  rewrite (cnts_eq (fst _)), add_obj_handle_tokens, add_obj_handle_sobjs, <- cnts_eq. apply H.
Qed.

Lemma cnts_new_tokobj s k o i :
  (cnts (upd_token (set_next_oid s (st_next_oid s + 1)) k (fun t => set_t_objs t (t_objs t ++ [(st_next_oid s, o)]))) i
   <= cnts s i + (if i =? st_next_oid s then 1 else 0))%nat.
Proof.
  rewrite !cnts_eq, upd_token_sobjs, tok_oids_upd. simp_state.
  destruct (alookup k (st_tokens s)) as [t|] eqn:E; [|lia]. cbn [t_objs set_t_objs]. rewrite cnt_keys_snoc.
  rewrite (N.eqb_sym i). pose proof (tok_oids_lookup_le _ _ _ i E). destruct (st_next_oid s =? i); lia.
Qed.

Lemma cnts_new_sobj s so i :
  (cnts (set_sobjs (set_next_oid s (st_next_oid s + 1)) (st_sobjs s ++ [(st_next_oid s, so)])) i
   <= cnts s i + (if i =? st_next_oid s then 1 else 0))%nat.
Proof. rewrite !cnts_eq. simp_state. rewrite cnt_keys_snoc, (N.eqb_sym i). destruct (st_next_oid s =? i); lia. Qed.

Theorem step_oid_grow (s : state) (o : op) : oid_grow s (fst (step s o)).
Proof.
  destruct o; unfold step; cbn [fst];
  repeat (first [break_match | break_let]; cbn [fst]); try (left; apply oid_le_refl).
  all: try match goal with H : add_handle _ _ = (_, _) |- _ => unfold add_handle in H; inversion H; subst; clear H end.
  all: try match goal with H : add_obj_handle ?a ?b ?c ?d ?e = (?s1, _) |- _ =>
         assert (E1 : s1 = fst (add_obj_handle a b c d e)) by (rewrite H; reflexivity); clear H; subst s1 end.
  all: try (left; apply oid_le_restart).
  all: try (left; apply oid_le_close_all).
  all: try (left; eapply oid_le_put_object; eassumption).
  all: try (left; apply oid_le_same; rewrite ?upd_session_next_oid, ?upd_session_tokens, ?upd_session_sobjs; reflexivity).
  all: try (left; apply oid_le_gen; [rewrite ?upd_token_next_oid; reflexivity|apply tok_oids_upd_frame; reflexivity|rewrite upd_token_sobjs; intros; lia]).
  - (* re-initialisation: the token's objects are dropped *)
    left. apply oid_le_gen; simp_state; [reflexivity| |intros; lia]. intros i.
    match goal with H : alookup n (st_tokens s) = Some ?t0 |- context [aset n ?t' _] => pose proof (tok_oids_aset _ _ _ t' i H) as Hc end.
    cbn [t_objs] in Hc. change (cnt (akeys (@nil (N * obj))) i) with 0%nat in Hc. lia.
  - (* fresh token without objects *)
    left. apply oid_le_gen; simp_state; [reflexivity| |intros; lia]. intros i.
    rewrite tok_oids_app, cnt_app. cbn [tok_oids flat_map snd t_objs]. change (cnt (akeys (@nil (N * obj)) ++ []) i) with 0%nat. lia.
  - (* close, other sessions remain *)
    left. apply oid_le_gen; unfold purge_handles; simp_state; [reflexivity|intros; lia|intros; apply cnt_keys_filter].
  - (* logout *)
    left. apply oid_le_gen; unfold purge_handles; simp_state;
      [rewrite upd_token_next_oid; reflexivity|apply tok_oids_upd_frame; reflexivity|intros i; rewrite upd_token_sobjs; apply cnt_keys_filter].
  - (* create *)
    destruct (negb (tmpl_bool CKA_TOKEN tm 0 =? 0)).
    + apply oid_grow_new; [rewrite upd_token_next_oid; reflexivity|intros i; apply cnts_new_tokobj].
    + change (st_sobjs (set_next_oid s (st_next_oid s + 1))) with (st_sobjs s).
      apply oid_grow_new; [reflexivity|intros i; apply cnts_new_sobj].
  - (* copy *)
    match goal with |- context [if ?c then upd_token _ _ _ else _] => destruct c end.
    + apply oid_grow_new; [rewrite upd_token_next_oid; reflexivity|intros i; apply cnts_new_tokobj].
    + change (st_sobjs (set_next_oid s (st_next_oid s + 1))) with (st_sobjs s).
      apply oid_grow_new; [reflexivity|intros i; apply cnts_new_sobj].
  - (* destroy *)
    left. eapply oid_le_trans; [|apply oid_le_del_object]. apply oid_le_same; reflexivity.
  - (* findinit *)
    match goal with H : find_loop _ _ _ _ _ _ _ _ = Some _ |- _ =>
      pose proof (find_loop_next_oid _ _ _ _ _ _ _ _ _ _ H) as F0; apply find_loop_frame in H; destruct H as (F1 & F2 & F3 & F4) end.
    left. apply oid_le_same; rewrite ?upd_session_next_oid, ?upd_session_tokens, ?upd_session_sobjs; assumption.
Qed.

(* the id counter never decreases — not even over a restart *)
Theorem next_oid_mono (s : state) (o : op) : st_next_oid s <= st_next_oid (fst (step s o)).
Proof. destruct (step_oid_grow s o) as [[E _]|[E _]]; rewrite E; lia. Qed.

Theorem exec_next_oid_mono (ops : list op) : forall s, st_next_oid s <= st_next_oid (exec s ops).
Proof.
  unfold exec. induction ops as [|o r IH]; intros s; cbn [fold_left]; [lia|].
  pose proof (next_oid_mono s o). specialize (IH (fst (step s o))). lia.
Qed.

Lemma restart_next_oid (s : state) (b : bool) : st_next_oid (restart s b) = st_next_oid s.
Proof. reflexivity. Qed.

(* an id present after a step was present before, or it is the id just issued *)
Lemma oid_grow_In s s' i :
  oid_grow s s' -> In i (oids s') -> In i (oids s) \/ (i = st_next_oid s /\ st_next_oid s' = st_next_oid s + 1).
Proof.
  intros [[E H]|[E H]] Hi; apply cnt_In in Hi; fold (cnts s' i) in Hi; specialize (H i).
  - left. apply cnt_In. fold (cnts s i). lia.
  - destruct (i =? st_next_oid s) eqn:Ei.
    + right. apply N.eqb_eq in Ei. auto.
    + left. apply cnt_In. fold (cnts s i). lia.
Qed.

Lemma inv_oid_init : inv_oid init_state.
Proof. intros i []. Qed.
Lemma inv_uniq_init : inv_uniq init_state.
Proof. constructor. Qed.

Theorem step_inv_oid (s : state) (o : op) : inv_oid s -> inv_oid (fst (step s o)).
Proof.
  intros Hinv i Hi. pose proof (next_oid_mono s o) as Hm.
  apply (oid_grow_In _ _ _ (step_oid_grow s o)) in Hi. destruct Hi as [Hi|[E1 E2]].
  - apply Hinv in Hi. lia.
  - rewrite E2. lia.
Qed.

Theorem step_inv_uniq (s : state) (o : op) : inv_oid s -> inv_uniq s -> inv_uniq (fst (step s o)).
Proof.
  unfold inv_uniq. intros Hinv Hu. rewrite (NoDup_count_occ N.eq_dec) in *. intros i.
  specialize (Hu i). fold (cnt (oids s) i) in Hu. fold (cnt (oids (fst (step s o))) i). fold (cnts s i) in Hu. fold (cnts (fst (step s o)) i).
  destruct (step_oid_grow s o) as [[_ H]|[_ H]]; specialize (H i); [lia|].
  destruct (i =? st_next_oid s) eqn:Ei; [|lia]. apply N.eqb_eq in Ei.
  assert (cnts s i = 0)%nat; [|lia].
  destruct (cnts s i) eqn:Ec; [reflexivity|]. exfalso.
  assert (Hin : In i (oids s)) by (apply cnt_In; fold (cnts s i); lia). apply Hinv in Hin. lia.
Qed.

Definition inv_oids (s : state) : Prop := inv_oid s /\ inv_uniq s.

Theorem exec_inv_oids (ops : list op) : forall s, inv_oids s -> inv_oids (exec s ops).
Proof.
  unfold exec. induction ops as [|o r IH]; intros s [H1 H2]; cbn [fold_left]; [split; assumption|].
  apply IH. split; [apply step_inv_oid; exact H1|apply step_inv_uniq; assumption].
Qed.

Theorem inv_oids_reachable (ops : list op) : inv_oids (exec init_state ops).
Proof. apply exec_inv_oids. split; [apply inv_oid_init|apply inv_uniq_init]. Qed.

(* an id below the counter that is absent stays absent (and below the counter): no invariant needed *)
Lemma absent_step (s : state) (o : op) (i : N) :
  i < st_next_oid s -> ~ In i (oids s) ->
  i < st_next_oid (fst (step s o)) /\ ~ In i (oids (fst (step s o))).
Proof.
  intros Hlt Hn. pose proof (next_oid_mono s o). split; [lia|]. intros Hi.
  apply (oid_grow_In _ _ _ (step_oid_grow s o)) in Hi. destruct Hi as [Hi|[E _]]; [contradiction|lia].
Qed.

Theorem absent_never_reappears (ops : list op) : forall (s : state) (i : N),
  i < st_next_oid s -> ~ In i (oids s) -> ~ In i (oids (exec s ops)).
Proof.
  unfold exec. induction ops as [|o r IH]; intros s i Hlt Hn; cbn [fold_left]; [exact Hn|].
  destruct (absent_step s o i Hlt Hn) as [H1 H2]. apply IH; assumption.
Qed.

Theorem destroyed_never_reappears (s : state) (i : N) :
  inv_oid s -> i < st_next_oid s -> ~ In i (oids s) -> forall ops, ~ In i (oids (exec s ops)).
Proof. intros _ Hlt Hn ops. apply absent_never_reappears; assumption. Qed.

(* every id ever present is below the counter, so: once gone, gone for ever *)
Corollary gone_is_gone (ops1 ops2 ops3 : list op) (i : N) :
  let s1 := exec init_state ops1 in
  let s2 := exec s1 ops2 in
  In i (oids s1) -> ~ In i (oids s2) -> ~ In i (oids (exec s2 ops3)).
Proof.
  intros s1 s2 H1 H2. apply absent_never_reappears; [|exact H2].
  destruct (inv_oids_reachable ops1) as [Hinv _]. apply Hinv in H1. fold s1 in H1.
  pose proof (exec_next_oid_mono ops2 s1). fold s2 in H. lia.
Qed.

(* C_DestroyObject removes the id of the object it destroys from all stores *)
Definition loc_oid (l : oloc) : N := match l with LTok _ oid => oid | LSess oid => oid end.

Lemma lookup_cnt {A} (l : list (N * A)) k v : alookup k l = Some v -> (1 <= cnt (akeys l) k)%nat.
Proof. intros H. apply alookup_keys in H. apply cnt_In in H. lia. Qed.

Lemma get_object_oid_In s oh e l ob : get_object s oh = Some (e, l, ob) -> In (loc_oid l) (oids s).
Proof.
  intros H. unfold oids. apply in_or_app. destruct l as [k oid|oid]; cbn [loc_oid].
  - left. apply get_object_tok in H. destruct H as (t & Ht & Ho). eapply tok_oids_lookup; [exact Ht|]. eapply alookup_keys. exact Ho.
  - right. apply get_object_sess in H. destruct H as [so Hso]. eapply alookup_keys. exact Hso.
Qed.

Lemma del_object_removes s s1 oh e l ob :
  inv_uniq s -> get_object s oh = Some (e, l, ob) -> st_tokens s1 = st_tokens s -> st_sobjs s1 = st_sobjs s ->
  ~ In (loc_oid l) (oids (del_object s1 l)).
Proof.
  unfold inv_uniq. intros Hu Hg E1 E2 Hin. rewrite (NoDup_count_occ N.eq_dec) in Hu. specialize (Hu (loc_oid l)).
  fold (cnt (oids s) (loc_oid l)) in Hu. fold (cnts s (loc_oid l)) in Hu. rewrite cnts_eq in Hu.
  apply cnt_In in Hin. fold (cnts (del_object s1 l) (loc_oid l)) in Hin. rewrite cnts_eq in Hin.
  destruct l as [k oid|oid]; cbn [loc_oid del_object] in *.
  - apply get_object_tok in Hg. destruct Hg as (t & Ht & Ho). apply lookup_cnt in Ho.
    pose proof (tok_oids_lookup_le _ _ _ oid Ht).
    rewrite upd_token_sobjs, tok_oids_upd, E1, E2, Ht in Hin. cbn [t_objs set_t_objs] in Hin. rewrite cnt_keys_aremove in Hin. lia.
  - apply get_object_sess in Hg. destruct Hg as [so Hso]. apply lookup_cnt in Hso. simp_state.
    rewrite cnt_keys_aremove, E1 in Hin. lia.
Qed.

Theorem destroy_removes_oid (s : state) (h oh : N) e l ob :
  inv_uniq s -> get_object s oh = Some (e, l, ob) -> snd (step s (ODestroy h oh)) = RRv CKR_OK ->
  In (loc_oid l) (oids s) /\ ~ In (loc_oid l) (oids (fst (step s (ODestroy h oh)))).
Proof.
  intros Hu Hg Hok. split; [eapply get_object_oid_In; exact Hg|]. revert Hok.
  unfold step. repeat (first [break_match | break_let]; cbn [fst snd]); try discriminate.
  - intros H. inversion H as [H1]. rewrite H1 in *. cbn in *. discriminate.
  - intros _. inversion Hg; subst. eapply del_object_removes; [exact Hu|eassumption|reflexivity|reflexivity].
Qed.

(* ... for ever, in a reachable state *)
Corollary destroyed_object_never_reappears (ops0 : list op) (h oh : N) e l ob :
  let s := exec init_state ops0 in
  get_object s oh = Some (e, l, ob) -> snd (step s (ODestroy h oh)) = RRv CKR_OK ->
  forall ops, ~ In (loc_oid l) (oids (exec (fst (step s (ODestroy h oh))) ops)).
Proof.
  intros s Hg Hok ops. destruct (inv_oids_reachable ops0) as [Hinv Hu]. fold s in Hinv, Hu.
  destruct (destroy_removes_oid s h oh e l ob Hu Hg Hok) as [Hin Hout].
  apply absent_never_reappears; [|exact Hout]. apply Hinv in Hin. pose proof (next_oid_mono s (ODestroy h oh)). lia.
Qed.

(* an absent id denotes no object: no handle resolves to it *)
Lemma absent_oid_no_object s oh e l ob : get_object s oh = Some (e, l, ob) -> ~ In (loc_oid l) (oids s) -> False.
Proof. intros H Hn. apply Hn. eapply get_object_oid_In. exact H. Qed.

(* ---- 5. session objects die with their session ------------------------------------------------------ *)
(* closing a session: none of its session objects, no handle of an object it owns, and not its own
   handle is left.  When it was the last session of its token the code drops everything of the token;
   that this covers the session's own objects is the linkage invariant [inv_tok] (TokenFacts.v), true in
   every reachable state. *)
Theorem close_kills_session_objects (s : state) (h : N) (x : session) :
  inv_tok s -> st_init s = true -> get_session s h = Some x ->
  let s' := fst (step s (OClose h)) in
  (forall p, In p (st_sobjs s') -> so_sess (snd p) <> h) /\
  (forall p, In p (st_handles s') -> fst p <> h /\ (h_kind (snd p) = CKH_OBJECT -> h_sess (snd p) <> h)) /\
  get_session s' h = None.
Proof.
  intros Hinv Hi Hx. cbv zeta. unfold step. rewrite Hi. cbn [negb]. cbv iota. rewrite Hx.
  assert (Hgs : forall s1, (forall p, In p (st_handles s1) -> fst p <> h) -> get_session s1 h = None).
  { intros s1 H. unfold get_session. destruct (alookup h (st_handles s1)) as [e|] eqn:E; [|reflexivity].
    apply alookup_In in E. apply H in E. cbn in E. congruence. }
  destruct (other_session_on s (s_tok x) h) eqn:Eo; cbn [fst].
  - unfold purge_handles. simp_state.
    assert (Hh : forall p, In p (filter (fun p : N * hentry => negb ((fst p =? h) || (h_kind (snd p) =? CKH_OBJECT) && (h_sess (snd p) =? h))) (st_handles s)) ->
                 fst p <> h /\ (h_kind (snd p) = CKH_OBJECT -> h_sess (snd p) <> h)).
    { intros [i e] Hp. apply filter_In in Hp. destruct Hp as [Hin Hp]. cbn [fst snd] in *.
      apply negb_true_iff, orb_false_iff in Hp. destruct Hp as [Hp1 Hp2]. apply N.eqb_neq in Hp1. split; [exact Hp1|].
      intros Ek Es. rewrite Ek, Es, !N.eqb_refl in Hp2. discriminate. }
    split; [|split; [exact Hh|]].
    + intros p Hp. apply filter_In in Hp. destruct Hp as [_ Hp]. apply negb_true_iff, N.eqb_neq in Hp. exact Hp.
    + apply Hgs. simp_state. intros p Hp. apply Hh in Hp. tauto.
  - assert (Hh : forall p, In p (st_handles (close_all s (s_tok x))) ->
                 fst p <> h /\ (h_kind (snd p) = CKH_OBJECT -> h_sess (snd p) <> h)).
    { destruct (close_all_handles s (s_tok x)) as [E _]. rewrite E. intros [i e] Hp. apply filter_In in Hp.
      destruct Hp as [Hin Hp]. cbn [fst snd] in *. apply negb_true_iff, N.eqb_neq in Hp. split.
      - intro Ei. subst i. apply Hp. eapply inv_session_handle; eauto.
      - intros _ Es. apply Hp. eapply inv_owned_handle; eauto. }
    split; [|split; [exact Hh|]].
    + rewrite close_all_sobjs. intros [i so] Hp. apply filter_In in Hp. destruct Hp as [Hin Hp]. cbn [fst snd] in *.
      apply negb_true_iff, N.eqb_neq in Hp. intro Es. apply Hp. eapply inv_owned_sobj; eauto.
    + apply Hgs. intros p Hp. apply Hh in Hp. tauto.
Qed.

(* C_CloseAllSessions: no session object, session or handle of that token is left; nobody logged in *)
Theorem closeall_kills_session_objects (s : state) (k : N) :
  st_init s = true -> amem k (st_tokens s) = true ->
  let s' := fst (step s (OCloseAll (TTok k))) in
  (forall p, In p (st_sobjs s') -> so_tok (snd p) <> k) /\
  (forall p, In p (st_sessions s') -> s_tok (snd p) <> k) /\
  (forall p, In p (st_handles s') -> h_tok (snd p) <> k) /\
  tok_login s' k = LNone /\
  (forall k', tok_objs s' k' = tok_objs s k').
Proof.
  intros Hi Hk. cbv zeta. unfold step. rewrite Hi. cbn [negb resolve]. cbv iota. rewrite Hk. cbn [fst].
  destruct (close_all_handles s k) as [E _]. rewrite E, close_all_sobjs, close_all_sessions.
  repeat split; try (intros p Hp; apply filter_In in Hp; destruct Hp as [_ Hp]; apply negb_true_iff, N.eqb_neq in Hp; exact Hp).
  - rewrite close_all_login, N.eqb_refl. reflexivity.
  - intros k'. apply tok_objs_close_all.
Qed.

(* a restart (C_Finalize, C_Initialize of a fresh library instance, a new process): no session object
   at all is left, while every token object is (restart_keeps_objs) *)
Theorem restart_kills_session_objects (s : state) (b : bool) :
  st_sobjs (restart s b) = [] /\ st_sessions (restart s b) = [] /\ st_handles (restart s b) = [] /\
  forall k, tok_objs (restart s b) k = tok_objs s k.
Proof. repeat split. intros k. apply restart_keeps_objs. Qed.

Theorem restart_ops_kill_session_objects (s : state) (o : op) :
  is_restart o = true -> rv_of (snd (step s o)) = Some CKR_OK ->
  st_sobjs (fst (step s o)) = [] /\ forall k, tok_objs (fst (step s o)) k = tok_objs s k.
Proof.
  destruct o; try discriminate; intros _; unfold step; destruct (st_init s); cbn [fst snd rv_of]; intros H;
    try (split; [reflexivity|intros k; apply restart_keeps_objs]); try discriminate H.
Qed.

Theorem session_objects_die (s : state) :
  (forall h x, inv_tok s -> st_init s = true -> get_session s h = Some x ->
     forall p, In p (st_sobjs (fst (step s (OClose h)))) -> so_sess (snd p) <> h) /\
  (forall k, st_init s = true -> amem k (st_tokens s) = true ->
     forall p, In p (st_sobjs (fst (step s (OCloseAll (TTok k))))) -> so_tok (snd p) <> k) /\
  (forall b, st_sobjs (restart s b) = []).
Proof.
  split; [|split].
  - intros h x Hinv Hi Hx. apply (close_kills_session_objects s h x Hinv Hi Hx).
  - intros k Hi Hk. apply (closeall_kills_session_objects s k Hi Hk).
  - reflexivity.
Qed.

Corollary session_objects_die_reachable (ops : list op) (h : N) (x : session) :
  let s := exec init_state ops in
  st_init s = true -> get_session s h = Some x ->
  forall p, In p (st_sobjs (fst (step s (OClose h)))) -> so_sess (snd p) <> h.
Proof. intros s Hi Hx. apply (close_kills_session_objects s h x (inv_tok_reachable ops) Hi Hx). Qed.

(* ---- 6. a concrete history ----------------------------------------------------------------------------- *)
Definition per_pin : bytes := [49; 50; 51; 52].
Definition per_tmpl (tok : N) (v : bytes) : template :=
  [mkT CKA_CLASS (Some (le_encode 8 CKO_DATA)) 8; mkT CKA_TOKEN (Some [tok]) 1; mkT CKA_PRIVATE (Some [0]) 1;
   mkT CKA_VALUE (Some v) (blen v)].
(* a token, a R/W session (handle 1), token objects A (id 1, handle 2) and B (id 2, handle 3), a session object C (id 3, handle 4) *)
Definition per_ops1 : list op :=
  [OInit; OInitToken TFree (Some per_pin) 0; OOpen (TTok 0) 6;
   OCreate 1 (per_tmpl 1 [10; 11]); OCreate 1 (per_tmpl 1 [20; 21; 22]); OCreate 1 (per_tmpl 0 [30])].
(* destroy A, restart the library *)
Definition per_ops2 : list op := [ODestroy 1 2; OFini; OInit].
(* open a session again and create another token object *)
Definition per_ops3 : list op := [OOpen (TTok 0) 6; OCreate 1 (per_tmpl 1 [40])].

Example persist_example :
  let s1 := exec init_state per_ops1 in
  let s2 := exec s1 per_ops2 in
  let s3 := exec s2 per_ops3 in
  run init_state per_ops1 = [RRv CKR_OK; RRv CKR_OK; RHandle 1; RHandle 2; RHandle 3; RHandle 4] /\
  run s1 per_ops2 = [RRv CKR_OK; RRv CKR_OK; RRv CKR_OK] /\
  run s2 per_ops3 = [RHandle 1; RHandle 2] /\
  oids s1 = [1; 2; 3] /\ oids s2 = [2] /\ oids s3 = [2; 4] /\
  (exists a b, tok_objs s1 0 = Some [(1, a); (2, b)] /\
               (* A is gone, B is there with identical attribute values, the session object C is gone *)
               tok_objs s2 0 = Some [(2, b)] /\ st_sobjs s2 = [] /\
               alookup CKA_VALUE b = Some (ABytes None [20; 21; 22]) /\
               (* the new object got a new id, not the one of A *)
               exists c, tok_objs s3 0 = Some [(2, b); (4, c)]) /\
  (* and by the theorem: whatever happens next, id 1 never denotes an object again *)
  (forall ops, ~ In 1 (oids (exec s3 ops))).
Proof.
  cbv zeta. repeat (split; [vm_compute; reflexivity|]). split.
  - vm_compute. do 2 eexists. repeat (split; [reflexivity|]). eexists. reflexivity.
  - intros ops. apply absent_never_reappears; [vm_compute; reflexivity|]. vm_compute. intros [H|[H|[]]]; discriminate.
Qed.
