(* P11/ExtractFacts.v — extractObjectInformation (SoftHSM.cpp), regenerated whole (gen/Gen_Ops.v, effect mode: the final
   values of its reference parameters are reported as effects).  It decides with which CKA_PRIVATE / CKA_TOKEN the access
   check of C_CreateObject is made.  The scan of the template is a loop and is havoc'ed: after it the five out-parameters
   and the four `bHas*` flags are arbitrary values (`hv1_*`).  (C01) *)
From Coq Require Import List NArith Bool.
From SoftHSM Require Import Gen_Const Gen_Ops.
Import ListNotations.
Local Open Scope N_scope.

Definition OUT_CLASS : N := 18446744073709551600.
Definition OUT_TOKEN : N := 18446744073709551597.
Definition OUT_PRIVATE : N := 18446744073709551596.

(* The privacy handed to the access check is the template's (or the caller's default, true) - EXCEPT that without a
   CKA_PRIVATE in the template it is lowered to false for certificates and public keys, and for nothing else. *)
Theorem extract_private (e : extractObjectInformation.env) (v : N) :
  fst (extractObjectInformation.app e) = CKR_OK ->
  In (OUT_PRIVATE, v) (snd (extractObjectInformation.app e)) ->
  let cls := extractObjectInformation.hv1_objClass e in
  v = if negb (extractObjectInformation.bImplicit e) && ((cls =? CKO_CERTIFICATE) || (cls =? CKO_PUBLIC_KEY)) && negb (extractObjectInformation.hv1_bHasPrivate e)
      then 0 else extractObjectInformation.hv1_isPrivate e.
Proof.
  destruct e. cbn [extractObjectInformation.hv1_objClass extractObjectInformation.bImplicit extractObjectInformation.hv1_bHasPrivate extractObjectInformation.hv1_isPrivate].
  extractObjectInformation.open_env. cbv [CKR_OK CKO_CERTIFICATE CKO_PUBLIC_KEY OUT_PRIVATE].
  destruct bImplicit, hv1_bHasPrivate, hv1_bHasClass, hv1_bHasKeyType, hv1_bHasCertType;
    destruct (hv1_objClass =? 1) eqn:E1; destruct (hv1_objClass =? 2) eqn:E2; destruct (hv1_objClass =? 3) eqn:E3; destruct (hv1_objClass =? 4) eqn:E4;
    cbn [fst snd In negb andb orb]; intros Hrv Hin; try discriminate Hrv;
    repeat (destruct Hin as [Hin|Hin]; [try discriminate Hin; try (injection Hin as Hin; subst; try reflexivity) | ]); try contradiction;
    try (exfalso; repeat match goal with H : (_ =? _) = true |- _ => apply N.eqb_eq in H end; congruence).
Qed.

(* the storage flag is never touched after the scan, and a template without CKA_CLASS is refused unless the caller said
   `implicit` (C_CopyObject, C_SetAttributeValue use it that way) *)
Theorem extract_token (e : extractObjectInformation.env) (v : N) :
  In (OUT_TOKEN, v) (snd (extractObjectInformation.app e)) -> v = extractObjectInformation.hv1_isOnToken e.
Proof.
  destruct e. cbn [extractObjectInformation.hv1_isOnToken]. extractObjectInformation.open_env. cbv [OUT_TOKEN].
  repeat match goal with |- context [if ?c then _ else _] => destruct c eqn:? end; cbn [fst snd In];
    intros Hin; repeat (destruct Hin as [Hin|Hin]; [try discriminate Hin; try (injection Hin as Hin; subst; try reflexivity) | ]); contradiction.
Qed.

Theorem extract_needs_class (e : extractObjectInformation.env) :
  fst (extractObjectInformation.app e) = CKR_OK -> extractObjectInformation.bImplicit e = false ->
  extractObjectInformation.hv1_bHasClass e = true.
Proof.
  destruct e. cbn [extractObjectInformation.bImplicit extractObjectInformation.hv1_bHasClass]. extractObjectInformation.open_env. cbv [CKR_OK].
  repeat match goal with |- context [if ?c then _ else _] => destruct c eqn:? end; cbn [fst]; intros Hrv Hi; try discriminate; try reflexivity;
    destruct hv1_bHasClass; try reflexivity; discriminate.
Qed.
