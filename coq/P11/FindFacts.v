(* P11/FindFacts.v — object search is sound and complete (C19): what C_FindObjectsInit captures, and how
   C_FindObjects hands it out. *)
From Coq Require Import List NArith Bool Lia Sorted.
From SoftHSM Require Import Gen_Const Gen_Pure Defs Core AssocFacts AccessFacts StepFacts Invariants HandleFacts.
Import ListNotations.
Local Open Scope N_scope.

(* ---- insert_sorted: a strictly ascending, duplicate-free list (std::set) -------------------------- *)
Lemma insert_sorted_In x l h : In h (insert_sorted x l) <-> h = x \/ In h l.
Proof.
  induction l as [|y r IH]; cbn; [intuition|].
  destruct (x <? y) eqn:E1; cbn; [intuition|].
  destruct (x =? y) eqn:E2; cbn.
  - apply N.eqb_eq in E2. subst. intuition.
  - rewrite IH. intuition.
Qed.

Definition ascending (l : list N) : Prop := StronglySorted N.lt l.

Lemma insert_sorted_ascending x l : ascending l -> ascending (insert_sorted x l).
Proof.
  unfold ascending. induction l as [|y r IH]; cbn; intros H.
  - constructor; constructor.
  - inversion H as [|? ? Hs Hf]; subst.
    destruct (x <? y) eqn:E1.
    + apply N.ltb_lt in E1. constructor; [exact H|]. constructor; [exact E1|].
      eapply Forall_impl; [|exact Hf]. intros; lia.
    + destruct (x =? y) eqn:E2; [exact H|].
      apply N.ltb_ge in E1. apply N.eqb_neq in E2.
      constructor; [apply IH; exact Hs|].
      apply Forall_forall. intros z Hz. apply insert_sorted_In in Hz. destruct Hz as [->|Hz]; [lia|].
      rewrite Forall_forall in Hf. apply Hf. exact Hz.
Qed.

Lemma ascending_NoDup l : ascending l -> NoDup l.
Proof.
  unfold ascending. induction 1 as [|x l Hs IH Hf]; constructor; [|exact IH].
  intro Hin. rewrite Forall_forall in Hf. apply Hf in Hin. lia.
Qed.

(* ---- find_obj_handle under add_obj_handle ---------------------------------------------------------- *)
Lemma find_obj_handle_app s l oid :
  find_obj_handle (set_handles s (st_handles s ++ l)) oid =
  match find_obj_handle s oid with
  | Some h => Some h
  | None => match filter (fun p => (h_kind (snd p) =? CKH_OBJECT) && (h_oid (snd p) =? oid)) l with (h, _) :: _ => Some h | [] => None end
  end.
Proof.
  unfold find_obj_handle. simp_state. rewrite filter_app.
  destruct (filter _ (st_handles s)) as [|[h e] r]; cbn; reflexivity.
Qed.

Lemma add_obj_handle_find s k ss p oid :
  find_obj_handle (fst (add_obj_handle s k ss p oid)) oid = Some (snd (add_obj_handle s k ss p oid)).
Proof.
  unfold add_obj_handle. destruct (find_obj_handle s oid) eqn:E; cbn [fst snd]; [exact E|].
  unfold add_handle. cbn [fst snd].
  change (find_obj_handle (set_counter (set_handles s (st_handles s ++ [(st_counter s + 1, mkHandle CKH_OBJECT k ss p oid)])) (st_counter s + 1)) oid)
    with (find_obj_handle (set_handles s (st_handles s ++ [(st_counter s + 1, mkHandle CKH_OBJECT k ss p oid)])) oid).
  rewrite find_obj_handle_app, E. cbn. rewrite N.eqb_refl. reflexivity.
Qed.

Lemma add_obj_handle_find_other s k ss p oid oid' h :
  find_obj_handle s oid' = Some h -> find_obj_handle (fst (add_obj_handle s k ss p oid)) oid' = Some h.
Proof.
  intros H. unfold add_obj_handle. destruct (find_obj_handle s oid); cbn [fst]; [exact H|].
  unfold add_handle. cbn [fst].
  change (find_obj_handle (set_counter (set_handles s (st_handles s ++ [(st_counter s + 1, mkHandle CKH_OBJECT k ss p oid)])) (st_counter s + 1)) oid')
    with (find_obj_handle (set_handles s (st_handles s ++ [(st_counter s + 1, mkHandle CKH_OBJECT k ss p oid)])) oid').
  rewrite find_obj_handle_app, H. reflexivity.
Qed.

Lemma find_loop_keeps_handles tc pub k hs tm cands : forall s acc s' r oid h,
  find_loop tc pub k hs tm cands s acc = Some (s', r) -> find_obj_handle s oid = Some h -> find_obj_handle s' oid = Some h.
Proof.
  induction cands as [|[[oid0 istok] o] rest IH]; intros s acc s' r oid h; cbn.
  - intros H. inversion H. subst. auto.
  - destruct (pub && o_private o); [apply IH|].
    destruct (match_template tc o tm) as [[|]|]; [|apply IH|discriminate].
    destruct (add_obj_handle s k (if o_token o then CK_INVALID_HANDLE else hs) (o_private o) oid0) as [s1 h1] eqn:E.
    intros H Hf. eapply IH; [exact H|].
    assert (E1 : s1 = fst (add_obj_handle s k (if o_token o then CK_INVALID_HANDLE else hs) (o_private o) oid0)) by (rewrite E; reflexivity).
    subst s1. apply add_obj_handle_find_other. exact Hf.
Qed.

(* ---- what the search captures -------------------------------------------------------------------- *)
Definition cand_selected (tc : tctx) (pub : bool) (tm : template) (c : N * bool * obj) : bool :=
  negb (pub && o_private (snd c)) && match match_template tc (snd c) tm with Some true => true | _ => false end.

Lemma find_loop_spec tc pub k hs tm cands : forall s acc s' r,
  find_loop tc pub k hs tm cands s acc = Some (s', r) ->
  (forall h, In h r <-> In h acc \/ exists c, In c cands /\ cand_selected tc pub tm c = true /\ find_obj_handle s' (fst (fst c)) = Some h)
  /\ (ascending acc -> ascending r).
Proof.
  induction cands as [|[[oid istok] o] rest IH]; intros s acc s' r; cbn [find_loop].
  - intros H. inversion H. subst. split; [|auto]. intros h. split; [auto|]. intros [H1|[c [[] _]]]. exact H1.
  - destruct (pub && o_private o) eqn:Ev.
    { intros H. destruct (IH _ _ _ _ H) as [I1 I2]. split; [|exact I2]. intros h. rewrite I1. split.
      - intros [H1|[c [Hc1 Hc2]]]; [left; exact H1|right; exists c; split; [right; exact Hc1|exact Hc2]].
      - intros [H1|[c [[Hc|Hc] [Hc2 Hc3]]]]; [left; exact H1| |right; exists c; auto].
        subst c. unfold cand_selected in Hc2. cbn in Hc2. rewrite Ev in Hc2. discriminate. }
    destruct (match_template tc o tm) as [[|]|] eqn:Em; [| |discriminate].
    + destruct (add_obj_handle s k (if o_token o then CK_INVALID_HANDLE else hs) (o_private o) oid) as [s1 h1] eqn:E.
      assert (E1 : s1 = fst (add_obj_handle s k (if o_token o then CK_INVALID_HANDLE else hs) (o_private o) oid)) by (rewrite E; reflexivity).
      assert (E2 : h1 = snd (add_obj_handle s k (if o_token o then CK_INVALID_HANDLE else hs) (o_private o) oid)) by (rewrite E; reflexivity).
      intros H. destruct (IH _ _ _ _ H) as [I1 I2]. split.
      * intros h. rewrite I1, insert_sorted_In.
        assert (Hk : find_obj_handle s' oid = Some h1).
        { eapply find_loop_keeps_handles; [exact H|]. subst s1 h1. apply add_obj_handle_find. }
        split.
        -- intros [[->|H1]|[c [Hc1 Hc2]]].
           ++ right. exists (oid, istok, o). split; [left; reflexivity|]. split; [|exact Hk].
              unfold cand_selected. cbn. rewrite Ev, Em. reflexivity.
           ++ left. exact H1.
           ++ right. exists c. split; [right; exact Hc1|exact Hc2].
        -- intros [H1|[c [[Hc|Hc] [Hc2 Hc3]]]].
           ++ left. right. exact H1.
           ++ subst c. cbn in Hc3. left. left. congruence.
           ++ right. exists c. auto.
      * intros Ha. apply I2. apply insert_sorted_ascending. exact Ha.
    + intros H. destruct (IH _ _ _ _ H) as [I1 I2]. split; [|exact I2]. intros h. rewrite I1. split.
      * intros [H1|[c [Hc1 Hc2]]]; [left; exact H1|right; exists c; split; [right; exact Hc1|exact Hc2]].
      * intros [H1|[c [[Hc|Hc] [Hc2 Hc3]]]]; [left; exact H1| |right; exists c; auto].
        subst c. unfold cand_selected in Hc2. cbn in Hc2. rewrite Em in Hc2. rewrite andb_false_r in Hc2. discriminate.
Qed.

(* the oracle only permutes the candidates *)
Lemma insert_cand_In prio c l d : In d (insert_cand prio c l) <-> d = c \/ In d l.
Proof.
  induction l as [|e r IH]; cbn; [intuition|].
  match goal with |- context [if ?c then _ else _] => destruct c end; cbn; [intuition|]. rewrite IH. intuition.
Qed.
Lemma order_cands_In prio l d : In d (order_cands prio l) <-> In d l.
Proof.
  unfold order_cands. induction l as [|c r IH]; cbn; [reflexivity|]. rewrite insert_cand_In, IH. intuition.
Qed.

(* the session's captured set after a successful C_FindObjectsInit *)
Definition public_session (s : state) (x : session) : bool :=
  negb ((sess_state s x =? CKS_RO_USER_FUNCTIONS) || (sess_state s x =? CKS_RW_USER_FUNCTIONS)).

Theorem findinit_sound_complete (s : state) (h : N) (x : session) (tm : template) (prio : list bytes) :
  st_init s = true -> get_session s h = Some x ->
  snd (step s (OFindInit h tm prio)) = RRv CKR_OK ->
  let s' := fst (step s (OFindInit h tm prio)) in
  exists x', alookup h (st_sessions s') = Some x' /\ s_op x' = SESSION_OP_FIND /\ ascending (s_find x') /\
    forall oh, In oh (s_find x') <->
      exists c, In c (candidates s (s_tok x)) /\
                cand_selected (tctx_of s (s_tok x)) (public_session s x) tm c = true /\
                find_obj_handle s' (fst (fst c)) = Some oh.
Proof.
  intros Hi Hs. unfold step. rewrite Hi. cbn [negb]. cbv iota. rewrite Hs.
  destruct (negb (s_op x =? SESSION_OP_NONE)); [cbn; intros H; inversion H|].
  destruct (negb (forallb _ tm)); [cbn; discriminate|].
  fold (public_session s x).
  destruct (find_loop (tctx_of s (s_tok x)) (public_session s x) (s_tok x) h tm (order_cands prio (candidates s (s_tok x))) s []) as [[s1 hs]|] eqn:Ef;
    [|cbn; discriminate].
  cbn [fst snd]. intros _.
  destruct (find_loop_frame _ _ _ _ _ _ _ _ _ _ Ef) as (F1 & F2 & F3 & F4).
  destruct (find_loop_spec _ _ _ _ _ _ _ _ _ _ Ef) as [S1 S2].
  assert (Hx : alookup h (st_sessions s1) = Some x).
  { rewrite F1. unfold get_session in Hs. destruct (alookup h (st_handles s)); [|discriminate].
    destruct (h_kind h0 =? CKH_SESSION); [exact Hs|discriminate]. }
  exists (set_s_op x SESSION_OP_FIND hs). split.
  - unfold upd_session. rewrite Hx. simp_state. apply alookup_aset_eq.
  - cbn. split; [reflexivity|]. split; [apply S2; constructor|].
    intros oh. rewrite S1. unfold find_obj_handle, upd_session. rewrite Hx. simp_state. split.
    + intros [[]|[c [H1 H2]]]. exists c. split; [apply order_cands_In in H1; exact H1|exact H2].
    + intros [c [H1 H2]]. right. exists c. split; [apply order_cands_In; exact H1|exact H2].
Qed.

(* candidates are the objects of the session's own token only *)
Lemma candidates_own_token (s : state) (k oid : N) (istok : bool) (o : obj) :
  In (oid, istok, o) (candidates s k) ->
  (istok = true /\ exists t, alookup k (st_tokens s) = Some t /\ In (oid, o) (t_objs t)) \/
  (istok = false /\ exists so, In (oid, so) (st_sobjs s) /\ so_tok so = k /\ so_obj so = o).
Proof.
  unfold candidates. intros H. apply in_app_or in H. destruct H as [H|H].
  - left. destruct (alookup k (st_tokens s)) as [t|]; [|destruct H].
    apply in_map_iff in H. destruct H as [[a b] [H1 H2]]. inversion H1; subst. split; [reflexivity|]. exists t. auto.
  - right. apply in_map_iff in H. destruct H as [[a b] [H1 H2]]. inversion H1; subst. apply filter_In in H2. destruct H2 as [H2 H3].
    split; [reflexivity|]. exists b. apply N.eqb_eq in H3. auto.
Qed.

(* in a public or SO session no private object is captured *)
Lemma public_session_hides_private tc tm c : cand_selected tc true tm c = true -> o_private (snd c) = false.
Proof. unfold cand_selected. cbn. destruct (o_private (snd c)); [discriminate|reflexivity]. Qed.

Lemma public_session_iff s x : public_session s x = true <-> tok_login s (s_tok x) <> LUser.
Proof.
  unfold public_session. rewrite negb_true_iff. fold (is_user_state (sess_state s x)).
  rewrite <- sess_state_user. destruct (is_user_state (sess_state s x)); intuition congruence.
Qed.

(* an empty template matches every visible object *)
Lemma empty_template_matches tc pub c : cand_selected tc pub [] c = negb (pub && o_private (snd c)).
Proof. unfold cand_selected. cbn. apply andb_true_r. Qed.

(* ---- C_FindObjects: batches partition the captured list ------------------------------------------- *)
Fixpoint batches (sizes : list nat) (l : list N) : list (list N) :=
  match sizes with
  | [] => []
  | n :: r => take n l :: batches r (drop n l)
  end.

Lemma take_drop n l : take n l ++ drop n l = l.
Proof. revert l. induction n as [|n IH]; intros [|x r]; cbn; rewrite ?IH; reflexivity. Qed.

Lemma take_firstn n l : take n l = firstn n l.
Proof. revert l. induction n as [|n IH]; intros [|x r]; cbn; rewrite ?IH; reflexivity. Qed.
Lemma drop_skipn n l : drop n l = skipn n l.
Proof. revert l. induction n as [|n IH]; intros [|x r]; cbn; rewrite ?IH; reflexivity. Qed.

Theorem batches_partition sizes : forall l,
  concat (batches sizes l) = firstn (fold_right Nat.add 0%nat sizes) l.
Proof.
  induction sizes as [|n r IH]; intros l; cbn [batches concat fold_right]; [reflexivity|].
  rewrite IH, take_firstn, drop_skipn. revert l. induction n as [|n IHn]; intros l; cbn.
  - reflexivity.
  - destruct l as [|y t]; cbn; [rewrite firstn_nil; reflexivity|]. f_equal. apply IHn.
Qed.

(* each C_FindObjects call returns min(max, remaining) handles, the lowest remaining ones, and removes them *)
Theorem find_batch (s : state) (h mx : N) (x : session) :
  st_init s = true -> get_session s h = Some x -> alookup h (st_sessions s) = Some x -> s_op x = SESSION_OP_FIND ->
  let n := N.to_nat (N.min mx (N.of_nat (length (s_find x)))) in
  snd (step s (OFind h mx)) = RFound (take n (s_find x)) /\
  exists x', alookup h (st_sessions (fst (step s (OFind h mx)))) = Some x' /\ s_find x' = drop n (s_find x) /\ s_op x' = SESSION_OP_FIND.
Proof.
  intros Hi Hs Hx Hop. unfold step. rewrite Hi. cbn [negb]. cbv iota. rewrite Hs, Hop. cbn [negb N.eqb]. 
  replace (SESSION_OP_FIND =? SESSION_OP_FIND) with true by reflexivity. cbn [negb fst snd]. split; [reflexivity|].
  unfold upd_session. rewrite Hx. simp_state. eexists. split; [apply alookup_aset_eq|]. cbn. auto.
Qed.
