(* P11/CopyFacts.v — C_CopyObject (SoftHSM.cpp), regenerated whole in effect mode (gen/Gen_Ops.v): which privacy and which
   storage the copy gets.  The copy's CKA_PRIVATE / CKA_TOKEN are the source's unless the template says otherwise; after the
   scan of the template (extractObjectInformation, havoc'ed) they are `hv1_isPrivate` / `hv1_isOnToken`.  Everything that is
   done TO THE COPY must use those - the store it is created in, the encryption flag handed to saveTemplate, the kind and the
   privacy of the handle that is registered for it - and never the source's (`wasPrivate`, `wasOnToken`).  The theorems say
   so in the form of non-interference: the function's result and effects do not change when the callees are replaced by
   ones that ignore the flag they are given and use the copy's.  (C01, C05, C06, C11) *)
From Coq Require Import List NArith Bool.
From SoftHSM Require Import Gen_Const Gen_Ops.
Import ListNotations.
Local Open Scope N_scope.

Definition copy_private (e : C_CopyObject.env) : bool := negb (C_CopyObject.hv1_isPrivate e =? 0).
Definition copy_on_token (e : C_CopyObject.env) : bool := negb (C_CopyObject.hv1_isOnToken e =? 0).

(* every callee that is told a privacy is told the COPY's privacy *)
Theorem copy_uses_the_copys_privacy (e : C_CopyObject.env) :
  let pv := copy_private e in
  C_CopyObject.app e =
  C_CopyObject.app
    (C_CopyObject.set_newp11object_saveTemplate (fun tok _ t n op => C_CopyObject.newp11object_saveTemplate e tok pv t n op)
    (C_CopyObject.set_sessionObjectStore_createObject (fun sl h _ => C_CopyObject.sessionObjectStore_createObject e sl h pv)
    (C_CopyObject.set_handleManager_addTokenObject (fun sl _ o => C_CopyObject.handleManager_addTokenObject e sl pv o)
    (C_CopyObject.set_handleManager_addSessionObject (fun sl h _ o => C_CopyObject.handleManager_addSessionObject e sl h pv o) e)))).
Proof.
  destruct e. unfold copy_private.
  cbv beta iota zeta delta [C_CopyObject.app C_CopyObject.set_newp11object_saveTemplate C_CopyObject.set_sessionObjectStore_createObject
       C_CopyObject.set_handleManager_addTokenObject C_CopyObject.set_handleManager_addSessionObject
       C_CopyObject.handleManager_addSessionObject C_CopyObject.handleManager_addTokenObject C_CopyObject.handleManager_getObject C_CopyObject.handleManager_getSession
       C_CopyObject.haveRead C_CopyObject.haveWrite C_CopyObject.hv1_isOnToken C_CopyObject.hv1_isPrivate C_CopyObject.hv2_attrType C_CopyObject.hv2_rv
       C_CopyObject.hv4_newp11object C_CopyObject.newP11Object_at3 C_CopyObject.newobject_commitTransaction C_CopyObject.newobject_startTransaction
       C_CopyObject.newp11object_saveTemplate C_CopyObject.object_getBooleanValue C_CopyObject.object_isValid C_CopyObject.sessionObjectStore_createObject
       C_CopyObject.session_getSlot C_CopyObject.session_getState C_CopyObject.session_getToken C_CopyObject.slot_getSlotID C_CopyObject.this_isInitialised
       C_CopyObject.token_createObject C_CopyObject.hSession C_CopyObject.hObject C_CopyObject.pTemplate C_CopyObject.ulCount C_CopyObject.phNewObject].
  reflexivity.
Qed.

(* the store the copy is created in and the kind of handle it gets follow the COPY's CKA_TOKEN: with CKA_TOKEN true the
   session-object store and the session-object handle table are not involved at all, with CKA_TOKEN false the token is not *)
Theorem copy_uses_the_copys_storage (e : C_CopyObject.env) :
  C_CopyObject.app e =
  if copy_on_token e
  then C_CopyObject.app (C_CopyObject.set_sessionObjectStore_createObject (fun _ _ _ => 0) (C_CopyObject.set_handleManager_addSessionObject (fun _ _ _ _ => 0) e))
  else C_CopyObject.app (C_CopyObject.set_token_createObject 0 (C_CopyObject.set_handleManager_addTokenObject (fun _ _ _ => 0) e)).
Proof.
  destruct e. unfold copy_on_token.
  cbv beta iota zeta delta [C_CopyObject.app C_CopyObject.set_sessionObjectStore_createObject C_CopyObject.set_handleManager_addSessionObject
       C_CopyObject.set_token_createObject C_CopyObject.set_handleManager_addTokenObject
       C_CopyObject.handleManager_addSessionObject C_CopyObject.handleManager_addTokenObject C_CopyObject.handleManager_getObject C_CopyObject.handleManager_getSession
       C_CopyObject.haveRead C_CopyObject.haveWrite C_CopyObject.hv1_isOnToken C_CopyObject.hv1_isPrivate C_CopyObject.hv2_attrType C_CopyObject.hv2_rv
       C_CopyObject.hv4_newp11object C_CopyObject.newP11Object_at3 C_CopyObject.newobject_commitTransaction C_CopyObject.newobject_startTransaction
       C_CopyObject.newp11object_saveTemplate C_CopyObject.object_getBooleanValue C_CopyObject.object_isValid C_CopyObject.sessionObjectStore_createObject
       C_CopyObject.session_getSlot C_CopyObject.session_getState C_CopyObject.session_getToken C_CopyObject.slot_getSlotID C_CopyObject.this_isInitialised
       C_CopyObject.token_createObject C_CopyObject.hSession C_CopyObject.hObject C_CopyObject.pTemplate C_CopyObject.ulCount C_CopyObject.phNewObject].
  unfold gen_SoftHSM__C_CopyObject. destruct (hv1_isOnToken =? 0); cbn [negb]; reflexivity.
Qed.

(* the access decisions: the SOURCE must be readable in this session, the COPY writable; a private object is never copied to
   a public one; CKA_COPYABLE false forbids *)
Theorem copy_access (e : C_CopyObject.env) :
  fst (C_CopyObject.app e) = CKR_OK ->
  let ogb := C_CopyObject.object_getBooleanValue e in
  C_CopyObject.haveRead e (C_CopyObject.session_getState e) (ogb CKA_TOKEN false) (ogb CKA_PRIVATE true) = CKR_OK /\
  C_CopyObject.haveWrite e (C_CopyObject.session_getState e) (C_CopyObject.hv1_isOnToken e) (C_CopyObject.hv1_isPrivate e) = CKR_OK /\
  ogb CKA_COPYABLE true <> 0 /\
  (ogb CKA_PRIVATE true <> 0 -> C_CopyObject.hv1_isPrivate e <> 0).
Proof.
  destruct e. cbn [C_CopyObject.object_getBooleanValue C_CopyObject.haveRead C_CopyObject.haveWrite C_CopyObject.session_getState C_CopyObject.hv1_isOnToken C_CopyObject.hv1_isPrivate].
  C_CopyObject.open_env. cbv [CKR_OK CKA_TOKEN CKA_PRIVATE CKA_COPYABLE].
  repeat match goal with |- context [if ?c then _ else _] => destruct c eqn:? end; cbn [fst]; intros Hrv; try discriminate Hrv;
    repeat match goal with
           | H : negb _ = false |- _ => apply negb_false_iff in H
           | H : negb _ = true |- _ => apply negb_true_iff in H
           | H : (_ && _) = false |- _ => apply andb_false_iff in H
           | H : (_ =? _) = true |- _ => apply N.eqb_eq in H
           | H : (_ =? _) = false |- _ => apply N.eqb_neq in H
           end;
    try (exfalso; congruence);
    (split; [assumption|]); (split; [assumption|]); (split; [assumption|]);
    intros Hp; match goal with H : _ \/ _ |- _ => destruct H as [H|H]; [apply negb_false_iff in H; apply N.eqb_eq in H; congruence | apply negb_false_iff in H; apply negb_true_iff in H; apply N.eqb_neq in H; exact H] end.
Qed.
