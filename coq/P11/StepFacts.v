(* P11/StepFacts.v — per-step facts of the core model that hold in EVERY state (reachable or not). *)
From Coq Require Import List NArith Bool Lia.
From SoftHSM Require Import Gen_Const Gen_Pure Defs Core AccessFacts.
Import ListNotations.
Local Open Scope N_scope.

Ltac break_match :=
  match goal with
  | |- context [match ?x with _ => _ end] =>
      match type of x with
      | sumbool _ _ => destruct x
      | _ => destruct x eqn:?
      end
  | |- context [if ?x then _ else _] => destruct x eqn:?
  end.

Ltac break_let :=
  match goal with
  | |- context [let (_, _) := ?x in _] => destruct x eqn:?
  end.

(* a call that does not answer CKR_OK leaves the WHOLE model state as it was (C03 failure frame, C09) *)
Lemma fail_no_change (s : state) (o : op) (rv : N) :
  rv_of (snd (step s o)) = Some rv -> rv <> CKR_OK -> fst (step s o) = s.
Proof.
  intros Hrv Hne.
  revert Hrv.
  destruct o; unfold step; cbn [fst snd];
    repeat (first [break_match | break_let]; cbn [fst snd]); intros Hrv; try reflexivity;
    try (cbn [rv_of] in Hrv; discriminate Hrv);
    try (exfalso; cbn [rv_of] in Hrv; inversion Hrv; subst; apply Hne; reflexivity).
Qed.
