(* P11/EncFacts.v — private objects are encrypted at rest (C06, model level).

   Every NON-EMPTY byte-string attribute of an object whose CKA_PRIVATE is true is stored as a
   ciphertext [ABytes (Some key) _]; public objects hold clear byte strings [ABytes None _].

   UNDER WHICH KEY.  The wanted statement [inv_enc] says "under the master key of the token the object
   belongs to".  It is FALSE for the model (and the model mirrors the C++ here): C_SetAttributeValue
   and C_CopyObject take the Token of the SESSION for Token::encrypt and never compare it with the
   token that owns the object behind the handle, so a logged-in session of token A presenting a handle
   of a private object of token B stores a value encrypted under A's key inside B's object
   ([inv_enc_refuted_setattr]), or creates on A a copy whose values are still under B's key
   ([inv_enc_refuted_copy]).  What is proved instead:
     - [inv_enc_live_reachable], [private_never_plaintext]: in EVERY reachable state every non-empty
       byte string of a private object (token or session object) is a ciphertext under the master key
       of SOME existing token — never a clear value — and public objects are entirely clear;
     - [step_inv_enc], [inv_enc_trace], [inv_enc_same_token_reachable]: [inv_enc] itself ("the
       object's own token") is kept by every step whose session and object handle denote the same
       token ([same_token_op], the [handle_on] of TokenFacts.v), hence along every history all of
       whose handle-taking C_SetAttributeValue / C_CopyObject calls are of that kind;
     - [step_keeps_key], [exec_keeps_key], [key_stable_reachable]: the master key identity of an
       existing token never changes (PIN changes, re-initialisation, restarts, anything). *)
From Coq Require Import List NArith Bool Lia.
From SoftHSM Require Import Gen_Const Gen_Pure Defs Core AssocFacts AccessFacts AttrFacts StepFacts Invariants HandleFacts PinFacts TokenFacts.
Import ListNotations.
Local Open Scope N_scope.

(* ---- the wanted statement ------------------------------------------------------------------------------ *)
Definition attr_enc_ok (key : N) (a : osattr) : Prop :=
  match a with ABytes enc b => b = [] \/ enc = Some key | _ => True end.
Definition obj_enc_ok (key : N) (o : obj) : Prop :=
  o_private o = true -> forall t a, In (t, a) o -> attr_enc_ok key a.
Definition inv_enc (s : state) : Prop :=
  (forall k t oid o, alookup k (st_tokens s) = Some t -> In (oid, o) (t_objs t) -> obj_enc_ok (t_key t) o) /\
  (forall oid so t, In (oid, so) (st_sobjs s) -> alookup (so_tok so) (st_tokens s) = Some t -> obj_enc_ok (t_key t) (so_obj so)).

(* ---- the inductive form: a predicate on key identities, and clear storage of public objects ------ *)
Definition attr_enc (P : N -> Prop) (a : osattr) : Prop :=
  match a with ABytes enc b => b = [] \/ exists key, enc = Some key /\ P key | _ => True end.
Definition attr_plain (a : osattr) : Prop :=
  match a with ABytes enc _ => enc = None | _ => True end.
Definition all_enc (P : N -> Prop) (o : obj) : Prop := forall t a, In (t, a) o -> attr_enc P a.
Definition all_plain (o : obj) : Prop := forall t a, In (t, a) o -> attr_plain a.
(* private: every non-empty byte string is a ciphertext under a key satisfying P; public: all clear *)
Definition obj_ok (P : N -> Prop) (o : obj) : Prop := if o_private o then all_enc P o else all_plain o.

Lemma attr_enc_mono (P Q : N -> Prop) a : (forall k, P k -> Q k) -> attr_enc P a -> attr_enc Q a.
Proof.
  intros H. destruct a; cbn; auto. intros [E|[key [E HP]]]; [left; exact E|right; exists key; auto].
Qed.
Lemma all_enc_mono (P Q : N -> Prop) o : (forall k, P k -> Q k) -> all_enc P o -> all_enc Q o.
Proof. intros H Ho t a Hin. eapply attr_enc_mono; [exact H|eapply Ho; exact Hin]. Qed.
Lemma obj_ok_mono (P Q : N -> Prop) o : (forall k, P k -> Q k) -> obj_ok P o -> obj_ok Q o.
Proof. unfold obj_ok. intros H. destruct (o_private o); [apply all_enc_mono; exact H|auto]. Qed.

Lemma all_enc_aset (P : N -> Prop) o a v : all_enc P o -> attr_enc P v -> all_enc P (aset a v o).
Proof. intros Ho Hv t x Hin. apply In_aset in Hin. destruct Hin as [E|Hin]; [inversion E; subst; exact Hv|eapply Ho; exact Hin]. Qed.
Lemma all_plain_aset o a v : all_plain o -> attr_plain v -> all_plain (aset a v o).
Proof. intros Ho Hv t x Hin. apply In_aset in Hin. destruct Hin as [E|Hin]; [inversion E; subst; exact Hv|eapply Ho; exact Hin]. Qed.

Lemma defaults_all_enc (P : N -> Prop) : all_enc P data_defaults.
Proof. intros t a Hin. cbn in Hin. repeat (destruct Hin as [E|Hin]; [inversion E; subst; cbn; auto|]). destruct Hin. Qed.
Lemma defaults_all_plain : all_plain data_defaults.
Proof. intros t a Hin. cbn in Hin. repeat (destruct Hin as [E|Hin]; [inversion E; subst; cbn; auto|]). destruct Hin. Qed.
Lemma defaults_private : o_private data_defaults = true.
Proof. reflexivity. Qed.

(* ---- P11Attr*::updateAttr: what it stores --------------------------------------------------------- *)
Ltac rv_absurd H := exfalso; apply (f_equal fst) in H; vm_compute in H; discriminate H.

Lemma update_attr_cases tc a o ip e :
  snd (update_attr tc a o ip e) = o \/
  (exists b, snd (update_attr tc a o ip e) = aset a (ABool b) o) \/
  (a <> CKA_PRIVATE /\ (ip = true -> tc_logged tc = true) /\
   exists b, snd (update_attr tc a o ip e) = aset a (ABytes (if ip then Some (tc_key tc) else None) b) o).
Proof.
  unfold update_attr.
  destruct (a =? CKA_CLASS).
  { destruct (negb (te_len e =? 8)); [left; reflexivity|]. destruct (te_val e); [|left; reflexivity].
    destruct (_ =? _); left; reflexivity. }
  destruct (a =? CKA_COPYABLE).
  { destruct (negb (te_len e =? 1)); [left; reflexivity|]. destruct (first_byte (te_val e) =? 0); [right; left; eexists; reflexivity|].
    destruct (negb _); left; reflexivity. }
  destruct (is_bool_attr a) eqn:Eb.
  { destruct (negb (te_len e =? 1)); [left; reflexivity|]. right; left; eexists; reflexivity. }
  assert (Hne : a <> CKA_PRIVATE) by (intros ->; vm_compute in Eb; discriminate Eb).
  cbv zeta. destruct ip.
  - destruct (tc_logged tc) eqn:El; [|left; reflexivity].
    right; right. split; [exact Hne|]. split; [reflexivity|]. eexists; reflexivity.
  - right; right. split; [exact Hne|]. split; [discriminate|]. eexists; reflexivity.
Qed.

Lemma update_attr_enc (P : N -> Prop) tc a o e :
  (tc_logged tc = true -> P (tc_key tc)) -> all_enc P o -> all_enc P (snd (update_attr tc a o true e)).
Proof.
  intros HP Ho. destruct (update_attr_cases tc a o true e) as [E|[[b E]|(_ & Hl & b & E)]]; rewrite E.
  - exact Ho.
  - apply all_enc_aset; [exact Ho|exact I].
  - apply all_enc_aset; [exact Ho|]. cbn. right. eexists. split; [reflexivity|]. apply HP, Hl. reflexivity.
Qed.

Lemma update_attr_plain tc a o e : all_plain o -> all_plain (snd (update_attr tc a o false e)).
Proof.
  intros Ho. destruct (update_attr_cases tc a o false e) as [E|[[b E]|(_ & _ & b & E)]]; rewrite E.
  - exact Ho.
  - apply all_plain_aset; [exact Ho|exact I].
  - apply all_plain_aset; [exact Ho|reflexivity].
Qed.

Lemma update_attr_other tc a o ip e :
  a <> CKA_PRIVATE -> alookup CKA_PRIVATE (snd (update_attr tc a o ip e)) = alookup CKA_PRIVATE o.
Proof.
  intros Hne. destruct (update_attr_cases tc a o ip e) as [E|[[b E]|(_ & _ & b & E)]]; rewrite E;
    [reflexivity|apply alookup_aset_neq|apply alookup_aset_neq]; congruence.
Qed.

Lemma update_attr_private tc o ip e :
  fst (update_attr tc CKA_PRIVATE o ip e) = CKR_OK ->
  te_len e = 1 /\ snd (update_attr tc CKA_PRIVATE o ip e) = aset CKA_PRIVATE (ABool (negb (first_byte (te_val e) =? 0))) o.
Proof.
  unfold update_attr. change (CKA_PRIVATE =? CKA_CLASS) with false. change (CKA_PRIVATE =? CKA_COPYABLE) with false.
  change (is_bool_attr CKA_PRIVATE) with true. cbv iota.
  destruct (negb (te_len e =? 1)) eqn:E; cbn [fst snd].
  - intros H. vm_compute in H. discriminate H.
  - intros _. apply negb_false_iff, N.eqb_eq in E. auto.
Qed.

(* ---- P11Attribute::update: a store happens only through updateAttr answering CKR_OK ------------- *)
Lemma attr_update_ok tc o ip e op o1 :
  attr_update tc o ip e op = (CKR_OK, o1) ->
  fst (update_attr tc (te_type e) o ip e) = CKR_OK /\ o1 = snd (update_attr tc (te_type e) o ip e).
Proof.
  unfold attr_update. destruct (alookup (te_type e) data_table) as [[size checks]|]; [|intros H; rv_absurd H].
  cbv zeta.
  match goal with |- context [gen_P11Attribute__update ?m ?t ?g ?c ?os ?sz ?u ?tok ?p ?pv ?len ?op] =>
    pose proof (update_error_or_updater m t g c os sz u tok p pv len op) as Hu;
    set (rv := gen_P11Attribute__update m t g c os sz u tok p pv len op) in *
  end.
  destruct (rv =? CKR_OK) eqn:E.
  - intros H. inversion H as [[H1 H2]]. split; [|reflexivity].
    destruct Hu as [[Hu|[Hu|Hu]]|Hu]; try (rewrite Hu in H1; vm_compute in H1; discriminate H1).
    congruence.
  - intros H. inversion H as [[H1 H2]]. rewrite H1 in E. vm_compute in E. discriminate E.
Qed.

(* C_SetAttributeValue never reaches the updater of CKA_PRIVATE (its checks are ck17 only) *)
Lemma attr_update_set_private tc o ip e o1 :
  te_type e = CKA_PRIVATE -> attr_update tc o ip e OBJECT_OP_SET = (CKR_OK, o1) -> False.
Proof.
  intros Et. unfold attr_update. rewrite Et. change (alookup CKA_PRIVATE data_table) with (Some (1, ck17)). cbv beta iota zeta.
  match goal with |- context [gen_P11Attribute__update ?m ?t ?g ?c ?os ?sz ?u ?tok ?p ?pv ?len ?op] =>
    pose proof (update_set_needs_ck8_or_ck11 m t g c os sz u tok p pv len op eq_refl eq_refl eq_refl) as Hu;
    set (rv := gen_P11Attribute__update m t g c os sz u tok p pv len op) in *
  end.
  destruct (rv =? CKR_OK) eqn:E; intros H; inversion H as [[H1 H2]].
  - destruct Hu as [Hu|[Hu|Hu]]; rewrite Hu in H1; vm_compute in H1; discriminate H1.
  - rewrite H1 in E. vm_compute in E. discriminate E.
Qed.

(* ---- P11Object::saveTemplate ------------------------------------------------------------------------ *)
Lemma save_template_ok tc rb ip tm op o o1 :
  save_template tc rb ip tm op o = (CKR_OK, o1) -> save_entries tc ip op tm o = (CKR_OK, o1).
Proof.
  unfold save_template. cbv beta zeta.
  destruct ((op =? OBJECT_OP_SET) && _); [intros H; rv_absurd H|].
  destruct ((op =? OBJECT_OP_COPY) && _); [intros H; rv_absurd H|].
  destruct (save_entries tc ip op tm o) as [rv o2].
  destruct (negb (rv =? CKR_OK)) eqn:Erv.
  - intros H. exfalso. inversion H as [[H1 H2]]. rewrite H1 in Erv. vm_compute in Erv. discriminate Erv.
  - apply negb_false_iff, N.eqb_eq in Erv. subst rv.
    destruct (mandatory_missing op tm); [intros H; rv_absurd H|]. intros H. exact H.
Qed.

Lemma save_entries_enc (P : N -> Prop) tc op tm : forall o o1,
  (tc_logged tc = true -> P (tc_key tc)) ->
  save_entries tc true op tm o = (CKR_OK, o1) -> all_enc P o -> all_enc P o1.
Proof.
  induction tm as [|e r IH]; intros o o1 HP; cbn [save_entries].
  - intros H. inversion H; subst. auto.
  - destruct (attr_update tc o true e op) as [rv o'] eqn:E. destruct (rv =? CKR_OK) eqn:Erv.
    + apply N.eqb_eq in Erv. subst rv. apply attr_update_ok in E. destruct E as [_ ->].
      intros H Ho. eapply IH; [exact HP|exact H|]. apply update_attr_enc; assumption.
    + intros H. exfalso. inversion H as [[H1 H2]]. rewrite H1 in Erv. vm_compute in Erv. discriminate Erv.
Qed.

Lemma save_entries_plain tc op tm : forall o o1,
  save_entries tc false op tm o = (CKR_OK, o1) -> all_plain o -> all_plain o1.
Proof.
  induction tm as [|e r IH]; intros o o1; cbn [save_entries].
  - intros H. inversion H; subst. auto.
  - destruct (attr_update tc o false e op) as [rv o'] eqn:E. destruct (rv =? CKR_OK) eqn:Erv.
    + apply N.eqb_eq in Erv. subst rv. apply attr_update_ok in E. destruct E as [_ ->].
      intros H Ho. eapply IH; [exact H|]. apply update_attr_plain; assumption.
    + intros H. exfalso. inversion H as [[H1 H2]]. rewrite H1 in Erv. vm_compute in Erv. discriminate Erv.
Qed.

(* C_SetAttributeValue cannot change CKA_PRIVATE *)
Lemma save_entries_set_private tc ip tm : forall o o1,
  save_entries tc ip OBJECT_OP_SET tm o = (CKR_OK, o1) -> alookup CKA_PRIVATE o1 = alookup CKA_PRIVATE o.
Proof.
  induction tm as [|e r IH]; intros o o1; cbn [save_entries].
  - intros H. inversion H; subst. reflexivity.
  - destruct (attr_update tc o ip e OBJECT_OP_SET) as [rv o'] eqn:E. destruct (rv =? CKR_OK) eqn:Erv.
    + apply N.eqb_eq in Erv. subst rv. intros H. rewrite (IH _ _ H).
      destruct (N.eq_dec (te_type e) CKA_PRIVATE) as [Et|Et].
      * exfalso. eapply attr_update_set_private; eassumption.
      * apply attr_update_ok in E. destruct E as [_ ->]. apply update_attr_other. exact Et.
    + intros H. exfalso. inversion H as [[H1 H2]]. rewrite H1 in Erv. vm_compute in Erv. discriminate Erv.
Qed.

(* the CKA_PRIVATE the template announces (extractObjectInformation) is the one that gets stored *)
Definition entry_wf (e : tentry) : bool :=
  match te_val e with
  | Some b => blen b =? te_len e
  | None => negb ((te_len e =? 8) && nmem (te_type e) [CKA_CLASS; CKA_KEY_TYPE; CKA_CERTIFICATE_TYPE])
            && negb ((te_len e =? 1) && nmem (te_type e) [CKA_TOKEN; CKA_PRIVATE])
  end.
Lemma tmpl_wellformed_forallb tm : tmpl_wellformed tm = forallb entry_wf tm.
Proof. reflexivity. Qed.

Definition tb_step (a : N) (acc : N) (e : tentry) : N :=
  if (te_type e =? a) && (te_len e =? 1) then match te_val e with Some (x :: _) => x | _ => acc end else acc.
Lemma tmpl_bool_cons a e r d : tmpl_bool a (e :: r) d = tmpl_bool a r (tb_step a d e).
Proof. reflexivity. Qed.
Lemma tmpl_bool_app a l1 l2 d : tmpl_bool a (l1 ++ l2) d = tmpl_bool a l2 (tmpl_bool a l1 d).
Proof. unfold tmpl_bool. apply fold_left_app. Qed.

Lemma private_entry_value e :
  entry_wf e = true -> te_type e = CKA_PRIVATE -> te_len e = 1 -> exists x br, te_val e = Some (x :: br).
Proof.
  unfold entry_wf. intros Hw Et El. rewrite Et, El in Hw. destruct (te_val e) as [[|x br]|].
  - vm_compute in Hw. discriminate Hw.
  - eauto.
  - exfalso. change ((1 =? 1) && nmem CKA_PRIVATE [CKA_TOKEN; CKA_PRIVATE]) with true in Hw.
    rewrite andb_false_r in Hw. discriminate Hw.
Qed.

Lemma o_private_aset o b : o_private (aset CKA_PRIVATE (ABool b) o) = b.
Proof. unfold o_private, obj_bool. rewrite alookup_aset_eq. reflexivity. Qed.
Lemma o_private_lookup o o' : alookup CKA_PRIVATE o' = alookup CKA_PRIVATE o -> o_private o' = o_private o.
Proof. unfold o_private, obj_bool. intros ->. reflexivity. Qed.

Lemma save_entries_private tc ip op tm : forall o o1 d,
  forallb entry_wf tm = true -> save_entries tc ip op tm o = (CKR_OK, o1) ->
  negb (d =? 0) = o_private o -> negb (tmpl_bool CKA_PRIVATE tm d =? 0) = o_private o1.
Proof.
  induction tm as [|e r IH]; intros o o1 d Hw; cbn [save_entries].
  - intros H. inversion H; subst. auto.
  - cbn [forallb] in Hw. apply andb_true_iff in Hw. destruct Hw as [Hwe Hwr].
    destruct (attr_update tc o ip e op) as [rv o'] eqn:E. destruct (rv =? CKR_OK) eqn:Erv.
    + apply N.eqb_eq in Erv. subst rv. apply attr_update_ok in E. destruct E as [Hf ->].
      intros H Hd. rewrite tmpl_bool_cons. eapply IH; [exact Hwr|exact H|].
      unfold tb_step. destruct (te_type e =? CKA_PRIVATE) eqn:Et.
      * apply N.eqb_eq in Et. rewrite Et in *. destruct (update_attr_private _ _ _ _ Hf) as [El ->].
        destruct (private_entry_value e Hwe Et El) as (x & br & Ev). rewrite El, Ev. cbn [andb N.eqb Pos.eqb first_byte].
        rewrite o_private_aset. reflexivity.
      * cbn [andb]. rewrite Hd. symmetry. apply o_private_lookup. apply update_attr_other.
        apply N.eqb_neq. exact Et.
    + intros H. exfalso. inversion H as [[H1 H2]]. rewrite H1 in Erv. vm_compute in Erv. discriminate Erv.
Qed.

(* CreateObject moves CKA_CHECK_VALUE entries to the end; that does not touch CKA_PRIVATE entries *)
Lemma tmpl_bool_filter_keep a (f : tentry -> bool) :
  (forall e, te_type e = a -> f e = true) -> forall tm d, tmpl_bool a (filter f tm) d = tmpl_bool a tm d.
Proof.
  intros Hf. induction tm as [|e r IH]; intros d; [reflexivity|]. cbn [filter]. destruct (f e) eqn:E.
  - rewrite !tmpl_bool_cons. apply IH.
  - rewrite tmpl_bool_cons, IH. f_equal. unfold tb_step. destruct (te_type e =? a) eqn:Et; [|reflexivity].
    apply N.eqb_eq in Et. rewrite Hf in E by exact Et. discriminate E.
Qed.
Lemma tmpl_bool_filter_drop a (f : tentry -> bool) :
  (forall e, f e = true -> te_type e <> a) -> forall tm d, tmpl_bool a (filter f tm) d = d.
Proof.
  intros Hf. induction tm as [|e r IH]; intros d; [reflexivity|]. cbn [filter]. destruct (f e) eqn:E; [|apply IH].
  rewrite tmpl_bool_cons, IH. unfold tb_step. destruct (te_type e =? a) eqn:Et; [|reflexivity].
  apply N.eqb_eq in Et. exfalso. exact (Hf e E Et).
Qed.
Lemma tmpl_bool_reorder tm d : tmpl_bool CKA_PRIVATE (reorder tm) d = tmpl_bool CKA_PRIVATE tm d.
Proof.
  unfold reorder. rewrite tmpl_bool_app, tmpl_bool_filter_drop, tmpl_bool_filter_keep; [reflexivity| |].
  - intros e ->. reflexivity.
  - intros e He Et. rewrite Et in He. vm_compute in He. discriminate He.
Qed.
Lemma forallb_filter {A} (p f : A -> bool) l : forallb p l = true -> forallb p (filter f l) = true.
Proof.
  induction l as [|a r IH]; cbn; [auto|]. intros H. apply andb_true_iff in H. destruct H as [H1 H2].
  destruct (f a); cbn; [rewrite H1|]; auto.
Qed.
Lemma reorder_wf tm : forallb entry_wf tm = true -> forallb entry_wf (reorder tm) = true.
Proof. intros H. unfold reorder. rewrite forallb_app, !forallb_filter by exact H. reflexivity. Qed.

(* ---- the three storing paths, per object ------------------------------------------------------------ *)
(* C_CreateObject: the object starts from the (empty) defaults *)
Lemma create_obj_ok (P : N -> Prop) tc rb tm o1 :
  tmpl_wellformed tm = true -> (tc_logged tc = true -> P (tc_key tc)) ->
  save_template tc rb (negb (tmpl_bool CKA_PRIVATE tm 1 =? 0)) (reorder tm) OBJECT_OP_CREATE data_defaults = (CKR_OK, o1) ->
  obj_ok P o1.
Proof.
  intros Hw HP H. apply save_template_ok in H. rewrite tmpl_wellformed_forallb in Hw.
  pose proof (save_entries_private _ _ _ _ _ _ 1 (reorder_wf _ Hw) H eq_refl) as Hp. rewrite tmpl_bool_reorder in Hp.
  unfold obj_ok. rewrite <- Hp. destruct (negb (tmpl_bool CKA_PRIVATE tm 1 =? 0)).
  - eapply save_entries_enc; [exact HP|exact H|apply defaults_all_enc].
  - eapply save_entries_plain; [exact H|apply defaults_all_plain].
Qed.

(* C_SetAttributeValue: isPrivate is the object's own flag, which the call cannot change *)
Lemma set_obj_ok (P : N -> Prop) tc rb tm ob o1 :
  (tc_logged tc = true -> P (tc_key tc)) -> obj_ok P ob ->
  save_template tc rb (o_private ob) tm OBJECT_OP_SET ob = (CKR_OK, o1) -> obj_ok P o1.
Proof.
  intros HP Hob H. apply save_template_ok in H.
  pose proof (o_private_lookup _ _ (save_entries_set_private _ _ _ _ _ H)) as Hp.
  unfold obj_ok in *. rewrite Hp. destruct (o_private ob).
  - eapply save_entries_enc; eassumption.
  - eapply save_entries_plain; eassumption.
Qed.

(* C_CopyObject: the attribute copy loop, with the public -> private upgrade *)
Definition copy_attrs (up : bool) (key : N) (ob : obj) : obj :=
  map (fun kv => match snd kv with
                 | ABytes None (b0 :: br) => if up then (fst kv, ABytes (Some key) (b0 :: br)) else kv
                 | _ => kv
                 end) ob.

Lemma copy_attrs_bool up key a d : forall ob, obj_bool (copy_attrs up key ob) a d = obj_bool ob a d.
Proof.
  unfold obj_bool, copy_attrs. induction ob as [|[t v] r IH]; [reflexivity|]. cbn [map snd fst].
  destruct v as [b|n|[k|] [|b0 br]|l|l]; try destruct up; cbn [alookup]; destruct (t =? a); auto.
Qed.
Lemma copy_attrs_noup key ob : copy_attrs false key ob = ob.
Proof.
  unfold copy_attrs. rewrite <- (map_id ob) at 2. apply map_ext. intros [t v].
  destruct v as [b|n|[k|] [|b0 br]|l|l]; reflexivity.
Qed.
Lemma copy_attrs_enc (P : N -> Prop) key ob : P key -> all_plain ob -> all_enc P (copy_attrs true key ob).
Proof.
  intros HP Ho t a Hin. unfold copy_attrs in Hin. apply in_map_iff in Hin. destruct Hin as [[t0 v] [E Hin]].
  pose proof (Ho t0 v Hin) as Hv. cbn [snd fst] in E.
  destruct v as [b|n|[k|] [|b0 br]|l|l]; inversion E; subst; cbn in *; auto; try discriminate Hv.
  right. exists key. auto.
Qed.

Lemma b2n_negb b : negb (b2n b =? 0) = b.
Proof. destruct b; reflexivity. Qed.

Lemma copy_obj_ok (P : N -> Prop) tc rb tm ob ip o1 :
  ip = negb (tmpl_bool CKA_PRIVATE tm (b2n (o_private ob)) =? 0) ->
  tmpl_wellformed tm = true -> (tc_logged tc = true -> P (tc_key tc)) -> obj_ok P ob ->
  o_private ob && negb ip = false -> negb (o_private ob) && ip && negb (tc_logged tc) = false ->
  save_template tc rb ip tm OBJECT_OP_COPY (copy_attrs (negb (o_private ob) && ip) (tc_key tc) ob) = (CKR_OK, o1) ->
  obj_ok P o1.
Proof.
  intros Eip Hw HP Hob Hdown Hlog H. apply save_template_ok in H. rewrite tmpl_wellformed_forallb in Hw.
  assert (Hp : ip = o_private o1).
  { rewrite Eip. eapply save_entries_private; [exact Hw|exact H|].
    unfold o_private at 2. rewrite copy_attrs_bool. apply b2n_negb. }
  unfold obj_ok in *. rewrite <- Hp. clear Eip Hp.
  destruct (o_private ob) eqn:Ep; cbn [negb andb] in *.
  - apply negb_false_iff in Hdown. subst ip. rewrite copy_attrs_noup in H. eapply save_entries_enc; eassumption.
  - destruct ip.
    + apply negb_false_iff in Hlog. eapply save_entries_enc; [exact HP|exact H|]. apply copy_attrs_enc; auto.
    + rewrite copy_attrs_noup in H. eapply save_entries_plain; eassumption.
Qed.

(* ---- the master key of an existing token never changes ------------------------------------------- *)
Definition tok_key (s : state) (k : N) : option N := option_map t_key (alookup k (st_tokens s)).

Lemma tok_key_pins s k : tok_key s k = option_map snd (tok_pins s k).
Proof. unfold tok_key, tok_pins. destruct (alookup k (st_tokens s)); reflexivity. Qed.

Lemma tok_key_upd_frame f : (forall t0, t_key (f t0) = t_key t0) ->
  forall s0 k0 k, tok_key (upd_token s0 k0 f) k = tok_key s0 k.
Proof.
  intros Hf s0 k0 k. unfold tok_key. rewrite upd_token_lookup. destruct (k0 =? k) eqn:E; [|reflexivity].
  apply N.eqb_eq in E. subst k0. destruct (alookup k (st_tokens s0)); cbn; [rewrite Hf|]; reflexivity.
Qed.

(* after any call the key identity of token k is what it was, unless token k did not exist before *)
Theorem key_changes_never (s : state) (o : op) (k : N) :
  tok_key (fst (step s o)) k = tok_key s k \/ tok_key s k = None.
Proof.
  destruct (pins_change_only_by s o k) as [E|Ev]; [left; rewrite !tok_key_pins, E; reflexivity|].
  destruct o; cbn [pin_event] in Ev; try contradiction; clear Ev; unfold step; cbn [fst snd];
  repeat (first [break_match | break_let]; cbn [fst snd]); try (left; reflexivity).
  all: try (left; apply tok_key_upd_frame; reflexivity).
  - (* re-initialisation keeps the key *)
    left. unfold tok_key. simp_state. rewrite alookup_aset. destruct (n =? k) eqn:E; [|reflexivity].
    apply N.eqb_eq in E. subst n.
    match goal with H : alookup k (st_tokens s) = Some _ |- _ => rewrite H end. reflexivity.
  - (* a fresh token: its label was free *)
    destruct (label =? k) eqn:E.
    + right. apply N.eqb_eq in E. subst label. unfold tok_key.
      match goal with H : amem k (st_tokens s) = false |- _ => unfold amem in H; destruct (alookup k (st_tokens s)); [discriminate H|reflexivity] end.
    + left. unfold tok_key. simp_state. rewrite alookup_app. destruct (alookup k (st_tokens s)); [reflexivity|]. cbn. rewrite E. reflexivity.
Qed.

Theorem step_keeps_key (s : state) (o : op) (k key : N) :
  tok_key s k = Some key -> tok_key (fst (step s o)) k = Some key.
Proof. intros H. destruct (key_changes_never s o k) as [E|E]; [rewrite E; exact H|rewrite E in H; discriminate H]. Qed.

Theorem exec_keeps_key (ops : list op) : forall (s : state) (k key : N),
  tok_key s k = Some key -> tok_key (exec s ops) k = Some key.
Proof.
  unfold exec. induction ops as [|o r IH]; intros s k key H; cbn [fold_left]; [exact H|].
  apply IH. apply step_keeps_key. exact H.
Qed.

(* in the wording of the model: whenever token k exists, no history changes [t_key] of token k *)
Corollary exec_keeps_t_key (ops : list op) (s : state) (k : N) (t : token) :
  alookup k (st_tokens s) = Some t ->
  option_map t_key (alookup k (st_tokens (exec s ops))) = option_map t_key (alookup k (st_tokens s)).
Proof.
  intros H. change (tok_key (exec s ops) k = tok_key s k). unfold tok_key at 2. rewrite H. cbn [option_map].
  apply exec_keeps_key. unfold tok_key. rewrite H. reflexivity.
Qed.

Lemma exec_app (s : state) (a b : list op) : exec s (a ++ b) = exec (exec s a) b.
Proof. unfold exec. apply fold_left_app. Qed.

Corollary key_stable_reachable (ops1 ops2 : list op) (k key : N) :
  tok_key (exec init_state ops1) k = Some key -> tok_key (exec init_state (ops1 ++ ops2)) k = Some key.
Proof. intros H. rewrite exec_app. apply exec_keeps_key. exact H. Qed.

(* ---- the invariant, for a family K s k of admissible key identities for objects of token k ----- *)
Section Enc.
  Variable K : state -> N -> N -> Prop.
  Hypothesis K_step : forall s o k key, K s k key -> K (fst (step s o)) k key.
  Hypothesis K_tctx : forall s k, tc_logged (tctx_of s k) = true -> K s k (tc_key (tctx_of s k)).

  Definition inv_encK (s : state) : Prop :=
    (forall k t oid o, alookup k (st_tokens s) = Some t -> In (oid, o) (t_objs t) -> obj_ok (K s k) o) /\
    (forall oid so, In (oid, so) (st_sobjs s) -> obj_ok (K s (so_tok so)) (so_obj so)).

  Lemma inv_encK_init : inv_encK init_state.
  Proof. split; [intros k t oid o H; discriminate H|intros oid so []]. Qed.

  (* every object of s' is an object of s (same token) or is fine under the keys admissible in s *)
  Definition tobjs_ok (s s' : state) : Prop :=
    forall k t' oid o, alookup k (st_tokens s') = Some t' -> In (oid, o) (t_objs t') ->
      (exists t, alookup k (st_tokens s) = Some t /\ In (oid, o) (t_objs t)) \/ obj_ok (K s k) o.
  Definition sobjs_ok (s s' : state) : Prop :=
    forall oid so', In (oid, so') (st_sobjs s') ->
      (exists oid0 so, In (oid0, so) (st_sobjs s) /\ so_tok so = so_tok so' /\ so_obj so = so_obj so') \/
      obj_ok (K s (so_tok so')) (so_obj so').
  Definition objs_ok (s s' : state) : Prop := tobjs_ok s s' /\ sobjs_ok s s'.

  Lemma inv_from s s' :
    inv_encK s -> (forall k key, K s k key -> K s' k key) -> objs_ok s s' -> inv_encK s'.
  Proof.
    intros [I1 I2] HK [HT HS]. split.
    - intros k t' oid o Hl Hin. apply obj_ok_mono with (K s k); [apply HK|].
      destruct (HT k t' oid o Hl Hin) as [[t [H1 H2]]|H]; [eapply I1; eauto|exact H].
    - intros oid so' Hin. apply obj_ok_mono with (K s (so_tok so')); [apply HK|].
      destruct (HS oid so' Hin) as [(oid0 & so & H1 & H2 & H3)|H]; [|exact H].
      rewrite <- H2, <- H3. eapply I2; eauto.
  Qed.

  Lemma tobjs_ok_eq s s' : st_tokens s' = st_tokens s -> tobjs_ok s s'.
  Proof. intros E k t' oid o Hl Hin. rewrite E in Hl. left. eauto. Qed.
  Lemma sobjs_ok_filter s s' f : st_sobjs s' = filter f (st_sobjs s) -> sobjs_ok s s'.
  Proof. intros E oid so' Hin. rewrite E in Hin. apply filter_In in Hin. left. exists oid, so'. tauto. Qed.
  Lemma sobjs_ok_eq s s' : st_sobjs s' = st_sobjs s -> sobjs_ok s s'.
  Proof. intros E oid so' Hin. rewrite E in Hin. left. exists oid, so'. auto. Qed.

  Lemma objs_ok_same s s' : st_tokens s' = st_tokens s -> st_sobjs s' = st_sobjs s -> objs_ok s s'.
  Proof. intros E1 E2. split; [apply tobjs_ok_eq|apply sobjs_ok_eq]; assumption. Qed.
  Lemma objs_ok_refl s : objs_ok s s.
  Proof. apply objs_ok_same; reflexivity. Qed.
  Lemma objs_ok_eq s s' s'' : st_tokens s'' = st_tokens s' -> st_sobjs s'' = st_sobjs s' -> objs_ok s s' -> objs_ok s s''.
  Proof. intros E1 E2 [HT HS]. split; [intros k t' oid o; rewrite E1; apply HT|intros oid so'; rewrite E2; apply HS]. Qed.

  Lemma tobjs_ok_upd s s' k f :
    st_tokens s' = st_tokens (upd_token s k f) ->
    (forall t oid o, alookup k (st_tokens s) = Some t -> In (oid, o) (t_objs (f t)) -> In (oid, o) (t_objs t) \/ obj_ok (K s k) o) ->
    tobjs_ok s s'.
  Proof.
    intros E Hf k' t' oid o Hl Hin. rewrite E, upd_token_lookup in Hl. destruct (k =? k') eqn:Ek; [|left; eauto].
    apply N.eqb_eq in Ek. subst k'. destruct (alookup k (st_tokens s)) as [t|] eqn:Et; [|discriminate Hl].
    cbn in Hl. inversion Hl; subst t'. destruct (Hf t oid o eq_refl Hin) as [H|H]; [left; eauto|right; exact H].
  Qed.

  Lemma tobjs_ok_upd_frame s s' k f :
    st_tokens s' = st_tokens (upd_token s k f) -> (forall t, t_objs (f t) = t_objs t) -> tobjs_ok s s'.
  Proof. intros E Hf. eapply tobjs_ok_upd; [exact E|]. intros t oid o _ Hin. rewrite Hf in Hin. left. exact Hin. Qed.

  Lemma objs_ok_upd_frame s k f : (forall t, t_objs (f t) = t_objs t) -> objs_ok s (upd_token s k f).
  Proof. intros Hf. split; [eapply tobjs_ok_upd_frame; [reflexivity|exact Hf]|apply sobjs_ok_eq, upd_token_sobjs]. Qed.

  Lemma objs_ok_frame_filter s s' k f g :
    (forall t, t_objs (f t) = t_objs t) -> st_tokens s' = st_tokens (upd_token s k f) -> st_sobjs s' = filter g (st_sobjs s) ->
    objs_ok s s'.
  Proof. intros Hf E1 E2. split; [eapply tobjs_ok_upd_frame; eassumption|eapply sobjs_ok_filter; eassumption]. Qed.

  Lemma objs_ok_filter s s' g : st_tokens s' = st_tokens s -> st_sobjs s' = filter g (st_sobjs s) -> objs_ok s s'.
  Proof. intros E1 E2. split; [apply tobjs_ok_eq; exact E1|eapply sobjs_ok_filter; exact E2]. Qed.

  Lemma objs_ok_restart s b : objs_ok s (restart s b).
  Proof.
    split.
    - intros k t' oid o Hl Hin. rewrite restart_lookup in Hl. destruct (alookup k (st_tokens s)) as [t|]; [|discriminate Hl].
      cbn in Hl. inversion Hl; subst t'. left. eauto.
    - intros oid so' [].
  Qed.

  Lemma objs_ok_close_all s k : objs_ok s (close_all s k).
  Proof.
    eapply objs_ok_frame_filter with (k := k) (f := fun t => set_t_login t LNone); [reflexivity| |apply close_all_sobjs].
    unfold close_all, upd_token, purge_handles. simp_state. destruct (alookup k (st_tokens s)); reflexivity.
  Qed.

  Lemma objs_ok_reinit s k t0 : t_objs t0 = [] -> objs_ok s (set_tokens s (aset k t0 (st_tokens s))).
  Proof.
    intros E0. split; [|apply sobjs_ok_eq; reflexivity].
    intros k' t' oid o Hl Hin. simp_state. rewrite alookup_aset in Hl. destruct (k =? k'); [|left; eauto].
    inversion Hl; subst t'. rewrite E0 in Hin. destruct Hin.
  Qed.

  Lemma objs_ok_fresh s l t0 n : t_objs t0 = [] -> objs_ok s (set_next_key (set_tokens s (st_tokens s ++ [(l, t0)])) n).
  Proof.
    intros E0. split; [|apply sobjs_ok_eq; reflexivity].
    intros k' t' oid o Hl Hin. simp_state. rewrite alookup_app in Hl. destruct (alookup k' (st_tokens s)) as [t|]; [left; eauto|].
    cbn in Hl. destruct (l =? k'); [|discriminate Hl]. inversion Hl; subst t'. rewrite E0 in Hin. destruct Hin.
  Qed.

  (* a new object (C_CreateObject / C_CopyObject) *)
  Lemma objs_ok_new s n (c : bool) k h ip oid o1 :
    obj_ok (K s k) o1 ->
    objs_ok s (if c then upd_token (set_next_oid s n) k (fun t => set_t_objs t (t_objs t ++ [(oid, o1)]))
               else set_sobjs (set_next_oid s n) (st_sobjs (set_next_oid s n) ++ [(oid, mkSObj k h ip o1)])).
  Proof.
    intros Ho. destruct c.
    - split; [|apply sobjs_ok_eq; rewrite upd_token_sobjs; reflexivity].
      eapply tobjs_ok_upd with (k := k) (f := fun t => set_t_objs t (t_objs t ++ [(oid, o1)])).
      + unfold upd_token. simp_state. destruct (alookup k (st_tokens s)); reflexivity.
      + intros t oid' o' _ Hin. cbn in Hin. apply in_app_or in Hin. destruct Hin as [Hin|[E|[]]]; [left; exact Hin|].
        inversion E; subst. right. exact Ho.
    - split; [apply tobjs_ok_eq; reflexivity|].
      intros oid' so' Hin. simp_state. apply in_app_or in Hin. destruct Hin as [Hin|[E|[]]]; [left; exists oid', so'; auto|].
      inversion E; subst. right. exact Ho.
  Qed.

  Lemma objs_ok_del s s0 l : st_tokens s0 = st_tokens s -> st_sobjs s0 = st_sobjs s -> objs_ok s (del_object s0 l).
  Proof.
    intros E1 E2. destruct l as [k oid|oid]; cbn [del_object].
    - split; [|apply sobjs_ok_eq; rewrite upd_token_sobjs; exact E2].
      eapply tobjs_ok_upd with (k := k) (f := fun t => set_t_objs t (aremove oid (t_objs t))).
      + unfold upd_token. rewrite E1. destruct (alookup k (st_tokens s)); cbn; rewrite ?E1; reflexivity.
      + intros t oid' o' _ Hin. cbn in Hin. unfold aremove in Hin. apply filter_In in Hin. left. tauto.
    - eapply objs_ok_filter; [exact E1|]. cbn. unfold aremove. rewrite E2. reflexivity.
  Qed.

  Definition loc_tok (s : state) (l : oloc) : N :=
    match l with
    | LTok k _ => k
    | LSess oid => match alookup oid (st_sobjs s) with Some so => so_tok so | None => 0 end
    end.

  Lemma objs_ok_put s l o1 : obj_ok (K s (loc_tok s l)) o1 -> objs_ok s (put_object s l o1).
  Proof.
    intros Ho. destruct l as [k oid|oid]; cbn [put_object loc_tok] in *.
    - split; [|apply sobjs_ok_eq; rewrite upd_token_sobjs; reflexivity].
      eapply tobjs_ok_upd; [reflexivity|]. intros t oid' o' _ Hin. cbn in Hin. apply In_aset in Hin.
      destruct Hin as [E|Hin]; [inversion E; subst; right; exact Ho|left; exact Hin].
    - destruct (alookup oid (st_sobjs s)) as [so|] eqn:Es; [|apply objs_ok_refl].
      split; [apply tobjs_ok_eq; reflexivity|]. intros oid' so' Hin. simp_state. apply In_aset in Hin.
      destruct Hin as [E|Hin]; [inversion E; subst; right; exact Ho|left; exists oid', so'; auto].
  Qed.

  Lemma get_object_ok s oh e l ob : inv_encK s -> get_object s oh = Some (e, l, ob) -> obj_ok (K s (loc_tok s l)) ob.
  Proof.
    intros [I1 I2]. unfold get_object. destruct (alookup oh (st_handles s)) as [e0|]; [|discriminate].
    destruct (h_kind e0 =? CKH_OBJECT); [|discriminate].
    destruct (alookup (h_oid e0) (st_sobjs s)) as [so|] eqn:Es.
    - intros H. inversion H; subst. cbn [loc_tok]. rewrite Es. eapply I2. apply alookup_In. exact Es.
    - destruct (alookup (h_tok e0) (st_tokens s)) as [t|] eqn:Et; [|discriminate].
      destruct (alookup (h_oid e0) (t_objs t)) as [o|] eqn:Eo; [|discriminate].
      intros H. inversion H; subst. cbn [loc_tok]. eapply I1; [exact Et|]. apply alookup_In. exact Eo.
  Qed.

  (* the only place where two tokens meet: a handle-taking storing call encrypts under the SESSION's
     token; the keys admissible for the object's token and for the session's token must agree *)
  Definition cross_ok (s : state) (o : op) : Prop :=
    match o with
    | OSetAttr h oh _ | OCopy h oh _ =>
        forall x e l ob, get_session s h = Some x -> get_object s oh = Some (e, l, ob) ->
          forall key, K s (loc_tok s l) key <-> K s (s_tok x) key
    | _ => True
    end.

  Theorem step_objs_ok (s : state) (o : op) : inv_encK s -> cross_ok s o -> objs_ok s (fst (step s o)).
  Proof.
    intros Hinv Hc.
    destruct o; cbn [cross_ok] in Hc; unfold step; cbn [fst snd];
    repeat (first [break_match | break_let]; cbn [fst snd]); try (apply objs_ok_refl).
    all: try match goal with H : add_handle _ _ = (_, _) |- _ => unfold add_handle in H; inversion H; subst; clear H end.
    all: try match goal with H : add_obj_handle ?a ?b ?c ?d ?e = (?s1, _) |- _ =>
           assert (E1 : s1 = fst (add_obj_handle a b c d e)) by (rewrite H; reflexivity); clear H; subst s1 end.
    all: try (apply objs_ok_restart).
    all: try (apply objs_ok_close_all).
    all: try (apply objs_ok_upd_frame; reflexivity).
    all: try (apply objs_ok_same; rewrite ?upd_session_tokens, ?upd_session_sobjs; reflexivity).
    all: try (apply objs_ok_reinit; reflexivity).
    all: try (apply objs_ok_fresh; reflexivity).
    all: try (apply objs_ok_del; reflexivity).
    - (* close, other sessions remain *)
      eapply objs_ok_filter with (g := fun p => negb (so_sess (snd p) =? h)); reflexivity.
    - (* logout *)
      eapply objs_ok_frame_filter with (k := s_tok s0) (f := fun t => set_t_login t LNone)
        (g := fun p => negb ((so_tok (snd p) =? s_tok s0) && so_priv (snd p))); [reflexivity|reflexivity|].
      unfold purge_handles. simp_state. rewrite upd_token_sobjs. reflexivity.
    - (* create *)
      eapply objs_ok_eq; [apply add_obj_handle_tokens|apply add_obj_handle_sobjs|]. apply objs_ok_new.
      match goal with H : negb (tmpl_wellformed tm) = false |- _ => apply negb_false_iff in H; rename H into Hwf end.
      match goal with H : save_template _ _ _ _ _ _ = (?n, _), H2 : negb (?n =? CKR_OK) = false |- _ =>
        apply negb_false_iff, N.eqb_eq in H2; subst n; rename H into Hsave end.
      eapply create_obj_ok; [exact Hwf|apply K_tctx|exact Hsave].
    - (* copy *)
      specialize (Hc _ _ _ _ eq_refl eq_refl).
      match goal with H : get_object s _ = Some _ |- _ => pose proof (get_object_ok _ _ _ _ _ Hinv H) as Hob end.
      assert (Hob' : obj_ok (K s (s_tok s0)) o0) by (eapply obj_ok_mono; [|exact Hob]; intros key; apply Hc).
      match goal with H : negb (tmpl_wellformed tm) || _ = false |- _ =>
        apply orb_false_iff in H; destruct H as [Hwf _]; apply negb_false_iff in Hwf end.
      match goal with H : save_template _ _ _ _ _ _ = (?n, _), H2 : negb (?n =? CKR_OK) = false |- _ =>
        apply negb_false_iff, N.eqb_eq in H2; subst n; rename H into Hsave end.
      eapply objs_ok_eq; [apply add_obj_handle_tokens|apply add_obj_handle_sobjs|]. apply objs_ok_new.
      match goal with Hd : o_private o0 && negb _ = false, Hl : _ && _ && negb (tc_logged _) = false |- _ =>
        exact (copy_obj_ok (K s (s_tok s0)) (tctx_of s (s_tok s0)) true tm o0 _ o2 eq_refl Hwf (K_tctx _ _) Hob' Hd Hl Hsave) end.
    - (* setattr *)
      specialize (Hc _ _ _ _ eq_refl eq_refl).
      match goal with H : get_object s _ = Some _ |- _ => pose proof (get_object_ok _ _ _ _ _ Hinv H) as Hob end.
      match goal with H : save_template _ _ _ _ _ _ = (?n, _), H2 : (?n =? CKR_OK) = true |- _ =>
        apply N.eqb_eq in H2; subst n; rename H into Hsave end.
      apply objs_ok_put. eapply set_obj_ok with (tc := tctx_of s (s_tok s0)); [|exact Hob|exact Hsave].
      intros Hl. apply (proj2 (Hc _)). apply K_tctx. exact Hl.
    - (* findinit *)
      match goal with H : find_loop _ _ _ _ _ _ _ _ = Some _ |- _ => apply find_loop_frame in H; destruct H as (F1 & F2 & F3 & F4) end.
      apply objs_ok_same; rewrite ?upd_session_tokens, ?upd_session_sobjs; assumption.
  Qed.

  Theorem step_inv_encK (s : state) (o : op) : inv_encK s -> cross_ok s o -> inv_encK (fst (step s o)).
  Proof.
    intros Hinv Hc. apply inv_from with s; [exact Hinv|intros k key; apply K_step|apply step_objs_ok; assumption].
  Qed.

  (* along a history: every handle-taking storing call satisfies [cross_ok] in the state where it runs *)
  Fixpoint cross_trace (s : state) (ops : list op) : Prop :=
    match ops with
    | [] => True
    | o :: r => cross_ok s o /\ cross_trace (fst (step s o)) r
    end.

  Theorem exec_inv_encK (ops : list op) : forall s, inv_encK s -> cross_trace s ops -> inv_encK (exec s ops).
  Proof.
    unfold exec. induction ops as [|o r IH]; intros s Hinv Hc; cbn [fold_left]; [exact Hinv|].
    destruct Hc as [Hc Hr]. apply IH; [apply step_inv_encK; assumption|exact Hr].
  Qed.
End Enc.

(* ---- instance 1 (every history): ciphertext under the master key of SOME existing token ---------- *)
Definition own_key (s : state) (k key : N) : Prop := tok_key s k = Some key.
Definition live_key (s : state) (k key : N) : Prop := exists j, tok_key s j = Some key.

Lemma own_key_step s o k key : own_key s k key -> own_key (fst (step s o)) k key.
Proof. apply step_keeps_key. Qed.
Lemma own_key_tctx s k : tc_logged (tctx_of s k) = true -> own_key s k (tc_key (tctx_of s k)).
Proof. unfold own_key, tok_key, tctx_of. destruct (alookup k (st_tokens s)); cbn; [reflexivity|discriminate]. Qed.
Lemma live_key_step s o k key : live_key s k key -> live_key (fst (step s o)) k key.
Proof. intros [j H]. exists j. apply step_keeps_key. exact H. Qed.
Lemma live_key_tctx s k : tc_logged (tctx_of s k) = true -> live_key s k (tc_key (tctx_of s k)).
Proof. intros H. exists k. apply own_key_tctx. exact H. Qed.

Definition inv_enc_live : state -> Prop := inv_encK live_key.

Lemma cross_ok_live s o : cross_ok live_key s o.
Proof. destruct o; cbn; auto; intros; reflexivity. Qed.
Lemma cross_trace_live ops : forall s, cross_trace live_key s ops.
Proof. induction ops as [|o r IH]; intros s; cbn; [exact I|]. split; [apply cross_ok_live|apply IH]. Qed.

Lemma inv_enc_live_init : inv_enc_live init_state.
Proof. apply inv_encK_init. Qed.

Theorem step_inv_enc_live (s : state) (o : op) : inv_enc_live s -> inv_enc_live (fst (step s o)).
Proof. intros H. apply (step_inv_encK live_key live_key_step live_key_tctx); [exact H|apply cross_ok_live]. Qed.

Theorem exec_inv_enc_live (ops : list op) (s : state) : inv_enc_live s -> inv_enc_live (exec s ops).
Proof. intros H. apply (exec_inv_encK live_key live_key_step live_key_tctx); [exact H|apply cross_trace_live]. Qed.

Theorem inv_enc_live_reachable (ops : list op) : inv_enc_live (exec init_state ops).
Proof. apply exec_inv_enc_live, inv_enc_live_init. Qed.

(* the same, spelled out: [o] is a token object of some token or a session object of state [s] *)
Definition stored_obj (s : state) (o : obj) : Prop :=
  (exists k t oid, alookup k (st_tokens s) = Some t /\ In (oid, o) (t_objs t)) \/
  (exists oid so, In (oid, so) (st_sobjs s) /\ so_obj so = o).

Theorem private_never_plaintext (ops : list op) (o : obj) :
  let s := exec init_state ops in
  stored_obj s o ->
  (o_private o = true -> forall a enc b, In (a, ABytes enc b) o -> b <> [] ->
     exists key j t, enc = Some key /\ alookup j (st_tokens s) = Some t /\ t_key t = key) /\
  (o_private o = false -> forall a enc b, In (a, ABytes enc b) o -> enc = None).
Proof.
  intros s Hst. destruct (inv_enc_live_reachable ops) as [I1 I2]. fold s in I1, I2.
  assert (Hok : exists k, obj_ok (live_key s k) o).
  { destruct Hst as [(k & t & oid & Hl & Hin)|(oid & so & Hin & <-)]; [exists k; eapply I1; eauto|exists (so_tok so); eapply I2; eauto]. }
  destruct Hok as [k Hok]. unfold obj_ok in Hok. split; intros Hp; rewrite Hp in Hok; intros a enc b Hin.
  - intros Hne. destruct (Hok a _ Hin) as [E|(key & E & j & Hj)]; [contradiction|].
    unfold tok_key in Hj. destruct (alookup j (st_tokens s)) as [t|] eqn:Et; [|discriminate Hj].
    cbn in Hj. inversion Hj. exists key, j, t. auto.
  - exact (Hok a _ Hin).
Qed.

(* ---- instance 2: the object's OWN token, for calls whose session and handle agree on the token --- *)
Definition inv_enc_own : state -> Prop := inv_encK own_key.

Lemma inv_enc_own_spec (s : state) : inv_enc_own s -> inv_enc s.
Proof.
  assert (Hobj : forall k t o, alookup k (st_tokens s) = Some t -> obj_ok (own_key s k) o -> obj_enc_ok (t_key t) o).
  { intros k t o Hl Hok Hp a v Hin. unfold obj_ok in Hok. rewrite Hp in Hok. specialize (Hok a v Hin).
    destruct v; cbn in *; auto. destruct Hok as [E|(key & E & Hk)]; [left; exact E|right].
    unfold own_key, tok_key in Hk. rewrite Hl in Hk. cbn in Hk. congruence. }
  intros [I1 I2]. split.
  - intros k t oid o Hl Hin. eapply Hobj; [exact Hl|eapply I1; eauto].
  - intros oid so t Hin Hl. eapply Hobj; [exact Hl|eapply I2; eauto].
Qed.

(* session and object handle denote the same token ([handle_on] of TokenFacts.v) *)
Definition same_token_op (s : state) (o : op) : Prop :=
  match o with
  | OSetAttr h oh _ | OCopy h oh _ => forall x, get_session s h = Some x -> handle_on s oh (s_tok x)
  | _ => True
  end.

Lemma same_token_cross s o : same_token_op s o -> cross_ok own_key s o.
Proof.
  destruct o; cbn; auto; intros H x e l ob Hx Ho key; destruct (H x Hx e l ob Ho) as [_ Hl];
  (assert (E : loc_tok s l = s_tok x);
   [destruct l as [k oid|oid]; cbn [loc_tok]; [exact Hl|];
    destruct (get_object_sess _ _ _ _ _ Ho) as [so Hso]; rewrite Hso; apply Hl; exact Hso
   |rewrite E; reflexivity]).
Qed.

Lemma inv_enc_own_init : inv_enc_own init_state.
Proof. apply inv_encK_init. Qed.

Theorem step_inv_enc (s : state) (o : op) : inv_enc_own s -> same_token_op s o -> inv_enc_own (fst (step s o)).
Proof. intros H Hc. apply (step_inv_encK own_key own_key_step own_key_tctx); [exact H|apply same_token_cross; exact Hc]. Qed.

Fixpoint same_token_trace (s : state) (ops : list op) : Prop :=
  match ops with
  | [] => True
  | o :: r => same_token_op s o /\ same_token_trace (fst (step s o)) r
  end.

Theorem inv_enc_trace (ops : list op) : forall s, inv_enc_own s -> same_token_trace s ops -> inv_enc_own (exec s ops).
Proof.
  unfold exec. induction ops as [|o r IH]; intros s Hinv Hc; cbn [fold_left]; [exact Hinv|].
  destruct Hc as [Hc Hr]. apply IH; [apply step_inv_enc; assumption|exact Hr].
Qed.

Corollary inv_enc_same_token_reachable (ops : list op) :
  same_token_trace init_state ops -> inv_enc (exec init_state ops).
Proof. intros H. apply inv_enc_own_spec. apply inv_enc_trace; [apply inv_enc_own_init|exact H]. Qed.

(* an executable form of the side condition, for concrete histories *)
Definition same_token_opb (s : state) (o : op) : bool :=
  match o with
  | OSetAttr h oh _ | OCopy h oh _ =>
      match get_session s h, get_object s oh with
      | Some x, Some (e, l, _) => (h_tok e =? s_tok x) && (loc_tok s l =? s_tok x)
      | _, _ => true
      end
  | _ => true
  end.
Fixpoint same_token_traceb (s : state) (ops : list op) : bool :=
  match ops with
  | [] => true
  | o :: r => same_token_opb s o && same_token_traceb (fst (step s o)) r
  end.

Lemma same_token_opb_sound s o : same_token_opb s o = true -> same_token_op s o.
Proof.
  destruct o; cbn; auto; intros H x Hx e l ob Ho; rewrite Hx, Ho in H; apply andb_true_iff in H; destruct H as [H1 H2];
  apply N.eqb_eq in H1; apply N.eqb_eq in H2; (split; [exact H1|]); destruct l as [k oid|oid]; cbn [loc_tok] in H2;
  try exact H2; intros so Hso; rewrite Hso in H2; exact H2.
Qed.
Lemma same_token_traceb_sound ops : forall s, same_token_traceb s ops = true -> same_token_trace s ops.
Proof.
  induction ops as [|o r IH]; intros s; cbn; [auto|]. intros H. apply andb_true_iff in H. destruct H as [H1 H2].
  split; [apply same_token_opb_sound; exact H1|apply IH; exact H2].
Qed.

(* ---- the wanted statement is false: cross-token C_SetAttributeValue / C_CopyObject ----------------- *)
Definition enc_pin : bytes := [49; 50; 51; 52].
Definition enc_upin : bytes := [53; 54; 55; 56].
Definition enc_cls : tentry := mkT CKA_CLASS (Some [0; 0; 0; 0; 0; 0; 0; 0]) 8.
(* tokens 0 and 1 (master keys 1 and 2), one R/W session on each (handles 1 and 2), the user logged in on both *)
Definition enc_two_tokens : list op :=
  [OInit; OInitToken TFree (Some enc_pin) 0; OInitToken TFree (Some enc_pin) 1;
   OOpen (TTok 0) 6; OLogin 1 CKU_SO (Some enc_pin); OInitPin 1 (Some enc_upin); OLogout 1; OLogin 1 CKU_USER (Some enc_upin);
   OOpen (TTok 1) 6; OLogin 2 CKU_SO (Some enc_pin); OInitPin 2 (Some enc_upin); OLogout 2; OLogin 2 CKU_USER (Some enc_upin)].
(* a private token object on token 1 (handle 3) *)
Definition enc_private_on_1 : op :=
  OCreate 2 [enc_cls; mkT CKA_TOKEN (Some [1]) 1; mkT CKA_LABEL (Some [65]) 1; mkT CKA_VALUE (Some [7; 8]) 2].

(* the session of token 0 sets the label of token 1's private object: stored under key 1 inside token 1 (key 2) *)
Definition enc_refute_setattr : list op :=
  enc_two_tokens ++ [enc_private_on_1; OSetAttr 1 3 [mkT CKA_LABEL (Some [66]) 1]].
(* the session of token 0 copies token 1's private object: the copy lives on token 0 (key 1), values under key 2 *)
Definition enc_refute_copy : list op :=
  enc_two_tokens ++ [enc_private_on_1; OCopy 1 3 [mkT CKA_TOKEN (Some [1]) 1]].

Example enc_refute_all_ok :
  map rv_of (run init_state enc_refute_setattr) = map (fun _ => Some CKR_OK) enc_refute_setattr /\
  map rv_of (run init_state enc_refute_copy) = map (fun _ => Some CKR_OK) enc_refute_copy.
Proof. vm_compute. split; reflexivity. Qed.

Definition tok_attr (s : state) (k oid a : N) : option osattr :=
  match alookup k (st_tokens s) with
  | Some t => match alookup oid (t_objs t) with Some o => alookup a o | None => None end
  | None => None
  end.

Lemma tok_attr_In s k oid a v :
  tok_attr s k oid a = Some v -> exists t o, alookup k (st_tokens s) = Some t /\ In (oid, o) (t_objs t) /\ In (a, v) o.
Proof.
  unfold tok_attr. destruct (alookup k (st_tokens s)) as [t|]; [|discriminate].
  destruct (alookup oid (t_objs t)) as [o|] eqn:Eo; [|discriminate]. intros H.
  exists t, o. repeat split; auto using alookup_In.
Qed.

Lemma inv_enc_refuted_by (s : state) (k oid a key key' b0 : N) (b : bytes) :
  tok_key s k = Some key -> key' <> key ->
  tok_attr s k oid a = Some (ABytes (Some key') (b0 :: b)) ->
  tok_attr s k oid CKA_PRIVATE = Some (ABool true) -> ~ inv_enc s.
Proof.
  intros Hk Hne Ha Hp [I1 _]. unfold tok_attr, tok_key in *.
  destruct (alookup k (st_tokens s)) as [t|] eqn:Et; [|discriminate Ha].
  destruct (alookup oid (t_objs t)) as [o|] eqn:Eo; [|discriminate Ha].
  assert (Hpriv : o_private o = true) by (unfold o_private, obj_bool; rewrite Hp; reflexivity).
  destruct (I1 k t oid o Et (alookup_In _ _ _ Eo) Hpriv a _ (alookup_In _ _ _ Ha)) as [E|E]; [discriminate E|].
  cbn in Hk. congruence.
Qed.

Lemma inv_enc_refuted_setattr : ~ inv_enc (exec init_state enc_refute_setattr).
Proof. apply (inv_enc_refuted_by _ 1 1 CKA_LABEL 2 1 66 []); vm_compute; congruence. Qed.

Lemma inv_enc_refuted_copy : ~ inv_enc (exec init_state enc_refute_copy).
Proof. apply (inv_enc_refuted_by _ 0 2 CKA_VALUE 1 2 7 [8]); vm_compute; congruence. Qed.

Theorem inv_enc_refuted : exists ops, ~ inv_enc (exec init_state ops).
Proof. exists enc_refute_setattr. apply inv_enc_refuted_setattr. Qed.

(* both histories break exactly the side condition of [inv_enc_trace] ... *)
Example enc_refute_not_same_token :
  same_token_traceb init_state enc_refute_setattr = false /\ same_token_traceb init_state enc_refute_copy = false.
Proof. vm_compute. split; reflexivity. Qed.
(* ... and what survives in them is [inv_enc_live_reachable]: still a ciphertext, under the other token's key *)

(* ---- a concrete reachable state ------------------------------------------------------------------------ *)
(* token 0 (master key 1), user logged in; object 1: private (default) with CKA_VALUE 07 08; object 2: public
   with CKA_VALUE 09; object 3: the copy of object 2 (handle 3) with CKA_PRIVATE = true *)
Definition enc_example_ops : list op :=
  [OInit; OInitToken TFree (Some enc_pin) 0; OOpen (TTok 0) 6; OLogin 1 CKU_SO (Some enc_pin); OInitPin 1 (Some enc_upin);
   OLogout 1; OLogin 1 CKU_USER (Some enc_upin);
   OCreate 1 [enc_cls; mkT CKA_TOKEN (Some [1]) 1; mkT CKA_VALUE (Some [7; 8]) 2];
   OCreate 1 [enc_cls; mkT CKA_TOKEN (Some [1]) 1; mkT CKA_PRIVATE (Some [0]) 1; mkT CKA_VALUE (Some [9]) 1];
   OCopy 1 3 [mkT CKA_PRIVATE (Some [1]) 1]].

Example enc_example :
  let s := exec init_state enc_example_ops in
  map rv_of (run init_state enc_example_ops) = map (fun _ => Some CKR_OK) enc_example_ops /\
  tok_key s 0 = Some 1 /\
  tok_attr s 0 1 CKA_PRIVATE = Some (ABool true) /\ tok_attr s 0 1 CKA_VALUE = Some (ABytes (Some 1) [7; 8]) /\
  tok_attr s 0 2 CKA_PRIVATE = Some (ABool false) /\ tok_attr s 0 2 CKA_VALUE = Some (ABytes None [9]) /\
  tok_attr s 0 3 CKA_PRIVATE = Some (ABool true) /\ tok_attr s 0 3 CKA_VALUE = Some (ABytes (Some 1) [9]) /\
  same_token_traceb init_state enc_example_ops = true.
Proof. vm_compute. repeat split; reflexivity. Qed.

Corollary enc_example_inv : inv_enc (exec init_state enc_example_ops).
Proof. apply inv_enc_same_token_reachable, same_token_traceb_sound. vm_compute. reflexivity. Qed.

(* ---- why the inductive invariant also says "public objects are clear" ------------------------------ *)
(* [inv_enc] alone is not kept by a step, even a same-token one: in the (unreachable) state below a PUBLIC
   session object holds a ciphertext under a foreign key 99; the public -> private upgrade of C_CopyObject
   re-encrypts clear values only and keeps that ciphertext, now inside a private object.  [inv_enc_own]
   excludes such states ([obj_ok]: public objects are entirely clear) and is inductive ([step_inv_enc]). *)
Definition sobj_attr (s : state) (oid a : N) : option osattr :=
  match alookup oid (st_sobjs s) with Some so => alookup a (so_obj so) | None => None end.
Definition sobj_key (s : state) (oid : N) : option N :=
  match alookup oid (st_sobjs s) with Some so => tok_key s (so_tok so) | None => None end.

Lemma inv_enc_refuted_by_sobj (s : state) (oid a key key' b0 : N) (b : bytes) :
  sobj_key s oid = Some key -> key' <> key ->
  sobj_attr s oid a = Some (ABytes (Some key') (b0 :: b)) ->
  sobj_attr s oid CKA_PRIVATE = Some (ABool true) -> ~ inv_enc s.
Proof.
  intros Hk Hne Ha Hp [_ I2]. unfold sobj_attr, sobj_key, tok_key in *.
  destruct (alookup oid (st_sobjs s)) as [so|] eqn:Es; [|discriminate Ha].
  destruct (alookup (so_tok so) (st_tokens s)) as [t|] eqn:Et; [|discriminate Hk].
  assert (Hpriv : o_private (so_obj so) = true) by (unfold o_private, obj_bool; rewrite Hp; reflexivity).
  destruct (I2 oid so t (alookup_In _ _ _ Es) Et Hpriv a _ (alookup_In _ _ _ Ha)) as [E|E]; [discriminate E|].
  cbn in Hk. congruence.
Qed.

Definition enc_odd_public : obj :=
  [ (CKA_CLASS, AULong CKO_DATA); (CKA_TOKEN, ABool false); (CKA_PRIVATE, ABool false); (CKA_MODIFIABLE, ABool true);
    (CKA_LABEL, ABytes None []); (CKA_COPYABLE, ABool true); (CKA_DESTROYABLE, ABool true);
    (CKA_APPLICATION, ABytes None []); (CKA_OBJECT_ID, ABytes None []); (CKA_VALUE, ABytes (Some 99) [7]) ].
Definition enc_odd_state : state :=
  mkState true [(0, mkToken enc_pin (Some enc_upin) LUser 1 [])] [(1, mkSession 0 true 0 [])]
    [(1, mkHandle CKH_SESSION 0 CK_INVALID_HANDLE false 0); (2, mkHandle CKH_OBJECT 0 1 false 1)] 2
    [(1, mkSObj 0 1 false enc_odd_public)] 2 2.

Lemma inv_enc_alone_not_inductive :
  exists s o, inv_enc s /\ same_token_op s o /\ ~ inv_enc (fst (step s o)).
Proof.
  exists enc_odd_state, (OCopy 1 2 [mkT CKA_PRIVATE (Some [1]) 1]). split; [|split].
  - split.
    + intros k t oid o Hl Hin. unfold enc_odd_state in Hl. cbn [st_tokens alookup] in Hl. destruct (0 =? k); [|discriminate Hl]. inversion Hl; subst t. destruct Hin.
    + intros oid so t [E|[]] _ Hp. inversion E; subst. vm_compute in Hp. discriminate Hp.
  - apply same_token_opb_sound. vm_compute. reflexivity.
  - apply (inv_enc_refuted_by_sobj _ 2 CKA_VALUE 1 99 7 []); vm_compute; congruence.
Qed.
