(* P11/KeyGenFacts.v — what the five secret-key generators of SoftHSM.cpp (generateAES, generateDES, generateDES2, generateDES3,
   generateGeneric; regenerated whole as gen/Gen_Keys.v) do with the object they create: corollaries of the per-function
   theorems KG_<f>.<f>_ok, stated without the record.  For EVERY environment, i.e. whatever the crypto backend, the object
   store and the handle manager answer.  (C06, C08, C09, C11) *)
From Coq Require Import List NArith Bool.
From SoftHSM Require Import Gen_Const Gen_Keys KeyGenSpec KG_index KG_tails.
Import ListNotations.
Local Open Scope N_scope.

Definition OUT_phKey : N := 18446744073709551517.        (* the tag of `*phKey = v`: phKey is parameter 3 of the generators *)
Definition OBJECT_OP_GENERATE : N := 4.

(* C06: the key value that is stored is the output of Token::encrypt exactly when the object is private *)
Theorem generated_value_encrypted_iff_private :
  (forall (e : generateAES.env) v, In (CKA_VALUE, v) (snd (generateAES.app e)) ->
     v = if generateAES.isPrivate e =? 0 then generateAES.key_getKeyBits e else generateAES.token_encrypt_out_value e (generateAES.key_getKeyBits e)) /\
  (forall (e : generateDES.env) v, In (CKA_VALUE, v) (snd (generateDES.app e)) ->
     v = if generateDES.isPrivate e =? 0 then generateDES.key_getKeyBits e else generateDES.token_encrypt_out_value e (generateDES.key_getKeyBits e)) /\
  (forall (e : generateDES2.env) v, In (CKA_VALUE, v) (snd (generateDES2.app e)) ->
     v = if generateDES2.isPrivate e =? 0 then generateDES2.key_getKeyBits e else generateDES2.token_encrypt_out_value e (generateDES2.key_getKeyBits e)) /\
  (forall (e : generateDES3.env) v, In (CKA_VALUE, v) (snd (generateDES3.app e)) ->
     v = if generateDES3.isPrivate e =? 0 then generateDES3.key_getKeyBits e else generateDES3.token_encrypt_out_value e (generateDES3.key_getKeyBits e)) /\
  (forall (e : generateGeneric.env) v, In (CKA_VALUE, v) (snd (generateGeneric.app e)) ->
     v = if generateGeneric.isPrivate e =? 0 then generateGeneric.symKey_getKeyBits e else generateGeneric.token_encrypt_out_value e (generateGeneric.symKey_getKeyBits e)).
Proof. repeat split; intros e v; [ exact (kg_value _ _ _ _ _ _ _ _ _ _ (generateAES_ok e) v) | exact (kg_value _ _ _ _ _ _ _ _ _ _ (generateDES_ok e) v) | exact (kg_value _ _ _ _ _ _ _ _ _ _ (generateDES2_ok e) v) | exact (kg_value _ _ _ _ _ _ _ _ _ _ (generateDES3_ok e) v) | exact (kg_value _ _ _ _ _ _ _ _ _ _ (generateGeneric_ok e) v) ]. Qed.

(* C08: CKA_LOCAL is true, CKA_ALWAYS_SENSITIVE is the new object's CKA_SENSITIVE, CKA_NEVER_EXTRACTABLE the negation of its
   CKA_EXTRACTABLE - whenever they are written, and a successful call has written all three and the value *)
Theorem generated_history_attributes :
  (forall (e : generateAES.env),
     (forall v, In (CKA_LOCAL, v) (snd (generateAES.app e)) -> v = 1) /\
     (forall v, In (CKA_ALWAYS_SENSITIVE, v) (snd (generateAES.app e)) -> v = b2n (negb (generateAES.osobject_getBooleanValue e CKA_SENSITIVE false =? 0))) /\
     (forall v, In (CKA_NEVER_EXTRACTABLE, v) (snd (generateAES.app e)) -> v = b2n (generateAES.osobject_getBooleanValue e CKA_EXTRACTABLE false =? 0)) /\
     (fst (generateAES.app e) = 0 -> (exists v, In (CKA_VALUE, v) (snd (generateAES.app e))) /\ (exists v, In (CKA_LOCAL, v) (snd (generateAES.app e))) /\
                             (exists v, In (CKA_ALWAYS_SENSITIVE, v) (snd (generateAES.app e))) /\ (exists v, In (CKA_NEVER_EXTRACTABLE, v) (snd (generateAES.app e))))) /\
  (forall (e : generateDES.env),
     (forall v, In (CKA_LOCAL, v) (snd (generateDES.app e)) -> v = 1) /\
     (forall v, In (CKA_ALWAYS_SENSITIVE, v) (snd (generateDES.app e)) -> v = b2n (negb (generateDES.osobject_getBooleanValue e CKA_SENSITIVE false =? 0))) /\
     (forall v, In (CKA_NEVER_EXTRACTABLE, v) (snd (generateDES.app e)) -> v = b2n (generateDES.osobject_getBooleanValue e CKA_EXTRACTABLE false =? 0)) /\
     (fst (generateDES.app e) = 0 -> (exists v, In (CKA_VALUE, v) (snd (generateDES.app e))) /\ (exists v, In (CKA_LOCAL, v) (snd (generateDES.app e))) /\
                             (exists v, In (CKA_ALWAYS_SENSITIVE, v) (snd (generateDES.app e))) /\ (exists v, In (CKA_NEVER_EXTRACTABLE, v) (snd (generateDES.app e))))) /\
  (forall (e : generateDES2.env),
     (forall v, In (CKA_LOCAL, v) (snd (generateDES2.app e)) -> v = 1) /\
     (forall v, In (CKA_ALWAYS_SENSITIVE, v) (snd (generateDES2.app e)) -> v = b2n (negb (generateDES2.osobject_getBooleanValue e CKA_SENSITIVE false =? 0))) /\
     (forall v, In (CKA_NEVER_EXTRACTABLE, v) (snd (generateDES2.app e)) -> v = b2n (generateDES2.osobject_getBooleanValue e CKA_EXTRACTABLE false =? 0)) /\
     (fst (generateDES2.app e) = 0 -> (exists v, In (CKA_VALUE, v) (snd (generateDES2.app e))) /\ (exists v, In (CKA_LOCAL, v) (snd (generateDES2.app e))) /\
                             (exists v, In (CKA_ALWAYS_SENSITIVE, v) (snd (generateDES2.app e))) /\ (exists v, In (CKA_NEVER_EXTRACTABLE, v) (snd (generateDES2.app e))))) /\
  (forall (e : generateDES3.env),
     (forall v, In (CKA_LOCAL, v) (snd (generateDES3.app e)) -> v = 1) /\
     (forall v, In (CKA_ALWAYS_SENSITIVE, v) (snd (generateDES3.app e)) -> v = b2n (negb (generateDES3.osobject_getBooleanValue e CKA_SENSITIVE false =? 0))) /\
     (forall v, In (CKA_NEVER_EXTRACTABLE, v) (snd (generateDES3.app e)) -> v = b2n (generateDES3.osobject_getBooleanValue e CKA_EXTRACTABLE false =? 0)) /\
     (fst (generateDES3.app e) = 0 -> (exists v, In (CKA_VALUE, v) (snd (generateDES3.app e))) /\ (exists v, In (CKA_LOCAL, v) (snd (generateDES3.app e))) /\
                             (exists v, In (CKA_ALWAYS_SENSITIVE, v) (snd (generateDES3.app e))) /\ (exists v, In (CKA_NEVER_EXTRACTABLE, v) (snd (generateDES3.app e))))) /\
  (forall (e : generateGeneric.env),
     (forall v, In (CKA_LOCAL, v) (snd (generateGeneric.app e)) -> v = 1) /\
     (forall v, In (CKA_ALWAYS_SENSITIVE, v) (snd (generateGeneric.app e)) -> v = b2n (negb (generateGeneric.osobject_getBooleanValue e CKA_SENSITIVE false =? 0))) /\
     (forall v, In (CKA_NEVER_EXTRACTABLE, v) (snd (generateGeneric.app e)) -> v = b2n (generateGeneric.osobject_getBooleanValue e CKA_EXTRACTABLE false =? 0)) /\
     (fst (generateGeneric.app e) = 0 -> (exists v, In (CKA_VALUE, v) (snd (generateGeneric.app e))) /\ (exists v, In (CKA_LOCAL, v) (snd (generateGeneric.app e))) /\
                             (exists v, In (CKA_ALWAYS_SENSITIVE, v) (snd (generateGeneric.app e))) /\ (exists v, In (CKA_NEVER_EXTRACTABLE, v) (snd (generateGeneric.app e))))).
Proof.
  repeat match goal with |- _ /\ _ => split end; intros e;
    [ pose proof (generateAES_ok e) as K | pose proof (generateDES_ok e) as K | pose proof (generateDES2_ok e) as K
    | pose proof (generateDES3_ok e) as K | pose proof (generateGeneric_ok e) as K ];
    (split; [exact (kg_local _ _ _ _ _ _ _ _ _ _ K) | split; [exact (kg_asens _ _ _ _ _ _ _ _ _ _ K) | split; [exact (kg_nextr _ _ _ _ _ _ _ _ _ _ K) |
     intros Hok; destruct (kg_ok_stored _ _ _ _ _ _ _ _ _ _ K Hok) as (Hv & Hr); split; [exact (Hv I) | exact Hr]]]]).
Qed.

(* C09: a call that fails after CreateObject looks the object up, unregisters its handle, destroys it and hands the caller
   CK_INVALID_HANDLE - in this order, as the last thing it does; a call that succeeds destroys and aborts nothing and has
   committed the transaction on the object it created *)
Theorem generated_failure_undoes_success_commits :
  (forall (e : generateAES.env), let h := generateAES.CreateObject_sets_phKey e in let g := generateAES.handleManager_getObject e in
     (fst (generateAES.app e) <> 0 -> In (T_CREATE, OBJECT_OP_GENERATE) (snd (generateAES.app e)) -> h <> 0 -> exists pre, snd (generateAES.app e) = cleanup OUT_phKey h g ++ pre) /\
     (fst (generateAES.app e) <> 0 -> last_out OUT_phKey (snd (generateAES.app e)) = Some 0 \/ last_out OUT_phKey (snd (generateAES.app e)) = None) /\
     (fst (generateAES.app e) = 0 -> (forall t v, In (t, v) (snd (generateAES.app e)) -> t <> T_HMD /\ t <> T_OBJD /\ t <> T_ABORT) /\
        In (T_CREATE, OBJECT_OP_GENERATE) (snd (generateAES.app e)) /\ In (T_TXS, g h) (snd (generateAES.app e)) /\ In (T_COMMIT, g h) (snd (generateAES.app e)))) /\
  (forall (e : generateDES.env), let h := generateDES.CreateObject_sets_phKey e in let g := generateDES.handleManager_getObject e in
     (fst (generateDES.app e) <> 0 -> In (T_CREATE, OBJECT_OP_GENERATE) (snd (generateDES.app e)) -> h <> 0 -> exists pre, snd (generateDES.app e) = cleanup OUT_phKey h g ++ pre) /\
     (fst (generateDES.app e) <> 0 -> last_out OUT_phKey (snd (generateDES.app e)) = Some 0 \/ last_out OUT_phKey (snd (generateDES.app e)) = None) /\
     (fst (generateDES.app e) = 0 -> (forall t v, In (t, v) (snd (generateDES.app e)) -> t <> T_HMD /\ t <> T_OBJD /\ t <> T_ABORT) /\
        In (T_CREATE, OBJECT_OP_GENERATE) (snd (generateDES.app e)) /\ In (T_TXS, g h) (snd (generateDES.app e)) /\ In (T_COMMIT, g h) (snd (generateDES.app e)))) /\
  (forall (e : generateDES2.env), let h := generateDES2.CreateObject_sets_phKey e in let g := generateDES2.handleManager_getObject e in
     (fst (generateDES2.app e) <> 0 -> In (T_CREATE, OBJECT_OP_GENERATE) (snd (generateDES2.app e)) -> h <> 0 -> exists pre, snd (generateDES2.app e) = cleanup OUT_phKey h g ++ pre) /\
     (fst (generateDES2.app e) <> 0 -> last_out OUT_phKey (snd (generateDES2.app e)) = Some 0 \/ last_out OUT_phKey (snd (generateDES2.app e)) = None) /\
     (fst (generateDES2.app e) = 0 -> (forall t v, In (t, v) (snd (generateDES2.app e)) -> t <> T_HMD /\ t <> T_OBJD /\ t <> T_ABORT) /\
        In (T_CREATE, OBJECT_OP_GENERATE) (snd (generateDES2.app e)) /\ In (T_TXS, g h) (snd (generateDES2.app e)) /\ In (T_COMMIT, g h) (snd (generateDES2.app e)))) /\
  (forall (e : generateDES3.env), let h := generateDES3.CreateObject_sets_phKey e in let g := generateDES3.handleManager_getObject e in
     (fst (generateDES3.app e) <> 0 -> In (T_CREATE, OBJECT_OP_GENERATE) (snd (generateDES3.app e)) -> h <> 0 -> exists pre, snd (generateDES3.app e) = cleanup OUT_phKey h g ++ pre) /\
     (fst (generateDES3.app e) <> 0 -> last_out OUT_phKey (snd (generateDES3.app e)) = Some 0 \/ last_out OUT_phKey (snd (generateDES3.app e)) = None) /\
     (fst (generateDES3.app e) = 0 -> (forall t v, In (t, v) (snd (generateDES3.app e)) -> t <> T_HMD /\ t <> T_OBJD /\ t <> T_ABORT) /\
        In (T_CREATE, OBJECT_OP_GENERATE) (snd (generateDES3.app e)) /\ In (T_TXS, g h) (snd (generateDES3.app e)) /\ In (T_COMMIT, g h) (snd (generateDES3.app e)))) /\
  (forall (e : generateGeneric.env), let h := generateGeneric.CreateObject_sets_phKey e in let g := generateGeneric.handleManager_getObject e in
     (fst (generateGeneric.app e) <> 0 -> In (T_CREATE, OBJECT_OP_GENERATE) (snd (generateGeneric.app e)) -> h <> 0 -> exists pre, snd (generateGeneric.app e) = cleanup OUT_phKey h g ++ pre) /\
     (fst (generateGeneric.app e) <> 0 -> last_out OUT_phKey (snd (generateGeneric.app e)) = Some 0 \/ last_out OUT_phKey (snd (generateGeneric.app e)) = None) /\
     (fst (generateGeneric.app e) = 0 -> (forall t v, In (t, v) (snd (generateGeneric.app e)) -> t <> T_HMD /\ t <> T_OBJD /\ t <> T_ABORT) /\
        In (T_CREATE, OBJECT_OP_GENERATE) (snd (generateGeneric.app e)) /\ In (T_TXS, g h) (snd (generateGeneric.app e)) /\ In (T_COMMIT, g h) (snd (generateGeneric.app e)))).
Proof.
  repeat match goal with |- _ /\ _ => split end; intros e;
    [ pose proof (generateAES_ok e) as K | pose proof (generateDES_ok e) as K | pose proof (generateDES2_ok e) as K
    | pose proof (generateDES3_ok e) as K | pose proof (generateGeneric_ok e) as K ];
    cbv zeta; (split; [exact (kg_fail_clean _ _ _ _ _ _ _ _ _ _ K) | split; [exact (kg_fail_handle _ _ _ _ _ _ _ _ _ _ K) |
     intros Hok; split; [exact (kg_ok_keeps _ _ _ _ _ _ _ _ _ _ K Hok) | exact (kg_ok_commits _ _ _ _ _ _ _ _ _ _ K Hok)]]]).
Qed.

(* C11: the only handle such a call ever unregisters is the one CreateObject gave it, the only object it ever destroys the one
   registered under that handle - never what the caller's variable held on entry *)
Theorem generated_destroys_only_its_own :
  (forall (e : generateAES.env),
     (forall x, In (T_HMD, x) (snd (generateAES.app e)) -> x = generateAES.CreateObject_sets_phKey e) /\
     (forall o, In (T_OBJD, o) (snd (generateAES.app e)) -> o = generateAES.handleManager_getObject e (generateAES.CreateObject_sets_phKey e))) /\
  (forall (e : generateDES.env),
     (forall x, In (T_HMD, x) (snd (generateDES.app e)) -> x = generateDES.CreateObject_sets_phKey e) /\
     (forall o, In (T_OBJD, o) (snd (generateDES.app e)) -> o = generateDES.handleManager_getObject e (generateDES.CreateObject_sets_phKey e))) /\
  (forall (e : generateDES2.env),
     (forall x, In (T_HMD, x) (snd (generateDES2.app e)) -> x = generateDES2.CreateObject_sets_phKey e) /\
     (forall o, In (T_OBJD, o) (snd (generateDES2.app e)) -> o = generateDES2.handleManager_getObject e (generateDES2.CreateObject_sets_phKey e))) /\
  (forall (e : generateDES3.env),
     (forall x, In (T_HMD, x) (snd (generateDES3.app e)) -> x = generateDES3.CreateObject_sets_phKey e) /\
     (forall o, In (T_OBJD, o) (snd (generateDES3.app e)) -> o = generateDES3.handleManager_getObject e (generateDES3.CreateObject_sets_phKey e))) /\
  (forall (e : generateGeneric.env),
     (forall x, In (T_HMD, x) (snd (generateGeneric.app e)) -> x = generateGeneric.CreateObject_sets_phKey e) /\
     (forall o, In (T_OBJD, o) (snd (generateGeneric.app e)) -> o = generateGeneric.handleManager_getObject e (generateGeneric.CreateObject_sets_phKey e))).
Proof.
  repeat match goal with |- _ /\ _ => split end; intros e;
    [ pose proof (generateAES_ok e) as K | pose proof (generateDES_ok e) as K | pose proof (generateDES2_ok e) as K
    | pose proof (generateDES3_ok e) as K | pose proof (generateGeneric_ok e) as K ];
    (split; [exact (kg_own_handle _ _ _ _ _ _ _ _ _ _ K) | exact (kg_own_object _ _ _ _ _ _ _ _ _ _ K)]).
Qed.

(* ---- C_UnwrapKey, regenerated whole (Gen_Keys.C_UnwrapKey): the same for the key object it creates ------------------------- *)
Definition OUT_hKey : N := 18446744073709551513.         (* the tag of `*hKey = v`: hKey is parameter 7 of C_UnwrapKey *)
Definition OBJECT_OP_UNWRAP : N := 6.

(* C06 / C13: the unwrapped secret key's value is stored as the output of Token::encrypt whenever the new object is private;
   C08 / C13: an unwrapped key is not CKA_LOCAL, was not always sensitive, not never extractable *)
Theorem unwrapped_key_attributes (e : C_UnwrapKey.env) :
  (forall v, In (CKA_VALUE, v) (snd (C_UnwrapKey.app e)) -> C_UnwrapKey.extractObjectInformation_gives_isPrivate e <> 0 -> exists x, v = C_UnwrapKey.token_encrypt_out_value e x) /\
  (forall v, In (CKA_LOCAL, v) (snd (C_UnwrapKey.app e)) -> v = 0) /\
  (forall v, In (CKA_ALWAYS_SENSITIVE, v) (snd (C_UnwrapKey.app e)) -> v = 0) /\
  (forall v, In (CKA_NEVER_EXTRACTABLE, v) (snd (C_UnwrapKey.app e)) -> v = 0) /\
  (fst (C_UnwrapKey.app e) = 0 -> (C_UnwrapKey.extractObjectInformation_gives_objClass e = CKO_SECRET_KEY -> exists v, In (CKA_VALUE, v) (snd (C_UnwrapKey.app e))) /\
     (exists v, In (CKA_LOCAL, v) (snd (C_UnwrapKey.app e))) /\ (exists v, In (CKA_ALWAYS_SENSITIVE, v) (snd (C_UnwrapKey.app e))) /\
     (exists v, In (CKA_NEVER_EXTRACTABLE, v) (snd (C_UnwrapKey.app e)))).
Proof.
  pose proof (C_UnwrapKey_ok e) as K.
  split; [| split; [exact (kg_local _ _ _ _ _ _ _ _ _ _ K) | split; [exact (kg_asens _ _ _ _ _ _ _ _ _ _ K) | split; [exact (kg_nextr _ _ _ _ _ _ _ _ _ _ K) | exact (kg_ok_stored _ _ _ _ _ _ _ _ _ _ K)]]]].
  intros v Hin Hp. pose proof (kg_value _ _ _ _ _ _ _ _ _ _ K v Hin) as Hv. cbv beta in Hv.
  destruct (C_UnwrapKey.extractObjectInformation_gives_isPrivate e =? 0) eqn:E; [apply N.eqb_eq in E; contradiction | exact Hv].
Qed.

(* C09 / C11: failure after CreateObject undoes exactly the object it created, success commits and destroys nothing *)
Theorem unwrap_failure_undoes_success_commits (e : C_UnwrapKey.env) :
  let h := C_UnwrapKey.CreateObject_sets_hKey e in let g := C_UnwrapKey.handleManager_getObject e in
  (fst (C_UnwrapKey.app e) <> 0 -> In (T_CREATE, OBJECT_OP_UNWRAP) (snd (C_UnwrapKey.app e)) -> h <> 0 -> exists pre, snd (C_UnwrapKey.app e) = cleanup OUT_hKey h g ++ pre) /\
  (fst (C_UnwrapKey.app e) <> 0 -> last_out OUT_hKey (snd (C_UnwrapKey.app e)) = Some 0 \/ last_out OUT_hKey (snd (C_UnwrapKey.app e)) = None) /\
  (fst (C_UnwrapKey.app e) = 0 -> (forall t v, In (t, v) (snd (C_UnwrapKey.app e)) -> t <> T_HMD /\ t <> T_OBJD /\ t <> T_ABORT) /\
     In (T_CREATE, OBJECT_OP_UNWRAP) (snd (C_UnwrapKey.app e)) /\ In (T_TXS, g h) (snd (C_UnwrapKey.app e)) /\ In (T_COMMIT, g h) (snd (C_UnwrapKey.app e))) /\
  (forall x, In (T_HMD, x) (snd (C_UnwrapKey.app e)) -> x = h) /\
  (forall o, In (T_OBJD, o) (snd (C_UnwrapKey.app e)) -> o = g h).
Proof.
  pose proof (C_UnwrapKey_ok e) as K. cbv zeta.
  split; [exact (kg_fail_clean _ _ _ _ _ _ _ _ _ _ K) | split; [exact (kg_fail_handle _ _ _ _ _ _ _ _ _ _ K) | split; [| split; [exact (kg_own_handle _ _ _ _ _ _ _ _ _ _ K) | exact (kg_own_object _ _ _ _ _ _ _ _ _ _ K)]]]].
  intros Hok; split; [exact (kg_ok_keeps _ _ _ _ _ _ _ _ _ _ K Hok) | exact (kg_ok_commits _ _ _ _ _ _ _ _ _ _ K Hok)].
Qed.

(* ---- PARTIAL: the clean-up tails of all 18 key-creating functions, each in isolation -------------------------------------------
   `<f>_tail e d rv acc r` (generated, gen/KG_tails.v) says that r is what the continuation of <f> that begins with
   `if (rv != CKR_OK)` and unregisters a handle returns when entered with `*phKey` = d, the return code rv and the effects acc.
   For every environment that continuation returns rv unchanged and, when rv is not CKR_OK, for each handle variable that is
   not CK_INVALID_HANDLE: look-up, unregistration, destruction of the object found, CK_INVALID_HANDLE to the caller - the
   private key's handle first, then the public key's, for the key-pair generators.  What is missing for the full statement
   (proved above for six functions): that every failing path after CreateObject reaches this continuation with the handle
   CreateObject produced - the key-pair generators and the derive functions are not yet executed symbolically to their end. *)
Theorem cleanup_tails_partial :
  (forall (e : generateAES.env) (drf_phKey : N) (rv : N) (acc : list (N * N)) (r : R), generateAES_tail e drf_phKey rv acc r ->
     r = (rv, (if rv =? 0 then [] else (if drf_phKey =? 0 then [] else cleanup 18446744073709551517 drf_phKey (generateAES.handleManager_getObject e))) ++ acc)) /\
  (forall (e : generateDES.env) (drf_phKey : N) (rv : N) (acc : list (N * N)) (r : R), generateDES_tail e drf_phKey rv acc r ->
     r = (rv, (if rv =? 0 then [] else (if drf_phKey =? 0 then [] else cleanup 18446744073709551517 drf_phKey (generateDES.handleManager_getObject e))) ++ acc)) /\
  (forall (e : generateDES2.env) (drf_phKey : N) (rv : N) (acc : list (N * N)) (r : R), generateDES2_tail e drf_phKey rv acc r ->
     r = (rv, (if rv =? 0 then [] else (if drf_phKey =? 0 then [] else cleanup 18446744073709551517 drf_phKey (generateDES2.handleManager_getObject e))) ++ acc)) /\
  (forall (e : generateDES3.env) (drf_phKey : N) (rv : N) (acc : list (N * N)) (r : R), generateDES3_tail e drf_phKey rv acc r ->
     r = (rv, (if rv =? 0 then [] else (if drf_phKey =? 0 then [] else cleanup 18446744073709551517 drf_phKey (generateDES3.handleManager_getObject e))) ++ acc)) /\
  (forall (e : generateGeneric.env) (drf_phKey : N) (rv : N) (acc : list (N * N)) (r : R), generateGeneric_tail e drf_phKey rv acc r ->
     r = (rv, (if rv =? 0 then [] else (if drf_phKey =? 0 then [] else cleanup 18446744073709551517 drf_phKey (generateGeneric.handleManager_getObject e))) ++ acc)) /\
  (forall (e : generateRSA.env) (drf_phPublicKey : N) (drf_phPrivateKey : N) (rv : N) (acc : list (N * N)) (r : R), generateRSA_tail e drf_phPublicKey drf_phPrivateKey rv acc r ->
     r = (rv, (if rv =? 0 then [] else (if drf_phPublicKey =? 0 then [] else cleanup 18446744073709551515 drf_phPublicKey (generateRSA.handleManager_getObject e)) ++ (if drf_phPrivateKey =? 0 then [] else cleanup 18446744073709551514 drf_phPrivateKey (generateRSA.handleManager_getObject e))) ++ acc)) /\
  (forall (e : generateDSA.env) (drf_phPublicKey : N) (drf_phPrivateKey : N) (rv : N) (acc : list (N * N)) (r : R), generateDSA_tail e drf_phPublicKey drf_phPrivateKey rv acc r ->
     r = (rv, (if rv =? 0 then [] else (if drf_phPublicKey =? 0 then [] else cleanup 18446744073709551515 drf_phPublicKey (generateDSA.handleManager_getObject e)) ++ (if drf_phPrivateKey =? 0 then [] else cleanup 18446744073709551514 drf_phPrivateKey (generateDSA.handleManager_getObject e))) ++ acc)) /\
  (forall (e : generateDSAParameters.env) (drf_phKey : N) (rv : N) (acc : list (N * N)) (r : R), generateDSAParameters_tail e drf_phKey rv acc r ->
     r = (rv, (if rv =? 0 then [] else (if drf_phKey =? 0 then [] else cleanup 18446744073709551517 drf_phKey (generateDSAParameters.handleManager_getObject e))) ++ acc)) /\
  (forall (e : generateEC.env) (drf_phPublicKey : N) (drf_phPrivateKey : N) (rv : N) (acc : list (N * N)) (r : R), generateEC_tail e drf_phPublicKey drf_phPrivateKey rv acc r ->
     r = (rv, (if rv =? 0 then [] else (if drf_phPublicKey =? 0 then [] else cleanup 18446744073709551515 drf_phPublicKey (generateEC.handleManager_getObject e)) ++ (if drf_phPrivateKey =? 0 then [] else cleanup 18446744073709551514 drf_phPrivateKey (generateEC.handleManager_getObject e))) ++ acc)) /\
  (forall (e : generateED.env) (drf_phPublicKey : N) (drf_phPrivateKey : N) (rv : N) (acc : list (N * N)) (r : R), generateED_tail e drf_phPublicKey drf_phPrivateKey rv acc r ->
     r = (rv, (if rv =? 0 then [] else (if drf_phPublicKey =? 0 then [] else cleanup 18446744073709551515 drf_phPublicKey (generateED.handleManager_getObject e)) ++ (if drf_phPrivateKey =? 0 then [] else cleanup 18446744073709551514 drf_phPrivateKey (generateED.handleManager_getObject e))) ++ acc)) /\
  (forall (e : generateDH.env) (drf_phPublicKey : N) (drf_phPrivateKey : N) (rv : N) (acc : list (N * N)) (r : R), generateDH_tail e drf_phPublicKey drf_phPrivateKey rv acc r ->
     r = (rv, (if rv =? 0 then [] else (if drf_phPublicKey =? 0 then [] else cleanup 18446744073709551515 drf_phPublicKey (generateDH.handleManager_getObject e)) ++ (if drf_phPrivateKey =? 0 then [] else cleanup 18446744073709551514 drf_phPrivateKey (generateDH.handleManager_getObject e))) ++ acc)) /\
  (forall (e : generateDHParameters.env) (drf_phKey : N) (rv : N) (acc : list (N * N)) (r : R), generateDHParameters_tail e drf_phKey rv acc r ->
     r = (rv, (if rv =? 0 then [] else (if drf_phKey =? 0 then [] else cleanup 18446744073709551517 drf_phKey (generateDHParameters.handleManager_getObject e))) ++ acc)) /\
  (forall (e : generateGOST.env) (drf_phPublicKey : N) (drf_phPrivateKey : N) (rv : N) (acc : list (N * N)) (r : R), generateGOST_tail e drf_phPublicKey drf_phPrivateKey rv acc r ->
     r = (rv, (if rv =? 0 then [] else (if drf_phPublicKey =? 0 then [] else cleanup 18446744073709551515 drf_phPublicKey (generateGOST.handleManager_getObject e)) ++ (if drf_phPrivateKey =? 0 then [] else cleanup 18446744073709551514 drf_phPrivateKey (generateGOST.handleManager_getObject e))) ++ acc)) /\
  (forall (e : deriveDH.env) (drf_phKey : N) (rv : N) (acc : list (N * N)) (r : R), deriveDH_tail e drf_phKey rv acc r ->
     r = (rv, (if rv =? 0 then [] else (if drf_phKey =? 0 then [] else cleanup 18446744073709551515 drf_phKey (deriveDH.handleManager_getObject e))) ++ acc)) /\
  (forall (e : deriveECDH.env) (drf_phKey : N) (rv : N) (acc : list (N * N)) (r : R), deriveECDH_tail e drf_phKey rv acc r ->
     r = (rv, (if rv =? 0 then [] else (if drf_phKey =? 0 then [] else cleanup 18446744073709551515 drf_phKey (deriveECDH.handleManager_getObject e))) ++ acc)) /\
  (forall (e : deriveEDDSA.env) (drf_phKey : N) (rv : N) (acc : list (N * N)) (r : R), deriveEDDSA_tail e drf_phKey rv acc r ->
     r = (rv, (if rv =? 0 then [] else (if drf_phKey =? 0 then [] else cleanup 18446744073709551515 drf_phKey (deriveEDDSA.handleManager_getObject e))) ++ acc)) /\
  (forall (e : deriveSymmetric.env) (drf_phKey : N) (rv : N) (acc : list (N * N)) (r : R), deriveSymmetric_tail e drf_phKey rv acc r ->
     r = (rv, (if rv =? 0 then [] else (if drf_phKey =? 0 then [] else cleanup 18446744073709551515 drf_phKey (deriveSymmetric.handleManager_getObject e))) ++ acc)) /\
  (forall (e : C_UnwrapKey.env) (drf_hKey : N) (rv : N) (acc : list (N * N)) (r : R), C_UnwrapKey_tail e drf_hKey rv acc r ->
     r = (rv, (if rv =? 0 then [] else (if drf_hKey =? 0 then [] else cleanup 18446744073709551513 drf_hKey (C_UnwrapKey.handleManager_getObject e))) ++ acc)).
Proof.
  repeat match goal with |- _ /\ _ => split end.
  - exact generateAES_cleanup_tail.
  - exact generateDES_cleanup_tail.
  - exact generateDES2_cleanup_tail.
  - exact generateDES3_cleanup_tail.
  - exact generateGeneric_cleanup_tail.
  - exact generateRSA_cleanup_tail.
  - exact generateDSA_cleanup_tail.
  - exact generateDSAParameters_cleanup_tail.
  - exact generateEC_cleanup_tail.
  - exact generateED_cleanup_tail.
  - exact generateDH_cleanup_tail.
  - exact generateDHParameters_cleanup_tail.
  - exact generateGOST_cleanup_tail.
  - exact deriveDH_cleanup_tail.
  - exact deriveECDH_cleanup_tail.
  - exact deriveEDDSA_cleanup_tail.
  - exact deriveSymmetric_cleanup_tail.
  - exact C_UnwrapKey_cleanup_tail.
Qed.

(* the premises are met somewhere: an environment in which generateAES gets as far as creating the object (handle 7, object 9)
   and then cannot start the transaction: it fails with CKR_FUNCTION_FAILED and ends with the clean-up of exactly that object *)
Definition aes_failing_env : generateAES.env :=
  fold_right (fun f e => f e) generateAES.default
    [ generateAES.set_handleManager_getSession (fun _ => 1); generateAES.set_session_getToken 1; generateAES.set_hv1_keyLen 16;
      generateAES.set_i_getSymmetricAlgorithm (fun _ => 1); generateAES.set_i_getRNG 1; generateAES.set_aes_generateKey (fun _ _ => 1);
      generateAES.set_CreateObject_sets_phKey 7; generateAES.set_handleManager_getObject (fun _ => 9); generateAES.set_osobject_isValid 1 ].
Example generateAES_failing_run :
  fst (generateAES.app aes_failing_env) = 6 /\ In (T_CREATE, OBJECT_OP_GENERATE) (snd (generateAES.app aes_failing_env)) /\
  exists pre, snd (generateAES.app aes_failing_env) = cleanup OUT_phKey 7 (fun _ => 9) ++ pre.
Proof. vm_compute. split; [reflexivity | split; [ repeat (first [ left; reflexivity | right ]) | eexists; reflexivity ] ]. Qed.
