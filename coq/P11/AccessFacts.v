(* P11/AccessFacts.v — facts about the REGENERATED access matrix and session-state function
   (gen/Gen_Pure.v: haveRead, haveWrite from access.cpp; Session::getState).  These proofs are re-checked
   against whatever the current sources translate to. *)
From Coq Require Import List NArith Bool Lia.
From SoftHSM Require Import Gen_Const Gen_Pure Defs Core.
Import ListNotations.
Local Open Scope N_scope.

Definition is_user_state (st : N) : bool := (st =? CKS_RO_USER_FUNCTIONS) || (st =? CKS_RW_USER_FUNCTIONS).
Definition is_rw_state (st : N) : bool := (st =? CKS_RW_PUBLIC_SESSION) || (st =? CKS_RW_USER_FUNCTIONS) || (st =? CKS_RW_SO_FUNCTIONS).

(* the five states PKCS#11 knows; every other value is answered with an error *)
Lemma haveRead_cases (st t p : N) :
  gen_haveRead st t p = CKR_OK -> (p = 0 \/ is_user_state st = true).
Proof.
  unfold gen_haveRead, is_user_state. cbv [CKS_RO_USER_FUNCTIONS CKS_RW_USER_FUNCTIONS CKR_OK].
  destruct (st =? 0) eqn:E0; destruct (st =? 2) eqn:E2; destruct (st =? 4) eqn:E4;
  destruct (st =? 1) eqn:E1; destruct (st =? 3) eqn:E3; cbn;
  destruct (p =? 0) eqn:Ep; cbn; intros H; try discriminate;
  try (left; apply N.eqb_eq; assumption); try (right; reflexivity).
Qed.

Lemma haveRead_private_needs_user (st : N) (tok : bool) :
  have_read st tok true = CKR_OK -> is_user_state st = true.
Proof.
  unfold have_read. intros H. apply haveRead_cases in H. destruct H as [H|H]; [discriminate H|exact H].
Qed.

Lemma haveWrite_cases (st t p : N) :
  gen_haveWrite st t p = CKR_OK ->
  (p = 0 \/ is_user_state st = true) /\ (t = 0 \/ is_rw_state st = true).
Proof.
  unfold gen_haveWrite, is_user_state, is_rw_state.
  cbv [CKS_RO_USER_FUNCTIONS CKS_RW_USER_FUNCTIONS CKS_RW_PUBLIC_SESSION CKS_RW_SO_FUNCTIONS CKR_OK].
  destruct (st =? 0) eqn:E0; destruct (st =? 2) eqn:E2; destruct (st =? 4) eqn:E4;
  destruct (st =? 1) eqn:E1; destruct (st =? 3) eqn:E3; cbn;
  destruct (p =? 0) eqn:Ep; destruct (t =? 0) eqn:Et; cbn; intros H; try discriminate;
  (split; [ try (left; apply N.eqb_eq; assumption); try (right; reflexivity)
          | try (left; apply N.eqb_eq; assumption); try (right; reflexivity) ]).
Qed.

Lemma haveWrite_private_needs_user (st : N) (tok : bool) :
  have_write st tok true = CKR_OK -> is_user_state st = true.
Proof.
  unfold have_write. intros H. apply haveWrite_cases in H. destruct H as [[H|H] _]; [discriminate H|exact H].
Qed.

Lemma haveWrite_token_needs_rw (st : N) (priv : bool) :
  have_write st true priv = CKR_OK -> is_rw_state st = true.
Proof.
  unfold have_write. intros H. apply haveWrite_cases in H. destruct H as [_ [H|H]]; [discriminate H|exact H].
Qed.

(* Session::getState *)
Lemma getState_user (rw so us : bool) :
  is_user_state (gen_Session__getState rw so us) = true <-> (so = false /\ us = true).
Proof. destruct rw, so, us; vm_compute; intuition congruence. Qed.

Lemma getState_so (rw so us : bool) :
  gen_Session__getState rw so us = CKS_RW_SO_FUNCTIONS <-> so = true.
Proof. destruct rw, so, us; vm_compute; intuition congruence. Qed.

Lemma getState_rw (rw so us : bool) :
  is_rw_state (gen_Session__getState rw so us) = true <-> (rw = true \/ so = true).
Proof. destruct rw, so, us; vm_compute; intuition congruence. Qed.

Lemma getState_range (rw so us : bool) :
  gen_Session__getState rw so us <= 4.
Proof. destruct rw, so, us; vm_compute; congruence. Qed.

Lemma sess_state_user (s : state) (x : session) :
  is_user_state (sess_state s x) = true <-> tok_login s (s_tok x) = LUser.
Proof.
  unfold sess_state. rewrite getState_user. destruct (tok_login s (s_tok x)); cbn; intuition congruence.
Qed.

Lemma sess_state_so (s : state) (x : session) :
  sess_state s x = CKS_RW_SO_FUNCTIONS <-> tok_login s (s_tok x) = LSO.
Proof.
  unfold sess_state. rewrite getState_so. destruct (tok_login s (s_tok x)); cbn; intuition congruence.
Qed.

Lemma sess_state_rw (s : state) (x : session) :
  is_rw_state (sess_state s x) = true <-> (s_rw x = true \/ tok_login s (s_tok x) = LSO).
Proof.
  unfold sess_state. rewrite getState_rw. destruct (tok_login s (s_tok x)); cbn; intuition congruence.
Qed.
