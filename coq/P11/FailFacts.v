(* P11/FailFacts.v — failing calls along a history (C09) *)
From Coq Require Import List NArith Bool.
From SoftHSM Require Import Gen_Const Gen_Pure Defs Core AccessFacts StepFacts.
Import ListNotations.
Local Open Scope N_scope.

Definition succeeded (s : state) (o : op) : bool :=
  match rv_of (snd (step s o)) with Some rv => rv =? CKR_OK | None => true end.
Fixpoint drop_failed (s : state) (ops : list op) : list op :=
  match ops with
  | [] => []
  | o :: r => if succeeded s o then o :: drop_failed (fst (step s o)) r else drop_failed s r
  end.
Theorem failed_calls_are_invisible : forall ops s, exec s ops = exec s (drop_failed s ops).
Proof.
  induction ops as [|o r IH]; intros s; [reflexivity|].
  cbn [drop_failed]. unfold succeeded. destruct (rv_of (snd (step s o))) as [rv|] eqn:E.
  - destruct (rv =? CKR_OK) eqn:E2.
    + cbn [exec fold_left]. apply IH.
    + apply N.eqb_neq in E2. cbn [exec fold_left]. rewrite (fail_no_change s o rv E E2). apply IH.
  - cbn [exec fold_left]. apply IH.
Qed.

(* the model is a function of the operation list (C20: agreement of two implementations through the model) *)
Theorem model_is_a_function : forall (ops : list op) (r1 r2 : list res),
  r1 = run init_state ops -> r2 = run init_state ops -> r1 = r2.
Proof. intros ops r1 r2 H1 H2. rewrite H1, H2. reflexivity. Qed.
