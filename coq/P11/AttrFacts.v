(* P11/AttrFacts.v — the attribute policy engine, proved over the REGENERATED translations of
   P11Attribute::update / retrieve, the one-way and history updaters (gen/Gen_Pure.v) and the
   class -> attribute table of P11Objects.cpp (gen/Gen_Table.v).  (C02, C08) *)
From Coq Require Import List NArith Bool String Lia.
From SoftHSM Require Import Gen_Const Gen_Pure Gen_Table.
Import ListNotations.
Local Open Scope N_scope.

Definition LEN_TAG : N := 18446744073709551614.      (* the effect "*pulValueLen = v" *)
Definition has (checks ck : N) : bool := N.land checks ck =? ck.

(* ---- C02: retrieve refuses guarded attributes of sensitive / unextractable keys, before anything else -- *)
Theorem retrieve_guard :
  forall (isExtractable isSensitive : bool) (exists_ : N -> bool) (getAttribute : N -> N)
         (checks osobject size type : N) (rest : N * list (N * N)) (token : N) (isPrivate : bool) (pValue pulValueLen : N),
  osobject <> 0 -> pulValueLen <> 0 ->
  has checks ck7 = true -> (isSensitive = true \/ isExtractable = false) ->
  gen_P11Attribute__retrieve isExtractable isSensitive exists_ getAttribute checks osobject size type rest token isPrivate pValue pulValueLen
  = (CKR_ATTRIBUTE_SENSITIVE, [(LEN_TAG, CK_UNAVAILABLE_INFORMATION)]).
Proof.
  intros ie sn ex ga checks oo size ty rest token ip pv pl Ho Hp Hc Hs.
  unfold gen_P11Attribute__retrieve, has, ck7 in *.
  apply N.eqb_neq in Ho. apply N.eqb_neq in Hp. rewrite Ho, Hp. cbn [negb].
  change (N.land checks 64 =? 64) with (N.land checks 64 =? 64) in Hc. rewrite Hc.
  destruct Hs as [Hs | Hs]; subst; try destruct sn; try destruct ie; cbn; reflexivity.
Qed.

(* everything else (existence check, decryption, copying into the caller's buffer) happens only after it *)
Theorem retrieve_unguarded_continues :
  forall (isExtractable isSensitive : bool) (exists_ : N -> bool) (getAttribute : N -> N)
         (checks osobject size type : N) (rest : N * list (N * N)) (token : N) (isPrivate : bool) (pValue pulValueLen : N),
  osobject <> 0 -> pulValueLen <> 0 -> exists_ type = true ->
  (has checks ck7 = false \/ (isSensitive = false /\ isExtractable = true)) ->
  gen_P11Attribute__retrieve isExtractable isSensitive exists_ getAttribute checks osobject size type rest token isPrivate pValue pulValueLen = rest.
Proof.
  intros ie sn ex ga checks oo size ty rest token ip pv pl Ho Hp He Hs.
  unfold gen_P11Attribute__retrieve, has, ck7 in *.
  apply N.eqb_neq in Ho. apply N.eqb_neq in Hp. rewrite Ho, Hp, He. cbn [negb].
  destruct Hs as [Hc | [-> ->]]; [rewrite Hc|]; cbn; [reflexivity|]. rewrite andb_false_r. reflexivity.
Qed.

(* ---- C02: the protection flags are one-way for C_SetAttributeValue and C_CopyObject ------------------ *)
Definition is_set_or_copy (op : N) : bool := (op =? OBJECT_OP_SET) || (op =? OBJECT_OP_COPY).

Theorem sensitive_one_way (v : N) (getb : N -> bool -> bool) (ty pv len op : N) :
  is_set_or_copy op = true -> getb CKA_SENSITIVE false = true ->
  gen_P11AttrSensitive__updateAttr v getb ty pv len op = (CKR_ATTRIBUTE_READ_ONLY, []).
Proof.
  unfold is_set_or_copy, gen_P11AttrSensitive__updateAttr. cbv [OBJECT_OP_SET OBJECT_OP_COPY CKA_SENSITIVE].
  intros Ho Hg. rewrite Ho, Hg. reflexivity.
Qed.

Theorem extractable_one_way (v : N) (getb : N -> bool -> bool) (ty pv len op : N) :
  is_set_or_copy op = true -> getb CKA_EXTRACTABLE false = false ->
  gen_P11AttrExtractable__updateAttr v getb ty pv len op = (CKR_ATTRIBUTE_READ_ONLY, []).
Proof.
  unfold is_set_or_copy, gen_P11AttrExtractable__updateAttr. cbv [OBJECT_OP_SET OBJECT_OP_COPY CKA_EXTRACTABLE].
  intros Ho Hg. rewrite Ho, Hg. reflexivity.
Qed.

Theorem wrap_with_trusted_one_way (v : N) (getb : N -> bool -> bool) (ty pv len op : N) :
  is_set_or_copy op = true -> getb CKA_WRAP_WITH_TRUSTED false = true ->
  gen_P11AttrWrapWithTrusted__updateAttr v getb ty pv len op = (CKR_ATTRIBUTE_READ_ONLY, []).
Proof.
  unfold is_set_or_copy, gen_P11AttrWrapWithTrusted__updateAttr. cbv [OBJECT_OP_SET OBJECT_OP_COPY CKA_WRAP_WITH_TRUSTED].
  intros Ho Hg. rewrite Ho, Hg. reflexivity.
Qed.

(* what they write when they do succeed: only their own flag and the matching history flag, never upwards *)
Theorem sensitive_effects (v : N) (getb : N -> bool -> bool) (ty pv len op : N) (w : list (N * N)) :
  gen_P11AttrSensitive__updateAttr v getb ty pv len op = (CKR_OK, w) ->
  (v = 0 /\ w = [(CKA_ALWAYS_SENSITIVE, 0); (ty, 0)]) \/
  (v <> 0 /\ (w = [(ty, 1)] \/ (((op =? OBJECT_OP_GENERATE) || (op =? OBJECT_OP_DERIVE)) = true /\ w = [(CKA_ALWAYS_SENSITIVE, 1); (ty, 1)]))).
Proof.
  unfold gen_P11AttrSensitive__updateAttr. cbv [OBJECT_OP_GENERATE OBJECT_OP_DERIVE CKA_ALWAYS_SENSITIVE CKR_OK].
  destruct ((op =? 5) || (op =? 1)); [destruct (getb 259 false); [discriminate|]|];
  (destruct (negb (len =? 1)); [discriminate|]);
  (destruct (v =? 0) eqn:Ev; [apply N.eqb_eq in Ev | apply N.eqb_neq in Ev]);
  try (destruct ((op =? 4) || (op =? 3)) eqn:Eg); intros H; inversion H; subst; auto.
Qed.

Theorem extractable_effects (v : N) (getb : N -> bool -> bool) (ty pv len op : N) (w : list (N * N)) :
  gen_P11AttrExtractable__updateAttr v getb ty pv len op = (CKR_OK, w) ->
  (v = 0 /\ w = [(ty, 0)]) \/ (v <> 0 /\ w = [(CKA_NEVER_EXTRACTABLE, 0); (ty, 1)]).
Proof.
  unfold gen_P11AttrExtractable__updateAttr. cbv [CKA_NEVER_EXTRACTABLE CKR_OK].
  destruct ((op =? 5) || (op =? 1)); [destruct (Bool.eqb (getb 354 false) false); [discriminate|]|];
  (destruct (negb (len =? 1)); [discriminate|]);
  (destruct (v =? 0) eqn:Ev; [apply N.eqb_eq in Ev | apply N.eqb_neq in Ev]); intros H; inversion H; subst; auto.
Qed.

(* ---- C08: CKA_TRUSTED can be set true only by the SO ------------------------------------------------- *)
Theorem trusted_only_so (v ty : N) (so : bool) (token pv len : N) (w : list (N * N)) :
  gen_P11AttrTrusted__updateAttr v ty so token pv len = (CKR_OK, w) -> In (ty, 1) w -> so = true.
Proof.
  unfold gen_P11AttrTrusted__updateAttr. cbv [CKR_OK].
  destruct (negb (len =? 1)); [discriminate|]. destruct (v =? 0).
  - intros H Hin. inversion H; subst. destruct Hin as [Hin|[]]. inversion Hin.
  - destruct so; [reflexivity|]. cbn. discriminate.
Qed.

Theorem trusted_refused_without_so (v ty token pv len : N) :
  v <> 0 -> len = 1 -> gen_P11AttrTrusted__updateAttr v ty false token pv len = (CKR_ATTRIBUTE_READ_ONLY, []).
Proof.
  intros Hv ->. unfold gen_P11AttrTrusted__updateAttr. apply N.eqb_neq in Hv. rewrite Hv. reflexivity.
Qed.

(* ---- C08: LOCAL, KEY_GEN_MECHANISM, ALWAYS_SENSITIVE, NEVER_EXTRACTABLE cannot be supplied ------------ *)
Theorem history_attrs_refuse_everything :
  gen_P11AttrLocal__updateAttr = (CKR_ATTRIBUTE_READ_ONLY, []) /\
  gen_P11AttrKeyGenMechanism__updateAttr = (CKR_ATTRIBUTE_READ_ONLY, []) /\
  gen_P11AttrAlwaysSensitive__updateAttr = (CKR_ATTRIBUTE_READ_ONLY, []) /\
  gen_P11AttrNeverExtractable__updateAttr = (CKR_ATTRIBUTE_READ_ONLY, []).
Proof. repeat split; reflexivity. Qed.

(* ---- C08: the rule engine P11Attribute::update -------------------------------------------------------- *)
Definition is_error (rv : N) : Prop :=
  rv = CKR_GENERAL_ERROR \/ rv = CKR_ATTRIBUTE_VALUE_INVALID \/ rv = CKR_ATTRIBUTE_READ_ONLY.

Section Update.
  Variables (isModifiable isTrusted : bool) (getul : N -> N -> N) (checks osobject size : N)
            (updateAttr : N -> bool -> N -> N -> N -> N) (token : N) (isPrivate : bool) (pValue len op : N).
  Let upd := gen_P11Attribute__update isModifiable isTrusted getul checks osobject size updateAttr token isPrivate pValue len op.
  Let reached := updateAttr token isPrivate pValue len op.

  (* the engine either answers one of three error codes or hands over to the attribute's own updater *)
  Theorem update_error_or_updater : is_error upd \/ upd = reached.
  Proof.
    unfold upd, reached, gen_P11Attribute__update, is_error. cbv [CKR_GENERAL_ERROR CKR_ATTRIBUTE_VALUE_INVALID CKR_ATTRIBUTE_READ_ONLY].
    repeat match goal with |- context [if ?c then _ else _] => destruct c end; auto.
  Qed.

  (* C_SetAttributeValue reaches the updater only for ck8 / ck11 attributes; C_CopyObject also for ck17 *)
  Theorem update_set_needs_ck8_or_ck11 :
    op = OBJECT_OP_SET -> has checks ck8 = false -> has checks ck11 = false -> is_error upd.
  Proof.
    unfold upd, gen_P11Attribute__update, is_error, has, ck8, ck11, OBJECT_OP_SET. intros -> H8 H11. rewrite H8, H11.
    cbv [CKR_GENERAL_ERROR CKR_ATTRIBUTE_VALUE_INVALID CKR_ATTRIBUTE_READ_ONLY]. cbn.
    repeat match goal with |- context [if ?c then _ else _] => destruct c end; auto.
  Qed.

  Theorem update_copy_needs_ck8_ck11_or_ck17 :
    op = OBJECT_OP_COPY -> has checks ck8 = false -> has checks ck11 = false -> has checks ck17 = false -> is_error upd.
  Proof.
    unfold upd, gen_P11Attribute__update, is_error, has, ck8, ck11, ck17, OBJECT_OP_COPY. intros -> H8 H11 H17. rewrite H8, H11, H17.
    cbv [CKR_GENERAL_ERROR CKR_ATTRIBUTE_VALUE_INVALID CKR_ATTRIBUTE_READ_ONLY]. cbn.
    repeat match goal with |- context [if ?c then _ else _] => destruct c end; auto.
  Qed.

  (* ck2 / ck4 / ck6: MUST NOT be specified when the object is created / generated / unwrapped *)
  Theorem update_prohibited_on_creation :
    (op = OBJECT_OP_CREATE /\ has checks ck2 = true) \/ (op = OBJECT_OP_GENERATE /\ has checks ck4 = true) \/
    (op = OBJECT_OP_UNWRAP /\ has checks ck6 = true) -> is_error upd.
  Proof.
    unfold upd, gen_P11Attribute__update, is_error, has, ck2, ck4, ck6, OBJECT_OP_CREATE, OBJECT_OP_GENERATE, OBJECT_OP_UNWRAP.
    cbv [CKR_GENERAL_ERROR CKR_ATTRIBUTE_VALUE_INVALID CKR_ATTRIBUTE_READ_ONLY].
    intros [[-> H]|[[-> H]|[-> H]]]; rewrite H; cbn;
    repeat match goal with |- context [if ?c then _ else _] => destruct c end; auto.
  Qed.

  (* an object with CKA_MODIFIABLE false: nothing but creation and generation reaches an updater *)
  Theorem update_unmodifiable :
    isModifiable = false -> op <> OBJECT_OP_GENERATE -> op <> OBJECT_OP_CREATE -> is_error upd.
  Proof.
    unfold upd, gen_P11Attribute__update, is_error, OBJECT_OP_GENERATE, OBJECT_OP_CREATE. intros -> Hg Hc.
    apply N.eqb_neq in Hg. apply N.eqb_neq in Hc. rewrite Hg, Hc.
    cbv [CKR_GENERAL_ERROR CKR_ATTRIBUTE_VALUE_INVALID CKR_ATTRIBUTE_READ_ONLY]. cbn.
    repeat match goal with |- context [if ?c then _ else _] => destruct c end; auto.
  Qed.

  (* a value of the wrong size for a fixed-size attribute, or a NULL pointer with a length, never reaches it *)
  Theorem update_size_checked :
    osobject <> 0 -> (size <> CK_UNAVAILABLE_INFORMATION /\ size <> len) \/ (pValue = 0 /\ len <> 0) ->
    upd = CKR_ATTRIBUTE_VALUE_INVALID.
  Proof.
    unfold upd, gen_P11Attribute__update, CK_UNAVAILABLE_INFORMATION. intros Ho H. apply N.eqb_neq in Ho. rewrite Ho.
    destruct H as [[H1 H2]|[-> H2]].
    - apply N.eqb_neq in H1. apply N.eqb_neq in H2. rewrite H1, H2. cbn. destruct ((pValue =? 0) && negb (len =? 0)); reflexivity.
    - apply N.eqb_neq in H2. rewrite H2. reflexivity.
  Qed.
End Update.

(* ---- reflection over the regenerated class table ------------------------------------------------------------ *)
Fixpoint str_lookup {A} (k : string) (l : list (string * A)) : option A :=
  match l with [] => None | (k', v) :: r => if String.eqb k k' then Some v else str_lookup k r end.
Fixpoint attr_row (a : N) (l : list (N * N * N * string)) : option (N * N * string) :=
  match l with [] => None | (t, s, c, n) :: r => if t =? a then Some (s, c, n) else attr_row a r end.

Definition class_attr_checks (cls : string) (a : N) : option N :=
  match str_lookup cls gen_attr_table with
  | Some rows => match attr_row a rows with Some (_, c, _) => Some c | None => None end
  | None => None
  end.

(* secret value attributes per key class (PKCS#11 v2.40 tables, footnote 7) *)
Definition secret_spec : list (string * list N) :=
  [ ("P11AESSecretKeyObj", [CKA_VALUE]); ("P11DESSecretKeyObj", [CKA_VALUE]); ("P11GenericSecretKeyObj", [CKA_VALUE]);
    ("P11GOSTSecretKeyObj", [CKA_VALUE]);
    ("P11RSAPrivateKeyObj", [CKA_PRIVATE_EXPONENT; CKA_PRIME_1; CKA_PRIME_2; CKA_EXPONENT_1; CKA_EXPONENT_2; CKA_COEFFICIENT]);
    ("P11DSAPrivateKeyObj", [CKA_VALUE]); ("P11DHPrivateKeyObj", [CKA_VALUE]); ("P11ECPrivateKeyObj", [CKA_VALUE]);
    ("P11EDPrivateKeyObj", [CKA_VALUE]); ("P11GOSTPrivateKeyObj", [CKA_VALUE]) ]%string.

Definition ck7_complete_check : bool :=
  forallb (fun ca => forallb (fun a => match class_attr_checks (fst ca) a with Some c => has c ck7 | None => false end) (snd ca)) secret_spec.

Theorem ck7_complete : ck7_complete_check = true.
Proof. vm_compute. reflexivity. Qed.

Lemma ck7_complete_forall cls a attrs :
  In (cls, attrs) secret_spec -> In a attrs -> exists c, class_attr_checks cls a = Some c /\ has c ck7 = true.
Proof.
  intros H1 H2. pose proof ck7_complete as H. unfold ck7_complete_check in H.
  rewrite forallb_forall in H. specialize (H _ H1). cbn [fst snd] in H. rewrite forallb_forall in H. specialize (H _ H2).
  destruct (class_attr_checks cls a) as [c|]; [exists c; auto|discriminate].
Qed.

(* the four history attributes: in EVERY class that has them they carry ck2|ck4|ck6 and none of ck8/ck11/ck17,
   and are bound to the updaters that refuse everything *)
Definition history_attrs : list (N * string) :=
  [(CKA_LOCAL, "P11AttrLocal"); (CKA_KEY_GEN_MECHANISM, "P11AttrKeyGenMechanism");
   (CKA_ALWAYS_SENSITIVE, "P11AttrAlwaysSensitive"); (CKA_NEVER_EXTRACTABLE, "P11AttrNeverExtractable")]%string.

(* domain-parameter objects cannot be unwrapped, so their CKA_LOCAL lacks ck6 *)
Definition is_domain_class (c : string) : bool :=
  String.eqb c "P11DomainObj" || String.eqb c "P11DSADomainObj" || String.eqb c "P11DHDomainObj".

Definition history_rows_check : bool :=
  forallb (fun cr => forallb (fun hn =>
             match attr_row (fst hn) (snd cr) with
             | None => true
             | Some (_, c, n) => has c ck2 && has c ck4 && (has c ck6 || is_domain_class (fst cr))
                                 && negb (has c ck8) && negb (has c ck11) && negb (has c ck17) && String.eqb n (snd hn)
             end) history_attrs) gen_attr_table.
Theorem history_rows : history_rows_check = true.
Proof. vm_compute. reflexivity. Qed.

(* the policy flags: which updater class serves them, in every class of the table *)
Definition flag_rows_check : bool :=
  forallb (fun cr => forallb (fun hn =>
             match attr_row (fst hn) (snd cr) with
             | None => true
             | Some (_, c, n) => String.eqb n (snd hn)
             end)
            [(CKA_SENSITIVE, "P11AttrSensitive"); (CKA_EXTRACTABLE, "P11AttrExtractable"); (CKA_WRAP_WITH_TRUSTED, "P11AttrWrapWithTrusted");
             (CKA_TRUSTED, "P11AttrTrusted"); (CKA_PRIVATE, "P11AttrPrivate"); (CKA_TOKEN, "P11AttrToken"); (CKA_MODIFIABLE, "P11AttrModifiable");
             (CKA_COPYABLE, "P11AttrCopyable"); (CKA_DESTROYABLE, "P11AttrDestroyable")]%string) gen_attr_table.
Theorem flag_rows : flag_rows_check = true.
Proof. vm_compute. reflexivity. Qed.

(* CKA_PRIVATE / CKA_TOKEN / CKA_MODIFIABLE / CKA_DESTROYABLE are ck17 only (settable by copy, not by
   C_SetAttributeValue); CKA_COPYABLE is ck12 only in every class *)
Definition readonly_flags_check : bool :=
  forallb (fun cr => forallb (fun a =>
             match attr_row a (snd cr) with
             | None => true
             | Some (_, c, _) => negb (has c ck8) && negb (has c ck11)
             end) [CKA_PRIVATE; CKA_TOKEN; CKA_MODIFIABLE; CKA_DESTROYABLE; CKA_COPYABLE; CKA_CLASS; CKA_KEY_TYPE; CKA_LOCAL]) gen_attr_table.
Theorem readonly_flags : readonly_flags_check = true.
Proof. vm_compute. reflexivity. Qed.

(* non-vacuity: the table is not empty and the AES class guards CKA_VALUE *)
Example aes_value_row : class_attr_checks "P11AESSecretKeyObj" CKA_VALUE = Some (N.lor ck1 (N.lor ck4 (N.lor ck6 ck7))).
Proof. vm_compute. reflexivity. Qed.
