(* P11/AssocFacts.v — lemmas about the association lists of Defs.v *)
From Coq Require Import List NArith Bool Lia.
From SoftHSM Require Import Defs.
Import ListNotations.
Local Open Scope N_scope.

Section A.
  Context {A : Type}.
  Implicit Types (l : list (N * A)) (k : N) (v : A).

  Lemma alookup_aset_eq l k v : alookup k (aset k v l) = Some v.
  Proof.
    induction l as [|[k' v'] r IH]; cbn.
    - rewrite N.eqb_refl. reflexivity.
    - destruct (k' =? k) eqn:E; cbn.
      + rewrite N.eqb_refl. reflexivity.
      + rewrite E. exact IH.
  Qed.

  Lemma alookup_aset_neq l k k' v : k' <> k -> alookup k' (aset k v l) = alookup k' l.
  Proof.
    intros Hne. induction l as [|[k0 v0] r IH]; cbn.
    - destruct (k =? k') eqn:E; [apply N.eqb_eq in E; congruence|reflexivity].
    - destruct (k0 =? k) eqn:E; cbn.
      + apply N.eqb_eq in E. subst k0.
        destruct (k =? k') eqn:E2; [apply N.eqb_eq in E2; congruence|reflexivity].
      + destruct (k0 =? k') eqn:E2; [reflexivity|exact IH].
  Qed.

  Lemma alookup_aset l k k' v : alookup k' (aset k v l) = if k =? k' then Some v else alookup k' l.
  Proof.
    destruct (k =? k') eqn:E.
    - apply N.eqb_eq in E. subst. apply alookup_aset_eq.
    - apply alookup_aset_neq. intro; subst. rewrite N.eqb_refl in E. discriminate.
  Qed.

  Lemma alookup_In l k v : alookup k l = Some v -> In (k, v) l.
  Proof.
    induction l as [|[k' v'] r IH]; cbn; [discriminate|].
    destruct (k' =? k) eqn:E.
    - intros H. inversion H. subst. apply N.eqb_eq in E. subst. left. reflexivity.
    - intros H. right. apply IH. exact H.
  Qed.

  Lemma alookup_app l1 l2 k :
    alookup k (l1 ++ l2) = match alookup k l1 with Some v => Some v | None => alookup k l2 end.
  Proof.
    induction l1 as [|[k' v'] r IH]; cbn; [reflexivity|].
    destruct (k' =? k); [reflexivity|exact IH].
  Qed.

  Lemma alookup_filter_Some l k v (f : N * A -> bool) :
    alookup k (filter f l) = Some v -> exists v', alookup k l = Some v'.
  Proof.
    induction l as [|[k' v'] r IH]; cbn; [discriminate|].
    destruct (f (k', v')) eqn:Ef; cbn.
    - destruct (k' =? k) eqn:E; [eauto|exact IH].
    - destruct (k' =? k) eqn:E; [eauto|exact IH].
  Qed.

  Lemma alookup_none_filter l k (f : N * A -> bool) :
    alookup k l = None -> alookup k (filter f l) = None.
  Proof.
    induction l as [|[k' v'] r IH]; cbn; [reflexivity|].
    destruct (k' =? k) eqn:E; [discriminate|].
    intros H. destruct (f (k', v')); cbn; [rewrite E|]; apply IH; exact H.
  Qed.

  Lemma In_aset l k v p : In p (aset k v l) -> p = (k, v) \/ In p l.
  Proof.
    induction l as [|[k' v'] r IH]; cbn.
    - intros [H|[]]; left; congruence.
    - destruct (k' =? k) eqn:E; cbn.
      + intros [H|H]; [left; congruence|right; right; exact H].
      + intros [H|H]; [right; left; exact H|]. destruct (IH H) as [H1|H1]; [left; exact H1|right; right; exact H1].
  Qed.

  Lemma aset_keys_incl l k v k' : In k' (akeys (aset k v l)) -> k' = k \/ In k' (akeys l).
  Proof.
    unfold akeys. intros H. apply in_map_iff in H. destruct H as [[a b] [H1 H2]]. cbn in H1. subst a.
    apply In_aset in H2. destruct H2 as [H2|H2].
    - inversion H2. left. reflexivity.
    - right. apply in_map_iff. exists (k', b). split; [reflexivity|exact H2].
  Qed.

  Lemma alookup_keys l k v : alookup k l = Some v -> In k (akeys l).
  Proof. intros H. apply alookup_In in H. unfold akeys. apply in_map_iff. exists (k, v). split; [reflexivity|exact H]. Qed.

  Lemma alookup_not_key l k : ~ In k (akeys l) -> alookup k l = None.
  Proof.
    intros H. destruct (alookup k l) eqn:E; [|reflexivity]. exfalso. apply H. eapply alookup_keys. exact E.
  Qed.
End A.
