(* Properties_C06 — private objects are encrypted at rest (core model: ABytes (Some key) b is the ciphertext of b under
   the master key `key`, ABytes None b is plaintext).
   The full statement "every non-empty byte string of a private object is stored under the master key of ITS OWN token"
   is FALSE of the model and of the library: C06_own_key_refuted (C_SetAttributeValue / C_CopyObject through a session
   of another token re-encrypt under that other token's key; reproduced on the built library, known finding F23).
   Proved: never plaintext and always under the key of some existing token, for every history; under the object's own
   token's key for every history whose set / copy calls stay within one token; the master key of a token never
   changes.  Statements only. *)
From Coq Require Import List NArith Bool.
From SoftHSM Require Import Gen_Const Gen_Pure Defs Core AccessFacts StepFacts Invariants PinFacts HandleFacts TokenFacts EncFacts.
Import ListNotations.
Local Open Scope N_scope.

Theorem C06_private_never_plaintext_partial : forall (ops : list op) (o : obj),
  let s := exec init_state ops in
  stored_obj s o ->
  (o_private o = true -> forall a enc b, In (a, ABytes enc b) o -> b <> [] ->
     exists key j t, enc = Some key /\ alookup j (st_tokens s) = Some t /\ t_key t = key) /\
  (o_private o = false -> forall a enc b, In (a, ABytes enc b) o -> enc = None).
Proof. exact private_never_plaintext. Qed.
Print Assumptions C06_private_never_plaintext_partial.

Theorem C06_own_key_within_one_token : forall ops : list op,
  same_token_trace init_state ops -> inv_enc (exec init_state ops).
Proof. exact inv_enc_same_token_reachable. Qed.
Print Assumptions C06_own_key_within_one_token.

Theorem C06_own_key_refuted : exists ops, ~ inv_enc (exec init_state ops).
Proof. exact inv_enc_refuted. Qed.
Print Assumptions C06_own_key_refuted.

(* PIN changes, re-initialisation and restarts keep the master key: values stay decryptable, the key is never re-issued *)
Theorem C06_master_key_never_changes : forall (ops : list op) (s : state) (k key : N),
  tok_key s k = Some key -> tok_key (exec s ops) k = Some key.
Proof. exact exec_keeps_key. Qed.
Print Assumptions C06_master_key_never_changes.

(* non-vacuity: a reachable history with a private object (encrypted), a public one (clear) and the upgrade copy *)
Theorem C06_example : inv_enc (exec init_state enc_example_ops).
Proof. exact enc_example_inv. Qed.
Print Assumptions C06_example.

(* ---- the functions that create key objects, regenerated whole in trace mode (gen/Gen_Keys.v, coq/P11/KeyGenFacts.v) ---- *)
From SoftHSM Require Import Gen_Keys KeyGenSpec KeyGenFacts.

(* the five secret-key generators of SoftHSM.cpp, regenerated whole on every run (gen/Gen_Keys.v): for every environment, the
   CKA_VALUE they store is what Token::encrypt returned for the key bits exactly when the object is private *)
Theorem C06_generated_key_value_encrypted_iff_private :
  (forall (e : generateAES.env) v, In (CKA_VALUE, v) (snd (generateAES.app e)) ->
     v = if generateAES.isPrivate e =? 0 then generateAES.key_getKeyBits e else generateAES.token_encrypt_out_value e (generateAES.key_getKeyBits e)) /\
  (forall (e : generateDES.env) v, In (CKA_VALUE, v) (snd (generateDES.app e)) ->
     v = if generateDES.isPrivate e =? 0 then generateDES.key_getKeyBits e else generateDES.token_encrypt_out_value e (generateDES.key_getKeyBits e)) /\
  (forall (e : generateDES2.env) v, In (CKA_VALUE, v) (snd (generateDES2.app e)) ->
     v = if generateDES2.isPrivate e =? 0 then generateDES2.key_getKeyBits e else generateDES2.token_encrypt_out_value e (generateDES2.key_getKeyBits e)) /\
  (forall (e : generateDES3.env) v, In (CKA_VALUE, v) (snd (generateDES3.app e)) ->
     v = if generateDES3.isPrivate e =? 0 then generateDES3.key_getKeyBits e else generateDES3.token_encrypt_out_value e (generateDES3.key_getKeyBits e)) /\
  (forall (e : generateGeneric.env) v, In (CKA_VALUE, v) (snd (generateGeneric.app e)) ->
     v = if generateGeneric.isPrivate e =? 0 then generateGeneric.symKey_getKeyBits e else generateGeneric.token_encrypt_out_value e (generateGeneric.symKey_getKeyBits e)).
Proof. exact generated_value_encrypted_iff_private. Qed.
Print Assumptions C06_generated_key_value_encrypted_iff_private.

(* C_UnwrapKey regenerated whole (gen/Gen_Keys.v): the secret value it stores for a private object is an output of Token::encrypt
   (first clause); the other clauses are the history attributes of the new key (C08, C13) *)
Theorem C06_unwrapped_key_value_encrypted_when_private : forall (e : C_UnwrapKey.env),
  (forall v, In (CKA_VALUE, v) (snd (C_UnwrapKey.app e)) -> C_UnwrapKey.extractObjectInformation_gives_isPrivate e <> 0 -> exists x, v = C_UnwrapKey.token_encrypt_out_value e x) /\
  (forall v, In (CKA_LOCAL, v) (snd (C_UnwrapKey.app e)) -> v = 0) /\
  (forall v, In (CKA_ALWAYS_SENSITIVE, v) (snd (C_UnwrapKey.app e)) -> v = 0) /\
  (forall v, In (CKA_NEVER_EXTRACTABLE, v) (snd (C_UnwrapKey.app e)) -> v = 0) /\
  (fst (C_UnwrapKey.app e) = 0 -> (C_UnwrapKey.extractObjectInformation_gives_objClass e = CKO_SECRET_KEY -> exists v, In (CKA_VALUE, v) (snd (C_UnwrapKey.app e))) /\
     (exists v, In (CKA_LOCAL, v) (snd (C_UnwrapKey.app e))) /\ (exists v, In (CKA_ALWAYS_SENSITIVE, v) (snd (C_UnwrapKey.app e))) /\
     (exists v, In (CKA_NEVER_EXTRACTABLE, v) (snd (C_UnwrapKey.app e)))).
Proof. exact unwrapped_key_attributes. Qed.
Print Assumptions C06_unwrapped_key_value_encrypted_when_private.
