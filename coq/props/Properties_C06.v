(* Properties_C06 — private objects are encrypted at rest (core model: ABytes (Some key) b is the ciphertext of b under
   the master key `key`, ABytes None b is plaintext).
   The full statement "every non-empty byte string of a private object is stored under the master key of ITS OWN token"
   is FALSE of the model and of the library: C06_own_key_refuted (C_SetAttributeValue / C_CopyObject through a session
   of another token re-encrypt under that other token's key; reproduced on the built library, known finding F23).
   Proved: never plaintext and always under the key of some existing token, for every history; under the object's own
   token's key for every history whose set / copy calls stay within one token; the master key of a token never
   changes.  Statements only. *)
From Coq Require Import List NArith Bool.
From SoftHSM Require Import Gen_Const Gen_Pure Defs Core AccessFacts StepFacts Invariants PinFacts HandleFacts TokenFacts EncFacts.
Import ListNotations.
Local Open Scope N_scope.

Theorem C06_private_never_plaintext_partial : forall (ops : list op) (o : obj),
  let s := exec init_state ops in
  stored_obj s o ->
  (o_private o = true -> forall a enc b, In (a, ABytes enc b) o -> b <> [] ->
     exists key j t, enc = Some key /\ alookup j (st_tokens s) = Some t /\ t_key t = key) /\
  (o_private o = false -> forall a enc b, In (a, ABytes enc b) o -> enc = None).
Proof. exact private_never_plaintext. Qed.
Print Assumptions C06_private_never_plaintext_partial.

Theorem C06_own_key_within_one_token : forall ops : list op,
  same_token_trace init_state ops -> inv_enc (exec init_state ops).
Proof. exact inv_enc_same_token_reachable. Qed.
Print Assumptions C06_own_key_within_one_token.

Theorem C06_own_key_refuted : exists ops, ~ inv_enc (exec init_state ops).
Proof. exact inv_enc_refuted. Qed.
Print Assumptions C06_own_key_refuted.

(* PIN changes, re-initialisation and restarts keep the master key: values stay decryptable, the key is never re-issued *)
Theorem C06_master_key_never_changes : forall (ops : list op) (s : state) (k key : N),
  tok_key s k = Some key -> tok_key (exec s ops) k = Some key.
Proof. exact exec_keeps_key. Qed.
Print Assumptions C06_master_key_never_changes.

(* non-vacuity: a reachable history with a private object (encrypted), a public one (clear) and the upgrade copy *)
Theorem C06_example : inv_enc (exec init_state enc_example_ops).
Proof. exact enc_example_inv. Qed.
Print Assumptions C06_example.
