(* Properties_C15 — processes sharing a token directory see each other's committed changes.
   Model: Conc/Refresh.v, the per-object generation protocol at call granularity (any number of processes, any
   interleaving of their calls).  Statements only. *)
From Coq Require Import List NArith Bool.
From SoftHSM Require Import Refresh.
Import ListNotations.
Local Open Scope N_scope.

(* in every state reached by any interleaving, a read by any process returns what is committed on disk *)
Theorem C15_reads_see_committed : forall (val : Type) (v : val) (es : list (event val)) (p : N),
  let w := fst (run val (initial val v) es) in snd (step val w (ERead val p)) = Some (d_val val w).
Proof. exact reads_see_committed. Qed.
Print Assumptions C15_reads_see_committed.

(* the committed value is the fold of all writes in call order: no committed change is lost or applied twice *)
Theorem C15_committed_is_fold_of_writes : forall (val : Type) (es : list (event val)) (w : world val),
  coherent val w -> d_val val (fst (run val w es)) = writes val es (d_val val w).
Proof. exact committed_is_fold. Qed.
Print Assumptions C15_committed_is_fold_of_writes.

(* the step of the protocol this rests on: the writer numbers its write from the generation in the FILE
   (Generation::sync); numbering from the cached generation lets a process serve an overwritten value for ever *)
Theorem C15_without_sync_refuted :
  let w0 := initial N 10 in
  let w1 := fst (step N w0 (ERead N 1)) in
  let w2 := fst (step N w1 (ERead N 2)) in
  let w3 := fst (step_nosync N w2 (EWrite N 1 (fun _ => 11))) in
  let w4 := fst (step_nosync N w3 (EWrite N 2 (fun _ => 12))) in
  (d_val N w4, snd (step N w4 (ERead N 1))) = (12, Some 11).
Proof. exact nosync_serves_stale. Qed.
Print Assumptions C15_without_sync_refuted.

(* at file-operation granularity the library's write is NOT the atomic step above: the copy is taken before the lock
   (known finding F12, exhibited on the built library by K-race) *)
Theorem C15_split_write_loses_update_refuted :
  let w0 := initial (N * N) (1, 1) in
  let ca := begin_write (N * N) w0 1 in
  let w1 := fst (step (N * N) w0 (EWrite (N * N) 2 (fun v => (2, snd v)))) in
  let w2 := commit_write (N * N) w1 1 ca (fun v => (fst v, 5)) in
  (d_val (N * N) w1, d_val (N * N) w2) = ((2, 1), (1, 5)).
Proof. exact split_write_loses_update. Qed.
Print Assumptions C15_split_write_loses_update_refuted.
