(* Properties_C08 — attribute policy: read-only, one-way and history attributes.
   Theorems over the REGENERATED rule engine P11Attribute::update, the history / trusted updaters and the class
   table.  Statements only. *)
From Coq Require Import List NArith Bool String.
From SoftHSM Require Import Gen_Const Gen_Pure Gen_Table AttrFacts Gen_Entry Defs Core EntryModel.
Import ListNotations.
Local Open Scope N_scope.

Section Rule.
  Variables (isModifiable isTrusted : bool) (getul : N -> N -> N) (checks osobject size : N)
            (updateAttr : N -> bool -> N -> N -> N -> N) (token : N) (isPrivate : bool) (pValue len op : N).
  Let upd := gen_P11Attribute__update isModifiable isTrusted getul checks osobject size updateAttr token isPrivate pValue len op.

  Theorem C08_update_error_or_updater : is_error upd \/ upd = updateAttr token isPrivate pValue len op.
  Proof. apply update_error_or_updater. Qed.
  Theorem C08_set_needs_ck8_or_ck11 : op = OBJECT_OP_SET -> has checks ck8 = false -> has checks ck11 = false -> is_error upd.
  Proof. apply update_set_needs_ck8_or_ck11. Qed.
  Theorem C08_copy_needs_ck8_ck11_or_ck17 :
    op = OBJECT_OP_COPY -> has checks ck8 = false -> has checks ck11 = false -> has checks ck17 = false -> is_error upd.
  Proof. apply update_copy_needs_ck8_ck11_or_ck17. Qed.
  Theorem C08_prohibited_on_creation :
    (op = OBJECT_OP_CREATE /\ has checks ck2 = true) \/ (op = OBJECT_OP_GENERATE /\ has checks ck4 = true) \/
    (op = OBJECT_OP_UNWRAP /\ has checks ck6 = true) -> is_error upd.
  Proof. apply update_prohibited_on_creation. Qed.
  Theorem C08_unmodifiable : isModifiable = false -> op <> OBJECT_OP_GENERATE -> op <> OBJECT_OP_CREATE -> is_error upd.
  Proof. apply update_unmodifiable. Qed.
End Rule.
Print Assumptions C08_update_error_or_updater.
Print Assumptions C08_set_needs_ck8_or_ck11.
Print Assumptions C08_copy_needs_ck8_ck11_or_ck17.
Print Assumptions C08_prohibited_on_creation.
Print Assumptions C08_unmodifiable.

(* LOCAL, KEY_GEN_MECHANISM, ALWAYS_SENSITIVE, NEVER_EXTRACTABLE: their updaters refuse every call, and in every
   class they carry ck2|ck4|ck6 (|ck6 except for domain parameters) and none of ck8/ck11/ck17 *)
Theorem C08_history_attrs_refuse_everything :
  gen_P11AttrLocal__updateAttr = (CKR_ATTRIBUTE_READ_ONLY, []) /\
  gen_P11AttrKeyGenMechanism__updateAttr = (CKR_ATTRIBUTE_READ_ONLY, []) /\
  gen_P11AttrAlwaysSensitive__updateAttr = (CKR_ATTRIBUTE_READ_ONLY, []) /\
  gen_P11AttrNeverExtractable__updateAttr = (CKR_ATTRIBUTE_READ_ONLY, []).
Proof. exact history_attrs_refuse_everything. Qed.
Print Assumptions C08_history_attrs_refuse_everything.
Theorem C08_history_rows : history_rows_check = true.
Proof. exact history_rows. Qed.
Print Assumptions C08_history_rows.

(* CLASS, KEY_TYPE, TOKEN, PRIVATE, MODIFIABLE, DESTROYABLE, COPYABLE, LOCAL are never ck8/ck11: C_SetAttributeValue
   cannot change them in any class *)
Theorem C08_readonly_flags : readonly_flags_check = true.
Proof. exact readonly_flags. Qed.
Print Assumptions C08_readonly_flags.

(* CKA_TRUSTED becomes true only with the SO logged in *)
Theorem C08_trusted_only_so : forall (v ty : N) (so : bool) (token pv len : N) (w : list (N * N)),
  gen_P11AttrTrusted__updateAttr v ty so token pv len = (CKR_OK, w) -> In (ty, 1) w -> so = true.
Proof. exact trusted_only_so. Qed.
Print Assumptions C08_trusted_only_so.

(* the one-way updaters keep the history flags honest: switching SENSITIVE off clears ALWAYS_SENSITIVE, switching
   EXTRACTABLE on clears NEVER_EXTRACTABLE; ALWAYS_SENSITIVE is set only while generating / deriving *)
Theorem C08_sensitive_effects : forall (v : N) (getb : N -> bool -> bool) (ty pv len op : N) (w : list (N * N)),
  gen_P11AttrSensitive__updateAttr v getb ty pv len op = (CKR_OK, w) ->
  (v = 0 /\ w = [(CKA_ALWAYS_SENSITIVE, 0); (ty, 0)]) \/
  (v <> 0 /\ (w = [(ty, 1)] \/ (((op =? OBJECT_OP_GENERATE) || (op =? OBJECT_OP_DERIVE)) = true /\ w = [(CKA_ALWAYS_SENSITIVE, 1); (ty, 1)]))).
Proof. exact sensitive_effects. Qed.
Print Assumptions C08_sensitive_effects.
Theorem C08_extractable_effects : forall (v : N) (getb : N -> bool -> bool) (ty pv len op : N) (w : list (N * N)),
  gen_P11AttrExtractable__updateAttr v getb ty pv len op = (CKR_OK, w) ->
  (v = 0 /\ w = [(ty, 0)]) \/ (v <> 0 /\ w = [(CKA_NEVER_EXTRACTABLE, 0); (ty, 1)]).
Proof. exact extractable_effects. Qed.
Print Assumptions C08_extractable_effects.

Theorem C08_setattr_code_guard : forall (s : state) (h oh : N) (x : session) (rest ptr cnt : N),
  ptr <> 0 ->
  C_SetAttributeValue.app (setattr_env s h oh x rest ptr cnt)
  = match get_object s oh with
    | None => CKR_OBJECT_HANDLE_INVALID
    | Some (_, _, ob) =>
        let rv := have_write (sess_state s x) (o_token ob) (o_private ob) in
        if negb (rv =? CKR_OK) then rv else if negb (obj_bool ob CKA_MODIFIABLE true) then CKR_ACTION_PROHIBITED else rest
    end.
Proof. exact setattr_code_guard. Qed.
Print Assumptions C08_setattr_code_guard.

Theorem C08_destroy_model_is_code : forall (s : state) (h oh : N) (x : session),
  st_init s = true -> get_session s h = Some x ->
  rv_of (snd (step s (ODestroy h oh))) = Some (C_DestroyObject.app (destroy_env s h oh x)).
Proof. exact destroy_model_is_code. Qed.
Print Assumptions C08_destroy_model_is_code.

(* ---- the functions that create key objects, regenerated whole in trace mode (gen/Gen_Keys.v, coq/P11/KeyGenFacts.v) ---- *)
From SoftHSM Require Import Gen_Keys KeyGenSpec KeyGenFacts.

(* the five secret-key generators, regenerated whole (gen/Gen_Keys.v): CKA_LOCAL true, CKA_ALWAYS_SENSITIVE = the new object's
   CKA_SENSITIVE, CKA_NEVER_EXTRACTABLE = not CKA_EXTRACTABLE, whenever written; a successful call has written them *)
Theorem C08_generated_key_history_attributes :
  (forall (e : generateAES.env),
     (forall v, In (CKA_LOCAL, v) (snd (generateAES.app e)) -> v = 1) /\
     (forall v, In (CKA_ALWAYS_SENSITIVE, v) (snd (generateAES.app e)) -> v = b2n (negb (generateAES.osobject_getBooleanValue e CKA_SENSITIVE false =? 0))) /\
     (forall v, In (CKA_NEVER_EXTRACTABLE, v) (snd (generateAES.app e)) -> v = b2n (generateAES.osobject_getBooleanValue e CKA_EXTRACTABLE false =? 0)) /\
     (fst (generateAES.app e) = 0 -> (exists v, In (CKA_VALUE, v) (snd (generateAES.app e))) /\ (exists v, In (CKA_LOCAL, v) (snd (generateAES.app e))) /\
                             (exists v, In (CKA_ALWAYS_SENSITIVE, v) (snd (generateAES.app e))) /\ (exists v, In (CKA_NEVER_EXTRACTABLE, v) (snd (generateAES.app e))))) /\
  (forall (e : generateDES.env),
     (forall v, In (CKA_LOCAL, v) (snd (generateDES.app e)) -> v = 1) /\
     (forall v, In (CKA_ALWAYS_SENSITIVE, v) (snd (generateDES.app e)) -> v = b2n (negb (generateDES.osobject_getBooleanValue e CKA_SENSITIVE false =? 0))) /\
     (forall v, In (CKA_NEVER_EXTRACTABLE, v) (snd (generateDES.app e)) -> v = b2n (generateDES.osobject_getBooleanValue e CKA_EXTRACTABLE false =? 0)) /\
     (fst (generateDES.app e) = 0 -> (exists v, In (CKA_VALUE, v) (snd (generateDES.app e))) /\ (exists v, In (CKA_LOCAL, v) (snd (generateDES.app e))) /\
                             (exists v, In (CKA_ALWAYS_SENSITIVE, v) (snd (generateDES.app e))) /\ (exists v, In (CKA_NEVER_EXTRACTABLE, v) (snd (generateDES.app e))))) /\
  (forall (e : generateDES2.env),
     (forall v, In (CKA_LOCAL, v) (snd (generateDES2.app e)) -> v = 1) /\
     (forall v, In (CKA_ALWAYS_SENSITIVE, v) (snd (generateDES2.app e)) -> v = b2n (negb (generateDES2.osobject_getBooleanValue e CKA_SENSITIVE false =? 0))) /\
     (forall v, In (CKA_NEVER_EXTRACTABLE, v) (snd (generateDES2.app e)) -> v = b2n (generateDES2.osobject_getBooleanValue e CKA_EXTRACTABLE false =? 0)) /\
     (fst (generateDES2.app e) = 0 -> (exists v, In (CKA_VALUE, v) (snd (generateDES2.app e))) /\ (exists v, In (CKA_LOCAL, v) (snd (generateDES2.app e))) /\
                             (exists v, In (CKA_ALWAYS_SENSITIVE, v) (snd (generateDES2.app e))) /\ (exists v, In (CKA_NEVER_EXTRACTABLE, v) (snd (generateDES2.app e))))) /\
  (forall (e : generateDES3.env),
     (forall v, In (CKA_LOCAL, v) (snd (generateDES3.app e)) -> v = 1) /\
     (forall v, In (CKA_ALWAYS_SENSITIVE, v) (snd (generateDES3.app e)) -> v = b2n (negb (generateDES3.osobject_getBooleanValue e CKA_SENSITIVE false =? 0))) /\
     (forall v, In (CKA_NEVER_EXTRACTABLE, v) (snd (generateDES3.app e)) -> v = b2n (generateDES3.osobject_getBooleanValue e CKA_EXTRACTABLE false =? 0)) /\
     (fst (generateDES3.app e) = 0 -> (exists v, In (CKA_VALUE, v) (snd (generateDES3.app e))) /\ (exists v, In (CKA_LOCAL, v) (snd (generateDES3.app e))) /\
                             (exists v, In (CKA_ALWAYS_SENSITIVE, v) (snd (generateDES3.app e))) /\ (exists v, In (CKA_NEVER_EXTRACTABLE, v) (snd (generateDES3.app e))))) /\
  (forall (e : generateGeneric.env),
     (forall v, In (CKA_LOCAL, v) (snd (generateGeneric.app e)) -> v = 1) /\
     (forall v, In (CKA_ALWAYS_SENSITIVE, v) (snd (generateGeneric.app e)) -> v = b2n (negb (generateGeneric.osobject_getBooleanValue e CKA_SENSITIVE false =? 0))) /\
     (forall v, In (CKA_NEVER_EXTRACTABLE, v) (snd (generateGeneric.app e)) -> v = b2n (generateGeneric.osobject_getBooleanValue e CKA_EXTRACTABLE false =? 0)) /\
     (fst (generateGeneric.app e) = 0 -> (exists v, In (CKA_VALUE, v) (snd (generateGeneric.app e))) /\ (exists v, In (CKA_LOCAL, v) (snd (generateGeneric.app e))) /\
                             (exists v, In (CKA_ALWAYS_SENSITIVE, v) (snd (generateGeneric.app e))) /\ (exists v, In (CKA_NEVER_EXTRACTABLE, v) (snd (generateGeneric.app e))))).
Proof. exact generated_history_attributes. Qed.
Print Assumptions C08_generated_key_history_attributes.

(* C_UnwrapKey regenerated whole (gen/Gen_Keys.v): an unwrapped key is stored with CKA_LOCAL, CKA_ALWAYS_SENSITIVE and
   CKA_NEVER_EXTRACTABLE false, and a successful call has written them *)
Theorem C08_unwrapped_key_history_attributes : forall (e : C_UnwrapKey.env),
  (forall v, In (CKA_VALUE, v) (snd (C_UnwrapKey.app e)) -> C_UnwrapKey.extractObjectInformation_gives_isPrivate e <> 0 -> exists x, v = C_UnwrapKey.token_encrypt_out_value e x) /\
  (forall v, In (CKA_LOCAL, v) (snd (C_UnwrapKey.app e)) -> v = 0) /\
  (forall v, In (CKA_ALWAYS_SENSITIVE, v) (snd (C_UnwrapKey.app e)) -> v = 0) /\
  (forall v, In (CKA_NEVER_EXTRACTABLE, v) (snd (C_UnwrapKey.app e)) -> v = 0) /\
  (fst (C_UnwrapKey.app e) = 0 -> (C_UnwrapKey.extractObjectInformation_gives_objClass e = CKO_SECRET_KEY -> exists v, In (CKA_VALUE, v) (snd (C_UnwrapKey.app e))) /\
     (exists v, In (CKA_LOCAL, v) (snd (C_UnwrapKey.app e))) /\ (exists v, In (CKA_ALWAYS_SENSITIVE, v) (snd (C_UnwrapKey.app e))) /\
     (exists v, In (CKA_NEVER_EXTRACTABLE, v) (snd (C_UnwrapKey.app e)))).
Proof. exact unwrapped_key_attributes. Qed.
Print Assumptions C08_unwrapped_key_history_attributes.
