(* Properties_C18 — thread safety with locking enabled.
   An executable Gallina model cannot exhibit thread schedules of the C++; what is proved is the bookkeeping that the
   locks are there to protect, for ALL interleavings of the critical sections: handle registration (the manager's
   mutex held across lookup and insertion) never issues a handle twice and never gives an object two handles; the
   split variant does (refuted).  Linearizability itself is decided on the built library by K-thread, which compares
   every controlled schedule with the two sequential orders.  Statements only. *)
From Coq Require Import List NArith Bool.
From SoftHSM Require Import HandleAtomic.
Import ListNotations.
Local Open Scope N_scope.

Theorem C18_atomic_registration_unique_partial : forall os : list N,
  let r := fst (run empty os) in NoDup (map fst (table r)) /\ NoDup (map snd (table r)).
Proof. exact atomic_registration_unique. Qed.
Print Assumptions C18_atomic_registration_unique_partial.

Theorem C18_registered_object_keeps_its_handle : forall r o, inv r -> snd (register (fst (register r o)) o) = snd (register r o).
Proof. exact register_idempotent. Qed.
Print Assumptions C18_registered_object_keeps_its_handle.

Theorem C18_split_registration_refuted :
  let r0 := empty in
  let m1 := lookup_only r0 7 in
  let m2 := lookup_only r0 7 in
  let r1 := fst (insert_only r0 7) in
  let r2 := fst (insert_only r1 7) in
  (m1, m2, table r2) = (None, None, [(2, 7); (1, 7)]).
Proof. exact split_registration_duplicates. Qed.
Print Assumptions C18_split_registration_refuted.

(* ---- the whole HandleManager as atomic steps (every public method holds handlesMutex for its whole body): any
   execution of any number of threads is a sequence of these steps in some order --------------------------------------- *)
From SoftHSM Require HandleLife.

Theorem C18_live_handles_distinct_any_interleaving : forall xs : list HandleLife.op,
  NoDup (map HandleLife.eh (HandleLife.handles (HandleLife.run HandleLife.init xs))) /\
  HandleLife.bounded (HandleLife.run HandleLife.init xs).
Proof. exact HandleLife.live_handles_distinct. Qed.
Print Assumptions C18_live_handles_distinct_any_interleaving.

Theorem C18_dead_handle_stays_dead_any_interleaving : forall (xs : list HandleLife.op) (m : HandleLife.mgr) (h : N),
  h <= HandleLife.ctr m -> ~ HandleLife.live m h -> ~ HandleLife.live (HandleLife.run m xs) h.
Proof. exact HandleLife.dead_handle_stays_dead. Qed.
Print Assumptions C18_dead_handle_stays_dead_any_interleaving.

Theorem C18_dead_handle_never_returned_any_interleaving :
  forall (xs : list HandleLife.op) (m : HandleLife.mgr) (h : N) (x : HandleLife.op),
  0 < h -> h <= HandleLife.ctr m -> ~ HandleLife.live m h -> snd (HandleLife.step (HandleLife.run m xs) x) <> h.
Proof. exact HandleLife.dead_handle_never_returned. Qed.
Print Assumptions C18_dead_handle_never_returned_any_interleaving.

Theorem C18_registered_object_keeps_handle_full_manager : forall m slot hs priv o hs' priv',
  snd (HandleLife.step m (HandleLife.AddObject slot hs priv o)) <> 0 ->
  snd (HandleLife.step (fst (HandleLife.step m (HandleLife.AddObject slot hs priv o))) (HandleLife.AddObject slot hs' priv' o))
  = snd (HandleLife.step m (HandleLife.AddObject slot hs priv o)).
Proof. exact HandleLife.registered_object_keeps_handle. Qed.
Print Assumptions C18_registered_object_keeps_handle_full_manager.

(* non-vacuity: session 1 and its session object 2 die; later calls get 4, never 1 or 2 *)
Theorem C18_handle_life_example :
  let m := HandleLife.run HandleLife.init [HandleLife.AddSession 5 100; HandleLife.AddObject 5 1 false 200;
                                           HandleLife.AddSession 6 101; HandleLife.SessionClosed 1] in
  (map HandleLife.eh (HandleLife.handles m), HandleLife.ctr m,
   snd (HandleLife.step m (HandleLife.AddObject 5 0 false 200)), snd (HandleLife.step m (HandleLife.AddSession 5 102)))
  = ([3], 3, 4, 4).
Proof. exact HandleLife.life_example. Qed.
Print Assumptions C18_handle_life_example.
