(* Properties_C18 — thread safety with locking enabled.
   An executable Gallina model cannot exhibit thread schedules of the C++; what is proved is the bookkeeping that the
   locks are there to protect, for ALL interleavings of the critical sections: handle registration (the manager's
   mutex held across lookup and insertion) never issues a handle twice and never gives an object two handles; the
   split variant does (refuted).  Linearizability itself is decided on the built library by K-thread, which compares
   every controlled schedule with the two sequential orders.  Statements only. *)
From Coq Require Import List NArith Bool.
From SoftHSM Require Import HandleAtomic.
Import ListNotations.
Local Open Scope N_scope.

Theorem C18_atomic_registration_unique_partial : forall os : list N,
  let r := fst (run empty os) in NoDup (map fst (table r)) /\ NoDup (map snd (table r)).
Proof. exact atomic_registration_unique. Qed.
Print Assumptions C18_atomic_registration_unique_partial.

Theorem C18_registered_object_keeps_its_handle : forall r o, inv r -> snd (register (fst (register r o)) o) = snd (register r o).
Proof. exact register_idempotent. Qed.
Print Assumptions C18_registered_object_keeps_its_handle.

Theorem C18_split_registration_refuted :
  let r0 := empty in
  let m1 := lookup_only r0 7 in
  let m2 := lookup_only r0 7 in
  let r1 := fst (insert_only r0 7) in
  let r2 := fst (insert_only r1 7) in
  (m1, m2, table r2) = (None, None, [(2, 7); (1, 7)]).
Proof. exact split_registration_duplicates. Qed.
Print Assumptions C18_split_registration_refuted.
