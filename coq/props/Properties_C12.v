(* Properties_C12 — one active operation per session and an honest output-length protocol.
   Model: coq/Crypto/OpModel.v (machine arithmetic of the C++).  Statements only. *)
From Coq Require Import List NArith Bool.
From SoftHSM Require Import Gen_Const OpModel OpFacts Gen_Ops OpIsCode OpHonest.
Import ListNotations.
Local Open Scope N_scope.

Theorem C12_init_when_active : forall (st : active) (c : call),
  is_init c = true -> st <> ANone ->
  r_rv (do_call st c) = CKR_OPERATION_ACTIVE /\ r_st (do_call st c) = st /\ r_written (do_call st c) = 0.
Proof. exact init_when_active. Qed.
Print Assumptions C12_init_when_active.

Theorem C12_continue_without_init : forall (st : active) (c : call) (k : N),
  call_kind c = Some k -> kind_of st <> k ->
  r_rv (do_call st c) = CKR_OPERATION_NOT_INITIALIZED /\ r_st (do_call st c) = st /\ r_written (do_call st c) = 0.
Proof. exact continue_without_init. Qed.
Print Assumptions C12_continue_without_init.

Theorem C12_finished_is_gone : forall (st : active) (c : call) (have : N),
  (exists k, c = CFinal k (Some have)) \/ (exists k l, c = CSingle k l (Some have)) ->
  r_rv (do_call st c) = CKR_OK -> r_st (do_call st c) = ANone.
Proof. exact finished_is_gone. Qed.
Print Assumptions C12_finished_is_gone.

Theorem C12_failed_is_gone : forall (st : active) (c : call),
  let r := do_call st c in
  r_rv r <> CKR_OK -> r_rv r <> CKR_BUFFER_TOO_SMALL -> r_rv r <> CKR_OPERATION_NOT_INITIALIZED -> r_rv r <> CKR_OPERATION_ACTIVE ->
  r_st r = ANone.
Proof. exact failed_is_gone. Qed.
Print Assumptions C12_failed_is_gone.

Theorem C12_query_or_too_small_keeps_operation : forall (st : active) (c : call) (b : obuf),
  call_buf c = Some b ->
  (b = None /\ r_rv (do_call st c) = CKR_OK) \/ r_rv (do_call st c) = CKR_BUFFER_TOO_SMALL ->
  match st, c with
  | (ADigest _ | AMac _), CUpdate _ _ _ => True
  | _, _ => r_st (do_call st c) = st /\ r_written (do_call st c) = 0
  end.
Proof. exact query_or_too_small_keeps_operation. Qed.
Print Assumptions C12_query_or_too_small_keeps_operation.

Theorem C12_reported_sufficient : forall (st : active) (c : call) (b : obuf) (n have : N),
  call_buf c = Some b ->
  (r_rv (do_call st c) = CKR_OK /\ b = None) \/ r_rv (do_call st c) = CKR_BUFFER_TOO_SMALL ->
  r_len (do_call st c) = Some n -> n <= have ->
  r_rv (do_call st (with_buf_call c (Some have))) <> CKR_BUFFER_TOO_SMALL.
Proof. exact reported_sufficient. Qed.
Print Assumptions C12_reported_sufficient.

(* bound: input + buffered + one block + tag, in the machine arithmetic of the code, for every reachable
   operation state with less than 2^35 bytes buffered or supplied *)
Theorem C12_reported_bounded_update : forall (o : symop) (len : N) (buf : obuf) (n : N),
  sane o len -> r_len (sym_update o len buf) = Some n ->
  r_rv (sym_update o len buf) = CKR_BUFFER_TOO_SMALL \/ buf = None -> n <= len + so_buf o + BS + so_tag o.
Proof. exact reported_bounded_update. Qed.
Print Assumptions C12_reported_bounded_update.
Theorem C12_reported_bounded_final : forall (o : symop) (buf : obuf) (n : N),
  sane o 0 -> r_len (sym_final o buf) = Some n ->
  r_rv (sym_final o buf) = CKR_BUFFER_TOO_SMALL \/ buf = None -> n <= so_buf o + BS + so_tag o.
Proof. exact reported_bounded_final. Qed.
Print Assumptions C12_reported_bounded_final.
Theorem C12_reported_bounded_single : forall (o : symop) (len : N) (buf : obuf) (n : N),
  len < 34359738368 -> so_tag o <= 16 -> r_len (sym_single o len buf) = Some n ->
  r_rv (sym_single o len buf) = CKR_BUFFER_TOO_SMALL \/ buf = None -> n <= len + BS + so_tag o.
Proof. exact reported_bounded_single. Qed.
Print Assumptions C12_reported_bounded_single.
Theorem C12_update_report_exact : forall (o : symop) (len : N) (have : N),
  sane o len -> is_block (so_mode o) = true -> r_rv (sym_update o len (Some have)) = CKR_OK ->
  r_len (sym_update o len None) = Some (r_written (sym_update o len (Some have))).
Proof. exact update_report_exact. Qed.
Print Assumptions C12_update_report_exact.

Theorem C12_no_overwrite : forall (st : active) (c : call) (have : N),
  call_buf c = Some (Some have) ->
  match st with ASym o => so_tag o <= 16 /\ so_buf o < 34359738368 | _ => True end ->
  r_written (do_call st c) <= have /\
  (r_rv (do_call st c) = CKR_OK -> r_written (do_call st c) = 0 \/ r_len (do_call st c) = Some (r_written (do_call st c))).
Proof. exact no_overwrite. Qed.
Print Assumptions C12_no_overwrite.

(* ---- the model's update / final / single-part steps are the regenerated code (gen/Gen_Ops.v) ---- *)

Theorem C12_enc_update_is_code : forall (o : symop) (len : N) (buf : obuf),
  so_enc o = true ->
  let r := sym_update o len buf in
  SymEncryptUpdate.app (enc_update_env o len buf) = (r_rv r, eff_of r).
Proof. exact enc_update_is_code. Qed.
Print Assumptions C12_enc_update_is_code.

Theorem C12_dec_update_is_code : forall (o : symop) (len : N) (buf : obuf),
  so_enc o = false ->
  let r := sym_update o len buf in
  SymDecryptUpdate.app (dec_update_env o len buf) = (r_rv r, eff_of r).
Proof. exact dec_update_is_code. Qed.
Print Assumptions C12_dec_update_is_code.

Theorem C12_enc_final_is_code : forall (o : symop) (buf : obuf),
  so_enc o = true -> so_buf o + so_tag o + BS < M64 ->
  let r := sym_final o buf in
  SymEncryptFinal.app (enc_final_env o buf) = (r_rv r, eff_of r).
Proof. exact enc_final_is_code. Qed.
Print Assumptions C12_enc_final_is_code.

Theorem C12_dec_final_is_code : forall (o : symop) (buf : obuf),
  so_enc o = false -> so_buf o < M64 ->
  let r := sym_final o buf in
  SymDecryptFinal.app (dec_final_env o buf) = (r_rv r, eff_of r).
Proof. exact dec_final_is_code. Qed.
Print Assumptions C12_dec_final_is_code.

Theorem C12_enc_single_is_code : forall (o : symop) (len : N) (buf : obuf),
  so_enc o = true ->
  let r := sym_single o len buf in
  normr (SymEncrypt.app (enc_single_env o len buf)) = (r_rv r, eff_of r).
Proof. exact enc_single_is_code. Qed.
Print Assumptions C12_enc_single_is_code.

Theorem C12_mac_final_is_code : forall (size : N) (buf : obuf),
  let r := fixed_out size (AMac size) buf in
  normr (MacSignFinal.app (mac_final_env size buf)) = (r_rv r, eff_of r).
Proof. exact mac_final_is_code. Qed.
Print Assumptions C12_mac_final_is_code.

Theorem C12_mac_single_is_code : forall (size len : N) (buf : obuf),
  let r := fixed_out size (AMac size) buf in
  normr (MacSign.app (mac_single_env size len buf)) = (r_rv r, eff_of r).
Proof. exact mac_single_is_code. Qed.
Print Assumptions C12_mac_single_is_code.

Theorem C12_enc_update_announced_length_suffices : forall (o : symop) (len have : N),
  so_enc o = true ->
  forall n, In (LEN, n) (snd (SymEncryptUpdate.app (enc_update_env o len None))) ->
  fst (SymEncryptUpdate.app (enc_update_env o len (Some (N.max have n)))) <> CKR_BUFFER_TOO_SMALL.
Proof. exact enc_update_announced_length_suffices. Qed.
Print Assumptions C12_enc_update_announced_length_suffices.

Theorem C12_dec_single_is_code : forall (o : symop) (len : N) (buf : obuf),
  so_enc o = false ->
  let r := sym_single o len buf in
  normr (SymDecrypt.app (dec_single_env o len buf)) = (r_rv r, eff_of r).
Proof. exact dec_single_is_code. Qed.
Print Assumptions C12_dec_single_is_code.

(* ---- the output-length protocol proved about the regenerated functions themselves, for every behaviour of the crypto backend ---- *)

Theorem C12_SymEncryptUpdate_honest : forall (e : SymEncryptUpdate.env),
  honest (SymEncryptUpdate.deref_pulEncryptedDataLen e) (SymEncryptUpdate.pEncryptedData e) (SymEncryptUpdate.app e) /\
  update_stays (SymEncryptUpdate.app e).
Proof. exact OpHonest.SymEncryptUpdate_honest. Qed.
Print Assumptions C12_SymEncryptUpdate_honest.

Theorem C12_SymDecryptUpdate_honest : forall (e : SymDecryptUpdate.env),
  honest (SymDecryptUpdate.deref_pDataLen e) (SymDecryptUpdate.pData e) (SymDecryptUpdate.app e) /\
  update_stays (SymDecryptUpdate.app e).
Proof. exact OpHonest.SymDecryptUpdate_honest. Qed.
Print Assumptions C12_SymDecryptUpdate_honest.

Theorem C12_SymEncryptFinal_honest : forall (e : SymEncryptFinal.env),
  honest (SymEncryptFinal.deref_pulEncryptedDataLen e) (SymEncryptFinal.pEncryptedData e) (SymEncryptFinal.app e) /\
  final_ends (SymEncryptFinal.pEncryptedData e) (SymEncryptFinal.app e).
Proof. exact OpHonest.SymEncryptFinal_honest. Qed.
Print Assumptions C12_SymEncryptFinal_honest.

Theorem C12_SymDecryptFinal_honest : forall (e : SymDecryptFinal.env),
  honest (SymDecryptFinal.deref_pulDecryptedDataLen e) (SymDecryptFinal.pDecryptedData e) (SymDecryptFinal.app e) /\
  final_ends (SymDecryptFinal.pDecryptedData e) (SymDecryptFinal.app e).
Proof. exact OpHonest.SymDecryptFinal_honest. Qed.
Print Assumptions C12_SymDecryptFinal_honest.

Theorem C12_SymEncrypt_honest : forall (e : SymEncrypt.env),
  honest (SymEncrypt.deref_pulEncryptedDataLen e) (SymEncrypt.pEncryptedData e) (SymEncrypt.app e) /\
  final_ends (SymEncrypt.pEncryptedData e) (SymEncrypt.app e).
Proof. exact OpHonest.SymEncrypt_honest. Qed.
Print Assumptions C12_SymEncrypt_honest.

Theorem C12_SymDecrypt_honest : forall (e : SymDecrypt.env),
  honest (SymDecrypt.deref_pulDataLen e) (SymDecrypt.pData e) (SymDecrypt.app e) /\
  final_ends (SymDecrypt.pData e) (SymDecrypt.app e).
Proof. exact OpHonest.SymDecrypt_honest. Qed.
Print Assumptions C12_SymDecrypt_honest.

Theorem C12_AsymEncrypt_honest : forall (e : AsymEncrypt.env),
  honest (AsymEncrypt.deref_pulEncryptedDataLen e) (AsymEncrypt.pEncryptedData e) (AsymEncrypt.app e) /\
  final_ends (AsymEncrypt.pEncryptedData e) (AsymEncrypt.app e).
Proof. exact OpHonest.AsymEncrypt_honest. Qed.
Print Assumptions C12_AsymEncrypt_honest.

Theorem C12_AsymDecrypt_honest : forall (e : AsymDecrypt.env),
  honest (AsymDecrypt.deref_pulDataLen e) (AsymDecrypt.pData e) (AsymDecrypt.app e) /\
  final_ends (AsymDecrypt.pData e) (AsymDecrypt.app e).
Proof. exact OpHonest.AsymDecrypt_honest. Qed.
Print Assumptions C12_AsymDecrypt_honest.

Theorem C12_MacSignFinal_honest : forall (e : MacSignFinal.env),
  honest (MacSignFinal.deref_pulSignatureLen e) (MacSignFinal.pSignature e) (MacSignFinal.app e) /\
  final_ends (MacSignFinal.pSignature e) (MacSignFinal.app e).
Proof. exact OpHonest.MacSignFinal_honest. Qed.
Print Assumptions C12_MacSignFinal_honest.

Theorem C12_MacSign_honest : forall (e : MacSign.env),
  honest (MacSign.deref_pulSignatureLen e) (MacSign.pSignature e) (MacSign.app e) /\
  final_ends (MacSign.pSignature e) (MacSign.app e).
Proof. exact OpHonest.MacSign_honest. Qed.
Print Assumptions C12_MacSign_honest.

Theorem C12_AsymSignFinal_honest : forall (e : AsymSignFinal.env),
  honest (AsymSignFinal.deref_pulSignatureLen e) (AsymSignFinal.pSignature e) (AsymSignFinal.app e) /\
  final_ends (AsymSignFinal.pSignature e) (AsymSignFinal.app e).
Proof. exact OpHonest.AsymSignFinal_honest. Qed.
Print Assumptions C12_AsymSignFinal_honest.
