(* Properties_C16 — what a crash in the middle of a file rewrite leaves behind, read back with the codec model.
   The full statement ("old or new state, never a half-written object returned as valid") is FALSE of the object
   store's rewrite-in-place protocol: C16_atomicity_refuted gives the witness, C16_crash_state_cases is the proved
   part (the complete classification of crash states), C16_crash_never_invents the guarantee that remains.
   Statements only. *)
From Coq Require Import List NArith Bool.
From SoftHSM Require Import Defs Codec CodecFacts CrashFacts.
Import ListNotations.
Local Open Scope N_scope.

Theorem C16_crash_state_cases_partial : forall gen o old s,
  gen < 2 ^ 64 -> wf_obj o = true -> on_disk old (encode_obj gen o) s ->
  s = old \/ s = encode_obj gen o \/ (length s < 8)%nat \/ decode_obj s = None \/
  exists k, (k < length o)%nat /\ decode_obj s = Some (gen, firstn k o).
Proof. exact crash_state_cases. Qed.
Print Assumptions C16_crash_state_cases_partial.

Theorem C16_atomicity_refuted :
  exists gen o old s, gen < 2 ^ 64 /\ wf_obj o = true /\ on_disk old (encode_obj gen o) s /\
    decode_obj s <> decode_obj old /\ decode_obj s <> decode_obj (encode_obj gen o).
Proof. exact crash_atomicity_refuted. Qed.
Print Assumptions C16_atomicity_refuted.

Theorem C16_partial_object_accepted_refuted :
  exists n, decode_obj (firstn n (encode_obj 7 example_obj)) = Some (7, firstn 1 example_obj).
Proof. exact partial_object_accepted_example. Qed.
Print Assumptions C16_partial_object_accepted_refuted.

Theorem C16_crash_never_invents : forall gen o old s g' o',
  gen < 2 ^ 64 -> wf_obj o = true -> on_disk old (encode_obj gen o) s -> s <> old ->
  decode_obj s = Some (g', o') -> g' = gen /\ exists k, o' = firstn k o.
Proof. exact crash_never_invents. Qed.
Print Assumptions C16_crash_never_invents.

(* a cut inside an attribute (at least 8 bytes into it) is always rejected; a cut at a boundary is accepted *)
Theorem C16_cut_inside_attribute_rejected : forall gen o k p n, gen < 2 ^ 64 -> wf_obj o = true ->
  nth_error o k = Some p -> (8 <= n < length (enc_attr p))%nat ->
  decode_obj (firstn (length (encode_obj gen (firstn k o)) + n) (encode_obj gen o)) = None.
Proof. exact decode_prefix_reject. Qed.
Print Assumptions C16_cut_inside_attribute_rejected.
