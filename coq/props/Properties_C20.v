(* Properties_C20 — behaviour does not depend on the storage or the crypto backend.
   There is no second model: the SAME core model (and the same codec-independent theorems about it) is put against
   each of the four configurations by the K-api correspondence, and the same reference implementations against each
   crypto backend.  What Coq contributes here is that the model is a FUNCTION: two implementations that both agree
   with it on a history agree with each other on that history.  Statements only. *)
From Coq Require Import List NArith Bool.
From SoftHSM Require Import Gen_Const Gen_Pure Defs Core AccessFacts StepFacts FailFacts.
Import ListNotations.
Local Open Scope N_scope.

(* two traces of results that both equal the model's run on the same operations are equal *)
Theorem C20_agreement_through_the_model : forall (ops : list op) (r1 r2 : list res),
  r1 = run init_state ops -> r2 = run init_state ops -> r1 = r2.
Proof. exact model_is_a_function. Qed.
Print Assumptions C20_agreement_through_the_model.
