(* Properties_C09 — a call that fails has no effect (core model: every modelled entry point, every state).
   Statements only. *)
From Coq Require Import List NArith Bool.
From SoftHSM Require Import Gen_Const Gen_Pure Defs Core AccessFacts StepFacts FailFacts Gen_Entry EntryModel.
Import ListNotations.
Local Open Scope N_scope.

(* whatever the state (reachable or not), the session, the handles and the template: an answer other than CKR_OK
   leaves the WHOLE model state - every token's objects with every attribute value, the session objects, the
   handle table, the PINs, the login states - exactly as it was.  In particular no prefix of a rejected template is
   applied and no partially built object exists. *)
Theorem C09_failed_call_changes_nothing : forall (s : state) (o : op) (rv : N),
  rv_of (snd (step s o)) = Some rv -> rv <> CKR_OK -> fst (step s o) = s.
Proof. exact fail_no_change. Qed.
Print Assumptions C09_failed_call_changes_nothing.

(* along any history: the state after a run is the state after the run with the failing calls removed *)
Theorem C09_failed_calls_are_invisible : forall ops s, exec s ops = exec s (drop_failed s ops).
Proof. exact failed_calls_are_invisible. Qed.
Print Assumptions C09_failed_calls_are_invisible.

Theorem C09_destroy_model_is_code : forall (s : state) (h oh : N) (x : session),
  st_init s = true -> get_session s h = Some x ->
  rv_of (snd (step s (ODestroy h oh))) = Some (C_DestroyObject.app (destroy_env s h oh x)).
Proof. exact destroy_model_is_code. Qed.
Print Assumptions C09_destroy_model_is_code.

Theorem C09_setattr_model_refusal_is_code : forall (s : state) (h oh : N) (x : session) (tm : template) (rest : N),
  st_init s = true -> get_session s h = Some x ->
  (match get_object s oh with None => True
   | Some (_, _, ob) => negb (have_write (sess_state s x) (o_token ob) (o_private ob) =? CKR_OK) = true
                        \/ obj_bool ob CKA_MODIFIABLE true = false end) ->
  rv_of (snd (step s (OSetAttr h oh tm))) = Some (C_SetAttributeValue.app (setattr_env s h oh x rest 1 (N.of_nat (length tm)))).
Proof. exact setattr_model_refusal_is_code. Qed.
Print Assumptions C09_setattr_model_refusal_is_code.

(* ---- the functions that create key objects, regenerated whole in trace mode (gen/Gen_Keys.v, coq/P11/KeyGenFacts.v) ---- *)
From SoftHSM Require Import Gen_Keys KeyGenSpec KG_tails KeyGenFacts.

(* the five secret-key generators, regenerated whole (gen/Gen_Keys.v), for every behaviour of the store and the crypto backend:
   a call that fails after CreateObject ends by looking the object up, unregistering its handle, destroying it and handing
   the caller CK_INVALID_HANDLE (in this order); a call that succeeds destroys and aborts nothing and has committed *)
Theorem C09_generate_failure_undoes_the_object :
  (forall (e : generateAES.env), let h := generateAES.CreateObject_sets_phKey e in let g := generateAES.handleManager_getObject e in
     (fst (generateAES.app e) <> 0 -> In (T_CREATE, OBJECT_OP_GENERATE) (snd (generateAES.app e)) -> h <> 0 -> exists pre, snd (generateAES.app e) = cleanup OUT_phKey h g ++ pre) /\
     (fst (generateAES.app e) <> 0 -> last_out OUT_phKey (snd (generateAES.app e)) = Some 0 \/ last_out OUT_phKey (snd (generateAES.app e)) = None) /\
     (fst (generateAES.app e) = 0 -> (forall t v, In (t, v) (snd (generateAES.app e)) -> t <> T_HMD /\ t <> T_OBJD /\ t <> T_ABORT) /\
        In (T_CREATE, OBJECT_OP_GENERATE) (snd (generateAES.app e)) /\ In (T_TXS, g h) (snd (generateAES.app e)) /\ In (T_COMMIT, g h) (snd (generateAES.app e)))) /\
  (forall (e : generateDES.env), let h := generateDES.CreateObject_sets_phKey e in let g := generateDES.handleManager_getObject e in
     (fst (generateDES.app e) <> 0 -> In (T_CREATE, OBJECT_OP_GENERATE) (snd (generateDES.app e)) -> h <> 0 -> exists pre, snd (generateDES.app e) = cleanup OUT_phKey h g ++ pre) /\
     (fst (generateDES.app e) <> 0 -> last_out OUT_phKey (snd (generateDES.app e)) = Some 0 \/ last_out OUT_phKey (snd (generateDES.app e)) = None) /\
     (fst (generateDES.app e) = 0 -> (forall t v, In (t, v) (snd (generateDES.app e)) -> t <> T_HMD /\ t <> T_OBJD /\ t <> T_ABORT) /\
        In (T_CREATE, OBJECT_OP_GENERATE) (snd (generateDES.app e)) /\ In (T_TXS, g h) (snd (generateDES.app e)) /\ In (T_COMMIT, g h) (snd (generateDES.app e)))) /\
  (forall (e : generateDES2.env), let h := generateDES2.CreateObject_sets_phKey e in let g := generateDES2.handleManager_getObject e in
     (fst (generateDES2.app e) <> 0 -> In (T_CREATE, OBJECT_OP_GENERATE) (snd (generateDES2.app e)) -> h <> 0 -> exists pre, snd (generateDES2.app e) = cleanup OUT_phKey h g ++ pre) /\
     (fst (generateDES2.app e) <> 0 -> last_out OUT_phKey (snd (generateDES2.app e)) = Some 0 \/ last_out OUT_phKey (snd (generateDES2.app e)) = None) /\
     (fst (generateDES2.app e) = 0 -> (forall t v, In (t, v) (snd (generateDES2.app e)) -> t <> T_HMD /\ t <> T_OBJD /\ t <> T_ABORT) /\
        In (T_CREATE, OBJECT_OP_GENERATE) (snd (generateDES2.app e)) /\ In (T_TXS, g h) (snd (generateDES2.app e)) /\ In (T_COMMIT, g h) (snd (generateDES2.app e)))) /\
  (forall (e : generateDES3.env), let h := generateDES3.CreateObject_sets_phKey e in let g := generateDES3.handleManager_getObject e in
     (fst (generateDES3.app e) <> 0 -> In (T_CREATE, OBJECT_OP_GENERATE) (snd (generateDES3.app e)) -> h <> 0 -> exists pre, snd (generateDES3.app e) = cleanup OUT_phKey h g ++ pre) /\
     (fst (generateDES3.app e) <> 0 -> last_out OUT_phKey (snd (generateDES3.app e)) = Some 0 \/ last_out OUT_phKey (snd (generateDES3.app e)) = None) /\
     (fst (generateDES3.app e) = 0 -> (forall t v, In (t, v) (snd (generateDES3.app e)) -> t <> T_HMD /\ t <> T_OBJD /\ t <> T_ABORT) /\
        In (T_CREATE, OBJECT_OP_GENERATE) (snd (generateDES3.app e)) /\ In (T_TXS, g h) (snd (generateDES3.app e)) /\ In (T_COMMIT, g h) (snd (generateDES3.app e)))) /\
  (forall (e : generateGeneric.env), let h := generateGeneric.CreateObject_sets_phKey e in let g := generateGeneric.handleManager_getObject e in
     (fst (generateGeneric.app e) <> 0 -> In (T_CREATE, OBJECT_OP_GENERATE) (snd (generateGeneric.app e)) -> h <> 0 -> exists pre, snd (generateGeneric.app e) = cleanup OUT_phKey h g ++ pre) /\
     (fst (generateGeneric.app e) <> 0 -> last_out OUT_phKey (snd (generateGeneric.app e)) = Some 0 \/ last_out OUT_phKey (snd (generateGeneric.app e)) = None) /\
     (fst (generateGeneric.app e) = 0 -> (forall t v, In (t, v) (snd (generateGeneric.app e)) -> t <> T_HMD /\ t <> T_OBJD /\ t <> T_ABORT) /\
        In (T_CREATE, OBJECT_OP_GENERATE) (snd (generateGeneric.app e)) /\ In (T_TXS, g h) (snd (generateGeneric.app e)) /\ In (T_COMMIT, g h) (snd (generateGeneric.app e)))).
Proof. exact generated_failure_undoes_success_commits. Qed.
Print Assumptions C09_generate_failure_undoes_the_object.

(* C_UnwrapKey regenerated whole (gen/Gen_Keys.v), for every behaviour of the store and the crypto backend: a call that fails after
   CreateObject ends by looking the object up, unregistering its handle, destroying it and handing the caller CK_INVALID_HANDLE;
   a call that succeeds destroys and aborts nothing and has committed; only the handle / object just created are ever touched *)
Theorem C09_unwrap_failure_undoes_the_object : forall (e : C_UnwrapKey.env),
  let h := C_UnwrapKey.CreateObject_sets_hKey e in let g := C_UnwrapKey.handleManager_getObject e in
  (fst (C_UnwrapKey.app e) <> 0 -> In (T_CREATE, OBJECT_OP_UNWRAP) (snd (C_UnwrapKey.app e)) -> h <> 0 -> exists pre, snd (C_UnwrapKey.app e) = cleanup OUT_hKey h g ++ pre) /\
  (fst (C_UnwrapKey.app e) <> 0 -> last_out OUT_hKey (snd (C_UnwrapKey.app e)) = Some 0 \/ last_out OUT_hKey (snd (C_UnwrapKey.app e)) = None) /\
  (fst (C_UnwrapKey.app e) = 0 -> (forall t v, In (t, v) (snd (C_UnwrapKey.app e)) -> t <> T_HMD /\ t <> T_OBJD /\ t <> T_ABORT) /\
     In (T_CREATE, OBJECT_OP_UNWRAP) (snd (C_UnwrapKey.app e)) /\ In (T_TXS, g h) (snd (C_UnwrapKey.app e)) /\ In (T_COMMIT, g h) (snd (C_UnwrapKey.app e))) /\
  (forall x, In (T_HMD, x) (snd (C_UnwrapKey.app e)) -> x = h) /\
  (forall o, In (T_OBJD, o) (snd (C_UnwrapKey.app e)) -> o = g h).
Proof. exact unwrap_failure_undoes_success_commits. Qed.
Print Assumptions C09_unwrap_failure_undoes_the_object.

(* PARTIAL (all 18 key-creating functions, including the key-pair generators and the derive functions, which are not executed
   symbolically to their end): the continuation that begins with `if (rv != CKR_OK)` and unregisters a handle - `<f>_tail`,
   picked from the regenerated code by translator/gen_kgproofs.py - returns rv unchanged and, when rv is not CKR_OK, performs
   for every handle variable that is not CK_INVALID_HANDLE exactly: look-up, unregistration, destruction of the object found,
   CK_INVALID_HANDLE to the caller.  Missing for the full statement: that every failing path reaches it (proved for six
   functions above). *)
Theorem C09_cleanup_tails_partial :
  (forall (e : generateAES.env) (drf_phKey : N) (rv : N) (acc : list (N * N)) (r : R), generateAES_tail e drf_phKey rv acc r ->
     r = (rv, (if rv =? 0 then [] else (if drf_phKey =? 0 then [] else cleanup 18446744073709551517 drf_phKey (generateAES.handleManager_getObject e))) ++ acc)) /\
  (forall (e : generateDES.env) (drf_phKey : N) (rv : N) (acc : list (N * N)) (r : R), generateDES_tail e drf_phKey rv acc r ->
     r = (rv, (if rv =? 0 then [] else (if drf_phKey =? 0 then [] else cleanup 18446744073709551517 drf_phKey (generateDES.handleManager_getObject e))) ++ acc)) /\
  (forall (e : generateDES2.env) (drf_phKey : N) (rv : N) (acc : list (N * N)) (r : R), generateDES2_tail e drf_phKey rv acc r ->
     r = (rv, (if rv =? 0 then [] else (if drf_phKey =? 0 then [] else cleanup 18446744073709551517 drf_phKey (generateDES2.handleManager_getObject e))) ++ acc)) /\
  (forall (e : generateDES3.env) (drf_phKey : N) (rv : N) (acc : list (N * N)) (r : R), generateDES3_tail e drf_phKey rv acc r ->
     r = (rv, (if rv =? 0 then [] else (if drf_phKey =? 0 then [] else cleanup 18446744073709551517 drf_phKey (generateDES3.handleManager_getObject e))) ++ acc)) /\
  (forall (e : generateGeneric.env) (drf_phKey : N) (rv : N) (acc : list (N * N)) (r : R), generateGeneric_tail e drf_phKey rv acc r ->
     r = (rv, (if rv =? 0 then [] else (if drf_phKey =? 0 then [] else cleanup 18446744073709551517 drf_phKey (generateGeneric.handleManager_getObject e))) ++ acc)) /\
  (forall (e : generateRSA.env) (drf_phPublicKey : N) (drf_phPrivateKey : N) (rv : N) (acc : list (N * N)) (r : R), generateRSA_tail e drf_phPublicKey drf_phPrivateKey rv acc r ->
     r = (rv, (if rv =? 0 then [] else (if drf_phPublicKey =? 0 then [] else cleanup 18446744073709551515 drf_phPublicKey (generateRSA.handleManager_getObject e)) ++ (if drf_phPrivateKey =? 0 then [] else cleanup 18446744073709551514 drf_phPrivateKey (generateRSA.handleManager_getObject e))) ++ acc)) /\
  (forall (e : generateDSA.env) (drf_phPublicKey : N) (drf_phPrivateKey : N) (rv : N) (acc : list (N * N)) (r : R), generateDSA_tail e drf_phPublicKey drf_phPrivateKey rv acc r ->
     r = (rv, (if rv =? 0 then [] else (if drf_phPublicKey =? 0 then [] else cleanup 18446744073709551515 drf_phPublicKey (generateDSA.handleManager_getObject e)) ++ (if drf_phPrivateKey =? 0 then [] else cleanup 18446744073709551514 drf_phPrivateKey (generateDSA.handleManager_getObject e))) ++ acc)) /\
  (forall (e : generateDSAParameters.env) (drf_phKey : N) (rv : N) (acc : list (N * N)) (r : R), generateDSAParameters_tail e drf_phKey rv acc r ->
     r = (rv, (if rv =? 0 then [] else (if drf_phKey =? 0 then [] else cleanup 18446744073709551517 drf_phKey (generateDSAParameters.handleManager_getObject e))) ++ acc)) /\
  (forall (e : generateEC.env) (drf_phPublicKey : N) (drf_phPrivateKey : N) (rv : N) (acc : list (N * N)) (r : R), generateEC_tail e drf_phPublicKey drf_phPrivateKey rv acc r ->
     r = (rv, (if rv =? 0 then [] else (if drf_phPublicKey =? 0 then [] else cleanup 18446744073709551515 drf_phPublicKey (generateEC.handleManager_getObject e)) ++ (if drf_phPrivateKey =? 0 then [] else cleanup 18446744073709551514 drf_phPrivateKey (generateEC.handleManager_getObject e))) ++ acc)) /\
  (forall (e : generateED.env) (drf_phPublicKey : N) (drf_phPrivateKey : N) (rv : N) (acc : list (N * N)) (r : R), generateED_tail e drf_phPublicKey drf_phPrivateKey rv acc r ->
     r = (rv, (if rv =? 0 then [] else (if drf_phPublicKey =? 0 then [] else cleanup 18446744073709551515 drf_phPublicKey (generateED.handleManager_getObject e)) ++ (if drf_phPrivateKey =? 0 then [] else cleanup 18446744073709551514 drf_phPrivateKey (generateED.handleManager_getObject e))) ++ acc)) /\
  (forall (e : generateDH.env) (drf_phPublicKey : N) (drf_phPrivateKey : N) (rv : N) (acc : list (N * N)) (r : R), generateDH_tail e drf_phPublicKey drf_phPrivateKey rv acc r ->
     r = (rv, (if rv =? 0 then [] else (if drf_phPublicKey =? 0 then [] else cleanup 18446744073709551515 drf_phPublicKey (generateDH.handleManager_getObject e)) ++ (if drf_phPrivateKey =? 0 then [] else cleanup 18446744073709551514 drf_phPrivateKey (generateDH.handleManager_getObject e))) ++ acc)) /\
  (forall (e : generateDHParameters.env) (drf_phKey : N) (rv : N) (acc : list (N * N)) (r : R), generateDHParameters_tail e drf_phKey rv acc r ->
     r = (rv, (if rv =? 0 then [] else (if drf_phKey =? 0 then [] else cleanup 18446744073709551517 drf_phKey (generateDHParameters.handleManager_getObject e))) ++ acc)) /\
  (forall (e : generateGOST.env) (drf_phPublicKey : N) (drf_phPrivateKey : N) (rv : N) (acc : list (N * N)) (r : R), generateGOST_tail e drf_phPublicKey drf_phPrivateKey rv acc r ->
     r = (rv, (if rv =? 0 then [] else (if drf_phPublicKey =? 0 then [] else cleanup 18446744073709551515 drf_phPublicKey (generateGOST.handleManager_getObject e)) ++ (if drf_phPrivateKey =? 0 then [] else cleanup 18446744073709551514 drf_phPrivateKey (generateGOST.handleManager_getObject e))) ++ acc)) /\
  (forall (e : deriveDH.env) (drf_phKey : N) (rv : N) (acc : list (N * N)) (r : R), deriveDH_tail e drf_phKey rv acc r ->
     r = (rv, (if rv =? 0 then [] else (if drf_phKey =? 0 then [] else cleanup 18446744073709551515 drf_phKey (deriveDH.handleManager_getObject e))) ++ acc)) /\
  (forall (e : deriveECDH.env) (drf_phKey : N) (rv : N) (acc : list (N * N)) (r : R), deriveECDH_tail e drf_phKey rv acc r ->
     r = (rv, (if rv =? 0 then [] else (if drf_phKey =? 0 then [] else cleanup 18446744073709551515 drf_phKey (deriveECDH.handleManager_getObject e))) ++ acc)) /\
  (forall (e : deriveEDDSA.env) (drf_phKey : N) (rv : N) (acc : list (N * N)) (r : R), deriveEDDSA_tail e drf_phKey rv acc r ->
     r = (rv, (if rv =? 0 then [] else (if drf_phKey =? 0 then [] else cleanup 18446744073709551515 drf_phKey (deriveEDDSA.handleManager_getObject e))) ++ acc)) /\
  (forall (e : deriveSymmetric.env) (drf_phKey : N) (rv : N) (acc : list (N * N)) (r : R), deriveSymmetric_tail e drf_phKey rv acc r ->
     r = (rv, (if rv =? 0 then [] else (if drf_phKey =? 0 then [] else cleanup 18446744073709551515 drf_phKey (deriveSymmetric.handleManager_getObject e))) ++ acc)) /\
  (forall (e : C_UnwrapKey.env) (drf_hKey : N) (rv : N) (acc : list (N * N)) (r : R), C_UnwrapKey_tail e drf_hKey rv acc r ->
     r = (rv, (if rv =? 0 then [] else (if drf_hKey =? 0 then [] else cleanup 18446744073709551513 drf_hKey (C_UnwrapKey.handleManager_getObject e))) ++ acc)).
Proof. exact cleanup_tails_partial. Qed.
Print Assumptions C09_cleanup_tails_partial.
