(* Properties_C09 — a call that fails has no effect (core model: every modelled entry point, every state).
   Statements only. *)
From Coq Require Import List NArith Bool.
From SoftHSM Require Import Gen_Const Gen_Pure Defs Core AccessFacts StepFacts FailFacts.
Import ListNotations.
Local Open Scope N_scope.

(* whatever the state (reachable or not), the session, the handles and the template: an answer other than CKR_OK
   leaves the WHOLE model state - every token's objects with every attribute value, the session objects, the
   handle table, the PINs, the login states - exactly as it was.  In particular no prefix of a rejected template is
   applied and no partially built object exists. *)
Theorem C09_failed_call_changes_nothing : forall (s : state) (o : op) (rv : N),
  rv_of (snd (step s o)) = Some rv -> rv <> CKR_OK -> fst (step s o) = s.
Proof. exact fail_no_change. Qed.
Print Assumptions C09_failed_call_changes_nothing.

(* along any history: the state after a run is the state after the run with the failing calls removed *)
Theorem C09_failed_calls_are_invisible : forall ops s, exec s ops = exec s (drop_failed s ops).
Proof. exact failed_calls_are_invisible. Qed.
Print Assumptions C09_failed_calls_are_invisible.
