(* Properties_C09 — a call that fails has no effect (core model: every modelled entry point, every state).
   Statements only. *)
From Coq Require Import List NArith Bool.
From SoftHSM Require Import Gen_Const Gen_Pure Defs Core AccessFacts StepFacts FailFacts Gen_Entry EntryModel.
Import ListNotations.
Local Open Scope N_scope.

(* whatever the state (reachable or not), the session, the handles and the template: an answer other than CKR_OK
   leaves the WHOLE model state - every token's objects with every attribute value, the session objects, the
   handle table, the PINs, the login states - exactly as it was.  In particular no prefix of a rejected template is
   applied and no partially built object exists. *)
Theorem C09_failed_call_changes_nothing : forall (s : state) (o : op) (rv : N),
  rv_of (snd (step s o)) = Some rv -> rv <> CKR_OK -> fst (step s o) = s.
Proof. exact fail_no_change. Qed.
Print Assumptions C09_failed_call_changes_nothing.

(* along any history: the state after a run is the state after the run with the failing calls removed *)
Theorem C09_failed_calls_are_invisible : forall ops s, exec s ops = exec s (drop_failed s ops).
Proof. exact failed_calls_are_invisible. Qed.
Print Assumptions C09_failed_calls_are_invisible.

Theorem C09_destroy_model_is_code : forall (s : state) (h oh : N) (x : session),
  st_init s = true -> get_session s h = Some x ->
  rv_of (snd (step s (ODestroy h oh))) = Some (C_DestroyObject.app (destroy_env s h oh x)).
Proof. exact destroy_model_is_code. Qed.
Print Assumptions C09_destroy_model_is_code.

Theorem C09_setattr_model_refusal_is_code : forall (s : state) (h oh : N) (x : session) (tm : template) (rest : N),
  st_init s = true -> get_session s h = Some x ->
  (match get_object s oh with None => True
   | Some (_, _, ob) => negb (have_write (sess_state s x) (o_token ob) (o_private ob) =? CKR_OK) = true
                        \/ obj_bool ob CKA_MODIFIABLE true = false end) ->
  rv_of (snd (step s (OSetAttr h oh tm))) = Some (C_SetAttributeValue.app (setattr_env s h oh x rest 1 (N.of_nat (length tm)))).
Proof. exact setattr_model_refusal_is_code. Qed.
Print Assumptions C09_setattr_model_refusal_is_code.
