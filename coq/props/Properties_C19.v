(* Properties_C19 — object search is sound and complete.  Statements only. *)
From Coq Require Import List NArith Bool.
From SoftHSM Require Import Gen_Const Gen_Pure Defs Core AccessFacts StepFacts Invariants HandleFacts FindFacts Gen_Entry EntryModel.
Import ListNotations.
Local Open Scope N_scope.

(* after a successful C_FindObjectsInit the session holds, in ascending duplicate-free order, exactly the
   handles of the objects of ITS token (token objects and session objects of all sessions) that it may
   see and that match every template entry — both inclusions *)
Theorem C19_findinit_sound_complete : forall (s : state) (h : N) (x : session) (tm : template) (prio : list bytes),
  st_init s = true -> get_session s h = Some x ->
  snd (step s (OFindInit h tm prio)) = RRv CKR_OK ->
  let s' := fst (step s (OFindInit h tm prio)) in
  exists x', alookup h (st_sessions s') = Some x' /\ s_op x' = SESSION_OP_FIND /\ ascending (s_find x') /\
    forall oh, In oh (s_find x') <->
      exists c, In c (candidates s (s_tok x)) /\
                cand_selected (tctx_of s (s_tok x)) (public_session s x) tm c = true /\
                find_obj_handle s' (fst (fst c)) = Some oh.
Proof. exact findinit_sound_complete. Qed.
Print Assumptions C19_findinit_sound_complete.

Theorem C19_candidates_own_token : forall (s : state) (k oid : N) (istok : bool) (o : obj),
  In (oid, istok, o) (candidates s k) ->
  (istok = true /\ exists t, alookup k (st_tokens s) = Some t /\ In (oid, o) (t_objs t)) \/
  (istok = false /\ exists so, In (oid, so) (st_sobjs s) /\ so_tok so = k /\ so_obj so = o).
Proof. exact candidates_own_token. Qed.
Print Assumptions C19_candidates_own_token.

Theorem C19_private_only_for_user : forall tc tm c, cand_selected tc true tm c = true -> o_private (snd c) = false.
Proof. exact public_session_hides_private. Qed.
Print Assumptions C19_private_only_for_user.
Theorem C19_public_session_iff : forall s x, public_session s x = true <-> tok_login s (s_tok x) <> LUser.
Proof. exact public_session_iff. Qed.
Print Assumptions C19_public_session_iff.

Theorem C19_empty_template_matches_all : forall tc pub c, cand_selected tc pub [] c = negb (pub && o_private (snd c)).
Proof. exact empty_template_matches. Qed.
Print Assumptions C19_empty_template_matches_all.

(* C_FindObjects: each call returns the min(max, remaining) lowest remaining handles and removes them;
   any sequence of batch sizes (zeros included) partitions a prefix of the captured list *)
Theorem C19_find_batch : forall (s : state) (h mx : N) (x : session),
  st_init s = true -> get_session s h = Some x -> alookup h (st_sessions s) = Some x -> s_op x = SESSION_OP_FIND ->
  let n := N.to_nat (N.min mx (N.of_nat (length (s_find x)))) in
  snd (step s (OFind h mx)) = RFound (take n (s_find x)) /\
  exists x', alookup h (st_sessions (fst (step s (OFind h mx)))) = Some x' /\ s_find x' = drop n (s_find x) /\ s_op x' = SESSION_OP_FIND.
Proof. exact find_batch. Qed.
Print Assumptions C19_find_batch.
Theorem C19_batches_partition : forall (sizes : list nat) (l : list N),
  concat (batches sizes l) = firstn (fold_right Nat.add 0%nat sizes) l.
Proof. exact batches_partition. Qed.
Print Assumptions C19_batches_partition.
Theorem C19_ascending_NoDup : forall l, ascending l -> NoDup l.
Proof. exact ascending_NoDup. Qed.
Print Assumptions C19_ascending_NoDup.

Theorem C19_findinit_code_passes_model_public : forall (s : state) (h : N) (x : session) (rest : bool -> N) (ptr cnt : N),
  (ptr <> 0 \/ cnt = 0) ->
  C_FindObjectsInit.app (findinit_env s h x rest ptr cnt)
  = if negb (s_op x =? SESSION_OP_NONE) then CKR_OPERATION_ACTIVE else rest (model_public (sess_state s x)).
Proof. exact findinit_code_passes_model_public. Qed.
Print Assumptions C19_findinit_code_passes_model_public.

Theorem C19_findinit_model_is_code : forall (s : state) (h : N) (x : session) (tm : template) (prio : list bytes),
  st_init s = true -> get_session s h = Some x ->
  negb (s_op x =? SESSION_OP_NONE) = true ->
  rv_of (snd (step s (OFindInit h tm prio))) = Some (C_FindObjectsInit.app (findinit_env s h x (fun _ => CKR_OK) 1 0)).
Proof. exact findinit_model_is_code. Qed.
Print Assumptions C19_findinit_model_is_code.

Theorem C19_findinit_model_uses_public : forall (s : state) (h : N) (x : session) (tm : template) (prio : list bytes),
  st_init s = true -> get_session s h = Some x -> (s_op x =? SESSION_OP_NONE) = true ->
  forallb (fun e => match te_val e with Some b => blen b =? te_len e | None => te_len e =? 0 end) tm = true ->
  step s (OFindInit h tm prio)
  = match find_loop (tctx_of s (s_tok x)) (model_public (sess_state s x)) (s_tok x) h tm (order_cands prio (candidates s (s_tok x))) s [] with
    | None => (s, RUnmodelled)
    | Some (s1, hs) => (upd_session s1 h (fun x => set_s_op x SESSION_OP_FIND hs), RRv CKR_OK)
    end.
Proof. exact findinit_model_uses_public. Qed.
Print Assumptions C19_findinit_model_uses_public.
