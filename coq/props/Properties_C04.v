(* Properties_C04 — only the current PIN authenticates; PIN changes are exact and lossless.
   PINs are the ghost byte strings of the symbolic model (DESIGN.md §3); statements only. *)
From Coq Require Import List NArith Bool.
From SoftHSM Require Import Gen_Entry EntryModel Gen_Const Gen_Pure Defs Core AccessFacts StepFacts Invariants SessionSpec PinFacts.
Import ListNotations.
Local Open Scope N_scope.

(* a PIN is accepted iff it is byte-for-byte the stored one (and not empty): no prefix, extension,
   neighbour or other user's PIN *)
Theorem C04_pin_ok_iff : forall stored given : bytes, pin_ok stored given = true <-> given = stored /\ given <> [].
Proof. exact pin_ok_iff. Qed.
Print Assumptions C04_pin_ok_iff.

Theorem C04_login_iff_current_pin : forall (s : state) (h ut : N) (p : bytes) (x : session) (t : token),
  st_init s = true -> get_session s h = Some x -> alookup (s_tok x) (st_tokens s) = Some t ->
  (snd (step s (OLogin h ut (Some p))) = RRv CKR_OK <->
   (ut = CKU_SO /\ has_ro_session s (s_tok x) = false /\ t_login t = LNone /\ pin_ok (t_sopin t) p = true) \/
   (ut = CKU_USER /\ t_login t = LNone /\ exists up, t_userpin t = Some up /\ pin_ok up p = true)).
Proof. exact login_ok_iff. Qed.
Print Assumptions C04_login_iff_current_pin.

Theorem C04_initpin_spec : forall (s : state) (h : N) (x : session) (p : bytes) (t : token),
  st_init s = true -> get_session s h = Some x -> alookup (s_tok x) (st_tokens s) = Some t ->
  (snd (step s (OInitPin h (Some p))) = RRv CKR_OK <-> (tok_login s (s_tok x) = LSO /\ pin_len_ok (blen p) = true)) /\
  (snd (step s (OInitPin h (Some p))) = RRv CKR_OK ->
   forall k, tok_pins (fst (step s (OInitPin h (Some p)))) k =
             if s_tok x =? k then Some (t_sopin t, Some p, t_key t) else tok_pins s k) /\
  (forall k, tok_objs (fst (step s (OInitPin h (Some p)))) k = tok_objs s k) /\
  (forall k, tok_login (fst (step s (OInitPin h (Some p)))) k = tok_login s k).
Proof. exact initpin_spec. Qed.
Print Assumptions C04_initpin_spec.

Theorem C04_setpin_ok_iff : forall (s : state) (h : N) (x : session) (po pn : bytes) (t : token),
  st_init s = true -> get_session s h = Some x -> alookup (s_tok x) (st_tokens s) = Some t ->
  (snd (step s (OSetPin h (Some po) (Some pn))) = RRv CKR_OK <->
     pin_len_ok (blen pn) = true /\
     ((tok_login s (s_tok x) = LSO /\ pin_ok (t_sopin t) po = true) \/
      (tok_login s (s_tok x) <> LSO /\ s_rw x = true /\ exists up, t_userpin t = Some up /\ pin_ok up po = true))).
Proof. exact setpin_ok_iff. Qed.
Print Assumptions C04_setpin_ok_iff.

(* exactly the addressed PIN changes; the other PIN, the master key, every object and the login state stay *)
Theorem C04_setpin_effect : forall (s : state) (h : N) (x : session) (po pn : option bytes) (t : token),
  st_init s = true -> get_session s h = Some x -> alookup (s_tok x) (st_tokens s) = Some t ->
  let r := step s (OSetPin h po pn) in
  (snd r = RRv CKR_OK ->
     exists pnew, pn = Some pnew /\
     forall k, tok_pins (fst r) k =
               if s_tok x =? k then (if is_so (tok_login s (s_tok x)) then Some (pnew, t_userpin t, t_key t) else Some (t_sopin t, Some pnew, t_key t))
               else tok_pins s k) /\
  (forall k, tok_objs (fst r) k = tok_objs s k) /\ (forall k, tok_login (fst r) k = tok_login s k).
Proof. exact setpin_effect. Qed.
Print Assumptions C04_setpin_effect.

(* a rejected attempt changes nothing at all *)
Theorem C04_rejected_changes_nothing : forall (s : state) (o : op) (rv : N),
  rv_of (snd (step s o)) = Some rv -> rv <> CKR_OK -> fst (step s o) = s.
Proof. exact fail_no_change. Qed.
Print Assumptions C04_rejected_changes_nothing.

(* PINs, master key and objects survive C_Finalize/C_Initialize and a new process *)
Theorem C04_restart_keeps_pins : forall (s : state) (b : bool) (k : N),
  tok_pins (restart s b) k = tok_pins s k /\ tok_objs (restart s b) k = tok_objs s k /\ tok_login (restart s b) k = LNone.
Proof. exact restart_keeps_pins. Qed.
Print Assumptions C04_restart_keeps_pins.

(* over any call: PINs / master key of token k change only by a successful C_InitPIN / C_SetPIN through a
   session of k or C_InitToken of k — "the PIN most recently set" is what is stored *)
Theorem C04_pins_change_only_by : forall (s : state) (o : op) (k : N),
  tok_pins (fst (step s o)) k = tok_pins s k \/ pin_event s o k.
Proof. exact pins_change_only_by. Qed.
Print Assumptions C04_pins_change_only_by.

Theorem C04_decrypt_needs_only_key : forall (tc tc' : tctx) enc b,
  tc_logged tc = tc_logged tc' -> tc_key tc = tc_key tc' -> tok_decrypt tc enc b = tok_decrypt tc' enc b.
Proof. exact decrypt_needs_only_key. Qed.
Print Assumptions C04_decrypt_needs_only_key.

(* ---- the model's decisions are the code's decisions: the return code of the model step equals the REGENERATED C_InitPIN / C_SetPIN
   (gen/Gen_Entry.v) applied to the abstraction of the model state; the token-level answers (is the old PIN the current one) are the
   model's set_user_rv / set_so_rv ------------------------------------------------------------------------------------------------- *)
Theorem C04_initpin_model_is_code : forall (s : state) (h : N) (x : session) (pin : option bytes),
  st_init s = true -> get_session s h = Some x ->
  rv_of (snd (step s (OInitPin h pin))) = Some (C_InitPIN.app (initpin_env s h x pin)).
Proof. exact initpin_model_is_code. Qed.
Print Assumptions C04_initpin_model_is_code.
Theorem C04_setpin_model_is_code : forall (s : state) (h : N) (x : session) (t : token) (oldp newp : option bytes),
  st_init s = true -> get_session s h = Some x -> alookup (s_tok x) (st_tokens s) = Some t ->
  rv_of (snd (step s (OSetPin h oldp newp))) = Some (C_SetPIN.app (setpin_env s h x t oldp newp)).
Proof. exact setpin_model_is_code. Qed.
Print Assumptions C04_setpin_model_is_code.
