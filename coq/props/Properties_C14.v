(* Properties_C14 — token initialisation, re-initialisation and isolation between tokens (core model).
   inv_tok is the structural invariant of the handle / session / session-object tables; it holds in every reachable
   state (C14_inv_tok_reachable).  Statements only. *)
From Coq Require Import List NArith Bool.
From SoftHSM Require Import Gen_Entry EntryModel Gen_Const Gen_Pure Defs Core AccessFacts StepFacts Invariants SessionSpec PinFacts HandleFacts TokenFacts.
Import ListNotations.
Local Open Scope N_scope.

Theorem C14_inv_tok_reachable : forall ops : list op, inv_tok (exec init_state ops).
Proof. exact inv_tok_reachable. Qed.
Print Assumptions C14_inv_tok_reachable.

(* nothing done through token j's sessions and the handles they returned changes anything of another token k:
   its PINs, login state, key, objects (inside alookup k (st_tokens _)), its sessions, session objects and handles *)
Theorem C14_isolation : forall (s : state) (o : op) (j k : N),
  inv_tok s -> st_init s = true -> addresses s o j -> j <> k -> tok_view (fst (step s o)) k = tok_view s k.
Proof. exact isolation. Qed.
Print Assumptions C14_isolation.

Theorem C14_isolation_trace : forall (ops0 ops : list op) (k : N),
  let s := exec init_state ops0 in addresses_other s ops k -> tok_view (exec s ops) k = tok_view s k.
Proof. exact isolation_trace_reachable. Qed.
Print Assumptions C14_isolation_trace.

(* the hypothesis is satisfiable: a reachable two-token state *)
Theorem C14_isolation_example : forall o : op, addresses iso_state o 0 -> tok_view (fst (step iso_state o)) 1 = tok_view iso_state 1.
Proof. exact isolation_example_thm. Qed.
Print Assumptions C14_isolation_example.

(* C_InitToken on the free slot: a token with the given SO PIN, no user PIN, no objects; every other token untouched *)
Theorem C14_inittoken_fresh : forall (s : state) (p : bytes) (label : N),
  st_init s = true -> amem label (st_tokens s) = false -> pin_len_ok (blen p) = true ->
  let r := step s (OInitToken TFree (Some p) label) in
  snd r = RRv CKR_OK /\
  st_tokens (fst r) = st_tokens s ++ [(label, mkToken p None LNone (st_next_key s) [])] /\
  (forall k, k <> label -> tok_view (fst r) k = tok_view s k).
Proof. exact inittoken_fresh. Qed.
Print Assumptions C14_inittoken_fresh.

(* on an initialised token: exactly with the current SO PIN and no session open *)
Theorem C14_reinit_ok_iff : forall (s : state) (k : N) (p : bytes) (t0 : token),
  st_init s = true -> alookup k (st_tokens s) = Some t0 ->
  (snd (step s (OInitToken (TTok k) (Some p) k)) = RRv CKR_OK <->
   existsb (fun q => s_tok (snd q) =? k) (st_sessions s) = false /\ pin_len_ok (blen p) = true /\ pin_ok (t_sopin t0) p = true).
Proof. exact reinit_ok_iff. Qed.
Print Assumptions C14_reinit_ok_iff.

(* ... and then all objects and the user PIN are gone, the SO PIN and the key stay, other tokens are untouched *)
Theorem C14_reinit_effect : forall (s : state) (k : N) (p : bytes) (t0 : token),
  st_init s = true -> alookup k (st_tokens s) = Some t0 ->
  let r := step s (OInitToken (TTok k) (Some p) k) in
  snd r = RRv CKR_OK ->
  alookup k (st_tokens (fst r)) = Some (mkToken (t_sopin t0) None LNone (t_key t0) []) /\
  st_sessions (fst r) = st_sessions s /\ st_handles (fst r) = st_handles s /\ st_sobjs (fst r) = st_sobjs s /\
  (forall k', k' <> k -> tok_view (fst r) k' = tok_view s k').
Proof. exact reinit_effect. Qed.
Print Assumptions C14_reinit_effect.

(* after a restart (C_Finalize / C_Initialize or a new process) every token is there with the same PINs, key, objects *)
Theorem C14_restart_keeps_tokens : forall (s : state) (b : bool),
  (forall k,
     option_map t_sopin (alookup k (st_tokens (restart s b))) = option_map t_sopin (alookup k (st_tokens s)) /\
     option_map t_userpin (alookup k (st_tokens (restart s b))) = option_map t_userpin (alookup k (st_tokens s)) /\
     option_map t_key (alookup k (st_tokens (restart s b))) = option_map t_key (alookup k (st_tokens s)) /\
     option_map t_objs (alookup k (st_tokens (restart s b))) = option_map t_objs (alookup k (st_tokens s)) /\
     option_map t_login (alookup k (st_tokens (restart s b))) = option_map (fun _ => LNone) (alookup k (st_tokens s))) /\
  akeys (st_tokens (restart s b)) = akeys (st_tokens s) /\
  st_sessions (restart s b) = [] /\ st_handles (restart s b) = [] /\ st_sobjs (restart s b) = [] /\
  st_init (restart s b) = b.
Proof. exact restart_view. Qed.
Print Assumptions C14_restart_keeps_tokens.

(* the model's C_InitToken decision is the code's: the step's return code equals the REGENERATED SoftHSM::C_InitToken applied to the
   abstraction of the state (slot found, session on the slot or not, Slot::initToken answering the model's token-level verdict) *)
Theorem C14_inittoken_model_is_code : forall (s : state) (t : tref) (tk : option N) (pin : option bytes) (label inner : N),
  st_init s = true -> resolve s t = Some tk ->
  (forall p, pin = Some p -> slot_inittoken_rv s tk p label = Some inner) ->
  rv_of (snd (step s (OInitToken t pin label))) = Some (C_InitToken.app (inittoken_env s tk pin inner)).
Proof. exact inittoken_model_is_code. Qed.
Print Assumptions C14_inittoken_model_is_code.
