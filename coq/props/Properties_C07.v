(* Properties_C07 — usage flags, key class/type and mechanism restrictions at operation start.
   Theorems over the REGENERATED translation of the entry points (gen/Gen_Entry.v, from SoftHSM.cpp on every run; one
   record `env` of named parameters per function: uninterpreted callees, members read, values produced by helper
   functions).  `zz_rest e = SENTINEL` (2^64, not a CK_RV) stands for "the part that sets up the session's operation is
   reached"; for functions translated to the end the workers are instantiated with SENTINEL.  Every statement says what
   must hold of the key, the session and the mechanism for that to happen: usage attribute, isMechanismPermitted
   (advertised list and CKA_ALLOWED_MECHANISMS), access, no active operation, and that the key's class / type fits the
   mechanism (the tables mac_fits, sym_fits, rsa_crypt_fits, sign_fits, verify_fits of EntryFacts.v).  Statements only. *)
From Coq Require Import List NArith Bool.
From SoftHSM Require Import Gen_Const Gen_Entry EntryFacts.
Local Open Scope N_scope.

Theorem C07_SymEncryptInit : forall (e : SymEncryptInit.env),
  bounded (SymEncryptInit.haveRead e) -> SymEncryptInit.zz_rest e = SENTINEL ->
  SymEncryptInit.app e = SENTINEL ->
  let key := SymEncryptInit.handleManager_getObject e (SymEncryptInit.hKey e) in
  let kgb := SymEncryptInit.key_getBooleanValue e in
  SymEncryptInit.pMechanism e <> 0 /\
  init_ok (SymEncryptInit.this_isInitialised e) (SymEncryptInit.handleManager_getSession e (SymEncryptInit.hSession e)) (SymEncryptInit.session_getOpType e)
          (SymEncryptInit.session_getToken e) key (SymEncryptInit.key_isValid e)
          (SymEncryptInit.haveRead e (SymEncryptInit.session_getState e) (if kgb CKA_TOKEN false then 1 else 0) (if kgb CKA_PRIVATE true then 1 else 0))
          (kgb CKA_ENCRYPT false) (SymEncryptInit.isMechanismPermitted e key (SymEncryptInit.pMechanism e)) /\
  sym_fits (SymEncryptInit.pMechanism_mechanism e) (SymEncryptInit.key_getUnsignedLongValue e CKA_KEY_TYPE CKK_VENDOR_DEFINED) = true.
Proof. exact SymEncryptInit_guards. Qed.
Print Assumptions C07_SymEncryptInit.

Theorem C07_SymDecryptInit : forall (e : SymDecryptInit.env),
  bounded (SymDecryptInit.haveRead e) -> SymDecryptInit.zz_rest e = SENTINEL ->
  SymDecryptInit.app e = SENTINEL ->
  let key := SymDecryptInit.handleManager_getObject e (SymDecryptInit.hKey e) in
  let kgb := SymDecryptInit.key_getBooleanValue e in
  SymDecryptInit.pMechanism e <> 0 /\
  init_ok (SymDecryptInit.this_isInitialised e) (SymDecryptInit.handleManager_getSession e (SymDecryptInit.hSession e)) (SymDecryptInit.session_getOpType e)
          (SymDecryptInit.session_getToken e) key (SymDecryptInit.key_isValid e)
          (SymDecryptInit.haveRead e (SymDecryptInit.session_getState e) (if kgb CKA_TOKEN false then 1 else 0) (if kgb CKA_PRIVATE true then 1 else 0))
          (kgb CKA_DECRYPT false) (SymDecryptInit.isMechanismPermitted e key (SymDecryptInit.pMechanism e)) /\
  sym_fits (SymDecryptInit.pMechanism_mechanism e) (SymDecryptInit.key_getUnsignedLongValue e CKA_KEY_TYPE CKK_VENDOR_DEFINED) = true.
Proof. exact SymDecryptInit_guards. Qed.
Print Assumptions C07_SymDecryptInit.

Theorem C07_AsymEncryptInit : forall (e : AsymEncryptInit.env),
  bounded (AsymEncryptInit.haveRead e) -> AsymEncryptInit.zz_rest e = SENTINEL ->
  bounded1 (AsymEncryptInit.MechParamCheckRSAPKCSOAEP e) ->
  AsymEncryptInit.app e = SENTINEL ->
  let key := AsymEncryptInit.handleManager_getObject e (AsymEncryptInit.hKey e) in
  let kgb := AsymEncryptInit.key_getBooleanValue e in
  AsymEncryptInit.pMechanism e <> 0 /\
  init_ok (AsymEncryptInit.this_isInitialised e) (AsymEncryptInit.handleManager_getSession e (AsymEncryptInit.hSession e)) (AsymEncryptInit.session_getOpType e)
          (AsymEncryptInit.session_getToken e) key (AsymEncryptInit.key_isValid e)
          (AsymEncryptInit.haveRead e (AsymEncryptInit.session_getState e) (if kgb CKA_TOKEN false then 1 else 0) (if kgb CKA_PRIVATE true then 1 else 0))
          (kgb CKA_ENCRYPT false) (AsymEncryptInit.isMechanismPermitted e key (AsymEncryptInit.pMechanism e)) /\
  rsa_crypt_fits (AsymEncryptInit.pMechanism_mechanism e) (AsymEncryptInit.key_getUnsignedLongValue e CKA_KEY_TYPE CKK_VENDOR_DEFINED) = true.
Proof. exact AsymEncryptInit_guards. Qed.
Print Assumptions C07_AsymEncryptInit.

Theorem C07_AsymDecryptInit : forall (e : AsymDecryptInit.env),
  bounded (AsymDecryptInit.haveRead e) -> AsymDecryptInit.zz_rest e = SENTINEL ->
  AsymDecryptInit.app e = SENTINEL ->
  let key := AsymDecryptInit.handleManager_getObject e (AsymDecryptInit.hKey e) in
  let kgb := AsymDecryptInit.key_getBooleanValue e in
  AsymDecryptInit.pMechanism e <> 0 /\
  init_ok (AsymDecryptInit.this_isInitialised e) (AsymDecryptInit.handleManager_getSession e (AsymDecryptInit.hSession e)) (AsymDecryptInit.session_getOpType e)
          (AsymDecryptInit.session_getToken e) key (AsymDecryptInit.key_isValid e)
          (AsymDecryptInit.haveRead e (AsymDecryptInit.session_getState e) (if kgb CKA_TOKEN false then 1 else 0) (if kgb CKA_PRIVATE true then 1 else 0))
          (kgb CKA_DECRYPT false) (AsymDecryptInit.isMechanismPermitted e key (AsymDecryptInit.pMechanism e)) /\
  rsa_crypt_fits (AsymDecryptInit.pMechanism_mechanism e) (AsymDecryptInit.key_getUnsignedLongValue e CKA_KEY_TYPE CKK_VENDOR_DEFINED) = true.
Proof. exact AsymDecryptInit_guards. Qed.
Print Assumptions C07_AsymDecryptInit.

Theorem C07_MacSignInit : forall (e : MacSignInit.env),
  bounded (MacSignInit.haveRead e) -> MacSignInit.zz_rest e = SENTINEL ->
  MacSignInit.app e = SENTINEL ->
  let key := MacSignInit.handleManager_getObject e (MacSignInit.hKey e) in
  let kgb := MacSignInit.key_getBooleanValue e in
  MacSignInit.pMechanism e <> 0 /\
  init_ok (MacSignInit.this_isInitialised e) (MacSignInit.handleManager_getSession e (MacSignInit.hSession e)) (MacSignInit.session_getOpType e)
          (MacSignInit.session_getToken e) key (MacSignInit.key_isValid e)
          (MacSignInit.haveRead e (MacSignInit.session_getState e) (if kgb CKA_TOKEN false then 1 else 0) (if kgb CKA_PRIVATE true then 1 else 0))
          (kgb CKA_SIGN false) (MacSignInit.isMechanismPermitted e key (MacSignInit.pMechanism e)) /\
  mac_fits (MacSignInit.pMechanism_mechanism e) (MacSignInit.key_getUnsignedLongValue e CKA_KEY_TYPE CKK_VENDOR_DEFINED) = true.
Proof. exact MacSignInit_guards. Qed.
Print Assumptions C07_MacSignInit.

Theorem C07_MacVerifyInit : forall (e : MacVerifyInit.env),
  bounded (MacVerifyInit.haveRead e) -> MacVerifyInit.zz_rest e = SENTINEL ->
  MacVerifyInit.app e = SENTINEL ->
  let key := MacVerifyInit.handleManager_getObject e (MacVerifyInit.hKey e) in
  let kgb := MacVerifyInit.key_getBooleanValue e in
  MacVerifyInit.pMechanism e <> 0 /\
  init_ok (MacVerifyInit.this_isInitialised e) (MacVerifyInit.handleManager_getSession e (MacVerifyInit.hSession e)) (MacVerifyInit.session_getOpType e)
          (MacVerifyInit.session_getToken e) key (MacVerifyInit.key_isValid e)
          (MacVerifyInit.haveRead e (MacVerifyInit.session_getState e) (if kgb CKA_TOKEN false then 1 else 0) (if kgb CKA_PRIVATE true then 1 else 0))
          (kgb CKA_VERIFY false) (MacVerifyInit.isMechanismPermitted e key (MacVerifyInit.pMechanism e)) /\
  mac_fits (MacVerifyInit.pMechanism_mechanism e) (MacVerifyInit.key_getUnsignedLongValue e CKA_KEY_TYPE CKK_VENDOR_DEFINED) = true.
Proof. exact MacVerifyInit_guards. Qed.
Print Assumptions C07_MacVerifyInit.

Theorem C07_AsymSignInit : forall (e : AsymSignInit.env),
  bounded (AsymSignInit.haveRead e) -> AsymSignInit.zz_rest e = SENTINEL ->
  AsymSignInit.app e = SENTINEL ->
  let key := AsymSignInit.handleManager_getObject e (AsymSignInit.hKey e) in
  let kgb := AsymSignInit.key_getBooleanValue e in
  AsymSignInit.pMechanism e <> 0 /\
  init_ok (AsymSignInit.this_isInitialised e) (AsymSignInit.handleManager_getSession e (AsymSignInit.hSession e)) (AsymSignInit.session_getOpType e)
          (AsymSignInit.session_getToken e) key (AsymSignInit.key_isValid e)
          (AsymSignInit.haveRead e (AsymSignInit.session_getState e) (if kgb CKA_TOKEN false then 1 else 0) (if kgb CKA_PRIVATE true then 1 else 0))
          (kgb CKA_SIGN false) (AsymSignInit.isMechanismPermitted e key (AsymSignInit.pMechanism e)) /\
  sign_fits (AsymSignInit.pMechanism_mechanism e) (AsymSignInit.key_getUnsignedLongValue e CKA_CLASS CKO_VENDOR_DEFINED) (AsymSignInit.key_getUnsignedLongValue e CKA_KEY_TYPE CKK_VENDOR_DEFINED) = true.
Proof. exact AsymSignInit_guards. Qed.
Print Assumptions C07_AsymSignInit.

Theorem C07_AsymVerifyInit : forall (e : AsymVerifyInit.env),
  bounded (AsymVerifyInit.haveRead e) -> AsymVerifyInit.zz_rest e = SENTINEL ->
  AsymVerifyInit.app e = SENTINEL ->
  let key := AsymVerifyInit.handleManager_getObject e (AsymVerifyInit.hKey e) in
  let kgb := AsymVerifyInit.key_getBooleanValue e in
  AsymVerifyInit.pMechanism e <> 0 /\
  init_ok (AsymVerifyInit.this_isInitialised e) (AsymVerifyInit.handleManager_getSession e (AsymVerifyInit.hSession e)) (AsymVerifyInit.session_getOpType e)
          (AsymVerifyInit.session_getToken e) key (AsymVerifyInit.key_isValid e)
          (AsymVerifyInit.haveRead e (AsymVerifyInit.session_getState e) (if kgb CKA_TOKEN false then 1 else 0) (if kgb CKA_PRIVATE true then 1 else 0))
          (kgb CKA_VERIFY false) (AsymVerifyInit.isMechanismPermitted e key (AsymVerifyInit.pMechanism e)) /\
  verify_fits (AsymVerifyInit.pMechanism_mechanism e) (AsymVerifyInit.key_getUnsignedLongValue e CKA_CLASS CKO_VENDOR_DEFINED) (AsymVerifyInit.key_getUnsignedLongValue e CKA_KEY_TYPE CKK_VENDOR_DEFINED) = true.
Proof. exact AsymVerifyInit_guards. Qed.
Print Assumptions C07_AsymVerifyInit.

Theorem C07_WrapKey : forall (e : C_WrapKey.env),
  bounded (C_WrapKey.haveRead e) -> bounded1 (C_WrapKey.MechParamCheckRSAPKCSOAEP e) -> C_WrapKey.zz_rest e = SENTINEL ->
  C_WrapKey.app e = SENTINEL ->
  let kgb := C_WrapKey.key_getBooleanValue e in let wgb := C_WrapKey.wrapKey_getBooleanValue e in
  let wgu := C_WrapKey.wrapKey_getUnsignedLongValue e in let mech := C_WrapKey.pMechanism_mechanism e in
  let hr := C_WrapKey.haveRead e in let sst := C_WrapKey.session_getState e in
  kgb CKA_EXTRACTABLE false = true /\
  (kgb CKA_WRAP_WITH_TRUSTED false = true -> wgb CKA_TRUSTED false = true) /\
  wgb CKA_WRAP false = true /\
  C_WrapKey.isMechanismPermitted e (C_WrapKey.handleManager_getObject e (C_WrapKey.hWrappingKey e)) (C_WrapKey.pMechanism e) = true /\
  hr sst (if wgb CKA_TOKEN false then 1 else 0) (if wgb CKA_PRIVATE true then 1 else 0) = CKR_OK /\
  hr sst (if kgb CKA_TOKEN false then 1 else 0) (if kgb CKA_PRIVATE true then 1 else 0) = CKR_OK /\
  ((mech = CKM_AES_KEY_WRAP \/ mech = CKM_AES_KEY_WRAP_PAD) -> wgu CKA_CLASS CKO_VENDOR_DEFINED = CKO_SECRET_KEY /\ wgu CKA_KEY_TYPE CKK_VENDOR_DEFINED = CKK_AES) /\
  ((mech = CKM_RSA_PKCS \/ mech = CKM_RSA_PKCS_OAEP) -> wgu CKA_CLASS CKO_VENDOR_DEFINED = CKO_PUBLIC_KEY /\ wgu CKA_KEY_TYPE CKK_VENDOR_DEFINED = CKK_RSA).
Proof. exact WrapKey_guards. Qed.
Print Assumptions C07_WrapKey.

Theorem C07_UnwrapKey : forall (e : C_UnwrapKey.env),
  bounded (C_UnwrapKey.haveRead e) -> bounded (C_UnwrapKey.haveWrite e) -> bounded1 (C_UnwrapKey.MechParamCheckRSAPKCSOAEP e) ->
  C_UnwrapKey.hv1_rv e < SENTINEL -> C_UnwrapKey.zz_rest e = SENTINEL ->
  C_UnwrapKey.app e = SENTINEL ->
  let ugb := C_UnwrapKey.unwrapKey_getBooleanValue e in let ugu := C_UnwrapKey.unwrapKey_getUnsignedLongValue e in
  let mech := C_UnwrapKey.pMechanism_mechanism e in let sst := C_UnwrapKey.session_getState e in
  ugb CKA_UNWRAP false = true /\
  C_UnwrapKey.isMechanismPermitted e (C_UnwrapKey.handleManager_getObject e (C_UnwrapKey.hUnwrappingKey e)) (C_UnwrapKey.pMechanism e) = true /\
  C_UnwrapKey.haveRead e sst (if ugb CKA_TOKEN false then 1 else 0) (if ugb CKA_PRIVATE true then 1 else 0) = CKR_OK /\
  (* the object to be created: the write check is applied to the token / private flags extracted from the template *)
  C_UnwrapKey.haveWrite e sst (C_UnwrapKey.hv1_isOnToken e) (C_UnwrapKey.hv1_isPrivate e) = CKR_OK /\
  ((mech = CKM_AES_KEY_WRAP \/ mech = CKM_AES_KEY_WRAP_PAD) -> ugu CKA_CLASS CKO_VENDOR_DEFINED = CKO_SECRET_KEY /\ ugu CKA_KEY_TYPE CKK_VENDOR_DEFINED = CKK_AES) /\
  ((mech = CKM_RSA_PKCS \/ mech = CKM_RSA_PKCS_OAEP) -> ugu CKA_CLASS CKO_VENDOR_DEFINED = CKO_PRIVATE_KEY /\ ugu CKA_KEY_TYPE CKK_VENDOR_DEFINED = CKK_RSA).
Proof. exact UnwrapKey_guards. Qed.
Print Assumptions C07_UnwrapKey.

Theorem C07_DeriveKey : forall (e : C_DeriveKey.env),
  bounded (C_DeriveKey.haveRead e) -> bounded (C_DeriveKey.haveWrite e) -> C_DeriveKey.hv1_rv e < SENTINEL ->
  (forall a b c d f g h i j, C_DeriveKey.deriveDH e a b c d f g h i j = SENTINEL) ->
  (forall a b c d f g h i j, C_DeriveKey.deriveECDH e a b c d f g h i j = SENTINEL) ->
  (forall a b c d f g h i j, C_DeriveKey.deriveEDDSA e a b c d f g h i j = SENTINEL) ->
  (forall a b c d f g h i j, C_DeriveKey.deriveSymmetric e a b c d f g h i j = SENTINEL) ->
  C_DeriveKey.app e = SENTINEL ->
  let kgb := C_DeriveKey.key_getBooleanValue e in let sst := C_DeriveKey.session_getState e in
  kgb CKA_DERIVE false = true /\
  C_DeriveKey.isMechanismPermitted e (C_DeriveKey.handleManager_getObject e (C_DeriveKey.hBaseKey e)) (C_DeriveKey.pMechanism e) = true /\
  C_DeriveKey.haveRead e sst (if kgb CKA_TOKEN false then 1 else 0) (if kgb CKA_PRIVATE true then 1 else 0) = CKR_OK /\
  C_DeriveKey.haveWrite e sst (C_DeriveKey.hv1_isOnToken e) (C_DeriveKey.hv1_isPrivate e) = CKR_OK.
Proof. exact DeriveKey_guards. Qed.
Print Assumptions C07_DeriveKey.

Theorem C07_DigestInit : forall (e : C_DigestInit.env),
  C_DigestInit.zz_rest e = SENTINEL -> C_DigestInit.app e = SENTINEL ->
  C_DigestInit.find e (C_DigestInit.supportedMechanisms_begin e) (C_DigestInit.supportedMechanisms_end e) (C_DigestInit.pMechanism_mechanism e)
    <> C_DigestInit.supportedMechanisms_end e /\
  C_DigestInit.session_getOpType e = SESSION_OP_NONE /\ C_DigestInit.handleManager_getSession e (C_DigestInit.hSession e) <> 0.
Proof. exact DigestInit_guards. Qed.
Print Assumptions C07_DigestInit.

Theorem C07_GenerateKey : forall (e : C_GenerateKey.env),
  bounded (C_GenerateKey.haveWrite e) ->
  (forall a b c d f g, C_GenerateKey.generateAES e a b c d f g = SENTINEL) -> (forall a b c d f g, C_GenerateKey.generateDES e a b c d f g = SENTINEL) ->
  (forall a b c d f g, C_GenerateKey.generateDES2 e a b c d f g = SENTINEL) -> (forall a b c d f g, C_GenerateKey.generateDES3 e a b c d f g = SENTINEL) ->
  (forall a b c d f g, C_GenerateKey.generateDHParameters e a b c d f g = SENTINEL) -> (forall a b c d f g, C_GenerateKey.generateDSAParameters e a b c d f g = SENTINEL) ->
  (forall a b c d f g, C_GenerateKey.generateGeneric e a b c d f g = SENTINEL) ->
  C_GenerateKey.app e = SENTINEL ->
  C_GenerateKey.find e (C_GenerateKey.supportedMechanisms_begin e) (C_GenerateKey.supportedMechanisms_end e) (C_GenerateKey.pMechanism_mechanism e) <> C_GenerateKey.supportedMechanisms_end e /\
  C_GenerateKey.handleManager_getSession e (C_GenerateKey.hSession e) <> 0 /\
  C_GenerateKey.haveWrite e (C_GenerateKey.session_getState e) (C_GenerateKey.hv1_isOnToken e) (C_GenerateKey.hv1_isPrivate e) = CKR_OK.
Proof. exact GenerateKey_guards. Qed.
Print Assumptions C07_GenerateKey.

Theorem C07_GenerateKeyPair : forall (e : C_GenerateKeyPair.env),
  (forall a b c, C_GenerateKeyPair.haveWrite e a b c < SENTINEL) ->
  (forall a b c d f g h i j k l, C_GenerateKeyPair.generateDH e a b c d f g h i j k l = SENTINEL) ->
  (forall a b c d f g h i j k l, C_GenerateKeyPair.generateDSA e a b c d f g h i j k l = SENTINEL) ->
  (forall a b c d f g h i j k l, C_GenerateKeyPair.generateEC e a b c d f g h i j k l = SENTINEL) ->
  (forall a b c d f g h i j k l, C_GenerateKeyPair.generateED e a b c d f g h i j k l = SENTINEL) ->
  (forall a b c d f g h i j k l, C_GenerateKeyPair.generateGOST e a b c d f g h i j k l = SENTINEL) ->
  (forall a b c d f g h i j k l, C_GenerateKeyPair.generateRSA e a b c d f g h i j k l = SENTINEL) ->
  C_GenerateKeyPair.app e = SENTINEL ->
  C_GenerateKeyPair.find e (C_GenerateKeyPair.supportedMechanisms_begin e) (C_GenerateKeyPair.supportedMechanisms_end e) (C_GenerateKeyPair.pMechanism_mechanism e)
    <> C_GenerateKeyPair.supportedMechanisms_end e /\
  (* one write check for both halves: on the token if either is, private if either is *)
  C_GenerateKeyPair.haveWrite e (C_GenerateKeyPair.session_getState e)
    (negb (C_GenerateKeyPair.hv1_ispublicKeyToken e =? 0) || negb (C_GenerateKeyPair.hv2_isprivateKeyToken e =? 0))
    (negb (C_GenerateKeyPair.hv1_ispublicKeyPrivate e =? 0) || negb (C_GenerateKeyPair.hv2_isprivateKeyPrivate e =? 0)) = CKR_OK.
Proof. exact GenerateKeyPair_guards. Qed.
Print Assumptions C07_GenerateKeyPair.

(* SoftHSM::isMechanismPermitted itself (regenerated, translated to the end) *)
Theorem C07_isMechanismPermitted : forall (e : isMechanismPermitted.env),
  isMechanismPermitted.app e = true ->
  isMechanismPermitted.find e (isMechanismPermitted.mechs_begin e) (isMechanismPermitted.mechs_end e) (isMechanismPermitted.pMechanism_mechanism e)
    <> isMechanismPermitted.mechs_end e /\
  (isMechanismPermitted.allowed_empty e <> 0 \/
   isMechanismPermitted.allowed_find e (isMechanismPermitted.pMechanism_mechanism e) <> isMechanismPermitted.allowed_end e).
Proof. exact isMechanismPermitted_spec. Qed.
Print Assumptions C07_isMechanismPermitted.
