(* Properties_C07 — usage flags, key class/type and mechanism restrictions at operation start.
   Theorems over the REGENERATED guard prefixes of the entry points (gen/Gen_Entry.v, translated from SoftHSM.cpp on
   every run).  `zz_rest` := SENTINEL (2^64, not a CK_RV) stands for "the body after the guards is reached": every
   statement says what must hold of the key, the session and the mechanism for that to happen.
   `imp key pM` is SoftHSM::isMechanismPermitted (advertised list and CKA_ALLOWED_MECHANISMS); `find b e mech <> e`
   is std::find over supportedMechanisms not returning end().  Statements only. *)
From Coq Require Import List NArith Bool.
From SoftHSM Require Import Gen_Const Gen_Entry EntryFacts.
Local Open Scope N_scope.

Section KeyedInit.
  Variables (go gs : N -> N) (hr : N -> N -> N -> N) (imp : N -> N -> bool) (kgb : N -> bool -> bool) (kgu : N -> N -> N)
            (kiv : bool) (sot sst stok ini hS pM hK : N).
  Hypothesis Hb : bounded hr.
  Let acc := hr sst (if kgb CKA_TOKEN false then 1 else 0) (if kgb CKA_PRIVATE true then 1 else 0).

  Theorem C07_SymEncryptInit :
    gen_SoftHSM__SymEncryptInit go gs hr imp kgb kgu kiv sot sst stok ini SENTINEL hS pM hK = SENTINEL ->
    pM <> 0 /\ init_ok ini (gs hS) sot stok (go hK) kiv acc (kgb CKA_ENCRYPT false) (imp (go hK) pM).
  Proof. exact (SymEncryptInit_guards go gs hr imp kgb kgu kiv sot sst stok ini hS pM hK Hb). Qed.
  Theorem C07_SymDecryptInit :
    gen_SoftHSM__SymDecryptInit go gs hr imp kgb kgu kiv sot sst stok ini SENTINEL hS pM hK = SENTINEL ->
    pM <> 0 /\ init_ok ini (gs hS) sot stok (go hK) kiv acc (kgb CKA_DECRYPT false) (imp (go hK) pM).
  Proof. exact (SymDecryptInit_guards go gs hr imp kgb kgu kiv sot sst stok ini hS pM hK Hb). Qed.
  Theorem C07_AsymDecryptInit :
    gen_SoftHSM__AsymDecryptInit go gs hr imp kgb kgu kiv sot sst stok ini SENTINEL hS pM hK = SENTINEL ->
    pM <> 0 /\ init_ok ini (gs hS) sot stok (go hK) kiv acc (kgb CKA_DECRYPT false) (imp (go hK) pM).
  Proof. exact (AsymDecryptInit_guards go gs hr imp kgb kgu kiv sot sst stok ini hS pM hK Hb). Qed.
  Theorem C07_MacSignInit :
    gen_SoftHSM__MacSignInit go gs hr imp kgb kgu kiv sot sst stok ini SENTINEL hS pM hK = SENTINEL ->
    pM <> 0 /\ init_ok ini (gs hS) sot stok (go hK) kiv acc (kgb CKA_SIGN false) (imp (go hK) pM).
  Proof. exact (MacSignInit_guards go gs hr imp kgb kgu kiv sot sst stok ini hS pM hK Hb). Qed.
  Theorem C07_MacVerifyInit :
    gen_SoftHSM__MacVerifyInit go gs hr imp kgb kgu kiv sot sst stok ini SENTINEL hS pM hK = SENTINEL ->
    pM <> 0 /\ init_ok ini (gs hS) sot stok (go hK) kiv acc (kgb CKA_VERIFY false) (imp (go hK) pM).
  Proof. exact (MacVerifyInit_guards go gs hr imp kgb kgu kiv sot sst stok ini hS pM hK Hb). Qed.
  Theorem C07_AsymSignInit :
    gen_SoftHSM__AsymSignInit go gs hr imp kgb kiv sot sst stok ini SENTINEL hS pM hK = SENTINEL ->
    pM <> 0 /\ init_ok ini (gs hS) sot stok (go hK) kiv acc (kgb CKA_SIGN false) (imp (go hK) pM).
  Proof. exact (AsymSignInit_guards go gs hr imp kgb kiv sot sst stok ini hS pM hK Hb). Qed.
  Theorem C07_AsymVerifyInit :
    gen_SoftHSM__AsymVerifyInit go gs hr imp kgb kiv sot sst stok ini SENTINEL hS pM hK = SENTINEL ->
    pM <> 0 /\ init_ok ini (gs hS) sot stok (go hK) kiv acc (kgb CKA_VERIFY false) (imp (go hK) pM).
  Proof. exact (AsymVerifyInit_guards go gs hr imp kgb kiv sot sst stok ini hS pM hK Hb). Qed.
  Theorem C07_AsymEncryptInit (oaep : N -> N) (mech : N) :
    bounded1 oaep ->
    gen_SoftHSM__AsymEncryptInit oaep go gs hr imp kgb kgu kiv mech sot sst stok ini SENTINEL hS pM hK = SENTINEL ->
    pM <> 0 /\ init_ok ini (gs hS) sot stok (go hK) kiv acc (kgb CKA_ENCRYPT false) (imp (go hK) pM).
  Proof. exact (AsymEncryptInit_guards go gs hr imp kgb kgu kiv sot sst stok ini hS pM hK Hb oaep mech). Qed.
End KeyedInit.
Print Assumptions C07_SymEncryptInit.
Print Assumptions C07_SymDecryptInit.
Print Assumptions C07_AsymDecryptInit.
Print Assumptions C07_MacSignInit.
Print Assumptions C07_MacVerifyInit.
Print Assumptions C07_AsymSignInit.
Print Assumptions C07_AsymVerifyInit.
Print Assumptions C07_AsymEncryptInit.

Theorem C07_WrapKey :
  forall (oaep : N -> N) (aima : N) (go gs : N -> N) (hr : N -> N -> N -> N) (imp : N -> N -> bool)
         (kgb : N -> bool -> bool) (kgu : N -> N -> N) (kiv : bool) (mech mpar mparlen sst stok ini : N)
         (wae wga : N -> N) (wgb : N -> bool -> bool) (wgu : N -> N -> N) (wiv : bool) (hS pM hW hK pW pL : N),
    bounded hr -> bounded1 oaep ->
    gen_SoftHSM__C_WrapKey oaep aima go gs hr imp kgb kgu kiv mech mpar mparlen sst stok ini wae wga wgb wgu wiv SENTINEL hS pM hW hK pW pL = SENTINEL ->
    kgb CKA_EXTRACTABLE false = true /\
    (kgb CKA_WRAP_WITH_TRUSTED false = true -> wgb CKA_TRUSTED false = true) /\
    wgb CKA_WRAP false = true /\ imp (go hW) pM = true /\
    hr sst (if wgb CKA_TOKEN false then 1 else 0) (if wgb CKA_PRIVATE true then 1 else 0) = CKR_OK /\
    hr sst (if kgb CKA_TOKEN false then 1 else 0) (if kgb CKA_PRIVATE true then 1 else 0) = CKR_OK /\
    ((mech = CKM_AES_KEY_WRAP \/ mech = CKM_AES_KEY_WRAP_PAD) -> wgu CKA_CLASS CKO_VENDOR_DEFINED = CKO_SECRET_KEY /\ wgu CKA_KEY_TYPE CKK_VENDOR_DEFINED = CKK_AES) /\
    ((mech = CKM_RSA_PKCS \/ mech = CKM_RSA_PKCS_OAEP) -> wgu CKA_CLASS CKO_VENDOR_DEFINED = CKO_PUBLIC_KEY /\ wgu CKA_KEY_TYPE CKK_VENDOR_DEFINED = CKK_RSA).
Proof. exact WrapKey_guards. Qed.
Print Assumptions C07_WrapKey.

Theorem C07_UnwrapKey :
  forall (oaep : N -> N) (go gs : N -> N) (hr : N -> N -> N -> N) (imp : N -> N -> bool)
         (mech mpar mparlen sst stok ini : N) (ugb : N -> bool -> bool) (ugu : N -> N -> N) (uiv : bool)
         (hS pM hU pW wlen pT n ph : N),
    bounded hr -> bounded1 oaep ->
    gen_SoftHSM__C_UnwrapKey oaep go gs hr imp mech mpar mparlen sst stok ini ugb ugu uiv SENTINEL hS pM hU pW wlen pT n ph = SENTINEL ->
    ugb CKA_UNWRAP false = true /\ imp (go hU) pM = true /\
    hr sst (if ugb CKA_TOKEN false then 1 else 0) (if ugb CKA_PRIVATE true then 1 else 0) = CKR_OK /\
    ((mech = CKM_AES_KEY_WRAP \/ mech = CKM_AES_KEY_WRAP_PAD) -> ugu CKA_CLASS CKO_VENDOR_DEFINED = CKO_SECRET_KEY /\ ugu CKA_KEY_TYPE CKK_VENDOR_DEFINED = CKK_AES) /\
    ((mech = CKM_RSA_PKCS \/ mech = CKM_RSA_PKCS_OAEP) -> ugu CKA_CLASS CKO_VENDOR_DEFINED = CKO_PRIVATE_KEY /\ ugu CKA_KEY_TYPE CKK_VENDOR_DEFINED = CKK_RSA).
Proof. exact UnwrapKey_guards. Qed.
Print Assumptions C07_UnwrapKey.

Theorem C07_DeriveKey :
  forall (go gs : N -> N) (hr : N -> N -> N -> N) (imp : N -> N -> bool) (kgb : N -> bool -> bool) (kiv : bool)
         (mech sst stok ini hS pM hB pT n ph : N),
    bounded hr ->
    gen_SoftHSM__C_DeriveKey go gs hr imp kgb kiv mech sst stok ini SENTINEL hS pM hB pT n ph = SENTINEL ->
    kgb CKA_DERIVE false = true /\ imp (go hB) pM = true /\
    hr sst (if kgb CKA_TOKEN false then 1 else 0) (if kgb CKA_PRIVATE true then 1 else 0) = CKR_OK.
Proof. exact DeriveKey_guards. Qed.
Print Assumptions C07_DeriveKey.

(* the configuration clause for the entry points without a key *)
Theorem C07_DigestInit_configured :
  forall (find : N -> N -> N -> N) (gs : N -> N) (mech sot b e ini hS pM : N),
    gen_SoftHSM__C_DigestInit find gs mech sot b e ini SENTINEL hS pM = SENTINEL ->
    find b e mech <> e /\ sot = SESSION_OP_NONE /\ gs hS <> 0.
Proof. exact DigestInit_needs_enabled_mechanism. Qed.
Theorem C07_GenerateKey_configured :
  forall (find : N -> N -> N -> N) (gs : N -> N) (mech b e ini hS pM pT n ph : N),
    gen_SoftHSM__C_GenerateKey find gs mech b e ini SENTINEL hS pM pT n ph = SENTINEL -> find b e mech <> e /\ gs hS <> 0.
Proof. exact GenerateKey_needs_enabled_mechanism. Qed.
Theorem C07_GenerateKeyPair_configured :
  forall (find : N -> N -> N -> N) (gs : N -> N) (mech b e ini hS pM p1 n1 p2 n2 h1 h2 : N),
    gen_SoftHSM__C_GenerateKeyPair find gs mech b e ini SENTINEL hS pM p1 n1 p2 n2 h1 h2 = SENTINEL -> find b e mech <> e /\ gs hS <> 0.
Proof. exact GenerateKeyPair_needs_enabled_mechanism. Qed.
Print Assumptions C07_DigestInit_configured.
Print Assumptions C07_GenerateKey_configured.
Print Assumptions C07_GenerateKeyPair_configured.
