(* Properties_C02 — sensitive or unextractable key material never leaves the token in the clear.
   Theorems over the REGENERATED translations of P11Attribute::retrieve (guard prefix), the one-way flag
   updaters and the class table (gen/Gen_Pure.v, gen/Gen_Table.v).  Statements only. *)
From Coq Require Import List NArith Bool String.
From SoftHSM Require Import Gen_Entry EntryFacts Gen_Const Gen_Pure Gen_Table AttrFacts.
Import ListNotations.
Local Open Scope N_scope.

(* every secret value attribute of every key class carries the "sensitive" check bit ck7 *)
Theorem C02_ck7_complete : forall cls a attrs,
  In (cls, attrs) secret_spec -> In a attrs -> exists c, class_attr_checks cls a = Some c /\ has c ck7 = true.
Proof. exact ck7_complete_forall. Qed.
Print Assumptions C02_ck7_complete.

(* for such an attribute of a sensitive or unextractable key, retrieve answers CKR_ATTRIBUTE_SENSITIVE, sets the
   length to CK_UNAVAILABLE_INFORMATION and does nothing else — whatever the rest of the function would do,
   whatever the buffer *)
Theorem C02_retrieve_guard :
  forall (isExtractable isSensitive : bool) (exists_ : N -> bool) (getAttribute : N -> N)
         (checks osobject size type : N) (rest : N * list (N * N)) (token : N) (isPrivate : bool) (pValue pulValueLen : N),
  osobject <> 0 -> pulValueLen <> 0 ->
  has checks ck7 = true -> (isSensitive = true \/ isExtractable = false) ->
  gen_P11Attribute__retrieve isExtractable isSensitive exists_ getAttribute checks osobject size type rest token isPrivate pValue pulValueLen
  = (CKR_ATTRIBUTE_SENSITIVE, [(LEN_TAG, CK_UNAVAILABLE_INFORMATION)]).
Proof. exact retrieve_guard. Qed.
Print Assumptions C02_retrieve_guard.

(* the protections cannot be removed by C_SetAttributeValue or C_CopyObject *)
Theorem C02_sensitive_one_way : forall (v : N) (getb : N -> bool -> bool) (ty pv len op : N),
  is_set_or_copy op = true -> getb CKA_SENSITIVE false = true ->
  gen_P11AttrSensitive__updateAttr v getb ty pv len op = (CKR_ATTRIBUTE_READ_ONLY, []).
Proof. exact sensitive_one_way. Qed.
Print Assumptions C02_sensitive_one_way.
Theorem C02_extractable_one_way : forall (v : N) (getb : N -> bool -> bool) (ty pv len op : N),
  is_set_or_copy op = true -> getb CKA_EXTRACTABLE false = false ->
  gen_P11AttrExtractable__updateAttr v getb ty pv len op = (CKR_ATTRIBUTE_READ_ONLY, []).
Proof. exact extractable_one_way. Qed.
Print Assumptions C02_extractable_one_way.
Theorem C02_wrap_with_trusted_one_way : forall (v : N) (getb : N -> bool -> bool) (ty pv len op : N),
  is_set_or_copy op = true -> getb CKA_WRAP_WITH_TRUSTED false = true ->
  gen_P11AttrWrapWithTrusted__updateAttr v getb ty pv len op = (CKR_ATTRIBUTE_READ_ONLY, []).
Proof. exact wrap_with_trusted_one_way. Qed.
Print Assumptions C02_wrap_with_trusted_one_way.

(* these updaters are the ones bound to the three flags in every class *)
Theorem C02_flag_updaters_bound : flag_rows_check = true.
Proof. exact flag_rows. Qed.
Print Assumptions C02_flag_updaters_bound.

(* C_WrapKey (regenerated): an unextractable key is never wrapped, a WRAP_WITH_TRUSTED key only under a trusted wrapping key *)
Theorem C02_WrapKey_refuses : forall (e : C_WrapKey.env),
  bounded (C_WrapKey.haveRead e) -> bounded1 (C_WrapKey.MechParamCheckRSAPKCSOAEP e) -> C_WrapKey.zz_rest e = SENTINEL ->
  C_WrapKey.app e = SENTINEL ->
  let kgb := C_WrapKey.key_getBooleanValue e in let wgb := C_WrapKey.wrapKey_getBooleanValue e in
  let wgu := C_WrapKey.wrapKey_getUnsignedLongValue e in let mech := C_WrapKey.pMechanism_mechanism e in
  let hr := C_WrapKey.haveRead e in let sst := C_WrapKey.session_getState e in
  kgb CKA_EXTRACTABLE false = true /\
  (kgb CKA_WRAP_WITH_TRUSTED false = true -> wgb CKA_TRUSTED false = true) /\
  wgb CKA_WRAP false = true /\
  C_WrapKey.isMechanismPermitted e (C_WrapKey.handleManager_getObject e (C_WrapKey.hWrappingKey e)) (C_WrapKey.pMechanism e) = true /\
  hr sst (if wgb CKA_TOKEN false then 1 else 0) (if wgb CKA_PRIVATE true then 1 else 0) = CKR_OK /\
  hr sst (if kgb CKA_TOKEN false then 1 else 0) (if kgb CKA_PRIVATE true then 1 else 0) = CKR_OK /\
  ((mech = CKM_AES_KEY_WRAP \/ mech = CKM_AES_KEY_WRAP_PAD) -> wgu CKA_CLASS CKO_VENDOR_DEFINED = CKO_SECRET_KEY /\ wgu CKA_KEY_TYPE CKK_VENDOR_DEFINED = CKK_AES) /\
  ((mech = CKM_RSA_PKCS \/ mech = CKM_RSA_PKCS_OAEP) -> wgu CKA_CLASS CKO_VENDOR_DEFINED = CKO_PUBLIC_KEY /\ wgu CKA_KEY_TYPE CKK_VENDOR_DEFINED = CKK_RSA).
Proof. exact WrapKey_guards. Qed.
Print Assumptions C02_WrapKey_refuses.
