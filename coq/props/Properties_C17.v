(* Properties_C17 — no input crashes the library.  Memory safety of C++ cannot be exhibited by a Gallina model; what CAN
   be proved is the arithmetic the safety depends on, in the models that are tied to the code by correspondence
   streams: lengths read from files never exceed the file (codec), un-padding never indexes before or beyond its
   input (padding model), reported and written output lengths stay within the caller's buffer and never wrap
   (operation model, machine arithmetic mod 2^64).  The rest is decided on the sanitizer build (K-fuzz).
   Statements only. *)
From Coq Require Import List NArith Bool.
From SoftHSM Require Import Gen_Const Defs Codec CodecFacts SafeFacts CrashFacts Pad PadFacts OpModel OpFacts.
Import ListNotations.
Local Open Scope N_scope.

Theorem C17_read_bytes_within_partial : forall b v r,
  read_bytes b = Some (v, r) -> (length b = 8 + length v + length r)%nat /\ v ++ r = skipn 8 b.
Proof. exact read_bytes_within. Qed.
Print Assumptions C17_read_bytes_within_partial.

Theorem C17_oversized_length_rejected : forall len r, len < 2 ^ 64 -> blen r < len -> read_bytes (be8 len ++ r) = None.
Proof. exact read_bytes_too_long_rejected. Qed.
Print Assumptions C17_oversized_length_rejected.

(* every byte content of an object file gets a verdict: the decoder is a total function with three outcomes *)
Theorem C17_every_file_gets_a_verdict : forall b : bytes,
  refresh_file b = RUnchanged \/ refresh_file b = RInvalid \/ exists g o, refresh_file b = RValid g o.
Proof. exact every_file_gets_a_verdict. Qed.
Print Assumptions C17_every_file_gets_a_verdict.

(* RFC 5652 un-padding: the empty input is refused (no read of padded[-1]); an accepted input is the padding of its result *)
Theorem C17_unpad_empty_refused : forall bs, pkcs7_unpad bs [] = None.
Proof. exact unpad_empty. Qed.
Print Assumptions C17_unpad_empty_refused.
Theorem C17_unpad_is_inverse_of_pad : forall bs p d, (bs <= 255)%nat -> pkcs7_unpad bs p = Some d -> p = pkcs7_pad bs d.
Proof. exact unpad_sound. Qed.
Print Assumptions C17_unpad_is_inverse_of_pad.

(* output lengths (machine arithmetic): nothing is written beyond the announced buffer, reported lengths do not wrap *)
Theorem C17_no_overwrite : forall (st : active) (c : call) (have : N),
  call_buf c = Some (Some have) ->
  match st with ASym o => so_tag o <= 16 /\ so_buf o < 34359738368 | _ => True end ->
  r_written (do_call st c) <= have /\
  (r_rv (do_call st c) = CKR_OK -> r_written (do_call st c) = 0 \/ r_len (do_call st c) = Some (r_written (do_call st c))).
Proof. exact no_overwrite. Qed.
Print Assumptions C17_no_overwrite.
