(* Properties_C10 — the library's own logic around the primitives: feeding the input in arbitrary pieces
   gives the same result as the single-part call, decryption inverts encryption, for ECB / CBC / CBC-PAD
   with an ABSTRACT block cipher (any E; D with D (E b) = b).  Conformance of the primitives themselves
   (OpenSSL) is differential evidence (K-crypto), not a theorem.  Statements only. *)
From Coq Require Import List NArith Bool.
From SoftHSM Require Import Defs Pad PadFacts Modes ModesFacts.
Import ListNotations.

Theorem C10_multipart_eq_single_enc : forall (bs : nat) (E : bytes -> bytes), 1 <= bs ->
  forall (m : mode) (pad : bool) (iv : bytes) (parts : list bytes),
  enc_multi bs E (init m pad iv) parts = encrypt_all bs E m pad iv (concat parts).
Proof. exact multipart_eq_single_enc. Qed.
Print Assumptions C10_multipart_eq_single_enc.

Theorem C10_multipart_eq_single_dec : forall (bs : nat) (D : bytes -> bytes), 1 <= bs ->
  (forall b, length b = bs -> length (D b) = bs) ->
  forall (m : mode) (pad : bool) (iv : bytes) (parts : list bytes), (m = CBC -> length iv = bs) ->
  dec_multi bs D (init m pad iv) parts = decrypt_all bs D m pad iv (concat parts).
Proof. exact multipart_eq_single_dec. Qed.
Print Assumptions C10_multipart_eq_single_dec.

Theorem C10_roundtrip_multipart : forall (bs : nat) (E D : bytes -> bytes), 1 <= bs ->
  (forall b, length b = bs -> length (D b) = bs) -> (forall b, length b = bs -> length (E b) = bs) ->
  (forall b, length b = bs -> D (E b) = b) ->
  forall (m : mode) (pad : bool) (iv msg : bytes) (parts : list bytes),
  (pad = true -> bs <= 255) -> (pad = false -> Nat.modulo (length msg) bs = 0) -> (m = CBC -> length iv = bs) ->
  concat parts = msg ->
  exists c, enc_multi bs E (init m pad iv) parts = Some c /\
            (forall cparts, concat cparts = c -> dec_multi bs D (init m pad iv) cparts = Some msg).
Proof. exact roundtrip_multipart. Qed.
Print Assumptions C10_roundtrip_multipart.

(* digests and MACs: any update function that is a monoid action gives the same state for every split *)
Theorem C10_hash_updates_any_split : forall (S : Type) (f : S -> bytes -> S),
  (forall s a b, f (f s a) b = f s (a ++ b)) -> (forall s, f s [] = s) ->
  forall (parts : list bytes) (s : S), fold_left f parts s = f s (concat parts).
Proof. exact fold_update_concat. Qed.
Print Assumptions C10_hash_updates_any_split.

Theorem C10_padding_roundtrip : forall (bs : nat) (d : bytes), 1 <= bs <= 255 -> pkcs7_unpad bs (pkcs7_pad bs d) = Some d.
Proof. exact unpad_pad_gen. Qed.
Print Assumptions C10_padding_roundtrip.
