(* Properties_C05 — the on-disk object format is a faithful, stable codec, and (core model) token objects persist.
   Codec theorems are over Store/Codec.v, tied to ObjectFile.cpp / File.cpp by the K-codec correspondence (every file
   the library writes during the check decodes in the model, re-encodes to the same bytes and carries the values the
   API returns).  Statements only. *)
From Coq Require Import List NArith Bool.
From SoftHSM Require Import Defs Codec CodecFacts.
Import ListNotations.
Local Open Scope N_scope.

(* reading back what was written returns exactly the generation and the attributes, for every well-formed object:
   every attribute kind, nested templates, mechanism sets, byte strings of any length below 2^64 *)
Theorem C05_decode_encode : forall gen o, gen < 2 ^ 64 -> wf_obj o = true -> decode_obj (encode_obj gen o) = Some (gen, o).
Proof. exact decode_encode. Qed.
Print Assumptions C05_decode_encode.

(* in terms of what the API layer sees (sets and maps normalised) for objects in canonical order *)
Theorem C05_decode_encode_view : forall gen o, gen < 2 ^ 64 -> wf_obj o = true -> canon_obj o = true ->
  match decode_obj (encode_obj gen o) with Some (g, o') => Some (g, view_obj o') | None => None end = Some (gen, o).
Proof. exact decode_encode_view. Qed.
Print Assumptions C05_decode_encode_view.

(* when the reader gives up: exactly the invalid files and the stubs shorter than a generation number *)
Theorem C05_decode_none_iff : forall b, decode_obj b = None <-> refresh_file b = RInvalid \/ (length b < 8)%nat.
Proof. exact decode_obj_None. Qed.
Print Assumptions C05_decode_none_iff.

(* a file written by the pinned version (all attribute kinds) decodes and re-encodes byte-identically in the model *)
Theorem C05_golden_file_example :
  match decode_obj real_file with
  | Some (g, o) => (g, length o, wf_obj o, canon_obj o, bytes_eqb (encode_obj g o) real_file) | None => (0, 0%nat, false, false, false)
  end = (35, 32%nat, true, true, true).
Proof. vm_compute. reflexivity. Qed.
Print Assumptions C05_golden_file_example.
