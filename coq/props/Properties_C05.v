(* Properties_C05 — the on-disk object format is a faithful, stable codec, and (core model) token objects persist.
   Codec theorems are over Store/Codec.v, tied to ObjectFile.cpp / File.cpp by the K-codec correspondence (every file
   the library writes during the check decodes in the model, re-encodes to the same bytes and carries the values the
   API returns).  Statements only. *)
From Coq Require Import List NArith Bool.
From SoftHSM Require Import Gen_Const Gen_Pure Defs Core AccessFacts StepFacts Invariants SessionSpec PinFacts HandleFacts TokenFacts PersistFacts Codec CodecFacts.
Import ListNotations.
Local Open Scope N_scope.

(* reading back what was written returns exactly the generation and the attributes, for every well-formed object:
   every attribute kind, nested templates, mechanism sets, byte strings of any length below 2^64 *)
Theorem C05_decode_encode : forall gen o, gen < 2 ^ 64 -> wf_obj o = true -> decode_obj (encode_obj gen o) = Some (gen, o).
Proof. exact decode_encode. Qed.
Print Assumptions C05_decode_encode.

(* in terms of what the API layer sees (sets and maps normalised) for objects in canonical order *)
Theorem C05_decode_encode_view : forall gen o, gen < 2 ^ 64 -> wf_obj o = true -> canon_obj o = true ->
  match decode_obj (encode_obj gen o) with Some (g, o') => Some (g, view_obj o') | None => None end = Some (gen, o).
Proof. exact decode_encode_view. Qed.
Print Assumptions C05_decode_encode_view.

(* when the reader gives up: exactly the invalid files and the stubs shorter than a generation number *)
Theorem C05_decode_none_iff : forall b, decode_obj b = None <-> refresh_file b = RInvalid \/ (length b < 8)%nat.
Proof. exact decode_obj_None. Qed.
Print Assumptions C05_decode_none_iff.

(* a file written by the pinned version (all attribute kinds) decodes and re-encodes byte-identically in the model *)
Theorem C05_golden_file_example :
  match decode_obj real_file with
  | Some (g, o) => (g, length o, wf_obj o, canon_obj o, bytes_eqb (encode_obj g o) real_file) | None => (0, 0%nat, false, false, false)
  end = (35, 32%nat, true, true, true).
Proof. vm_compute. reflexivity. Qed.
Print Assumptions C05_golden_file_example.

(* ---- the PKCS#11 layer (core model, tied by K-api): what changes token objects, and what does not ------------------ *)
(* a restart keeps every token's objects with identical attribute values *)
Theorem C05_restart_keeps_objects : forall (s : state) (b : bool) (k : N), tok_objs (restart s b) k = tok_objs s k.
Proof. exact restart_keeps_objs. Qed.
Print Assumptions C05_restart_keeps_objects.

(* only a SUCCESSFUL create / copy / destroy / set-attribute / init-token changes any token object: logins, logouts,
   PIN changes, closing sessions, searches, reads, failed calls and restarts leave them byte for byte as they were *)
Theorem C05_objects_change_only_by : forall (s : state) (o : op) (k : N),
  tok_objs (fst (step s o)) k = tok_objs s k \/ obj_event s o.
Proof. exact objs_change_only_by. Qed.
Print Assumptions C05_objects_change_only_by.

Theorem C05_persist_trace : forall (ops : list op) (s : state) (k : N),
  no_obj_event s ops -> tok_objs (exec s ops) k = tok_objs s k.
Proof. exact persist_trace. Qed.
Print Assumptions C05_persist_trace.

(* destroyed objects never reappear: an object id that is absent and already issued stays absent for ever *)
Theorem C05_absent_never_reappears : forall (ops : list op) (s : state) (i : N),
  i < st_next_oid s -> ~ In i (oids s) -> ~ In i (oids (exec s ops)).
Proof. exact absent_never_reappears. Qed.
Print Assumptions C05_absent_never_reappears.

Theorem C05_destroyed_object_never_reappears : forall (ops0 : list op) (h oh : N) e l ob,
  let s := exec init_state ops0 in
  get_object s oh = Some (e, l, ob) -> snd (step s (ODestroy h oh)) = RRv CKR_OK ->
  forall ops, ~ In (loc_oid l) (oids (exec (fst (step s (ODestroy h oh))) ops)).
Proof. exact destroyed_object_never_reappears. Qed.
Print Assumptions C05_destroyed_object_never_reappears.

(* session objects never outlive their session *)
Theorem C05_session_objects_die : forall s : state,
  (forall h x, inv_tok s -> st_init s = true -> get_session s h = Some x ->
     forall p, In p (st_sobjs (fst (step s (OClose h)))) -> so_sess (snd p) <> h) /\
  (forall k, st_init s = true -> amem k (st_tokens s) = true ->
     forall p, In p (st_sobjs (fst (step s (OCloseAll (TTok k))))) -> so_tok (snd p) <> k) /\
  (forall b, st_sobjs (restart s b) = []).
Proof. exact session_objects_die. Qed.
Print Assumptions C05_session_objects_die.
