(* Properties_C01 — private objects are unreachable unless the normal user is logged in; token objects
   need read-write sessions.  Statements only. *)
From Coq Require Import List NArith Bool.
From SoftHSM Require Import Gen_Const Gen_Pure Defs Core AccessFacts StepFacts Invariants PrivacyFacts FindFacts.
Import ListNotations.
Local Open Scope N_scope.

(* the regenerated access matrix (access.cpp): a private object is readable / writable only in the two
   USER states, whatever number the state argument is; a token object is writable only in R/W states *)
Theorem C01_matrix_read : forall (st : N) (tok : bool), have_read st tok true = CKR_OK -> is_user_state st = true.
Proof. exact haveRead_private_needs_user. Qed.
Print Assumptions C01_matrix_read.
Theorem C01_matrix_write : forall (st : N) (tok : bool), have_write st tok true = CKR_OK -> is_user_state st = true.
Proof. exact haveWrite_private_needs_user. Qed.
Print Assumptions C01_matrix_write.
Theorem C01_matrix_token_rw : forall (st : N) (priv : bool), have_write st true priv = CKR_OK -> is_rw_state st = true.
Proof. exact haveWrite_token_needs_rw. Qed.
Print Assumptions C01_matrix_token_rw.
(* the regenerated Session::getState reports a USER state only when the normal user is logged in *)
Theorem C01_user_state_iff : forall (s : state) (x : session),
  is_user_state (sess_state s x) = true <-> tok_login s (s_tok x) = LUser.
Proof. exact sess_state_user. Qed.
Print Assumptions C01_user_state_iff.

(* in EVERY state: get/set/copy/destroy/use-as-key of a private object through a session whose token has
   no normal user logged in fails, changes nothing and writes no attribute byte *)
Theorem C01_private_object_unreachable : forall (s : state) (o : op) (h oh : N) (x : session) e loc ob,
  st_init s = true -> get_session s h = Some x -> get_object s oh = Some (e, loc, ob) ->
  o_private ob = true -> not_user s x ->
  match o with
  | OGetAttr h' oh' q => h' = h -> oh' = oh -> exists l, step s o = (s, RAttrs CKR_GENERAL_ERROR l) /\ no_data l
  | OSetAttr h' oh' _ | OCopy h' oh' _ | ODestroy h' oh' => h' = h -> oh' = oh -> exists rv, step s o = (s, RRv rv) /\ rv <> CKR_OK
  | OUseInit _ h' oh' => h' = h -> oh' = oh -> exists rv, step s o = (s, RRv rv) /\ rv <> CKR_OK
  | _ => True
  end.
Proof. exact private_object_unreachable. Qed.
Print Assumptions C01_private_object_unreachable.

(* searching there never captures a private object *)
Theorem C01_find_hides_private : forall (s : state) (h : N) (x : session) (tm : template) (prio : list bytes),
  st_init s = true -> get_session s h = Some x -> not_user s x ->
  snd (step s (OFindInit h tm prio)) = RRv CKR_OK ->
  exists x', alookup h (st_sessions (fst (step s (OFindInit h tm prio)))) = Some x' /\
    forall oh, In oh (s_find x') ->
      exists c, In c (candidates s (s_tok x)) /\ o_private (snd c) = false /\
                find_obj_handle (fst (step s (OFindInit h tm prio))) (fst (fst c)) = Some oh.
Proof.
  intros s h x tm prio Hi Hs Hn Hok.
  destruct (findinit_sound_complete s h x tm prio Hi Hs Hok) as [x' [H1 [_ [_ H4]]]].
  exists x'. split; [exact H1|]. intros oh Hin. apply H4 in Hin. destruct Hin as [c [Hc1 [Hc2 Hc3]]].
  exists c. split; [exact Hc1|]. split; [|exact Hc3].
  apply (proj2 (public_session_iff s x)) in Hn. rewrite Hn in Hc2. eapply public_session_hides_private. exact Hc2.
Qed.
Print Assumptions C01_find_hides_private.

(* private objects cannot be created or produced by copying there *)
Theorem C01_private_create_refused : forall (s : state) (h : N) (x : session) (tm : template),
  st_init s = true -> get_session s h = Some x -> not_user s x -> tmpl_bool CKA_PRIVATE tm 1 <> 0 ->
  fst (step s (OCreate h tm)) = s /\ (forall hh, snd (step s (OCreate h tm)) <> RHandle hh).
Proof. exact private_create_refused. Qed.
Print Assumptions C01_private_create_refused.
Theorem C01_private_copy_refused : forall (s : state) (h oh : N) (x : session) (tm : template),
  st_init s = true -> get_session s h = Some x -> not_user s x ->
  fst (step s (OCopy h oh tm)) = s \/
  (exists e loc ob, get_object s oh = Some (e, loc, ob) /\ o_private ob = false /\ tmpl_bool CKA_PRIVATE tm 0 = 0).
Proof. exact private_copy_refused. Qed.
Print Assumptions C01_private_copy_refused.

(* token objects: create / change / destroy only through read-write sessions *)
Theorem C01_token_object_needs_rw : forall (s : state) (o : op) (h oh : N) (x : session) e loc ob,
  st_init s = true -> get_session s h = Some x -> get_object s oh = Some (e, loc, ob) ->
  o_token ob = true -> ro_session s x ->
  match o with
  | OSetAttr h' oh' _ | ODestroy h' oh' => h' = h -> oh' = oh -> exists rv, step s o = (s, RRv rv) /\ rv <> CKR_OK
  | _ => True
  end.
Proof. exact token_object_needs_rw. Qed.
Print Assumptions C01_token_object_needs_rw.
Theorem C01_token_create_needs_rw : forall (s : state) (h : N) (x : session) (tm : template),
  st_init s = true -> get_session s h = Some x -> ro_session s x -> tmpl_bool CKA_TOKEN tm 0 <> 0 ->
  fst (step s (OCreate h tm)) = s /\ (forall hh, snd (step s (OCreate h tm)) <> RHandle hh).
Proof. exact token_create_needs_rw. Qed.
Print Assumptions C01_token_create_needs_rw.
