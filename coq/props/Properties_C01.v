(* Properties_C01 — private objects are unreachable unless the normal user is logged in; token objects
   need read-write sessions.  Statements only. *)
From Coq Require Import List NArith Bool.
From SoftHSM Require Import Gen_Entry EntryFacts Gen_Const Gen_Pure Defs Core AccessFacts StepFacts Invariants PrivacyFacts FindFacts EntryModel Gen_Ops ExtractFacts CopyFacts.
Import ListNotations.
Local Open Scope N_scope.

(* the regenerated access matrix (access.cpp): a private object is readable / writable only in the two
   USER states, whatever number the state argument is; a token object is writable only in R/W states *)
Theorem C01_matrix_read : forall (st : N) (tok : bool), have_read st tok true = CKR_OK -> is_user_state st = true.
Proof. exact haveRead_private_needs_user. Qed.
Print Assumptions C01_matrix_read.
Theorem C01_matrix_write : forall (st : N) (tok : bool), have_write st tok true = CKR_OK -> is_user_state st = true.
Proof. exact haveWrite_private_needs_user. Qed.
Print Assumptions C01_matrix_write.
Theorem C01_matrix_token_rw : forall (st : N) (priv : bool), have_write st true priv = CKR_OK -> is_rw_state st = true.
Proof. exact haveWrite_token_needs_rw. Qed.
Print Assumptions C01_matrix_token_rw.
(* the regenerated Session::getState reports a USER state only when the normal user is logged in *)
Theorem C01_user_state_iff : forall (s : state) (x : session),
  is_user_state (sess_state s x) = true <-> tok_login s (s_tok x) = LUser.
Proof. exact sess_state_user. Qed.
Print Assumptions C01_user_state_iff.

(* in EVERY state: get/set/copy/destroy/use-as-key of a private object through a session whose token has
   no normal user logged in fails, changes nothing and writes no attribute byte *)
Theorem C01_private_object_unreachable : forall (s : state) (o : op) (h oh : N) (x : session) e loc ob,
  st_init s = true -> get_session s h = Some x -> get_object s oh = Some (e, loc, ob) ->
  o_private ob = true -> not_user s x ->
  match o with
  | OGetAttr h' oh' q => h' = h -> oh' = oh -> exists l, step s o = (s, RAttrs CKR_GENERAL_ERROR l) /\ no_data l
  | OSetAttr h' oh' _ | OCopy h' oh' _ | ODestroy h' oh' => h' = h -> oh' = oh -> exists rv, step s o = (s, RRv rv) /\ rv <> CKR_OK
  | OUseInit _ h' oh' => h' = h -> oh' = oh -> exists rv, step s o = (s, RRv rv) /\ rv <> CKR_OK
  | _ => True
  end.
Proof. exact private_object_unreachable. Qed.
Print Assumptions C01_private_object_unreachable.

(* searching there never captures a private object *)
Theorem C01_find_hides_private : forall (s : state) (h : N) (x : session) (tm : template) (prio : list bytes),
  st_init s = true -> get_session s h = Some x -> not_user s x ->
  snd (step s (OFindInit h tm prio)) = RRv CKR_OK ->
  exists x', alookup h (st_sessions (fst (step s (OFindInit h tm prio)))) = Some x' /\
    forall oh, In oh (s_find x') ->
      exists c, In c (candidates s (s_tok x)) /\ o_private (snd c) = false /\
                find_obj_handle (fst (step s (OFindInit h tm prio))) (fst (fst c)) = Some oh.
Proof.
  intros s h x tm prio Hi Hs Hn Hok.
  destruct (findinit_sound_complete s h x tm prio Hi Hs Hok) as [x' [H1 [_ [_ H4]]]].
  exists x'. split; [exact H1|]. intros oh Hin. apply H4 in Hin. destruct Hin as [c [Hc1 [Hc2 Hc3]]].
  exists c. split; [exact Hc1|]. split; [|exact Hc3].
  apply (proj2 (public_session_iff s x)) in Hn. rewrite Hn in Hc2. eapply public_session_hides_private. exact Hc2.
Qed.
Print Assumptions C01_find_hides_private.

(* private objects cannot be created or produced by copying there *)
Theorem C01_private_create_refused : forall (s : state) (h : N) (x : session) (tm : template),
  st_init s = true -> get_session s h = Some x -> not_user s x -> tmpl_bool CKA_PRIVATE tm 1 <> 0 ->
  fst (step s (OCreate h tm)) = s /\ (forall hh, snd (step s (OCreate h tm)) <> RHandle hh).
Proof. exact private_create_refused. Qed.
Print Assumptions C01_private_create_refused.
Theorem C01_private_copy_refused : forall (s : state) (h oh : N) (x : session) (tm : template),
  st_init s = true -> get_session s h = Some x -> not_user s x ->
  fst (step s (OCopy h oh tm)) = s \/
  (exists e loc ob, get_object s oh = Some (e, loc, ob) /\ o_private ob = false /\ tmpl_bool CKA_PRIVATE tm 0 = 0).
Proof. exact private_copy_refused. Qed.
Print Assumptions C01_private_copy_refused.

(* token objects: create / change / destroy only through read-write sessions *)
Theorem C01_token_object_needs_rw : forall (s : state) (o : op) (h oh : N) (x : session) e loc ob,
  st_init s = true -> get_session s h = Some x -> get_object s oh = Some (e, loc, ob) ->
  o_token ob = true -> ro_session s x ->
  match o with
  | OSetAttr h' oh' _ | ODestroy h' oh' => h' = h -> oh' = oh -> exists rv, step s o = (s, RRv rv) /\ rv <> CKR_OK
  | _ => True
  end.
Proof. exact token_object_needs_rw. Qed.
Print Assumptions C01_token_object_needs_rw.
Theorem C01_token_create_needs_rw : forall (s : state) (h : N) (x : session) (tm : template),
  st_init s = true -> get_session s h = Some x -> ro_session s x -> tmpl_bool CKA_TOKEN tm 0 <> 0 ->
  fst (step s (OCreate h tm)) = s /\ (forall hh, snd (step s (OCreate h tm)) <> RHandle hh).
Proof. exact token_create_needs_rw. Qed.
Print Assumptions C01_token_create_needs_rw.

(* ---- object-creating entry points (regenerated from SoftHSM.cpp): the object is built only after haveWrite has accepted the
   token / private flags extracted from ITS OWN template; with the access matrix (C01_matrix lemmas) a private object therefore
   needs the normal user logged in, whatever path creates it ------------------------------------------------------------ *)
Theorem C01_CreateObject_write_check : forall (e : CreateObject.env),
  bounded (CreateObject.haveWrite e) -> CreateObject.hv1_rv e < SENTINEL -> CreateObject.zz_rest e = SENTINEL ->
  CreateObject.app e = SENTINEL ->
  CreateObject.handleManager_getSession e (CreateObject.hSession e) <> 0 /\
  CreateObject.haveWrite e (CreateObject.session_getState e) (CreateObject.hv1_isOnToken e) (CreateObject.hv1_isPrivate e) = CKR_OK.
Proof. exact CreateObject_guards. Qed.
Print Assumptions C01_CreateObject_write_check.

Theorem C01_DeriveKey_write_check : forall (e : C_DeriveKey.env),
  bounded (C_DeriveKey.haveRead e) -> bounded (C_DeriveKey.haveWrite e) -> C_DeriveKey.hv1_rv e < SENTINEL ->
  (forall a b c d f g h i j, C_DeriveKey.deriveDH e a b c d f g h i j = SENTINEL) ->
  (forall a b c d f g h i j, C_DeriveKey.deriveECDH e a b c d f g h i j = SENTINEL) ->
  (forall a b c d f g h i j, C_DeriveKey.deriveEDDSA e a b c d f g h i j = SENTINEL) ->
  (forall a b c d f g h i j, C_DeriveKey.deriveSymmetric e a b c d f g h i j = SENTINEL) ->
  C_DeriveKey.app e = SENTINEL ->
  let kgb := C_DeriveKey.key_getBooleanValue e in let sst := C_DeriveKey.session_getState e in
  kgb CKA_DERIVE false = true /\
  C_DeriveKey.isMechanismPermitted e (C_DeriveKey.handleManager_getObject e (C_DeriveKey.hBaseKey e)) (C_DeriveKey.pMechanism e) = true /\
  C_DeriveKey.haveRead e sst (if kgb CKA_TOKEN false then 1 else 0) (if kgb CKA_PRIVATE true then 1 else 0) = CKR_OK /\
  C_DeriveKey.haveWrite e sst (C_DeriveKey.hv1_isOnToken e) (C_DeriveKey.hv1_isPrivate e) = CKR_OK.
Proof. exact DeriveKey_guards. Qed.
Print Assumptions C01_DeriveKey_write_check.

Theorem C01_GenerateKey_write_check : forall (e : C_GenerateKey.env),
  bounded (C_GenerateKey.haveWrite e) ->
  (forall a b c d f g, C_GenerateKey.generateAES e a b c d f g = SENTINEL) -> (forall a b c d f g, C_GenerateKey.generateDES e a b c d f g = SENTINEL) ->
  (forall a b c d f g, C_GenerateKey.generateDES2 e a b c d f g = SENTINEL) -> (forall a b c d f g, C_GenerateKey.generateDES3 e a b c d f g = SENTINEL) ->
  (forall a b c d f g, C_GenerateKey.generateDHParameters e a b c d f g = SENTINEL) -> (forall a b c d f g, C_GenerateKey.generateDSAParameters e a b c d f g = SENTINEL) ->
  (forall a b c d f g, C_GenerateKey.generateGeneric e a b c d f g = SENTINEL) ->
  C_GenerateKey.app e = SENTINEL ->
  C_GenerateKey.find e (C_GenerateKey.supportedMechanisms_begin e) (C_GenerateKey.supportedMechanisms_end e) (C_GenerateKey.pMechanism_mechanism e) <> C_GenerateKey.supportedMechanisms_end e /\
  C_GenerateKey.handleManager_getSession e (C_GenerateKey.hSession e) <> 0 /\
  C_GenerateKey.haveWrite e (C_GenerateKey.session_getState e) (C_GenerateKey.hv1_isOnToken e) (C_GenerateKey.hv1_isPrivate e) = CKR_OK.
Proof. exact GenerateKey_guards. Qed.
Print Assumptions C01_GenerateKey_write_check.

Theorem C01_GenerateKeyPair_write_check : forall (e : C_GenerateKeyPair.env),
  (forall a b c, C_GenerateKeyPair.haveWrite e a b c < SENTINEL) ->
  (forall a b c d f g h i j k l, C_GenerateKeyPair.generateDH e a b c d f g h i j k l = SENTINEL) ->
  (forall a b c d f g h i j k l, C_GenerateKeyPair.generateDSA e a b c d f g h i j k l = SENTINEL) ->
  (forall a b c d f g h i j k l, C_GenerateKeyPair.generateEC e a b c d f g h i j k l = SENTINEL) ->
  (forall a b c d f g h i j k l, C_GenerateKeyPair.generateED e a b c d f g h i j k l = SENTINEL) ->
  (forall a b c d f g h i j k l, C_GenerateKeyPair.generateGOST e a b c d f g h i j k l = SENTINEL) ->
  (forall a b c d f g h i j k l, C_GenerateKeyPair.generateRSA e a b c d f g h i j k l = SENTINEL) ->
  C_GenerateKeyPair.app e = SENTINEL ->
  C_GenerateKeyPair.find e (C_GenerateKeyPair.supportedMechanisms_begin e) (C_GenerateKeyPair.supportedMechanisms_end e) (C_GenerateKeyPair.pMechanism_mechanism e)
    <> C_GenerateKeyPair.supportedMechanisms_end e /\
  (* one write check for both halves: on the token if either is, private if either is *)
  C_GenerateKeyPair.haveWrite e (C_GenerateKeyPair.session_getState e)
    (negb (C_GenerateKeyPair.hv1_ispublicKeyToken e =? 0) || negb (C_GenerateKeyPair.hv2_isprivateKeyToken e =? 0))
    (negb (C_GenerateKeyPair.hv1_ispublicKeyPrivate e =? 0) || negb (C_GenerateKeyPair.hv2_isprivateKeyPrivate e =? 0)) = CKR_OK.
Proof. exact GenerateKeyPair_guards. Qed.
Print Assumptions C01_GenerateKeyPair_write_check.

Theorem C01_UnwrapKey_write_check : forall (e : C_UnwrapKey.env),
  bounded (C_UnwrapKey.haveRead e) -> bounded (C_UnwrapKey.haveWrite e) -> bounded1 (C_UnwrapKey.MechParamCheckRSAPKCSOAEP e) ->
  C_UnwrapKey.hv1_rv e < SENTINEL -> C_UnwrapKey.zz_rest e = SENTINEL ->
  C_UnwrapKey.app e = SENTINEL ->
  let ugb := C_UnwrapKey.unwrapKey_getBooleanValue e in let ugu := C_UnwrapKey.unwrapKey_getUnsignedLongValue e in
  let mech := C_UnwrapKey.pMechanism_mechanism e in let sst := C_UnwrapKey.session_getState e in
  ugb CKA_UNWRAP false = true /\
  C_UnwrapKey.isMechanismPermitted e (C_UnwrapKey.handleManager_getObject e (C_UnwrapKey.hUnwrappingKey e)) (C_UnwrapKey.pMechanism e) = true /\
  C_UnwrapKey.haveRead e sst (if ugb CKA_TOKEN false then 1 else 0) (if ugb CKA_PRIVATE true then 1 else 0) = CKR_OK /\
  (* the object to be created: the write check is applied to the token / private flags extracted from the template *)
  C_UnwrapKey.haveWrite e sst (C_UnwrapKey.hv1_isOnToken e) (C_UnwrapKey.hv1_isPrivate e) = CKR_OK /\
  ((mech = CKM_AES_KEY_WRAP \/ mech = CKM_AES_KEY_WRAP_PAD) -> ugu CKA_CLASS CKO_VENDOR_DEFINED = CKO_SECRET_KEY /\ ugu CKA_KEY_TYPE CKK_VENDOR_DEFINED = CKK_AES) /\
  ((mech = CKM_RSA_PKCS \/ mech = CKM_RSA_PKCS_OAEP) -> ugu CKA_CLASS CKO_VENDOR_DEFINED = CKO_PRIVATE_KEY /\ ugu CKA_KEY_TYPE CKK_VENDOR_DEFINED = CKK_RSA).
Proof. exact UnwrapKey_guards. Qed.
Print Assumptions C01_UnwrapKey_write_check.


Theorem C01_getattr_code_guard : forall (s : state) (h oh : N) (x : session) (rest ptr cnt : N),
  ptr <> 0 ->
  C_GetAttributeValue.app (getattr_env s h oh x rest ptr cnt)
  = match get_object s oh with
    | None => CKR_OBJECT_HANDLE_INVALID
    | Some (_, _, ob) => if negb (have_read (sess_state s x) (o_token ob) (o_private ob) =? CKR_OK) then CKR_GENERAL_ERROR else rest
    end.
Proof. exact getattr_code_guard. Qed.
Print Assumptions C01_getattr_code_guard.

Theorem C01_setattr_code_guard : forall (s : state) (h oh : N) (x : session) (rest ptr cnt : N),
  ptr <> 0 ->
  C_SetAttributeValue.app (setattr_env s h oh x rest ptr cnt)
  = match get_object s oh with
    | None => CKR_OBJECT_HANDLE_INVALID
    | Some (_, _, ob) =>
        let rv := have_write (sess_state s x) (o_token ob) (o_private ob) in
        if negb (rv =? CKR_OK) then rv else if negb (obj_bool ob CKA_MODIFIABLE true) then CKR_ACTION_PROHIBITED else rest
    end.
Proof. exact setattr_code_guard. Qed.
Print Assumptions C01_setattr_code_guard.

Theorem C01_destroy_model_is_code : forall (s : state) (h oh : N) (x : session),
  st_init s = true -> get_session s h = Some x ->
  rv_of (snd (step s (ODestroy h oh))) = Some (C_DestroyObject.app (destroy_env s h oh x)).
Proof. exact destroy_model_is_code. Qed.
Print Assumptions C01_destroy_model_is_code.

Theorem C01_findinit_code_passes_model_public : forall (s : state) (h : N) (x : session) (rest : bool -> N) (ptr cnt : N),
  (ptr <> 0 \/ cnt = 0) ->
  C_FindObjectsInit.app (findinit_env s h x rest ptr cnt)
  = if negb (s_op x =? SESSION_OP_NONE) then CKR_OPERATION_ACTIVE else rest (model_public (sess_state s x)).
Proof. exact findinit_code_passes_model_public. Qed.
Print Assumptions C01_findinit_code_passes_model_public.

Theorem C01_findinit_model_uses_public : forall (s : state) (h : N) (x : session) (tm : template) (prio : list bytes),
  st_init s = true -> get_session s h = Some x -> (s_op x =? SESSION_OP_NONE) = true ->
  forallb (fun e => match te_val e with Some b => blen b =? te_len e | None => te_len e =? 0 end) tm = true ->
  step s (OFindInit h tm prio)
  = match find_loop (tctx_of s (s_tok x)) (model_public (sess_state s x)) (s_tok x) h tm (order_cands prio (candidates s (s_tok x))) s [] with
    | None => (s, RUnmodelled)
    | Some (s1, hs) => (upd_session s1 h (fun x => set_s_op x SESSION_OP_FIND hs), RRv CKR_OK)
    end.
Proof. exact findinit_model_uses_public. Qed.
Print Assumptions C01_findinit_model_uses_public.

Theorem C01_getattr_model_refusal_is_code : forall (s : state) (h oh : N) (x : session) (q : list (N * option N)) (rest : N),
  st_init s = true -> get_session s h = Some x ->
  (match get_object s oh with None => True
   | Some (_, _, ob) => negb (have_read (sess_state s x) (o_token ob) (o_private ob) =? CKR_OK) = true end) ->
  rv_of (snd (step s (OGetAttr h oh q))) = Some (C_GetAttributeValue.app (getattr_env s h oh x rest 1 (N.of_nat (length q)))).
Proof. exact getattr_model_refusal_is_code. Qed.
Print Assumptions C01_getattr_model_refusal_is_code.

Theorem C01_setattr_model_refusal_is_code : forall (s : state) (h oh : N) (x : session) (tm : template) (rest : N),
  st_init s = true -> get_session s h = Some x ->
  (match get_object s oh with None => True
   | Some (_, _, ob) => negb (have_write (sess_state s x) (o_token ob) (o_private ob) =? CKR_OK) = true
                        \/ obj_bool ob CKA_MODIFIABLE true = false end) ->
  rv_of (snd (step s (OSetAttr h oh tm))) = Some (C_SetAttributeValue.app (setattr_env s h oh x rest 1 (N.of_nat (length tm)))).
Proof. exact setattr_model_refusal_is_code. Qed.
Print Assumptions C01_setattr_model_refusal_is_code.

(* ---- extractObjectInformation (regenerated whole): which privacy the access check of C_CreateObject is made with ---- *)

Theorem C01_extract_private : forall (e : extractObjectInformation.env) (v : N),
  fst (extractObjectInformation.app e) = CKR_OK ->
  In (OUT_PRIVATE, v) (snd (extractObjectInformation.app e)) ->
  let cls := extractObjectInformation.hv1_objClass e in
  v = if negb (extractObjectInformation.bImplicit e) && ((cls =? CKO_CERTIFICATE) || (cls =? CKO_PUBLIC_KEY)) && negb (extractObjectInformation.hv1_bHasPrivate e)
      then 0 else extractObjectInformation.hv1_isPrivate e.
Proof. exact extract_private. Qed.
Print Assumptions C01_extract_private.

Theorem C01_extract_token : forall (e : extractObjectInformation.env) (v : N),
  In (OUT_TOKEN, v) (snd (extractObjectInformation.app e)) -> v = extractObjectInformation.hv1_isOnToken e.
Proof. exact extract_token. Qed.
Print Assumptions C01_extract_token.

Theorem C01_extract_needs_class : forall (e : extractObjectInformation.env),
  fst (extractObjectInformation.app e) = CKR_OK -> extractObjectInformation.bImplicit e = false ->
  extractObjectInformation.hv1_bHasClass e = true.
Proof. exact extract_needs_class. Qed.
Print Assumptions C01_extract_needs_class.

(* ---- C_CopyObject regenerated whole: access decisions, and everything done to the copy uses the copy's flags ---- *)

Theorem C01_copy_access : forall (e : C_CopyObject.env),
  fst (C_CopyObject.app e) = CKR_OK ->
  let ogb := C_CopyObject.object_getBooleanValue e in
  C_CopyObject.haveRead e (C_CopyObject.session_getState e) (ogb CKA_TOKEN false) (ogb CKA_PRIVATE true) = CKR_OK /\
  C_CopyObject.haveWrite e (C_CopyObject.session_getState e) (C_CopyObject.hv1_isOnToken e) (C_CopyObject.hv1_isPrivate e) = CKR_OK /\
  ogb CKA_COPYABLE true <> 0 /\
  (ogb CKA_PRIVATE true <> 0 -> C_CopyObject.hv1_isPrivate e <> 0).
Proof. exact copy_access. Qed.
Print Assumptions C01_copy_access.

Theorem C01_copy_uses_the_copys_privacy : forall (e : C_CopyObject.env),
  let pv := copy_private e in
  C_CopyObject.app e =
  C_CopyObject.app
    (C_CopyObject.set_newp11object_saveTemplate (fun tok _ t n op => C_CopyObject.newp11object_saveTemplate e tok pv t n op)
    (C_CopyObject.set_sessionObjectStore_createObject (fun sl h _ => C_CopyObject.sessionObjectStore_createObject e sl h pv)
    (C_CopyObject.set_handleManager_addTokenObject (fun sl _ o => C_CopyObject.handleManager_addTokenObject e sl pv o)
    (C_CopyObject.set_handleManager_addSessionObject (fun sl h _ o => C_CopyObject.handleManager_addSessionObject e sl h pv o) e)))).
Proof. exact copy_uses_the_copys_privacy. Qed.
Print Assumptions C01_copy_uses_the_copys_privacy.

Theorem C01_copy_uses_the_copys_storage : forall (e : C_CopyObject.env),
  C_CopyObject.app e =
  if copy_on_token e
  then C_CopyObject.app (C_CopyObject.set_sessionObjectStore_createObject (fun _ _ _ => 0) (C_CopyObject.set_handleManager_addSessionObject (fun _ _ _ _ => 0) e))
  else C_CopyObject.app (C_CopyObject.set_token_createObject 0 (C_CopyObject.set_handleManager_addTokenObject (fun _ _ _ => 0) e)).
Proof. exact copy_uses_the_copys_storage. Qed.
Print Assumptions C01_copy_uses_the_copys_storage.
