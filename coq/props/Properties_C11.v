(* Properties_C11 — handles are never reused and die exactly with what they denote.  Statements only. *)
From Coq Require Import List NArith Bool.
From SoftHSM Require Import Gen_Const Gen_Pure Defs Core AccessFacts StepFacts Invariants HandleFacts.
Import ListNotations.
Local Open Scope N_scope.

(* over ANY history: live handle values lie in 1..counter and are pairwise distinct *)
Theorem C11_handle_table_invariant : forall ops : list op, inv_handles (exec init_state ops).
Proof. intros ops. apply exec_inv_handles. exact inv_handles_init. Qed.
Print Assumptions C11_handle_table_invariant.

(* the counter never decreases while the library stays initialised *)
Theorem C11_counter_monotone : forall (s : state) (o : op),
  inv_handles s -> is_restart o = false -> st_counter s <= st_counter (fst (step s o)).
Proof. intros s o H. exact (proj2 (step_inv_handles s o H)). Qed.
Print Assumptions C11_counter_monotone.

(* a valid handle always denotes the same session or object *)
Theorem C11_denotation_stable : forall (s : state) (o : op) (h : N) (e e' : hentry),
  inv_handles s -> is_restart o = false ->
  alookup h (st_handles s) = Some e -> alookup h (st_handles (fst (step s o))) = Some e' -> e' = e.
Proof. exact denotation_stable. Qed.
Print Assumptions C11_denotation_stable.

(* a handle value that is dead (purged, or below the counter and not live) is never valid again, over
   any history without re-initialisation: no handle value is issued twice *)
Theorem C11_never_reused : forall (ops : list op) (s : state) (h : N),
  inv_handles s -> no_restart ops = true -> h <= st_counter s -> alookup h (st_handles s) = None ->
  alookup h (st_handles (exec s ops)) = None.
Proof. exact handles_never_reused. Qed.
Print Assumptions C11_never_reused.

(* exactly the affected handles die *)
Theorem C11_logout_purge_exact : forall (s : state) (h : N) (x : session),
  st_init s = true -> get_session s h = Some x ->
  st_handles (fst (step s (OLogout h))) =
  filter (fun p => negb ((h_kind (snd p) =? CKH_OBJECT) && (h_tok (snd p) =? s_tok x) && h_priv (snd p))) (st_handles s).
Proof. exact logout_purge_exact. Qed.
Print Assumptions C11_logout_purge_exact.
Theorem C11_closeall_purge_exact : forall (s : state) (k : N),
  st_init s = true -> amem k (st_tokens s) = true ->
  st_handles (fst (step s (OCloseAll (TTok k)))) = filter (fun p => negb (h_tok (snd p) =? k)) (st_handles s).
Proof. exact closeall_purge_exact. Qed.
Print Assumptions C11_closeall_purge_exact.
Theorem C11_close_purge_exact : forall (s : state) (h : N) (x : session),
  st_init s = true -> get_session s h = Some x ->
  st_handles (fst (step s (OClose h))) =
  if other_session_on s (s_tok x) h
  then filter (fun p => negb ((fst p =? h) || (h_kind (snd p) =? CKH_OBJECT) && (h_sess (snd p) =? h))) (st_handles s)
  else filter (fun p => negb (h_tok (snd p) =? s_tok x)) (st_handles s).
Proof. exact close_purge_exact. Qed.
Print Assumptions C11_close_purge_exact.
Theorem C11_destroy_purge_exact : forall (s : state) (h oh : N),
  snd (step s (ODestroy h oh)) = RRv CKR_OK ->
  st_handles (fst (step s (ODestroy h oh))) = filter (fun p => negb (fst p =? oh)) (st_handles s).
Proof. exact destroy_purge_exact. Qed.
Print Assumptions C11_destroy_purge_exact.

(* dead handles are rejected as invalid by every modelled entry point *)
Theorem C11_dead_session_rejected : forall (s : state) (o : op),
  st_init s = true ->
  match o with
  | OClose h | OSInfo h | OLogout h | OLogin h _ _ | OInitPin h _ | OSetPin h _ _ | OCreate h _ | OCopy h _ _ | ODestroy h _
  | OObjSize h _ | OGetAttr h _ _ | OSetAttr h _ _ | OFindInit h _ _ | OFind h _ | OFindFinal h | OUseInit _ h _ =>
      get_session s h = None -> rv_of (snd (step s o)) = Some CKR_SESSION_HANDLE_INVALID
  | _ => True
  end.
Proof. exact dead_session_rejected. Qed.
Print Assumptions C11_dead_session_rejected.
Theorem C11_dead_object_rejected : forall (s : state) (o : op),
  st_init s = true ->
  match o with
  | OCopy h oh _ | ODestroy h oh | OObjSize h oh | OGetAttr h oh _ | OSetAttr h oh _ =>
      get_session s h <> None -> get_object s oh = None -> rv_of (snd (step s o)) = Some CKR_OBJECT_HANDLE_INVALID
  | _ => True
  end.
Proof. exact dead_object_rejected. Qed.
Print Assumptions C11_dead_object_rejected.

(* ---- the functions that create key objects, regenerated whole in trace mode (gen/Gen_Keys.v, coq/P11/KeyGenFacts.v) ---- *)
From SoftHSM Require Import Gen_Keys KeyGenSpec KeyGenFacts.

(* the five secret-key generators, regenerated whole (gen/Gen_Keys.v): the only handle they ever unregister and the only object
   they ever destroy are the ones CreateObject just gave them - never what the caller's handle variable held on entry *)
Theorem C11_generate_destroys_only_its_own_object :
  (forall (e : generateAES.env),
     (forall x, In (T_HMD, x) (snd (generateAES.app e)) -> x = generateAES.CreateObject_sets_phKey e) /\
     (forall o, In (T_OBJD, o) (snd (generateAES.app e)) -> o = generateAES.handleManager_getObject e (generateAES.CreateObject_sets_phKey e))) /\
  (forall (e : generateDES.env),
     (forall x, In (T_HMD, x) (snd (generateDES.app e)) -> x = generateDES.CreateObject_sets_phKey e) /\
     (forall o, In (T_OBJD, o) (snd (generateDES.app e)) -> o = generateDES.handleManager_getObject e (generateDES.CreateObject_sets_phKey e))) /\
  (forall (e : generateDES2.env),
     (forall x, In (T_HMD, x) (snd (generateDES2.app e)) -> x = generateDES2.CreateObject_sets_phKey e) /\
     (forall o, In (T_OBJD, o) (snd (generateDES2.app e)) -> o = generateDES2.handleManager_getObject e (generateDES2.CreateObject_sets_phKey e))) /\
  (forall (e : generateDES3.env),
     (forall x, In (T_HMD, x) (snd (generateDES3.app e)) -> x = generateDES3.CreateObject_sets_phKey e) /\
     (forall o, In (T_OBJD, o) (snd (generateDES3.app e)) -> o = generateDES3.handleManager_getObject e (generateDES3.CreateObject_sets_phKey e))) /\
  (forall (e : generateGeneric.env),
     (forall x, In (T_HMD, x) (snd (generateGeneric.app e)) -> x = generateGeneric.CreateObject_sets_phKey e) /\
     (forall o, In (T_OBJD, o) (snd (generateGeneric.app e)) -> o = generateGeneric.handleManager_getObject e (generateGeneric.CreateObject_sets_phKey e))).
Proof. exact generated_destroys_only_its_own. Qed.
Print Assumptions C11_generate_destroys_only_its_own_object.

(* C_UnwrapKey regenerated whole (gen/Gen_Keys.v): last two clauses - the only handle it ever unregisters and the only object it
   ever destroys are the ones CreateObject just gave it *)
Theorem C11_unwrap_destroys_only_its_own_object : forall (e : C_UnwrapKey.env),
  let h := C_UnwrapKey.CreateObject_sets_hKey e in let g := C_UnwrapKey.handleManager_getObject e in
  (fst (C_UnwrapKey.app e) <> 0 -> In (T_CREATE, OBJECT_OP_UNWRAP) (snd (C_UnwrapKey.app e)) -> h <> 0 -> exists pre, snd (C_UnwrapKey.app e) = cleanup OUT_hKey h g ++ pre) /\
  (fst (C_UnwrapKey.app e) <> 0 -> last_out OUT_hKey (snd (C_UnwrapKey.app e)) = Some 0 \/ last_out OUT_hKey (snd (C_UnwrapKey.app e)) = None) /\
  (fst (C_UnwrapKey.app e) = 0 -> (forall t v, In (t, v) (snd (C_UnwrapKey.app e)) -> t <> T_HMD /\ t <> T_OBJD /\ t <> T_ABORT) /\
     In (T_CREATE, OBJECT_OP_UNWRAP) (snd (C_UnwrapKey.app e)) /\ In (T_TXS, g h) (snd (C_UnwrapKey.app e)) /\ In (T_COMMIT, g h) (snd (C_UnwrapKey.app e))) /\
  (forall x, In (T_HMD, x) (snd (C_UnwrapKey.app e)) -> x = h) /\
  (forall o, In (T_OBJD, o) (snd (C_UnwrapKey.app e)) -> o = g h).
Proof. exact unwrap_failure_undoes_success_commits. Qed.
Print Assumptions C11_unwrap_destroys_only_its_own_object.

(* ---- the handle manager itself (coq/Conc/HandleLife.v, tied to HandleManager.cpp by K-handle): handles die exactly
   with what they denote, and a dead handle is never returned again, over every sequence of calls ---------------------- *)
From SoftHSM Require HandleLife HandleLifeFacts.

Theorem C11_manager_dead_handle_never_returned :
  forall (xs : list HandleLife.op) (m : HandleLife.mgr) (h : N) (x : HandleLife.op),
  0 < h -> h <= HandleLife.ctr m -> ~ HandleLife.live m h -> snd (HandleLife.step (HandleLife.run m xs) x) <> h.
Proof. exact HandleLife.dead_handle_never_returned. Qed.
Print Assumptions C11_manager_dead_handle_never_returned.

Theorem C11_manager_destroy_exact : forall m h e,
  In e (HandleLife.handles (fst (HandleLife.step m (HandleLife.DestroyObject h)))) <->
  In e (HandleLife.handles m) /\ ((HandleLife.eh e =? h) && HandleLife.isobj e = false).
Proof. exact HandleLifeFacts.destroy_exact. Qed.
Print Assumptions C11_manager_destroy_exact.

Theorem C11_manager_logout_exact : forall m slot e,
  In e (HandleLife.handles (fst (HandleLife.step m (HandleLife.TokenLoggedOut slot)))) <->
  In e (HandleLife.handles m) /\ (HandleLife.isobj e && (HandleLife.eslot e =? slot) && HandleLife.epriv e = false).
Proof. exact HandleLifeFacts.logout_exact. Qed.
Print Assumptions C11_manager_logout_exact.

Theorem C11_manager_close_all_exact : forall m slot e,
  In e (HandleLife.handles (fst (HandleLife.step m (HandleLife.AllSessionsClosed slot)))) <->
  In e (HandleLife.handles m) /\ (HandleLife.eslot e =? slot) = false.
Proof. exact HandleLifeFacts.all_closed_exact. Qed.
Print Assumptions C11_manager_close_all_exact.

Theorem C11_manager_session_closed_kills_its_objects : forall m h s e,
  HandleLife.find_h h (HandleLife.handles m) = Some s -> HandleLife.issess s = true ->
  In e (HandleLife.handles (fst (HandleLife.step m (HandleLife.SessionClosed h)))) ->
  ~ (HandleLife.isobj e = true /\ HandleLife.esess e = h) /\ ~ (HandleLife.issess e = true /\ HandleLife.eh e = h).
Proof. exact HandleLifeFacts.session_closed_kills_its_objects. Qed.
Print Assumptions C11_manager_session_closed_kills_its_objects.

Theorem C11_manager_session_closed_keeps_the_rest : forall m h s e,
  HandleLife.find_h h (HandleLife.handles m) = Some s -> HandleLife.issess s = true ->
  existsb (fun e' => HandleLife.issess e' && (HandleLife.eslot e' =? HandleLife.eslot s))
          (HandleLife.handles (HandleLife.remove_where (fun e' => ((HandleLife.eh e' =? h) && HandleLife.issess e') || (HandleLife.isobj e' && (HandleLife.esess e' =? h))) m)) = true ->
  In e (HandleLife.handles m) -> ((HandleLife.eh e =? h) && HandleLife.issess e) || (HandleLife.isobj e && (HandleLife.esess e =? h)) = false ->
  In e (HandleLife.handles (fst (HandleLife.step m (HandleLife.SessionClosed h)))).
Proof. exact HandleLifeFacts.session_closed_keeps_the_rest. Qed.
Print Assumptions C11_manager_session_closed_keeps_the_rest.

(* across slots the manager can give one pointer two live handles (also observed on the compiled class, see the source) *)
Theorem C11_manager_one_handle_per_object_refuted_across_slots :
  let xs := [HandleLife.AddObject 5 0 false 200; HandleLife.AddObject 6 0 false 200; HandleLife.AddObject 6 0 false 200; HandleLife.DestroyObject 1] in
  let m := HandleLife.run HandleLife.init xs in
  (snd (HandleLife.step m (HandleLife.AddObject 6 0 false 200)),
   map (fun e => (HandleLife.eh e, HandleLife.eslot e, HandleLife.eobj e)) (HandleLife.handles (fst (HandleLife.step m (HandleLife.AddObject 6 0 false 200)))))
  = (3, [(3, 6, 200); (2, 6, 200)]).
Proof. exact HandleLifeFacts.one_handle_per_object_refuted_across_slots. Qed.
Print Assumptions C11_manager_one_handle_per_object_refuted_across_slots.
