(* Properties_C03 — session and login state machine follows the PKCS#11 rules.
   Only statements, each closed by [exact] of a lemma proved elsewhere, and Print Assumptions. *)
From Coq Require Import List NArith Bool.
From SoftHSM Require Import Gen_Entry Gen_Token EntryModel Gen_Const Gen_Pure Defs Core AccessFacts StepFacts Invariants SessionSpec.
Import ListNotations.
Local Open Scope N_scope.

(* all sessions of a token report the same login state (for every state, reachable or not) *)
Theorem C03_same_login_state : forall (s : state) (x y : session),
  s_tok x = s_tok y -> login_class (sess_state s x) = login_class (sess_state s y).
Proof. exact same_login_state. Qed.
Print Assumptions C03_same_login_state.

(* after ANY history: no read-only session exists on a token whose SO is logged in *)
Theorem C03_no_ro_session_while_so : forall (ops : list op) (h : N) (x : session),
  In (h, x) (st_sessions (exec init_state ops)) ->
  tok_login (exec init_state ops) (s_tok x) = LSO -> s_rw x = true.
Proof. intros ops. exact (inv_so_rw_reachable ops). Qed.
Print Assumptions C03_no_ro_session_while_so.

(* C_Login succeeds exactly with the current PIN of the requested user, nobody logged in, and for the
   SO no read-only session *)
Theorem C03_login_ok_iff : forall (s : state) (h ut : N) (p : bytes) (x : session) (t : token),
  st_init s = true -> get_session s h = Some x -> alookup (s_tok x) (st_tokens s) = Some t ->
  (snd (step s (OLogin h ut (Some p))) = RRv CKR_OK <->
   (ut = CKU_SO /\ has_ro_session s (s_tok x) = false /\ t_login t = LNone /\ pin_ok (t_sopin t) p = true) \/
   (ut = CKU_USER /\ t_login t = LNone /\ exists up, t_userpin t = Some up /\ pin_ok up p = true)).
Proof. exact login_ok_iff. Qed.
Print Assumptions C03_login_ok_iff.

Theorem C03_so_login_refused_with_ro : forall (s : state) (h : N) (x : session) (p : bytes),
  st_init s = true -> get_session s h = Some x -> amem (s_tok x) (st_tokens s) = true ->
  has_ro_session s (s_tok x) = true ->
  step s (OLogin h CKU_SO (Some p)) = (s, RRv CKR_SESSION_READ_ONLY_EXISTS).
Proof. exact so_login_refused_with_ro. Qed.
Print Assumptions C03_so_login_refused_with_ro.

Theorem C03_ro_open_refused_while_so : forall (s : state) (k flags : N),
  st_init s = true -> amem k (st_tokens s) = true -> tok_login s k = LSO ->
  N.land flags CKF_SERIAL_SESSION <> 0 -> N.land flags CKF_RW_SESSION <> CKF_RW_SESSION ->
  step s (OOpen (TTok k) flags) = (s, RRv CKR_SESSION_READ_WRITE_SO_EXISTS).
Proof. exact ro_open_refused_while_so. Qed.
Print Assumptions C03_ro_open_refused_while_so.

(* C_Logout, C_CloseAllSessions, closing the last session: the token is public afterwards *)
Theorem C03_logout_public : forall (s : state) (h : N) (x : session),
  st_init s = true -> get_session s h = Some x -> tok_login (fst (step s (OLogout h))) (s_tok x) = LNone.
Proof. exact logout_public. Qed.
Print Assumptions C03_logout_public.

Theorem C03_closeall_public : forall (s : state) (k : N),
  st_init s = true -> amem k (st_tokens s) = true ->
  tok_login (fst (step s (OCloseAll (TTok k)))) k = LNone /\
  (forall p, In p (st_sessions (fst (step s (OCloseAll (TTok k))))) -> s_tok (snd p) <> k).
Proof. exact closeall_public. Qed.
Print Assumptions C03_closeall_public.

Theorem C03_close_last_public : forall (s : state) (h : N) (x : session),
  st_init s = true -> get_session s h = Some x -> other_session_on s (s_tok x) h = false ->
  tok_login (fst (step s (OClose h))) (s_tok x) = LNone.
Proof. exact close_last_public. Qed.
Print Assumptions C03_close_last_public.

Theorem C03_close_other_keeps_login : forall (s : state) (h : N) (x : session),
  st_init s = true -> get_session s h = Some x -> other_session_on s (s_tok x) h = true ->
  forall k, tok_login (fst (step s (OClose h))) k = tok_login s k.
Proof. exact close_other_keeps_login. Qed.
Print Assumptions C03_close_other_keeps_login.

(* a call that fails leaves sessions and login state (indeed the whole state) unchanged *)
Theorem C03_failure_changes_nothing : forall (s : state) (o : op) (rv : N),
  rv_of (snd (step s o)) = Some rv -> rv <> CKR_OK -> fst (step s o) = s.
Proof. exact fail_no_change. Qed.
Print Assumptions C03_failure_changes_nothing.

Theorem C03_inittoken_refused_with_session : forall (s : state) (k : N) (pin : option bytes) (label : N),
  st_init s = true -> amem k (st_tokens s) = true ->
  existsb (fun p => s_tok (snd p) =? k) (st_sessions s) = true ->
  step s (OInitToken (TTok k) pin label) = (s, RRv CKR_SESSION_EXISTS).
Proof. exact inittoken_refused_with_session. Qed.
Print Assumptions C03_inittoken_refused_with_session.

(* ---- the model's session / login decisions are the code's decisions: the return code of the model step equals the REGENERATED
   SoftHSM::C_Login composed with the regenerated Token::loginSO / Token::loginUser (gen/Gen_Entry.v, gen/Gen_Token.v) applied to the
   abstraction of the model state, and the guards of SessionManager::openSession are those of the model's C_OpenSession --------------- *)
Theorem C03_login_chain_is_code : forall (s : state) (h : N) (x : session) (t : token) (utype : N) (p : bytes),
  st_init s = true -> get_session s h = Some x -> alookup (s_tok x) (st_tokens s) = Some t ->
  rv_of (snd (step s (OLogin h utype (Some p)))) =
  Some (C_Login.app (login_env_with s h x utype 1 (blen p)
          (fun _ => Token_loginSO.app (token_loginso_env t p)) (fun _ => Token_loginUser.app (token_loginuser_env t p)))).
Proof. exact login_chain_is_code. Qed.
Print Assumptions C03_login_chain_is_code.
Theorem C03_opensession_model_is_code : forall (s : state) (k flags : N) (lr : bool),
  st_init s = true -> amem k (st_tokens s) = true ->
  match snd (step s (OOpen (TTok k) flags)) with
  | RRv rv => rv = SessionManager_openSession.app (opensession_env s k flags lr)
  | RHandle _ => SessionManager_openSession.app (opensession_env s k flags lr) = CKR_OK
  | _ => False
  end.
Proof. exact opensession_model_is_code. Qed.
Print Assumptions C03_opensession_model_is_code.
