(* Properties_C13 — wrap, unwrap and derive produce exactly the specified keys: the padding, cutting and
   parity logic of SoftHSM.cpp (RFC5652Pad/Unpad, RFC3394Pad, deriveSymmetric, crypto/odd.h) for every
   input; the block cipher is abstract (any E, D with D (E b) = b).  Statements only. *)
From Coq Require Import List NArith Bool.
From SoftHSM Require Import Defs Pad PadFacts Modes ModesFacts Gen_Parity Gen_Const Gen_Entry Derive DeriveFacts.
Import ListNotations.

(* PKCS#7 (RFC 5652) padding as used by CKM_AES_CBC_PAD / CKM_DES3_CBC_PAD wrapping *)
Theorem C13_unpad_pad : forall (bs : nat) (d : bytes), 1 <= bs <= 255 -> pkcs7_unpad bs (pkcs7_pad bs d) = Some d.
Proof. exact unpad_pad_gen. Qed.
Print Assumptions C13_unpad_pad.
(* only canonical paddings are accepted: whatever unpads is the padding of what comes out *)
Theorem C13_unpad_sound : forall (bs : nat) (p d : bytes), bs <= 255 -> pkcs7_unpad bs p = Some d -> p = pkcs7_pad bs d.
Proof. exact unpad_sound. Qed.
Print Assumptions C13_unpad_sound.
Theorem C13_unpad_empty_rejected : forall bs, pkcs7_unpad bs [] = None.
Proof. exact unpad_empty. Qed.
Print Assumptions C13_unpad_empty_rejected.
Theorem C13_unpad_misaligned_rejected : forall bs p, Nat.modulo (length p) bs <> 0 -> pkcs7_unpad bs p = None.
Proof. exact unpad_misaligned. Qed.
Print Assumptions C13_unpad_misaligned_rejected.

(* unwrapping what CBC-PAD wrapping produced under the caller's IV yields the same key value *)
Theorem C13_unwrap_wrap_cbc_pad : forall (bs : nat) (E D : bytes -> bytes),
  1 <= bs -> (forall b, length b = bs -> length (E b) = bs) -> (forall b, length b = bs -> D (E b) = b) ->
  forall (iv keydata : bytes), bs <= 255 -> length iv = bs ->
  exists w, wrap_cbc_pad bs E iv keydata = Some w /\ unwrap_cbc_pad bs D iv w = Some keydata.
Proof. exact unwrap_wrap. Qed.
Print Assumptions C13_unwrap_wrap_cbc_pad.
Theorem C13_wrap_cbc_pad_is_padded_cbc : forall (bs : nat) (E : bytes -> bytes), 1 <= bs ->
  forall iv keydata, wrap_cbc_pad bs E iv keydata = encrypt_all bs E CBC true iv keydata.
Proof. exact wrap_cbc_pad_spec. Qed.
Print Assumptions C13_wrap_cbc_pad_is_padded_cbc.

(* CKM_AES_KEY_WRAP carries no length: the value is zero-extended to a multiple of eight bytes *)
Theorem C13_rfc3394_pad_length : forall d : bytes,
  Nat.modulo (length (rfc3394_pad d)) 8 = 0 /\ length d <= length (rfc3394_pad d) < length d + 8.
Proof. exact rfc3394_pad_length. Qed.
Print Assumptions C13_rfc3394_pad_length.
Theorem C13_rfc3394_pad_prefix : forall d : bytes, firstn (length d) (rfc3394_pad d) = d.
Proof. exact rfc3394_pad_prefix. Qed.
Print Assumptions C13_rfc3394_pad_prefix.
Theorem C13_rfc3394_pad_zeros : forall d : bytes,
  skipn (length d) (rfc3394_pad d) = repeat 0%N (length (rfc3394_pad d) - length d).
Proof. exact rfc3394_pad_suffix_zero. Qed.
Print Assumptions C13_rfc3394_pad_zeros.

(* a derived key is the leading bytes of the mechanism's value, refused when too short ... *)
Theorem C13_derive_cut : forall (n : nat) (s v : bytes), derive_cut n s = Some v ->
  n <= length s /\ length v = n /\ v = firstn n s /\ (exists t, s = v ++ t).
Proof. exact derive_cut_some. Qed.
Print Assumptions C13_derive_cut.
Theorem C13_derive_too_short : forall n s, derive_cut n s = None <-> (length s < n)%nat.
Proof. exact derive_cut_none. Qed.
Print Assumptions C13_derive_too_short.
(* ... and parity-adjusted for DES keys: odd parity in every byte, top seven bits unchanged *)
Theorem C13_derive_des_parity : forall (n : nat) (s v : bytes), Forall (fun x => (x < 256)%N) s ->
  derive_value true n s = Some v ->
  Forall (fun y => N.odd (popcount y) = true /\ (y < 256)%N) v /\
  map (fun x => (x / 2)%N) v = map (fun x => (x / 2)%N) (firstn n s).
Proof. exact derive_value_des_parity. Qed.
Print Assumptions C13_derive_des_parity.

(* the table of crypto/odd.h, REGENERATED from the current source, is the arithmetic odd-parity function *)
Theorem C13_parity_table_is_odd_parity : gen_odd_parity = map odd_parity_byte all_bytes.
Proof. vm_compute. reflexivity. Qed.
Print Assumptions C13_parity_table_is_odd_parity.
Theorem C13_odd_parity_byte_spec : forall b : N, (b < 256)%N ->
  N.odd (popcount (odd_parity_byte b)) = true /\ (b / 2 = odd_parity_byte b / 2)%N.
Proof. exact odd_parity_byte_spec. Qed.
Print Assumptions C13_odd_parity_byte_spec.

(* ---- lengths of derived keys: the regenerated deriveDH / deriveECDH / deriveEDDSA / deriveSymmetric / checkKeyLength ---- *)
Local Open Scope N_scope.

Theorem C13_deriveDH_len : forall (e : deriveDH.env),
  (forall n, deriveDH.zz_rest e n = SENT + n) -> deriveDH.hv1_loop_rv e < SENT ->
  forall n, deriveDH.app e = SENT + n ->
  deriveDH.hv1_loop_returns e = false /\ derive_len_strict (deriveDH.keyType e) (deriveDH.hv1_byteLen e) = inr n.
Proof. exact deriveDH_len. Qed.
Print Assumptions C13_deriveDH_len.

Theorem C13_deriveSymmetric_len : forall (e : deriveSymmetric.env),
  (forall n, deriveSymmetric.zz_rest e n = SENT + n) -> deriveSymmetric.hv1_loop_rv e < SENT ->
  forall n, deriveSymmetric.app e = SENT + n ->
  deriveSymmetric.hv1_loop_returns e = false /\
  let m := deriveSymmetric.pMechanism_mechanism e in
  let req := deriveSymmetric.hv1_byteLen e in
  if (0 <? req) || (negb (m =? CKM_CONCATENATE_DATA_AND_BASE) && negb (m =? CKM_CONCATENATE_BASE_AND_DATA) && negb (m =? CKM_CONCATENATE_BASE_AND_KEY))
  then derive_len_strict (deriveSymmetric.keyType e) req = inr n
  else n = 0.        (* the concatenations without CKA_VALUE_LEN: the length is that of the concatenation, checked by checkKeyLength later *)
Proof. exact deriveSymmetric_len. Qed.
Print Assumptions C13_deriveSymmetric_len.

Theorem C13_deriveECDH_len : forall (e : deriveECDH.env),
  (forall n, deriveECDH.zz_rest e n = SENT + n) -> deriveECDH.hv1_loop_rv e < SENT ->
  forall n, deriveECDH.app e = SENT + n ->
  deriveECDH.hv1_loop_returns e = false /\ derive_len_lax (deriveECDH.keyType e) (deriveECDH.hv1_byteLen e) = inr n.
Proof. exact deriveECDH_len. Qed.
Print Assumptions C13_deriveECDH_len.

Theorem C13_deriveEDDSA_len : forall (e : deriveEDDSA.env),
  (forall n, deriveEDDSA.zz_rest e n = SENT + n) -> deriveEDDSA.hv1_loop_rv e < SENT ->
  forall n, deriveEDDSA.app e = SENT + n ->
  deriveEDDSA.hv1_loop_returns e = false /\ derive_len_lax (deriveEDDSA.keyType e) (deriveEDDSA.hv1_byteLen e) = inr n.
Proof. exact deriveEDDSA_len. Qed.
Print Assumptions C13_deriveEDDSA_len.

Theorem C13_checkKeyLength_spec : forall (kt n : N), gen_SoftHSM__checkKeyLength kt n = CKR_OK <-> len_fits kt n = true.
Proof. exact checkKeyLength_spec. Qed.
Print Assumptions C13_checkKeyLength_spec.

Theorem C13_strict_len_fits : forall (kt req n : N), derive_len_strict kt req = inr n -> len_fits kt n = true /\ n <> 0.
Proof. exact strict_len_fits. Qed.
Print Assumptions C13_strict_len_fits.

Theorem C13_agreed_value_fits : forall (kt req n : N) (secret v : bytes),
  derive_len_lax kt req = inr n -> agree_value kt n secret = Some v ->
  len_fits kt (N.of_nat (length v)) = true /\
  (kt = CKK_GENERIC_SECRET -> length v = if req =? 0 then length secret else N.to_nat req).
Proof. exact agreed_value_fits. Qed.
Print Assumptions C13_agreed_value_fits.

(* ---- the functions that create key objects, regenerated whole in trace mode (gen/Gen_Keys.v, coq/P11/KeyGenFacts.v) ---- *)
From SoftHSM Require Import Gen_Keys KeyGenSpec KeyGenFacts.

(* C_UnwrapKey regenerated whole (gen/Gen_Keys.v): what the key object it creates is given - value (encrypted when private),
   CKA_LOCAL / CKA_ALWAYS_SENSITIVE / CKA_NEVER_EXTRACTABLE false *)
Theorem C13_unwrapped_key_attributes : forall (e : C_UnwrapKey.env),
  (forall v, In (CKA_VALUE, v) (snd (C_UnwrapKey.app e)) -> C_UnwrapKey.extractObjectInformation_gives_isPrivate e <> 0 -> exists x, v = C_UnwrapKey.token_encrypt_out_value e x) /\
  (forall v, In (CKA_LOCAL, v) (snd (C_UnwrapKey.app e)) -> v = 0) /\
  (forall v, In (CKA_ALWAYS_SENSITIVE, v) (snd (C_UnwrapKey.app e)) -> v = 0) /\
  (forall v, In (CKA_NEVER_EXTRACTABLE, v) (snd (C_UnwrapKey.app e)) -> v = 0) /\
  (fst (C_UnwrapKey.app e) = 0 -> (C_UnwrapKey.extractObjectInformation_gives_objClass e = CKO_SECRET_KEY -> exists v, In (CKA_VALUE, v) (snd (C_UnwrapKey.app e))) /\
     (exists v, In (CKA_LOCAL, v) (snd (C_UnwrapKey.app e))) /\ (exists v, In (CKA_ALWAYS_SENSITIVE, v) (snd (C_UnwrapKey.app e))) /\
     (exists v, In (CKA_NEVER_EXTRACTABLE, v) (snd (C_UnwrapKey.app e)))).
Proof. exact unwrapped_key_attributes. Qed.
Print Assumptions C13_unwrapped_key_attributes.
