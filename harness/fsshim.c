/* fsshim.c — LD_PRELOAD shim over the file-system calls SoftHSM's object store makes (File.cpp, Directory.cpp),
 * restricted to paths below $FSSHIM_DIR.  Three services, all driven by the control file $FSSHIM_CTL that the test
 * driver rewrites between PKCS#11 calls (re-read at every intercepted call, so one library process can be armed
 * for exactly one call):
 *
 *     <gen> off                      nothing
 *     <gen> log                      append one line per intercepted call to $FSSHIM_LOG
 *     <gen> fail <func> <n>          the n-th call (1-based) of <func> since this <gen> was first seen fails
 *                                    (ENOSPC for writes/flushes/truncate/mkdir, EACCES for open, EIO otherwise)
 *     <gen> short fwrite <n>         the n-th fwrite takes half of its bytes and returns the short count (ENOSPC)
 *     <gen> pause <k>                the process sleeps just before the k-th intercepted call until the control file changes
 *     <gen> kill <k>                 the process dies (SIGKILL-like _exit(137), nothing flushed) just BEFORE the
 *                                    k-th intercepted call (any function) since <gen> was first seen; k counts the
 *                                    same events the log mode prints, so "log" enumerates the crash points
 *
 * Build: gcc -shared -fPIC -O1 -o fsshim.so fsshim.c -ldl
 */
#define _GNU_SOURCE
#include <dlfcn.h>
#include <errno.h>
#include <fcntl.h>
#include <stdarg.h>
#include <stdio.h>
#include <stdio_ext.h>
#include <stdlib.h>
#include <string.h>
#include <sys/stat.h>
#include <sys/types.h>
#include <unistd.h>

#define MAXFD 4096
static char tracked_fd[MAXFD];
#define MAXSTREAM 256
static FILE *tracked_stream[MAXSTREAM];

static const char *ctl_path, *log_path, *dir_prefix;
static long cur_gen = -1;
static char mode[16], ffunc[32];
static long fail_n, kill_k;
static long count_all, count_func;
static int inited;

static int (*real_open)(const char *, int, ...);
static FILE *(*real_fdopen)(int, const char *);
static int (*real_fclose)(FILE *);
static size_t (*real_fwrite)(const void *, size_t, size_t, FILE *);
static int (*real_fflush)(FILE *);
static int (*real_ftruncate)(int, off_t);
static int (*real_remove)(const char *);
static int (*real_unlink)(const char *);
static int (*real_mkdir)(const char *, mode_t);
static int (*real_rmdir)(const char *);
static ssize_t (*real_read)(int, void *, size_t);
static ssize_t (*real_write)(int, const void *, size_t);
static int (*real_close)(int);

static void init(void)
{
	if (inited) return;
	inited = 1;
	real_open = dlsym(RTLD_NEXT, "open");
	real_fdopen = dlsym(RTLD_NEXT, "fdopen");
	real_fclose = dlsym(RTLD_NEXT, "fclose");
	real_fwrite = dlsym(RTLD_NEXT, "fwrite");
	real_fflush = dlsym(RTLD_NEXT, "fflush");
	real_ftruncate = dlsym(RTLD_NEXT, "ftruncate");
	real_remove = dlsym(RTLD_NEXT, "remove");
	real_unlink = dlsym(RTLD_NEXT, "unlink");
	real_mkdir = dlsym(RTLD_NEXT, "mkdir");
	real_rmdir = dlsym(RTLD_NEXT, "rmdir");
	real_read = dlsym(RTLD_NEXT, "read");
	real_write = dlsym(RTLD_NEXT, "write");
	real_close = dlsym(RTLD_NEXT, "close");
	ctl_path = getenv("FSSHIM_CTL");
	log_path = getenv("FSSHIM_LOG");
	dir_prefix = getenv("FSSHIM_DIR");
}

static int under(const char *p)
{
	return dir_prefix && p && strncmp(p, dir_prefix, strlen(dir_prefix)) == 0;
}

static void read_ctl(void)
{
	char buf[128];
	if (!ctl_path) { strcpy(mode, "off"); return; }
	int fd = real_open(ctl_path, O_RDONLY);
	if (fd < 0) { strcpy(mode, "off"); return; }
	ssize_t n = real_read(fd, buf, sizeof buf - 1);
	real_close(fd);
	if (n <= 0) { strcpy(mode, "off"); return; }
	buf[n] = 0;
	long g = -1; char m[16] = "", f[32] = ""; long a = 0;
	int k = sscanf(buf, "%ld %15s %31s %ld", &g, m, f, &a);
	if (k < 2) { strcpy(mode, "off"); return; }
	if (g != cur_gen) { cur_gen = g; count_all = 0; count_func = 0; }
	strcpy(mode, m);
	ffunc[0] = 0; fail_n = 0; kill_k = 0;
	if ((!strcmp(m, "fail") || !strcmp(m, "short")) && k >= 4) { strcpy(ffunc, f); fail_n = a; }
	if ((!strcmp(m, "kill") || !strcmp(m, "pause")) && k >= 3) kill_k = atol(f);
}

/* one intercepted event; returns 1 when the call has to fail */
static int event(const char *func, const char *what)
{
	read_ctl();
	if (!strcmp(mode, "off")) return 0;
	count_all++;
	if (!strcmp(mode, "log") && log_path) {
		int fd = real_open(log_path, O_WRONLY | O_APPEND | O_CREAT, 0600);
		if (fd >= 0) {
			char line[600];
			int n = snprintf(line, sizeof line, "%ld %s %s\n", count_all, func, what ? what : "");
			real_write(fd, line, n);
			real_close(fd);
		}
		return 0;
	}
	if (!strcmp(mode, "kill") && count_all == kill_k) _exit(137);
	if (!strcmp(mode, "pause") && count_all == kill_k) {
		/* wait until the driver rewrites the control file (another generation), at most 20 s */
		long g0 = cur_gen;
		for (int i = 0; i < 20000 && cur_gen == g0; i++) { usleep(1000); read_ctl(); }
		return 0;
	}
	if ((!strcmp(mode, "fail") || !strcmp(mode, "short")) && !strcmp(ffunc, func)) {
		count_func++;
		if (count_func == fail_n) return !strcmp(mode, "short") ? 2 : 1;
	}
	return 0;
}

static int stream_tracked(FILE *f)
{
	for (int i = 0; i < MAXSTREAM; i++) if (tracked_stream[i] == f) return 1;
	return 0;
}

int open(const char *path, int flags, ...)
{
	init();
	mode_t m = 0;
	if (flags & O_CREAT) { va_list ap; va_start(ap, flags); m = va_arg(ap, mode_t); va_end(ap); }
	if (under(path)) {
		if (event("open", path)) { errno = EACCES; return -1; }
		int fd = real_open(path, flags, m);
		if (fd >= 0 && fd < MAXFD) tracked_fd[fd] = 1;
		return fd;
	}
	return real_open(path, flags, m);
}

int open64(const char *path, int flags, ...)
{
	init();
	mode_t m = 0;
	if (flags & O_CREAT) { va_list ap; va_start(ap, flags); m = va_arg(ap, mode_t); va_end(ap); }
	if (under(path)) {
		if (event("open", path)) { errno = EACCES; return -1; }
		int fd = real_open(path, flags, m);
		if (fd >= 0 && fd < MAXFD) tracked_fd[fd] = 1;
		return fd;
	}
	return real_open(path, flags, m);
}

FILE *fdopen(int fd, const char *md)
{
	init();
	FILE *f = real_fdopen(fd, md);
	if (f && fd >= 0 && fd < MAXFD && tracked_fd[fd]) {
		for (int i = 0; i < MAXSTREAM; i++) if (!tracked_stream[i]) { tracked_stream[i] = f; break; }
	}
	return f;
}

int fclose(FILE *f)
{
	init();
	int t = 0;
	for (int i = 0; i < MAXSTREAM; i++) if (tracked_stream[i] == f) { tracked_stream[i] = NULL; t = 1; }
	if (t) {
		int fd = fileno(f);
		if (fd >= 0 && fd < MAXFD) tracked_fd[fd] = 0;
		event("fclose", "");        /* a crash point; never made to fail */
	}
	return real_fclose(f);
}

size_t fwrite(const void *p, size_t sz, size_t n, FILE *f)
{
	init();
	if (stream_tracked(f)) {
		char what[32];
		snprintf(what, sizeof what, "%zu", sz * n);
		int e = event("fwrite", what);
		if (e == 2) {
			/* short write: half of the bytes are taken, the count says so */
			size_t half = (sz * n) / 2;
			size_t w = real_fwrite(p, 1, half, f);
			errno = ENOSPC;
			return sz ? w / sz : 0;
		}
		if (e) { errno = ENOSPC; return 0; }
	}
	return real_fwrite(p, sz, n, f);
}

int fflush(FILE *f)
{
	init();
	if (f && stream_tracked(f) && event("fflush", "")) {
		/* the buffered bytes are lost, as after a failed write(2) */
		__fpurge(f);
		errno = ENOSPC;
		return EOF;
	}
	return real_fflush(f);
}

int ftruncate(int fd, off_t len)
{
	init();
	if (fd >= 0 && fd < MAXFD && tracked_fd[fd] && event("ftruncate", "")) { errno = ENOSPC; return -1; }
	return real_ftruncate(fd, len);
}

int ftruncate64(int fd, off_t len)
{
	init();
	if (fd >= 0 && fd < MAXFD && tracked_fd[fd] && event("ftruncate", "")) { errno = ENOSPC; return -1; }
	return real_ftruncate(fd, len);
}

int remove(const char *path)
{
	init();
	if (under(path) && event("remove", path)) { errno = EIO; return -1; }
	return real_remove(path);
}

int unlink(const char *path)
{
	init();
	if (under(path) && event("remove", path)) { errno = EIO; return -1; }
	return real_unlink(path);
}

int mkdir(const char *path, mode_t m)
{
	init();
	if (under(path) && event("mkdir", path)) { errno = ENOSPC; return -1; }
	return real_mkdir(path, m);
}

/* lstat / stat of an entry of the token directory: an event only when FSSHIM_LSTAT is set (the numbering of the events
 * of all other streams stays what it was); never made to fail, only a point where the process can be paused / killed */
static int (*real_lstat)(const char *, struct stat *);
int lstat(const char *path, struct stat *st)
{
	init();
	if (!real_lstat) real_lstat = dlsym(RTLD_NEXT, "lstat");
	if (getenv("FSSHIM_LSTAT") && under(path)) event("lstat", path);
	return real_lstat(path, st);
}

int rmdir(const char *path)
{
	init();
	if (under(path) && event("rmdir", path)) { errno = EIO; return -1; }
	return real_rmdir(path);
}
