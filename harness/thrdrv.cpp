// thrdrv — two threads, two sessions, one call each, under a controlled schedule (C18).
//
//   thrdrv <libsofthsm2.so> <scenario> <k>
//
// C_Initialize gets application mutex callbacks.  Thread A's call under test is stopped just before its k-th
// LockMutex call (k >= 1), thread B then runs its whole call (if B blocks on a mutex A holds, A is released after
// 150 ms and both finish), A resumes.  k = 0: both threads run freely.  k = -1 / -2: no concurrency at all, A then B /
// B then A (the sequential outcomes the concurrent one is compared with).  Output: one line
//   locks=<LockMutex calls of A's call> A=<rv>:<out> B=<rv>:<out> final=<label:count,...> dup=<0|1>
// or "TIMEOUT" (deadlock: nothing finished within 20 s).  SOFTHSM2_CONF must point at an empty token directory.
#include <dlfcn.h>
#include <pthread.h>
#include <unistd.h>
#include <cstdio>
#include <cstdlib>
#include <cstring>
#include <string>
#include <vector>
#include <map>
#include <set>
#include <algorithm>
#include "cryptoki.h"

static CK_FUNCTION_LIST_PTR F;
static pthread_t thrA;
static volatile bool armed = false;          // A is inside its call under test
static volatile long lockCount = 0, pauseAt = 0;
static pthread_mutex_t schedM = PTHREAD_MUTEX_INITIALIZER;
static pthread_cond_t schedC = PTHREAD_COND_INITIALIZER;
static volatile bool aPaused = false, bDone = false, aMayGo = false, aDone = false;
// a two-phase B (closelast_openlogin): between its calls B lets A finish - k > 0: release A and wait for it; k = -3: run A's
// call here (the third sequential order B1;A;B2); otherwise nothing
static void (*midB)() = NULL;

static CK_RV cbCreate(CK_VOID_PTR_PTR pp) { pthread_mutex_t *m = new pthread_mutex_t; pthread_mutex_init(m, NULL); *pp = m; return CKR_OK; }
static CK_RV cbDestroy(CK_VOID_PTR p) { pthread_mutex_destroy((pthread_mutex_t *)p); delete (pthread_mutex_t *)p; return CKR_OK; }
static CK_RV cbUnlock(CK_VOID_PTR p) { return pthread_mutex_unlock((pthread_mutex_t *)p) == 0 ? CKR_OK : CKR_GENERAL_ERROR; }
static CK_RV cbLock(CK_VOID_PTR p)
{
	if (armed && pthread_equal(pthread_self(), thrA)) {
		long n = __sync_add_and_fetch(&lockCount, 1);
		if (pauseAt > 0 && n == pauseAt) {
			pthread_mutex_lock(&schedM);
			aPaused = true;
			pthread_cond_broadcast(&schedC);
			struct timespec ts; clock_gettime(CLOCK_REALTIME, &ts);
			ts.tv_sec += 20;
			while (!aMayGo) if (pthread_cond_timedwait(&schedC, &schedM, &ts) != 0) break;
			pthread_mutex_unlock(&schedM);
		}
	}
	return pthread_mutex_lock((pthread_mutex_t *)p) == 0 ? CKR_OK : CKR_GENERAL_ERROR;
}

typedef std::vector<unsigned char> Bytes;
static std::string hex(const Bytes &b) { std::string s; char t[4]; for (size_t i = 0; i < b.size(); i++) { snprintf(t, sizeof t, "%02x", b[i]); s += t; } return s.empty() ? "." : s; }

static CK_SESSION_HANDLE openS(bool login = true)
{
	CK_SLOT_ID slots[8]; CK_ULONG n = 8; F->C_GetSlotList(CK_TRUE, slots, &n);
	CK_SLOT_ID slot = slots[0];
	for (CK_ULONG i = 0; i < n; i++) { CK_TOKEN_INFO ti; if (F->C_GetTokenInfo(slots[i], &ti) == CKR_OK && (ti.flags & CKF_TOKEN_INITIALIZED)) slot = slots[i]; }
	CK_SESSION_HANDLE s = 0;
	F->C_OpenSession(slot, CKF_SERIAL_SESSION | CKF_RW_SESSION, NULL, NULL, &s);
	if (login) F->C_Login(s, CKU_USER, (CK_UTF8CHAR_PTR)"user1234", 8);
	return s;
}
static CK_OBJECT_HANDLE mkObj(CK_SESSION_HANDLE s, const char *label, bool token, bool priv, const char *value, bool key = false)
{
	CK_OBJECT_CLASS cls = key ? CKO_SECRET_KEY : CKO_DATA; CK_KEY_TYPE kt = CKK_GENERIC_SECRET; CK_BBOOL t = token, p = priv, yes = CK_TRUE, no = CK_FALSE;
	std::vector<CK_ATTRIBUTE> a;
	a.push_back({CKA_CLASS, &cls, sizeof cls}); a.push_back({CKA_TOKEN, &t, 1}); a.push_back({CKA_PRIVATE, &p, 1});
	a.push_back({CKA_LABEL, (void *)label, strlen(label)}); a.push_back({CKA_VALUE, (void *)value, strlen(value)});
	if (key) { a.push_back({CKA_KEY_TYPE, &kt, sizeof kt}); a.push_back({CKA_SIGN, &yes, 1}); a.push_back({CKA_SENSITIVE, &no, 1}); a.push_back({CKA_EXTRACTABLE, &yes, 1}); }
	CK_OBJECT_HANDLE h = 0;
	F->C_CreateObject(s, &a[0], a.size(), &h);
	return h;
}
static std::string labelOf(CK_SESSION_HANDLE s, CK_OBJECT_HANDLE h)
{
	char buf[64]; CK_ATTRIBUTE a = {CKA_LABEL, buf, sizeof buf};
	if (F->C_GetAttributeValue(s, h, &a, 1) != CKR_OK || a.ulValueLen > sizeof buf) return "?";
	return std::string(buf, a.ulValueLen);
}
static std::string valueOf(CK_SESSION_HANDLE s, CK_OBJECT_HANDLE h, CK_RV *rv)
{
	unsigned char buf[128]; CK_ATTRIBUTE a = {CKA_VALUE, buf, sizeof buf};
	*rv = F->C_GetAttributeValue(s, h, &a, 1);
	if (*rv != CKR_OK || a.ulValueLen > sizeof buf) return ".";
	return hex(Bytes(buf, buf + a.ulValueLen));
}
// label:handle pairs of everything a session finds
static std::string findAll(CK_SESSION_HANDLE s, CK_RV *rv, std::map<std::string, std::vector<CK_OBJECT_HANDLE> > *out = NULL)
{
	*rv = F->C_FindObjectsInit(s, NULL, 0);
	if (*rv != CKR_OK) return ".";
	CK_OBJECT_HANDLE hs[64]; CK_ULONG n = 0;
	*rv = F->C_FindObjects(s, hs, 64, &n);
	F->C_FindObjectsFinal(s);
	std::vector<std::string> v;
	for (CK_ULONG i = 0; i < n; i++) { std::string l = labelOf(s, hs[i]); v.push_back(l); if (out) (*out)[l].push_back(hs[i]); }
	std::sort(v.begin(), v.end());
	std::string r; for (size_t i = 0; i < v.size(); i++) { if (i) r += ","; r += v[i]; }
	return r.empty() ? "." : r;
}

struct Ctx { CK_SESSION_HANDLE sa, sb; CK_OBJECT_HANDLE x, y, p1, p2, key; std::map<std::string, std::vector<CK_OBJECT_HANDLE> > fa, fb; };
struct Res { CK_RV rv; std::string out; };
typedef Res (*OpFn)(Ctx &);

static Res opFindA(Ctx &c) { Res r; r.out = findAll(c.sa, &r.rv, &c.fa); return r; }
static Res opFindB(Ctx &c) { Res r; r.out = findAll(c.sb, &r.rv, &c.fb); return r; }
static Res opGetP1(Ctx &c) { Res r; r.out = valueOf(c.sa, c.p1, &r.rv); return r; }
static Res opGetP2(Ctx &c) { Res r; r.out = valueOf(c.sb, c.p2, &r.rv); return r; }
static Res opGetXb(Ctx &c) { Res r; r.out = valueOf(c.sb, c.x, &r.rv); return r; }
static Res opCreateA(Ctx &c) { Res r; CK_OBJECT_HANDLE h = mkObj(c.sa, "newA", true, false, "aaaa"); r.rv = h ? CKR_OK : CKR_GENERAL_ERROR; r.out = "."; return r; }
static Res opCreateB(Ctx &c) { Res r; CK_OBJECT_HANDLE h = mkObj(c.sb, "newB", true, true, "bbbb"); r.rv = h ? CKR_OK : CKR_GENERAL_ERROR; r.out = "."; return r; }
static Res opCreateSessA(Ctx &c) { Res r; CK_OBJECT_HANDLE h = mkObj(c.sa, "sessA", false, false, "aaaa"); r.rv = h ? CKR_OK : CKR_GENERAL_ERROR; r.out = "."; return r; }
static Res opDestroyXa(Ctx &c) { Res r; r.rv = F->C_DestroyObject(c.sa, c.x); r.out = "."; return r; }
static Res opSetLabelXa(Ctx &c) { Res r; CK_ATTRIBUTE a = {CKA_LABEL, (void *)"Xnew", 4}; r.rv = F->C_SetAttributeValue(c.sa, c.x, &a, 1); r.out = "."; return r; }
static Res opLabelXb(Ctx &c) { Res r; r.rv = CKR_OK; r.out = labelOf(c.sb, c.x); return r; }
static Res opLogoutA(Ctx &c) { Res r; r.rv = F->C_Logout(c.sa); r.out = "."; return r; }
static Res opOpenA(Ctx &c) { Res r; CK_SESSION_HANDLE s = openS(false); r.rv = s ? CKR_OK : CKR_GENERAL_ERROR; r.out = "."; return r; }
static Res opCloseB(Ctx &c) { Res r; r.rv = F->C_CloseSession(c.sb); r.out = "."; return r; }
static Res hmac(CK_SESSION_HANDLE s, CK_OBJECT_HANDLE k, const char *msg)
{
	Res r; CK_MECHANISM m = {CKM_SHA256_HMAC, NULL, 0};
	r.rv = F->C_SignInit(s, &m, k);
	if (r.rv != CKR_OK) { r.out = "."; return r; }
	unsigned char sig[64]; CK_ULONG n = sizeof sig;
	r.rv = F->C_Sign(s, (CK_BYTE_PTR)msg, strlen(msg), sig, &n);
	r.out = r.rv == CKR_OK ? hex(Bytes(sig, sig + n)) : ".";
	return r;
}
static Res opSignA(Ctx &c) { return hmac(c.sa, c.key, "message of thread A"); }
static Res opSignB(Ctx &c) { return hmac(c.sb, c.key, "message of thread B"); }
static Res opGenA(Ctx &c)
{
	Res r; CK_MECHANISM m = {CKM_AES_KEY_GEN, NULL, 0}; CK_ULONG len = 16; CK_BBOOL t = CK_TRUE, f = CK_FALSE;
	CK_ATTRIBUTE a[] = {{CKA_VALUE_LEN, &len, sizeof len}, {CKA_TOKEN, &t, 1}, {CKA_PRIVATE, &f, 1}, {CKA_LABEL, (void *)"genA", 4}};
	CK_OBJECT_HANDLE h = 0; r.rv = F->C_GenerateKey(c.sa, &m, a, 4, &h); r.out = "."; return r;
}
static Res opGenB(Ctx &c)
{
	Res r; CK_MECHANISM m = {CKM_AES_KEY_GEN, NULL, 0}; CK_ULONG len = 16; CK_BBOOL t = CK_TRUE, f = CK_FALSE;
	CK_ATTRIBUTE a[] = {{CKA_VALUE_LEN, &len, sizeof len}, {CKA_TOKEN, &t, 1}, {CKA_PRIVATE, &f, 1}, {CKA_LABEL, (void *)"genB", 4}};
	CK_OBJECT_HANDLE h = 0; r.rv = F->C_GenerateKey(c.sb, &m, a, 4, &h); r.out = "."; return r;
}

struct Scenario { const char *name; OpFn a, b; bool reinit; };
// A closes the two sessions there are (the second close is that of the token's LAST session: the token logs out);
// B opens a session of its own, logs in (or is told the user already is), and creates a private session object
static Res opCloseLastA(Ctx &c) { Res r; F->C_CloseSession(c.sb); r.rv = F->C_CloseSession(c.sa); r.out = "."; return r; }
static Res opOpenLoginCreateB(Ctx &c)
{
	Res r; r.out = ".";
	CK_SESSION_HANDLE s = openS(false);
	if (!s) { r.rv = CKR_GENERAL_ERROR; return r; }
	CK_RV lv = F->C_Login(s, CKU_USER, (CK_UTF8CHAR_PTR)"user1234", 8);
	if (lv != CKR_OK && lv != CKR_USER_ALREADY_LOGGED_IN) { r.rv = lv; return r; }
	if (midB) midB();
	CK_OBJECT_HANDLE h = mkObj(s, "newB", false, true, "bbbb");
	// the session state B sees after its own login: 3 = CKS_RW_USER_FUNCTIONS
	CK_SESSION_INFO si; memset(&si, 0, sizeof si); F->C_GetSessionInfo(s, &si);
	r.rv = h ? CKR_OK : CKR_USER_NOT_LOGGED_IN;
	char b[32]; snprintf(b, sizeof b, "state%lu", (unsigned long)si.state); r.out = b;
	return r;
}

static Scenario SC[] = {
	{"find_find_unregistered", opFindA, opFindB, true},      // token objects without a handle in this process yet
	{"find_find", opFindA, opFindB, false},
	{"getattr_private_private", opGetP1, opGetP2, false},
	{"create_create", opCreateA, opCreateB, false},
	{"create_find", opCreateA, opFindB, false},
	{"createsession_find", opCreateSessA, opFindB, false},
	{"destroy_getattr", opDestroyXa, opGetXb, false},
	{"setattr_getlabel", opSetLabelXa, opLabelXb, false},
	{"logout_getprivate", opLogoutA, opGetP2, false},
	{"open_close", opOpenA, opCloseB, false},
	{"sign_sign", opSignA, opSignB, false},
	{"generate_generate", opGenA, opGenB, false},
	{"find_create", opFindA, opCreateB, false},
	{"getattr_destroy", opGetP1, opCloseB, false},
	{"closelast_openlogin", opCloseLastA, opOpenLoginCreateB, false},
};

// ---- stress mode: thrdrv <lib> stress <threads> <iterations>
// every thread has its own session and only READS objects that nobody changes: private and public data values, a search,
// AES-ECB encryption under a private token key, an HMAC.  With locking enabled every call must succeed with the bytes the
// first (sequential) run gave; a crash kills the process (the caller sees the signal).
static CK_OBJECT_HANDLE stressKey = 0;
static std::string stressExpect[5];
struct StressArg { int id; long iters; std::string bad; long calls; };
static std::string stressOne(CK_SESSION_HANDLE s, Ctx &c, int what)
{
	CK_RV rv = CKR_OK; std::string out;
	switch (what) {
	case 0: out = valueOf(s, c.p1, &rv); break;
	case 1: out = valueOf(s, c.p2, &rv); break;
	case 2: out = valueOf(s, c.x, &rv); break;
	case 3: out = findAll(s, &rv); break;
	default: {
		CK_MECHANISM m = {CKM_AES_ECB, NULL, 0};
		rv = F->C_EncryptInit(s, &m, stressKey);
		if (rv == CKR_OK) {
			unsigned char in[32], o[64]; memset(in, 0x5a, sizeof in); CK_ULONG ol = sizeof o;
			rv = F->C_Encrypt(s, in, sizeof in, o, &ol);
			if (rv == CKR_OK) out = hex(Bytes(o, o + ol));
		}
	}
	}
	char b[32]; snprintf(b, sizeof b, "0x%lx:", (unsigned long)rv);
	return std::string(b) + out;
}
static Ctx *stressCtx;
static void *stressThread(void *p)
{
	StressArg *a = (StressArg *)p;
	CK_SESSION_HANDLE s = openS();
	for (long i = 0; i < a->iters && a->bad.empty(); i++) {
		int what = (int)((i + a->id) % 5);
		std::string r = stressOne(s, *stressCtx, what);
		a->calls++;
		if (r != stressExpect[what]) { char b[64]; snprintf(b, sizeof b, "thread %d call %ld kind %d: ", a->id, i, what); a->bad = std::string(b) + r + " expected " + stressExpect[what]; }
	}
	return NULL;
}

// ---- churn mode: thrdrv <lib> churn <threads> <iterations>
// half of the threads create and destroy session objects of their own, the other half search and read labels; the answers
// are not judged (objects come and go), the process must survive and finish
static void *churnThread(void *p)
{
	StressArg *a = (StressArg *)p;
	CK_SESSION_HANDLE s = openS();
	for (long i = 0; i < a->iters; i++) {
		if (a->id % 2 == 0) {
			char lab[32]; snprintf(lab, sizeof lab, "c%d_%ld", a->id, i);
			CK_OBJECT_HANDLE h = mkObj(s, lab, false, (i % 3) == 0, "churn");
			if (h) { labelOf(s, h); F->C_DestroyObject(s, h); }
		} else {
			CK_RV rv; std::map<std::string, std::vector<CK_OBJECT_HANDLE> > m;
			findAll(s, &rv, &m);
		}
		a->calls++;
	}
	return NULL;
}

static Ctx C;
static Scenario *S;
static Res RA, RB;
static void *runA(void *) { armed = true; RA = S->a(C); armed = false; pthread_mutex_lock(&schedM); aPaused = true; aDone = true; pthread_cond_broadcast(&schedC); pthread_mutex_unlock(&schedM); return NULL; }
static void midRelease()
{
	pthread_mutex_lock(&schedM);
	aMayGo = true;
	pthread_cond_broadcast(&schedC);
	struct timespec ts; clock_gettime(CLOCK_REALTIME, &ts); ts.tv_sec += 10;
	while (!aDone) if (pthread_cond_timedwait(&schedC, &schedM, &ts) != 0) break;
	pthread_mutex_unlock(&schedM);
}
static void midRunA() { RA = S->a(C); }
static void *runB(void *) { RB = S->b(C); pthread_mutex_lock(&schedM); bDone = true; pthread_cond_broadcast(&schedC); pthread_mutex_unlock(&schedM); return NULL; }
static void *watchdog(void *) { sleep(25); printf("TIMEOUT\n"); fflush(stdout); _exit(3); return NULL; }

int main(int argc, char **argv)
{
	if (argc < 4) { fprintf(stderr, "usage: thrdrv <lib> <scenario> <k>\n"); return 2; }
	void *lib = dlopen(argv[1], RTLD_NOW);
	if (!lib) { fprintf(stderr, "%s\n", dlerror()); return 2; }
	CK_C_GetFunctionList gfl = (CK_C_GetFunctionList)dlsym(lib, "C_GetFunctionList");
	gfl(&F);
	S = NULL;
	for (size_t i = 0; i < sizeof SC / sizeof SC[0]; i++) if (!strcmp(SC[i].name, argv[2])) S = &SC[i];
	bool stressos = !strcmp(argv[2], "stressos");      // same, but with CKF_OS_LOCKING_OK after an unlocked C_Initialize(NULL) / C_Finalize cycle
	bool churn = !strcmp(argv[2], "churn");
	bool stress = !strcmp(argv[2], "stress") || stressos || churn;
	if (stress) S = &SC[0];
	if (!S) { printf("unknown-scenario\n"); return 2; }
	long k = atol(argv[3]);
	pthread_t wd; pthread_create(&wd, NULL, watchdog, NULL);
	CK_C_INITIALIZE_ARGS ia; memset(&ia, 0, sizeof ia);
	ia.CreateMutex = cbCreate; ia.DestroyMutex = cbDestroy; ia.LockMutex = cbLock; ia.UnlockMutex = cbUnlock; ia.flags = 0;
	if (stressos) {
		// the application first used the library single-threaded (no locking asked for), finalised it, and now asks for OS locking
		if (F->C_Initialize(NULL) != CKR_OK) { printf("init-failed\n"); return 2; }
		F->C_Finalize(NULL);
		memset(&ia, 0, sizeof ia);
		ia.flags = CKF_OS_LOCKING_OK;
	}
	if (F->C_Initialize(&ia) != CKR_OK) { printf("init-failed\n"); return 2; }
	// set-up: token, PINs, objects
	{
		CK_SLOT_ID slots[8]; CK_ULONG n = 8; F->C_GetSlotList(CK_FALSE, slots, &n);
		CK_UTF8CHAR label[32]; memset(label, ' ', 32); memcpy(label, "thr", 3);
		F->C_InitToken(slots[n - 1], (CK_UTF8CHAR_PTR)"sopin123", 8, label);
		CK_SLOT_ID s2[8]; CK_ULONG n2 = 8; F->C_GetSlotList(CK_TRUE, s2, &n2);
		CK_SESSION_HANDLE s = 0; CK_SLOT_ID slot = s2[0];
		for (CK_ULONG i = 0; i < n2; i++) { CK_TOKEN_INFO ti; if (F->C_GetTokenInfo(s2[i], &ti) == CKR_OK && (ti.flags & CKF_TOKEN_INITIALIZED)) slot = s2[i]; }
		F->C_OpenSession(slot, CKF_SERIAL_SESSION | CKF_RW_SESSION, NULL, NULL, &s);
		F->C_Login(s, CKU_SO, (CK_UTF8CHAR_PTR)"sopin123", 8);
		F->C_InitPIN(s, (CK_UTF8CHAR_PTR)"user1234", 8);
		F->C_Logout(s);
		F->C_Login(s, CKU_USER, (CK_UTF8CHAR_PTR)"user1234", 8);
		mkObj(s, "X", true, false, "xvalue");
		mkObj(s, "Y", true, false, "yvalue");
		mkObj(s, "P1", true, true, "secret-one");
		mkObj(s, "P2", true, true, "secret-two");
		mkObj(s, "K", true, false, "0123456789abcdef0123456789abcdef", true);
		F->C_CloseSession(s);
		if (S->reinit && !stress) { F->C_Finalize(NULL); if (F->C_Initialize(&ia) != CKR_OK) { printf("reinit-failed\n"); return 2; } }
	}
	C.sa = openS(); C.sb = openS();
	if (stress || !S->reinit) {
		CK_RV rv; std::map<std::string, std::vector<CK_OBJECT_HANDLE> > m;
		findAll(C.sa, &rv, &m);
		C.x = m["X"].empty() ? 0 : m["X"][0]; C.y = m["Y"].empty() ? 0 : m["Y"][0];
		C.p1 = m["P1"].empty() ? 0 : m["P1"][0]; C.p2 = m["P2"].empty() ? 0 : m["P2"][0]; C.key = m["K"].empty() ? 0 : m["K"][0];
	}
	if (churn) {
		int nt = (int)k; long iters = argc > 4 ? atol(argv[4]) : 200;
		std::vector<pthread_t> th(nt); std::vector<StressArg> args(nt);
		for (int i = 0; i < nt; i++) { args[i].id = i; args[i].iters = iters; args[i].calls = 0; }
		for (int i = 0; i < nt; i++) pthread_create(&th[i], NULL, churnThread, &args[i]);
		for (int i = 0; i < nt; i++) pthread_join(th[i], NULL);
		long calls = 0;
		for (int i = 0; i < nt; i++) calls += args[i].calls;
		printf("stress ok calls=%ld\n", calls);
		fflush(stdout);
		_exit(0);
	}
	if (stress) {
		// a private token AES key for the encryptions
		{
			CK_OBJECT_CLASS cls = CKO_SECRET_KEY; CK_KEY_TYPE kt = CKK_AES; CK_BBOOL t = CK_TRUE;
			unsigned char kv[16]; memset(kv, 0x11, sizeof kv);
			CK_ATTRIBUTE tp[] = {{CKA_CLASS, &cls, sizeof cls}, {CKA_KEY_TYPE, &kt, sizeof kt}, {CKA_TOKEN, &t, sizeof t}, {CKA_PRIVATE, &t, sizeof t},
			                     {CKA_ENCRYPT, &t, sizeof t}, {CKA_VALUE, kv, sizeof kv}, {CKA_LABEL, (void *)"PK", 2}};
			CK_RV crv = F->C_CreateObject(C.sa, tp, sizeof tp / sizeof tp[0], &stressKey);
			if (crv != CKR_OK) { printf("stress setup-failed create 0x%lx\n", (unsigned long)crv); fflush(stdout); _exit(2); }
		}
		for (int w = 0; w < 5; w++) stressExpect[w] = stressOne(C.sa, C, w);
		for (int w = 0; w < 5; w++) if (stressExpect[w].compare(0, 4, "0x0:") != 0) { printf("stress setup-failed %d %s\n", w, stressExpect[w].c_str()); fflush(stdout); _exit(2); }
		stressCtx = &C;
		int nt = (int)k; long iters = argc > 4 ? atol(argv[4]) : 200;
		std::vector<pthread_t> th(nt); std::vector<StressArg> args(nt);
		for (int i = 0; i < nt; i++) { args[i].id = i; args[i].iters = iters; args[i].calls = 0; }
		for (int i = 0; i < nt; i++) pthread_create(&th[i], NULL, stressThread, &args[i]);
		for (int i = 0; i < nt; i++) pthread_join(th[i], NULL);
		long calls = 0; std::string bad;
		for (int i = 0; i < nt; i++) { calls += args[i].calls; if (bad.empty()) bad = args[i].bad; }
		if (bad.empty()) printf("stress ok calls=%ld\n", calls); else printf("stress bad %s\n", bad.c_str());
		fflush(stdout);
		_exit(0);
	}
	thrA = pthread_self();
	if (k == -1) { RA = S->a(C); RB = S->b(C); }
	else if (k == -2) { RB = S->b(C); RA = S->a(C); }
	else if (k == -3) { midB = midRunA; RB = S->b(C); if (midB == midRunA && RA.out.empty()) RA = S->a(C); }
	else {
		pauseAt = k;
		if (k > 0) midB = midRelease;
		pthread_t ta, tb;
		pthread_mutex_lock(&schedM);
		pthread_create(&ta, NULL, runA, NULL);
		thrA = ta;
		if (k > 0) {
			struct timespec ts; clock_gettime(CLOCK_REALTIME, &ts); ts.tv_sec += 10;
			while (!aPaused) if (pthread_cond_timedwait(&schedC, &schedM, &ts) != 0) break;     // A reached its pause point (or finished)
		}
		pthread_create(&tb, NULL, runB, NULL);
		if (k > 0) {
			struct timespec ts; clock_gettime(CLOCK_REALTIME, &ts);
			ts.tv_nsec += 150000000L; if (ts.tv_nsec >= 1000000000L) { ts.tv_sec++; ts.tv_nsec -= 1000000000L; }
			while (!bDone) if (pthread_cond_timedwait(&schedC, &schedM, &ts) != 0) break;       // B ran through, or blocks on a mutex A holds
		}
		aMayGo = true;
		pthread_cond_broadcast(&schedC);
		pthread_mutex_unlock(&schedM);
		pthread_join(ta, NULL); pthread_join(tb, NULL);
	}
	// final state as a fresh session sees it; a label with two different handles = a duplicate registration
	CK_SESSION_HANDLE sf = openS();
	CK_RV rv; std::map<std::string, std::vector<CK_OBJECT_HANDLE> > fin;
	std::string all = findAll(sf, &rv, &fin);
	bool dup = false;
	std::set<CK_OBJECT_HANDLE> seen;
	for (auto &kv : fin) for (auto h : kv.second) { if (seen.count(h)) dup = true; seen.insert(h); }
	// the handles A and B were given for the same label must agree with each other and with the final ones
	for (auto &kv : C.fa) { auto it = C.fb.find(kv.first); if (it != C.fb.end() && !kv.second.empty() && !it->second.empty() && kv.second[0] != it->second[0]) dup = true; }
	for (auto &kv : C.fa) { auto it = fin.find(kv.first); if (it != fin.end() && !kv.second.empty() && !it->second.empty() && kv.second[0] != it->second[0]) dup = true; }
	printf("locks=%ld A=0x%lx:%s B=0x%lx:%s final=%s dup=%d\n", lockCount, (unsigned long)RA.rv, RA.out.c_str(), (unsigned long)RB.rv, RB.out.c_str(), all.c_str(), dup ? 1 : 0);
	fflush(stdout);
	_exit(0);
}
