// p11drv — line-oriented PKCS#11 driver for the correspondence checks (K-api and friends).
//
//   p11drv <libsofthsm2.so> <opsfile>      (SOFTHSM2_CONF selects the token directory)
//
// Every line of <opsfile> is one operation; one result line is printed per operation:
//   <lineno> <op> rv=<hex> [key=value ...]
// Lines may start with "@<p>" to route the op to worker process <p> (default 0). Each worker is a
// forked child that dlopen()s the library itself, so `newproc` (kill + respawn a worker) is a real
// process restart and an abnormal child exit is reported as "<lineno> EXIT proc=<p> status=<n>".
//
// Handles are named h0,h1,... in order of first observation (find results are bound in order of
// their CKA_LABEL so that the naming is canonical, see DESIGN.md §4.2); ops refer to them by name
// or by a raw number prefixed with '#'. Tokens are t0,t1,... (by label "tok<k>"), "tfree" is the
// uninitialised slot, "#n" a raw slot id.
#include <dlfcn.h>
#include <stdio.h>
#include <stdlib.h>
#include <string.h>
#include <unistd.h>
#include <signal.h>
#include <sys/wait.h>
#include <sys/types.h>
#include <string>
#include <vector>
#include <map>
#include <set>
#include <sstream>
#include <algorithm>

#include "cryptoki.h"

typedef std::vector<unsigned char> Bytes;

static CK_FUNCTION_LIST_PTR F = NULL;
static void *dl = NULL;
static const char *libpath = NULL;

// ---------------------------------------------------------------- utilities
static std::string hex(const unsigned char *p, size_t n)
{
	static const char *d = "0123456789abcdef";
	std::string s;
	s.reserve(2 * n);
	for (size_t i = 0; i < n; i++) { s += d[p[i] >> 4]; s += d[p[i] & 15]; }
	return s;
}
static std::string hex(const Bytes &b) { return b.empty() ? std::string("") : hex(&b[0], b.size()); }
static int hv(char c) { return c <= '9' ? c - '0' : (c | 32) - 'a' + 10; }
static Bytes unhex(const std::string &s)
{
	Bytes b;
	if (s == ".") return b; // explicit empty string
	// "r<len>:<bytehex>" = <len> repetitions of a byte (for long strings)
	if (!s.empty() && s[0] == 'r') {
		size_t c = s.find(':');
		unsigned long n = strtoul(s.substr(1, c - 1).c_str(), NULL, 10);
		unsigned char v = (unsigned char)strtoul(s.substr(c + 1).c_str(), NULL, 16);
		b.assign(n, v);
		return b;
	}
	for (size_t i = 0; i + 1 < s.size(); i += 2) b.push_back((unsigned char)(hv(s[i]) * 16 + hv(s[i + 1])));
	return b;
}
static unsigned long num(const std::string &s) { return strtoul(s.c_str(), NULL, 0); }
static std::vector<std::string> split(const std::string &s, char sep)
{
	std::vector<std::string> out;
	std::string cur;
	for (size_t i = 0; i < s.size(); i++) {
		if (s[i] == sep) { out.push_back(cur); cur.clear(); } else cur += s[i];
	}
	out.push_back(cur);
	return out;
}

// ---------------------------------------------------------------- worker state
static std::vector<CK_ULONG> hvals;               // hN -> raw
static std::map<CK_ULONG, size_t> hidx;            // raw -> N (first binding)
static std::string out;                            // current result line

static std::string bindHandle(CK_ULONG raw)
{
	std::map<CK_ULONG, size_t>::iterator it = hidx.find(raw);
	size_t n;
	if (it == hidx.end()) { n = hvals.size(); hvals.push_back(raw); hidx[raw] = n; }
	else n = it->second;
	char b[32];
	snprintf(b, sizeof b, "h%zu", n);
	return b;
}
static std::string nameOf(CK_ULONG raw)
{
	std::map<CK_ULONG, size_t>::iterator it = hidx.find(raw);
	char b[40];
	if (it == hidx.end()) snprintf(b, sizeof b, "?%lu", raw); else snprintf(b, sizeof b, "h%zu", it->second);
	return b;
}
static CK_ULONG handleArg(const std::string &s)
{
	if (s.empty()) return 0;
	if (s[0] == '#') return num(s.substr(1));
	if (s[0] == 'h') {
		size_t n = num(s.substr(1));
		if (n < hvals.size()) return hvals[n];
		return 0xFFFFFF00UL + n; // never issued
	}
	return num(s);
}

static bool tokenLabelIs(CK_SLOT_ID slot, const std::string &lab, bool &initialised)
{
	CK_TOKEN_INFO ti;
	if (F->C_GetTokenInfo(slot, &ti) != CKR_OK) return false;
	initialised = (ti.flags & CKF_TOKEN_INITIALIZED) != 0;
	std::string l((char *)ti.label, 32);
	while (!l.empty() && l[l.size() - 1] == ' ') l.erase(l.size() - 1);
	return l == lab;
}
// resolve a token argument to a slot id; returns false if not found
static bool slotArg(const std::string &s, CK_SLOT_ID &slot)
{
	if (s[0] == '#') { slot = num(s.substr(1)); return true; }
	CK_ULONG n = 0;
	if (F->C_GetSlotList(CK_FALSE, NULL, &n) != CKR_OK) return false;
	std::vector<CK_SLOT_ID> ids(n + 1);
	if (F->C_GetSlotList(CK_FALSE, &ids[0], &n) != CKR_OK) return false;
	for (CK_ULONG i = 0; i < n; i++) {
		bool ini = false;
		if (s == "tfree") {
			CK_TOKEN_INFO ti;
			if (F->C_GetTokenInfo(ids[i], &ti) == CKR_OK && !(ti.flags & CKF_TOKEN_INITIALIZED)) { slot = ids[i]; return true; }
		} else {
			std::string lab = "tok" + s.substr(1);
			if (tokenLabelIs(ids[i], lab, ini) && ini) { slot = ids[i]; return true; }
		}
	}
	return false;
}

// ---- templates --------------------------------------------------------------------------------
// item syntax:  <type>=<kind>:<payload>
//   u:<n>  CK_ULONG      b:<n> CK_BBOOL byte     x:<hex> bytes      n: pValue=NULL,len=0
//   N:<len> pValue=NULL with non-zero length     w:<n>:<len> ulong value announced with length <len>
//   m:<n>;<n>;...  mechanism array                t:<item>;<item>... nested template (items use '~' for '=' , '^' for ':')
struct Tmpl {
	std::vector<CK_ATTRIBUTE> a;
	std::vector<Bytes *> store;
	std::vector<Tmpl *> nested;
	~Tmpl() { for (size_t i = 0; i < store.size(); i++) delete store[i]; for (size_t i = 0; i < nested.size(); i++) delete nested[i]; }
	CK_ATTRIBUTE_PTR ptr() { return a.empty() ? NULL : &a[0]; }
};
static void parseItem(Tmpl &t, const std::string &item)
{
	size_t e = item.find('=');
	CK_ATTRIBUTE at;
	at.type = num(item.substr(0, e));
	std::string v = item.substr(e + 1);
	char k = v[0];
	std::string p = v.size() > 2 ? v.substr(2) : "";
	Bytes *b = new Bytes();
	t.store.push_back(b);
	if (k == 'u') { CK_ULONG x = num(p); b->resize(sizeof x); memcpy(&(*b)[0], &x, sizeof x); }
	else if (k == 'b') { b->push_back((unsigned char)num(p)); }
	else if (k == 'x') { *b = unhex(p); }
	else if (k == 'n') { at.pValue = NULL; at.ulValueLen = 0; t.a.push_back(at); return; }
	else if (k == 'N') { at.pValue = NULL; at.ulValueLen = num(p); t.a.push_back(at); return; }
	else if (k == 'w') {
		std::vector<std::string> q = split(p, ':');
		CK_ULONG x = num(q[0]); b->resize(sizeof x + 8); memcpy(&(*b)[0], &x, sizeof x);
		at.pValue = &(*b)[0]; at.ulValueLen = num(q[1]); t.a.push_back(at); return;
	}
	else if (k == 'm') {
		std::vector<std::string> q = split(p, ';');
		for (size_t i = 0; i < q.size(); i++) if (!q[i].empty()) { CK_ULONG x = num(q[i]); size_t o = b->size(); b->resize(o + sizeof x); memcpy(&(*b)[o], &x, sizeof x); }
	}
	else if (k == 't') {
		Tmpl *n = new Tmpl();
		t.nested.push_back(n);
		std::vector<std::string> q = split(p, ';');
		for (size_t i = 0; i < q.size(); i++) if (!q[i].empty()) {
			std::string it = q[i];
			std::replace(it.begin(), it.end(), '~', '=');
			std::replace(it.begin(), it.end(), '^', ':');
			parseItem(*n, it);
		}
		at.pValue = n->ptr(); at.ulValueLen = n->a.size() * sizeof(CK_ATTRIBUTE); t.a.push_back(at); return;
	}
	at.pValue = b->empty() ? (CK_VOID_PTR)"" : (CK_VOID_PTR)&(*b)[0];
	at.ulValueLen = b->size();
	t.a.push_back(at);
}
static void parseTemplate(Tmpl &t, const std::vector<std::string> &w, size_t from)
{
	for (size_t i = from; i < w.size(); i++) if (w[i].find('=') != std::string::npos) parseItem(t, w[i]);
}

// ---- mechanisms -------------------------------------------------------------------------------
// syntax: <mech>            no parameter
//         <mech>:x:<hex>    raw parameter bytes
//         <mech>:ctr:<bits>:<cbhex16>
//         <mech>:gcm:<ivhex>:<aadhex>:<tagbits>
//         <mech>:oaep:<hashalg>:<mgf>:<source>:<labelhex>
//         <mech>:pss:<hashalg>:<mgf>:<slen>
//         <mech>:ecdh:<kdf>:<pubhex>     <mech>:h:<hN>  (object handle parameter)
//         <mech>:kd:<ivhex>:<datahex>  (CK_AES_CBC_ENCRYPT_DATA_PARAMS / DES)  <mech>:sd:<datahex> (CK_KEY_DERIVATION_STRING_DATA)
struct Mech {
	CK_MECHANISM m;
	Bytes raw, d1, d2;
	CK_AES_CTR_PARAMS ctr;
	CK_GCM_PARAMS gcm;
	CK_RSA_PKCS_OAEP_PARAMS oaep;
	CK_RSA_PKCS_PSS_PARAMS pss;
	CK_ECDH1_DERIVE_PARAMS ecdh;
	CK_KEY_DERIVATION_STRING_DATA sd;
	CK_AES_CBC_ENCRYPT_DATA_PARAMS aescbc;
	CK_DES_CBC_ENCRYPT_DATA_PARAMS descbc;
	CK_OBJECT_HANDLE oh;
	bool isnull;
};
// the value output handle variables hold before a creating call: the handle of the object created last (still alive or not)
static CK_OBJECT_HANDLE presetH = 0;

static CK_MECHANISM_PTR parseMech(Mech &M, const std::string &s)
{
	std::vector<std::string> q = split(s, ':');
	memset(&M.m, 0, sizeof M.m);
	M.isnull = false;
	if (q[0] == "null") { M.isnull = true; return NULL; }
	M.m.mechanism = num(q[0]);
	M.m.pParameter = NULL; M.m.ulParameterLen = 0;
	if (q.size() < 2) return &M.m;
	const std::string &k = q[1];
	if (k == "x") { M.raw = unhex(q.size() > 2 ? q[2] : ""); M.m.pParameter = M.raw.empty() ? (CK_VOID_PTR)"" : &M.raw[0]; M.m.ulParameterLen = M.raw.size(); }
	else if (k == "ctr") {
		M.ctr.ulCounterBits = num(q[2]); Bytes cb = unhex(q[3]); cb.resize(16); memcpy(M.ctr.cb, &cb[0], 16);
		M.m.pParameter = &M.ctr; M.m.ulParameterLen = sizeof M.ctr;
	}
	else if (k == "gcm") {
		M.d1 = unhex(q[2]); M.d2 = unhex(q[3]);
		memset(&M.gcm, 0, sizeof M.gcm);
		M.gcm.pIv = M.d1.empty() ? NULL : &M.d1[0]; M.gcm.ulIvLen = M.d1.size(); M.gcm.ulIvBits = M.d1.size() * 8;
		M.gcm.pAAD = M.d2.empty() ? NULL : &M.d2[0]; M.gcm.ulAADLen = M.d2.size();
		M.gcm.ulTagBits = num(q[4]);
		M.m.pParameter = &M.gcm; M.m.ulParameterLen = sizeof M.gcm;
	}
	else if (k == "oaep") {
		M.oaep.hashAlg = num(q[2]); M.oaep.mgf = num(q[3]); M.oaep.source = num(q[4]);
		M.d1 = unhex(q.size() > 5 ? q[5] : "");
		M.oaep.pSourceData = M.d1.empty() ? NULL : &M.d1[0]; M.oaep.ulSourceDataLen = M.d1.size();
		M.m.pParameter = &M.oaep; M.m.ulParameterLen = sizeof M.oaep;
	}
	else if (k == "pss") {
		M.pss.hashAlg = num(q[2]); M.pss.mgf = num(q[3]); M.pss.sLen = num(q[4]);
		M.m.pParameter = &M.pss; M.m.ulParameterLen = sizeof M.pss;
	}
	else if (k == "ecdh") {
		M.ecdh.kdf = num(q[2]); M.d1 = unhex(q[3]);
		M.ecdh.ulSharedDataLen = 0; M.ecdh.pSharedData = NULL;
		M.ecdh.pPublicData = M.d1.empty() ? NULL : &M.d1[0]; M.ecdh.ulPublicDataLen = M.d1.size();
		M.m.pParameter = &M.ecdh; M.m.ulParameterLen = sizeof M.ecdh;
	}
	else if (k == "h") { M.oh = handleArg(q[2]); M.m.pParameter = &M.oh; M.m.ulParameterLen = sizeof M.oh; }
	else if (k == "sd") { M.d1 = unhex(q[2]); M.sd.pData = M.d1.empty() ? NULL : &M.d1[0]; M.sd.ulLen = M.d1.size(); M.m.pParameter = &M.sd; M.m.ulParameterLen = sizeof M.sd; }
	else if (k == "kd") {
		Bytes iv = unhex(q[2]); M.d1 = unhex(q[3]);
		if (iv.size() == 8) { memcpy(M.descbc.iv, &iv[0], 8); M.descbc.pData = M.d1.empty() ? NULL : &M.d1[0]; M.descbc.length = M.d1.size(); M.m.pParameter = &M.descbc; M.m.ulParameterLen = sizeof M.descbc; }
		else { iv.resize(16); memcpy(M.aescbc.iv, &iv[0], 16); M.aescbc.pData = M.d1.empty() ? NULL : &M.d1[0]; M.aescbc.length = M.d1.size(); M.m.pParameter = &M.aescbc; M.m.ulParameterLen = sizeof M.aescbc; }
	}
	return &M.m;
}

// ---- output buffers with canaries ---------------------------------------------------------------
// bufspec: "null" (NULL pointer: length query)  or  <n> (buffer of n bytes announced as n)
//          or <n>/<m> (buffer of n bytes real, announced length m — only m<=n is used)
static const unsigned char CANARY = 0xA5;
struct OutBuf {
	Bytes mem; bool isnull; CK_ULONG announced; CK_ULONG len;
	void init(const std::string &spec)
	{
		isnull = (spec == "null");
		announced = isnull ? 0 : num(spec);
		mem.assign((isnull ? 0 : announced) + 64, CANARY);
		len = announced;
	}
	CK_BYTE_PTR ptr() { return isnull ? NULL : &mem[0]; }
	// bytes beyond min(announced, reported) untouched?
	bool intact(CK_ULONG upto) const { for (size_t i = upto; i < mem.size(); i++) if (mem[i] != CANARY) return false; return true; }
	void report(CK_RV rv)
	{
		char b[64];
		snprintf(b, sizeof b, " len=%lu", (unsigned long)len); out += b;
		if (!isnull) {
			CK_ULONG w = (rv == CKR_OK && len <= announced) ? len : 0;
			out += " out=" + hex(&mem[0], w);
			out += intact(rv == CKR_OK ? std::min(len, announced) : 0) ? " ovw=0" : " ovw=1";
		}
	}
};

static void rvOut(CK_RV rv) { char b[32]; snprintf(b, sizeof b, " rv=0x%lx", (unsigned long)rv); out += b; }
static void kv(const char *k, unsigned long v) { char b[64]; snprintf(b, sizeof b, " %s=%lu", k, v); out += b; }
static void kvx(const char *k, unsigned long v) { char b[64]; snprintf(b, sizeof b, " %s=0x%lx", k, v); out += b; }

// mutex callbacks for "init cb" (plain pthread-free spin: single threaded worker, so trivial)
static CK_RV cbCreate(CK_VOID_PTR_PTR m) { *m = malloc(1); return CKR_OK; }
static CK_RV cbDestroy(CK_VOID_PTR m) { free(m); return CKR_OK; }
static CK_RV cbLock(CK_VOID_PTR) { return CKR_OK; }
static CK_RV cbUnlock(CK_VOID_PTR) { return CKR_OK; }

static std::string labelOf(CK_SESSION_HANDLE s, CK_OBJECT_HANDLE o)
{
	CK_ATTRIBUTE a = { CKA_LABEL, NULL, 0 };
	if (F->C_GetAttributeValue(s, o, &a, 1) != CKR_OK || a.ulValueLen == (CK_ULONG)-1) return "\xff?";
	Bytes b(a.ulValueLen + 1);
	a.pValue = &b[0];
	if (F->C_GetAttributeValue(s, o, &a, 1) != CKR_OK) return "\xff?";
	return std::string((char *)&b[0], a.ulValueLen);
}

typedef CK_RV (*initfn)(CK_SESSION_HANDLE, CK_MECHANISM_PTR, CK_OBJECT_HANDLE);
typedef CK_RV (*io2fn)(CK_SESSION_HANDLE, CK_BYTE_PTR, CK_ULONG, CK_BYTE_PTR, CK_ULONG_PTR);
typedef CK_RV (*finfn)(CK_SESSION_HANDLE, CK_BYTE_PTR, CK_ULONG_PTR);
typedef CK_RV (*updfn)(CK_SESSION_HANDLE, CK_BYTE_PTR, CK_ULONG);

static CK_BYTE_PTR dptr(Bytes &b) { return b.empty() ? (CK_BYTE_PTR)"" : &b[0]; }

// ---------------------------------------------------------------- one op
static void runOp(const std::vector<std::string> &w)
{
	const std::string &op = w[0];
	CK_RV rv = CKR_OK;
	if (op == "init") {
		CK_C_INITIALIZE_ARGS a;
		memset(&a, 0, sizeof a);
		if (w.size() > 1 && w[1] == "os") { a.flags = CKF_OS_LOCKING_OK; rv = F->C_Initialize(&a); }
		else if (w.size() > 1 && w[1] == "cb") { a.CreateMutex = cbCreate; a.DestroyMutex = cbDestroy; a.LockMutex = cbLock; a.UnlockMutex = cbUnlock; rv = F->C_Initialize(&a); }
		else rv = F->C_Initialize(NULL);
		rvOut(rv);
	}
	else if (op == "fini") {
		rv = F->C_Finalize(NULL); rvOut(rv);
		// handle numbers restart after a re-initialisation: names restart with them (DESIGN.md 4.2)
		if (rv == CKR_OK) { hvals.clear(); hidx.clear(); }
	}
	else if (op == "slots") {
		// canonical slot view: number of slots, and per token label (sorted) its flags
		CK_ULONG n = 0;
		rv = F->C_GetSlotList(CK_FALSE, NULL, &n);
		std::vector<CK_SLOT_ID> ids(n + 1);
		if (rv == CKR_OK) rv = F->C_GetSlotList(CK_FALSE, &ids[0], &n);
		rvOut(rv);
		if (rv == CKR_OK) {
			kv("n", n);
			std::vector<std::string> v;
			for (CK_ULONG i = 0; i < n; i++) {
				CK_TOKEN_INFO ti;
				if (F->C_GetTokenInfo(ids[i], &ti) != CKR_OK) { v.push_back("?"); continue; }
				std::string l((char *)ti.label, 32);
				while (!l.empty() && l[l.size() - 1] == ' ') l.erase(l.size() - 1);
				char b[96];
				snprintf(b, sizeof b, "%s/0x%lx", (ti.flags & CKF_TOKEN_INITIALIZED) ? l.c_str() : "-", (unsigned long)ti.flags);
				v.push_back(b);
			}
			std::sort(v.begin(), v.end());
			out += " toks=";
			for (size_t i = 0; i < v.size(); i++) { if (i) out += ","; out += v[i]; }
		}
	}
	else if (op == "tokeninfo") {
		CK_SLOT_ID slot;
		if (!slotArg(w[1], slot)) { out += " rv=noslot"; return; }
		CK_TOKEN_INFO ti;
		rv = F->C_GetTokenInfo(slot, &ti);
		rvOut(rv);
		if (rv == CKR_OK) {
			kvx("flags", ti.flags);
			out += " label=" + hex(ti.label, 32);
			out += " serial=" + hex(ti.serialNumber, 16);
			kv("slotid", slot);
			kv("minpin", ti.ulMinPinLen); kv("maxpin", ti.ulMaxPinLen);
		}
	}
	else if (op == "inittoken") {
		// inittoken <tok|tfree|#slot> <sopinhex|null> <label (ascii, padded to 32)>
		CK_SLOT_ID slot;
		if (!slotArg(w[1], slot)) { out += " rv=noslot"; return; }
		Bytes pin = unhex(w[2] == "null" ? "" : w[2]);
		unsigned char lab[32];
		memset(lab, ' ', 32);
		bool nullLabel = w.size() > 3 && w[3] == "nulllabel";
		if (w.size() > 3) memcpy(lab, w[3].data(), std::min((size_t)32, w[3].size()));
		rv = F->C_InitToken(slot, w[2] == "null" ? NULL : dptr(pin), pin.size(), nullLabel ? NULL : lab);
		rvOut(rv);
	}
	else if (op == "open") {
		// open <tok> <ro|rw|flags-number>
		CK_SLOT_ID slot;
		if (!slotArg(w[1], slot)) { out += " rv=noslot"; return; }
		CK_FLAGS fl = w[2] == "ro" ? CKF_SERIAL_SESSION : w[2] == "rw" ? (CKF_SERIAL_SESSION | CKF_RW_SESSION) : num(w[2]);
		CK_SESSION_HANDLE h = 0;
		rv = F->C_OpenSession(slot, fl, NULL, NULL, &h);
		rvOut(rv);
		if (rv == CKR_OK) { out += " h=" + bindHandle(h); kv("raw", h); }
	}
	else if (op == "close") { rv = F->C_CloseSession(handleArg(w[1])); rvOut(rv); }
	else if (op == "closeall") {
		CK_SLOT_ID slot;
		if (!slotArg(w[1], slot)) { out += " rv=noslot"; return; }
		rv = F->C_CloseAllSessions(slot); rvOut(rv);
	}
	else if (op == "sinfo") {
		CK_SESSION_INFO si;
		rv = F->C_GetSessionInfo(handleArg(w[1]), &si);
		rvOut(rv);
		if (rv == CKR_OK) {
			kv("state", si.state); kvx("flags", si.flags); kv("slot", si.slotID);
			CK_TOKEN_INFO ti;
			if (F->C_GetTokenInfo(si.slotID, &ti) == CKR_OK) {
				std::string l((char *)ti.label, 32);
				while (!l.empty() && l[l.size() - 1] == ' ') l.erase(l.size() - 1);
				out += " tok=" + l;
			}
		}
	}
	else if (op == "login") {
		// login <hS> <utype> <pinhex|null>
		Bytes pin = unhex(w[3] == "null" ? "" : w[3]);
		rv = F->C_Login(handleArg(w[1]), num(w[2]), w[3] == "null" ? NULL : dptr(pin), pin.size());
		rvOut(rv);
	}
	else if (op == "logout") { rv = F->C_Logout(handleArg(w[1])); rvOut(rv); }
	else if (op == "initpin") {
		Bytes pin = unhex(w[2] == "null" ? "" : w[2]);
		rv = F->C_InitPIN(handleArg(w[1]), w[2] == "null" ? NULL : dptr(pin), pin.size());
		rvOut(rv);
	}
	else if (op == "setpin") {
		Bytes o = unhex(w[2] == "null" ? "" : w[2]), n = unhex(w[3] == "null" ? "" : w[3]);
		rv = F->C_SetPIN(handleArg(w[1]), w[2] == "null" ? NULL : dptr(o), o.size(), w[3] == "null" ? NULL : dptr(n), n.size());
		rvOut(rv);
	}
	else if (op == "create") {
		Tmpl t; parseTemplate(t, w, 2);
		CK_OBJECT_HANDLE h = presetH;   // an application's output variable may hold anything, e.g. a live handle
		rv = F->C_CreateObject(handleArg(w[1]), t.ptr(), t.a.size(), &h);
		rvOut(rv);
		if (rv == CKR_OK) { out += " h=" + bindHandle(h); kv("raw", h); presetH = h; }
	}
	else if (op == "copy") {
		Tmpl t; parseTemplate(t, w, 3);
		CK_OBJECT_HANDLE h = presetH;   // an application's output variable may hold anything, e.g. a live handle
		CK_ATTRIBUTE dummy;
		rv = F->C_CopyObject(handleArg(w[1]), handleArg(w[2]), t.a.empty() ? &dummy : t.ptr(), t.a.size(), &h);
		rvOut(rv);
		if (rv == CKR_OK) { out += " h=" + bindHandle(h); kv("raw", h); presetH = h; }
	}
	else if (op == "destroy") { rv = F->C_DestroyObject(handleArg(w[1]), handleArg(w[2])); rvOut(rv); }
	else if (op == "objsize") {
		CK_ULONG sz = 12345;
		rv = F->C_GetObjectSize(handleArg(w[1]), handleArg(w[2]), &sz); rvOut(rv);
		if (rv == CKR_OK) kvx("size", sz);
	}
	else if (op == "setattr") {
		Tmpl t; parseTemplate(t, w, 3);
		CK_ATTRIBUTE dummy;
		rv = F->C_SetAttributeValue(handleArg(w[1]), handleArg(w[2]), t.a.empty() ? &dummy : t.ptr(), t.a.size());
		rvOut(rv);
	}
	else if (op == "getattr") {
		// getattr <hS> <hO> <type>:<bufspec> ...   bufspec = null | <n>
		std::vector<CK_ATTRIBUTE> a;
		std::vector<Bytes *> bufs;
		for (size_t i = 3; i < w.size(); i++) {
			std::vector<std::string> q = split(w[i], ':');
			CK_ATTRIBUTE at;
			at.type = num(q[0]);
			Bytes *b = new Bytes();
			bufs.push_back(b);
			if (q[1] == "null") { at.pValue = NULL; at.ulValueLen = q.size() > 2 ? num(q[2]) : 0; b->assign(64, CANARY); }
			else { CK_ULONG n = num(q[1]); b->assign(n + 64, CANARY); at.pValue = &(*b)[0]; at.ulValueLen = n; }
			a.push_back(at);
		}
		std::vector<CK_ATTRIBUTE> before = a;
		CK_ATTRIBUTE dummy;
		rv = F->C_GetAttributeValue(handleArg(w[1]), handleArg(w[2]), a.empty() ? &dummy : &a[0], a.size());
		rvOut(rv);
		for (size_t i = 0; i < a.size(); i++) {
			char b[64];
			CK_ULONG ann = before[i].pValue ? before[i].ulValueLen : 0;
			CK_ULONG l = a[i].ulValueLen;
			// what was written into the caller's buffer (up to the announced length) and whether anything beyond changed
			size_t wr = 0;
			for (size_t j = 0; j < bufs[i]->size(); j++) if ((*bufs[i])[j] != CANARY) wr = j + 1;
			snprintf(b, sizeof b, " 0x%lx:", (unsigned long)a[i].type); out += b;
			if (l == (CK_ULONG)-1) out += "-1"; else { snprintf(b, sizeof b, "%lu", (unsigned long)l); out += b; }
			out += ":";
			if (before[i].pValue && l != (CK_ULONG)-1 && l <= ann) out += hex(&(*bufs[i])[0], l);
			else if (wr > 0) out += "W" + hex(&(*bufs[i])[0], std::min(wr, (size_t)ann)); // wrote although it reports failure/size
			bool over = false;
			for (size_t j = ann; j < bufs[i]->size(); j++) if ((*bufs[i])[j] != CANARY) over = true;
			if (over) out += "!OVW";
		}
		for (size_t i = 0; i < bufs.size(); i++) delete bufs[i];
	}
	else if (op == "findinit") {
		Tmpl t; parseTemplate(t, w, 2);
		bool nulltmpl = (w.size() > 2 && w[2] == "nulltmpl");
		rv = F->C_FindObjectsInit(handleArg(w[1]), nulltmpl ? NULL : t.ptr(), nulltmpl ? num(w[3]) : t.a.size());
		rvOut(rv);
	}
	else if (op == "find") {
		// find <hS> <max>  -> objs=<names sorted by handle index>, new handles bound in label order
		CK_ULONG mx = num(w[2]), n = 77;
		std::vector<CK_OBJECT_HANDLE> hs(mx + 1, 0);
		CK_SESSION_HANDLE s = handleArg(w[1]);
		rv = F->C_FindObjects(s, &hs[0], mx, &n);
		rvOut(rv);
		if (rv == CKR_OK) {
			kv("n", n);
			bool asc = true, dup = false;
			for (CK_ULONG i = 1; i < n && i < mx + 1; i++) { if (hs[i] <= hs[i - 1]) asc = false; }
			std::set<CK_ULONG> seen;
			for (CK_ULONG i = 0; i < n && i <= mx; i++) { if (seen.count(hs[i])) dup = true; seen.insert(hs[i]); }
			// bind unknown handles in label order
			std::vector<std::pair<std::string, CK_ULONG> > unk;
			for (CK_ULONG i = 0; i < n && i <= mx; i++) if (!hidx.count(hs[i])) unk.push_back(std::make_pair(labelOf(s, hs[i]), hs[i]));
			std::sort(unk.begin(), unk.end());
			for (size_t i = 0; i < unk.size(); i++) bindHandle(unk[i].second);
			std::vector<size_t> idx;
			for (CK_ULONG i = 0; i < n && i <= mx; i++) idx.push_back(hidx[hs[i]]);
			std::sort(idx.begin(), idx.end());
			out += " objs=";
			for (size_t i = 0; i < idx.size(); i++) { char b[32]; snprintf(b, sizeof b, "%sh%zu", i ? "," : "", idx[i]); out += b; }
			out += " newlabels=";
			for (size_t i = 0; i < unk.size(); i++) { if (i) out += ","; out += hex((const unsigned char *)unk[i].first.data(), unk[i].first.size()); }
			out += asc ? " asc=1" : " asc=0";
			out += dup ? " dup=1" : " dup=0";
			out += " raws=";
			for (CK_ULONG i = 0; i < n && i <= mx; i++) { char b[32]; snprintf(b, sizeof b, "%s%lu", i ? "," : "", (unsigned long)hs[i]); out += b; }
			out += " pairs=";
			for (CK_ULONG i = 0; i < n && i <= mx; i++) { char b[48]; snprintf(b, sizeof b, "%sh%zu:%lu", i ? "," : "", hidx[hs[i]], (unsigned long)hs[i]); out += b; }
		}
	}
	else if (op == "findseq") {
		// findseq <hS> <max1> <max2> ...  -> consecutive C_FindObjects calls; names of handles first seen
		// anywhere in this search are bound in label order over the UNION of the batches (the split of
		// freshly registered handles over batches depends on heap addresses, the union does not)
		CK_SESSION_HANDLE s = handleArg(w[1]);
		std::vector<CK_OBJECT_HANDLE> all;
		std::string ns;
		bool asc = true, dup = false, over = false;
		rv = CKR_OK;
		for (size_t b = 2; b < w.size(); b++) {
			CK_ULONG mx = num(w[b]), n = 77;
			std::vector<CK_OBJECT_HANDLE> hs(mx + 1, 0);
			rv = F->C_FindObjects(s, &hs[0], mx, &n);
			if (rv != CKR_OK) break;
			if (n > mx) { over = true; n = mx; }
			char nb[32]; snprintf(nb, sizeof nb, "%s%lu", ns.empty() ? "" : ",", (unsigned long)n); ns += nb;
			for (CK_ULONG i = 0; i < n; i++) all.push_back(hs[i]);
		}
		rvOut(rv);
		if (rv == CKR_OK) {
			for (size_t i = 1; i < all.size(); i++) if (all[i] <= all[i - 1]) asc = false;
			std::set<CK_ULONG> seen;
			for (size_t i = 0; i < all.size(); i++) { if (seen.count(all[i])) dup = true; seen.insert(all[i]); }
			std::vector<std::pair<std::string, CK_ULONG> > unk;
			for (size_t i = 0; i < all.size(); i++) if (!hidx.count(all[i])) unk.push_back(std::make_pair(labelOf(s, all[i]), all[i]));
			std::sort(unk.begin(), unk.end());
			unk.erase(std::unique(unk.begin(), unk.end()), unk.end());
			for (size_t i = 0; i < unk.size(); i++) bindHandle(unk[i].second);
			std::vector<size_t> idx;
			for (size_t i = 0; i < all.size(); i++) idx.push_back(hidx[all[i]]);
			std::sort(idx.begin(), idx.end());
			out += " ns=" + ns;
			kv("n", all.size());
			out += " objs=";
			for (size_t i = 0; i < idx.size(); i++) { char b[32]; snprintf(b, sizeof b, "%sh%zu", i ? "," : "", idx[i]); out += b; }
			out += " newlabels=";
			for (size_t i = 0; i < unk.size(); i++) { if (i) out += ","; out += hex((const unsigned char *)unk[i].first.data(), unk[i].first.size()); }
			out += asc ? " asc=1" : " asc=0";
			out += dup ? " dup=1" : " dup=0";
			out += over ? " over=1" : " over=0";
			out += " raws=";
			for (size_t i = 0; i < all.size(); i++) { char b[32]; snprintf(b, sizeof b, "%s%lu", i ? "," : "", (unsigned long)all[i]); out += b; }
			out += " pairs=";
			for (size_t i = 0; i < all.size(); i++) { char b[48]; snprintf(b, sizeof b, "%sh%zu:%lu", i ? "," : "", hidx[all[i]], (unsigned long)all[i]); out += b; }
		}
	}
	else if (op == "findfinal") { rv = F->C_FindObjectsFinal(handleArg(w[1])); rvOut(rv); }
	else if (op == "genkey") {
		// genkey <hS> <mech> <template...>
		Mech M; CK_MECHANISM_PTR m = parseMech(M, w[2]);
		Tmpl t; parseTemplate(t, w, 3);
		CK_OBJECT_HANDLE h = presetH;   // an application's output variable may hold anything, e.g. a live handle
		rv = F->C_GenerateKey(handleArg(w[1]), m, t.ptr(), t.a.size(), &h);
		rvOut(rv);
		if (rv == CKR_OK) { out += " h=" + bindHandle(h); kv("raw", h); presetH = h; }
	}
	else if (op == "genpair") {
		// genpair <hS> <mech> <pubtemplate...> -- <privtemplate...>
		Mech M; CK_MECHANISM_PTR m = parseMech(M, w[2]);
		std::vector<std::string> a, b; bool second = false;
		a.push_back(""); b.push_back("");
		for (size_t i = 3; i < w.size(); i++) { if (w[i] == "--") { second = true; continue; } (second ? b : a).push_back(w[i]); }
		Tmpl tp, ts; parseTemplate(tp, a, 1); parseTemplate(ts, b, 1);
		CK_OBJECT_HANDLE hp = presetH, hs = presetH;
		rv = F->C_GenerateKeyPair(handleArg(w[1]), m, tp.ptr(), tp.a.size(), ts.ptr(), ts.a.size(), &hp, &hs);
		rvOut(rv);
		if (rv == CKR_OK) { out += " pub=" + bindHandle(hp); out += " priv=" + bindHandle(hs); kv("rawpub", hp); kv("rawpriv", hs); presetH = hs; }
	}
	else if (op == "encinit" || op == "decinit" || op == "signinit" || op == "verifyinit") {
		Mech M; CK_MECHANISM_PTR m = parseMech(M, w[2]);
		initfn f = op == "encinit" ? F->C_EncryptInit : op == "decinit" ? F->C_DecryptInit : op == "signinit" ? F->C_SignInit : F->C_VerifyInit;
		rv = f(handleArg(w[1]), m, handleArg(w[3]));
		rvOut(rv);
	}
	else if (op == "digestinit") { Mech M; CK_MECHANISM_PTR m = parseMech(M, w[2]); rv = F->C_DigestInit(handleArg(w[1]), m); rvOut(rv); }
	else if (op == "enc" || op == "dec" || op == "sign" || op == "digest" || op == "encupd" || op == "decupd") {
		// <op> <hS> <datahex> <bufspec>      ("nulldata" => NULL data pointer)
		Bytes d = unhex(w[2] == "nulldata" ? "" : w[2]);
		OutBuf o; o.init(w[3]);
		io2fn f = op == "enc" ? F->C_Encrypt : op == "dec" ? F->C_Decrypt : op == "sign" ? F->C_Sign : op == "digest" ? F->C_Digest : op == "encupd" ? F->C_EncryptUpdate : F->C_DecryptUpdate;
		rv = f(handleArg(w[1]), w[2] == "nulldata" ? NULL : dptr(d), d.size(), o.ptr(), (w.size() > 4 && w[4] == "nulllen") ? NULL : &o.len);
		rvOut(rv);
		if (rv == CKR_OK || rv == CKR_BUFFER_TOO_SMALL) o.report(rv);
		else out += o.intact(0) ? " ovw=0" : " ovw=1";
	}
	else if (op == "encfin" || op == "decfin" || op == "signfin" || op == "digestfin") {
		OutBuf o; o.init(w[2]);
		finfn f = op == "encfin" ? F->C_EncryptFinal : op == "decfin" ? F->C_DecryptFinal : op == "signfin" ? F->C_SignFinal : F->C_DigestFinal;
		rv = f(handleArg(w[1]), o.ptr(), (w.size() > 3 && w[3] == "nulllen") ? NULL : &o.len);
		rvOut(rv);
		if (rv == CKR_OK || rv == CKR_BUFFER_TOO_SMALL) o.report(rv);
		else out += o.intact(0) ? " ovw=0" : " ovw=1";
	}
	else if (op == "signupd" || op == "verifyupd" || op == "digestupd") {
		Bytes d = unhex(w[2] == "nulldata" ? "" : w[2]);
		updfn f = op == "signupd" ? F->C_SignUpdate : op == "verifyupd" ? F->C_VerifyUpdate : F->C_DigestUpdate;
		rv = f(handleArg(w[1]), w[2] == "nulldata" ? NULL : dptr(d), d.size());
		rvOut(rv);
	}
	else if (op == "digestkey") { rv = F->C_DigestKey(handleArg(w[1]), handleArg(w[2])); rvOut(rv); }
	else if (op == "verify") {
		Bytes d = unhex(w[2]), s = unhex(w[3]);
		rv = F->C_Verify(handleArg(w[1]), dptr(d), d.size(), dptr(s), s.size()); rvOut(rv);
	}
	else if (op == "verifyfin") { Bytes s = unhex(w[2]); rv = F->C_VerifyFinal(handleArg(w[1]), dptr(s), s.size()); rvOut(rv); }
	else if (op == "wrap") {
		// wrap <hS> <mech> <hWrapping> <hKey> <bufspec>
		Mech M; CK_MECHANISM_PTR m = parseMech(M, w[2]);
		OutBuf o; o.init(w[5]);
		rv = F->C_WrapKey(handleArg(w[1]), m, handleArg(w[3]), handleArg(w[4]), o.ptr(), &o.len);
		rvOut(rv);
		if (rv == CKR_OK || rv == CKR_BUFFER_TOO_SMALL) o.report(rv);
	}
	else if (op == "unwrap") {
		// unwrap <hS> <mech> <hUnwrapping> <wrappedhex> <template...>
		Mech M; CK_MECHANISM_PTR m = parseMech(M, w[2]);
		Bytes d = unhex(w[4]);
		Tmpl t; parseTemplate(t, w, 5);
		CK_OBJECT_HANDLE h = presetH;   // an application's output variable may hold anything, e.g. a live handle
		rv = F->C_UnwrapKey(handleArg(w[1]), m, handleArg(w[3]), dptr(d), d.size(), t.ptr(), t.a.size(), &h);
		rvOut(rv);
		if (rv == CKR_OK) { out += " h=" + bindHandle(h); kv("raw", h); presetH = h; }
	}
	else if (op == "derive") {
		// derive <hS> <mech> <hBase> <template...>
		Mech M; CK_MECHANISM_PTR m = parseMech(M, w[2]);
		Tmpl t; parseTemplate(t, w, 4);
		CK_OBJECT_HANDLE h = presetH;   // an application's output variable may hold anything, e.g. a live handle
		rv = F->C_DeriveKey(handleArg(w[1]), m, handleArg(w[3]), t.ptr(), t.a.size(), &h);
		rvOut(rv);
		if (rv == CKR_OK) { out += " h=" + bindHandle(h); kv("raw", h); presetH = h; }
	}
	else if (op == "mechlist") {
		CK_SLOT_ID slot;
		if (!slotArg(w[1], slot)) { out += " rv=noslot"; return; }
		CK_ULONG n = 0;
		rv = F->C_GetMechanismList(slot, NULL, &n);
		// count-then-fetch: a buffer of exactly the announced count, followed by canaries
		const CK_MECHANISM_TYPE CAN = (CK_MECHANISM_TYPE)0xA5A5A5A5A5A5A5A5UL;
		CK_ULONG n0 = n;
		std::vector<CK_MECHANISM_TYPE> ms(n + 64, CAN);
		if (rv == CKR_OK) rv = F->C_GetMechanismList(slot, &ms[0], &n);
		rvOut(rv);
		bool over = false;
		for (CK_ULONG i = n0; i < n0 + 64; i++) if (ms[i] != CAN) over = true;
		if (over) out += " ovw=1";
		if (rv == CKR_OK && n != n0) { kv("count_first", n0); kv("count_second", n); }
		if (rv == CKR_OK && n <= n0) { std::sort(ms.begin(), ms.begin() + n); out += " mechs="; for (CK_ULONG i = 0; i < n; i++) { char b[32]; snprintf(b, sizeof b, "%s0x%lx", i ? "," : "", (unsigned long)ms[i]); out += b; } }
	}
	else if (op == "mechinfo") {
		CK_SLOT_ID slot;
		if (!slotArg(w[1], slot)) { out += " rv=noslot"; return; }
		CK_MECHANISM_INFO mi;
		rv = F->C_GetMechanismInfo(slot, num(w[2]), &mi);
		rvOut(rv);
		if (rv == CKR_OK) { kv("min", mi.ulMinKeySize); kv("max", mi.ulMaxKeySize); kvx("flags", mi.flags); }
	}
	else if (op == "random") {
		Bytes b(num(w[2]) + 1);
		rv = F->C_GenerateRandom(handleArg(w[1]), &b[0], num(w[2])); rvOut(rv);
	}
	else if (op == "seed") { Bytes d = unhex(w[2]); rv = F->C_SeedRandom(handleArg(w[1]), dptr(d), d.size()); rvOut(rv); }
	else if (op == "opstate") { CK_ULONG l = 0; rv = F->C_GetOperationState(handleArg(w[1]), NULL, &l); rvOut(rv); }
	else if (op == "handles") {
		// dump the naming table (debug)
		for (size_t i = 0; i < hvals.size(); i++) { char b[48]; snprintf(b, sizeof b, " h%zu=%lu", i, (unsigned long)hvals[i]); out += b; }
	}
	else { out += " rv=unknown-op"; }
	(void)nameOf;
}

// ---------------------------------------------------------------- worker loop (child process)
static int workerMain(int rfd, int wfd)
{
	dl = dlopen(libpath, RTLD_NOW | RTLD_LOCAL);
	if (!dl) { fprintf(stderr, "dlopen: %s\n", dlerror()); return 97; }
	CK_C_GetFunctionList gfl = (CK_C_GetFunctionList)dlsym(dl, "C_GetFunctionList");
	if (!gfl || gfl(&F) != CKR_OK) return 98;
	FILE *in = fdopen(rfd, "r");
	char *line = NULL; size_t cap = 0; ssize_t n;
	while ((n = getline(&line, &cap, in)) > 0) {
		while (n > 0 && (line[n - 1] == '\n' || line[n - 1] == '\r')) line[--n] = 0;
		std::vector<std::string> w;
		std::istringstream ss(line);
		std::string tok;
		while (ss >> tok) w.push_back(tok);
		out.clear();
		if (!w.empty() && w[0] == "endproc") {
			// the application ends the ordinary way: `endproc exit` = exit() with the library still loaded (static destructors
			// and atexit handlers run), `endproc dlclose` = dlclose() of the library first.  No reply: the parent reads the status.
			fflush(NULL);
			if (w.size() > 1 && w[1] == "dlclose") { dlclose(dl); }
			exit(0);
		}
		if (!w.empty()) runOp(w);
		out += "\n";
		if (write(wfd, out.data(), out.size()) < 0) return 99;
	}
	// do not call C_Finalize: a process may die with the library initialised
	_exit(0);
}

struct Worker { pid_t pid; int to, from; FILE *fr; };
static std::map<int, Worker> workers;

static Worker &getWorker(int p)
{
	std::map<int, Worker>::iterator it = workers.find(p);
	if (it != workers.end()) return it->second;
	int a[2], b[2];
	if (pipe(a) || pipe(b)) { perror("pipe"); exit(2); }
	fflush(stdout);
	pid_t pid = fork();
	if (pid == 0) {
		close(a[1]); close(b[0]);
		for (std::map<int, Worker>::iterator j = workers.begin(); j != workers.end(); ++j) { close(j->second.to); close(j->second.from); }
		_exit(workerMain(a[0], b[1]));
	}
	close(a[0]); close(b[1]);
	Worker wk; wk.pid = pid; wk.to = a[1]; wk.from = b[0]; wk.fr = fdopen(b[0], "r");
	workers[p] = wk;
	return workers[p];
}
static void killWorker(int p, unsigned long lineno, bool report)
{
	std::map<int, Worker>::iterator it = workers.find(p);
	if (it == workers.end()) return;
	close(it->second.to);
	int st = 0;
	waitpid(it->second.pid, &st, 0);
	fclose(it->second.fr);
	if (report && !(WIFEXITED(st) && WEXITSTATUS(st) == 0))
		printf("%lu EXIT proc=%d status=%d signal=%d\n", lineno, p, WIFEXITED(st) ? WEXITSTATUS(st) : -1, WIFSIGNALED(st) ? WTERMSIG(st) : 0);
	workers.erase(it);
}

int main(int argc, char **argv)
{
	if (argc < 3) { fprintf(stderr, "usage: p11drv <lib.so> <opsfile|->\n"); return 2; }
	libpath = argv[1];
	signal(SIGPIPE, SIG_IGN);
	FILE *in = strcmp(argv[2], "-") ? fopen(argv[2], "r") : stdin;
	if (!in) { perror(argv[2]); return 2; }
	char *line = NULL; size_t cap = 0; ssize_t n;
	unsigned long lineno = 0;
	while ((n = getline(&line, &cap, in)) > 0) {
		lineno++;
		while (n > 0 && (line[n - 1] == '\n' || line[n - 1] == '\r')) line[--n] = 0;
		if (n == 0 || line[0] == ';') continue; // blank or comment (';' so that '#' can stay a raw-number prefix)
		int p = 0;
		char *s = line;
		if (*s == '@') { p = atoi(s + 1); while (*s && *s != ' ') s++; while (*s == ' ') s++; }
		char opname[64];
		sscanf(s, "%63s", opname);
		if (!strcmp(opname, "newproc")) { killWorker(p, lineno, true); printf("%lu newproc rv=0x0\n", lineno); if (in == stdin) fflush(stdout); continue; }
		Worker &wk = getWorker(p);
		std::string msg = std::string(s) + "\n";
		bool dead = write(wk.to, msg.data(), msg.size()) < 0;
		char *resp = NULL; size_t rc = 0;
		if (!dead && !strcmp(opname, "endproc")) {
			int st = 0;
			waitpid(wk.pid, &st, 0);
			printf("%lu endproc rv=%s status=%d signal=%d\n", lineno, (WIFEXITED(st) && WEXITSTATUS(st) == 0) ? "0x0" : "DIED", WIFEXITED(st) ? WEXITSTATUS(st) : -1, WIFSIGNALED(st) ? WTERMSIG(st) : 0);
			close(wk.to); fclose(wk.fr); workers.erase(p);
		} else if (!dead && getline(&resp, &rc, wk.fr) > 0) {
			printf("%lu %s%s", lineno, opname, resp);
		} else {
			// the worker died while executing this op
			int st = 0;
			waitpid(wk.pid, &st, 0);
			printf("%lu %s rv=DIED status=%d signal=%d\n", lineno, opname, WIFEXITED(st) ? WEXITSTATUS(st) : -1, WIFSIGNALED(st) ? WTERMSIG(st) : 0);
			close(wk.to); fclose(wk.fr); workers.erase(p);
		}
		free(resp);
		if (in == stdin) fflush(stdout);
	}
	std::vector<int> ps;
	for (std::map<int, Worker>::iterator it = workers.begin(); it != workers.end(); ++it) ps.push_back(it->first);
	for (size_t i = 0; i < ps.size(); i++) killWorker(ps[i], lineno + 1, true);
	return 0;
}
