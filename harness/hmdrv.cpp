// hmdrv: runs HandleManager (compiled from /repo's current source) on operation sequences read from stdin, one sequence
// per line, and prints for each: the returned values, the live handle values (probed with getSession / getObject over
// 1..counter+2) and the next fresh handle.  Compared with coq/Conc/HandleLife.v evaluated by coqc on the same sequences.
// ops:  s <slot> <ptr> | o <slot> <hsess> <priv> <ptr> | t <slot> <priv> <ptr> | d <h> | c <h> | a <slot> | l <slot>
#include "config.h"
#include "HandleManager.h"
#include "MutexFactory.h"
#include <memory>
#include <cstdio>
#include <cstring>
#include <sstream>
#include <iostream>
#include <string>
#include <vector>
#ifdef HAVE_CXX11
std::unique_ptr<MutexFactory> MutexFactory::instance(nullptr);
#else
std::auto_ptr<MutexFactory> MutexFactory::instance(NULL);
#endif
void softHSMLog(const int, const char*, const char*, const int, const char*, ...) {}
int main()
{
	std::string line;
	while (std::getline(std::cin, line)) {
		HandleManager hm;
		std::istringstream in(line);
		std::string op;
		unsigned long issued = 0;
		std::ostringstream out;
		out << "rv";
		while (in >> op) {
			unsigned long a = 0, b = 0, c = 0, d = 0, r = 0;
			if (op == "s") { in >> a >> b; r = hm.addSession(a, (CK_VOID_PTR)b); }
			else if (op == "o") { in >> a >> b >> c >> d; r = hm.addSessionObject(a, b, c != 0, (CK_VOID_PTR)d); }
			else if (op == "t") { in >> a >> c >> d; r = hm.addTokenObject(a, c != 0, (CK_VOID_PTR)d); }
			else if (op == "d") { in >> a; hm.destroyObject(a); }
			else if (op == "c") { in >> a; hm.sessionClosed(a); }
			else if (op == "a") { in >> a; hm.allSessionsClosed(a); }
			else if (op == "l") { in >> a; hm.tokenLoggedOut(a); }
			else continue;
			if (r > issued) issued = r;
			out << " " << r;
		}
		out << " live";
		for (unsigned long h = 1; h <= issued + 2; h++)
			if (hm.getSession(h) != NULL_PTR || hm.getObject(h) != NULL_PTR) out << " " << h;
		unsigned long fresh = hm.addSession(999999, (CK_VOID_PTR)1);
		out << " next " << fresh;
		puts(out.str().c_str());
	}
	return 0;
}
